import Pi2.ClauseProver
/-!
# The generated prover WITH proof objects answers wherever the model answers

`Pi2/ClauseProver.lean` shows that whatever the generated prover with proof objects answers is right.  Here, conversely:
where the model `proveTautology` answers, the generated `prove_tautology` with proof objects (over the generated
`prove_trivial_clause` and `build_proof_from_hint`) answers the same verdict at every sufficiently large fuel — none of its
proof constructions fails.

* `resolution_algorithm_pos`: the saturation loop only records POSITIVE resolvants (and only derives clauses without the
  literal `0`) — what the hint bookkeeping invariant `TautTie.WF` does not say, and what `build_proof_from_hint` needs
  (`id_to_metavar(-r) = neg(id_to_metavar(r))`);
* `bpfh_total`: on a well-founded hint (`TautTie.WF`, `TautTie.resolution_algorithm_complete`) with positive resolvants,
  `build_proof_from_hint` with proof objects does not raise;
* `sra_total`, `stage_prover_complete`.
-/
set_option linter.unusedSimpArgs false
open Pat

namespace ClauseThm
open Lem StageSup Gen.PyTaut TautSup TautTie StageThm

/-- a recorded resolvant is positive, a recorded index is not negative -/
def EntryPos : Sum ResolutionHintSource Int → Prop
  | .inl s => 0 < s.resolvant
  | .inr idx => 0 ≤ idx

/-- every recorded resolvant is positive, every recorded index non-negative -/
def HintPos (hint : StageThm.Hint) : Prop := ∀ e ∈ hint, EntryPos e.2

/-- no clause set contains the literal `0` -/
def AllNZ (l : List FrozenSet) : Prop := ∀ c ∈ l, Res.NoZero c

theorem mem_dictSet (k : FrozenSet) (v : Sum ResolutionHintSource Int) : ∀ (d : StageThm.Hint) (e), e ∈ dictSet d k v → e ∈ d ∨ e.2 = v := by
  intro d
  induction d with
  | nil => intro e he; simp [dictSet] at he; subst he; exact Or.inr rfl
  | cons p d ih =>
    intro e he
    obtain ⟨k', v'⟩ := p
    simp only [dictSet] at he
    split at he
    · simp only [List.mem_cons] at he
      rcases he with rfl | he
      · exact Or.inr rfl
      · exact Or.inl (List.mem_cons_of_mem _ he)
    · simp only [List.mem_cons] at he
      rcases he with rfl | he
      · exact Or.inl List.mem_cons_self
      · rcases ih e he with h | h
        · exact Or.inl (List.mem_cons_of_mem _ h)
        · exact Or.inr h

theorem HintPos_set (d : StageThm.Hint) (k : FrozenSet) (v : Sum ResolutionHintSource Int) (h : HintPos d)
    (hv : EntryPos v) : HintPos (dictSet d k v) := by
  intro e he
  rcases mem_dictSet k v d e he with h' | h'
  · exact h e h'
  · rw [h']; exact hv

abbrev LoopOut := Ctl (Bool × StageThm.Hint × List FrozenSet) (StageThm.Hint × List FrozenSet)

def outHint : LoopOut → StageThm.Hint
  | .ret r => r.2.1
  | .go s => s.1

def outList : LoopOut → List FrozenSet
  | .ret r => r.2.2
  | .go s => s.2

/-- the inner loop of `resolution_algorithm` keeps the resolvants positive and the clause sets free of `0` -/
theorem for2_pos (cl1 : FrozenSet) (h1 : Res.NoZero cl1) : ∀ (fuel i : Nat) (hint : StageThm.Hint) (l : List FrozenSet)
    (o : LoopOut), resolution_algorithm_for2 cl1 fuel i hint l = some o → HintPos hint → AllNZ l →
    HintPos (outHint o) ∧ AllNZ (outList o) := by
  intro fuel
  induction fuel with
  | zero => intro i hint l o h; simp [resolution_algorithm_for2] at h
  | succ f ih =>
    intro i hint l o h hp hz
    rw [resolution_algorithm_for2] at h
    cases hj : l[i]? with
    | none =>
      simp only [hj, Option.pure_def, Option.some.injEq] at h
      subst h; exact ⟨hp, hz⟩
    | some cl2 =>
      have h2 : Res.NoZero cl2 := hz cl2 (List.mem_of_getElem? hj)
      simp only [hj, Option.pure_def, Option.bind_eq_bind, resolvable_eq, Option.bind_some] at h
      by_cases hc : (cl2 == cl1) = true
      · simp only [hc, if_true, Option.some.injEq] at h
        subst h; exact ⟨hp, hz⟩
      · simp only [hc, Bool.false_eq_true, if_false] at h
        cases hr : Res.resolvable cl1 cl2 with
        | none =>
          simp only [hr, Option.isNone_none, if_true] at h
          exact ih _ _ _ _ h hp hz
        | some pr =>
          obtain ⟨r, res⟩ := pr
          have hres : Res.NoZero res := Res.resolvent_noZero cl1 cl2 r res hr h1 h2
          have hr0 : r ≠ 0 := h2 r (Res.resolvable_clash cl1 cl2 r res hr).1
          simp only [hr, Option.isNone_some, Bool.false_eq_true, if_false, Option.bind_some] at h
          by_cases hd : dictHas hint res = true
          · simp only [hd, Bool.not_true, Bool.false_eq_true, if_false] at h
            exact ih _ _ _ _ h hp hz
          · simp only [hd, Bool.not_false, if_true] at h
            have hz' : AllNZ (l ++ [res]) := by
              intro c hc'
              simp only [List.mem_append, List.mem_singleton] at hc'
              rcases hc' with hc' | rfl
              · exact hz c hc'
              · exact hres
            by_cases hneg : r < 0
            · have hp' : HintPos (dictSet hint res (Sum.inl (ResolutionHintSource_new cl2 cl1 (-r)))) :=
                HintPos_set _ _ _ hp (by show 0 < -r; omega)
              simp only [hneg, decide_true, if_true, Option.bind_some] at h
              by_cases ht : fsTruthy res = true
              · simp only [ht, Bool.not_true, Bool.false_eq_true, if_false] at h
                exact ih _ _ _ _ h hp' hz'
              · simp only [ht, Bool.not_false, if_true, Option.some.injEq] at h
                subst h; exact ⟨hp', hz⟩
            · have hp' : HintPos (dictSet hint res (Sum.inl (ResolutionHintSource_new cl1 cl2 r))) :=
                HintPos_set _ _ _ hp (by show 0 < r; omega)
              simp only [hneg, decide_false, Bool.false_eq_true, if_false, Option.bind_some] at h
              by_cases ht : fsTruthy res = true
              · simp only [ht, Bool.not_true, Bool.false_eq_true, if_false] at h
                exact ih _ _ _ _ h hp' hz'
              · simp only [ht, Bool.not_false, if_true, Option.some.injEq] at h
                subst h; exact ⟨hp', hz⟩

/-- …and so does the outer loop -/
theorem for1_pos : ∀ (fuel i : Nat) (hint : StageThm.Hint) (l : List FrozenSet) (o : LoopOut),
    resolution_algorithm_for1 fuel i hint l = some o → HintPos hint → AllNZ l →
    HintPos (outHint o) ∧ AllNZ (outList o) := by
  intro fuel
  induction fuel with
  | zero => intro i hint l o h; simp [resolution_algorithm_for1] at h
  | succ f ih =>
    intro i hint l o h hp hz
    rw [resolution_algorithm_for1] at h
    cases hi : l[i]? with
    | none =>
      simp only [hi, Option.pure_def, Option.some.injEq] at h
      subst h; exact ⟨hp, hz⟩
    | some cl1 =>
      have h1 : Res.NoZero cl1 := hz cl1 (List.mem_of_getElem? hi)
      simp only [hi, Option.pure_def, Option.bind_eq_bind] at h
      cases h2 : resolution_algorithm_for2 cl1 f 0 hint l with
      | none => simp [h2] at h
      | some o2 =>
        obtain ⟨hp2, hz2⟩ := for2_pos cl1 h1 f 0 hint l o2 h2 hp hz
        simp only [h2, Option.bind_some] at h
        cases o2 with
        | ret r =>
          simp only [Option.some.injEq] at h
          subst h; exact ⟨hp2, hz2⟩
        | go s =>
          obtain ⟨h', l'⟩ := s
          exact ih _ _ _ _ h hp2 hz2

/-- `resolution_algorithm` records positive resolvants only -/
theorem resolution_algorithm_pos (G : Nat) (hint : StageThm.Hint) (l : List FrozenSet) (b : Bool) (h' : StageThm.Hint)
    (l' : List FrozenSet) (h : resolution_algorithm G hint l = some (b, h', l')) (hp : HintPos hint) (hz : AllNZ l) :
    HintPos h' := by
  simp only [resolution_algorithm, Option.pure_def, Option.bind_eq_bind] at h
  cases h1 : resolution_algorithm_for1 G 0 hint l with
  | none => simp [h1] at h
  | some o =>
    obtain ⟨hp1, _⟩ := for1_pos G 0 hint l o h1 hp hz
    simp only [h1, Option.bind_some] at h
    cases o with
    | ret r =>
      simp only [Option.some.injEq] at h
      subst h; exact hp1
    | go s =>
      obtain ⟨h'', l''⟩ := s
      simp only [Option.some.injEq, Prod.mk.injEq] at h
      obtain ⟨_, rfl, _⟩ := h
      exact hp1

theorem enumFrom_ge {α : Type} : ∀ (xs : List α) (k : Int), ∀ x ∈ pyEnumerateFrom k xs, k ≤ x.1 := by
  intro xs
  induction xs with
  | nil => intro k x hx; simp [pyEnumerateFrom] at hx
  | cons a xs ih =>
    intro k x hx
    simp only [pyEnumerateFrom, List.mem_cons] at hx
    rcases hx with rfl | hx
    · exact Int.le_refl _
    · have := ih (k + 1) x hx; omega

/-- the first loop of `start_resolution_algorithm` records non-negative indices -/
theorem sra_for1_pos : ∀ (l : List (Int × FrozenSet)) (hint hint' : StageThm.Hint),
    Gen.PyTaut.start_resolution_algorithm_for1 l hint = some hint' → (∀ x ∈ l, 0 ≤ x.1) → HintPos hint → HintPos hint' := by
  intro l
  induction l with
  | nil => intro hint hint' h _ hp; simp [Gen.PyTaut.start_resolution_algorithm_for1] at h; subst h; exact hp
  | cons x l ih =>
    intro hint hint' h hx hp
    obtain ⟨i, c⟩ := x
    have hi : 0 ≤ i := hx (i, c) List.mem_cons_self
    have hx' : ∀ x ∈ l, 0 ≤ x.1 := fun y hy => hx y (List.mem_cons_of_mem _ hy)
    simp only [Gen.PyTaut.start_resolution_algorithm_for1, Option.pure_def, Option.bind_eq_bind] at h
    cases ht : is_trivial_clause c with
    | none => simp [ht] at h
    | some b =>
      simp only [ht, Option.bind_some] at h
      cases b with
      | true => exact ih _ _ h hx' hp
      | false => exact ih _ _ h hx' (HintPos_set _ _ _ hp hi)

/-! ## `build_proof_from_hint` with proof objects does not raise on a well-founded hint with positive resolvants -/

theorem idPat_neg_of_pos (r : Int) (h : 0 < r) : idPat (-r) = negP (idPat r) := by
  have h1 : -r < 0 := by omega
  have h2 : ¬ r < 0 := by omega
  have e : (-(-r + 1)).toNat = (r - 1).toNat := by omega
  unfold idPat
  rw [if_pos h1, if_neg h2, e]

theorem simplified_mem (cl : List Int) (x : Int) (h : x ∈ cl) : simplified cl x = x :: cl.filter (· != x) := by
  unfold simplified
  have : ¬ (cl.all (· != x) = true) := by
    intro ha
    have := List.all_eq_true.mp ha x h
    simp at this
  simp [this]

theorem pyLen_ne_zero {α} (l : List α) (h : l ≠ []) : (pyLen l == (0 : Int)) = false := by
  cases l with
  | nil => exact absurd rfl h
  | cons a r => simp [pyLen]; omega

theorem noZero_filter (cl : List Int) (P : Int → Bool) (h : Res.NoZero cl) : Res.NoZero (cl.filter P) :=
  fun x hx => h x (List.mem_filter.mp hx).1

/-- the last part of `build_proof_from_hint`: the `match` on the two rests and `resolution_step` -/
theorem bpfh_tail (C : Pat) (r : Int) (hr : 0 < r) (L R : List Int) (hL : Res.NoZero L) (hR : Res.NoZero R) (g : Nat)
    (hgL : L.length ≤ g) (hgR : R.length ≤ g) :
    ((if ((pyLen L == 0) == false && (pyLen R == 0) == false) = true then
          (Gen.Clause.clause_to_pattern algCS g L).bind fun t13_ =>
            (Gen.Clause.clause_to_pattern algCS g R).bind fun t14_ =>
              (lib algCS Gen.Clause.ix_resolution [idPat r, t13_, t14_] []).bind fun t15_ =>
                (Gen.Clause.merge_clauses algCS g t13_ (pyLen L) t14_).bind fun t16_ =>
                  (lib algCS Gen.Clause.ix_and_l [] [t16_]).bind fun t17_ =>
                    (lib algCS Gen.Clause.ix_long_imp_trans [] [t15_, t17_]).bind fun t18_ => some t18_
        else
          if ((pyLen L == 0) == false && (pyLen R == 0) == true) = true then
            (Gen.Clause.clause_to_pattern algCS g L).bind fun t19_ =>
              (lib algCS Gen.Clause.ix_resolution_l [idPat r, t19_] []).bind fun t18_ => some t18_
          else
            if ((pyLen L == 0) == true && (pyLen R == 0) == false) = true then
              (Gen.Clause.clause_to_pattern algCS g R).bind fun t21_ =>
                (lib algCS Gen.Clause.ix_resolution_r [idPat r, t21_] []).bind fun t18_ => some t18_
            else (lib algCS Gen.Clause.ix_resolution_base [idPat r] []).bind fun t18_ => some t18_).bind
      fun pf =>
      (lib algCS Gen.Clause.ix_resolution_step []
            [C.imp (clausePat (-r :: L)), C.imp (clausePat (r :: R)), pf]).bind
        fun t24_ => some (L ++ R, t24_)) =
    some (L ++ R, C.imp (clausePat (L ++ R))) := by
  have hN0 : (pyLen ([] : List Int) == (0 : Int)) = true := by simp [pyLen]
  have hn := idPat_neg_of_pos r hr
  by_cases hl : L = []
  · subst hl
    by_cases hr' : R = []
    · subst hr'
      simp only [hN0, show ((true == false) && (true == false)) = false from rfl,
        show ((true == false) && (true == true)) = false from rfl, show ((true == true) && (true == false)) = false from rfl,
        Bool.false_eq_true, if_false, lib_resolution_base, Option.bind_some, clausePat_single, hn, lib_resolution_step,
        List.append_nil]
      rfl
    · have hR0 := pyLen_ne_zero R hr'
      simp only [hN0, hR0, show ((true == false) && (false == false)) = false from rfl,
        show ((true == false) && (false == true)) = false from rfl, show ((true == true) && (false == false)) = true from rfl,
        Bool.false_eq_true, if_false, if_true, clause_to_pattern_C algCS R g hR hgR, lib_resolution_r, Option.bind_some,
        clausePat_single, hn, clausePat_cons r R hr', lib_resolution_step, List.nil_append]
  · have hL0 := pyLen_ne_zero L hl
    by_cases hr' : R = []
    · subst hr'
      simp only [hN0, hL0, show ((false == false) && (true == false)) = false from rfl,
        show ((false == false) && (true == true)) = true from rfl,
        Bool.false_eq_true, if_false, if_true, clause_to_pattern_C algCS L g hL hgL, lib_resolution_l, Option.bind_some,
        clausePat_single, hn, clausePat_cons (-r) L hl, lib_resolution_step, List.append_nil]
    · have hR0 := pyLen_ne_zero R hr'
      have hcl : clausePat L = foldrP orP (L.map idPat) := clausePat_eq _ hl
      have hlen : pyLen L = ((L.map idPat).length : Int) := by simp [pyLen]
      have hmg := merge_clauses_C (clausePat R) (L.map idPat) g (by simpa using hl) (by simpa using hgL)
      rw [← hcl, ← hlen, clausePat_append L R hl hr'] at hmg
      simp only [hL0, hR0, show ((false == false) && (false == false)) = true from rfl, if_true,
        clause_to_pattern_C algCS L g hL hgL, clause_to_pattern_C algCS R g hR hgR, lib_resolution, hmg, lib_and_l_equiv,
        lib_long_imp_trans, Option.bind_some, hn, clausePat_cons (-r) L hl, clausePat_cons r R hr', lib_resolution_step]

theorem moveFuel_ge (n : Nat) : n ≤ moveFuel n := by
  unfold moveFuel
  have : n ≤ (n + 1) * n := Nat.le_mul_of_pos_left _ (by omega)
  omega

/-- **`build_proof_from_hint` with proof objects, on a well-founded hint** (`TautTie.WF`) without repeated keys, with positive
resolvants and non-negative indices, over clauses without the literal `0`: for the key at position `p` there is a clause
`t` whose set is that key such that at every sufficient fuel the function returns `t` with a proof that concludes
`clause_conjunctionto_pattern(terms) -> clause_to_pattern(t)`; none of its assertions or proof constructions fails -/
theorem bpfh_total (terms : List (List Int)) (hint : StageThm.Hint) (hw : WF terms hint) (hnd : (dictKeys hint).Nodup)
    (hp : HintPos hint) (hz : ∀ t ∈ terms, Res.NoZero t) :
    ∀ (p : Nat) (hpl : p < hint.length), ∃ F' t, Res.canon t = hint[p].1 ∧ Res.NoZero t ∧ ∀ G, F' ≤ G →
      bpfhC G hint hint[p].1 terms = some (t, .imp (clausesPat terms) (clausePat t)) := by
  intro p
  induction p using Nat.strongRecOn with
  | _ p ih =>
    intro hpl
    have hget := lookup_getElem hint hnd p hpl
    have hok := hw p hpl
    have hpos := hp hint[p] (List.getElem_mem hpl)
    cases hv : hint[p].2 with
    | inr idx =>
      rw [hv] at hok hpos hget
      obtain ⟨t, ht, hc⟩ := hok
      have hidx : 0 ≤ idx := hpos
      obtain ⟨k, rfl⟩ : ∃ k : Nat, idx = (k : Int) := ⟨idx.toNat, by omega⟩
      have hk : k < terms.length := by
        rcases Nat.lt_or_ge k terms.length with h' | h'
        · exact h'
        · simp [pyIndex, List.getElem?_eq_none h'] at ht
      rw [pyIndex_nat terms k hk] at ht
      cases ht
      have hne : terms ≠ [] := by intro e; subst e; simp at hk
      refine ⟨terms.length + (terms.map List.length).sum + 1, terms[k], hc, hz _ (List.getElem_mem hk), fun G hG => ?_⟩
      obtain ⟨g, rfl⟩ : ∃ g, G = g + 1 := ⟨G - 1, by omega⟩
      have hl : ∀ cl ∈ terms, cl.length ≤ g := by
        intro cl hcl
        have := le_sum_of_mem (terms.map List.length) cl.length (List.mem_map.mpr ⟨cl, hcl, rfl⟩)
        omega
      have hccp := clause_conjunctionto_pattern_C algCS terms g hz hl (by omega)
      have hcin := conjunction_implies_nth_C (terms.map clausePat) k g (by simpa using hk) (by simp; omega)
      rw [← clausesPat_eq terms hne] at hcin
      have hlen : pyLen terms = ((terms.map clausePat).length : Int) := by simp [pyLen]
      unfold bpfhC
      rw [Gen.Clause.build_proof_from_hint]
      simp only [hget, hccp, pyIndex_nat terms k hk, hlen, hcin, Option.pure_def, Option.bind_eq_bind, Option.bind_some]
      simp
    | inl s =>
      rw [hv] at hok hpos hget
      obtain ⟨L0, R0, r⟩ := s
      simp only [EntryOK, ResolutionHintSource.left_set, ResolutionHintSource.right_set, ResolutionHintSource.resolvant] at hok
      have hr : 0 < r := hpos
      obtain ⟨hL, hR, hnr, hrr, hk⟩ := hok
      have find : ∀ X, X ∈ (dictKeys hint).take p → ∃ F' t, Res.canon t = X ∧ Res.NoZero t ∧ ∀ G, F' ≤ G →
          bpfhC G hint X terms = some (t, .imp (clausesPat terms) (clausePat t)) := by
        intro X hX
        obtain ⟨q, hq, e⟩ := List.mem_take_iff_getElem.mp hX
        have hq1 : q < p := by omega
        have hq2 : q < hint.length := by omega
        have : hint[q].1 = X := by simpa [dictKeys] using e
        rw [← this]
        exact ih q hq1 hq2
      obtain ⟨FL, tl, c1, zl, eL⟩ := find L0 hL
      obtain ⟨FR, tr, c2, zr, eR⟩ := find R0 hR
      have hml : -r ∈ tl := by rw [← c1, Res.mem_canon] at hnr; exact hnr
      have hmr : r ∈ tr := by rw [← c2, Res.mem_canon] at hrr; exact hrr
      have hfin : Res.canon (tl.filter (· != -r) ++ tr.filter (· != r)) = hint[p].1 := by
        rw [← hk]
        apply canon_ext
        intro x
        simp only [List.mem_append, List.mem_filter, ← c1, ← c2, Res.mem_canon]
      have zL := noZero_filter tl (· != -r) zl
      have zR := noZero_filter tr (· != r) zr
      refine ⟨FL + FR + moveFuel tl.length + moveFuel tr.length + 1, tl.filter (· != -r) ++ tr.filter (· != r), hfin, ?_,
        fun G hG => ?_⟩
      · intro x hx
        simp only [List.mem_append] at hx
        rcases hx with hx | hx
        · exact zL x hx
        · exact zR x hx
      · obtain ⟨g, rfl⟩ : ∃ g, G = g + 1 := ⟨G - 1, by omega⟩
        have e3 := eL g (by omega)
        have e4 := eR g (by omega)
        have e5 := simplify_clause_C tl (-r) g zl (by omega)
        have e6 := simplify_clause_C tr r g zr (by omega)
        rw [simplified_mem tl (-r) hml] at e5
        rw [simplified_mem tr r hmr] at e6
        have hid := id_to_metavar_C algCS r (by omega)
        have hfs : (fsOfList (tl.filter (· != -r) ++ tr.filter (· != r)) == hint[p].1) = true := by
          simp only [fsOfList, hfin, beq_self_eq_true]
        have hgL : (tl.filter (· != -r)).length ≤ g := by
          have := List.length_filter_le (· != -r) tl
          have := moveFuel_ge tl.length
          omega
        have hgR : (tr.filter (· != r)).length ≤ g := by
          have := List.length_filter_le (· != r) tr
          have := moveFuel_ge tr.length
          omega
        have htail := bpfh_tail (clausesPat terms) r hr _ _ zL zR g hgL hgR
        unfold bpfhC at e3 e4 ⊢
        rw [Gen.Clause.build_proof_from_hint]
        simp only [hget, ResolutionHintSource.left_set, ResolutionHintSource.right_set, ResolutionHintSource.resolvant, hid,
          e3, e4, e5, e6, pyIndex_cons_zero, pyAssert, beq_self_eq_true, if_true, pySliceFrom_one, hfs, lib_and_l_equiv,
          lib_imp_transitivity, Option.pure_def, Option.bind_eq_bind, Option.bind_some]
        exact htail

/-! ## the saturation loop: more fuel, same answer -/

theorem for2_mono (cl1 : FrozenSet) : ∀ (n i : Nat) (hint : StageThm.Hint) (l : List FrozenSet),
    Le (resolution_algorithm_for2 cl1 n i hint l) (resolution_algorithm_for2 cl1 (n + 1) i hint l) := by
  intro n
  induction n with
  | zero => intro i hint l; exact le_none _
  | succ n ih =>
    intro i hint l
    rw [resolution_algorithm_for2, resolution_algorithm_for2]
    cases l[i]? with
    | none => exact Le.refl _
    | some cl2 =>
      simp only [Option.pure_def, Option.bind_eq_bind]
      repeat' first | (with_reducible exact ih _ _ _) | mono_step

theorem for2_mono_le (cl1 : FrozenSet) (n m i : Nat) (hint : StageThm.Hint) (l : List FrozenSet) (h : n ≤ m) :
    Le (resolution_algorithm_for2 cl1 n i hint l) (resolution_algorithm_for2 cl1 m i hint l) :=
  le_of_step (fun k (x : Nat × StageThm.Hint × List FrozenSet) => resolution_algorithm_for2 cl1 k x.1 x.2.1 x.2.2)
    (fun k x => for2_mono cl1 k x.1 x.2.1 x.2.2) n m (i, hint, l) h

theorem for1_mono : ∀ (n i : Nat) (hint : StageThm.Hint) (l : List FrozenSet),
    Le (resolution_algorithm_for1 n i hint l) (resolution_algorithm_for1 (n + 1) i hint l) := by
  intro n
  induction n with
  | zero => intro i hint l; exact le_none _
  | succ n ih =>
    intro i hint l
    rw [resolution_algorithm_for1, resolution_algorithm_for1]
    cases l[i]? with
    | none => exact Le.refl _
    | some cl1 =>
      simp only [Option.pure_def, Option.bind_eq_bind]
      apply le_bind (for2_mono cl1 n 0 hint l)
      intro o
      cases o with
      | ret r => exact Le.refl _
      | go s => exact ih _ _ _

theorem resolution_algorithm_mono_le (n m : Nat) (hint : StageThm.Hint) (l : List FrozenSet) (h : n ≤ m) :
    Le (resolution_algorithm n hint l) (resolution_algorithm m hint l) := by
  have h1 : Le (resolution_algorithm_for1 n 0 hint l) (resolution_algorithm_for1 m 0 hint l) :=
    le_of_step (fun k (x : Nat × StageThm.Hint × List FrozenSet) => resolution_algorithm_for1 k x.1 x.2.1 x.2.2)
      (fun k x => for1_mono k x.1 x.2.1 x.2.2) n m (0, hint, l) h
  simp only [resolution_algorithm, Option.pure_def, Option.bind_eq_bind]
  exact le_bind h1 (fun _ => Le.refl _)

/-! ## `start_resolution_algorithm` with proof objects answers wherever the model answers -/

theorem trivial_canon (c : List Int) : Res.trivial (Res.canon c) = Res.trivial c := by
  unfold Res.trivial
  rw [Bool.eq_iff_iff]
  simp only [List.any_eq_true, List.contains_eq_mem, decide_eq_true_eq, Res.mem_canon]

theorem initial_fold_nil : ∀ (l acc : List (List Int)),
    l.foldl (fun acc c => if Res.trivial c || acc.contains c then acc else acc ++ [c]) acc = [] →
    acc = [] ∧ ∀ c ∈ l, Res.trivial c = true := by
  intro l
  induction l with
  | nil => intro acc h; exact ⟨h, fun c hc => by simp at hc⟩
  | cons c l ih =>
    intro acc h
    simp only [List.foldl_cons] at h
    obtain ⟨h1, h2⟩ := ih _ h
    by_cases hc : (Res.trivial c || acc.contains c) = true
    · rw [if_pos hc] at h1
      subst h1
      have : Res.trivial c = true := by simpa using hc
      exact ⟨rfl, fun c' hc' => by
        simp only [List.mem_cons] at hc'
        rcases hc' with rfl | hc'
        · exact this
        · exact h2 c' hc'⟩
    · rw [if_neg hc] at h1
      simp at h1

theorem initial_nil_trivial (cls : List (List Int)) (h : Res.initial cls = []) : ∀ cl ∈ cls, Res.trivial cl = true := by
  intro cl hcl
  have := (initial_fold_nil (cls.map Res.canon) [] h).2 (Res.canon cl) (List.mem_map.mpr ⟨cl, hcl, rfl⟩)
  rwa [trivial_canon] at this

theorem mapM_ptc_C (G : Nat) : ∀ (cls : List (List Int)), (∀ cl ∈ cls, Res.NoZero cl) → (∀ cl ∈ cls, Res.trivial cl = true) →
    (∀ cl ∈ cls, moveFuel cl.length ≤ G) → List.mapM (ptcC G) cls = some (cls.map clausePat) := by
  intro cls
  induction cls with
  | nil => intro _ _ _; rfl
  | cons c cls ih =>
    intro hz ht hf
    rw [List.mapM_cons, ih (fun x hx => hz x (List.mem_cons_of_mem _ hx)) (fun x hx => ht x (List.mem_cons_of_mem _ hx))
      (fun x hx => hf x (List.mem_cons_of_mem _ hx))]
    have := prove_trivial_clause_C c G (hz c List.mem_cons_self) (ht c List.mem_cons_self) (hf c List.mem_cons_self)
    simp [ptcC, this]

/-- **`start_resolution_algorithm` with proof objects answers wherever the model answers**, at every sufficient fuel, with
the model's verdict; its proof object concludes the clause conjunction / its refutation -/
theorem sra_total (F : Nat) (cls : List (List Int)) (hz : ∀ cl ∈ cls, Res.NoZero cl) (x : Option Bool)
    (h : Res.start F cls = some x) :
    ∃ F', ∀ G, F' ≤ G → Gen.Stage.start_resolution_algorithm algCS ptcC bpfhC G cls =
      some (x.map fun b => (b, if b then clausesPat cls else .imp (clausesPat cls) Lem.botP)) := by
  -- it suffices that the run answers with the right verdict: `sra_C` gives the conclusion
  suffices hex : ∃ F', ∀ G, F' ≤ G → ∃ v, Gen.Stage.start_resolution_algorithm algCS ptcC bpfhC G cls = some v ∧ v.map (·.1) = x by
    obtain ⟨F', hF'⟩ := hex
    refine ⟨F', fun G hG => ?_⟩
    obtain ⟨v, hv, hx⟩ := hF' G hG
    rw [hv]
    cases v with
    | none => simp at hx; subst hx; rfl
    | some bp =>
      obtain ⟨b, p⟩ := bp
      have := sra_C ptcC bpfhC (fun F cl p h => prove_trivial_clause_any F cl p h)
        (fun F hint cl terms r p h => build_proof_from_hint_any F hint cl terms r p h) G cls b p hv
      subst this
      simp at hx; subst hx; rfl
  cases cls with
  | nil =>
    simp [Res.start] at h; subst h
    exact ⟨0, fun G _ => ⟨some (true, topP), by simp [Gen.Stage.start_resolution_algorithm, StageThm.lib_top_intro], rfl⟩⟩
  | cons c0 cs =>
    have hz' : ∀ c ∈ List.map (fun cl => fsOfList cl) (c0 :: cs), Res.NoZero c := by
      intro c hc
      obtain ⟨c', hc', rfl⟩ := List.mem_map.mp hc
      intro y hy
      exact hz c' hc' y ((Res.mem_canon y c').mp hy)
    obtain ⟨hint', e1, e2⟩ := start_for1_keys _ hz' 0 ([] : StageThm.Hint)
    have e2' : dictKeys hint' = Res.initial (c0 :: cs) := e2
    have hall : AllInr (c0 :: cs) hint' := by
      refine start_for1_allInr (c0 :: cs) _ 0 [] hint' ?_ (by intro e he; cases he) (by simpa using e1)
      intro q hq
      have hq' : q < (c0 :: cs).length := by simpa using hq
      exact ⟨(c0 :: cs)[q], by simp [List.getElem?_eq_getElem hq'], by cases q with
        | zero => rfl
        | succ q => simp [fsOfList]⟩
    have hwf := AllInr_WF _ _ hall
    have hnd : (dictKeys hint').Nodup := e2' ▸ initial_nodup _
    have hpos : HintPos hint' :=
      sra_for1_pos _ [] hint' e1 (fun x hx => enumFrom_ge _ 0 x hx) (fun e he => by cases he)
    simp only [Res.start, List.isEmpty_cons, Bool.false_eq_true, if_false] at h
    by_cases hemp : hint' = []
    · subst hemp
      have hl : Res.initial (c0 :: cs) = [] := by rw [← e2']; rfl
      simp [hl] at h; subst h
      have htriv := initial_nil_trivial (c0 :: cs) hl
      refine ⟨((c0 :: cs).map fun cl => moveFuel cl.length).sum, fun G hG => ?_⟩
      have hf : ∀ cl ∈ (c0 :: cs), moveFuel cl.length ≤ G := by
        intro cl hcl
        have := le_sum_of_mem ((c0 :: cs).map fun cl => moveFuel cl.length) (moveFuel cl.length)
          (List.mem_map.mpr ⟨cl, hcl, rfl⟩)
        omega
      simp only [Gen.Stage.start_resolution_algorithm, sra_for1_erase, pyEnumerate, e1, Option.pure_def, Option.bind_eq_bind,
        Option.bind_some, List.isEmpty_cons, Bool.not_false, Bool.not_true, Bool.false_eq_true, if_false, dictTruthy,
        List.isEmpty_nil, if_true, bind_some_eta]
      cases cs with
      | nil =>
        have := prove_trivial_clause_C c0 G (hz c0 (by simp)) (htriv c0 (by simp)) (hf c0 (by simp))
        exact ⟨some (true, clausePat c0), by simp [pyLen, pyIndex, ptcC, this], rfl⟩
      | cons c1 cs' =>
        have hl1 : ¬ (pyLen (c0 :: c1 :: cs') == (1 : Int)) = true := by simp [pyLen]; omega
        have hm := mapM_ptc_C G (c0 :: c1 :: cs') hz htriv hf
        obtain ⟨xs, a, b, he⟩ := split_last2 ((c0 :: c1 :: cs').map clausePat) (by simp)
        simp only [hl1, Bool.false_eq_true, if_false, hm, Option.bind_some]
        rw [he]
        simp only [pyIndex_m2, pyIndex_m1, pySliceTo_m2, Option.bind_some, StageThm.lib_and_intro, sra_for2_C]
        exact ⟨_, rfl, rfl⟩
    · have hl : (Res.initial (c0 :: cs)).isEmpty = false := by
        rw [← e2']; cases hint' with
        | nil => exact absurd rfl hemp
        | cons p d => rfl
      have htr : dictTruthy hint' = true := by
        cases hint' with
        | nil => exact absurd rfl hemp
        | cons p d => rfl
      simp only [hl, Bool.false_eq_true, if_false] at h
      cases hloop : Res.loop F (Res.initial (c0 :: cs)) 0 0 with
      | none => simp [hloop] at h
      | some b =>
        -- the answer of the saturation loop at one sufficient fuel is its answer at every larger fuel
        obtain ⟨h2, l2, hra, hret⟩ := resolution_algorithm_complete (c0 :: cs) F hint' _ b e2' (e2' ▸ hnd) hwf hloop
          (hint'.length + F + 1) (by omega)
        rw [← e2'] at hra
        have hraG : ∀ G, hint'.length + F + 1 ≤ G → resolution_algorithm G hint' (dictKeys hint') = some (b, h2, l2) :=
          fun G hG => resolution_algorithm_mono_le _ G hint' _ hG _ hra
        have hnz : AllNZ (dictKeys hint') := by
          intro c hc
          rw [e2'] at hc
          have hmem : c ∈ (c0 :: cs).map Res.canon := by
            have hsub : ∀ (l acc : List (List Int)), (∀ a ∈ acc, a ∈ (c0 :: cs).map Res.canon) → (∀ a ∈ l, a ∈ (c0 :: cs).map Res.canon) →
                ∀ a ∈ l.foldl (fun acc c => if Res.trivial c || acc.contains c then acc else acc ++ [c]) acc,
                  a ∈ (c0 :: cs).map Res.canon := by
              intro l
              induction l with
              | nil => intro acc ha _ a h'; exact ha a h'
              | cons y l ih =>
                intro acc ha hl' a h'
                simp only [List.foldl_cons] at h'
                refine ih _ ?_ (fun a' ha' => hl' a' (List.mem_cons_of_mem _ ha')) a h'
                intro a' ha'
                split at ha'
                · exact ha a' ha'
                · simp only [List.mem_append, List.mem_singleton] at ha'
                  rcases ha' with ha' | rfl
                  · exact ha a' ha'
                  · exact hl' _ List.mem_cons_self
            exact hsub _ [] (fun a ha => by cases ha) (fun a ha => ha) c hc
          exact hz' c hmem
        cases b with
        | false =>
          simp [hloop] at h; subst h
          refine ⟨hint'.length + F + 1, fun G hG => ⟨none, ?_, rfl⟩⟩
          simp only [Gen.Stage.start_resolution_algorithm, sra_for1_erase, pyEnumerate, e1, Option.pure_def, Option.bind_eq_bind,
            Option.bind_some, List.isEmpty_cons, Bool.not_false, Bool.not_true, Bool.false_eq_true, if_false, htr, hraG G hG]
          simp
        | true =>
          simp [hloop] at h; subst h
          obtain ⟨_, hw2, hnd2, hlen, h0, v, hlast⟩ := hret rfl
          simp only at hw2 hnd2 hlen hlast
          have hp2 : HintPos h2 := resolution_algorithm_pos _ hint' _ true h2 l2 hra hpos hnz
          have hp : h0.length < h2.length := by rw [hlast]; simp
          obtain ⟨Fb, t, hc, _, hb⟩ := bpfh_total (c0 :: cs) h2 hw2 hnd2 hp2 hz h0.length hp
          have hkey : h2[h0.length].1 = ([] : List Int) := by simp [hlast]
          rw [hkey] at hc hb
          have htn : t = [] := canon_eq_nil t hc
          subst htn
          refine ⟨hint'.length + F + 1 + Fb, fun G hG =>
            ⟨some (false, (clausesPat (c0 :: cs)).imp (clausePat [])), ?_, rfl⟩⟩
          have hfs : fsOfList ([] : List Int) = [] := rfl
          simp only [Gen.Stage.start_resolution_algorithm, sra_for1_erase, pyEnumerate, e1, Option.pure_def, Option.bind_eq_bind,
            Option.bind_some, List.isEmpty_cons, Bool.not_false, Bool.not_true, Bool.false_eq_true, if_false, htr,
            hraG G (by omega), hfs, hb G (by omega), pyAssert, List.isEmpty_nil, if_true]

/-! ## the generated prover with proof objects answers wherever the model answers -/

/-- **where the model `proveTautology` answers, the generated `prove_tautology` with proof objects gives the same verdict at
every sufficiently large fuel**, with a proof object that concludes literally the pattern / its negation: none of its
assertions or proof constructions fails -/
theorem stage_prover_complete (F : Nat) (f : Form) (x : Option Bool) (h : proveTautology F f = some x) :
    ∃ F', ∀ G, F' ≤ G → Gen.Stage.prove_tautology algCS ptcC bpfhC G f =
      some (x.map fun b => (b, if b then toPat f else negP (toPat f))) := by
  suffices hex : ∃ F', ∀ G, F' ≤ G → ∃ v, Gen.Stage.prove_tautology algCS ptcC bpfhC G f = some v ∧ v.map (·.1) = x by
    obtain ⟨F', hF'⟩ := hex
    refine ⟨F', fun G hG => ?_⟩
    obtain ⟨v, hv, hx⟩ := hF' G hG
    rw [hv]
    cases v with
    | none => simp at hx; subst hx; rfl
    | some bp =>
      obtain ⟨b, p⟩ := bp
      have := prove_tautology_C ptcC bpfhC (fun F cl p h => prove_trivial_clause_any F cl p h)
        (fun F hint cl terms r p h => build_proof_from_hint_any F hint cl terms r p h) G f b p hv
      subst this
      simp at hx; subst hx; rfl
  cases hb : (CF.ofForm (Form.neg f)).isBot with
  | true =>
    refine ⟨(Form.neg f).size, fun G hG => ?_⟩
    have e := to_conj_form_C (Form.neg f) G hG
    cases hc : CF.ofForm (Form.neg f) with
    | bot b =>
      cases b
      · have hx : x = some true := by simp [proveTautology, hc] at h; exact h.symm
        subst hx
        refine ⟨some (true, toPat f), ?_, rfl⟩
        have htn : toPat (Form.neg f) = negP (toPat f) := rfl
        simp [Gen.Stage.prove_tautology, TautSup.neg, e, conjSpec, hc, ofCF, CF.isBot, CF.negated, ConjForm.isCFBot,
          ConjForm.negated, StageThm.lib_dneg_elim, htn, mpC_imp]
      · have hx : x = some false := by simp [proveTautology, hc] at h; exact h.symm
        subst hx
        refine ⟨some (false, toPat (Form.neg f)), ?_, rfl⟩
        simp [Gen.Stage.prove_tautology, TautSup.neg, e, conjSpec, hc, ofCF, CF.isBot, CF.negated, ConjForm.isCFBot,
          ConjForm.negated]
    | var b i => simp [hc, CF.isBot] at hb
    | or b l r => simp [hc, CF.isBot] at hb
    | and b l r => simp [hc, CF.isBot] at hb
  | false =>
    rw [proveTautology_nonbot F f hb] at h
    simp only [Option.bind_eq_bind, Option.bind_eq_some_iff] at h
    obtain ⟨nt, hn, cnf, hcnf, cls, hcls, sx, hs, hx⟩ := h
    have hor : (CF.ofForm (Form.neg f)).IsOrTree = true := by
      rcases CF.ofForm_shape (Form.neg f) with h' | h'
      · rw [hb] at h'; cases h'
      · exact h'
    obtain ⟨nt', hnt', _, hnnf⟩ := CF.propagNeg_spec _ hor
    rw [hn] at hnt'
    cases hnt'
    have hcnfG : ∀ G, F ≤ G → CF.toCnfF G nt = some cnf := fun G hG => toCnfF_mono_le F G hG nt cnf hcnf
    have hiscnf := (CF.toCnfF_spec F nt cnf hnnf hcnf).2
    obtain ⟨F', hF'⟩ := sra_total F cls (toClauses_noZero cnf cls hcls) sx hs
    refine ⟨(Form.neg f).size + depth (CF.ofForm (Form.neg f)) + F + depth cnf + F', fun G hG => ?_⟩
    have e1 := to_conj_form_C (Form.neg f) G (by omega)
    have e2 := propag_neg_C (CF.ofForm (Form.neg f)) G (by omega)
    have e3 := to_cnf_C G nt hnnf
    rw [hcnfG G (by omega)] at e3
    have e4 := to_clauses_C cnf G (by omega) hiscnf
    have e5 := hF' G (by omega)
    have hnb : (ofCF (CF.ofForm (Form.neg f))).isCFBot = false := by simpa using hb
    simp only [conjSpec, hb, Bool.false_eq_true, if_false] at e1
    simp only [hn, Option.map_some] at e2
    simp only [Option.map_some] at e3
    simp only [hcls, Option.map_some] at e4
    cases sx with
    | none =>
      simp at hx; subst hx
      refine ⟨none, ?_, rfl⟩
      simp only [Option.map_none] at e5
      simp [Gen.Stage.prove_tautology, TautSup.neg, e1, hnb, pyAssert, e2, pfPair, e3, e4, clSpec, e5]
    | some b =>
      cases b
      · simp at hx; subst hx
        simp only [Option.map_some, Bool.false_eq_true, if_false] at e5
        refine ⟨some (true, toPat f), ?_, rfl⟩
        simp [Gen.Stage.prove_tautology, TautSup.neg, e1, hnb, pyAssert, e2, pfPair, e3, e4, clSpec, e5,
          StageThm.lib_imp_transitivity, StageThm.lib_dneg_elim]
        rw [show (toPat f.neg).imp Lem.botP = negP (negP (toPat f)) from rfl, mpC_imp]
        rfl
      · simp at hx; subst hx
        simp only [Option.map_some, if_true] at e5
        refine ⟨some (false, toPat (Form.neg f)), ?_, rfl⟩
        simp [Gen.Stage.prove_tautology, TautSup.neg, e1, hnb, pyAssert, e2, pfPair, e3, e4, clSpec, e5,
          StageThm.lib_imp_transitivity, mpC_imp]

end ClauseThm

#print axioms ClauseThm.resolution_algorithm_pos
#print axioms ClauseThm.bpfh_total
#print axioms ClauseThm.sra_total
#print axioms ClauseThm.stage_prover_complete
