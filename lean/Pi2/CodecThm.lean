import Pi2.Codec
/-! # Codec lemmas: `decode1` and `encode1` are mutually inverse; the code is prefix-free -/
set_option linter.unusedVariables false
set_option linter.unusedSimpArgs false

theorem takeN_append (xs r : List Nat) : takeN xs.length (xs ++ r) = some (xs, r) := by
  induction xs with
  | nil => simp [takeN]
  | cons x xs ih => simp [takeN, ih]

theorem takeN_sound {n : Nat} {bs xs r : List Nat} (h : takeN n bs = some (xs, r)) :
    bs = xs ++ r ∧ xs.length = n := by
  induction n generalizing bs xs r with
  | zero => simp [takeN] at h; obtain ⟨rfl, rfl⟩ := h; simp
  | succ n ih =>
    cases bs with
    | nil => simp [takeN] at h
    | cons b bs =>
      simp only [takeN, Option.map_eq_some_iff] at h
      obtain ⟨⟨xs0, r0⟩, h0, heq⟩ := h
      simp at heq; obtain ⟨rfl, rfl⟩ := heq
      obtain ⟨rfl, hl⟩ := ih h0
      simp [hl]

theorem readVec_encVec (xs r : List Nat) : readVec (encVec xs ++ r) = some (xs, r) := by
  simp [encVec, readVec, takeN_append]

theorem readVec_sound {bs xs r : List Nat} (h : readVec bs = some (xs, r)) : bs = encVec xs ++ r := by
  cases bs with
  | nil => simp [readVec] at h
  | cons n bs =>
    simp only [readVec] at h
    obtain ⟨rfl, hl⟩ := takeN_sound h
    simp [encVec, hl]

/-- decoding what was encoded gives the instruction back and leaves the rest untouched -/
theorem decode1_encode1 (i : Instr) (r : List Nat) : decode1 (encode1 i ++ r) = some (i, r) := by
  cases i <;> simp [encode1, decode1, readVec_encVec, takeN_append, List.append_assoc]

/-- `decode1` only accepts encodings -/
theorem decode1_sound {bs : List Nat} {i : Instr} {r : List Nat} (h : decode1 bs = some (i, r)) :
    bs = encode1 i ++ r := by
  unfold decode1 at h
  split at h
  all_goals first
    | (simp only [Option.some.injEq, Prod.mk.injEq] at h; obtain ⟨rfl, rfl⟩ := h; simp [encode1]; done)
    | (simp at h; done)
    | skip
  · rename_i id r0
    cases h1 : readVec r0 with
    | none => simp [h1] at h
    | some p1 =>
    cases h2 : readVec p1.2 with
    | none => simp [h1, h2] at h
    | some p2 =>
    cases h3 : readVec p2.2 with
    | none => simp [h1, h2, h3] at h
    | some p3 =>
    cases h4 : readVec p3.2 with
    | none => simp [h1, h2, h3, h4] at h
    | some p4 =>
    cases h5 : readVec p4.2 with
    | none => simp [h1, h2, h3, h4, h5] at h
    | some p5 =>
      simp [h1, h2, h3, h4, h5] at h
      obtain ⟨rfl, rfl⟩ := h
      have e1 := readVec_sound (xs := p1.1) (r := p1.2) h1
      have e2 := readVec_sound (xs := p2.1) (r := p2.2) h2
      have e3 := readVec_sound (xs := p3.1) (r := p3.2) h3
      have e4 := readVec_sound (xs := p4.1) (r := p4.2) h4
      have e5 := readVec_sound (xs := p5.1) (r := p5.2) h5
      simp only [encode1, List.append_assoc, List.cons_append, List.nil_append]
      rw [e1, e2, e3, e4, e5]
  · rename_i n r0
    simp only [Option.map_eq_some_iff] at h
    obtain ⟨⟨ids, r'⟩, h0, heq⟩ := h
    simp at heq; obtain ⟨rfl, rfl⟩ := heq
    obtain ⟨rfl, hl⟩ := takeN_sound h0
    simp [encode1, hl]

theorem encode1_ne_nil (i : Instr) : encode1 i ≠ [] := by cases i <;> simp [encode1]

theorem decodeF_encode : ∀ (is : List Instr) (f : Nat), (encode is).length ≤ f → decodeF f (encode is) = some is := by
  intro is
  induction is with
  | nil => intro f _; cases f <;> simp [encode, decodeF]
  | cons i is ih =>
    intro f hf
    have hne := encode1_ne_nil i
    have henc : encode (i :: is) = encode1 i ++ encode is := by simp [encode]
    rw [henc] at hf ⊢
    cases hb : encode1 i ++ encode is with
    | nil => simp at hb; exact absurd hb.1 hne
    | cons b bs =>
      cases f with
      | zero => rw [hb] at hf; simp at hf
      | succ f =>
        simp only [decodeF]
        rw [← hb, decode1_encode1]
        simp only []
        have : (encode is).length ≤ f := by
          have h1 : (encode1 i).length ≥ 1 := by
            cases h : encode1 i with
            | nil => exact absurd h hne
            | cons _ _ => simp
          simp at hf; omega
        rw [ih f this]; rfl

/-- **codec round trip**: decoding the encoding of any instruction list returns it -/
theorem decode_encode (is : List Instr) : decode (encode is) = some is :=
  decodeF_encode is _ (Nat.le_refl _)

theorem decodeF_sound : ∀ (f : Nat) (bs : List Nat) (is : List Instr), decodeF f bs = some is → bs = encode is := by
  intro f
  induction f with
  | zero =>
    intro bs is h
    cases bs with
    | nil => simp [decodeF] at h; subst h; rfl
    | cons b bs => simp [decodeF] at h
  | succ f ih =>
    intro bs is h
    cases bs with
    | nil => simp [decodeF] at h; subst h; rfl
    | cons b bs =>
      simp only [decodeF] at h
      cases h1 : decode1 (b :: bs) with
      | none => simp [h1] at h
      | some ir =>
        obtain ⟨i, r⟩ := ir
        simp only [h1, Option.map_eq_some_iff] at h
        obtain ⟨is', h2, rfl⟩ := h
        rw [decode1_sound h1, ih r is' h2]; simp [encode]

/-- `decode` accepts only encodings: the byte string determines the instruction list and vice versa -/
theorem decode_sound {bs : List Nat} {is : List Instr} (h : decode bs = some is) : bs = encode is :=
  decodeF_sound _ bs is h

theorem encode_injective {is js : List Instr} (h : encode is = encode js) : is = js := by
  have := decode_encode is; rw [h, decode_encode] at this; exact (Option.some.inj this).symm

/-- prefix-freeness: a non-empty strict prefix of an instruction's encoding does not decode -/
theorem decode1_strict_prefix (i : Instr) (pre suf : List Nat) (h : encode1 i = pre ++ suf)
    (hsuf : suf ≠ []) : decode1 pre = none := by
  cases hd : decode1 pre with
  | none => rfl
  | some jr =>
    obtain ⟨j, r⟩ := jr
    have hp := decode1_sound hd
    have h1 : decode1 (encode1 i ++ []) = some (i, []) := decode1_encode1 i []
    have h2 : decode1 (encode1 j ++ (r ++ suf)) = some (j, r ++ suf) := decode1_encode1 j (r ++ suf)
    have e : encode1 i ++ [] = encode1 j ++ (r ++ suf) := by rw [List.append_nil, h, hp, List.append_assoc]
    rw [e, h2] at h1
    simp at h1
    exact absurd h1.2.2 hsuf
