import Pi2.Tracker
import Pi2.MatchThm
import Pi2.Props.C11
/-!
# The tracker simulates the machine

`R s m`: the machine state `m` is the expansion of the tracker state `s` (residue entries removed).
`sim_step` (agreement), `sim_accept` (acceptance under the side conditions the tracker lacks),
`sim_load_index`, the phase switches, and `publish_leaves_residue`.
-/
set_option linter.unusedSimpArgs false
set_option linter.unusedVariables false

/-! ## definitions -/

def convT : TTerm → Term
  | .pat p => .pat p.expand
  | .proved p => .proved p.expand

def live (st : List (TTerm × Bool)) : List TTerm := (st.filter fun e => !e.2).map (·.1)

structure R (s : PySt) (m : St) : Prop where
  stack : m.stack = (live s.stack).map convT
  memory : m.memory = s.memory.map convT
  claims : s.phase = .proof → m.claims = s.claims.map NPat.expand

def ShapeSt (s : PySt) : Prop :=
  (∀ e ∈ s.stack, e.1.body.Shape = true) ∧ (∀ t ∈ s.memory, t.body.Shape = true) ∧
    (∀ c ∈ s.claims, c.Shape = true)

/-- symbols are named by first-occurrence index -/
def CanonTab (tab : List Nat) : Prop := tab = List.range tab.length

/-- how many top entries a call consumes or reads -/
def Call.arity : Call → Nat
  | .implies => 2 | .app => 2 | .esubst _ => 2 | .ssubst _ => 2 | .mp => 2
  | .ex _ => 1 | .mu _ => 1 | .gen _ => 1 | .pop => 1 | .save => 1
  | .publishProof => 1 | .publishAxiom => 1 | .publishClaim => 1
  | .instantiate keys => keys.length + 1
  | .instantiatePattern keys => keys.length + 1
  | _ => 0

def touchesResidue (s : PySt) (c : Call) : Bool := (s.stack.take c.arity).any (·.2)

/-- the well-formedness / constraint / capture checks of the machine that the tracker lacks -/
def SideCond (s : PySt) : Call → Prop
  | .metavar _ ef _ _ _ hs => (hs.any (ef.contains ·)) = false
  | .mu x => ∀ p b st, s.stack = (.pat p, b) :: st → p.expand.pos x = true
  | .esubst x => ∀ p b plug b' st, s.stack = (.pat p, b) :: (.pat plug, b') :: st →
      (plug.expand == Pat.evar x) = false ∧ p.expand.eFresh x = false
  | .ssubst x => ∀ p b plug b' st, s.stack = (.pat p, b) :: (.pat plug, b') :: st →
      (plug.expand == Pat.svar x) = false ∧ p.expand.sFresh x = false
  | .instantiate keys | .instantiatePattern keys => ∀ a b st plugs st', s.stack = (a, b) :: st →
      PySt.takePlugs keys.length st = some (plugs, st') →
      (Pat.inst (Py.lookup (NPat.expand.expandMap (keys.zip plugs))) a.body.expand).isSome = true
  | _ => True

/-! ## basic lemmas -/

@[simp] theorem live_nil : live [] = [] := rfl
@[simp] theorem live_cons_false (t : TTerm) (st : List (TTerm × Bool)) :
    live ((t, false) :: st) = t :: live st := by simp [live]
@[simp] theorem live_cons_true (t : TTerm) (st : List (TTerm × Bool)) :
    live ((t, true) :: st) = live st := by simp [live]

theorem isMetaHead_eq (p : NPat) : p.isMetaHead = p.isMetaN := by
  cases p <;> rfl

theorem run_single (ph : Phase) (m : St) (i : Instr) (m' : St) (out : List Pat) :
    run ph m [i] = some (m', out) ↔ ∃ j, step ph m i = some (m', j) ∧ out = j.toList := by
  simp only [run, Option.bind_eq_bind, Option.pure_def]
  cases h : step ph m i with
  | none => simp
  | some r =>
    obtain ⟨m1, j⟩ := r
    simp only [Option.bind_some, Option.some.injEq, Prod.mk.injEq, List.append_nil]
    constructor
    · rintro ⟨rfl, rfl⟩; exact ⟨j, ⟨rfl, rfl⟩, rfl⟩
    · rintro ⟨j', ⟨rfl, rfl⟩, rfl⟩; exact ⟨rfl, rfl⟩

/-! ### symbols -/

theorem symId_canon (tab : List Nat) (nm : Nat) (hC : CanonTab tab) (h : nm ≤ tab.length) :
    PySt.symId tab nm = nm ∧
      CanonTab (if tab.contains nm then tab else tab ++ [nm]) := by
  unfold CanonTab at hC
  by_cases hlt : nm < tab.length
  · have hmem : nm ∈ tab := by rw [hC]; exact List.mem_range.mpr hlt
    constructor
    · unfold PySt.symId
      have : tab.idxOf? nm = some nm := by
        rw [List.idxOf?_eq_some_iff]
        refine ⟨hlt, ?_, ?_⟩
        · conv => lhs; arg 1; rw [hC]
          simp
        · intro j hj
          have hjl : j < tab.length := by omega
          have : tab[j] = j := by
            conv => lhs; arg 1; rw [hC]
            simp
          rw [this]; omega
      simp [this]
    · simp [hmem]; exact hC
  · have hEq : nm = tab.length := by omega
    have hnm : nm ∉ tab := by
      rw [hC]; intro hm; have := List.mem_range.mp hm; omega
    constructor
    · unfold PySt.symId
      have : tab.idxOf? nm = none := List.idxOf?_eq_none_iff.mpr hnm
      rw [this]; exact hEq.symm
    · simp only [List.contains_eq_mem, hnm, decide_false, Bool.false_eq_true, if_false]
      unfold CanonTab
      rw [List.length_append, List.length_singleton, List.range_succ, ← hC, hEq]

/-! ### plugs: `lookupPlug` against `Py.lookup` over the zipped map -/

theorem lookupPlug_zip (ks : List Nat) (ps : List NPat) (k : Nat) :
    Pat.lookupPlug ks (ps.map NPat.expand) k
      = Py.lookup (NPat.expand.expandMap (ks.zip ps)) k := by
  induction ks generalizing ps with
  | nil => simp [Pat.lookupPlug, NPat.expand.expandMap, Py.lookup]
  | cons a ks ih =>
    cases ps with
    | nil => simp [Pat.lookupPlug, NPat.expand.expandMap, Py.lookup]
    | cons p ps =>
      simp only [List.map_cons, Pat.lookupPlug, List.zip_cons_cons, NPat.expand.expandMap,
        Py.lookup, ih]

theorem lookupPlug_not_mem (ks : List Nat) (ps : List Pat) (k : Nat) (h : k ∉ ks) :
    Pat.lookupPlug ks ps k = none := by
  induction ks generalizing ps with
  | nil => simp [Pat.lookupPlug]
  | cons a ks ih =>
    cases ps with
    | nil => simp [Pat.lookupPlug]
    | cons p ps =>
      simp only [List.mem_cons, not_or] at h
      have : ¬ a = k := fun e => h.1 e.symm
      simp [Pat.lookupPlug, this, ih ps h.2]

theorem lookupPlug_append (l1 r1 : List Nat) (l2 r2 : List Pat) (k : Nat)
    (h : l1.length = l2.length) :
    Pat.lookupPlug (l1 ++ r1) (l2 ++ r2) k
      = (Pat.lookupPlug l1 l2 k).or (Pat.lookupPlug r1 r2 k) := by
  induction l1 generalizing l2 with
  | nil =>
    cases l2 with
    | nil => simp [Pat.lookupPlug]
    | cons _ _ => simp at h
  | cons a l1 ih =>
    cases l2 with
    | nil => simp at h
    | cons p l2 =>
      simp only [List.length_cons, Nat.add_right_cancel_iff] at h
      simp only [List.cons_append, Pat.lookupPlug, ih l2 h]
      split <;> simp

theorem lookupPlug_reverse (ks : List Nat) (ps : List Pat) (k : Nat) (hnd : ks.Nodup)
    (h : ks.length = ps.length) :
    Pat.lookupPlug ks.reverse ps.reverse k = Pat.lookupPlug ks ps k := by
  induction ks generalizing ps with
  | nil => simp [Pat.lookupPlug]
  | cons a ks ih =>
    cases ps with
    | nil => simp at h
    | cons p ps =>
      simp only [List.length_cons, Nat.add_right_cancel_iff] at h
      obtain ⟨hna, hnd'⟩ := List.nodup_cons.mp hnd
      rw [List.reverse_cons, List.reverse_cons,
        lookupPlug_append _ _ _ _ _ (by simp [h]), ih ps hnd' h]
      simp only [Pat.lookupPlug]
      by_cases e : a = k
      · subst e
        simp [lookupPlug_not_mem ks ps a hna]
      · simp [e]

/-- the machine's substitution for `Instantiate keys.reverse` on plugs popped top-first is the
tracker's `delta` -/
theorem plug_subst_eq (keys : List Nat) (plugs : List NPat) (hnd : keys.Nodup)
    (h : plugs.length = keys.length) :
    Pat.lookupPlug keys.reverse (plugs.reverse.map NPat.expand)
      = Py.lookup (NPat.expand.expandMap (keys.zip plugs)) := by
  funext k
  rw [← lookupPlug_zip, List.map_reverse,
    lookupPlug_reverse keys (plugs.map NPat.expand) k hnd (by simp [h])]

/-! ### `takePlugs` against `popPats` -/

theorem takePlugs_spec (k : Nat) (st : List (TTerm × Bool)) (plugs : List NPat)
    (st' : List (TTerm × Bool)) (h : PySt.takePlugs k st = some (plugs, st'))
    (hres : (st.take k).any (·.2) = false) :
    plugs.length = k
    ∧ popPats k ((live st).map convT) = some (plugs.reverse.map NPat.expand, (live st').map convT)
    ∧ (∀ p ∈ plugs, ∃ b, (TTerm.pat p, b) ∈ st) ∧ (∀ e ∈ st', e ∈ st) := by
  induction k generalizing st plugs with
  | zero =>
    simp only [PySt.takePlugs, Option.some.injEq, Prod.mk.injEq] at h
    obtain ⟨rfl, rfl⟩ := h
    simp [popPats]
  | succ k ih =>
    cases st with
    | nil => simp [PySt.takePlugs] at h
    | cons e st1 =>
      obtain ⟨t, b⟩ := e
      cases t with
      | proved p => simp [PySt.takePlugs] at h
      | pat p =>
        simp only [PySt.takePlugs, Option.map_eq_some_iff] at h
        obtain ⟨⟨ps, st2⟩, h1, h2⟩ := h
        simp only [Prod.mk.injEq] at h2
        obtain ⟨rfl, rfl⟩ := h2
        simp only [List.take_succ_cons, List.any_cons, Bool.or_eq_false_iff] at hres
        obtain ⟨hb, hres'⟩ := hres
        subst hb
        obtain ⟨hl, hp, hm, hm'⟩ := ih st1 ps h1 hres'
        refine ⟨by simp [hl], ?_, ?_, ?_⟩
        · simp [popPats, convT, hp]
        · intro q hq
          rcases List.mem_append.mp hq with hq | hq
          · obtain ⟨b, hb⟩ := hm q hq
            exact ⟨b, List.mem_cons_of_mem _ hb⟩
          · simp at hq; subst hq
            exact ⟨false, by simp⟩
        · intro e he; exact List.mem_cons_of_mem _ (hm' e he)

/-! ### the rules -/

theorem pyMP_spec (n : Nat) (a b c : NPat) (ha : a.Shape = true) (hb : b.Shape = true)
    (h : NPat.pyMP n a b = some (some c)) :
    a.expand = .imp b.expand c.expand ∧ c.Shape = true := by
  simp only [NPat.pyMP, Option.bind_eq_bind, Option.bind_eq_some_iff] at h
  obtain ⟨q, hh, h⟩ := h
  obtain ⟨he, hs, _⟩ := NPat.headF_expand n a q ha hh
  cases q with
  | imp l r =>
    simp only [Option.bind_eq_some_iff, Option.pure_def, Option.some.injEq] at h
    obtain ⟨eq, hp, h⟩ := h
    have hsl : l.Shape = true ∧ r.Shape = true := by simpa [NPat.Shape] using hs
    have hdec := NPat.peqF_expand n l b eq hsl.1 hb hp
    cases eq with
    | false => simp at h
    | true =>
      simp only [if_true, Option.some.injEq] at h
      subst h
      have hlb : l.expand = b.expand := by simpa using hdec.symm
      exact ⟨by rw [← he, ← hlb]; simp only [NPat.expand], hsl.2⟩
  | _ => simp at h

theorem pyGen_spec (n : Nat) (a c : NPat) (x : VId) (ha : a.Shape = true)
    (h : NPat.pyGen n a x = some (some c)) :
    ∃ l r, a.expand = .imp l r ∧ r.eFresh x = true ∧ c.expand = .imp (.ex x l) r
      ∧ c.Shape = true := by
  simp only [NPat.pyGen, Option.bind_eq_bind, Option.bind_eq_some_iff] at h
  obtain ⟨q, hh, h⟩ := h
  obtain ⟨he, hs, _⟩ := NPat.headF_expand n a q ha hh
  cases q with
  | imp l r =>
    simp only [Option.bind_eq_some_iff, Option.pure_def, Option.some.injEq] at h
    obtain ⟨fr, hp, h⟩ := h
    have hsl : l.Shape = true ∧ r.Shape = true := by simpa [NPat.Shape] using hs
    have hfr := NPat.evarIsFreeF_expand n x r fr hsl.2 hp
    cases fr with
    | false => simp at h
    | true =>
      simp only [if_true, Option.some.injEq] at h
      subst h
      exact ⟨l.expand, r.expand, by rw [← he]; simp only [NPat.expand], hfr.symm,
        by simp only [NPat.expand], by simp [NPat.Shape, hsl.1, hsl.2]⟩
  | _ => simp at h

/-! ### memory lookup (C) -/

theorem teqF_conv (n : Nat) (t1 t2 : TTerm) (h1 : t1.body.Shape = true)
    (h2 : t2.body.Shape = true) (h : PySt.teqF n t1 t2 = some true) : convT t1 = convT t2 := by
  cases t1 with
  | pat a =>
    cases t2 with
    | pat b =>
      simp only [PySt.teqF] at h
      have := NPat.peqF_expand n a b true h1 h2 h
      have e : a.expand = b.expand := by simpa using this.symm
      simp [convT, e]
    | proved b => simp [PySt.teqF] at h
  | proved a =>
    cases t2 with
    | proved b =>
      simp only [PySt.teqF] at h
      have := NPat.peqF_expand n a b true h1 h2 h
      have e : a.expand = b.expand := by simpa using this.symm
      simp [convT, e]
    | pat b => simp [PySt.teqF] at h

theorem indexF_spec (n : Nat) (t : TTerm) (ht : t.body.Shape = true) (mem : List TTerm)
    (hm : ∀ u ∈ mem, u.body.Shape = true) (k i : Nat)
    (h : PySt.indexF n t mem k = some (some i)) :
    ∃ j, i = k + j ∧ (mem.map convT)[j]? = some (convT t) := by
  induction mem generalizing k with
  | nil => simp [PySt.indexF] at h
  | cons u r ih =>
    simp only [PySt.indexF, Option.bind_eq_bind, Option.bind_eq_some_iff] at h
    obtain ⟨b, hb, h⟩ := h
    cases b with
    | true =>
      simp only [if_true, Option.pure_def, Option.some.injEq] at h
      subst h
      have := teqF_conv n u t (hm u (by simp)) ht hb
      exact ⟨0, rfl, by simp [this]⟩
    | false =>
      simp only [Bool.false_eq_true, if_false] at h
      obtain ⟨j, hj, hg⟩ := ih (fun u hu => hm u (List.mem_cons_of_mem _ hu)) (k + 1) h
      exact ⟨j + 1, by omega, by simpa using hg⟩

theorem sim_load_index (n : Nat) (s : PySt) (m : St) (t : TTerm) (i : Nat) :
    R s m → ShapeSt s → t.body.Shape = true →
    PySt.indexF n t s.memory 0 = some (some i) → m.memory[i]? = some (convT t) := by
  intro hR hSh ht h
  obtain ⟨j, hj, hg⟩ := indexF_spec n t ht s.memory hSh.2.1 0 i h
  have : i = j := by omega
  subst this
  rw [hR.memory]; exact hg

/-! ## one lemma per call kind -/

/-- what every call satisfies: a single instruction is emitted; under the side conditions the
machine accepts it; whenever the machine accepts it, it ends in the tracker's state -/
def Sim1 (s s' : PySt) (m : St) (c : Call) (is : List Instr) : Prop :=
  ∃ i, is = [i] ∧ (SideCond s c → (step s.phase m i).isSome = true) ∧
    (∀ m' j, step s.phase m i = some (m', j) → R s' m') ∧ ShapeSt s' ∧ CanonTab s'.symtab

/-- the common shape: the consumed (live) top entries are replaced by one fresh entry `t`; the
machine may have a check `cond` that the tracker lacks -/
theorem sim_replace (s : PySt) (m : St) (c : Call) (i : Instr) (t : TTerm)
    (st : List (TTerm × Bool)) (cond : Bool)
    (hR : R s m) (hSh : ShapeSt s) (hC : CanonTab s.symtab) (ht : t.body.Shape = true)
    (hst : ∀ e ∈ st, e ∈ s.stack)
    (hstep : step s.phase m i = if cond = true then none
      else some ({ m with stack := convT t :: (live st).map convT }, none))
    (hside : SideCond s c → cond = false) :
    Sim1 s { s with stack := (t, false) :: st } m c [i] := by
  refine ⟨i, rfl, ?_, ?_, ?_, hC⟩
  · intro hs; rw [hstep, hside hs]; simp
  · intro m' j h
    rw [hstep] at h
    split at h
    · simp at h
    · simp only [Option.some.injEq, Prod.mk.injEq] at h
      obtain ⟨rfl, _⟩ := h
      exact ⟨by simp, hR.memory, hR.claims⟩
  · refine ⟨?_, hSh.2.1, hSh.2.2⟩
    intro e he
    simp only [List.mem_cons] at he
    rcases he with rfl | he
    · exact ht
    · exact hSh.1 e (hst e he)

/-- all calls that just push a term whose expansion the machine pushes -/
theorem sim_push (s : PySt) (m : St) (c : Call) (i : Instr) (t : TTerm)
    (hR : R s m) (hSh : ShapeSt s) (hC : CanonTab s.symtab) (ht : t.body.Shape = true)
    (hstep : step s.phase m i = some ({ m with stack := convT t :: m.stack }, none)) :
    Sim1 s (s.push t) m c [i] :=
  sim_replace s m c i t s.stack false hR hSh hC ht (fun _ h => h)
    (by rw [hstep, hR.stack]; simp) (fun _ => rfl)

theorem sim_evar (n : Nat) (s s' : PySt) (m : St) (x : VId) (is : List Instr)
    (hR : R s m) (hSh : ShapeSt s) (hC : CanonTab s.symtab)
    (ht : PySt.track1 n s (.evar x) = some (some s'))
    (he : PySt.emit1 n s (.evar x) = some (some is)) : Sim1 s s' m (.evar x) is := by
  simp only [PySt.track1, PySt.emit1, Option.some.injEq] at ht he
  subst ht; subst he
  exact sim_push s m _ _ _ hR hSh hC (by simp [TTerm.body, NPat.Shape]) (by simp [step, convT, NPat.expand])

theorem sim_svar (n : Nat) (s s' : PySt) (m : St) (x : VId) (is : List Instr)
    (hR : R s m) (hSh : ShapeSt s) (hC : CanonTab s.symtab)
    (ht : PySt.track1 n s (.svar x) = some (some s'))
    (he : PySt.emit1 n s (.svar x) = some (some is)) : Sim1 s s' m (.svar x) is := by
  simp only [PySt.track1, PySt.emit1, Option.some.injEq] at ht he
  subst ht; subst he
  exact sim_push s m _ _ _ hR hSh hC (by simp [TTerm.body, NPat.Shape]) (by simp [step, convT, NPat.expand])

theorem sim_symbol (n : Nat) (s s' : PySt) (m : St) (nm : Nat) (is : List Instr)
    (hR : R s m) (hSh : ShapeSt s) (hC : CanonTab s.symtab) (hnm : nm ≤ s.symtab.length)
    (ht : PySt.track1 n s (.symbol nm) = some (some s'))
    (he : PySt.emit1 n s (.symbol nm) = some (some is)) : Sim1 s s' m (.symbol nm) is := by
  simp only [PySt.track1, PySt.emit1, Option.some.injEq] at ht he
  subst ht; subst he
  obtain ⟨hid, hC'⟩ := symId_canon s.symtab nm hC hnm
  rw [hid]
  have hp := sim_push s m (.symbol nm) (.sym nm) (.pat (.sym nm)) hR hSh hC
    (by simp [TTerm.body, NPat.Shape]) (by simp [step, convT, NPat.expand])
  obtain ⟨i, hi, hacc, hsim, hsh, _⟩ := hp
  refine ⟨i, hi, hacc, ?_, hsh, hC'⟩
  intro m' j h
  obtain ⟨h1, h2, h3⟩ := hsim m' j h
  exact ⟨h1, h2, h3⟩

theorem sim_metavar (n : Nat) (s s' : PySt) (m : St) (id : VId) (ef sf ps ns hs : List VId)
    (is : List Instr) (hR : R s m) (hSh : ShapeSt s) (hC : CanonTab s.symtab)
    (hmv : ef = [] ∧ sf = [])
    (ht : PySt.track1 n s (.metavar id ef sf ps ns hs) = some (some s'))
    (he : PySt.emit1 n s (.metavar id ef sf ps ns hs) = some (some is)) :
    Sim1 s s' m (.metavar id ef sf ps ns hs) is := by
  obtain ⟨rfl, rfl⟩ := hmv
  simp only [PySt.track1, Option.some.injEq] at ht
  subst ht
  simp only [PySt.emit1] at he
  split at he
  · next hall =>
    simp only [List.isEmpty_nil, Bool.true_and, Bool.and_eq_true, List.isEmpty_iff] at hall
    obtain ⟨⟨rfl, rfl⟩, rfl⟩ := hall
    simp only [Option.some.injEq] at he; subst he
    exact sim_push s m _ _ _ hR hSh hC (by simp [TTerm.body, NPat.Shape])
      (by simp [step, convT, NPat.expand])
  · simp only [Option.some.injEq] at he; subst he
    exact sim_replace s m _ _ (.pat (.mv id [] [] ps ns hs)) s.stack
      (hs.any (([] : List VId).contains ·)) hR hSh hC (by simp [TTerm.body, NPat.Shape])
      (fun _ h => h) (by simp [step, convT, NPat.expand, hR.stack]) (fun h => by simp [SideCond] at h ⊢)

theorem sim_prop1 (n : Nat) (s s' : PySt) (m : St) (is : List Instr)
    (hR : R s m) (hSh : ShapeSt s) (hC : CanonTab s.symtab)
    (ht : PySt.track1 n s .prop1 = some (some s'))
    (he : PySt.emit1 n s .prop1 = some (some is)) : Sim1 s s' m .prop1 is := by
  simp only [PySt.track1, PySt.emit1, Option.some.injEq] at ht he
  subst ht; subst he
  exact sim_push s m _ _ _ hR hSh hC (by rfl)
    (by simp only [step, convT]; rfl)

theorem sim_prop2 (n : Nat) (s s' : PySt) (m : St) (is : List Instr)
    (hR : R s m) (hSh : ShapeSt s) (hC : CanonTab s.symtab)
    (ht : PySt.track1 n s .prop2 = some (some s'))
    (he : PySt.emit1 n s .prop2 = some (some is)) : Sim1 s s' m .prop2 is := by
  simp only [PySt.track1, PySt.emit1, Option.some.injEq] at ht he
  subst ht; subst he
  exact sim_push s m _ _ _ hR hSh hC (by rfl)
    (by simp only [step, convT]; rfl)

theorem sim_prop3 (n : Nat) (s s' : PySt) (m : St) (is : List Instr)
    (hR : R s m) (hSh : ShapeSt s) (hC : CanonTab s.symtab)
    (ht : PySt.track1 n s .prop3 = some (some s'))
    (he : PySt.emit1 n s .prop3 = some (some is)) : Sim1 s s' m .prop3 is := by
  simp only [PySt.track1, PySt.emit1, Option.some.injEq] at ht he
  subst ht; subst he
  exact sim_push s m _ _ _ hR hSh hC (by rfl)
    (by simp only [step, convT]; rfl)

theorem sim_quantifier (n : Nat) (s s' : PySt) (m : St) (is : List Instr)
    (hR : R s m) (hSh : ShapeSt s) (hC : CanonTab s.symtab)
    (ht : PySt.track1 n s .quantifier = some (some s'))
    (he : PySt.emit1 n s .quantifier = some (some is)) : Sim1 s s' m .quantifier is := by
  simp only [PySt.track1, PySt.emit1, Option.some.injEq] at ht he
  subst ht; subst he
  exact sim_push s m _ _ _ hR hSh hC (by rfl)
    (by simp only [step, convT]; rfl)

theorem sim_load (n : Nat) (s s' : PySt) (m : St) (t : TTerm) (is : List Instr)
    (hR : R s m) (hSh : ShapeSt s) (hC : CanonTab s.symtab) (hts : t.body.Shape = true)
    (ht : PySt.track1 n s (.load t) = some (some s'))
    (he : PySt.emit1 n s (.load t) = some (some is)) : Sim1 s s' m (.load t) is := by
  simp only [PySt.emit1, Option.bind_eq_bind, Option.bind_eq_some_iff] at he
  obtain ⟨oi, hidx, he⟩ := he
  cases oi with
  | none => simp at he
  | some i =>
    simp only [Option.pure_def, Option.some.injEq] at he; subst he
    simp only [PySt.track1, hidx, Option.bind_eq_bind, Option.bind_some, Option.pure_def,
      Option.some.injEq] at ht
    subst ht
    have hm := sim_load_index n s m t i hR hSh hts hidx
    exact sim_push s m _ _ _ hR hSh hC hts (by simp [step, hm])

theorem sim_implies (n : Nat) (s s' : PySt) (m : St) (is : List Instr)
    (hR : R s m) (hSh : ShapeSt s) (hC : CanonTab s.symtab)
    (hres : touchesResidue s .implies = false)
    (ht : PySt.track1 n s .implies = some (some s'))
    (he : PySt.emit1 n s .implies = some (some is)) : Sim1 s s' m .implies is := by
  simp only [PySt.emit1, Option.some.injEq] at he; subst he
  simp only [PySt.track1] at ht
  split at ht
  · next r b1 l b2 st hs =>
    simp only [Option.some.injEq] at ht; subst ht
    simp only [touchesResidue, Call.arity, hs, List.take_succ_cons, List.take_zero, List.any_cons,
      List.any_nil, Bool.or_false, Bool.or_eq_false_iff] at hres
    obtain ⟨rfl, rfl⟩ := hres
    have hm : m.stack = .pat r.expand :: .pat l.expand :: (live st).map convT := by
      rw [hR.stack, hs]; simp [convT]
    have h1 := hSh.1 (.pat r, false) (by rw [hs]; simp)
    have h2 := hSh.1 (.pat l, false) (by rw [hs]; simp)
    simp only [TTerm.body] at h1 h2
    exact sim_replace s m _ _ (.pat (.imp l r)) st false hR hSh hC
      (by simp [TTerm.body, NPat.Shape, h1, h2]) (by intro e he; rw [hs]; simp [he])
      (by simp [step, hm, convT, NPat.expand]) (fun _ => rfl)
  · simp at ht

theorem sim_app (n : Nat) (s s' : PySt) (m : St) (is : List Instr)
    (hR : R s m) (hSh : ShapeSt s) (hC : CanonTab s.symtab)
    (hres : touchesResidue s .app = false)
    (ht : PySt.track1 n s .app = some (some s'))
    (he : PySt.emit1 n s .app = some (some is)) : Sim1 s s' m .app is := by
  simp only [PySt.emit1, Option.some.injEq] at he; subst he
  simp only [PySt.track1] at ht
  split at ht
  · next r b1 l b2 st hs =>
    simp only [Option.some.injEq] at ht; subst ht
    simp only [touchesResidue, Call.arity, hs, List.take_succ_cons, List.take_zero, List.any_cons,
      List.any_nil, Bool.or_false, Bool.or_eq_false_iff] at hres
    obtain ⟨rfl, rfl⟩ := hres
    have hm : m.stack = .pat r.expand :: .pat l.expand :: (live st).map convT := by
      rw [hR.stack, hs]; simp [convT]
    have h1 := hSh.1 (.pat r, false) (by rw [hs]; simp)
    have h2 := hSh.1 (.pat l, false) (by rw [hs]; simp)
    simp only [TTerm.body] at h1 h2
    exact sim_replace s m _ _ (.pat (.app l r)) st false hR hSh hC
      (by simp [TTerm.body, NPat.Shape, h1, h2]) (by intro e he; rw [hs]; simp [he])
      (by simp [step, hm, convT, NPat.expand]) (fun _ => rfl)
  · simp at ht

theorem sim_ex (n : Nat) (s s' : PySt) (m : St) (x : VId) (is : List Instr)
    (hR : R s m) (hSh : ShapeSt s) (hC : CanonTab s.symtab)
    (hres : touchesResidue s (.ex x) = false)
    (ht : PySt.track1 n s (.ex x) = some (some s'))
    (he : PySt.emit1 n s (.ex x) = some (some is)) : Sim1 s s' m (.ex x) is := by
  simp only [PySt.emit1, Option.some.injEq] at he; subst he
  simp only [PySt.track1] at ht
  split at ht
  · next p b1 st hs =>
    simp only [Option.some.injEq] at ht; subst ht
    simp only [touchesResidue, Call.arity, hs, List.take_succ_cons, List.take_zero, List.any_cons,
      List.any_nil, Bool.or_false] at hres
    subst hres
    have hm : m.stack = .pat p.expand :: (live st).map convT := by
      rw [hR.stack, hs]; simp [convT]
    have h1 := hSh.1 (.pat p, false) (by rw [hs]; simp)
    simp only [TTerm.body] at h1
    exact sim_replace s m _ _ (.pat (.ex x p)) st false hR hSh hC
      (by simp [TTerm.body, NPat.Shape, h1]) (by intro e he; rw [hs]; simp [he])
      (by simp [step, hm, convT, NPat.expand]) (fun _ => rfl)
  · simp at ht

theorem sim_mu (n : Nat) (s s' : PySt) (m : St) (x : VId) (is : List Instr)
    (hR : R s m) (hSh : ShapeSt s) (hC : CanonTab s.symtab)
    (hres : touchesResidue s (.mu x) = false)
    (ht : PySt.track1 n s (.mu x) = some (some s'))
    (he : PySt.emit1 n s (.mu x) = some (some is)) : Sim1 s s' m (.mu x) is := by
  simp only [PySt.emit1, Option.some.injEq] at he; subst he
  simp only [PySt.track1] at ht
  split at ht
  · next p b1 st hs =>
    simp only [Option.some.injEq] at ht; subst ht
    simp only [touchesResidue, Call.arity, hs, List.take_succ_cons, List.take_zero, List.any_cons,
      List.any_nil, Bool.or_false] at hres
    subst hres
    have hm : m.stack = .pat p.expand :: (live st).map convT := by
      rw [hR.stack, hs]; simp [convT]
    have h1 := hSh.1 (.pat p, false) (by rw [hs]; simp)
    simp only [TTerm.body] at h1
    refine sim_replace s m _ _ (.pat (.mu x p)) st (!(p.expand.pos x)) hR hSh hC
      (by simp [TTerm.body, NPat.Shape, h1]) (by intro e he; rw [hs]; simp [he])
      ?_ ?_
    · simp only [step, hm, convT, NPat.expand]
      cases p.expand.pos x <;> simp
    · intro hside
      have := hside p false st hs
      simp [this]
  · simp at ht

theorem sim_esubst (n : Nat) (s s' : PySt) (m : St) (x : VId) (is : List Instr)
    (hR : R s m) (hSh : ShapeSt s) (hC : CanonTab s.symtab)
    (hres : touchesResidue s (.esubst x) = false)
    (ht : PySt.track1 n s (.esubst x) = some (some s'))
    (he : PySt.emit1 n s (.esubst x) = some (some is)) : Sim1 s s' m (.esubst x) is := by
  simp only [PySt.emit1, Option.some.injEq] at he; subst he
  simp only [PySt.track1] at ht
  split at ht
  · next p b1 plug b2 st hs =>
    split at ht
    · next hmeta =>
      simp only [Option.some.injEq] at ht; subst ht
      simp only [touchesResidue, Call.arity, hs, List.take_succ_cons, List.take_zero,
        List.any_cons, List.any_nil, Bool.or_false, Bool.or_eq_false_iff] at hres
      obtain ⟨rfl, rfl⟩ := hres
      have hm : m.stack = .pat p.expand :: .pat plug.expand :: (live st).map convT := by
        rw [hR.stack, hs]; simp [convT]
      have h1 := hSh.1 (.pat p, false) (by rw [hs]; simp)
      have h2 := hSh.1 (.pat plug, false) (by rw [hs]; simp)
      simp only [TTerm.body] at h1 h2
      rw [isMetaHead_eq] at hmeta
      have hme := NPat.isMeta_expand p hmeta
      refine sim_replace s m _ _ (.pat (.esub p x plug)) st
        (!(!(plug.expand == Pat.evar x) && !(p.expand.eFresh x))) hR hSh hC
        (by simp [TTerm.body, NPat.Shape, h1, h2, hmeta]) (by intro e he; rw [hs]; simp [he])
        ?_ ?_
      · simp only [step, hm, convT, NPat.expand, hme, Bool.true_and]
        cases (!(plug.expand == Pat.evar x) && !(p.expand.eFresh x)) <;> simp
      · intro hside
        obtain ⟨h3, h4⟩ := hside p false plug false st hs
        simp [h3, h4]
    · simp at ht
  · simp at ht

theorem sim_ssubst (n : Nat) (s s' : PySt) (m : St) (x : VId) (is : List Instr)
    (hR : R s m) (hSh : ShapeSt s) (hC : CanonTab s.symtab)
    (hres : touchesResidue s (.ssubst x) = false)
    (ht : PySt.track1 n s (.ssubst x) = some (some s'))
    (he : PySt.emit1 n s (.ssubst x) = some (some is)) : Sim1 s s' m (.ssubst x) is := by
  simp only [PySt.emit1, Option.some.injEq] at he; subst he
  simp only [PySt.track1] at ht
  split at ht
  · next p b1 plug b2 st hs =>
    split at ht
    · next hmeta =>
      simp only [Option.some.injEq] at ht; subst ht
      simp only [touchesResidue, Call.arity, hs, List.take_succ_cons, List.take_zero,
        List.any_cons, List.any_nil, Bool.or_false, Bool.or_eq_false_iff] at hres
      obtain ⟨rfl, rfl⟩ := hres
      have hm : m.stack = .pat p.expand :: .pat plug.expand :: (live st).map convT := by
        rw [hR.stack, hs]; simp [convT]
      have h1 := hSh.1 (.pat p, false) (by rw [hs]; simp)
      have h2 := hSh.1 (.pat plug, false) (by rw [hs]; simp)
      simp only [TTerm.body] at h1 h2
      rw [isMetaHead_eq] at hmeta
      have hme := NPat.isMeta_expand p hmeta
      refine sim_replace s m _ _ (.pat (.ssub p x plug)) st
        (!(!(plug.expand == Pat.svar x) && !(p.expand.sFresh x))) hR hSh hC
        (by simp [TTerm.body, NPat.Shape, h1, h2, hmeta]) (by intro e he; rw [hs]; simp [he])
        ?_ ?_
      · simp only [step, hm, convT, NPat.expand, hme, Bool.true_and]
        cases (!(plug.expand == Pat.svar x) && !(p.expand.sFresh x)) <;> simp
      · intro hside
        obtain ⟨h3, h4⟩ := hside p false plug false st hs
        simp [h3, h4]
    · simp at ht
  · simp at ht

theorem sim_mp (n : Nat) (s s' : PySt) (m : St) (is : List Instr)
    (hR : R s m) (hSh : ShapeSt s) (hC : CanonTab s.symtab)
    (hres : touchesResidue s .mp = false)
    (ht : PySt.track1 n s .mp = some (some s'))
    (he : PySt.emit1 n s .mp = some (some is)) : Sim1 s s' m .mp is := by
  simp only [PySt.emit1, Option.some.injEq] at he; subst he
  simp only [PySt.track1] at ht
  split at ht
  · next r b1 l b2 st hs =>
    simp only [Option.bind_eq_bind, Option.bind_eq_some_iff] at ht
    obtain ⟨oc, hmp, ht⟩ := ht
    cases oc with
    | none => simp at ht
    | some c =>
      simp only [Option.pure_def, Option.some.injEq] at ht; subst ht
      simp only [touchesResidue, Call.arity, hs, List.take_succ_cons, List.take_zero,
        List.any_cons, List.any_nil, Bool.or_false, Bool.or_eq_false_iff] at hres
      obtain ⟨rfl, rfl⟩ := hres
      have h1 := hSh.1 (.proved r, false) (by rw [hs]; simp)
      have h2 := hSh.1 (.proved l, false) (by rw [hs]; simp)
      simp only [TTerm.body] at h1 h2
      obtain ⟨hexp, hcs⟩ := pyMP_spec n l r c h2 h1 hmp
      have hm : m.stack = .proved r.expand :: .proved (.imp r.expand c.expand)
          :: (live st).map convT := by
        rw [hR.stack, hs]; simp [convT, hexp]
      exact sim_replace s m _ _ (.proved c) st false hR hSh hC
        (by simpa [TTerm.body] using hcs) (by intro e he; rw [hs]; simp [he])
        (by simp [step, hm, convT]) (fun _ => rfl)
  · simp at ht

theorem sim_gen (n : Nat) (s s' : PySt) (m : St) (x : VId) (is : List Instr)
    (hR : R s m) (hSh : ShapeSt s) (hC : CanonTab s.symtab)
    (hres : touchesResidue s (.gen x) = false)
    (ht : PySt.track1 n s (.gen x) = some (some s'))
    (he : PySt.emit1 n s (.gen x) = some (some is)) : Sim1 s s' m (.gen x) is := by
  simp only [PySt.emit1, Option.some.injEq] at he; subst he
  simp only [PySt.track1] at ht
  split at ht
  · next a b1 st hs =>
    simp only [Option.bind_eq_bind, Option.bind_eq_some_iff] at ht
    obtain ⟨oc, hgen, ht⟩ := ht
    cases oc with
    | none => simp at ht
    | some c =>
      simp only [Option.pure_def, Option.some.injEq] at ht; subst ht
      simp only [touchesResidue, Call.arity, hs, List.take_succ_cons, List.take_zero,
        List.any_cons, List.any_nil, Bool.or_false] at hres
      subst hres
      have h1 := hSh.1 (.proved a, false) (by rw [hs]; simp)
      simp only [TTerm.body] at h1
      obtain ⟨L, Rr, hexp, hfr, hce, hcs⟩ := pyGen_spec n a c x h1 hgen
      have hm : m.stack = .proved (.imp L Rr) :: (live st).map convT := by
        rw [hR.stack, hs]; simp [convT, hexp]
      exact sim_replace s m _ _ (.proved c) st false hR hSh hC
        (by simpa [TTerm.body] using hcs) (by intro e he; rw [hs]; simp [he])
        (by simp [step, hm, convT, hfr, hce]) (fun _ => rfl)
  · simp at ht

/-- the machine side of both `instantiate` calls -/
theorem sim_inst_core (s : PySt) (m : St) (c : Call) (keys : List Nat)
    (hc : c = .instantiate keys ∨ c = .instantiatePattern keys)
    (top res : TTerm) (st st' : List (TTerm × Bool)) (plugs : List NPat)
    (hR : R s m) (hSh : ShapeSt s) (hC : CanonTab s.symtab) (hnd : keys.Nodup)
    (hs : s.stack = (top, false) :: st)
    (htp : PySt.takePlugs keys.length st = some (plugs, st'))
    (hres : (st.take keys.length).any (·.2) = false)
    (hkind : top.isProved = res.isProved)
    (hce : res.body.expand
      = Py.inst (Py.lookup (NPat.expand.expandMap (keys.zip plugs))) top.body.expand)
    (hcs : res.body.Shape = true) :
    Sim1 s { s with stack := (res, false) :: st' } m c [.instantiate keys.reverse] := by
  obtain ⟨hlen, hpop, _, hsub⟩ := takePlugs_spec keys.length st plugs st' htp hres
  have hθ := plug_subst_eq keys plugs hnd hlen
  have hm : m.stack = convT top :: (live st).map convT := by rw [hR.stack, hs]; simp
  refine sim_replace s m c _ res st'
    (!(Pat.inst (Py.lookup (NPat.expand.expandMap (keys.zip plugs))) top.body.expand).isSome)
    hR hSh hC hcs (by intro e he; rw [hs]; exact List.mem_cons_of_mem _ (hsub e he)) ?_ ?_
  · cases top with
    | pat a =>
      cases res with
      | proved c' => simp [TTerm.isProved] at hkind
      | pat c' =>
        simp only [TTerm.body] at hce
        simp only [step, hm, convT, List.length_reverse, hpop, Option.bind_eq_bind,
          Option.bind_some, hθ, TTerm.body]
        have key : ∀ o : Option Pat, (∀ r, o = some r → r = c'.expand) →
            (o.bind fun r => pure (({ m with stack := Term.pat r :: List.map convT (live st') } : St),
                (none : Option Pat)))
              = if (!o.isSome) = true then none
                else some ({ m with stack := Term.pat c'.expand :: List.map convT (live st') }, none) := by
          intro o ho
          cases o with
          | none => simp
          | some r => simp [ho r rfl]
        exact key _ (fun r hI => by
          have := C11.py_inst_eq_rust _ _ _ hI
          rw [← hce] at this
          exact this.symm)
    | proved a =>
      cases res with
      | pat c' => simp [TTerm.isProved] at hkind
      | proved c' =>
        simp only [TTerm.body] at hce
        simp only [step, hm, convT, List.length_reverse, hpop, Option.bind_eq_bind,
          Option.bind_some, hθ, TTerm.body]
        have key : ∀ o : Option Pat, (∀ r, o = some r → r = c'.expand) →
            (o.bind fun r => pure (({ m with stack := Term.proved r :: List.map convT (live st') } : St),
                (none : Option Pat)))
              = if (!o.isSome) = true then none
                else some ({ m with stack := Term.proved c'.expand :: List.map convT (live st') }, none) := by
          intro o ho
          cases o with
          | none => simp
          | some r => simp [ho r rfl]
        exact key _ (fun r hI => by
          have := C11.py_inst_eq_rust _ _ _ hI
          rw [← hce] at this
          exact this.symm)
  · intro hside
    have : (Pat.inst (Py.lookup (NPat.expand.expandMap (keys.zip plugs)))
        top.body.expand).isSome = true := by
      rcases hc with rfl | rfl
      · exact hside top false st plugs st' hs htp
      · exact hside top false st plugs st' hs htp
    simp [this]

theorem shapeMap_zip (keys : List Nat) (plugs : List NPat)
    (h : ∀ p ∈ plugs, p.Shape = true) : NPat.ShapeMap (keys.zip plugs) = true := by
  rw [NPat.shapeMap_iff]
  intro kv hkv
  obtain ⟨k, v⟩ := kv
  exact h v (List.of_mem_zip hkv).2

theorem sim_instantiate (n : Nat) (s s' : PySt) (m : St) (keys : List Nat) (is : List Instr)
    (hR : R s m) (hSh : ShapeSt s) (hC : CanonTab s.symtab) (hnd : keys.Nodup)
    (hres : touchesResidue s (.instantiate keys) = false)
    (ht : PySt.track1 n s (.instantiate keys) = some (some s'))
    (he : PySt.emit1 n s (.instantiate keys) = some (some is)) :
    Sim1 s s' m (.instantiate keys) is := by
  simp only [PySt.emit1, Option.some.injEq] at he; subst he
  simp only [PySt.track1] at ht
  split at ht
  · next a b1 st hs =>
    simp only [touchesResidue, Call.arity, hs, List.take_succ_cons, List.any_cons,
      Bool.or_eq_false_iff] at hres
    obtain ⟨hb, hres⟩ := hres
    subst hb
    have h1 := hSh.1 (.proved a, false) (by rw [hs]; simp)
    simp only [TTerm.body] at h1
    split at ht
    · next hemp =>
      have hk : keys = [] := by simpa using hemp
      subst hk
      simp only [Option.some.injEq] at ht; subst ht
      exact sim_inst_core s m _ [] (Or.inl rfl) (.proved a) (.proved a) st st [] hR hSh hC hnd
        hs (by simp [PySt.takePlugs]) (by simp) rfl
        (by simpa [TTerm.body] using NPat.inst_isEmpty [] (by simp) a h1)
        (by simpa [TTerm.body] using h1)
    · split at ht
      · simp at ht
      · next plugs st' htp =>
        simp only [Option.bind_eq_bind, Option.bind_eq_some_iff, Option.pure_def,
          Option.some.injEq] at ht
        obtain ⟨c, hinst, ht⟩ := ht
        subst ht
        obtain ⟨hlen, _, hmem, _⟩ := takePlugs_spec keys.length st plugs st' htp hres
        have hsm : NPat.ShapeMap (keys.zip plugs) = true := by
          apply shapeMap_zip
          intro p hp
          obtain ⟨b, hb⟩ := hmem p hp
          exact hSh.1 (.pat p, b) (by rw [hs]; exact List.mem_cons_of_mem _ hb)
        obtain ⟨hce, hcs⟩ := NPat.instF_expand n _ a c h1 hsm hinst
        exact sim_inst_core s m _ keys (Or.inl rfl) (.proved a) (.proved c) st st' plugs hR hSh hC
          hnd hs htp hres rfl (by simpa [TTerm.body] using hce) (by simpa [TTerm.body] using hcs)
  · simp at ht

theorem sim_instantiatePattern (n : Nat) (s s' : PySt) (m : St) (keys : List Nat)
    (is : List Instr)
    (hR : R s m) (hSh : ShapeSt s) (hC : CanonTab s.symtab) (hnd : keys.Nodup)
    (hres : touchesResidue s (.instantiatePattern keys) = false)
    (ht : PySt.track1 n s (.instantiatePattern keys) = some (some s'))
    (he : PySt.emit1 n s (.instantiatePattern keys) = some (some is)) :
    Sim1 s s' m (.instantiatePattern keys) is := by
  simp only [PySt.emit1, Option.some.injEq] at he; subst he
  simp only [PySt.track1] at ht
  split at ht
  · next a b1 st hs =>
    simp only [touchesResidue, Call.arity, hs, List.take_succ_cons, List.any_cons,
      Bool.or_eq_false_iff] at hres
    obtain ⟨hb, hres⟩ := hres
    subst hb
    have h1 := hSh.1 (.pat a, false) (by rw [hs]; simp)
    simp only [TTerm.body] at h1
    split at ht
    · simp at ht
    · next plugs st' htp =>
      simp only [Option.some.injEq] at ht
      subst ht
      obtain ⟨hlen, _, hmem, _⟩ := takePlugs_spec keys.length st plugs st' htp hres
      have hsm : NPat.ShapeMap (keys.zip plugs) = true := by
        apply shapeMap_zip
        intro p hp
        obtain ⟨b, hb⟩ := hmem p hp
        exact hSh.1 (.pat p, b) (by rw [hs]; exact List.mem_cons_of_mem _ hb)
      exact sim_inst_core s m _ keys (Or.inr rfl) (.pat a) (.pat (.inst a (keys.zip plugs)))
        st st' plugs hR hSh hC hnd hs htp hres rfl (by simp [TTerm.body, NPat.expand])
        (by simp [TTerm.body, NPat.Shape, h1, hsm])
  · simp at ht

theorem sim_pop (n : Nat) (s s' : PySt) (m : St) (is : List Instr)
    (hR : R s m) (hSh : ShapeSt s) (hC : CanonTab s.symtab)
    (hres : touchesResidue s .pop = false)
    (ht : PySt.track1 n s .pop = some (some s'))
    (he : PySt.emit1 n s .pop = some (some is)) : Sim1 s s' m .pop is := by
  simp only [PySt.emit1, Option.some.injEq] at he; subst he
  simp only [PySt.track1] at ht
  split at ht
  · next e st hs =>
    obtain ⟨t, b⟩ := e
    simp only [Option.some.injEq] at ht; subst ht
    simp only [touchesResidue, Call.arity, hs, List.take_succ_cons, List.take_zero, List.any_cons,
      List.any_nil, Bool.or_false] at hres
    subst hres
    have hm : m.stack = convT t :: (live st).map convT := by rw [hR.stack, hs]; simp
    refine ⟨.pop, rfl, fun _ => by simp [step, hm], ?_, ?_, hC⟩
    · intro m' j h
      simp only [step, hm, Option.some.injEq, Prod.mk.injEq] at h
      obtain ⟨rfl, _⟩ := h
      exact ⟨rfl, hR.memory, hR.claims⟩
    · exact ⟨fun e he => hSh.1 e (by rw [hs]; exact List.mem_cons_of_mem _ he), hSh.2.1, hSh.2.2⟩
  · simp at ht

theorem sim_save (n : Nat) (s s' : PySt) (m : St) (is : List Instr)
    (hR : R s m) (hSh : ShapeSt s) (hC : CanonTab s.symtab)
    (hres : touchesResidue s .save = false)
    (ht : PySt.track1 n s .save = some (some s'))
    (he : PySt.emit1 n s .save = some (some is)) : Sim1 s s' m .save is := by
  simp only [PySt.emit1, Option.some.injEq] at he; subst he
  simp only [PySt.track1] at ht
  split at ht
  · next t b st hs =>
    simp only [Option.some.injEq] at ht; subst ht
    simp only [touchesResidue, Call.arity, hs, List.take_succ_cons, List.take_zero, List.any_cons,
      List.any_nil, Bool.or_false] at hres
    subst hres
    have hm : m.stack = convT t :: (live st).map convT := by rw [hR.stack, hs]; simp
    have h1 := hSh.1 (t, false) (by rw [hs]; simp)
    refine ⟨.save, rfl, fun _ => by simp [step, hm], ?_, ?_, hC⟩
    · intro m' j h
      simp only [step, hm, Option.some.injEq, Prod.mk.injEq] at h
      obtain ⟨rfl, _⟩ := h
      exact ⟨by simp [hm, hs], by simp [hR.memory], hR.claims⟩
    · refine ⟨hSh.1, ?_, hSh.2.2⟩
      intro u hu
      rcases List.mem_append.mp hu with hu | hu
      · exact hSh.2.1 u hu
      · simp at hu; subst hu; exact h1
  · simp at ht

theorem sim_publishProof (n : Nat) (s s' : PySt) (m : St) (is : List Instr)
    (hR : R s m) (hSh : ShapeSt s) (hC : CanonTab s.symtab)
    (hres : touchesResidue s .publishProof = false)
    (ht : PySt.track1 n s .publishProof = some (some s'))
    (he : PySt.emit1 n s .publishProof = some (some is)) : Sim1 s s' m .publishProof is := by
  simp only [PySt.emit1, Option.some.injEq] at he; subst he
  simp only [PySt.track1] at ht
  split at ht
  · next t b st c cs hph hs hcl =>
    simp only [Option.bind_eq_bind, Option.bind_eq_some_iff] at ht
    obtain ⟨eq, hpeq, ht⟩ := ht
    cases eq with
    | false => simp at ht
    | true =>
      simp only [if_true, Option.pure_def, Option.some.injEq] at ht; subst ht
      simp only [touchesResidue, Call.arity, hs, List.take_succ_cons, List.take_zero,
        List.any_cons, List.any_nil, Bool.or_false] at hres
      subst hres
      have h1 := hSh.1 (.proved t, false) (by rw [hs]; simp)
      have h2 := hSh.2.2 c (by rw [hcl]; simp)
      simp only [TTerm.body] at h1
      have hdec := NPat.peqF_expand n t c true h1 h2 hpeq
      have htc : t.expand = c.expand := by simpa using hdec.symm
      have hm : m.stack = .proved t.expand :: (live st).map convT := by
        rw [hR.stack, hs]; simp [convT]
      have hmc : m.claims = c.expand :: cs.map NPat.expand := by
        rw [hR.claims hph, hcl]; simp
      refine ⟨.publish, rfl, fun _ => by simp [step, hph, hm, hmc, htc], ?_, ?_, hC⟩
      · intro m' j h
        simp only [step, hph, hm, hmc, htc, if_true, Option.some.injEq, Prod.mk.injEq] at h
        obtain ⟨rfl, _⟩ := h
        exact ⟨by simp, hR.memory, fun _ => rfl⟩
      · refine ⟨?_, hSh.2.1, fun c' hc' => hSh.2.2 c' (by rw [hcl]; exact List.mem_cons_of_mem _ hc')⟩
        intro e he
        simp only [List.mem_cons] at he
        rcases he with rfl | he
        · exact h1
        · exact hSh.1 e (by rw [hs]; exact List.mem_cons_of_mem _ he)
  · simp at ht

theorem sim_publishAxiom (n : Nat) (s s' : PySt) (m : St) (is : List Instr)
    (hR : R s m) (hSh : ShapeSt s) (hC : CanonTab s.symtab)
    (hres : touchesResidue s .publishAxiom = false)
    (ht : PySt.track1 n s .publishAxiom = some (some s'))
    (he : PySt.emit1 n s .publishAxiom = some (some is)) : Sim1 s s' m .publishAxiom is := by
  simp only [PySt.emit1, Option.some.injEq] at he; subst he
  simp only [PySt.track1] at ht
  split at ht
  · next a b st hph hs =>
    simp only [Option.some.injEq] at ht; subst ht
    simp only [touchesResidue, Call.arity, hs, List.take_succ_cons, List.take_zero, List.any_cons,
      List.any_nil, Bool.or_false] at hres
    subst hres
    have h1 := hSh.1 (.pat a, false) (by rw [hs]; simp)
    have hm : m.stack = .pat a.expand :: (live st).map convT := by
      rw [hR.stack, hs]; simp [convT]
    refine ⟨.publish, rfl, fun _ => by simp [step, hph, hm], ?_, ?_, hC⟩
    · intro m' j h
      simp only [step, hph, hm, Option.some.injEq, Prod.mk.injEq] at h
      obtain ⟨rfl, _⟩ := h
      exact ⟨by simp, by simp [hR.memory, convT], fun h => by simp [hph] at h⟩
    · refine ⟨?_, ?_, hSh.2.2⟩
      · intro e he
        simp only [List.mem_cons] at he
        rcases he with rfl | he
        · exact h1
        · exact hSh.1 e (by rw [hs]; exact List.mem_cons_of_mem _ he)
      · intro u hu
        rcases List.mem_append.mp hu with hu | hu
        · exact hSh.2.1 u hu
        · simp at hu; subst hu; exact h1
  · simp at ht

theorem sim_publishClaim (n : Nat) (s s' : PySt) (m : St) (is : List Instr)
    (hR : R s m) (hSh : ShapeSt s) (hC : CanonTab s.symtab)
    (hres : touchesResidue s .publishClaim = false)
    (ht : PySt.track1 n s .publishClaim = some (some s'))
    (he : PySt.emit1 n s .publishClaim = some (some is)) : Sim1 s s' m .publishClaim is := by
  simp only [PySt.emit1, Option.some.injEq] at he; subst he
  simp only [PySt.track1] at ht
  split at ht
  · next a b st hph hs =>
    simp only [Option.some.injEq] at ht; subst ht
    simp only [touchesResidue, Call.arity, hs, List.take_succ_cons, List.take_zero, List.any_cons,
      List.any_nil, Bool.or_false] at hres
    subst hres
    have h1 := hSh.1 (.pat a, false) (by rw [hs]; simp)
    have hm : m.stack = .pat a.expand :: (live st).map convT := by
      rw [hR.stack, hs]; simp [convT]
    refine ⟨.publish, rfl, fun _ => by simp [step, hph, hm], ?_, ?_, hC⟩
    · intro m' j h
      simp only [step, hph, hm, Option.some.injEq, Prod.mk.injEq] at h
      obtain ⟨rfl, _⟩ := h
      exact ⟨by simp, hR.memory, fun h => by simp [hph] at h⟩
    · refine ⟨?_, hSh.2.1, hSh.2.2⟩
      intro e he
      simp only [List.mem_cons] at he
      rcases he with rfl | he
      · exact h1
      · exact hSh.1 e (by rw [hs]; exact List.mem_cons_of_mem _ he)
  · simp at ht

/-! ## assembly -/

theorem sim1 (n : Nat) (s s' : PySt) (m : St) (c : Call) (is : List Instr)
    (hR : R s m) (hSh : ShapeSt s) (hC : CanonTab s.symtab)
    (hsym : ∀ nm, c = .symbol nm → nm ≤ s.symtab.length)
    (hkeys : ∀ keys, (c = .instantiate keys ∨ c = .instantiatePattern keys) → keys.Nodup)
    (hload : ∀ t, c = .load t → t.body.Shape = true)
    (hmv : ∀ id ef sf ps ns hs, c = .metavar id ef sf ps ns hs → ef = [] ∧ sf = [])
    (hnc : c ≠ .intoClaim) (hnp : c ≠ .intoProof)
    (hres : touchesResidue s c = false)
    (ht : PySt.track1 n s c = some (some s'))
    (he : PySt.emit1 n s c = some (some is)) : Sim1 s s' m c is := by
  cases c with
  | evar x => exact sim_evar n s s' m x is hR hSh hC ht he
  | svar x => exact sim_svar n s s' m x is hR hSh hC ht he
  | symbol nm => exact sim_symbol n s s' m nm is hR hSh hC (hsym nm rfl) ht he
  | metavar id ef sf ps ns hs =>
    exact sim_metavar n s s' m id ef sf ps ns hs is hR hSh hC (hmv _ _ _ _ _ _ rfl) ht he
  | implies => exact sim_implies n s s' m is hR hSh hC hres ht he
  | app => exact sim_app n s s' m is hR hSh hC hres ht he
  | ex x => exact sim_ex n s s' m x is hR hSh hC hres ht he
  | mu x => exact sim_mu n s s' m x is hR hSh hC hres ht he
  | esubst x => exact sim_esubst n s s' m x is hR hSh hC hres ht he
  | ssubst x => exact sim_ssubst n s s' m x is hR hSh hC hres ht he
  | prop1 => exact sim_prop1 n s s' m is hR hSh hC ht he
  | prop2 => exact sim_prop2 n s s' m is hR hSh hC ht he
  | prop3 => exact sim_prop3 n s s' m is hR hSh hC ht he
  | quantifier => exact sim_quantifier n s s' m is hR hSh hC ht he
  | mp => exact sim_mp n s s' m is hR hSh hC hres ht he
  | gen x => exact sim_gen n s s' m x is hR hSh hC hres ht he
  | instantiate keys =>
    exact sim_instantiate n s s' m keys is hR hSh hC (hkeys keys (Or.inl rfl)) hres ht he
  | instantiatePattern keys =>
    exact sim_instantiatePattern n s s' m keys is hR hSh hC (hkeys keys (Or.inr rfl)) hres ht he
  | pop => exact sim_pop n s s' m is hR hSh hC hres ht he
  | save => exact sim_save n s s' m is hR hSh hC hres ht he
  | load t => exact sim_load n s s' m t is hR hSh hC (hload t rfl) ht he
  | publishProof => exact sim_publishProof n s s' m is hR hSh hC hres ht he
  | publishAxiom => exact sim_publishAxiom n s s' m is hR hSh hC hres ht he
  | publishClaim => exact sim_publishClaim n s s' m is hR hSh hC hres ht he
  | intoClaim => exact absurd rfl hnc
  | intoProof => exact absurd rfl hnp

/-- A. agreement: whenever the machine accepts the bytes of a call, it ends in the tracker's state -/
theorem sim_step (n : Nat) (s s' : PySt) (m m' : St) (c : Call) (is : List Instr)
    (out : List Pat) :
    R s m → ShapeSt s → CanonTab s.symtab →
    (∀ nm, c = .symbol nm → nm ≤ s.symtab.length) →
    (∀ keys, (c = .instantiate keys ∨ c = .instantiatePattern keys) → keys.Nodup) →
    (∀ t, c = .load t → t.body.Shape = true) →
    (∀ id ef sf ps ns hs, c = .metavar id ef sf ps ns hs → ef = [] ∧ sf = []) →
    c ≠ .intoClaim → c ≠ .intoProof → touchesResidue s c = false →
    PySt.track1 n s c = some (some s') → PySt.emit1 n s c = some (some is) →
    run s.phase m is = some (m', out) →
    R s' m' ∧ ShapeSt s' ∧ CanonTab s'.symtab := by
  intro hR hSh hC hsym hkeys hload hmv hnc hnp hres ht he hrun
  obtain ⟨i, rfl, _, hsim, hsh, hc⟩ :=
    sim1 n s s' m c is hR hSh hC hsym hkeys hload hmv hnc hnp hres ht he
  obtain ⟨j, hj, _⟩ := (run_single _ _ _ _ _).mp hrun
  exact ⟨hsim m' j hj, hsh, hc⟩

/-- B. acceptance: the machine rejects only because of the checks the tracker lacks -/
theorem sim_accept (n : Nat) (s s' : PySt) (m : St) (c : Call) (is : List Instr) :
    R s m → ShapeSt s → CanonTab s.symtab →
    (∀ nm, c = .symbol nm → nm ≤ s.symtab.length) →
    (∀ keys, (c = .instantiate keys ∨ c = .instantiatePattern keys) → keys.Nodup) →
    (∀ t, c = .load t → t.body.Shape = true) →
    (∀ id ef sf ps ns hs, c = .metavar id ef sf ps ns hs → ef = [] ∧ sf = []) →
    c ≠ .intoClaim → c ≠ .intoProof → touchesResidue s c = false →
    PySt.track1 n s c = some (some s') → PySt.emit1 n s c = some (some is) →
    SideCond s c →
    ∃ m' out, run s.phase m is = some (m', out) := by
  intro hR hSh hC hsym hkeys hload hmv hnc hnp hres ht he hside
  obtain ⟨i, rfl, hacc, _, _, _⟩ :=
    sim1 n s s' m c is hR hSh hC hsym hkeys hload hmv hnc hnp hres ht he
  obtain ⟨⟨m', j⟩, hstep⟩ := Option.isSome_iff_exists.mp (hacc hside)
  exact ⟨m', j.toList, (run_single _ _ _ _ _).mpr ⟨j, hstep, rfl⟩⟩

/-! ## D. phase switches -/

theorem sim_intoClaim (n : Nat) (s s' : PySt) (m : St) :
    R s m → PySt.track1 n s .intoClaim = some (some s') → R s' { m with stack := [] } := by
  intro hR ht
  simp only [PySt.track1] at ht
  split at ht
  · simp only [Option.some.injEq] at ht; subst ht
    exact ⟨by simp, hR.memory, fun h => by simp at h⟩
  · simp at ht

theorem sim_intoProof (n : Nat) (s s' : PySt) (m : St) :
    R s m → m.claims = s.claims.map NPat.expand →
    PySt.track1 n s .intoProof = some (some s') → R s' { m with stack := [] } := by
  intro hR hcl ht
  simp only [PySt.track1] at ht
  split at ht
  · simp only [Option.some.injEq] at ht; subst ht
    exact ⟨by simp, hR.memory, fun _ => hcl⟩
  · simp at ht

/-! ## E. the known finding: publish leaves the published term on the tracker's stack -/

theorem publish_leaves_residue (n : Nat) (s s' : PySt) (c : Call)
    (hc : c = .publishAxiom ∨ c = .publishClaim ∨ c = .publishProof)
    (ht : PySt.track1 n s c = some (some s')) :
    ∃ t b st, s.stack = (t, b) :: st ∧ s'.stack = (t, true) :: st
      ∧ live s'.stack = live st := by
  rcases hc with rfl | rfl | rfl
  · simp only [PySt.track1] at ht
    split at ht
    · next a b st hph hs =>
      simp only [Option.some.injEq] at ht; subst ht
      exact ⟨_, b, st, hs, rfl, by simp⟩
    · simp at ht
  · simp only [PySt.track1] at ht
    split at ht
    · next a b st hph hs =>
      simp only [Option.some.injEq] at ht; subst ht
      exact ⟨_, b, st, hs, rfl, by simp⟩
    · simp at ht
  · simp only [PySt.track1] at ht
    split at ht
    · next t b st c cs hph hs hcl =>
      simp only [Option.bind_eq_bind, Option.bind_eq_some_iff] at ht
      obtain ⟨eq, _, ht⟩ := ht
      cases eq with
      | false => simp at ht
      | true =>
        simp only [if_true, Option.pure_def, Option.some.injEq] at ht; subst ht
        exact ⟨_, b, st, hs, rfl, by simp⟩
    · simp at ht

#print axioms sim_step
#print axioms sim_accept
#print axioms sim_load_index
#print axioms sim_intoClaim
#print axioms sim_intoProof
#print axioms publish_leaves_residue
