import Pi2.Taut
/-!
# What the generated tautology prover (`Pi2/Gen/PyTaut.lean`, written by `vlib/transtaut.py`) is expressed in

Hand-written and deliberately tiny: the Python primitives the DATA SLICE of `tautology.py` uses.

Conventions of the translation
* every function and every loop returns `Option _`: `none` = the Python code raises (`AssertionError`, `KeyError`,
  `IndexError`, `AttributeError`, `TypeError`/`ValueError` of an unpacking) — or, in a function that takes fuel, the
  fuel ran out (`RecursionError` / a loop that does not end).  A Python value that may be `None` is an `Option` INSIDE.
* fuel: a function that calls itself is defined by cases on the fuel (`0` = out of fuel, `n + 1` = the body, every call in
  it gets `n`); a `for` loop over a list that its body mutates is an index machine (CPython's list iterator) that
  consumes one unit per iteration; a function that is not recursive passes its fuel on unchanged.
* a Python `int` is an `Int` (`len`, `range`, `enumerate` too); a `list` / `tuple[X, ...]` is a `List`.
* an expression of type `ProofThunk` is `()`; of type `ProofThunk | None` it is an `Option Unit` (whether it is `None`
  is data: it is asserted on).
* a `frozenset[int]` is its strictly ascending duplicate-free list (`Res.canon`, the representation of `Pi2/Taut.lean`);
  every operation below returns such a list when its arguments are; `==` on frozensets is `==` on the lists.
  Iterating over a frozenset (`list(cl)`) yields the ascending order; CPython's order is unspecified — the one place
  this is used (`is_trivial_clause`) computes an order-independent answer (`TautTie.is_trivial_clause_eq`).
* `dict` = insertion-ordered association list; assigning to an existing key keeps its position.
* PATTERNS.  The prover looks at its input pattern only through `pat == bot()`, `pat == top()`,
  `isinstance(pat, MetaVar)` / `pat.name` and `Implies.extract(pat)` (which looks through `Instantiate` nodes by
  `simplify`), and builds `neg(pat)`.  As in the hand-written model, a pattern is represented by its notation-free
  expansion, a `Form` (`⊥`, metavariable, implication): ASSUMPTION `==` against `bot()` / `top()` and `Implies.extract`
  on the real (notation-carrying) pattern agree with the same questions on its expansion, and `MetaVar.name` is a
  natural number.  (`Pi2/MatchTie.lean`, `Pi2/NotTie.lean` are about those operations on real patterns; the check
  `vlib/props/c09.py` runs the real prover on patterns written WITH the notations `neg/and/or/equiv/top`.)
-/
namespace TautSup

/-! ## control -/
/-- `assert b` -/
def pyAssert (b : Bool) : Option Unit := if b then some () else none

/-- result of a loop that contains a `return`: `.ret r` = the enclosing function returns `r`; `.go s` = the loop ended
(exhausted or `break`) with the loop-carried variables `s` -/
inductive Ctl (ρ σ : Type) where
  | ret (r : ρ)
  | go (s : σ)
deriving Repr

/-! ## patterns (see ASSUMPTION above) -/
/-- `bot()` -/
def bot : Form := .bot
/-- `top()` -/
def top : Form := Form.top
/-- `neg(p)` -/
def neg (p : Form) : Form := Form.neg p
/-- `isinstance(p, MetaVar)` -/
def isMetaVar : Form → Bool | .var _ => true | _ => false
/-- `p.name` (`AttributeError`) -/
def MetaVar_name : Form → Option Int | .var n => some (n : Int) | _ => none
/-- `Implies.extract(p)`: the tuple `(left, right)`; `AssertionError` when `p` is not an implication -/
def Implies_extract : Form → Option (List Form) | .imp a b => some [a, b] | _ => none

/-! ## `int`, `list`, `tuple` -/
/-- `len(xs)` -/
def pyLen {α : Type} (xs : List α) : Int := (xs.length : Int)
/-- `xs[i]` (negative `i` counts from the end; `IndexError`) -/
def pyIndex {α : Type} (xs : List α) (i : Int) : Option α :=
  if 0 ≤ i then xs[i.toNat]? else if -i ≤ (xs.length : Int) then xs[xs.length - (-i).toNat]? else none
/-- `xs[i:]` for `i ≥ 0` -/
def pySliceFrom {α : Type} (xs : List α) (i : Int) : List α :=
  if 0 ≤ i then xs.drop i.toNat else xs.drop (xs.length - (-i).toNat)
/-- `range(n)` -/
def pyRange (n : Int) : List Int := (List.range n.toNat).map fun (k : Nat) => (k : Int)
/-- `range(a, b)` -/
def pyRange2 (a b : Int) : List Int := (List.range (b - a).toNat).map fun (k : Nat) => a + (k : Int)
/-- `enumerate(xs)` -/
def pyEnumerateFrom {α : Type} : Int → List α → List (Int × α)
  | _, [] => []
  | n, x :: xs => (n, x) :: pyEnumerateFrom (n + 1) xs
def pyEnumerate {α : Type} (xs : List α) : List (Int × α) := pyEnumerateFrom 0 xs
/-- `itertools.combinations(xs, 2)`: all pairs of positions `i < j`, lexicographically -/
def pyCombinations2 {α : Type} : List α → List (α × α)
  | [] => []
  | x :: xs => xs.map (fun y => (x, y)) ++ pyCombinations2 xs
/-- `xs.remove(x)`: deletes the first occurrence (`ValueError` when there is none) -/
def pyListRemove {α : Type} [BEq α] : List α → α → Option (List α)
  | [], _ => none
  | y :: r, x => if y == x then some r else (pyListRemove r x).map (y :: ·)
/-- `[x] * n` -/
def pyRepeat {α : Type} (xs : List α) (n : Int) : List α := (List.replicate n.toNat xs).flatten
/-- `[a] = xs` / `(a,) = xs` (`ValueError` unless exactly one element) -/
def pyUnpack1 {α : Type} : List α → Option α | [a] => some a | _ => none

/-! ## `frozenset[int]` -/
abbrev FrozenSet := List Int
/-- `frozenset(xs)`, `set(xs)`, `{a, b, …}` -/
def fsOfList (xs : List Int) : FrozenSet := Res.canon xs
/-- `list(s)`, iteration -/
def fsToList (s : FrozenSet) : List Int := s
/-- `len(s)` -/
def fsLen (s : FrozenSet) : Int := (s.length : Int)
/-- truth value of a set -/
def fsTruthy (s : FrozenSet) : Bool := !s.isEmpty
/-- `x in s` -/
def fsMem (x : Int) (s : FrozenSet) : Bool := s.contains x
/-- `a.intersection(b)` / `a & b` -/
def fsInter (a b : FrozenSet) : FrozenSet := b.filter fun y => a.contains y
/-- `a.difference(b)` / `a - b` -/
def fsDiff (a b : FrozenSet) : FrozenSet := a.filter fun x => !b.contains x
/-- `a.union(b)` / `a | b` -/
def fsUnion (a b : FrozenSet) : FrozenSet := Res.canon (a ++ b)
/-- `a <= b` -/
def fsSubset (a b : FrozenSet) : Bool := a.all fun x => b.contains x
/-- `a < b` (proper subset) -/
def fsProperSubset (a b : FrozenSet) : Bool := fsSubset a b && !(a == b)

/-! ## `dict` -/
abbrev PyDict (κ α : Type) := List (κ × α)
def dictLen {κ α : Type} (d : PyDict κ α) : Int := (d.length : Int)
/-- truth value of a dict -/
def dictTruthy {κ α : Type} (d : PyDict κ α) : Bool := !d.isEmpty
/-- `k in d` -/
def dictHas {κ α : Type} [BEq κ] (d : PyDict κ α) (k : κ) : Bool := (d.lookup k).isSome
/-- `d[k]` (`KeyError`) -/
def dictGet {κ α : Type} [BEq κ] (d : PyDict κ α) (k : κ) : Option α := d.lookup k
/-- `d[k] = v`: an existing key keeps its position, a new one goes to the end -/
def dictSet {κ α : Type} [BEq κ] : PyDict κ α → κ → α → PyDict κ α
  | [], k, v => [(k, v)]
  | (k', v') :: r, k, v => if k' == k then (k', v) :: r else (k', v') :: dictSet r k v
/-- `list(d.keys())`, `list(d)` -/
def dictKeys {κ α : Type} (d : PyDict κ α) : List κ := d.map (·.1)

end TautSup
