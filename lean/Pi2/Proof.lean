import Pi2.Tracker
/-!
# Proof expressions (`proof.py`: `ProofThunk`, `ProofExp`) and how the interpreters run them

`Pf` is the tree of primitive proof rules a `ProofThunk` is built from; library lemmas are functions
producing such trees.  `concF` is the conclusion a thunk advertises (`ProofThunk.conc`, computed at
construction, with the construction-time assertions of `ProofExp.modus_ponens`); `runBasicF` is the
run on `BasicInterpreter`; `runF` the run on the stateful family (tracker + serializer), including the
`assert proved.conclusion == self.conc` that every thunk performs after it ran (`proof.py:42-46`).
`patternF` is `Interpreter.pattern` (compile a pattern into calls), optionally through
`MemoizingInterpreter` (suggestion set `memo`).
-/
open Pat

inductive Pf where
  | prop1 | prop2 | prop3 | quantifier
  | mp (l r : Pf)
  | gen (p : Pf) (x : VId)
  | dynInst (p : Pf) (delta : List (Nat × NPat))
  | loadAxiom (a : NPat)
deriving Repr, Inhabited

namespace NPat

/-- structural equality (what hashing of the frozen dataclasses distinguishes); maps of notation nodes
are compared as finite maps (`frozendict` equality ignores insertion order) -/
def seq : NPat → NPat → Bool
  | evar a, evar b => a == b | svar a, svar b => a == b | sym a, sym b => a == b
  | imp a b, imp c d => seq a c && seq b d
  | app a b, app c d => seq a c && seq b d
  | ex x a, ex y b => x == y && seq a b
  | mu x a, mu y b => x == y && seq a b
  | mv a b c d e f, mv a' b' c' d' e' f' => a == a' && b == b' && c == c' && d == d' && e == e' && f == f'
  | esub p x q, esub p' x' q' => seq p p' && x == x' && seq q q'
  | ssub p x q, ssub p' x' q' => seq p p' && x == x' && seq q q'
  | inst p m, inst p' m' => seq p p' && m.length == m'.length && seqMap m m'
  | _, _ => false
where
  seqMap : List (Nat × NPat) → List (Nat × NPat) → Bool
    | [], _ => true
    | (k, v) :: r, m' => seqAt v k m' && seqMap r m'
  seqAt (v : NPat) (k : Nat) : List (Nat × NPat) → Bool
    | [] => false
    | (k', v') :: r => if k' = k then seq v v' else seqAt v k r

end NPat

namespace PySt

/-- interpreters of the stateful family differ only in what they write; `memo = none`: plain
`Interpreter.pattern`; `memo = some S`: through `MemoizingInterpreter(sub, S)` -/
structure Cfg where
  memo : Option (List NPat) := none

/-- execute a list of calls, collecting them -/
def doCalls (n : Nat) (s : PySt) (cs : List Call) (acc : List Call) : Option (Option (PySt × List Call)) :=
  match cs with
  | [] => some (some (s, acc))
  | c :: r => do
      match ← track1 n s c with
      | none => pure none
      | some s' => doCalls n s' r (acc ++ [c])

/-- is a pattern `==` to some memory entry (`p in sub_interpreter.memory`) -/
def inMemoryF (n : Nat) (p : NPat) : List TTerm → Option Bool
  | [] => some false
  | m :: r => do
      if ← teqF n m (.pat p) then pure true else inMemoryF n p r

/-- `interpreter.pattern(p)`: returns the new state and the calls made (outer Option fuel, inner raise) -/
def patternF (cfg : Cfg) : Nat → PySt → NPat → List Call → Option (Option (PySt × List Call))
  | 0, _, _, _ => none
  | n + 1, s, p, acc => do
    let memoHit ← match cfg.memo with
      | none => pure false
      | some _ => inMemoryF n p s.memory
    if memoHit then
      doCalls n s [.load (.pat p)] acc
    else
      let build : Option (Option (PySt × List Call)) :=
        match p with
        | .evar x => doCalls n s [.evar x] acc
        | .svar x => doCalls n s [.svar x] acc
        | .sym x => doCalls n s [.symbol x] acc
        | .mv id ef sf ps ns hs => doCalls n s [.metavar id ef sf ps ns hs] acc
        | .imp l r => do
            match ← patternF cfg n s l acc with
            | none => pure none
            | some (s1, a1) =>
              match ← patternF cfg n s1 r a1 with
              | none => pure none
              | some (s2, a2) => doCalls n s2 [.implies] a2
        | .app l r => do
            match ← patternF cfg n s l acc with
            | none => pure none
            | some (s1, a1) =>
              match ← patternF cfg n s1 r a1 with
              | none => pure none
              | some (s2, a2) => doCalls n s2 [.app] a2
        | .ex x q => do
            match ← patternF cfg n s q acc with
            | none => pure none
            | some (s1, a1) => doCalls n s1 [.ex x] a1
        | .mu x q => do
            match ← patternF cfg n s q acc with
            | none => pure none
            | some (s1, a1) => doCalls n s1 [.mu x] a1
        | .esub q x plug => do
            match ← patternF cfg n s plug acc with
            | none => pure none
            | some (s1, a1) =>
              match ← patternF cfg n s1 q a1 with
              | none => pure none
              | some (s2, a2) => doCalls n s2 [.esubst x] a2
        | .ssub q x plug => do
            match ← patternF cfg n s plug acc with
            | none => pure none
            | some (s1, a1) =>
              match ← patternF cfg n s1 q a1 with
              | none => pure none
              | some (s2, a2) => doCalls n s2 [.ssubst x] a2
        | .inst q m => do
            match ← patternListF cfg n s (m.map (·.2)) acc with
            | none => pure none
            | some (s1, a1) =>
              match ← patternF cfg n s1 q a1 with
              | none => pure none
              | some (s2, a2) => doCalls n s2 [.instantiatePattern (m.map (·.1))] a2
      match ← build with
      | none => pure none
      | some (s', a') =>
        match cfg.memo with
        | some S => if S.any (NPat.seq p) then doCalls n s' [.save] a' else pure (some (s', a'))
        | none => pure (some (s', a'))
where
  patternListF (cfg : Cfg) : Nat → PySt → List NPat → List Call → Option (Option (PySt × List Call))
    | 0, _, _, _ => none
    | _ + 1, s, [], acc => some (some (s, acc))
    | n + 1, s, p :: r, acc => do
        match ← patternF cfg n s p acc with
        | none => pure none
        | some (s1, a1) => patternListF cfg n s1 r a1

end PySt

namespace Pf
open PySt

/-- `ProofThunk.conc`: the conclusion advertised at construction (`none` inside = `ProofExp.<rule>` raises
while *building* the thunk).  `axioms` = the module's `_axioms` (for `load_axiom`'s assertion). -/
def concF (axioms : List NPat) : Nat → Pf → Option (Option NPat)
  | 0, _ => none
  | _ + 1, prop1 => some (some prop1N)
  | _ + 1, prop2 => some (some prop2N)
  | _ + 1, prop3 => some (some prop3N)
  | _ + 1, quantifier => some (some quantN)
  | n + 1, mp l r => do
      match ← concF axioms n l, ← concF axioms n r with
      | some a, some b => NPat.pyMP n a b          -- `p, q = Implies.extract(left.conc); assert p == right.conc`
      | _, _ => pure none
  | n + 1, gen p x => do
      match ← concF axioms n p with
      | none => pure none
      | some a =>
        match ← NPat.headF n a with
        | .imp l r => pure (some (.imp (.ex x l) r))   -- no freshness check at construction
        | _ => pure none
  | n + 1, dynInst p δ => do
      match ← concF axioms n p with
      | none => pure none
      | some a => if δ.isEmpty then pure (some a) else do pure (some (← NPat.instF n δ a))
  | n + 1, loadAxiom a => do
      -- `assert axiom_term in self._axioms`
      let rec mem (n : Nat) : List NPat → Option Bool
        | [] => some false
        | x :: r => do if ← NPat.peqF n x a then pure true else mem n r
      if ← mem n axioms then pure (some a) else pure none

/-- the run on `BasicInterpreter`: conclusion only, with the thunk's check against `conc` -/
def runBasicF (axioms : List NPat) : Nat → Pf → Option (Option NPat)
  | 0, _ => none
  | n + 1, pf => do
    let raw : Option NPat ← match pf with
      | prop1 => pure (some prop1N)
      | prop2 => pure (some prop2N)
      | prop3 => pure (some prop3N)
      | quantifier => pure (some quantN)
      | mp l r => do
          match ← runBasicF axioms n l, ← runBasicF axioms n r with
          | some a, some b => NPat.pyMP n a b
          | _, _ => pure none
      | gen p x => do
          match ← runBasicF axioms n p with
          | none => pure none
          | some a => NPat.pyGen n a x
      | dynInst p δ => do
          if δ.isEmpty then runBasicF axioms n p else
          match ← runBasicF axioms n p with
          | none => pure none
          | some a => do pure (some (← NPat.instF n δ a))
      | loadAxiom a => pure (some a)
    match raw with
    | none => pure none
    | some c =>
      match ← concF axioms n pf with
      | none => pure none
      | some adv => if ← NPat.peqF n c adv then pure (some c) else pure none

/-- the run on a stateful interpreter: returns the state, the calls made, and the `Proved` returned -/
def runF (cfg : Cfg) (axioms : List NPat) : Nat → PySt → Pf → List Call → Option (Option (PySt × List Call × NPat))
  | 0, _, _, _ => none
  | n + 1, s, pf, acc => do
    let raw : Option (PySt × List Call) ← match pf with
      | prop1 => doCalls n s [.prop1] acc
      | prop2 => doCalls n s [.prop2] acc
      | prop3 => doCalls n s [.prop3] acc
      | quantifier => doCalls n s [.quantifier] acc
      | mp l r => do
          match ← runF cfg axioms n s l acc with
          | none => pure none
          | some (s1, a1, _) =>
            match ← runF cfg axioms n s1 r a1 with
            | none => pure none
            | some (s2, a2, _) => doCalls n s2 [.mp] a2
      | gen p x => do
          match ← runF cfg axioms n s p acc with
          | none => pure none
          | some (s1, a1, _) => doCalls n s1 [.gen x] a1
      | dynInst p δ => do
          if δ.isEmpty then
            match ← runF cfg axioms n s p acc with
            | none => pure none
            | some (s1, a1, _) => pure (some (s1, a1))
          else
            match ← patternF.patternListF cfg n s (δ.map (·.2)) acc with
            | none => pure none
            | some (s1, a1) =>
              match ← runF cfg axioms n s1 p a1 with
              | none => pure none
              | some (s2, a2, _) => doCalls n s2 [.instantiate (δ.map (·.1))] a2
      | loadAxiom a => doCalls n s [.load (.proved a)] acc
    match raw with
    | none => pure none
    | some (s', a') =>
      match s'.stack with
      | (.proved c, _) :: _ =>
        match ← concF axioms n pf with
        | none => pure none
        | some adv => if ← NPat.peqF n c adv then pure (some (s', a', c)) else pure none
      | _ => pure none

end Pf

/-- a proof module (`ProofExp`): axioms, claims, proof expressions, imported modules -/
inductive PModule where
  | mk (axioms claims : List NPat) (proofs : List Pf) (subs : List PModule)
deriving Repr, Inhabited

namespace PModule
open PySt

def axiomsOf : PModule → List NPat | mk a _ _ _ => a
def claimsOf : PModule → List NPat | mk _ c _ _ => c
def proofsOf : PModule → List Pf | mk _ _ p _ => p
def subsOf : PModule → List PModule | mk _ _ _ s => s

/-- the axioms published by `execute_gamma_phase`: imported modules first (depth first, in import
order), then the module's own -/
def gammaAxioms : PModule → List NPat
  | mk a _ _ s => gammaList s ++ a
where
  gammaList : List PModule → List NPat
    | [] => []
    | m :: r => gammaAxioms m ++ gammaList r

/-- `execute_full(interpreter)`: all calls of the three phases -/
def executeFull (cfg : Cfg) (n : Nat) (m : PModule) : Option (Option (PySt × List Call)) := do
  let s0 := PySt.init m.claimsOf
  -- gamma
  let rec pub (n : Nat) (s : PySt) (acc : List Call) (c : Call) : List NPat → Option (Option (PySt × List Call))
    | [] => some (some (s, acc))
    | a :: r => do
        match ← patternF cfg n s a acc with
        | none => pure none
        | some (s1, a1) =>
          match ← doCalls n s1 [c] a1 with
          | none => pure none
          | some (s2, a2) => pub n s2 a2 c r
  match ← pub n s0 [] .publishAxiom m.gammaAxioms with
  | none => pure none
  | some (s1, a1) =>
  match ← doCalls n s1 [.intoClaim] a1 with
  | none => pure none
  | some (s2, a2) =>
  match ← pub n s2 a2 .publishClaim m.claimsOf.reverse with
  | none => pure none
  | some (s3, a3) =>
  match ← doCalls n s3 [.intoProof] a3 with
  | none => pure none
  | some (s4, a4) =>
  let rec proofs (n : Nat) (s : PySt) (acc : List Call) : List Pf → Option (Option (PySt × List Call))
    | [] => some (some (s, acc))
    | pf :: r => do
        match ← Pf.runF cfg m.axiomsOf n s pf acc with
        | none => pure none
        | some (s1, a1, _) =>
          match ← doCalls n s1 [.publishProof] a1 with
          | none => pure none
          | some (s2, a2) => proofs n s2 a2 r
  proofs n s4 a4 m.proofsOf

end PModule
