import Pi2.Tracker
import Pi2.Codec
import Pi2.Gen.Serializer
/-!
# What the serializer writes, as written in `serializing_interpreter.py`, is `encode ∘ emit1`

`Pi2/Gen/Serializer.lean` is regenerated from the source on every run (`vlib/transser.py`): the byte list each
interpreter method writes.  `emit1` (`Pi2/Tracker.lean`) is the hand-written serializer model — the instruction a
call emits — and `encode1` (`Pi2/Codec.lean`) its byte encoding; the theorems about generated modules (C02–C04, C14,
C16) are stated about them.  Here: for every call, the bytes of the emitted instructions are the bytes the Python
method writes (opcode, operand order — e.g. the reversed key list of `instantiate` —, the clean-metavariable
shortcut, the five constraint lists, the memory index of `load`, the symbol number).
-/
open PySt

namespace SerTie

theorem translated : Gen.Ser.translated = true := by decide

/-- the bytes the Python serializer writes for a call; `memIdx` = `self.memory.index(term)` of `load` -/
def bytesOfCall (s : PySt) (memIdx : Nat) : Call → List Nat
  | .evar x => Gen.Ser.w_evar x
  | .svar x => Gen.Ser.w_svar x
  | .symbol nm => Gen.Ser.w_symbol (symId s.symtab nm)
  | .metavar id ef sf ps ns hs => Gen.Ser.w_metavar id ef sf ps ns hs
  | .implies => Gen.Ser.w_implies
  | .app => Gen.Ser.w_app
  | .ex x => Gen.Ser.w_exists x
  | .mu x => Gen.Ser.w_mu x
  | .esubst x => Gen.Ser.w_esubst x
  | .ssubst x => Gen.Ser.w_ssubst x
  | .prop1 => Gen.Ser.w_prop1
  | .prop2 => Gen.Ser.w_prop2
  | .prop3 => Gen.Ser.w_prop3
  | .quantifier => Gen.Ser.w_exists_quantifier
  | .mp => Gen.Ser.w_modus_ponens
  | .gen x => Gen.Ser.w_exists_generalization x
  | .instantiate keys => Gen.Ser.w_instantiate keys
  | .instantiatePattern keys => Gen.Ser.w_instantiate_pattern keys
  | .pop => Gen.Ser.w_pop
  | .save => Gen.Ser.w_save
  | .load _ => Gen.Ser.w_load memIdx
  | .publishProof => Gen.Ser.w_publish_proof
  | .publishAxiom => Gen.Ser.w_publish_axiom
  | .publishClaim => Gen.Ser.w_publish_claim
  | .intoClaim => []
  | .intoProof => []

theorem opc_values :
    Gen.Ser.opc "EVar" = 2 ∧ Gen.Ser.opc "SVar" = 3 ∧ Gen.Ser.opc "Symbol" = 4 ∧ Gen.Ser.opc "Implies" = 5 ∧
    Gen.Ser.opc "App" = 6 ∧ Gen.Ser.opc "Mu" = 7 ∧ Gen.Ser.opc "Exists" = 8 ∧ Gen.Ser.opc "MetaVar" = 9 ∧
    Gen.Ser.opc "ESubst" = 10 ∧ Gen.Ser.opc "SSubst" = 11 ∧ Gen.Ser.opc "Prop1" = 12 ∧ Gen.Ser.opc "Prop2" = 13 ∧
    Gen.Ser.opc "Prop3" = 14 ∧ Gen.Ser.opc "Quantifier" = 15 ∧ Gen.Ser.opc "ModusPonens" = 21 ∧
    Gen.Ser.opc "Generalization" = 22 ∧ Gen.Ser.opc "Instantiate" = 26 ∧ Gen.Ser.opc "Pop" = 27 ∧
    Gen.Ser.opc "Save" = 28 ∧ Gen.Ser.opc "Load" = 29 ∧ Gen.Ser.opc "Publish" = 30 ∧ Gen.Ser.opc "CleanMetaVar" = 137 := by
  decide

theorem metavar_bytes (id : Nat) (ef sf ps ns hs : List Nat) :
    Gen.Ser.w_metavar id ef sf ps ns hs =
      if ef.isEmpty && sf.isEmpty && ps.isEmpty && ns.isEmpty && hs.isEmpty then encode1 (.cleanmv id)
      else encode1 (.metavar id ef sf ps ns hs) := by
  obtain ⟨_, _, _, _, _, _, _, h9, _, _, _, _, _, _, _, _, _, _, _, _, _, h137⟩ := opc_values
  simp only [Gen.Ser.w_metavar, h9, h137, encode1, encVec]
  cases ef <;> cases sf <;> cases ps <;> cases ns <;> cases hs <;>
    simp [List.flatMap, Nat.add_eq_zero_iff] <;> omega

/-- **the serializer tie**: the bytes of what `emit1` emits for a call are the bytes the Python method writes -/
theorem emit_is_serializer (n : Nat) (s : PySt) (c : Call) (is : List Instr)
    (h : emit1 n s c = some (some is)) : ∃ memIdx, encode is = bytesOfCall s memIdx c := by
  obtain ⟨h2, h3, h4, h5, h6, h7, h8, h9, h10, h11, h12, h13, h14, h15, h21, h22, h26, h27, h28, h29, h30, h137⟩ := opc_values
  cases c with
  | load t =>
    simp only [emit1, Option.bind_eq_bind, Option.bind_eq_some_iff] at h
    obtain ⟨r, hr, h⟩ := h
    cases r with
    | none => simp at h
    | some i =>
      simp only [Option.pure_def, Option.some.injEq] at h
      subst h
      exact ⟨i, by simp [bytesOfCall, Gen.Ser.w_load, encode, encode1, h29]⟩
  | metavar id ef sf ps ns hs =>
    refine ⟨0, ?_⟩
    simp only [bytesOfCall, metavar_bytes]
    simp only [emit1] at h
    split at h <;> simp only [Option.some.injEq] at h <;> subst h <;> simp_all [encode]
  | _ =>
    refine ⟨0, ?_⟩
    simp only [emit1, Option.some.injEq] at h
    subst h
    simp [bytesOfCall, encode, encode1, Gen.Ser.w_evar, Gen.Ser.w_svar, Gen.Ser.w_symbol, Gen.Ser.w_implies, Gen.Ser.w_app,
      Gen.Ser.w_exists, Gen.Ser.w_mu, Gen.Ser.w_esubst, Gen.Ser.w_ssubst, Gen.Ser.w_prop1, Gen.Ser.w_prop2, Gen.Ser.w_prop3,
      Gen.Ser.w_exists_quantifier, Gen.Ser.w_modus_ponens, Gen.Ser.w_exists_generalization, Gen.Ser.w_instantiate,
      Gen.Ser.w_instantiate_pattern, Gen.Ser.w_pop, Gen.Ser.w_save, Gen.Ser.w_publish_proof, Gen.Ser.w_publish_axiom,
      Gen.Ser.w_publish_claim, *]

end SerTie
