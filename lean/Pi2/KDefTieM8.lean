import Pi2.KDefTieM6
import Pi2.KDefTieM7
/-!
# THE OUTER STEP: the loop over the MODULES of the generated `from_kore_definition` against `KDefSpec.addModules`

* `moduleBody` / `from_kore_definition_unfold` (by `rfl`): the generated `from_kore_definition` IS `__enter__`, the loop over the modules whose
  body is `LanguageSemantics.module`, `KModule.__enter__`, the loop over the sentences with the body `sentenceBody` (the verbatim copy that
  `Pi2/KDefTieM5.lean` ties to `stepM`), `__exit__`; then `__exit__` of the semantics;
* `FSt` / `heapF` / `InvF`: the store BETWEEN two modules (all modules finished; no counter yet iff no module yet);
* `module_enter_heapF`: `LanguageSemantics.module` (the `mapPy` over the references of `KModule.name`, the fresh-name check, `count()` for
  the first module / the counter object of the main module for a later one) followed by `KModule.__enter__`;
* `module_step`: one module of the generated loop against `addModule`; `modules_loop`: all of them against `addModules`;
* `from_kore_definition_modules`: `from_kore_definition` raises exactly when `modulesOfDefinition` refuses, and otherwise returns
  `heapF (some false) b` with `InvF b` and `projF b` = the specification's result.
-/
set_option linter.unusedVariables false
set_option linter.unusedSimpArgs false
namespace KDefTieM2
open PyI PyM PyK Kore Gen.PyKDef KDefSpec KDefTie KDefTieM

/-- the body of the loop over the MODULES of the generated `from_kore_definition` -/
def moduleBody (so : SetOrder) (n : Nat) : KModuleDef → PyLS → (PyLS → Py PyLS) → Py PyLS :=
  fun v_kore_module h continue_ =>
    call (LanguageSemantics.module h v_kore_module.name) fun (h, t1) =>
    call (KModule.__enter__ h t1) fun (h, t2) =>
    forEach v_kore_module.sentences h (sentenceBody so n t2) fun h =>
    call (BuilderScope.__exit__.KModule h t1) fun h =>
    continue_ h

/-- the generated function IS this (in particular `sentenceBody` is the body of its inner loop) -/
theorem from_kore_definition_unfold (so : SetOrder) (n : Nat) (d : KDefinition) :
    LanguageSemantics.from_kore_definition so n d
      = call (LanguageSemantics.__enter__ LanguageSemantics.__init__) fun h =>
        forEach d.modules h (moduleBody so n) fun h =>
        call (BuilderScope.__exit__.LanguageSemantics h) fun h => ret h := rfl

/-! ## the store between two modules -/

structure FSt where
  fin : List RMod
  nAxioms : Nat

/-- `count()` is created with the first module -/
def FSt.cs (b : FSt) : List Nat := if b.fin.isEmpty then [] else [b.nAxioms]

def heapF (pL : Option Bool) (b : FSt) : PyLS := heapL pL b.fin b.cs

structure InvF (b : FSt) : Prop where
  distinct : DistinctNames b.fin
  ok : ∀ (i : Nat) (m : RMod), b.fin[i]? = some m → ModOK (b.fin.take i) m
  wf : ∀ ru ∈ b.fin.flatMap (·.rules), ru.ordinal < b.nAxioms
  zero : b.fin = [] → b.nAxioms = 0

/-- a module `name` is begun (`LanguageSemantics.module`, `KModule.__enter__`) -/
def FSt.begin (b : FSt) (name : Nat) : RStM := { done := b.fin, cur := newMod name, nAxioms := b.nAxioms }
/-- the module under construction is finished (`__exit__`) -/
def finish (st : RStM) : FSt := { fin := st.done ++ [{ st.cur with parsing := some false }], nAxioms := st.nAxioms }

/-- what the specification keeps -/
def projF (b : FSt) : DefSem × List ModSem :=
  ({ sg := sgM b.fin, rules := b.fin.flatMap (·.rules), nAxioms := b.nAxioms }, b.fin.map projMod)

theorem cs_finish (st : RStM) : (finish st).cs = [st.nAxioms] := by simp [FSt.cs, finish]

theorem distinct_snoc {l : List RMod} {x : RMod} (hd : DistinctNames l) (hf : ∀ m ∈ l, m.name ≠ x.name) : DistinctNames (l ++ [x]) := by
  have key : ∀ (c : Nat) (z : RMod), (l ++ [x])[c]? = some z → (c < l.length ∧ l[c]? = some z) ∨ (c = l.length ∧ z = x) := by
    intro c z hc
    rcases Nat.lt_or_ge c l.length with h | h
    · rw [List.getElem?_append_left h] at hc; exact .inl ⟨h, hc⟩
    · have hl := idx_lt hc
      simp at hl
      have : c = l.length := by omega
      subst this
      simp at hc
      exact .inr ⟨rfl, hc.symm⟩
  intro a b y z ha hb hn
  rcases key a y ha with ⟨_, ha'⟩ | ⟨ha', rfl⟩ <;> rcases key b z hb with ⟨_, hb'⟩ | ⟨hb', rfl⟩
  · exact hd a b y z ha' hb' hn
  · exact absurd hn (hf y (List.mem_of_getElem? ha'))
  · exact absurd hn.symm (hf z (List.mem_of_getElem? hb'))
  · omega

theorem inv_begin {b : FSt} (hb : InvF b) (name : Nat) (hfresh : ∀ m ∈ b.fin, m.name ≠ name) : InvM (b.begin name) where
  distinct := distinct_snoc hb.distinct hfresh
  doneOK := hb.ok
  curOK := modOK_new _ _
  parsing := rfl
  wf := by
    intro ru hru
    apply hb.wf ru
    simpa [FSt.begin, RStM.mods, newMod, List.flatMap_append] using hru

theorem inv_finish {st : RStM} (hinv : InvM st) : InvF (finish st) where
  distinct := by
    apply distinctNames_congr _ hinv.distinct
    simp [finish, RStM.mods]
  ok := by
    intro i m hm
    simp only [finish] at hm ⊢
    rcases Nat.lt_or_ge i st.done.length with h | h
    · rw [List.getElem?_append_left h] at hm
      rw [List.take_append_of_le_length (by omega)]
      exact hinv.doneOK i m hm
    · have hi := idx_lt hm
      have : i = st.done.length := by simp at hi; omega
      subst this
      simp at hm; subst hm
      rw [List.take_append_of_le_length (by omega), List.take_length]
      exact hinv.curOK
  wf := by
    intro ru hru
    apply hinv.wf ru
    simpa [finish, RStM.mods, List.flatMap_append] using hru
  zero := by intro h; simp [finish] at h

theorem inv_empty : InvF { fin := [], nAxioms := 0 } where
  distinct := by intro a b x y ha; simp at ha
  ok := by intro i m hm; simp at hm
  wf := by intro ru hru; simp at hru
  zero := fun _ => rfl

theorem projM_begin (b : FSt) (name : Nat) :
    projM (b.begin name) = { all := (projF b).1, done := (projF b).2, cur := ModSem.new name } := by
  simp [projM, projF, FSt.begin, RStM.mods, sgM, List.flatMap_append, newMod, projMod, ModSem.new]

theorem projF_finish (st : RStM) : projF (finish st) = ((projM st).all, (projM st).done ++ [(projM st).cur]) := by
  simp [projF, finish, projM, RStM.mods, sgM, List.flatMap_append, projMod]

/-! ## `LanguageSemantics.module`, `KModule.__enter__`, `__exit__` -/

theorem mapPy_ret {α β γ} (l : List α) (f : α → Py β) (g : α → β) (hf : ∀ x ∈ l, f x = ret (g x)) (k : List β → Py γ) :
    mapPy l f k = k (l.map g) := by
  induction l generalizing k with
  | nil => rfl
  | cons x xs ih =>
    simp only [mapPy, List.map_cons]
    rw [hf x (List.mem_cons_self ..), KoreTie.call_ret_val, ih (fun y hy => hf y (List.mem_cons_of_mem _ hy))]

theorem range_map_nameAt (mods : List RMod) : (List.range mods.length).map (nameAt mods) = mods.map (·.name) := by
  apply List.ext_getElem?
  intro i
  simp only [List.getElem?_map]
  rcases Nat.lt_or_ge i mods.length with h | h
  · rw [List.getElem?_range h, List.getElem?_eq_getElem h]
    simp [nameAt, List.getElem?_eq_getElem h]
  · rw [List.getElem?_eq_none (by simpa using h), List.getElem?_eq_none h]; rfl

/-- the generator `(module.name for module in self._imported_modules)` -/
theorem names_heapL {γ} (pL mods cs) (k : List Nat → Py γ) :
    mapPy (List.range mods.length) (fun v => call (KModule.name (heapL pL mods cs) v) fun t1 => ret t1) k = k (mods.map (·.name)) := by
  rw [mapPy_ret _ _ (nameAt mods), range_map_nameAt]
  intro v hv
  have hv' : v < mods.length := List.mem_range.1 hv
  simp only [KModule.name, getMod_heapL, nameAt, List.getElem?_eq_getElem hv', KoreTie.call_ret_val, modOfM]

theorem enter_rawL (pL pd x cache cs) (i : Nat) (hi : i = pd.length) :
    KModule.__enter__ (rawL pL (pd ++ [x]) cache cs) i = ret (rawL pL (pd ++ [{ x with _parsing := some true }]) cache cs, i) := by
  unfold KModule.__enter__ BuilderScope.__enter__.KModule
  simp only [getMod_last _ _ _ _ _ i hi, setMod_last _ _ _ _ _ i hi, KoreTie.call_ret_val]

theorem exit_rawL (pL pd x cache cs) (i : Nat) (hi : i = pd.length) :
    BuilderScope.__exit__.KModule (rawL pL (pd ++ [x]) cache cs) i = ret (rawL pL (pd ++ [{ x with _parsing := some false }]) cache cs) := by
  unfold BuilderScope.__exit__.KModule
  simp only [getMod_last _ _ _ _ _ i hi, setMod_last _ _ _ _ _ i hi]

theorem exit_heapM (st : RStM) : BuilderScope.__exit__.KModule (heapM st) st.done.length = ret (heapF (some true) (finish st)) := by
  rw [heapM_raw, exit_rawL _ _ _ _ _ _ (by simp)]
  congr 1
  rw [heapF, cs_finish, heapL_raw]
  simp [finish, RStM.mods, modOfM, toR, List.flatMap_append]

theorem list_nil_or_snoc {α} (l : List α) : l = [] ∨ ∃ d x, l = d ++ [x] := by
  induction l with
  | nil => exact .inl rfl
  | cons a l ih =>
    rcases ih with rfl | ⟨d, x, rfl⟩
    · exact .inr ⟨[], a, rfl⟩
    · exact .inr ⟨a :: d, x, rfl⟩

/-- `LanguageSemantics.module` when there is a module already: the counter object of the main (= last) module -/
theorem module_rawL (pd : List PyKModule) (x : PyKModule) (cache cs) (name : Nat) (names : List Nat) (hx : x.counter = 0)
    (hnames : ∀ (k : List Nat → Py (PyLS × Nat)), mapPy (List.range (pd ++ [x]).length)
        (fun v => call (KModule.name (rawL (some true) (pd ++ [x]) cache cs) v) fun t1 => ret t1) k = k names) :
    LanguageSemantics.module (rawL (some true) (pd ++ [x]) cache cs) name
      = if names.contains name then raise
        else ret (rawL (some true) (pd ++ [x] ++ [KModule.__init__ name 0]) cache cs, (pd ++ [x]).length) := by
  unfold LanguageSemantics.module
  have hp : (rawL (some true) (pd ++ [x]) cache cs)._parsing = some true := rfl
  have hi : (rawL (some true) (pd ++ [x]) cache cs)._imported_modules = List.range (pd ++ [x]).length := rfl
  rw [hp, builder_true, hi, hnames]
  by_cases hc : names.contains name = true
  · rw [if_pos hc, if_pos hc]
  · rw [if_neg hc, if_neg hc]
    have hlen : ((List.range (pd ++ [x]).length).length == 0) = false := by simp
    rw [hlen]
    simp only [Bool.false_eq_true, if_false, LanguageSemantics.main_module, hi, hlen]
    have hlast : (List.range (pd ++ [x]).length).getLast? = some pd.length := by simp [List.range_succ]
    simp only [lastOf, hlast, KoreTie.call_ret_val, getMod_last _ _ _ _ _ pd.length rfl, hx, newModule]
    simp [rawL, ret, List.range_succ]

/-- `LanguageSemantics.module(name)` then `KModule.__enter__`, on the store between two modules -/
theorem module_enter_heapF {γ} (b : FSt) (hb : InvF b) (name : Nat) (K : PyLS → Nat → Nat → Py γ) :
    (call (LanguageSemantics.module (heapF (some true) b) name) fun (h, t1) => call (KModule.__enter__ h t1) fun (h, t2) => K h t1 t2)
      = if (b.fin.map (·.name)).contains name then raise else K (heapM (b.begin name)) b.fin.length b.fin.length := by
  obtain ⟨fin, c⟩ := b
  rcases list_nil_or_snoc fin with rfl | ⟨pd, x, rfl⟩
  · have := hb.zero rfl
    simp only at this; subst this
    rfl
  · have hcs : FSt.cs ⟨pd ++ [x], c⟩ = [c] := by simp [FSt.cs]
    have hh : heapF (some true) ⟨pd ++ [x], c⟩
        = rawL (some true) (pd.map modOfM ++ [modOfM x]) (scopesDict ((pd ++ [x]).flatMap (·.rules))) [c] := by
      rw [heapF, hcs, heapL_raw]; simp
    have hnames : ∀ (k : List Nat → Py (PyLS × Nat)), mapPy (List.range (pd.map modOfM ++ [modOfM x]).length)
        (fun v => call (KModule.name (rawL (some true) (pd.map modOfM ++ [modOfM x]) (scopesDict ((pd ++ [x]).flatMap (·.rules))) [c]) v)
          fun t1 => ret t1) k = k ((pd ++ [x]).map (·.name)) := by
      intro k
      have := names_heapL (some true) (pd ++ [x]) [c] k
      rw [heapL_raw] at this
      simpa using this
    rw [hh, module_rawL _ _ _ _ name _ rfl hnames]
    by_cases hc : ((pd ++ [x]).map (·.name)).contains name = true
    · rw [if_pos hc, if_pos hc]; rfl
    · rw [if_neg hc, if_neg hc, KoreTie.call_ret_val]
      dsimp only
      rw [enter_rawL _ _ _ _ _ _ rfl, KoreTie.call_ret_val]
      have hl : (pd.map modOfM ++ [modOfM x]).length = (pd ++ [x]).length := by simp
      rw [hl]
      congr 1
      rw [heapM_raw]
      simp [FSt.begin, RStM.mods, newMod, modOfM, toR, sortsDict, symbolsDict, axiomsDict, KModule.__init__, List.flatMap_append]

/-! ## one module, all modules -/

theorem any_name_contains (l : List RMod) (nm : Nat) : (l.map projMod).any (·.name == nm) = (l.map (·.name)).contains nm := by
  induction l with
  | nil => rfl
  | cons a l ih =>
    simp only [List.map_cons, List.any_cons, List.contains_cons, ih]
    rw [BEq.comm (a := nm)]; rfl

theorem contains_false_ne {l : List RMod} {nm : Nat} (h : ¬ (l.map (·.name)).contains nm = true) : ∀ m ∈ l, m.name ≠ nm := by
  intro m hm hn
  apply h
  simp only [List.contains_iff_mem, List.mem_map]
  exact ⟨m, hm, hn⟩

/-- one module of the generated loop against `addModule` -/
theorem module_step (so : SetOrder) (hso : so.Valid) (n : Nat) (b : FSt) (hb : InvF b) (km : KModuleDef) (hn : b.fin.length + 2 ≤ n)
    (hns : ∀ s ∈ km.sentences, NotSelfImport km.name s) (cont : PyLS → Py PyLS) :
    match addModule (projF b) km with
    | none => moduleBody so n km (heapF (some true) b) cont = raise
    | some a => ∃ b', InvF b' ∧ projF b' = a ∧ b'.fin.length = b.fin.length + 1 ∧
        moduleBody so n km (heapF (some true) b) cont = cont (heapF (some true) b') := by
  have hmb : moduleBody so n km (heapF (some true) b) cont
      = if (b.fin.map (·.name)).contains km.name then raise
        else forEach km.sentences (heapM (b.begin km.name)) (sentenceBody so n b.fin.length)
          (fun h => call (BuilderScope.__exit__.KModule h b.fin.length) fun h => cont h) :=
    module_enter_heapF b hb km.name
      (fun h t1 t2 => forEach km.sentences h (sentenceBody so n t2) fun h => call (BuilderScope.__exit__.KModule h t1) fun h => cont h)
  rw [hmb]
  unfold addModule
  have hany : (projF b).2.any (·.name == km.name) = (b.fin.map (·.name)).contains km.name := any_name_contains b.fin km.name
  rw [hany]
  by_cases hc : (b.fin.map (·.name)).contains km.name = true
  · simp only [hc, if_true]
  · simp only [hc, Bool.false_eq_true, if_false]
    have hinv := inv_begin hb km.name (contains_false_ne hc)
    have h := sentences_text_is_spec so hso n (fun h => call (BuilderScope.__exit__.KModule h b.fin.length) fun h => cont h)
      km.sentences (b.begin km.name) hinv (by simp [RStM.mods, FSt.begin]; omega) hns
    rw [projM_begin] at h
    cases hd : addSentencesM { all := (projF b).1, done := (projF b).2, cur := ModSem.new km.name } km.sentences with
    | none => rw [hd] at h; exact h
    | some d' =>
      rw [hd] at h
      obtain ⟨st', hinv', hproj, hdone, hname, heq⟩ := h
      refine ⟨finish st', inv_finish hinv', ?_, ?_, ?_⟩
      · rw [projF_finish, hproj]
      · simp [finish, hdone, FSt.begin]
      · show forEach km.sentences (heapM (b.begin km.name)) (sentenceBody so n b.fin.length) _ = _
        have hd' : (b.begin km.name).done.length = b.fin.length := rfl
        rw [hd'] at heq
        rw [heq]
        have : b.fin.length = st'.done.length := by rw [hdone]; rfl
        rw [this, exit_heapM, KoreTie.call_ret_val]

/-- the generated loop over the modules against `addModules` -/
theorem modules_loop (so : SetOrder) (hso : so.Valid) (n : Nat) (k : PyLS → Py PyLS) :
    ∀ (ms : List KModuleDef) (b : FSt), InvF b → b.fin.length + ms.length + 1 ≤ n →
      (∀ m ∈ ms, ∀ s ∈ m.sentences, NotSelfImport m.name s) →
      match addModules (projF b) ms with
      | none => forEach ms (heapF (some true) b) (moduleBody so n) k = raise
      | some a => ∃ b', InvF b' ∧ projF b' = a ∧ b'.fin.length = b.fin.length + ms.length ∧
          forEach ms (heapF (some true) b) (moduleBody so n) k = k (heapF (some true) b') := by
  intro ms
  induction ms with
  | nil => intro b hb _ _; exact ⟨b, hb, rfl, rfl, rfl⟩
  | cons m ms ih =>
    intro b hb hn hns
    simp only [addModules, forEach]
    have h1 := module_step so hso n b hb m (by simp at hn; omega) (hns m (List.mem_cons_self ..))
      (fun s' => forEach ms s' (moduleBody so n) k)
    cases ha : addModule (projF b) m with
    | none => rw [ha] at h1; exact h1
    | some a =>
      rw [ha] at h1
      obtain ⟨b1, hb1, hp1, hl1, he1⟩ := h1
      simp only [Option.bind_some]
      have h2 := ih b1 hb1 (by simp at hn; omega) (fun m' hm' => hns m' (List.mem_cons_of_mem _ hm'))
      rw [hp1] at h2
      cases ha2 : addModules a ms with
      | none => rw [ha2] at h2; rw [he1]; exact h2
      | some a2 =>
        rw [ha2] at h2
        obtain ⟨b2, hb2, hp2, hl2, he2⟩ := h2
        exact ⟨b2, hb2, hp2, by simp; omega, by rw [he1]; exact he2⟩

/-- `from_kore_definition` on a definition without self-imports, fuel `≥` (number of modules) `+ 1`: it raises exactly when the
specification `modulesOfDefinition` refuses, and otherwise returns the store of the finished modules -/
theorem from_kore_definition_modules (so : SetOrder) (hso : so.Valid) (n : Nat) (d : KDefinition)
    (hns : ∀ m ∈ d.modules, ∀ s ∈ m.sentences, NotSelfImport m.name s) (hn : d.modules.length + 1 ≤ n) :
    match modulesOfDefinition d with
    | none => LanguageSemantics.from_kore_definition so n d = raise
    | some a => ∃ b, InvF b ∧ projF b = a ∧ b.fin.length = d.modules.length ∧
        LanguageSemantics.from_kore_definition so n d = ret (heapF (some false) b) := by
  rw [from_kore_definition_unfold]
  have e1 : LanguageSemantics.__enter__ LanguageSemantics.__init__ = ret (heapF (some true) ⟨[], 0⟩) := rfl
  rw [e1, KoreTie.call_ret_val]
  have h := modules_loop so hso n (fun h => call (BuilderScope.__exit__.LanguageSemantics h) fun h => ret h) d.modules ⟨[], 0⟩ inv_empty
    (by simpa using hn) hns
  have e2 : projF ⟨[], 0⟩ = (emptySem, []) := rfl
  rw [e2] at h
  unfold modulesOfDefinition
  cases ha : addModules (emptySem, []) d.modules with
  | none => rw [ha] at h; exact h
  | some a =>
    rw [ha] at h
    obtain ⟨b, hb, hp, hl, he⟩ := h
    exact ⟨b, hb, hp, by simpa using hl, by rw [he]; rfl⟩

#print axioms from_kore_definition_unfold
#print axioms module_enter_heapF
#print axioms module_step
#print axioms modules_loop
#print axioms from_kore_definition_modules
end KDefTieM2
