import Pi2.Notation
/-!
# Pretty printing of notation (`Notation.print_instantiation`, `Pattern.pretty`) — model for C19

`parseFmt`/`render` model Python's `str.format(*args)` for the subset the toolkit uses: literal text,
`{{`, `}}`, and positional fields `{N}`.  Anything else (`{}`, names, conversions, format specs, a lone
brace) is `none` — Python raises or the model does not cover it; no shipped notation uses it.
-/

inductive Seg where
  | lit (c : Char)
  | hole (n : Nat)
deriving DecidableEq, Repr

namespace Fmt

def digitsToNat (ds : List Char) : Nat := ds.foldl (fun a c => 10 * a + (c.toNat - '0'.toNat)) 0

inductive PState where
  | normal | afterOpen | inField (acc : List Char) | afterClose

/-- one-character-at-a-time automaton for the format-string subset (structural, kernel-reducible) -/
def parseGo : List Char → PState → Option (List Seg)
  | [], .normal => some []
  | [], _ => none
  | c :: r, .normal =>
      if c = '{' then parseGo r .afterOpen
      else if c = '}' then parseGo r .afterClose
      else (parseGo r .normal).map (Seg.lit c :: ·)
  | c :: r, .afterOpen =>
      if c = '{' then (parseGo r .normal).map (Seg.lit '{' :: ·)
      else if c.isDigit then parseGo r (.inField [c])
      else none
  | c :: r, .inField acc =>
      if c = '}' then (parseGo r .normal).map (Seg.hole (digitsToNat acc) :: ·)
      else if c.isDigit then parseGo r (.inField (acc ++ [c]))
      else none
  | c :: r, .afterClose =>
      if c = '}' then (parseGo r .normal).map (Seg.lit '}' :: ·) else none

def parseFmt (cs : List Char) : Option (List Seg) := parseGo cs .normal

def holes : List Seg → List Nat
  | [] => []
  | .lit _ :: r => holes r
  | .hole n :: r => n :: holes r

/-- `fmt.format(*args)` on parsed segments -/
def render : List Seg → List (List Char) → Option (List Char)
  | [], _ => some []
  | .lit c :: r, args => (render r args).map (c :: ·)
  | .hole n :: r, args => match args[n]? with
      | some a => (render r args).map (a ++ ·)
      | none => none

def count (i : Nat) : List Seg → Nat
  | [] => 0
  | .lit _ :: r => count i r
  | .hole n :: r => (if n = i then 1 else 0) + count i r

end Fmt
