import Pi2.ClauseMove
/-!
# `simplify_clause`, `prove_trivial_clause` on conclusions; fuel monotonicity of the clause utilities; `resolution_step` inverted
(third part of `Pi2/ClauseThm.lean`; same namespace)
-/
set_option linter.unusedSimpArgs false
open Pat

namespace ClauseThm
open Lem StageSup Gen.PyTaut TautSup TautTie StageThm Gen.Clause

/-! ## `simplify_clause` on conclusions -/

/-- the loop of `simplify_clause` over the indices of `cl = pre ++ suf`, from index `pre.length` on -/
theorem simplify_for1_C {τ} (A : SAlg τ) (x : Int) : ∀ (suf pre pos str : List Int),
    simplify_clause_for1 A (pre ++ suf) x ((List.range' pre.length suf.length).map fun (k : Nat) => (k : Int)) pos str =
      some (pos ++ (idxs pre.length (suf.map (· == x))).map (fun (k : Nat) => (k : Int)), str ++ suf.filter (· != x)) := by
  intro suf
  induction suf with
  | nil => intro pre pos str; simp [Gen.Clause.simplify_clause_for1, idxs]
  | cons a suf ih =>
    intro pre pos str
    have hidx : pyIndex (pre ++ a :: suf) (pre.length : Int) = some a := pyIndex_mid pre a suf
    have hcl : pre ++ a :: suf = (pre ++ [a]) ++ suf := by simp
    have hlen : (pre ++ [a]).length = pre.length + 1 := by simp
    simp only [List.length_cons, List.range'_succ, List.map_cons, Gen.Clause.simplify_clause_for1, hidx, Option.pure_def,
      Option.bind_eq_bind, Option.bind_some, idxs]
    by_cases hax : a = x
    · subst hax
      have e := ih (pre ++ [a]) (pos ++ [(pre.length : Int)]) str
      rw [hlen, ← hcl] at e
      simp [e]
    · have hb : (a == x) = false := by simpa using hax
      have e := ih (pre ++ [a]) pos (str ++ [a])
      rw [hlen, ← hcl] at e
      simp [hb, e, hax]

theorem sel_map_filter {α β : Type} (P : α → Bool) (f : α → β) : ∀ (l : List α),
    sel (l.map P) (l.map f) = (l.filter P).map f := by
  intro l
  induction l with
  | nil => rfl
  | cons a l ih =>
    simp only [List.map_cons, sel, List.filter_cons]
    split <;> simp [ih]

theorem idxs_length_filter {α : Type} (P : α → Bool) : ∀ (l : List α) (k : Nat),
    (idxs k (l.map P)).length = (l.filter P).length := by
  intro l
  induction l with
  | nil => intro k; rfl
  | cons a l ih =>
    intro k
    simp only [List.map_cons, idxs, List.filter_cons]
    split <;> simp [ih]

theorem filter_beq_replicate (x : Int) (l : List Int) : l.filter (· == x) = List.replicate (l.filter (· == x)).length x := by
  rw [List.eq_replicate_iff]
  refine ⟨rfl, ?_⟩
  intro y hy
  have := (List.mem_filter.mp hy).2
  simpa using this

theorem filter_split_length (x : Int) : ∀ (l : List Int),
    (l.filter (· == x)).length + (l.filter (· != x)).length = l.length := by
  intro l
  induction l with
  | nil => rfl
  | cons a l ih =>
    by_cases h : a = x
    · subst h; simp; omega
    · have hb : (a == x) = false := by simpa using h
      simp [List.filter_cons, hb, h]; omega

theorem pyRepeat_single (x : Int) (n : Nat) : pyRepeat [x] (n : Int) = List.replicate n x := by
  simp only [pyRepeat, Int.toNat_natCast]
  induction n with
  | zero => rfl
  | succ n ih => simp [List.replicate_succ, ih]

/-- the result clause of `simplify_clause(cl, resolvent)` -/
def simplified (cl : List Int) (x : Int) : List Int := if cl.all (· != x) then cl else x :: cl.filter (· != x)

/-- **`simplify_clause(cl, resolvent)`**: the occurrences of `resolvent` are moved to the front and merged into one; the
proof concludes `clause_to_pattern(cl) <-> clause_to_pattern(result)` -/
theorem simplify_clause_C (cl : List Int) (x : Int) (fuel : Nat) (hz : Res.NoZero cl) (hf : moveFuel cl.length ≤ fuel) :
    simplify_clause algCS fuel cl x =
      some (simplified cl x, equivP (clausePat cl) (clausePat (simplified cl x))) := by
  have e := simplify_for1_C algCS x cl [] [] []
  have hr : pyRange (pyLen cl) = (List.range' 0 cl.length).map fun (k : Nat) => (k : Int) := by
    simp [pyRange, pyLen, List.range_eq_range']
  simp only [List.nil_append, List.length_nil] at e
  have hlenf : cl.length ≤ fuel := by
    unfold moveFuel at hf
    have : cl.length ≤ (cl.length + 1) * cl.length := Nat.le_mul_of_pos_left _ (by omega)
    omega
  simp only [Gen.Clause.simplify_clause, hr, e, Option.pure_def, Option.bind_eq_bind, Option.bind_some, simplified]
  by_cases hall : cl.all (· != x) = true
  · have hcnt : (cl.filter (· == x)).length = 0 := by
      rw [List.length_eq_zero_iff, List.filter_eq_nil_iff]
      intro a ha
      have := List.all_eq_true.mp hall a ha
      simpa using this
    have hpos : idxs 0 (cl.map (· == x)) = [] := by
      rw [← List.length_eq_zero_iff, idxs_length_filter]; exact hcnt
    simp [hpos, hall, clause_to_pattern_C algCS cl fuel hz hlenf, lib_equiv_refl]
  · have hmem : x ∈ cl := by
      by_cases h : x ∈ cl
      · exact h
      · exfalso
        apply hall
        rw [List.all_eq_true]
        intro a ha
        simp only [bne_iff_ne, ne_eq]
        intro e
        exact h (e ▸ ha)
    have hx0 : x ≠ 0 := hz x hmem
    have hne : cl ≠ [] := List.ne_nil_of_mem hmem
    have hcnt : 1 ≤ (cl.filter (· == x)).length := by
      apply List.length_pos_iff.mpr
      exact List.ne_nil_of_mem (List.mem_filter.mpr ⟨hmem, by simp⟩)
    have hposne : (idxs 0 (cl.map (· == x))).map (fun (k : Nat) => (k : Int)) ≠ [] := by
      intro h
      have := congrArg List.length h
      rw [List.length_map, idxs_length_filter] at this
      simp only [List.length_nil] at this; omega
    have hie : ((idxs 0 (cl.map (· == x))).map (fun (k : Nat) => (k : Int))).isEmpty = false := by
      cases h : (idxs 0 (cl.map (· == x))).map (fun (k : Nat) => (k : Int)) with
      | nil => exact absurd h hposne
      | cons _ _ => rfl
    obtain ⟨m, hm⟩ : ∃ m, (cl.filter (· == x)).length = m + 1 := ⟨_, (Nat.sub_add_cancel hcnt).symm⟩
    have hnpos : pyLen ((idxs 0 (cl.map (· == x))).map (fun (k : Nat) => (k : Int))) = ((m + 1 : Nat) : Int) := by
      simp [pyLen, idxs_length_filter, hm]
    have hmove := or_move_to_front_C (cl.map (· == x)) (cl.map idPat) fuel (by simp) (by simpa using hne)
      (by simpa using hf)
    rw [sel_map_filter, List.map_map, show (not ∘ fun a : Int => a == x) = (fun a => a != x) from rfl,
      sel_map_filter, filter_beq_replicate, hm] at hmove
    have hzi : Res.NoZero (List.replicate (m + 1) x ++ cl.filter (· != x)) := by
      intro y hy
      simp only [List.mem_append, List.mem_replicate, List.mem_filter] at hy
      rcases hy with ⟨_, rfl⟩ | ⟨hy, _⟩
      · exact hx0
      · exact hz y hy
    have hred := reduce_n_C (idPat x) ((cl.filter (· != x)).map idPat) m fuel (by
      have h1 := List.length_filter_le (· != x) cl
      have h2 : (cl.filter (· == x)).length + (cl.filter (· != x)).length = cl.length := filter_split_length x cl
      simp; omega)
    have hcast : (((m + 1 : Nat) : Int) - 1) = (m : Int) := by omega
    have hcl : clausePat cl = foldrP orP (cl.map idPat) := clausePat_eq cl hne
    have hcl2 : clausePat (x :: cl.filter (· != x)) = foldrP orP (idPat x :: (cl.filter (· != x)).map idPat) :=
      clausePat_eq _ (by simp)
    simp only [hie, hall, Bool.not_false, Bool.not_true, Bool.false_eq_true, if_false, mapM_id_C algCS cl hz, hmove, hnpos,
      pyRepeat_single, mapM_id_C algCS _ hzi, List.map_append, List.map_replicate, hcast, hred, lib_equiv_transitivity,
      Option.bind_some, List.singleton_append, hcl, hcl2]

/-! ## `prove_trivial_clause` on conclusions -/

/-- the test of the loop of `prove_trivial_clause` -/
def clash (p : (Int × Int) × (Int × Int)) : Bool := p.1.2 + p.2.2 == 0

/-- the loop of `prove_trivial_clause`: the first pair of positions with complementary literals, if any -/
theorem ptc_for1_C {τ} (A : SAlg τ) : ∀ (l : List ((Int × Int) × (Int × Int))) (a : Option Bool) (b : Option Int)
    (c : Option (List Int)),
    Gen.Clause.prove_trivial_clause_for1 A l a b c = some (match l.find? clash with
      | some p => (some (decide (p.1.2 < p.2.2) == decide (p.1.1 < p.2.1)), some (ClauseSup.pyAbs p.1.2), some [p.1.1, p.2.1])
      | none => (a, b, c)) := by
  intro l
  induction l with
  | nil => intro a b c; rfl
  | cons p l ih =>
    intro a b c
    obtain ⟨⟨i1, x1⟩, ⟨i2, x2⟩⟩ := p
    by_cases h : (x1 + x2 == 0) = true
    · simp [Gen.Clause.prove_trivial_clause_for1, h, clash, List.find?_cons]
    · have h' : (x1 + x2 == 0) = false := by simpa using h
      simp only [Gen.Clause.prove_trivial_clause_for1, h', Bool.false_eq_true, if_false, ih, List.find?_cons, clash]

theorem enumFrom_append {α : Type} : ∀ (l1 l2 : List α) (k : Int),
    pyEnumerateFrom k (l1 ++ l2) = pyEnumerateFrom k l1 ++ pyEnumerateFrom (k + l1.length) l2 := by
  intro l1
  induction l1 with
  | nil => intro l2 k; simp [pyEnumerateFrom]
  | cons a l1 ih =>
    intro l2 k
    simp only [List.cons_append, pyEnumerateFrom, ih, List.length_cons]
    rw [show k + ((l1.length + 1 : Nat) : Int) = k + 1 + (l1.length : Int) from by push_cast; omega]

theorem mem_enumFrom {α : Type} : ∀ (l : List α) (k i : Int) (y : α), (i, y) ∈ pyEnumerateFrom k l →
    ∃ B C, l = B ++ y :: C ∧ i = k + B.length := by
  intro l
  induction l with
  | nil => intro k i y h; simp [pyEnumerateFrom] at h
  | cons a l ih =>
    intro k i y h
    simp only [pyEnumerateFrom, List.mem_cons, Prod.mk.injEq] at h
    rcases h with ⟨rfl, rfl⟩ | h
    · exact ⟨[], l, rfl, by simp⟩
    · obtain ⟨B, C, rfl, hi⟩ := ih (k + 1) i y h
      exact ⟨a :: B, C, rfl, by simp; omega⟩

/-- a pair of `combinations(enumerate(cl), 2)`: two positions `i1 < i2` of `cl` with their literals -/
theorem mem_comb_enum : ∀ (cl : List Int) (k i1 x1 i2 x2 : Int),
    ((i1, x1), (i2, x2)) ∈ pyCombinations2 (pyEnumerateFrom k cl) →
    ∃ A B C, cl = A ++ x1 :: (B ++ x2 :: C) ∧ i1 = k + A.length ∧ i2 = k + A.length + 1 + B.length := by
  intro cl
  induction cl with
  | nil => intro k i1 x1 i2 x2 h; simp [pyEnumerateFrom, pyCombinations2] at h
  | cons a cl ih =>
    intro k i1 x1 i2 x2 h
    simp only [pyEnumerateFrom, pyCombinations2, List.mem_append, List.mem_map] at h
    rcases h with ⟨⟨j, y⟩, hm, he⟩ | h
    · simp only [Prod.mk.injEq] at he
      obtain ⟨⟨rfl, rfl⟩, rfl, rfl⟩ := he
      obtain ⟨B, C, rfl, hi⟩ := mem_enumFrom cl (k + 1) j y hm
      exact ⟨[], B, C, rfl, by simp, by simp; omega⟩
    · obtain ⟨A, B, C, rfl, h1, h2⟩ := ih (k + 1) i1 x1 i2 x2 h
      exact ⟨a :: A, B, C, rfl, by simp; omega, by simp; omega⟩

/-- the literals that `rest_cl = [x for (i, x) in enumerate(cl) if i not in pos]` keeps when no index is in `pos` -/
theorem enum_filter_all (pos : List Int) : ∀ (l : List Int) (k : Int), (∀ j : Nat, j < l.length → (k + j) ∉ pos) →
    List.map (fun (p : Int × Int) => p.2) (List.filter (fun (p : Int × Int) => !(List.contains pos p.1)) (pyEnumerateFrom k l)) = l := by
  intro l
  induction l with
  | nil => intro k _; rfl
  | cons a l ih =>
    intro k h
    have h0 := h 0 (by simp)
    simp only [Int.natCast_zero, Int.add_zero] at h0
    have := ih (k + 1) (fun j hj => by
      have := h (j + 1) (by simp; omega)
      rw [show k + 1 + (j : Int) = k + ((j + 1 : Nat) : Int) from by push_cast; omega]
      exact this)
    simp only [List.contains_eq_mem] at this
    simp [pyEnumerateFrom, List.filter_cons, h0, this]

theorem mapM_id_C' {τ} (A : SAlg τ) (cl : List Int) (hz : Res.NoZero cl) :
    List.mapM (fun x => id_to_metavar A x) cl = some (cl.map idPat) := by
  have := mapM_id_C A cl hz
  simpa using this

theorem rest_cl_eq (A B C : List Int) (x1 x2 : Int) :
    List.map (fun (x : Int × Int) => x.snd) (List.filter (fun (x : Int × Int) =>
      !([(A.length : Int), (A.length : Int) + 1 + (B.length : Int)] : List Int).contains x.fst)
        (pyEnumerate (A ++ x1 :: (B ++ x2 :: C)))) = A ++ (B ++ C) := by
  have hA := enum_filter_all [(A.length : Int), (A.length : Int) + 1 + (B.length : Int)] A 0
    (fun j hj => by simp; omega)
  have hB := enum_filter_all [(A.length : Int), (A.length : Int) + 1 + (B.length : Int)] B ((A.length : Int) + 1)
    (fun j hj => by simp; omega)
  have hC := enum_filter_all [(A.length : Int), (A.length : Int) + 1 + (B.length : Int)] C
    ((A.length : Int) + 1 + (B.length : Int) + 1) (fun j hj => by simp; omega)
  simp only [pyEnumerate, enumFrom_append, pyEnumerateFrom, List.filter_append, List.filter_cons, List.map_append,
    Int.zero_add, hA]
  have e1 : ([(A.length : Int), (A.length : Int) + 1 + (B.length : Int)] : List Int).contains (A.length : Int) = true := by simp
  have e2 : ([(A.length : Int), (A.length : Int) + 1 + (B.length : Int)] : List Int).contains
      ((A.length : Int) + 1 + (B.length : Int)) = true := by simp
  simp only [e1, e2, Bool.not_true, Bool.false_eq_true, if_false, List.map_append, hB, hC]

theorem idPat_abs_neg (x1 x2 : Int) (h : x1 < 0) (hs : x1 + x2 = 0) :
    idPat x1 = negP (idPat (ClauseSup.pyAbs x1)) ∧ idPat x2 = idPat (ClauseSup.pyAbs x1) := by
  have h1 : ¬ ((x1.natAbs : Int) < 0) := by omega
  have h2 : ¬ (x2 < 0) := by omega
  have e1 : (-(x1 + 1)).toNat = ((x1.natAbs : Int) - 1).toNat := by omega
  have e2 : (x2 - 1).toNat = ((x1.natAbs : Int) - 1).toNat := by omega
  simp [idPat, ClauseSup.pyAbs, h, h1, h2, e1, e2]

theorem idPat_abs_pos (x1 x2 : Int) (h : 0 < x1) (hs : x1 + x2 = 0) :
    idPat x1 = idPat (ClauseSup.pyAbs x1) ∧ idPat x2 = negP (idPat (ClauseSup.pyAbs x1)) := by
  have h0 : ¬ (x1 < 0) := by omega
  have h1 : ¬ ((x1.natAbs : Int) < 0) := by omega
  have h2 : x2 < 0 := by omega
  have e1 : (x1 - 1).toNat = ((x1.natAbs : Int) - 1).toNat := by omega
  have e2 : (-(x2 + 1)).toNat = ((x1.natAbs : Int) - 1).toNat := by omega
  simp [idPat, ClauseSup.pyAbs, h0, h1, h2, e1, e2]

/-- the mask of two positions -/
def mask2 (a b c : Nat) : List Bool :=
  List.replicate a false ++ true :: (List.replicate b false ++ true :: List.replicate c false)

theorem idxs_mask2 (a b c : Nat) : idxs 0 (mask2 a b c) = [a, a + 1 + b] := by
  have h3 : ∀ k, idxs k (List.replicate c false) = [] := by
    intro k
    have := idxs_replicate_false [] c k
    simpa [idxs] using this
  simp [mask2, idxs_replicate_false, idxs, h3]

theorem sel_mask2 {α : Type} (A B C : List α) (x1 x2 : α) :
    sel (mask2 A.length B.length C.length) (A ++ x1 :: (B ++ x2 :: C)) = [x1, x2] ∧
    sel ((mask2 A.length B.length C.length).map not) (A ++ x1 :: (B ++ x2 :: C)) = A ++ (B ++ C) := by
  have h3 : sel (List.replicate C.length false) C = [] := by
    have := sel_replicate_false (α := α) [] [] C
    simpa [sel] using this
  have h4 : sel (List.replicate C.length true) C = C := by
    have := sel_replicate_true (α := α) [] [] C
    simpa [sel] using this
  constructor
  · simp [mask2, sel_replicate_false, sel, h3]
  · simp only [mask2, List.map_append, List.map_replicate, List.map_cons, Bool.not_false, Bool.not_true]
    rw [sel_replicate_true]
    simp only [sel, Bool.false_eq_true, if_false]
    rw [sel_replicate_true]
    simp [sel, h4]

theorem lib_and_r_equiv (a b : Pat) : lib algCS ix_and_r [] [equivP a b] = some (.imp b a) := lib_and_r _ _
theorem lib_and_l_equiv (a b : Pat) : lib algCS ix_and_l [] [equivP a b] = some (.imp a b) := lib_and_l _ _

theorem or_move_two (A B C : List Int) (x1 x2 : Int) (fuel : Nat)
    (hf : moveFuel (A ++ x1 :: (B ++ x2 :: C)).length ≤ fuel) :
    Gen.Clause.or_move_to_front algCS fuel [(A.length : Int), (A.length : Int) + 1 + (B.length : Int)]
        ((A ++ x1 :: (B ++ x2 :: C)).map idPat) =
      some (equivP (foldrP orP ((A ++ x1 :: (B ++ x2 :: C)).map idPat))
        (foldrP orP (idPat x1 :: idPat x2 :: (A ++ (B ++ C)).map idPat))) := by
  have hm := or_move_to_front_C (mask2 A.length B.length C.length) ((A ++ x1 :: (B ++ x2 :: C)).map idPat) fuel
    (by simp [mask2]) (by simp) (by simpa using hf)
  have hs := sel_mask2 (A.map idPat) (B.map idPat) (C.map idPat) (idPat x1) (idPat x2)
  simp only [List.length_map] at hs
  have e : (A ++ x1 :: (B ++ x2 :: C)).map idPat = A.map idPat ++ idPat x1 :: (B.map idPat ++ idPat x2 :: C.map idPat) := by
    simp
  rw [idxs_mask2] at hm
  rw [e] at hm ⊢
  rw [hs.1, hs.2] at hm
  simp only [List.map_cons, List.map_nil] at hm
  push_cast at hm
  rw [hm]
  simp

/-- **`prove_trivial_clause`**, the computation: `cl = A ++ x1 :: B ++ x2 :: C` where `(x1, x2)` is the first complementary pair -/
theorem ptc_core (A B C : List Int) (x1 x2 : Int) (fuel : Nat)
    (hfind : (pyCombinations2 (pyEnumerate (A ++ x1 :: (B ++ x2 :: C)))).find? clash =
      some (((A.length : Int), x1), ((A.length : Int) + 1 + (B.length : Int), x2)))
    (hsum : x1 + x2 = 0) (hx : x1 ≠ 0) (hz : Res.NoZero (A ++ x1 :: (B ++ x2 :: C)))
    (hf : moveFuel (A ++ x1 :: (B ++ x2 :: C)).length ≤ fuel) :
    Gen.Clause.prove_trivial_clause algCS fuel (A ++ x1 :: (B ++ x2 :: C)) =
      some (clausePat (A ++ x1 :: (B ++ x2 :: C))) := by
  have habs : ClauseSup.pyAbs x1 ≠ 0 := by unfold ClauseSup.pyAbs; omega
  have hid := id_to_metavar_C algCS (ClauseSup.pyAbs x1) habs
  have hi : ((A.length : Int) < (A.length : Int) + 1 + (B.length : Int)) := by omega
  have hmove := or_move_two A B C x1 x2 fuel hf
  have hrest := rest_cl_eq A B C x1 x2
  have hlenf : (A ++ (B ++ C)).length ≤ fuel := by
    unfold moveFuel at hf
    have : (A ++ x1 :: (B ++ x2 :: C)).length ≤ ((A ++ x1 :: (B ++ x2 :: C)).length + 1) * (A ++ x1 :: (B ++ x2 :: C)).length :=
      Nat.le_mul_of_pos_left _ (by omega)
    simp at this hf ⊢
    omega
  have hzr : Res.NoZero (A ++ (B ++ C)) := by
    intro y hy
    apply hz y
    simp only [List.mem_append, List.mem_cons] at hy ⊢
    rcases hy with h | h | h
    · exact Or.inl h
    · exact Or.inr (Or.inr (Or.inl h))
    · exact Or.inr (Or.inr (Or.inr (Or.inr h)))
  have hctp := clause_to_pattern_C algCS (A ++ (B ++ C)) fuel hzr hlenf
  by_cases h2 : (A ++ x1 :: (B ++ x2 :: C)).length = 2
  · have hA : A = [] := by
      apply List.eq_nil_of_length_eq_zero; simp at h2; omega
    have hB : B = [] := by
      apply List.eq_nil_of_length_eq_zero; simp at h2; omega
    have hC : C = [] := by
      apply List.eq_nil_of_length_eq_zero; simp at h2; omega
    subst hA hB hC
    by_cases hlt : x1 < 0
    · obtain ⟨hp1, hp2⟩ := idPat_abs_neg x1 x2 hlt hsum
      have hnf : x1 < x2 := by omega
      simp only [List.nil_append, List.length_nil, Int.natCast_zero, Int.zero_add] at hfind
      simp [Gen.Clause.prove_trivial_clause, ptc_for1_C, hfind, hid, pyLen, hnf, lib_dneg_elim, clausePat, foldrP, hp1, hp2, orP]
    · obtain ⟨hp1, hp2⟩ := idPat_abs_pos x1 x2 (by omega) hsum
      have hnf : ¬ x1 < x2 := by omega
      simp only [List.nil_append, List.length_nil, Int.natCast_zero, Int.zero_add] at hfind
      simp [Gen.Clause.prove_trivial_clause, ptc_for1_C, hfind, hid, pyLen, hnf, lib_imp_refl, clausePat, foldrP, hp1, hp2, orP]
  · have hl2 : ¬ (pyLen (A ++ x1 :: (B ++ x2 :: C)) == (2 : Int)) = true := by
      simp only [pyLen, beq_iff_eq]; omega
    have hne : (A ++ (B ++ C)) ≠ [] := by
      intro h
      have h3 := congrArg List.length h
      simp only [List.length_append, List.length_cons, List.length_nil] at h3 h2
      omega
    have hcl : clausePat (A ++ x1 :: (B ++ x2 :: C)) = foldrP orP ((A ++ x1 :: (B ++ x2 :: C)).map idPat) :=
      clausePat_eq _ (by simp)
    have hrestp : clausePat (A ++ (B ++ C)) = foldrP orP ((A ++ (B ++ C)).map idPat) := clausePat_eq _ hne
    have hne' : (A ++ (B ++ C)).map idPat ≠ [] := by simpa using hne
    by_cases hlt : x1 < 0
    · obtain ⟨hp1, hp2⟩ := idPat_abs_neg x1 x2 hlt hsum
      have hnf : x1 < x2 := by omega
      simp only [Gen.Clause.prove_trivial_clause, ptc_for1_C, hfind, hid, hl2, hnf, hi, mapM_id_C' algCS _ hz, hmove, hrest,
        hctp, Option.pure_def, Option.bind_eq_bind, Option.bind_some, Bool.false_eq_true, if_false, decide_true, beq_self_eq_true,
        if_true, lib_and_r, lib_or_assoc_r, lib_dneg_elim, hcl]
      rw [hp1, hp2, foldrP_cons orP _ _ (by simp), foldrP_cons orP _ _ hne', ← hrestp]
      simp only [lib_and_r_equiv, lib_imp_transitivity, Option.bind_some]
      rw [show (negP (negP (idPat (ClauseSup.pyAbs x1)))).imp (idPat (ClauseSup.pyAbs x1)) =
        orP (negP (idPat (ClauseSup.pyAbs x1))) (idPat (ClauseSup.pyAbs x1)) from rfl]
      simp only [lib_or_l, Option.bind_some, mpC_imp]
    · obtain ⟨hp1, hp2⟩ := idPat_abs_pos x1 x2 (by omega) hsum
      have hnf : ¬ x1 < x2 := by omega
      simp only [Gen.Clause.prove_trivial_clause, ptc_for1_C, hfind, hid, hl2, hnf, hi, mapM_id_C' algCS _ hz, hmove, hrest,
        hctp, Option.pure_def, Option.bind_eq_bind, Option.bind_some, Bool.false_eq_true, if_false, decide_true, decide_false,
        if_true, lib_and_r, lib_or_assoc_r, lib_imp_refl, hcl]
      rw [hp1, hp2, foldrP_cons orP _ _ (by simp), foldrP_cons orP _ _ hne', ← hrestp]
      simp only [lib_and_r_equiv, lib_imp_transitivity, Option.bind_some]
      rw [show (negP (idPat (ClauseSup.pyAbs x1))).imp (negP (idPat (ClauseSup.pyAbs x1))) =
        orP (idPat (ClauseSup.pyAbs x1)) (negP (idPat (ClauseSup.pyAbs x1))) from rfl]
      simp [lib_or_l, mpC_imp]

theorem mem_enumFrom_of {α : Type} : ∀ (B : List α) (y : α) (C : List α) (k : Int),
    (k + (B.length : Int), y) ∈ pyEnumerateFrom k (B ++ y :: C) := by
  intro B
  induction B with
  | nil => intro y C k; simp [pyEnumerateFrom]
  | cons b B ih =>
    intro y C k
    simp only [List.cons_append, pyEnumerateFrom, List.mem_cons, List.length_cons]
    right
    have := ih y C (k + 1)
    rw [show k + ((B.length + 1 : Nat) : Int) = k + 1 + (B.length : Int) from by push_cast; omega]
    exact this

theorem comb_enum_mem : ∀ (A B C : List Int) (x1 x2 k : Int),
    ((k + (A.length : Int), x1), (k + (A.length : Int) + 1 + (B.length : Int), x2)) ∈
      pyCombinations2 (pyEnumerateFrom k (A ++ x1 :: (B ++ x2 :: C))) := by
  intro A
  induction A with
  | nil =>
    intro B C x1 x2 k
    simp only [List.nil_append, pyEnumerateFrom, pyCombinations2, List.mem_append, List.mem_map, List.length_nil,
      Int.natCast_zero, Int.add_zero]
    left
    exact ⟨(k + 1 + (B.length : Int), x2), mem_enumFrom_of B x2 C (k + 1), rfl⟩
  | cons a A ih =>
    intro B C x1 x2 k
    simp only [List.cons_append, pyEnumerateFrom, pyCombinations2, List.mem_append, List.length_cons]
    right
    have := ih B C x1 x2 (k + 1)
    rw [show k + ((A.length + 1 : Nat) : Int) = k + 1 + (A.length : Int) from by push_cast; omega]
    exact this

theorem two_mem {α : Type} (l : List α) (x y : α) (hx : x ∈ l) (hy : y ∈ l) (hne : x ≠ y) :
    (∃ A B C, l = A ++ x :: (B ++ y :: C)) ∨ (∃ A B C, l = A ++ y :: (B ++ x :: C)) := by
  obtain ⟨A, R, rfl⟩ := List.append_of_mem hx
  simp only [List.mem_append, List.mem_cons] at hy
  rcases hy with hy | hy | hy
  · obtain ⟨A1, A2, rfl⟩ := List.append_of_mem hy
    exact Or.inr ⟨A1, A2, R, by simp⟩
  · exact absurd hy.symm hne
  · obtain ⟨R1, R2, rfl⟩ := List.append_of_mem hy
    exact Or.inl ⟨A, R1, R2, rfl⟩

/-- the first complementary pair of positions of a clause, with the decomposition of the clause it defines -/
theorem find_clash (cl : List Int) (p : (Int × Int) × (Int × Int))
    (h : (pyCombinations2 (pyEnumerate cl)).find? clash = some p) :
    ∃ A B C x1 x2, cl = A ++ x1 :: (B ++ x2 :: C) ∧ x1 + x2 = 0 ∧
      p = (((A.length : Int), x1), ((A.length : Int) + 1 + (B.length : Int), x2)) := by
  obtain ⟨⟨i1, x1⟩, ⟨i2, x2⟩⟩ := p
  have hm := List.mem_of_find?_eq_some h
  have hc := List.find?_some h
  obtain ⟨A, B, C, hcl, h1, h2⟩ := mem_comb_enum cl 0 i1 x1 i2 x2 hm
  refine ⟨A, B, C, x1, x2, hcl, by simpa [clash] using hc, ?_⟩
  simp only [Int.zero_add] at h1 h2
  rw [h1, h2]

/-- **`prove_trivial_clause(cl)`** for a trivial clause without the literal `0`: the proof concludes `clause_to_pattern(cl)` -/
theorem prove_trivial_clause_C (cl : List Int) (fuel : Nat) (hz : Res.NoZero cl) (ht : Res.trivial cl = true)
    (hf : moveFuel cl.length ≤ fuel) :
    Gen.Clause.prove_trivial_clause algCS fuel cl = some (clausePat cl) := by
  have hex : ∃ p, (pyCombinations2 (pyEnumerate cl)).find? clash = some p := by
    simp only [Res.trivial, List.any_eq_true, List.contains_eq_mem, decide_eq_true_eq] at ht
    obtain ⟨x, hx, hnx⟩ := ht
    have hx0 := hz x hx
    have hne : x ≠ -x := by omega
    cases hfind : (pyCombinations2 (pyEnumerate cl)).find? clash with
    | some p => exact ⟨p, rfl⟩
    | none =>
      exfalso
      rw [List.find?_eq_none] at hfind
      rcases two_mem cl x (-x) hx hnx hne with ⟨A, B, C, rfl⟩ | ⟨A, B, C, rfl⟩
      · have := hfind _ (comb_enum_mem A B C x (-x) 0)
        simp [clash] at this
        omega
      · have := hfind _ (comb_enum_mem A B C (-x) x 0)
        simp [clash] at this
        omega
  obtain ⟨p, hp⟩ := hex
  obtain ⟨A, B, C, x1, x2, rfl, hsum, rfl⟩ := find_clash cl p hp
  exact ptc_core A B C x1 x2 fuel hp hsum (hz x1 (by simp)) hz hf

/-! ## fuel monotonicity: a run that answers, answers the same with more fuel -/

theorem le_none {α} (y : Option α) : Le none y := fun _ h => by cases h

theorem le_mapM {α β} (f g : α → Option β) (h : ∀ x, Le (f x) (g x)) : ∀ (l : List α), Le (List.mapM f l) (List.mapM g l) := by
  intro l
  induction l with
  | nil => exact Le.refl _
  | cons a l ih =>
    rw [List.mapM_cons, List.mapM_cons]
    simp only [Option.pure_def, Option.bind_eq_bind]
    apply le_bind (h a); intro y
    apply le_bind ih; intro ys
    exact Le.refl _

/-- one step of a monotonicity proof; extended below by every function whose monotonicity is proved -/
syntax "mono_step" : tactic
macro_rules | `(tactic| mono_step) => `(tactic| refine le_bind ?_ (fun _ => ?_))
macro_rules | `(tactic| mono_step) => `(tactic| (with_reducible apply le_bind_same; intro _))
macro_rules | `(tactic| mono_step) => `(tactic| with_reducible apply le_ite)
macro_rules | `(tactic| mono_step) => `(tactic| with_reducible exact Le.refl _)

section Mono
variable {τ : Type} (A : SAlg τ)
attribute [local irreducible] StageSup.lib

theorem foldr_op_mono : ∀ (n : Nat) (op : Pat → Pat → Pat) (l : List Pat) (s e : Int),
    Le (foldr_op A n op l s e) (foldr_op A (n + 1) op l s e) := by
  intro n
  induction n with
  | zero => intro op l s e; exact le_none _
  | succ n ih =>
    intro op l s e
    rw [foldr_op, foldr_op]
    simp only [Option.pure_def, Option.bind_eq_bind]
    repeat' first | (with_reducible apply le_bind (ih _ _ _ _); intro _) | (with_reducible exact ih _ _ _ _) | mono_step

macro_rules | `(tactic| mono_step) => `(tactic| (with_reducible apply le_bind (foldr_op_mono _ _ _ _ _ _); intro _))
macro_rules | `(tactic| mono_step) => `(tactic| with_reducible exact foldr_op_mono _ _ _ _ _ _)
attribute [local irreducible] Gen.Clause.foldr_op

theorem clause_to_pattern_mono (n : Nat) (cl : List Int) :
    Le (clause_to_pattern A n cl) (clause_to_pattern A (n + 1) cl) := by
  simp only [clause_to_pattern, Option.pure_def, Option.bind_eq_bind]
  repeat' mono_step

macro_rules | `(tactic| mono_step) => `(tactic| (with_reducible apply le_bind (clause_to_pattern_mono _ _ _); intro _))
macro_rules | `(tactic| mono_step) => `(tactic| with_reducible exact clause_to_pattern_mono _ _ _)
attribute [local irreducible] Gen.Clause.clause_to_pattern

theorem clause_conjunctionto_pattern_mono (n : Nat) (cls : List (List Int)) :
    Le (clause_conjunctionto_pattern A n cls) (clause_conjunctionto_pattern A (n + 1) cls) := by
  simp only [clause_conjunctionto_pattern, Option.pure_def, Option.bind_eq_bind]
  apply le_ite (Le.refl _)
  apply le_bind
  · apply le_mapM
    intro cl
    repeat' mono_step
  · intro _
    repeat' mono_step

macro_rules | `(tactic| mono_step) => `(tactic| (with_reducible apply le_bind (clause_conjunctionto_pattern_mono _ _ _); intro _))
macro_rules | `(tactic| mono_step) => `(tactic| with_reducible exact clause_conjunctionto_pattern_mono _ _ _)
attribute [local irreducible] Gen.Clause.clause_conjunctionto_pattern

theorem conjunction_implies_nth_mono : ∀ (n : Nat) (term : Pat) (k l : Int),
    Le (conjunction_implies_nth A n term k l) (conjunction_implies_nth A (n + 1) term k l) := by
  intro n
  induction n with
  | zero => intro term k l; exact le_none _
  | succ n ih =>
    intro term k l
    rw [conjunction_implies_nth, conjunction_implies_nth]
    simp only [Option.pure_def, Option.bind_eq_bind]
    repeat' first | (with_reducible apply le_bind (ih _ _ _); intro _) | (with_reducible exact ih _ _ _) | mono_step

macro_rules | `(tactic| mono_step) => `(tactic| (with_reducible apply le_bind (conjunction_implies_nth_mono _ _ _ _ _); intro _))
macro_rules | `(tactic| mono_step) => `(tactic| with_reducible exact conjunction_implies_nth_mono _ _ _ _ _)
attribute [local irreducible] Gen.Clause.conjunction_implies_nth

theorem merge_clauses_mono : ∀ (n : Nat) (tl : Pat) (k : Int) (tr : Pat),
    Le (merge_clauses A n tl k tr) (merge_clauses A (n + 1) tl k tr) := by
  intro n
  induction n with
  | zero => intro tl k tr; exact le_none _
  | succ n ih =>
    intro tl k tr
    rw [merge_clauses, merge_clauses]
    simp only [Option.pure_def, Option.bind_eq_bind]
    repeat' first | (with_reducible apply le_bind (ih _ _ _); intro _) | (with_reducible exact ih _ _ _) | mono_step

macro_rules | `(tactic| mono_step) => `(tactic| (with_reducible apply le_bind (merge_clauses_mono _ _ _ _ _); intro _))
macro_rules | `(tactic| mono_step) => `(tactic| with_reducible exact merge_clauses_mono _ _ _ _ _)
attribute [local irreducible] Gen.Clause.merge_clauses

theorem unroll_mono (assoc : Pat → Pat → Pat → Option τ) (comm : Pat → Pat → Option τ) (cong : τ → τ → Option τ)
    (op : Pat → Pat → Pat) (extract : Pat → Option (List Pat)) (assoc_rev : Pat → Pat → Pat → Option τ) :
    ∀ (n : Nat) (tl tr : Pat) (ps : List Int) (l u : Int),
    Le (ac_move_to_front_unroll A assoc comm cong op extract assoc_rev n tl tr ps l u)
      (ac_move_to_front_unroll A assoc comm cong op extract assoc_rev (n + 1) tl tr ps l u) := by
  intro n
  induction n with
  | zero => intro tl tr ps l u; exact le_none _
  | succ n ih =>
    intro tl tr ps l u
    rw [ac_move_to_front_unroll, ac_move_to_front_unroll]
    simp only [Option.pure_def, Option.bind_eq_bind]
    repeat' first | (with_reducible apply le_bind (ih _ _ _ _ _); intro _) | (with_reducible exact ih _ _ _ _ _) | mono_step

macro_rules | `(tactic| mono_step) => `(tactic| (with_reducible apply le_bind (unroll_mono _ _ _ _ _ _ _ _ _ _ _ _ _); intro _))
macro_rules | `(tactic| mono_step) => `(tactic| with_reducible exact unroll_mono _ _ _ _ _ _ _ _ _ _ _ _ _)
attribute [local irreducible] Gen.Clause.ac_move_to_front_unroll

theorem ac_move_to_front_mono (n : Nat) (ps : List Int) (terms : List Pat) (assoc : Pat → Pat → Pat → Option τ)
    (comm : Pat → Pat → Option τ) (cong : τ → τ → Option τ) (op : Pat → Pat → Pat) (extract : Pat → Option (List Pat)) :
    Le (ac_move_to_front A n ps terms assoc comm cong op extract)
      (ac_move_to_front A (n + 1) ps terms assoc comm cong op extract) := by
  simp only [ac_move_to_front, Option.pure_def, Option.bind_eq_bind]
  repeat' mono_step

macro_rules | `(tactic| mono_step) => `(tactic| (with_reducible apply le_bind (ac_move_to_front_mono _ _ _ _ _ _ _ _ _); intro _))
macro_rules | `(tactic| mono_step) => `(tactic| with_reducible exact ac_move_to_front_mono _ _ _ _ _ _ _ _ _)
attribute [local irreducible] Gen.Clause.ac_move_to_front

theorem or_move_to_front_mono (n : Nat) (ps : List Int) (terms : List Pat) :
    Le (or_move_to_front A n ps terms) (or_move_to_front A (n + 1) ps terms) := by
  simp only [or_move_to_front, Option.pure_def, Option.bind_eq_bind]
  repeat' mono_step

macro_rules | `(tactic| mono_step) => `(tactic| (with_reducible apply le_bind (or_move_to_front_mono _ _ _ _); intro _))
macro_rules | `(tactic| mono_step) => `(tactic| with_reducible exact or_move_to_front_mono _ _ _ _)
attribute [local irreducible] Gen.Clause.or_move_to_front

theorem reduce_n_mono (n : Nat) (k : Int) (terms : List Pat) :
    Le (reduce_n_or_duplicates_at_front A n k terms) (reduce_n_or_duplicates_at_front A (n + 1) k terms) := by
  simp only [reduce_n_or_duplicates_at_front, Option.pure_def, Option.bind_eq_bind]
  repeat' mono_step

macro_rules | `(tactic| mono_step) => `(tactic| (with_reducible apply le_bind (reduce_n_mono _ _ _ _); intro _))
macro_rules | `(tactic| mono_step) => `(tactic| with_reducible exact reduce_n_mono _ _ _ _)
attribute [local irreducible] Gen.Clause.reduce_n_or_duplicates_at_front

theorem simplify_clause_mono (n : Nat) (cl : List Int) (x : Int) :
    Le (Gen.Clause.simplify_clause A n cl x) (Gen.Clause.simplify_clause A (n + 1) cl x) := by
  simp only [Gen.Clause.simplify_clause, Option.pure_def, Option.bind_eq_bind]
  repeat' mono_step

theorem prove_trivial_clause_mono (n : Nat) (cl : List Int) :
    Le (prove_trivial_clause A n cl) (prove_trivial_clause A (n + 1) cl) := by
  simp only [prove_trivial_clause, Option.pure_def, Option.bind_eq_bind]
  repeat' mono_step

end Mono

/-! ## `resolution_step`, inverted: whenever it returns, its premises have the documented shape -/

theorem lib_resolution_step_inv (x y z r : Pat) (h : lib algCS ix_resolution_step [] [x, y, z] = some r) :
    ∃ a b c d, x = .imp a b ∧ y = .imp a c ∧ z = .imp b (.imp c d) ∧ r = .imp a d := by
  have hd : Gen.lemmaDefs[ix_resolution_step]? = some ⟨"resolution_step", 0, 3,
      [.extractImp (.concOf 0), .extractImp (.concOf 1), .assertEq (.pvar 0) (.pvar 2), .extractImp (.concOf 2),
        .assertEq (.pvar 1) (.pvar 4), .extractImp (.pvar 5), .assertEq (.pvar 3) (.pvar 6)],
      (.mp (.mp (.call 1 [(.pvar 0), (.pvar 3), (.pvar 7)] []) (.call 5 [] [(.tvar 0), (.tvar 2)])) (.tvar 1))⟩ := rfl
  obtain ⟨funs, hf⟩ := sem_getElem algCS.toAlg Gen.lemmaDefs ix_resolution_step _ hd
  have h0 := h
  unfold lib at h
  rw [hf] at h
  have key : ∃ a b c d, x = .imp a b ∧ y = .imp a c ∧ z = .imp b (.imp c d) := by
    cases x with
    | imp a b =>
      cases y with
      | imp a2 c =>
        cases z with
        | imp b2 cd =>
          cases cd with
          | imp c2 d =>
            simp [Lem.evalDef, Lem.evalBody, Lem.evalPE, algCS, Lem.algC] at h
            by_cases h1 : a = a2
            · by_cases h2 : b = b2
              · by_cases h3 : c = c2
                · subst h1 h2 h3; exact ⟨a, b, c, d, rfl, rfl, rfl⟩
                · simp [h1, h2, h3] at h
              · simp [h1, h2] at h
            · simp [h1] at h
          | _ => simp [Lem.evalDef, Lem.evalBody, Lem.evalPE, algCS, Lem.algC] at h
        | _ => simp [Lem.evalDef, Lem.evalBody, Lem.evalPE, algCS, Lem.algC] at h
      | _ => simp [Lem.evalDef, Lem.evalBody, Lem.evalPE, algCS, Lem.algC] at h
    | _ => simp [Lem.evalDef, Lem.evalBody, Lem.evalPE, algCS, Lem.algC] at h
  obtain ⟨a, b, c, d, rfl, rfl, rfl⟩ := key
  rw [lib_resolution_step] at h0
  exact ⟨a, b, c, d, rfl, rfl, rfl, (Option.some.inj h0).symm⟩

end ClauseThm
