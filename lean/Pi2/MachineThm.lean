import Pi2.CodecThm
/-! # Lemmas about the reference machine used by C05 (rejection behaviour, left-to-right execution) -/
set_option linter.unusedVariables false
set_option linter.unusedSimpArgs false
open Pat

/-- the opcode bytes the machine implements -/
def validOps : List Nat := [2,3,4,5,6,7,8,9,10,11,12,13,14,15,19,21,22,24,26,27,28,29,30,137]

theorem decode1_badOpcode (b : Nat) (rest : List Nat) (h : b ∉ validOps) : decode1 (b :: rest) = none := by
  simp only [validOps, List.mem_cons, List.mem_nil_iff, not_or, or_false] at h
  cases hd : decode1 (b :: rest) with
  | none => rfl
  | some ir =>
    obtain ⟨i, r⟩ := ir
    have := decode1_sound hd
    cases i <;> simp [encode1, encVec] at this <;> omega

theorem decodeF_cons_none {f : Nat} {b : Nat} {bs : List Nat} (h : decode1 (b :: bs) = none) :
    decodeF f (b :: bs) = none := by
  cases f <;> simp [decodeF, h]

theorem decode_append_instr (is : List Instr) (rest : List Nat) :
    decode (encode is ++ rest) = (decode rest).map (is ++ ·) := by
  induction is with
  | nil => simp [encode]
  | cons i is ih =>
    have henc : encode (i :: is) ++ rest = encode1 i ++ (encode is ++ rest) := by simp [encode]
    rw [henc]
    have hne := encode1_ne_nil i
    cases hb : encode1 i ++ (encode is ++ rest) with
    | nil => simp at hb; exact absurd hb.1 hne
    | cons b bs =>
      unfold decode
      simp only [List.length_cons, decodeF]
      rw [← hb, decode1_encode1]
      simp only []
      have hlen : (encode is ++ rest).length ≤ bs.length := by
        have h1 : (encode1 i).length ≥ 1 := by
          cases h : encode1 i with
          | nil => exact absurd h hne
          | cons _ _ => simp
        have := congrArg List.length hb
        simp at this ⊢; omega
      rw [decodeF_fuel _ _ hlen]
      have := ih
      unfold decode at this
      rw [this]
      cases decodeF rest.length rest <;> simp

/-- run is left to right: running `is ++ js` is running `is` and then `js` from the state reached -/
theorem run_append (ph : Phase) : ∀ (is js : List Instr) (s : St),
    run ph s (is ++ js) =
      (run ph s is).bind fun (s', o) => (run ph s' js).map fun (s'', o') => (s'', o ++ o') := by
  intro is
  induction is with
  | nil =>
    intro js s
    simp only [List.nil_append, run, Option.bind_some]
    cases run ph s js with
    | none => rfl
    | some r => simp
  | cons i is ih =>
    intro js s
    simp only [List.cons_append, run]
    cases h1 : step ph s i with
    | none => simp
    | some r1 =>
      obtain ⟨s1, j⟩ := r1
      simp only [Option.bind_eq_bind, Option.bind_some]
      rw [ih js s1]
      cases h2 : run ph s1 is with
      | none => simp
      | some r2 =>
        obtain ⟨s2, o2⟩ := r2
        simp only [Option.bind_some]
        cases h3 : run ph s2 js with
        | none => simp [h3]
        | some r3 => obtain ⟨s3, o3⟩ := r3; simp [h3, List.append_assoc]

/-- once a prefix is rejected, no continuation is accepted -/
theorem run_prefix_rejected (ph : Phase) (is js : List Instr) (s : St) (h : run ph s is = none) :
    run ph s (is ++ js) = none := by
  rw [run_append, h]; rfl

/-! ### what each instruction needs on the stack -/

inductive Need where | any | pat | proved
deriving DecidableEq, Repr

def Need.ok : Need → Term → Bool
  | .any, _ => true
  | .pat, .pat _ => true
  | .proved, .proved _ => true
  | _, _ => false

/-- required kinds, top of stack first -/
def needs (ph : Phase) : Instr → List Need
  | .implies | .app => [.pat, .pat]
  | .ex _ | .mu _ => [.pat]
  | .esubst _ | .ssubst _ => [.pat, .pat]
  | .mp => [.proved, .proved]
  | .gen _ => [.proved]
  | .subst _ => [.proved, .pat]
  | .instantiate ids => .any :: List.replicate ids.length .pat
  | .pop | .save => [.any]
  | .publish => match ph with | .proof => [.proved] | _ => [.pat]
  | _ => []

def stackOK : List Need → List Term → Bool
  | [], _ => true
  | _ :: _, [] => false
  | n :: ns, t :: ts => n.ok t && stackOK ns ts

theorem popPats_none_of_not_ok : ∀ (n : Nat) (st : List Term),
    stackOK (List.replicate n .pat) st = false → popPats n st = none := by
  intro n
  induction n with
  | zero => intro st h; simp [stackOK] at h
  | succ n ih =>
    intro st h
    cases st with
    | nil => simp [popPats]
    | cons t ts =>
      cases t with
      | proved q => simp [popPats]
      | pat q =>
        simp only [List.replicate_succ, stackOK, Need.ok, Bool.true_and] at h
        simp [popPats, ih ts h]

/-- **underflow / type confusion**: if the stack does not hold the kinds of terms an instruction
needs (too few entries, a proof where a pattern is required or vice versa), the machine rejects. -/
theorem step_type_confusion (ph : Phase) (s : St) (i : Instr)
    (h : stackOK (needs ph i) s.stack = false) : step ph s i = none := by
  obtain ⟨stack, memory, claims⟩ := s
  cases i <;> simp only [needs] at h <;> try (simp [stackOK] at h; done)
  case implies =>
    simp only [step]
    match stack, h with
    | [], _ => rfl
    | [_], _ => simp
    | .pat _ :: .pat _ :: _, h => simp [stackOK, Need.ok] at h
    | .proved _ :: _ :: _, _ => rfl
    | .pat _ :: .proved _ :: _, _ => rfl
  case app =>
    simp only [step]
    match stack, h with
    | [], _ => rfl
    | [_], _ => simp
    | .pat _ :: .pat _ :: _, h => simp [stackOK, Need.ok] at h
    | .proved _ :: _ :: _, _ => rfl
    | .pat _ :: .proved _ :: _, _ => rfl
  case ex x =>
    simp only [step]
    match stack, h with
    | [], _ => rfl
    | .pat _ :: _, h => simp [stackOK, Need.ok] at h
    | .proved _ :: _, _ => rfl
  case mu x =>
    simp only [step]
    match stack, h with
    | [], _ => rfl
    | .pat _ :: _, h => simp [stackOK, Need.ok] at h
    | .proved _ :: _, _ => rfl
  case esubst x =>
    simp only [step]
    match stack, h with
    | [], _ => rfl
    | [_], _ => simp
    | .pat _ :: .pat _ :: _, h => simp [stackOK, Need.ok] at h
    | .proved _ :: _ :: _, _ => rfl
    | .pat _ :: .proved _ :: _, _ => rfl
  case ssubst x =>
    simp only [step]
    match stack, h with
    | [], _ => rfl
    | [_], _ => simp
    | .pat _ :: .pat _ :: _, h => simp [stackOK, Need.ok] at h
    | .proved _ :: _ :: _, _ => rfl
    | .pat _ :: .proved _ :: _, _ => rfl
  case mp =>
    simp only [step]
    match stack, h with
    | [], _ => rfl
    | [_], _ => simp
    | .proved _ :: .proved _ :: _, h => simp [stackOK, Need.ok] at h
    | .pat _ :: _ :: _, _ => rfl
    | .proved _ :: .pat _ :: _, _ => rfl
  case gen x =>
    simp only [step]
    match stack, h with
    | [], _ => rfl
    | .proved _ :: _, h => simp [stackOK, Need.ok] at h
    | .pat _ :: _, _ => rfl
  case subst x =>
    simp only [step]
    match stack, h with
    | [], _ => rfl
    | [_], _ => simp
    | .proved _ :: .pat _ :: _, h => simp [stackOK, Need.ok] at h
    | .pat _ :: _ :: _, _ => rfl
    | .proved _ :: .proved _ :: _, _ => rfl
  case instantiate ids =>
    simp only [step]
    match stack, h with
    | [], _ => rfl
    | .pat p :: st, h =>
      simp only [stackOK, Need.ok, Bool.true_and] at h
      simp [popPats_none_of_not_ok _ _ h]
    | .proved p :: st, h =>
      simp only [stackOK, Need.ok, Bool.true_and] at h
      simp [popPats_none_of_not_ok _ _ h]
  case pop =>
    simp only [step]
    match stack, h with
    | [], _ => rfl
    | _ :: _, h => simp [stackOK, Need.ok] at h
  case save =>
    simp only [step]
    match stack, h with
    | [], _ => rfl
    | _ :: _, h => simp [stackOK, Need.ok] at h
  case publish =>
    cases ph <;> simp only [step] <;> simp only [] at h
    · match stack, h with
      | [], _ => rfl
      | .pat _ :: _, h => simp [stackOK, Need.ok] at h
      | .proved _ :: _, _ => rfl
    · match stack, h with
      | [], _ => rfl
      | .pat _ :: _, h => simp [stackOK, Need.ok] at h
      | .proved _ :: _, _ => rfl
    · match stack, h with
      | [], _ => rfl
      | .proved _ :: _, h => simp [stackOK, Need.ok] at h
      | .pat _ :: _, _ => rfl

theorem step_load_badIndex (ph : Phase) (s : St) (i : Nat) (h : s.memory.length ≤ i) :
    step ph s (.load i) = none := by
  simp [step, List.getElem?_eq_none h]

theorem step_publish_mismatch (s : St) (t c : Pat) (st : List Term) (cs : List Pat)
    (hs : s.stack = .proved t :: st) (hc : s.claims = c :: cs) (hne : c ≠ t) :
    step .proof s .publish = none := by
  simp [step, hs, hc, hne]

theorem step_publish_noClaim (s : St) (hc : s.claims = []) : step .proof s .publish = none := by
  simp only [step, hc]
  split <;> simp_all
