/-!
# The tautology prover (`tautology.py`): the decision part

`Form`: propositional patterns (⊥, metavariables, implication; `⊤` is `⊥ → ⊥`, every other
propositional notation expands to these).  `CF` is the Python class hierarchy `ConjForm`
(`CFBot/CFVar/CFOr/CFAnd`, each with a `negated` flag).  The four normal-form stages and the
resolution loop follow the Python code; the in-place mutations of `negated` flags are made explicit
(they happen on freshly built trees, so a functional reading is faithful).  Proof objects
(`ProofThunk`s) are not part of this file.  Core Lean only.
-/

inductive Form where
  | bot
  | var (n : Nat)
  | imp (a b : Form)
deriving DecidableEq, Repr, Inhabited

namespace Form
def eval (v : Nat → Bool) : Form → Bool
  | bot => false
  | var n => v n
  | imp a b => !(eval v a) || eval v b

def neg (a : Form) : Form := imp a bot
def top : Form := imp bot bot
def size : Form → Nat
  | bot => 1 | var _ => 1 | imp a b => a.size + b.size + 1
end Form

inductive CF where
  | bot (neg : Bool)
  | var (neg : Bool) (id : Nat)
  | or (neg : Bool) (l r : CF)
  | and (neg : Bool) (l r : CF)
deriving DecidableEq, Repr, Inhabited

namespace CF

def negated : CF → Bool
  | bot n => n | var n _ => n | or n _ _ => n | and n _ _ => n

/-- `term.negated = b` -/
def setNeg (b : Bool) : CF → CF
  | bot _ => bot b | var _ i => var b i | or _ l r => or b l r | and _ l r => and b l r

def isBot : CF → Bool
  | bot _ => true | _ => false

def eval (v : Nat → Bool) : CF → Bool
  | bot n => xor n false
  | var n i => xor n (v i)
  | or n l r => xor n (eval v l || eval v r)
  | and n l r => xor n (eval v l && eval v r)

/-- `to_conj_form` (the `ConjForm` component) -/
def ofForm : Form → CF
  | .bot => bot false
  | .var n => var false n
  | .imp p0 p1 =>
    -- `if pat == top()` comes before the implication case
    if p0 = .bot ∧ p1 = .bot then bot true else
    let c1 := ofForm p1
    match c1 with
    | bot true => bot true                               -- p1 is ⊤
    | bot false =>                                       -- p1 is ⊥: the pattern is ¬p0
      let c0 := ofForm p0
      match c0 with
      | bot true => bot false
      | bot false => bot true
      | _ => if c0.negated then c0.setNeg false else c0.setNeg true
    | _ =>
      let c0 := ofForm p0
      match c0 with
      | bot true => c1                                   -- ⊤ → p1
      | bot false => bot true                            -- ⊥ → p1
      | _ => if c0.negated then or false (c0.setNeg false) c1 else or false (c0.setNeg true) c1

/-- `propag_neg`; `flip = true` means the node's `negated` flag has just been inverted by the caller
(`term.left.negated = not term.left.negated`).  `none` = the `AssertionError` of the last branch -/
def propagNegAux (flip : Bool) : CF → Option CF
  | var n i => some (var (xor n flip) i)
  | or n l r =>
    if xor n flip then do
      let l' ← propagNegAux true l
      let r' ← propagNegAux true r
      pure (and false l' r')
    else do
      let l' ← propagNegAux false l
      let r' ← propagNegAux false r
      pure (or false l' r')
  | _ => none

def propagNeg (c : CF) : Option CF := propagNegAux false c

/-- the interpretation under which distribution strictly decreases (DESIGN.md C09) -/
def weight : CF → Nat
  | bot _ => 2 | var _ _ => 2
  | and _ l r => weight l + weight r + 1
  | or _ l r => weight l * weight r

/-- `to_cnf`, with fuel (`none` = out of fuel or the `AssertionError`); `toCnf_terminates` in
`Pi2.TautThm` shows `weight t` fuel suffices -/
def toCnfF : Nat → CF → Option CF
  | 0, _ => none
  | _ + 1, var n i => some (var n i)
  | k + 1, and _ l r => do
      let l' ← toCnfF k l
      let r' ← toCnfF k r
      pure (and false l' r')
  | k + 1, or _ l r => do
      let l' ← toCnfF k l
      let r' ← toCnfF k r
      match l', r' with
      | and _ ll lr, _ => toCnfF k (and false (or false ll r') (or false lr r'))
      | _, and _ rl rr => toCnfF k (and false (or false l' rl) (or false l' rr))
      | _, _ => pure (or false l' r')
  | _ + 1, _ => none

abbrev Clause := List Int

/-- `to_clauses` (`none` = an assertion fails) -/
def toClauses : CF → Option (List Clause)
  | var n i => some [[if n then -((i : Int) + 1) else (i : Int) + 1]]
  | and _ l r => do
      let a ← toClauses l
      let b ← toClauses r
      pure (a ++ b)
  | or _ l r => do
      let a ← toClauses l
      let b ← toClauses r
      match a, b with
      | [x], [y] => pure [x ++ y]
      | _, _ => none
  | _ => none

end CF

/-! ## resolution on clause *sets* (`frozenset[int]`), represented as duplicate-free sorted lists -/
namespace Res

def insertSorted (x : Int) : List Int → List Int
  | [] => [x]
  | y :: r => if x < y then x :: y :: r else if x = y then y :: r else y :: insertSorted x r

/-- `frozenset(cl)` -/
def canon (c : List Int) : List Int := c.foldr insertSorted []

/-- `is_trivial_clause`: contains a literal and its negation -/
def trivial (c : List Int) : Bool := c.any fun x => c.contains (-x)

/-- `resolvable(c1, c2)`: `common = {-x | x ∈ c1} ∩ c2` must be a singleton `{r}`; the result is
`(r, (c1 \ {-r}) ∪ (c2 \ {r}))` -/
def resolvable (c1 c2 : List Int) : Option (Int × List Int) :=
  match c2.filter (fun y => c1.contains (-y)) with
  | [r] => some (r, canon ((c1.filter (· ≠ -r)) ++ (c2.filter (· ≠ r))))
  | _ => none

/-- the two nested `for` loops of `resolution_algorithm` over the growing list `l`, as an index
machine: outer index `i`, inner index `j < i` (the inner loop stops at `cl2 == cl1`; `l` has no
duplicates so that is `j = i`).  `hint` = the set of clauses known (keys of the Python dict).
Returns `some true` when the empty clause is derived, `some false` when the list is exhausted,
`none` when the fuel runs out. -/
def loop : Nat → List (List Int) → Nat → Nat → Option Bool
  | 0, _, _, _ => none
  | fuel + 1, l, i, j =>
    match l[i]? with
    | none => some false
    | some cl1 =>
      if j ≥ i then loop fuel l (i + 1) 0 else
      match l[j]? with
      | none => loop fuel l (i + 1) 0
      | some cl2 =>
        match resolvable cl1 cl2 with
        | none => loop fuel l i (j + 1)
        | some (_, res) =>
          if l.contains res then loop fuel l i (j + 1)
          else if res.isEmpty then some true
          else loop fuel (l ++ [res]) i (j + 1)

/-- duplicate-free list of the non-trivial clause sets, in first-occurrence order (`list(hint.keys())`) -/
def initial (cls : List (List Int)) : List (List Int) :=
  (cls.map canon).foldl (fun acc c => if trivial c || acc.contains c then acc else acc ++ [c]) []

/-- `start_resolution_algorithm`: `some true` = every clause is trivial (the conjunction is valid),
`some false` = refuted (unsatisfiable), `none` = inconclusive -/
def start (fuel : Nat) (cls : List (List Int)) : Option (Option Bool) :=
  if cls.isEmpty then some (some true) else
  let l := initial cls
  if l.isEmpty then some (some true) else
  match loop fuel l 0 0 with
  | none => none
  | some true => some (some false)
  | some false => some none

end Res

/-- `prove_tautology` (verdict only): `some true` = a proof of the pattern, `some false` = a proof of
its negation, `none` = declined.  Outer `Option`: fuel / assertion. -/
def proveTautology (fuel : Nat) (f : Form) : Option (Option Bool) :=
  match CF.ofForm (Form.neg f) with
  | .bot true => some (some false)        -- ¬f is ⊤
  | .bot false => some (some true)        -- ¬f is ⊥
  | c => do
    let n ← CF.propagNeg c
    let cnf ← CF.toCnfF fuel n
    let cls ← CF.toClauses cnf
    match ← Res.start fuel cls with
    | none => pure none
    | some true => pure (some false)
    | some false => pure (some true)
