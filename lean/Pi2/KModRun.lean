import Pi2.KModCompile
/-!
# The three loops of `execute_full` (plain serialisation) against the machine

* `pubAxiomC`, `pubClaimC`: compile a pattern, publish it — the machine's memory / claim stack receive the renamed
  expansions, the journal is the list of renamed expansions;
* `stepC`: one proof expression of a K trace — `load_axiom(rule)` or `dynamic_inst(load_axiom(rule), σ)` — followed by
  `publish_proof`: the machine loads the axiom (the memory entry the tracker's `==` found has the rule's expansion),
  instantiates it (never rejected: the rule is in the propositional fragment) and pops the claim.
-/
set_option linter.unusedSimpArgs false
set_option linter.unusedVariables false
open Pat PySt

namespace KMod
open NPat

/-! ## gamma and claim loops -/

theorem pubAxiomC {n : Nat} (ρ : Nat → Nat) :
    ∀ (as : List NPat) (s : PySt) (acc : List Call) (s' : PySt) (a' : List Call),
    PModule.executeFull.pub {} n s acc .publishAxiom as = some (some (s', a')) →
    (∀ a ∈ as, a.MOK = true) → s.phase = .gamma → Agree ρ s'.symtab →
    (s'.memory = s.memory ++ as.map .proved ∧ s'.claims = s.claims ∧ s'.phase = .gamma ∧
      ∃ e, s'.symtab = s.symtab ++ e) ∧
    ∃ cs, a' = acc ++ cs ∧ ∀ m : St, ∃ is,
      Sg n s m cs s' { m with memory := m.memory ++ as.map fun a => .proved (ren ρ a.expand) } is
        (as.map fun a => ren ρ a.expand) := by
  intro as
  induction as with
  | nil =>
    intro s acc s' a' h _ hph _
    simp only [PModule.executeFull.pub, Option.some.injEq, Prod.mk.injEq] at h
    obtain ⟨rfl, rfl⟩ := h
    exact ⟨⟨by simp, rfl, hph, ⟨[], by simp⟩⟩, [], by simp, fun m => ⟨[], by simpa using Sg.nil s m⟩⟩
  | cons a r ih =>
    intro s acc s' a' h has hph hag
    simp only [PModule.executeFull.pub, Option.bind_eq_bind, Option.bind_eq_some_iff] at h
    obtain ⟨o1, hp, h⟩ := h
    rcases o1 with _ | ⟨s1, a1⟩
    · simp at h
    simp only [Option.bind_eq_some_iff] at h
    obtain ⟨o2, hd, h⟩ := h
    rcases o2 with _ | ⟨s2, a2⟩
    · simp at h
    simp only [] at h
    obtain ⟨ht, rfl⟩ := MM.doCalls_one hd
    have hsym2 : s2.symtab = s1.symtab := symtab_of_track1 (by simp) ht
    -- the shape of the publish step, from the phase only
    have hph2 : s2.phase = .gamma ∧ s1.phase = .gamma := by
      simp only [track1] at ht
      split at ht
      · next _ _ _ hp1 _ => simp only [Option.some.injEq] at ht; subst ht; exact ⟨hp1, hp1⟩
      · simp at ht
    obtain ⟨⟨hmem, hcl, hph', e2, he2⟩, cs3, rfl, S3⟩ := ih s2 _ s' a' h
      (fun x hx => has x (List.mem_cons_of_mem _ hx)) hph2.1 hag
    have ag2 : Agree ρ s2.symtab := by rw [he2] at hag; exact hag.prefix
    have ag1 : Agree ρ s1.symtab := hsym2 ▸ ag2
    obtain ⟨P1, cs1, rfl, S1⟩ := pattern_compiles (Nat.le_refl n) ρ hp (has a (by simp)) ag1
    have hstk : s1.stack = entry a :: s.stack := by simpa using P1.stack
    have htr : track1 n s1 .publishAxiom = some (some { s1 with
        stack := (.pat a, true) :: s.stack
        memory := s1.memory ++ [.proved a] }) := by
      simp [track1, hph2.2, hstk, entry]
    rw [htr] at ht
    simp only [Option.some.injEq] at ht
    subst ht
    obtain ⟨e1, he1⟩ := P1.symtab
    refine ⟨⟨?_, ?_, hph', ⟨e1 ++ e2, ?_⟩⟩, cs1 ++ .publishAxiom :: cs3, by simp, ?_⟩
    · rw [hmem]; simp [P1.memory]
    · rw [hcl]; exact P1.claims
    · rw [he2]; simp [he1, List.append_assoc]
    · intro m
      obtain ⟨is1, G1⟩ := S1 m
      have G2 : Sg n s1 (mpush m [ren ρ a.expand]) [.publishAxiom]
          { s1 with
            stack := (.pat a, true) :: s.stack
            memory := s1.memory ++ [.proved a] }
          { m with memory := m.memory ++ [.proved (ren ρ a.expand)] } [.publish]
          (some (ren ρ a.expand)).toList :=
        Sg.single htr rfl (by rw [hph2.2]; simp [step, mpush]) rfl
          (sideK_mk _ _ (by simp [SideCond]) (by simp [touchesResidue, Call.arity, hstk, entry]) (by simp))
      obtain ⟨is3, G3⟩ := S3 { m with memory := m.memory ++ [.proved (ren ρ a.expand)] }
      refine ⟨is1 ++ [.publish] ++ is3, ?_⟩
      have := (G1.append G2).append G3
      simpa [List.append_assoc] using this

theorem pubClaimC {n : Nat} (ρ : Nat → Nat) :
    ∀ (as : List NPat) (s : PySt) (acc : List Call) (s' : PySt) (a' : List Call),
    PModule.executeFull.pub {} n s acc .publishClaim as = some (some (s', a')) →
    (∀ a ∈ as, a.MOK = true) → s.phase = .claim → Agree ρ s'.symtab →
    (s'.memory = s.memory ∧ s'.claims = s.claims ∧ s'.phase = .claim ∧
      ∃ e, s'.symtab = s.symtab ++ e) ∧
    ∃ cs, a' = acc ++ cs ∧ ∀ m : St, ∃ is,
      Sg n s m cs s' { m with claims := (as.map fun a => ren ρ a.expand).reverse ++ m.claims } is
        (as.map fun a => ren ρ a.expand) := by
  intro as
  induction as with
  | nil =>
    intro s acc s' a' h _ hph _
    simp only [PModule.executeFull.pub, Option.some.injEq, Prod.mk.injEq] at h
    obtain ⟨rfl, rfl⟩ := h
    exact ⟨⟨rfl, rfl, hph, ⟨[], by simp⟩⟩, [], by simp, fun m => ⟨[], by simpa using Sg.nil s m⟩⟩
  | cons a r ih =>
    intro s acc s' a' h has hph hag
    simp only [PModule.executeFull.pub, Option.bind_eq_bind, Option.bind_eq_some_iff] at h
    obtain ⟨o1, hp, h⟩ := h
    rcases o1 with _ | ⟨s1, a1⟩
    · simp at h
    simp only [Option.bind_eq_some_iff] at h
    obtain ⟨o2, hd, h⟩ := h
    rcases o2 with _ | ⟨s2, a2⟩
    · simp at h
    simp only [] at h
    obtain ⟨ht, rfl⟩ := MM.doCalls_one hd
    have hsym2 : s2.symtab = s1.symtab := symtab_of_track1 (by simp) ht
    have hph2 : s2.phase = .claim ∧ s1.phase = .claim := by
      simp only [track1] at ht
      split at ht
      · next _ _ _ hp1 _ => simp only [Option.some.injEq] at ht; subst ht; exact ⟨hp1, hp1⟩
      · simp at ht
    obtain ⟨⟨hmem, hcl, hph', e2, he2⟩, cs3, rfl, S3⟩ := ih s2 _ s' a' h
      (fun x hx => has x (List.mem_cons_of_mem _ hx)) hph2.1 hag
    have ag2 : Agree ρ s2.symtab := by rw [he2] at hag; exact hag.prefix
    have ag1 : Agree ρ s1.symtab := hsym2 ▸ ag2
    obtain ⟨P1, cs1, rfl, S1⟩ := pattern_compiles (Nat.le_refl n) ρ hp (has a (by simp)) ag1
    have hstk : s1.stack = entry a :: s.stack := by simpa using P1.stack
    have htr : track1 n s1 .publishClaim = some (some { s1 with stack := (.pat a, true) :: s.stack }) := by
      simp [track1, hph2.2, hstk, entry]
    rw [htr] at ht
    simp only [Option.some.injEq] at ht
    subst ht
    obtain ⟨e1, he1⟩ := P1.symtab
    refine ⟨⟨?_, ?_, hph', ⟨e1 ++ e2, ?_⟩⟩, cs1 ++ .publishClaim :: cs3, by simp, ?_⟩
    · rw [hmem]; exact P1.memory
    · rw [hcl]; exact P1.claims
    · rw [he2]; simp [he1, List.append_assoc]
    · intro m
      obtain ⟨is1, G1⟩ := S1 m
      have G2 : Sg n s1 (mpush m [ren ρ a.expand]) [.publishClaim]
          { s1 with stack := (.pat a, true) :: s.stack }
          { m with claims := ren ρ a.expand :: m.claims } [.publish]
          (some (ren ρ a.expand)).toList :=
        Sg.single htr rfl (by rw [hph2.2]; simp [step, mpush]) rfl
          (sideK_mk _ _ (by simp [SideCond]) (by simp [touchesResidue, Call.arity, hstk, entry]) (by simp))
      obtain ⟨is3, G3⟩ := S3 { m with claims := ren ρ a.expand :: m.claims }
      refine ⟨is1 ++ [.publish] ++ is3, ?_⟩
      have := (G1.append G2).append G3
      simpa [List.append_assoc] using this

end KMod

namespace KMod
open NPat

/-! ## the proof phase -/

/-- the machine's image of a tracked term under a symbol naming -/
def convR (ρ : Nat → Nat) : TTerm → Term
  | .pat p => .pat (ren ρ p.expand)
  | .proved p => .proved (ren ρ p.expand)

/-- what `a == b` answering `True` must mean for a published axiom `a` against a rule `b` of the fragment -/
def PeqOK (a : NPat) : Prop :=
  ∀ n b, b.PF = true → NPat.peqF n a b = some true → a.expand = b.expand

theorem PeqOK.of_shape {a : NPat} (h : a.Shape = true) : PeqOK a := by
  intro n b hb hp
  have := NPat.peqF_expand n a b true h (PF.shape b hb) hp
  simpa using this.symm

/-- the memory holds published axioms only, each of which is `PeqOK` -/
def MemK (mem : List TTerm) : Prop := ∀ t ∈ mem, ∃ a, t = .proved a ∧ PeqOK a

theorem indexF_found (n : Nat) (t : TTerm) : ∀ (mem : List TTerm) (k i : Nat),
    indexF n t mem k = some (some i) →
    ∃ j u, i = k + j ∧ mem[j]? = some u ∧ teqF n u t = some true := by
  intro mem
  induction mem with
  | nil => intro k i h; simp [indexF] at h
  | cons u r ih =>
    intro k i h
    simp only [indexF, Option.bind_eq_bind, Option.bind_eq_some_iff] at h
    obtain ⟨b, hb, h⟩ := h
    cases b with
    | true =>
      simp only [if_true, Option.pure_def, Option.some.injEq] at h
      subst h
      exact ⟨0, u, rfl, by simp, hb⟩
    | false =>
      simp only [Bool.false_eq_true, if_false] at h
      obtain ⟨j, v, hj, hv, ht⟩ := ih (k + 1) i h
      exact ⟨j + 1, v, by omega, by simpa using hv, ht⟩

/-- `load_axiom(rule)`: what the thunk does, whatever the state -/
theorem load_shape {k : Nat} {ax : List NPat} {s s1 : PySt} {rule c : NPat} {acc a1 : List Call}
    (h : Pf.runF {} ax k s (.loadAxiom rule) acc = some (some (s1, a1, c))) :
    c = rule ∧ s1 = s.push (.proved rule) ∧ a1 = acc ++ [.load (.proved rule)] ∧
      ∃ k', k' ≤ k ∧ track1 k' s (.load (.proved rule)) = some (some s1) := by
  cases k with
  | zero => simp [Pf.runF] at h
  | succ k =>
    rw [runF_succ] at h
    rcases andThen_eq_some _ _ _ h with ⟨_, e⟩ | ⟨s1', a1', hraw, h⟩
    · cases e
    simp only [rawF] at hraw
    obtain ⟨ht, rfl⟩ := MM.doCalls_one hraw
    have e := MM.track1_load_eq ht
    subst e
    simp only [checkF, PySt.push, Option.bind_eq_some_iff] at h
    obtain ⟨o, _, h⟩ := h
    cases o with
    | none => simp at h
    | some adv =>
      simp only [Option.bind_eq_some_iff] at h
      obtain ⟨e, _, h⟩ := h
      cases e with
      | false => simp at h
      | true =>
        simp only [if_true, Option.pure_def, Option.some.injEq, Prod.mk.injEq] at h
        obtain ⟨rfl, rfl, rfl⟩ := h
        exact ⟨rfl, rfl, rfl, k, Nat.le_succ k, ht⟩

/-- the machine side of `load_axiom(rule)` -/
theorem load_sg {n k : Nat} (hk : k ≤ n) (ρ : Nat → Nat) {s : PySt} {rule : NPat} (m : St)
    (hrule : rule.PF = true)
    (ht : track1 k s (.load (.proved rule)) = some (some (s.push (.proved rule))))
    (hmem : m.memory = s.memory.map (convR ρ)) (hK : MemK s.memory) :
    ∃ i, Sg n s m [.load (.proved rule)] (s.push (.proved rule))
      { m with stack := .proved (ren ρ rule.expand) :: m.stack } [.load i] [] := by
  have htn := PySt.track1_mono hk _ _ _ ht
  have htn' := htn
  simp only [track1, Option.bind_eq_bind, Option.bind_eq_some_iff] at htn'
  obtain ⟨oi, hidx, h2⟩ := htn'
  cases oi with
  | none => simp at h2
  | some i =>
    obtain ⟨j, u, hj, hu, hteq⟩ := indexF_found n _ _ 0 i hidx
    have hij : i = j := by omega
    subst hij
    obtain ⟨a, rfl, hok⟩ := hK u (List.mem_of_getElem? hu)
    simp only [teqF] at hteq
    have hexp := hok n rule hrule hteq
    have hm : m.memory[i]? = some (.proved (ren ρ rule.expand)) := by
      rw [hmem, List.getElem?_map, hu]
      simp [convR, hexp]
    refine ⟨i, ?_⟩
    have := Sg.single (m := m) (m1 := { m with stack := .proved (ren ρ rule.expand) :: m.stack })
      (i := .load i) (j := none) htn (by simp [emit1, hidx]) (by simp [step, hm]) rfl
      (sideK_mk _ _ (by simp [SideCond]) (touches_push0 _ _ rfl) (by simp))
    simpa using this

/-- `publish_proof` on a proved term whose expansion is the next claim's -/
theorem publishC {n k : Nat} (hk : k ≤ n) (ρ : Nat → Nat) {s3 s4 : PySt} {c : NPat} {st : List (TTerm × Bool)}
    {acc a4 : List Call} (m0 : St) (ms : List Term)
    (h : doCalls k s3 [.publishProof] acc = some (some (s4, a4)))
    (hstk : s3.stack = (.proved c, false) :: st) (hph : s3.phase = .proof)
    (hc : c.Shape = true) (hcl : ∀ x ∈ s3.claims, x.Shape = true)
    (hmc : m0.claims = s3.claims.map fun x => ren ρ x.expand) :
    ∃ c0 rest, s3.claims = c0 :: rest ∧
      s4 = { s3 with stack := (.proved c, true) :: st, claims := rest } ∧ a4 = acc ++ [.publishProof] ∧
      Sg n s3 { m0 with stack := .proved (ren ρ c.expand) :: ms } [.publishProof] s4
        { m0 with stack := ms, claims := m0.claims.tail } [.publish] [] := by
  obtain ⟨ht, rfl⟩ := MM.doCalls_one h
  have htn := PySt.track1_mono hk _ _ _ ht
  cases hcls : s3.claims with
  | nil => simp [track1, hph, hstk, hcls] at htn
  | cons c0 rest =>
    have htn' := htn
    simp only [track1, hph, hstk, hcls, Option.bind_eq_bind, Option.bind_eq_some_iff] at htn'
    obtain ⟨e, hpeq, h2⟩ := htn'
    cases e with
    | false => simp at h2
    | true =>
      simp only [if_true, Option.pure_def, Option.some.injEq] at h2
      have hexp : c.expand = c0.expand := by
        have := NPat.peqF_expand n c c0 true hc (hcl c0 (by rw [hcls]; simp)) hpeq
        simpa using this.symm
      have h2' : s4 = { s3 with stack := (.proved c, true) :: st, claims := rest } := by
        rw [← h2, ← hph]
      refine ⟨c0, rest, rfl, h2', rfl, ?_⟩
      have hmc' : m0.claims = ren ρ c0.expand :: rest.map fun x => ren ρ x.expand := by
        rw [hmc, hcls]; rfl
      have := Sg.single (m := { m0 with stack := .proved (ren ρ c.expand) :: ms })
        (m1 := { m0 with stack := ms, claims := m0.claims.tail }) (i := .publish) (j := none) htn rfl
        (by rw [hph]; simp [step, hmc', hexp])
        (by rw [h2']) (sideK_mk _ _ (by simp [SideCond])
          (by simp [touchesResidue, Call.arity, hstk]) (by simp))
      simpa using this

end KMod

namespace KMod
open NPat

/-- the proof expressions of a K trace -/
def KPf (pf : Pf) : Prop :=
  ∃ rule σ, rule.PF = true ∧ PFMap σ = true ∧ (σ.map (·.1)).Nodup ∧
    pf = (if σ.isEmpty then .loadAxiom rule else .dynInst (.loadAxiom rule) σ)

/-- tracker and machine in the proof phase -/
structure PRel (ρ : Nat → Nat) (s : PySt) (m : St) : Prop where
  phase : s.phase = .proof
  memory : m.memory = s.memory.map (convR ρ)
  claims : m.claims = s.claims.map fun c => ren ρ c.expand
  memK : MemK s.memory
  clShape : ∀ c ∈ s.claims, c.Shape = true

/-- the conclusion of one step of the proof loop -/
def StepOK (n : Nat) (s : PySt) (m : St) (acc : List Call) (s2 : PySt) (a2 : List Call) : Prop :=
  ∃ c0 rest, s.claims = c0 :: rest ∧ s2.claims = rest ∧ s2.memory = s.memory ∧ s2.phase = .proof ∧
    (∃ e, s2.symtab = s.symtab ++ e) ∧
    ∃ cs is, a2 = acc ++ cs ∧ Sg n s m cs s2 { m with claims := m.claims.tail } is []

theorem stepC_load {n : Nat} (ρ : Nat → Nat) (ax : List NPat) {s s1 s2 : PySt} {rule : NPat}
    {acc a1 a2 : List Call} {c : NPat} (m : St) (hrule : rule.PF = true)
    (hrun : Pf.runF {} ax n s (.loadAxiom rule) acc = some (some (s1, a1, c)))
    (hpub : doCalls n s1 [.publishProof] a1 = some (some (s2, a2)))
    (hrel : PRel ρ s m) : StepOK n s m acc s2 a2 := by
  obtain ⟨rfl, rfl, rfl, k', hk', ht⟩ := load_shape hrun
  obtain ⟨i, G1⟩ := load_sg hk' ρ m hrule ht hrel.memory hrel.memK
  obtain ⟨c0, rest, hcl, rfl, rfl, G2⟩ := publishC (Nat.le_refl n) ρ (c := c) (st := s.stack) m m.stack hpub rfl
    hrel.phase (PF.shape _ hrule) hrel.clShape hrel.claims
  refine ⟨c0, rest, hcl, rfl, rfl, hrel.phase, ⟨[], by simp [PySt.push]⟩,
    [.load (.proved c), .publishProof], [.load i, .publish], by simp, ?_⟩
  have := G1.append G2
  simpa using this

theorem stepC_dyn {n : Nat} (ρ : Nat → Nat) (ax : List NPat) {s s1 s2 : PySt} {rule : NPat}
    {σ : List (Nat × NPat)} {acc a1 a2 : List Call} {c : NPat} (m : St) (hrule : rule.PF = true)
    (hσ : PFMap σ = true) (hnd : (σ.map (·.1)).Nodup) (hne : σ.isEmpty = false)
    (hrun : Pf.runF {} ax n s (.dynInst (.loadAxiom rule) σ) acc = some (some (s1, a1, c)))
    (hpub : doCalls n s1 [.publishProof] a1 = some (some (s2, a2)))
    (hrel : PRel ρ s m) (hag : Agree ρ s2.symtab) : StepOK n s m acc s2 a2 := by
  cases n with
  | zero => simp [Pf.runF] at hrun
  | succ k =>
  rw [runF_succ] at hrun
  rcases andThen_eq_some _ _ _ hrun with ⟨_, e⟩ | ⟨s3, a3, hraw, hchk⟩
  · cases e
  simp only [rawF, hne, Bool.false_eq_true, if_false] at hraw
  rcases andThen_eq_some _ _ _ hraw with ⟨_, e⟩ | ⟨t1, b1, h1, hraw⟩
  · cases e
  rcases andThen3_eq_some _ _ _ hraw with ⟨_, e⟩ | ⟨t2, b2, c2, h2, hraw⟩
  · cases e
  obtain ⟨hti, rfl⟩ := MM.doCalls_one hraw
  obtain ⟨rfl, rfl, rfl, k', hk', htl⟩ := load_shape h2
  -- symbol tables: only the values of the substitution name symbols
  have hsym3 : s3.symtab = t1.symtab := by
    rw [symtab_of_track1 (by simp) hti]; rfl
  have hsym2 : s2.symtab = s1.symtab := symtab_of_track1 (by simp) (MM.doCalls_one hpub).1
  -- the check of the thunk: the conclusion is the top of the stack
  have hvals : ∀ v ∈ σ.map (·.2), v.PF = true := by
    intro v hv
    obtain ⟨kv, hkv, rfl⟩ := List.mem_map.mp hv
    exact (PFMap_iff σ).mp hσ kv hkv
  have hlen : (σ.map (·.2)).length = (σ.map (·.1)).length := by simp
  have hke : (σ.map (·.1)).isEmpty = false := by
    cases σ with
    | nil => simp at hne
    | cons _ _ => rfl
  -- the check of the thunk: the conclusion is the top of the stack, the state is unchanged
  have hs13 : s1 = s3 ∧ a1 = b1 ++ [.load (.proved c2)] ++ [.instantiate (σ.map (·.1))] := by
    simp only [checkF] at hchk
    split at hchk
    · next c' b' st' hst =>
      simp only [Option.bind_eq_some_iff] at hchk
      obtain ⟨o, _, hchk⟩ := hchk
      cases o with
      | none => simp at hchk
      | some adv =>
        simp only [Option.bind_eq_some_iff] at hchk
        obtain ⟨e, _, hchk⟩ := hchk
        cases e with
        | false => simp at hchk
        | true =>
          simp only [if_true, Option.pure_def, Option.some.injEq, Prod.mk.injEq] at hchk
          obtain ⟨rfl, rfl, rfl⟩ := hchk
          exact ⟨rfl, rfl⟩
    · simp at hchk
  obtain ⟨e13, ea1⟩ := hs13
  subst e13
  subst ea1
  have ag1 : Agree ρ t1.symtab := by rw [← hsym3, ← hsym2]; exact hag
  obtain ⟨P1, cs1, rfl, S1⟩ := patternList_compiles (n := k + 1) (Nat.le_succ k) ρ h1
    (fun v hv => PF.mok v (hvals v hv)) ag1
  have hstk2 : (t1.push (.proved c2)).stack
      = (.proved c2, false) :: ((σ.map (·.2)).reverse.map entry ++ s.stack) := by
    simp [PySt.push, P1.stack]
  have htp := takePlugs_vals (σ.map (·.2)) s.stack
  rw [hlen] at htp
  have htN := PySt.track1_mono (Nat.le_succ k) _ _ _ hti
  have htN' := htN
  simp only [track1, hstk2, hke, Bool.false_eq_true, if_false, htp, zip_keys_vals,
    Option.bind_eq_bind, Option.bind_eq_some_iff, Option.pure_def, Option.some.injEq] at htN'
  obtain ⟨c3, hinst, hs3⟩ := htN'
  obtain ⟨hce, hcs⟩ := NPat.instF_expand _ σ c2 c3 (PF.shape _ hrule) (PFMap.shape σ hσ) hinst
  obtain ⟨r0, hr0⟩ := Option.isSome_iff_exists.mp
    (Pat.inst_PFS (Py.lookup (NPat.expand.expandMap σ)) c2.expand (PF.pfs c2 hrule))
  have hr0e : r0 = c3.expand := by
    rw [hce]; exact (C11.py_inst_eq_rust _ _ _ hr0).symm
  have hz : (σ.map (·.1)).zip (σ.map (·.2)) = σ := zip_keys_vals σ
  have hph1 : t1.phase = .proof := P1.phase.trans hrel.phase
  -- the pieces
  obtain ⟨is1, G1⟩ := S1 m
  obtain ⟨i, G2⟩ := load_sg (n := k + 1) (Nat.le_succ_of_le hk') ρ
    (mpush m ((σ.map (·.2)).reverse.map fun p => ren ρ p.expand)) hrule htl
    (by rw [P1.memory]; exact hrel.memory) (by rw [P1.memory]; exact hrel.memK)
  have hstep := step_inst_proved ρ (t1.push (.proved c2)).phase m c2.expand r0 (σ.map (·.1)) (σ.map (·.2))
    hnd hlen (by rw [hz]; exact hr0)
  rw [hr0e] at hstep
  have G3 := Sg.single (n := k + 1) htN (i := .instantiate (σ.map (·.1)).reverse) rfl hstep
    (by rw [← hs3]) (sideK_inst _ _ (σ.map (·.1)) (σ.map (·.2)) (.proved c2) s.stack (Or.inl rfl) hnd hlen
      hstk2 (by rw [hz]; exact Option.isSome_iff_exists.mpr ⟨r0, hr0⟩))
  have hstk3 : s1.stack = (.proved c3, false) :: s.stack := by rw [← hs3]
  have hph3 : s1.phase = .proof := by rw [← hs3]; exact hph1
  have hcl3 : s1.claims = s.claims := by rw [← hs3]; exact P1.claims
  have hmem3 : s1.memory = s.memory := by rw [← hs3]; exact P1.memory
  obtain ⟨c0, rest, hcl, rfl, rfl, G4⟩ := publishC (Nat.le_refl (k + 1)) ρ (c := c3) (st := s.stack) m m.stack
    hpub hstk3 hph3 hcs (by rw [hcl3]; exact hrel.clShape) (by rw [hcl3]; exact hrel.claims)
  obtain ⟨e1, he1⟩ := P1.symtab
  refine ⟨c0, rest, by rw [← hcl3]; exact hcl, rfl, hmem3, hph3, ⟨e1, by rw [← he1, ← hsym3]⟩,
    cs1 ++ [.load (.proved c2)] ++ [.instantiate (σ.map (·.1))] ++ [.publishProof],
    is1 ++ [.load i] ++ [.instantiate (σ.map (·.1)).reverse] ++ [.publish], ?_, ?_⟩
  · simp [List.append_assoc]
  · have := ((G1.append G2).append G3).append G4
    simpa [mpush] using this

end KMod

namespace KMod
open NPat

theorem stepC {n : Nat} (ρ : Nat → Nat) (ax : List NPat) {s s1 s2 : PySt} {pf : Pf}
    {acc a1 a2 : List Call} {c : NPat} (m : St) (hpf : KPf pf)
    (hrun : Pf.runF {} ax n s pf acc = some (some (s1, a1, c)))
    (hpub : doCalls n s1 [.publishProof] a1 = some (some (s2, a2)))
    (hrel : PRel ρ s m) (hag : Agree ρ s2.symtab) : StepOK n s m acc s2 a2 := by
  obtain ⟨rule, σ, hrule, hσ, hnd, rfl⟩ := hpf
  cases hne : σ.isEmpty with
  | true =>
    simp only [hne, if_true] at hrun
    exact stepC_load ρ ax m hrule hrun hpub hrel
  | false =>
    simp only [hne, Bool.false_eq_true, if_false] at hrun
    exact stepC_dyn ρ ax m hrule hσ hnd hne hrun hpub hrel hag

/-- the part of `PRel` that does not mention the machine -/
structure PInv (s : PySt) : Prop where
  phase : s.phase = .proof
  memK : MemK s.memory
  clShape : ∀ c ∈ s.claims, c.Shape = true

theorem PRel.inv {ρ : Nat → Nat} {s : PySt} {m : St} (h : PRel ρ s m) : PInv s :=
  ⟨h.phase, h.memK, h.clShape⟩

/-- a machine state related to `s` -/
def fakeM (ρ : Nat → Nat) (s : PySt) : St :=
  ⟨[], s.memory.map (convR ρ), s.claims.map fun c => ren ρ c.expand⟩

theorem PInv.rel {s : PySt} (h : PInv s) (ρ : Nat → Nat) : PRel ρ s (fakeM ρ s) :=
  ⟨h.phase, rfl, rfl, h.memK, h.clShape⟩

/-- after a step the relation holds again -/
theorem StepOK.rel {n : Nat} {ρ : Nat → Nat} {s s2 : PySt} {m : St} {acc a2 : List Call}
    (h : StepOK n s m acc s2 a2) (hrel : PRel ρ s m) : PRel ρ s2 { m with claims := m.claims.tail } := by
  obtain ⟨c0, rest, hcl, hcl2, hmem, hph, _, _⟩ := h
  refine ⟨hph, ?_, ?_, ?_, ?_⟩
  · rw [hmem]; exact hrel.memory
  · show m.claims.tail = _
    rw [hrel.claims, hcl, hcl2]; rfl
  · rw [hmem]; exact hrel.memK
  · intro x hx
    rw [hcl2] at hx
    exact hrel.clShape x (by rw [hcl]; exact List.mem_cons_of_mem _ hx)

/-- one step, without a machine: the symbol table grows, the invariant is kept, one claim is consumed -/
theorem stepC_ext {n : Nat} (ax : List NPat) {s s1 s2 : PySt} {pf : Pf}
    {acc a1 a2 : List Call} {c : NPat} (hpf : KPf pf)
    (hrun : Pf.runF {} ax n s pf acc = some (some (s1, a1, c)))
    (hpub : doCalls n s1 [.publishProof] a1 = some (some (s2, a2)))
    (hinv : PInv s) :
    PInv s2 ∧ (∃ e, s2.symtab = s.symtab ++ e) ∧ s.claims.length = s2.claims.length + 1 := by
  have hrel := hinv.rel (fun nm => s2.symtab.idxOf nm)
  have hstep := stepC _ ax _ hpf hrun hpub hrel (agree_idxOf s2.symtab)
  have hrel2 := hstep.rel hrel
  obtain ⟨c0, rest, hcl, hcl2, _, _, hext, _⟩ := hstep
  exact ⟨hrel2.inv, hext, by rw [hcl, hcl2]; rfl⟩

theorem proofs_cons_inv {M : PModule} {n : Nat} {s s' : PySt} {acc a' : List Call} {pf : Pf} {r : List Pf}
    (h : PModule.executeFull.proofs {} M n s acc (pf :: r) = some (some (s', a'))) :
    ∃ s1 a1 c s2 a2, Pf.runF {} M.axiomsOf n s pf acc = some (some (s1, a1, c)) ∧
      doCalls n s1 [.publishProof] a1 = some (some (s2, a2)) ∧
      PModule.executeFull.proofs {} M n s2 a2 r = some (some (s', a')) := by
  simp only [PModule.executeFull.proofs, Option.bind_eq_bind, Option.bind_eq_some_iff] at h
  obtain ⟨o1, hp, h⟩ := h
  rcases o1 with _ | ⟨s1, a1, cc⟩
  · simp at h
  simp only [Option.bind_eq_some_iff] at h
  obtain ⟨o2, hd, h⟩ := h
  rcases o2 with _ | ⟨s2, a2⟩
  · simp at h
  exact ⟨s1, a1, cc, s2, a2, hp, hd, h⟩

theorem proofs_ext {M : PModule} {n : Nat} :
    ∀ (pfs : List Pf) (s : PySt) (acc : List Call) (s' : PySt) (a' : List Call),
    PModule.executeFull.proofs {} M n s acc pfs = some (some (s', a')) →
    (∀ pf ∈ pfs, KPf pf) → PInv s → ∃ e, s'.symtab = s.symtab ++ e := by
  intro pfs
  induction pfs with
  | nil =>
    intro s acc s' a' h _ _
    simp only [PModule.executeFull.proofs, Option.some.injEq, Prod.mk.injEq] at h
    obtain ⟨rfl, rfl⟩ := h
    exact ⟨[], by simp⟩
  | cons pf r ih =>
    intro s acc s' a' h hpfs hinv
    obtain ⟨s1, a1, c, s2, a2, hrun, hpub, hrest⟩ := proofs_cons_inv h
    obtain ⟨hinv2, ⟨e1, he1⟩, _⟩ := stepC_ext M.axiomsOf (hpfs pf (by simp)) hrun hpub hinv
    obtain ⟨e2, he2⟩ := ih s2 a2 s' a' hrest (fun x hx => hpfs x (List.mem_cons_of_mem _ hx)) hinv2
    exact ⟨e1 ++ e2, by rw [he2, he1, List.append_assoc]⟩

/-- the proof loop: every claim is discharged -/
theorem proofsC {M : PModule} {n : Nat} (ρ : Nat → Nat) :
    ∀ (pfs : List Pf) (s : PySt) (acc : List Call) (s' : PySt) (a' : List Call) (m : St),
    PModule.executeFull.proofs {} M n s acc pfs = some (some (s', a')) →
    (∀ pf ∈ pfs, KPf pf) → PRel ρ s m → Agree ρ s'.symtab → s.claims.length = pfs.length →
    s'.claims = [] ∧ ∃ cs is m', a' = acc ++ cs ∧ Sg n s m cs s' m' is [] ∧ m'.claims = [] := by
  intro pfs
  induction pfs with
  | nil =>
    intro s acc s' a' m h _ hrel _ hlen
    simp only [PModule.executeFull.proofs, Option.some.injEq, Prod.mk.injEq] at h
    obtain ⟨rfl, rfl⟩ := h
    have hcl : s.claims = [] := List.length_eq_zero_iff.mp hlen
    exact ⟨hcl, [], [], m, by simp, Sg.nil s m, by rw [hrel.claims, hcl]; rfl⟩
  | cons pf r ih =>
    intro s acc s' a' m h hpfs hrel hag hlen
    obtain ⟨s1, a1, c, s2, a2, hrun, hpub, hrest⟩ := proofs_cons_inv h
    obtain ⟨hinv2, _, hlen2⟩ := stepC_ext M.axiomsOf (hpfs pf (by simp)) hrun hpub hrel.inv
    obtain ⟨e2, he2⟩ := proofs_ext r s2 a2 s' a' hrest (fun x hx => hpfs x (List.mem_cons_of_mem _ hx)) hinv2
    have ag2 : Agree ρ s2.symtab := by rw [he2] at hag; exact hag.prefix
    have hstep := stepC ρ M.axiomsOf m (hpfs pf (by simp)) hrun hpub hrel ag2
    have hrel2 := hstep.rel hrel
    obtain ⟨hfin, cs2, is2, m', rfl, G2, hm'⟩ := ih s2 a2 s' a' _ hrest
      (fun x hx => hpfs x (List.mem_cons_of_mem _ hx)) hrel2 hag (by simp at hlen; omega)
    obtain ⟨_, _, _, _, _, _, _, cs1, is1, rfl, G1⟩ := hstep
    exact ⟨hfin, cs1 ++ cs2, is1 ++ is2, m', by simp, by simpa using G1.append G2, hm'⟩

end KMod

namespace KMod
open NPat

/-! ## the whole module -/

theorem trackAll_append_eq {n : Nat} : ∀ (cs1 cs2 : List Call) (s s1 : PySt)
    (out out1 : List Instr × List Instr × List Instr),
    trackAll n s cs1 out = some (some (s1, out1)) →
    trackAll n s (cs1 ++ cs2) out = trackAll n s1 cs2 out1 := by
  intro cs1
  induction cs1 with
  | nil =>
    intro cs2 s s1 out out1 h
    simp only [trackAll, Option.some.injEq, Prod.mk.injEq] at h
    obtain ⟨rfl, rfl⟩ := h
    rfl
  | cons c cs ih =>
    intro cs2 s s1 out out1 h
    obtain ⟨is, t, he, ht, h'⟩ := trackAll_cons n s s1 c cs out out1 h
    rw [List.cons_append, trackAll_cons_eq _ out he ht]
    exact ih cs2 t s1 _ out1 h'

/-- the axioms a K module may publish: machine-OK, and `==` against a rule of the fragment is truthful -/
def GAx (a : NPat) : Prop := a.MOK = true ∧ PeqOK a

/-- **acceptance of a K-style module** (plain serialisation): axioms `GAx`, claims in the propositional fragment, one
proof `load_axiom` / `dynamic_inst(load_axiom)` per claim.  `ρ` is any naming of the symbols that names the symbols of
the final table by their position (the number the serializer writes). -/
theorem module_acceptedK {n : Nat} (M : PModule) (s : PySt) (calls : List Call)
    (hgam : ∀ a ∈ M.gammaAxioms, GAx a) (hclm : ∀ a ∈ M.claimsOf, a.PF = true)
    (hpfs : ∀ pf ∈ M.proofsOf, KPf pf) (hlen : M.claimsOf.length = M.proofsOf.length)
    (hex : PModule.executeFull {} n M = some (some (s, calls)))
    (ρ : Nat → Nat) (hag : Agree ρ s.symtab) :
    s.claims = [] ∧ AllSideK n (PySt.init M.claimsOf) calls ∧
    ∃ g c p, PySt.trackAll n (PySt.init M.claimsOf) calls ([], [], []) = some (some (s, (g, c, p))) ∧
      verify g c p = some (M.gammaAxioms.map (fun a => ren ρ a.expand),
        M.claimsOf.reverse.map (fun a => ren ρ a.expand)) := by
  -- the structure of `executeFull`
  simp only [PModule.executeFull, Option.bind_eq_bind, Option.bind_eq_some_iff] at hex
  obtain ⟨o1, hpub1, hex⟩ := hex
  rcases o1 with _ | ⟨e1, a1⟩
  · simp at hex
  simp only [Option.bind_eq_some_iff] at hex
  obtain ⟨o2, hd1, hex⟩ := hex
  rcases o2 with _ | ⟨e2, a2⟩
  · simp at hex
  simp only [Option.bind_eq_some_iff] at hex
  obtain ⟨o3, hpub2, hex⟩ := hex
  rcases o3 with _ | ⟨e3, a3⟩
  · simp at hex
  simp only [Option.bind_eq_some_iff] at hex
  obtain ⟨o4, hd2, hex⟩ := hex
  rcases o4 with _ | ⟨e4, a4⟩
  · simp at hex
  simp only [] at hex
  obtain ⟨ht1, rfl⟩ := MM.doCalls_one hd1
  obtain ⟨ht2, rfl⟩ := MM.doCalls_one hd2
  obtain ⟨hphe1, he2⟩ := intoClaim_spec n e1 e2 ht1
  obtain ⟨hphe3, he4⟩ := intoProof_spec n e3 e4 ht2
  have hmokG : ∀ a ∈ M.gammaAxioms, a.MOK = true := fun a ha => (hgam a ha).1
  have hmokC : ∀ a ∈ M.claimsOf.reverse, a.MOK = true :=
    fun a ha => PF.mok a (hclm a (List.mem_reverse.mp ha))
  have hph2 : e2.phase = .claim := by rw [he2]
  -- the facts that do not depend on the naming
  obtain ⟨⟨hmem1, hcl1, _, _⟩, _⟩ := pubAxiomC (fun nm => e1.symtab.idxOf nm) M.gammaAxioms _ [] e1 a1 hpub1
    hmokG rfl (agree_idxOf _)
  obtain ⟨⟨hmem3, hcl3, _, _⟩, _⟩ := pubClaimC (fun nm => e3.symtab.idxOf nm) M.claimsOf.reverse e2 _ e3 a3
    hpub2 hmokC hph2 (agree_idxOf _)
  have hmem4 : e4.memory = M.gammaAxioms.map .proved := by
    rw [he4]; show e3.memory = _
    rw [hmem3, he2]; show e1.memory = _
    rw [hmem1]; simp [PySt.init]
  have hcl4 : e4.claims = M.claimsOf := by
    rw [he4]; show e3.claims = _
    rw [hcl3, he2]; show e1.claims = _
    rw [hcl1]; rfl
  have hinv4 : PInv e4 := by
    refine ⟨by rw [he4], ?_, ?_⟩
    · intro t ht
      rw [hmem4] at ht
      obtain ⟨a, ha, rfl⟩ := List.mem_map.mp ht
      exact ⟨a, rfl, (hgam a ha).2⟩
    · intro c hc
      rw [hcl4] at hc
      exact PF.shape c (hclm c hc)
  -- symbol tables
  obtain ⟨eP, hextP⟩ := proofs_ext M.proofsOf e4 _ s calls hex hpfs hinv4
  have ag4 : Agree ρ e4.symtab := by have := hag; rw [hextP] at this; exact this.prefix
  have ag3 : Agree ρ e3.symtab := by rw [he4] at ag4; exact ag4
  obtain ⟨⟨_, _, _, eC, hextC⟩, C, hC, SC⟩ := pubClaimC ρ M.claimsOf.reverse e2 _ e3 a3
    hpub2 hmokC hph2 ag3
  have ag2 : Agree ρ e2.symtab := by rw [hextC] at ag3; exact ag3.prefix
  have ag1 : Agree ρ e1.symtab := by rw [he2] at ag2; exact ag2
  obtain ⟨_, G, hG, SG⟩ := pubAxiomC ρ M.gammaAxioms _ [] e1 a1 hpub1
    hmokG rfl ag1
  simp only [List.nil_append] at hG
  subst hG
  subst hC
  -- the machine
  obtain ⟨isG, GG⟩ := SG ⟨[], [], []⟩
  obtain ⟨isC, GC⟩ := SC ⟨[], [] ++ M.gammaAxioms.map fun a => .proved (ren ρ a.expand), []⟩
  have hrel4 : PRel ρ e4
      ⟨[], [] ++ M.gammaAxioms.map fun a => .proved (ren ρ a.expand),
        (M.claimsOf.reverse.map fun a => ren ρ a.expand).reverse ++ []⟩ := by
    refine ⟨hinv4.phase, ?_, ?_, hinv4.memK, hinv4.clShape⟩
    · simp [hmem4, List.map_map, Function.comp_def, convR]
    · simp [hcl4, List.map_reverse]
  obtain ⟨hfin, P, isP, m3, hP, GP, hm3⟩ := proofsC ρ M.proofsOf e4 _ s calls _ hex hpfs
    hrel4 hag (by rw [hcl4]; exact hlen)
  have hcalls : calls = a1 ++ .intoClaim :: (C ++ .intoProof :: P) := by
    rw [hP]; simp [List.append_assoc]
  subst hcalls
  refine ⟨hfin, ?_, isG, isC, isP, ?_, ?_⟩
  · -- side conditions
    have sP : AllSideK n e4 P := GP.side
    have sIP : AllSideK n e3 (.intoProof :: P) :=
      ⟨Or.inl (Or.inr rfl), fun t ht => by rw [ht2] at ht; cases ht; exact sP⟩
    have sC : AllSideK n e2 (C ++ .intoProof :: P) := allSideK_append n C _ e2 e3 GC.side GC.reach sIP
    have sIC : AllSideK n e1 (.intoClaim :: (C ++ .intoProof :: P)) :=
      ⟨Or.inl (Or.inl rfl), fun t ht => by rw [ht1] at ht; cases ht; exact sC⟩
    exact allSideK_append n a1 _ _ e1 GG.side GG.reach sIC
  · -- the replay
    have h1 := GG.trackAll ([], [], [])
    rw [trackAll_append_eq a1 _ _ e1 _ _ h1, trackAll_cons_eq _ _ (is := []) rfl ht1, addOut_nil]
    have h2 := GC.trackAll (addOut (PySt.init M.claimsOf).phase ([], [], []) isG)
    rw [trackAll_append_eq C _ _ e3 _ _ h2, trackAll_cons_eq _ _ (is := []) rfl ht2, addOut_nil]
    rw [GP.trackAll]
    have hp4 : e4.phase = .proof := hinv4.phase
    rw [hp4, hph2]
    rfl
  · -- the machine accepts
    have r1 := GG.run
    have r2 := GC.run
    have r3 := GP.run
    rw [hph2] at r2
    rw [hinv4.phase] at r3
    have r1' : run .gamma ⟨[], [], []⟩ isG = some (⟨[], [] ++ M.gammaAxioms.map fun a =>
        .proved (ren ρ a.expand), []⟩, _) := r1
    simp only [verify, r1', r2, r3, hm3, Option.bind_eq_bind, Option.bind_some, List.isEmpty_nil, if_true,
      Option.pure_def]

end KMod
