import Pi2.KDefTieM2
/-!
# The refined state of a semantics under construction with k modules (current module last), one sentence on it (`stepM`),
its projection to the specification's state (`projM`)

Definitions shared by the text side (`Pi2/KDefTieM5.lean`: the generated loop body is `stepM`) and the specification side
(`Pi2/KDefTieM4.lean`: `addSentenceM (projM st) s = (stepM n st s).map projM`).
-/
set_option linter.unusedVariables false
set_option linter.unusedSimpArgs false
namespace KDefTieM2
open PyI PyM PyK Kore Gen.PyKDef KDefSpec KDefTie KDefTieM

/-- the finished modules, the module under construction (reference `done.length`), the one counter -/
structure RStM where
  done : List RMod
  cur : RMod
  nAxioms : Nat

def RStM.mods (st : RStM) : List RMod := st.done ++ [st.cur]

/-- the store during the construction -/
def heapM (st : RStM) : PyLS := heapL (some true) st.mods [st.nAxioms]

/-- the signature of all modules, in allocation order -/
def sgM (mods : List RMod) : Sig :=
  { sorts := mods.flatMap fun m => m.sorts.map (·.1), symbols := mods.flatMap fun m => m.symbols.map symDeclOf }

/-- the first module with this name, and its reference -/
def findMod : List RMod → Nat → Option (Nat × RMod)
  | [], _ => none
  | m :: ms, mn => if m.name == mn then some (0, m) else (findMod ms mn).map fun p => (p.1 + 1, p.2)

/-- what `module.get_sort(name)` returns on the module under construction (`none`: `ValueError`) -/
def visT (n : Nat) (st : RStM) (name : Nat) : Option PyKSortH :=
  (KModule.get_sort n (heapM st) st.done.length name).getD none

/-- `convert_ksort` -/
def sortRefM (vis : Nat → Option PyKSortH) (vm : KDict PyKSortVar) : KSort → Option PySortRef
  | .var x => (vm.lookup x).map .var
  | .app k => (vis k).map .sort

def addRuleM (st : RStM) (kind : RuleKind) (x : Scope × NPat) : RStM :=
  { st with cur := { st.cur with rules := st.cur.rules ++ [{ ordinal := st.nAxioms, kind := kind, pattern := x.2, scope := x.1 }] }, nAxioms := st.nAxioms + 1 }

/-- one sentence of the module under construction (`none`: the builder raises); `n` is the fuel of `from_kore_definition` -/
def stepM (n : Nat) (st : RStM) : KSentence → Option RStM
  | .«import» mn =>
      match findMod st.done mn with
      | none => none
      | some (j, mj) =>
          if st.cur.imports.contains j then none
          else some { st with cur := { st.cur with imports := st.cur.imports ++ [j], inames := st.cur.inames ++ [mn], cl := fromkeys ((st.cur.imports ++ [j]).flatMap fun i => i :: clAt st.done i), reach := st.cur.reach ++ mn :: mj.reach } }
  | .sortDecl nm hk =>
      if kHas (sortsDict (toR st.cur)) nm then none
      else some { st with cur := { st.cur with sorts := st.cur.sorts ++ [(nm, hk)] } }
  | .symbolDecl nm vars params srt attrs =>
      match mapOpt (sortRefM (visT n st) (varMap vars)) params with
      | none => none
      | some ins =>
        match sortRefM (visT n st) (varMap vars) srt with
        | none => none
        | some out =>
          if kHas (symbolsDict (toR st.cur)) nm then none
          else some { st with cur := { st.cur with symbols := st.cur.symbols ++ [⟨nm, vars.map fun v => ⟨sortName v⟩, out, ins,
                        (attrNames attrs).contains (strName "functional"), (attrNames attrs).contains (strName "constructor"),
                        (attrNames attrs).contains (strName "cell")⟩] } }
  | .«axiom» p =>
      if isRewriteRule p then (conv (sgM st.mods) {} (stripSideConditions p)).map (addRuleM st .rewrite)
      else if isEquationalRule p then (conv (sgM st.mods) {} p).map (addRuleM st .equational)
      else some { st with nAxioms := st.nAxioms + 1 }
  | .other => some st

def stepsM (n : Nat) : RStM → List KSentence → Option RStM
  | st, [] => some st
  | st, s :: ss => (stepM n st s).bind fun st' => stepsM n st' ss

/-! ## the projection to the specification's state -/

def projMod (m : RMod) : ModSem :=
  { name := m.name, imports := m.inames, reach := m.reach, sorts := m.sorts.map (·.1), symbols := m.symbols.map (·.name),
    ordinals := m.rules.map (·.ordinal) }

def projM (st : RStM) : DefSemM :=
  { all := { sg := sgM st.mods, rules := st.mods.flatMap (·.rules), nAxioms := st.nAxioms },
    done := st.done.map projMod, cur := projMod st.cur }

/-- different references have different names -/
def DistinctNames (mods : List RMod) : Prop :=
  ∀ (a b : Nat) (x y : RMod), mods[a]? = some x → mods[b]? = some y → x.name = y.name → a = b

/-- the ghost fields of a module against the modules before it: imports are earlier modules, `inames` their names, `cl` as `KModule.modules`
computes it, `reach` has the names of `cl` -/
def ModOK (before : List RMod) (m : RMod) : Prop :=
  (∀ j ∈ m.imports, j < before.length) ∧ m.inames = m.imports.map (nameAt before) ∧
  m.cl = fromkeys (m.imports.flatMap fun j => j :: clAt before j) ∧
  (∀ x, x ∈ m.reach ↔ ∃ j ∈ m.cl, nameAt before j = x)

/-- the invariant of the construction -/
structure InvM (st : RStM) : Prop where
  distinct : DistinctNames st.mods
  doneOK : ∀ (i : Nat) (m : RMod), st.done[i]? = some m → ModOK (st.done.take i) m
  curOK : ModOK st.done st.cur
  parsing : st.cur.parsing = some true
  wf : ∀ ru ∈ st.mods.flatMap (·.rules), ru.ordinal < st.nAxioms

end KDefTieM2
