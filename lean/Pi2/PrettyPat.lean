import Pi2.Pretty
import Pi2.Gen.Notations
/-!
# `Pattern.pretty(opts)` for patterns whose notation nodes are applications of shipped notations
(`napp idx args` = `Gen.notations[idx](*args)`), with `opts.notations` = the whole table.
-/

inductive PP where
  | evar (x : Nat) | svar (x : Nat) | sym (name : String)
  | imp (l r : PP) | app (l r : PP) | ex (x : Nat) (p : PP) | mu (x : Nat) (p : PP)
  | mv (id : Nat)
  | esub (p : PP) (x : Nat) (q : PP) | ssub (p : PP) (x : Nat) (q : PP)
  | napp (idx : Nat) (args : List PP)
deriving Repr, Inhabited

namespace PP

def pretty : PP → Option String
  | evar x => some s!"x{x}"
  | svar x => some s!"X{x}"
  | sym n => some n
  | imp l r => do pure s!"({← pretty l} -> {← pretty r})"
  | app l r => do pure s!"({← pretty l} · {← pretty r})"
  | ex x p => do pure s!"(∃ x{x} . {← pretty p})"
  | mu x p => do pure s!"(μ X{x} . {← pretty p})"
  | mv id => some s!"phi{id}"
  | esub p x q => do pure s!"{← pretty p}[{← pretty q}/x{x}]"
  | ssub p x q => do pure s!"{← pretty p}[{← pretty q}/X{x}]"
  | napp idx args => do
      let e ← Gen.notations[idx]?
      let segs ← Fmt.parseFmt e.format.toList
      let strs ← prettyList args
      let r ← Fmt.render segs (strs.map String.toList)
      pure (String.ofList r)
where
  prettyList : List PP → Option (List String)
    | [] => some []
    | a :: r => do pure ((← pretty a) :: (← prettyList r))

end PP
