import Pi2.Notation
/-!
# Matching (`match_single`, `match`, `Notation.matches`) and destructuring (`unwrap`, `deconstruct`)
of `pattern.py` (tree after the `fix:` commit F5), with fuel like the other notation operations.
-/
open Pat
namespace NPat

/-- repeated `simplify()` until the head is not a notation node (what `unwrap`/`deconstruct` do) -/
def headF : Nat → NPat → Option NPat
  | 0, _ => none
  | n + 1, inst p m => do let s ← instF n m p; headF n s
  | _ + 1, q => some q

abbrev Subst := List (Nat × NPat)

/-- `match_single(pattern, instance, extend)`; outer `Option` = fuel, inner = Python's `None` -/
def matchF : Nat → NPat → NPat → Subst → Option (Option Subst)
  | 0, _, _, _ => none
  | n + 1, pat, ins, ret => do
    let p ← headF n pat                      -- (F5) look through notation first
    match p with
    | mv id .. =>
      match Py.lookup ret id with
      | some v => do
          let eq ← peqF n v ins
          pure (if eq then some ret else none)
      | none => pure (some (ret ++ [(id, ins)]))
    | _ => do
      let i ← headF n ins
      match p, i with
      | imp pl pr, imp il ir => do
          match ← matchF n pl il ret with
          | none => pure none
          | some r1 => matchF n pr ir r1
      | evar x, evar y => pure (if x = y then some ret else none)
      | svar x, svar y => pure (if x = y then some ret else none)
      | sym x, sym y => pure (if x = y then some ret else none)
      | app pl pr, app il ir => do
          match ← matchF n pl il ret with
          | none => pure none
          | some r1 => matchF n pr ir r1
      | ex x pb, ex y ib => if x = y then matchF n pb ib ret else pure none
      | mu x pb, mu y ib => if x = y then matchF n pb ib ret else pure none
      | _, _ => pure none

/-- `match(equations)` -/
def matchListF (n : Nat) : List (NPat × NPat) → Subst → Option (Option Subst)
  | [], ret => some (some ret)
  | (p, i) :: r, ret => do
      match ← matchF n p i ret with
      | none => pure none
      | some s => matchListF n r s

/-- `Notation.matches(pattern)`: arguments 0..arity-1, unmatched ones are the metavariable itself -/
def notationMatchesF (n : Nat) (definition : NPat) (arity : Nat) (p : NPat) : Option (Option (List NPat)) := do
  match ← matchF n definition p [] with
  | none => pure none
  | some s => pure (some ((List.range arity).map fun i =>
      match Py.lookup s i with | some v => v | none => mv i [] [] [] [] []))

end NPat
