import Pi2.KDefTieM3
/-!
# The generated builder on a store of k modules: one sentence of the loop of `from_kore_definition` is `stepM`
-/
set_option linter.unusedVariables false
set_option linter.unusedSimpArgs false
namespace KDefTieM2
open PyI PyM PyK Kore Gen.PyKDef KDefSpec KDefTie KDefTieM

/-! ## the raw store: the current module is the last one -/

def rawL (pL : Option Bool) (pm : List PyKModule) (cache : KDict PyScope) (cs : List Nat) : PyLS :=
  { _parsing := pL, _imported_modules := List.range pm.length, _cached_axiom_scopes := cache, _inferred_notations := [],
    modules := pm, counters := cs }

theorem heapL_raw (pL mods cs) : heapL pL mods cs = rawL pL (mods.map modOfM) (scopesDict (mods.flatMap (·.rules))) cs := by
  simp [heapL, rawL]

theorem getMod_last {β} (pL pd x cache cs) (i : Nat) (hi : i = pd.length) (k : PyKModule → Py β) :
    getMod (rawL pL (pd ++ [x]) cache cs) i k = k x := by subst hi; simp [getMod, rawL]

theorem setMod_last (pL pd x cache cs) (i : Nat) (hi : i = pd.length) (y : PyKModule) :
    setMod (rawL pL (pd ++ [x]) cache cs) i y = rawL pL (pd ++ [y]) cache cs := by subst hi; simp [setMod, rawL]

theorem _sort_rawL (pL pd x cache cs) (i : Nat) (hi : i = pd.length) (nm : Nat) (hk : Bool) :
    KModule._sort (rawL pL (pd ++ [x]) cache cs) i nm hk
      = if kHas x._sorts nm then raise
        else ret (rawL pL (pd ++ [{ x with _sorts := kSet x._sorts nm ⟨nm, hk⟩ }]) cache cs, ⟨nm, hk⟩) := by
  unfold KModule._sort
  simp only [getMod_last _ _ _ _ _ i hi, setMod_last _ _ _ _ _ i hi]
  by_cases hh : kHas x._sorts nm = true
  · rw [if_pos hh, if_pos hh]
  · rw [if_neg hh, if_neg hh]
    simp only [kGet, KoreTie.lookup_kSet]

theorem sort_rawL {β} (pL pd x cache cs) (i : Nat) (hi : i = pd.length) (hp : x._parsing = some true) (nm : Nat) (hk : Bool)
    (cont : PyLS → Py β) :
    (if (true && hk) = true then call (KModule.hooked_sort (rawL pL (pd ++ [x]) cache cs) i nm) fun (h, _) => cont h
     else call (KModule.sort (rawL pL (pd ++ [x]) cache cs) i nm) fun (h, _) => cont h)
      = if kHas x._sorts nm then raise
        else cont (rawL pL (pd ++ [{ x with _sorts := kSet x._sorts nm ⟨nm, hk⟩ }]) cache cs) := by
  unfold KModule.hooked_sort KModule.sort
  simp only [getMod_last _ _ _ _ _ i hi, hp, builder_true, _sort_rawL _ _ _ _ _ i hi]
  cases hk <;> by_cases hh : kHas x._sorts nm = true <;> simp [hh, call, ret, raise]

theorem import_rawL (pL pd x cache cs) (i : Nat) (hi : i = pd.length) (hp : x._parsing = some true) (j : Nat) :
    KModule.import_module (rawL pL (pd ++ [x]) cache cs) i j
      = if x._imported_modules.contains j then raise
        else ret (rawL pL (pd ++ [{ x with _imported_modules := x._imported_modules ++ [j] }]) cache cs) := by
  unfold KModule.import_module
  simp only [getMod_last _ _ _ _ _ i hi, setMod_last _ _ _ _ _ i hi, hp, builder_true]

theorem rewrite_rule_rawL (pL pd x cache cnt) (i : Nat) (hi : i = pd.length) (hp : x._parsing = some true) (hc : x.counter = 0)
    (pat : NPat) :
    KModule.rewrite_rule (rawL pL (pd ++ [x]) cache [cnt]) i pat
      = ret (rawL pL (pd ++ [{ x with _axioms := kSet x._axioms cnt (.rewriting ⟨cnt, pat⟩) }]) cache [cnt + 1], ⟨cnt, pat⟩) := by
  subst hi
  obtain ⟨a1, a2, a3, a4, a5, a6, a7⟩ := x
  simp only at hp hc; subst hp; subst hc
  simp [KModule.rewrite_rule, getMod, rawL, builder_method, attrGet, nextCounter, setMod, ret]

theorem equational_rule_rawL (pL pd x cache cnt) (i : Nat) (hi : i = pd.length) (hp : x._parsing = some true) (hc : x.counter = 0)
    (pat : NPat) :
    KModule.equational_rule (rawL pL (pd ++ [x]) cache [cnt]) i pat
      = ret (rawL pL (pd ++ [{ x with _axioms := kSet x._axioms cnt (.equational ⟨cnt, pat⟩) }]) cache [cnt + 1], ⟨cnt, pat⟩) := by
  subst hi
  obtain ⟨a1, a2, a3, a4, a5, a6, a7⟩ := x
  simp only at hp hc; subst hp; subst hc
  simp [KModule.equational_rule, getMod, rawL, builder_method, attrGet, nextCounter, setMod, ret]

theorem next_counter_rawL {β} (pL pm cache cnt) (k : PyLS × Nat → Py β) :
    nextCounter (rawL pL pm cache [cnt]) 0 k = k (rawL pL pm cache [cnt + 1], cnt) := rfl

theorem symbol_rawL (n : Nat) (pL pd x cache cs) (i : Nat) (hi : i = pd.length) (hp : x._parsing = some true)
    (nm : Nat) (out : PySortRef) (sp : List PyKSortVar) (ins : List PySortRef) (f c cl : Bool)
    (hout : ∀ b, out = .sort b → KModule.get_sort n (rawL pL (pd ++ [x]) cache cs) i b.name = ret b)
    (hins : ∀ b, PySortRef.sort b ∈ ins → KModule.get_sort n (rawL pL (pd ++ [x]) cache cs) i b.name = ret b) :
    KModule.symbol n (rawL pL (pd ++ [x]) cache cs) i nm out sp ins f c cl
      = if kHas x._symbols nm then raise
        else ret (rawL pL (pd ++ [{ x with _symbols := kSet x._symbols nm ⟨nm, sp, out, ins, f, c, cl⟩ }]) cache cs,
                  ⟨nm, sp, out, ins, f, c, cl⟩) := by
  have key := fun body k hb => forEach_unit (β := PyLS × PyKSymbol) ins body k hb
  unfold KModule.symbol
  simp only [getMod_last _ _ _ _ _ i hi, hp, builder_true]
  by_cases hh : kHas x._symbols nm = true
  · rw [if_pos hh, if_pos hh]
  · rw [if_neg hh, if_neg hh]
    cases out with
    | var v =>
      dsimp only; rw [key]
      · simp only [setMod_last _ _ _ _ _ i hi]
      · intro y hy cont
        cases y with
        | var v => rfl
        | sort b => simp [hins b hy, call, assert_, ret]
    | sort b =>
      dsimp only
      rw [key]
      · rw [hout b rfl]
        simp only [call, assert_, beq_self_eq_true, if_true, ret, setMod_last _ _ _ _ _ i hi]
      · intro y hy cont
        cases y with
        | var v => rfl
        | sort b => simp [hins b hy, call, assert_, ret]

/-! ## the body of the loop over the sentences (copied from the generated `from_kore_definition`; `from_kore_definition_loop` below: it IS the
generated body, by `rfl`) -/
def sentenceBody (so : SetOrder) (n : Nat) (v_module : Nat) : KSentence → PyLS → (PyLS → Py PyLS) → Py PyLS :=
  fun v_sentence h continue_ =>
  -- if isinstance(sentence, kore.Import): …
  match v_sentence with
  | .«import» b_module_name => (
    -- module.import_module(semantics.get_module(sentence.module_name))
    call (LanguageSemantics.get_module so n h b_module_name) fun t26 =>
    call (KModule.import_module h v_module t26) fun h =>
    continue_ h)
  | _ =>
  -- if isinstance(sentence, kore.SortDecl): …
  match v_sentence with
  | .sortDecl b_name b_hooked => (
    -- if hasattr(sentence, 'hooked') and sentence.hooked: …
    if (true && b_hooked) then (
      -- module.hooked_sort(sentence.name)
      call (KModule.hooked_sort h v_module b_name) fun (h, t24) =>
      continue_ h) else
    -- module.sort(sentence.name)
    call (KModule.sort h v_module b_name) fun (h, t25) =>
    continue_ h)
  | _ =>
  -- if isinstance(sentence, kore.SymbolDecl): …
  match v_sentence with
  | .symbolDecl b_symbol_name b_symbol_vars b_param_sorts b_sort b_attrs => (
    -- def convert_ksort(name_to_sortvar: dict[str, KSortVar], ksort: kore.Sort): …      (lambda-lifted: `LanguageSemantics.from_kore_definition.convert_ksort`)
    -- ksort_params = tuple((KSortVar(v.name) for v in sentence.symbol.vars))
    let v_ksort_params : List PyKSortVar := (b_symbol_vars.map fun v_v => (PyKSortVar.mk (sortName v_v)))
    -- ksort_var_map = {v.name: v for v in ksort_params}
    let v_ksort_var_map : KDict PyKSortVar := (kDictOf (v_ksort_params.map fun v_v => (v_v.name, v_v)))
    -- symbol = sentence.symbol.name
    let v_symbol : Nat := b_symbol_name
    -- input_sorts: tuple[KSort | KSortVar, ...] = tuple((convert_ksort(ksort_var_map, ksort) for ksort in sentence.param_sorts))
    mapPy b_param_sorts (
      fun v_ksort =>
      call (LanguageSemantics.from_kore_definition.convert_ksort n h v_module v_ksort_var_map v_ksort) fun t20 =>
      ret t20) fun t21 =>
    let v_input_sorts : List PySortRef := t21
    -- output_sort: KSort | KSortVar = convert_ksort(ksort_var_map, sentence.sort)
    call (LanguageSemantics.from_kore_definition.convert_ksort n h v_module v_ksort_var_map b_sort) fun t22 =>
    let v_output_sort : PySortRef := t22
    -- attrs = [attr.symbol for attr in sentence.attrs if isinstance(attr, kore.App)]
    let v_attrs : List Nat := (b_attrs.filterMap LanguageSemantics.from_kore_definition.comp1)
    -- module.symbol(symbol, output_sort, sort_params=ksort_params, input_sorts=input_sorts, is_functional='functional' in attrs, is_ctor='constructor' in attrs, is_cell='cell' in attrs)
    call (KModule.symbol n h v_module v_symbol v_output_sort v_ksort_params v_input_sorts (v_attrs.contains (strName "functional")) (v_attrs.contains (strName "constructor")) (v_attrs.contains (strName "cell"))) fun (h, t23) =>
    continue_ h)
  | _ =>
  -- if isinstance(sentence, kore.Axiom): …
  match v_sentence with
  | .«axiom» b_pattern => (
    -- if semantics.is_rewrite_rule(sentence.pattern): …
    call (LanguageSemantics.is_rewrite_rule b_pattern) fun t3 =>
    if t3 then (
      -- pattern = sentence.pattern
      let v_pattern : KTerm := b_pattern
      -- assert isinstance(pattern, kore.Rewrites)
      assert_ (isK v_pattern .Rewrites) <|
      -- assert isinstance(pattern.left, kore.And)
      kattr (kattr_left v_pattern) fun t4 =>
      assert_ (isK t4 .And) <|
      -- assert isinstance(pattern.right, kore.And)
      kattr (kattr_right v_pattern) fun t5 =>
      assert_ (isK t5 .And) <|
      -- preprocessed_pattern = kore.Rewrites(pattern.sort, pattern.left.ops[0], pattern.right.ops[0])
      kattr (kattr_sort v_pattern) fun t6 =>
      kattr (kattr_left v_pattern) fun t7 =>
      kattr (kattr_ops t7) fun t8 =>
      listIndex t8 0 fun t9 =>
      kattr (kattr_right v_pattern) fun t10 =>
      kattr (kattr_ops t10) fun t11 =>
      listIndex t11 0 fun t12 =>
      let v_preprocessed_pattern : KTerm := (KTerm.rewrites t6 t9 t12)
      -- scope = ConvertionScope()
      let v_scope : PyScope := Gen.PyKore.ConvertionScope.__init__
      -- parsed_pattern = semantics._convert_pattern(scope, preprocessed_pattern)
      call (Gen.PyKore.LanguageSemantics._convert_pattern (semView h) v_scope v_preprocessed_pattern) fun (v_scope, t13) =>
      let v_parsed_pattern : NPat := t13
      -- rw_axiom = module.rewrite_rule(parsed_pattern)
      call (KModule.rewrite_rule h v_module v_parsed_pattern) fun (h, t14) =>
      let v_rw_axiom : PyRule := t14
      -- semantics._cached_axiom_scopes[rw_axiom.ordinal] = scope
      let h : PyLS := { h with _cached_axiom_scopes := kSet h._cached_axiom_scopes v_rw_axiom.ordinal v_scope }
      continue_ h) else
    -- if semantics.is_equational_rule(sentence.pattern): …
    call (LanguageSemantics.is_equational_rule b_pattern) fun t15 =>
    if t15 then (
      -- pattern = sentence.pattern
      let v_pattern : KTerm := b_pattern
      -- scope = ConvertionScope()
      let v_scope : PyScope := Gen.PyKore.ConvertionScope.__init__
      -- parsed_pattern = semantics._convert_pattern(scope, pattern)
      call (Gen.PyKore.LanguageSemantics._convert_pattern (semView h) v_scope v_pattern) fun (v_scope, t16) =>
      let v_parsed_pattern : NPat := t16
      -- eq_axiom = module.equational_rule(parsed_pattern)
      call (KModule.equational_rule h v_module v_parsed_pattern) fun (h, t17) =>
      let v_eq_axiom : PyRule := t17
      -- semantics._cached_axiom_scopes[eq_axiom.ordinal] = scope
      let h : PyLS := { h with _cached_axiom_scopes := kSet h._cached_axiom_scopes v_eq_axiom.ordinal v_scope }
      continue_ h) else
    -- next(module.counter)
    getMod h v_module fun t18 =>
    nextCounter h t18.counter fun (h, t19) =>
    continue_ h)
  | _ =>
  continue_ h

/-! ## consequences of the invariant -/

theorem flatMap_congrN {l : List Nat} {f g : Nat → List Nat} (h : ∀ x ∈ l, f x = g x) : l.flatMap f = l.flatMap g := by
  induction l with
  | nil => rfl
  | cons a l ih =>
    simp only [List.flatMap_cons]
    rw [h a (List.mem_cons_self ..), ih fun x hx => h x (List.mem_cons_of_mem _ hx)]

theorem clAt_takeN {l : List RMod} {i j : Nat} (h : j < i) : clAt (l.take i) j = clAt l j := by
  simp [clAt, List.getElem?_take, h]
theorem clAt_appendN {l : List RMod} {x : RMod} {j : Nat} (h : j < l.length) : clAt (l ++ [x]) j = clAt l j := by
  simp [clAt, List.getElem?_append_left h]

theorem mods_cur (st : RStM) : st.mods[st.done.length]? = some st.cur := by simp [RStM.mods]
theorem mods_len (st : RStM) : st.mods.length = st.done.length + 1 := by simp [RStM.mods]

theorem closed_of_inv {st : RStM} (hinv : InvM st) : Closed st.mods := by
  intro i m hm
  simp only [RStM.mods] at hm
  rcases Nat.lt_trichotomy i st.done.length with h | h | h
  · rw [List.getElem?_append_left h] at hm
    obtain ⟨h1, _, h3, _⟩ := hinv.doneOK i m hm
    have hl : (st.done.take i).length = i := by simp; omega
    rw [hl] at h1
    refine ⟨h1, ?_⟩
    rw [h3]; congr 1
    apply flatMap_congrN
    intro j hj
    have := h1 j hj
    rw [clAt_takeN this, RStM.mods, clAt_appendN (by omega)]
  · subst h
    simp at hm; subst hm
    obtain ⟨h1, _, h3, _⟩ := hinv.curOK
    refine ⟨h1, ?_⟩
    rw [h3]; congr 1
    apply flatMap_congrN
    intro j hj
    rw [RStM.mods, clAt_appendN (h1 j hj)]
  · rw [List.getElem?_eq_none (by simp; omega)] at hm; cases hm

theorem get_sort_vis {st : RStM} (hinv : InvM st) {n : Nat} (hn : st.mods.length + 1 ≤ n) (k : Nat) :
    KModule.get_sort n (heapM st) st.done.length k = some (visT n st k) := by
  obtain ⟨r, hr, _⟩ := get_sort_char (some true) [st.nAxioms] (closed_of_inv hinv) k n st.done.length st.cur
    (by rw [mods_len] at hn; omega) (mods_cur st)
  unfold visT heapM; rw [hr]; rfl

theorem vis_found {st : RStM} (hinv : InvM st) {n : Nat} (hn : st.mods.length + 1 ≤ n) (k : Nat) :
    Found (ownSort k) st.mods (st.done.length :: st.cur.cl) (visT n st k) := by
  obtain ⟨r, hr, hf⟩ := get_sort_char (some true) [st.nAxioms] (closed_of_inv hinv) k n st.done.length st.cur
    (by rw [mods_len] at hn; omega) (mods_cur st)
  have : visT n st k = r := by unfold visT heapM; rw [hr]; rfl
  rw [this]; exact hf

theorem vis_name {st : RStM} (hinv : InvM st) {n : Nat} (hn : st.mods.length + 1 ≤ n) {k : Nat} {b : PyKSortH}
    (h : visT n st k = some b) : b.name = k := by
  obtain ⟨j, _, mj, _, hown⟩ := (vis_found hinv hn k).1 b h
  exact sortsDict_key (toR mj) k b hown

theorem convert_ksort_M {st : RStM} (hinv : InvM st) {n : Nat} (hn : st.mods.length + 1 ≤ n) (vm : KDict PyKSortVar) (s : KSort) :
    LanguageSemantics.from_kore_definition.convert_ksort n (heapM st) st.done.length vm s = some (sortRefM (visT n st) vm s) := by
  cases s with
  | var x =>
    simp only [LanguageSemantics.from_kore_definition.convert_ksort, sortRefM, kGet]
    cases vm.lookup x <;> rfl
  | app k =>
    simp only [LanguageSemantics.from_kore_definition.convert_ksort, sortRefM, get_sort_vis hinv hn]
    cases visT n st k <;> rfl

theorem findMod_some' {ms : List RMod} {mn j : Nat} {m : RMod} (h : findMod ms mn = some (j, m)) : ms[j]? = some m ∧ m.name = mn := by
  induction ms generalizing j with
  | nil => simp [findMod] at h
  | cons a l ih =>
    simp only [findMod] at h
    by_cases ha : (a.name == mn) = true
    · simp only [ha, if_true, Option.some.injEq, Prod.mk.injEq] at h
      obtain ⟨rfl, rfl⟩ := h
      exact ⟨rfl, by simpa using ha⟩
    · simp only [ha, Bool.false_eq_true, if_false] at h
      cases hf : findMod l mn with
      | none => simp [hf] at h
      | some p =>
        obtain ⟨j', m'⟩ := p
        simp only [hf, Option.map_some, Option.some.injEq, Prod.mk.injEq] at h
        obtain ⟨rfl, rfl⟩ := h
        exact ih hf

theorem findMod_none' {ms : List RMod} {mn : Nat} (h : findMod ms mn = none) : ∀ m ∈ ms, m.name ≠ mn := by
  induction ms with
  | nil => simp
  | cons a l ih =>
    simp only [findMod] at h
    by_cases ha : (a.name == mn) = true
    · simp [ha] at h
    · simp only [ha, Bool.false_eq_true, if_false, Option.map_eq_none_iff] at h
      intro m hm
      simp only [List.mem_cons] at hm
      rcases hm with rfl | hm
      · simpa using ha
      · exact ih h m hm

theorem get_module_eq (so : SetOrder) (hso : so.Valid) {st : RStM} (hinv : InvM st) {n : Nat} (hn : st.mods.length + 1 ≤ n) (mn : Nat)
    (hne : mn ≠ st.cur.name) :
    LanguageSemantics.get_module so n (heapM st) mn = some ((findMod st.done mn).map (·.1)) := by
  obtain ⟨r, hr, h1, h2⟩ := get_module_char so hso (some true) [st.nAxioms] (closed_of_inv hinv) n (by omega) mn
  unfold heapM; rw [hr]; congr 1
  cases r with
  | none =>
    cases hf : findMod st.done mn with
    | none => rfl
    | some p =>
      obtain ⟨j, m⟩ := p
      obtain ⟨hj, hm⟩ := findMod_some' hf
      exact absurd hm (h2 rfl j m (by rw [RStM.mods, List.getElem?_append_left (idx_lt hj)]; exact hj))
  | some j =>
    obtain ⟨mj, hmj, hname⟩ := h1 j rfl
    have hjl : j < st.done.length := by
      have := idx_lt hmj
      rw [mods_len] at this
      rcases Nat.lt_or_ge j st.done.length with h | h
      · exact h
      · have : j = st.done.length := by omega
        subst this
        rw [mods_cur] at hmj; cases hmj
        exact absurd hname.symm hne
    have hmj' : st.done[j]? = some mj := by rw [RStM.mods, List.getElem?_append_left hjl] at hmj; exact hmj
    cases hf : findMod st.done mn with
    | none => exact absurd hname (findMod_none' hf mj (List.mem_of_getElem? hmj'))
    | some p =>
      obtain ⟨j', m'⟩ := p
      obtain ⟨hj', hm'⟩ := findMod_some' hf
      have : j' = j := hinv.distinct j' j m' mj
        (by rw [RStM.mods, List.getElem?_append_left (idx_lt hj')]; exact hj') hmj (by rw [hm', hname])
      subst this; rfl

theorem heapM_raw (st : RStM) :
    heapM st = rawL (some true) (st.done.map modOfM ++ [modOfM st.cur]) (scopesDict (st.mods.flatMap (·.rules))) [st.nAxioms] := by
  simp [heapM, heapL_raw, RStM.mods]

/-! ## one sentence -/

theorem sigView_heapM (st : RStM) : sigView (heapM st) = sgM st.mods := by
  simp [sigView, heapM, heapL, sgM, modOfM, toR, sortsDict, symbolsDict, List.flatMap_map, List.map_map, Function.comp_def]

theorem convert_freshM (st : RStM) (t : KTerm) :
    Gen.PyKore.LanguageSemantics._convert_pattern (semView (heapM st)) Gen.PyKore.ConvertionScope.__init__ t
      = KoreTie.lift Gen.PyKore.ConvertionScope.__init__ (conv (sgM st.mods) {} t) := by
  have := KoreTie.convert_pattern_rec_eq (semView (heapM st)) Gen.PyKore.ConvertionScope.__init__ {} t
  rw [← KoreTie.init_scope] at this
  rw [this]; simp only [semView, sigView_heapM]

theorem sortRefM_sort {st : RStM} (hinv : InvM st) {n : Nat} (hn : st.mods.length + 1 ≤ n) {vm s b}
    (h : sortRefM (visT n st) vm s = some (.sort b)) : visT n st b.name = some b := by
  cases s with
  | var x => simp only [sortRefM] at h; cases vm.lookup x <;> simp at h
  | app k =>
    simp only [sortRefM] at h
    cases hl : visT n st k with
    | none => simp [hl] at h
    | some v => simp [hl] at h; subst h; rw [vis_name hinv hn hl]; exact hl

theorem reshape_sort (st : RStM) (nm : Nat) (hk : Bool) (hh : ¬ kHas (sortsDict (toR st.cur)) nm = true) :
    rawL (some true) (st.done.map modOfM ++ [{ modOfM st.cur with _sorts := kSet (modOfM st.cur)._sorts nm ⟨nm, hk⟩ }])
        (scopesDict (st.mods.flatMap (·.rules))) [st.nAxioms]
      = heapM { st with cur := { st.cur with sorts := st.cur.sorts ++ [(nm, hk)] } } := by
  rw [heapM_raw]
  show rawL _ (_ ++ [{ modOfM st.cur with _sorts := kSet (sortsDict (toR st.cur)) nm ⟨nm, hk⟩ }]) _ _ = _
  rw [KoreTie.kSet_new _ _ _ (kHas_false hh)]
  simp [RStM.mods, modOfM, toR, sortsDict, symbolsDict, List.flatMap_append]

theorem reshape_symbol (st : RStM) (sym : PyKSymbol) (hh : ¬ kHas (symbolsDict (toR st.cur)) sym.name = true) :
    rawL (some true) (st.done.map modOfM ++ [{ modOfM st.cur with _symbols := kSet (modOfM st.cur)._symbols sym.name sym }])
        (scopesDict (st.mods.flatMap (·.rules))) [st.nAxioms]
      = heapM { st with cur := { st.cur with symbols := st.cur.symbols ++ [sym] } } := by
  rw [heapM_raw]
  show rawL _ (_ ++ [{ modOfM st.cur with _symbols := kSet (symbolsDict (toR st.cur)) sym.name sym }]) _ _ = _
  rw [KoreTie.kSet_new _ _ _ (kHas_false hh)]
  simp [RStM.mods, modOfM, toR, sortsDict, symbolsDict, List.flatMap_append]

theorem find_freshM {rules : List Rule} {c : Nat} (hw : ∀ ru ∈ rules, ru.ordinal < c) : rules.find? (·.ordinal == c) = none := by
  rw [List.find?_eq_none]
  intro ru hru
  have := hw ru hru
  simp; omega

theorem reshape_rule (st : RStM) (hinv : InvM st) (kind : RuleKind) (x : Scope × NPat) :
    rawL (some true) (st.done.map modOfM ++ [{ modOfM st.cur with
          _axioms := kSet (modOfM st.cur)._axioms st.nAxioms (axiomOf ⟨st.nAxioms, kind, x.2, x.1⟩) }])
        (kSet (scopesDict (st.mods.flatMap (·.rules))) st.nAxioms (scopeObj x.1)) [st.nAxioms + 1]
      = heapM (addRuleM st kind x) := by
  have hw2 : ∀ ru ∈ st.cur.rules, ru.ordinal < st.nAxioms := by
    intro ru hru; apply hinv.wf; simp [RStM.mods, List.flatMap_append, hru]
  have h1 : (axiomsDict st.cur.rules).lookup st.nAxioms = none := by rw [axioms_lookup, find_freshM hw2]; rfl
  have h2 : (scopesDict (st.mods.flatMap (·.rules))).lookup st.nAxioms = none := by rw [scopes_lookup, find_freshM hinv.wf]; rfl
  rw [heapM_raw]
  simp only [show (modOfM st.cur)._axioms = axiomsDict st.cur.rules from rfl]
  rw [KoreTie.kSet_new _ _ _ h1, KoreTie.kSet_new _ _ _ h2]
  simp [RStM.mods, modOfM, toR, addRuleM, sortsDict, symbolsDict, axiomsDict, scopesDict, List.flatMap_append]

/-- the body of the generated loop over the sentences does what `stepM` does -/
theorem sentence_stepM (so : SetOrder) (hso : so.Valid) {st : RStM} (hinv : InvM st) {n : Nat} (hn : st.mods.length + 1 ≤ n)
    (s : KSentence) (hns : NotSelfImport st.cur.name s) (cont : PyLS → Py PyLS) :
    sentenceBody so n st.done.length s (heapM st) cont
      = match stepM n st s with
        | none => some none
        | some st' => cont (heapM st') := by
  have hi : st.done.length = (st.done.map modOfM).length := by simp
  have hp : (modOfM st.cur)._parsing = some true := hinv.parsing
  cases s with
  | other => rfl
  | «import» mn =>
    have hne : mn ≠ st.cur.name := hns
    simp only [sentenceBody, stepM]
    rw [get_module_eq so hso hinv hn mn hne]
    cases hf : findMod st.done mn with
    | none => rfl
    | some p =>
      obtain ⟨j, mj⟩ := p
      simp only [Option.map_some, call_some]
      rw [heapM_raw, import_rawL _ _ _ _ _ _ hi hp]
      simp only [show (modOfM st.cur)._imported_modules = st.cur.imports from rfl]
      by_cases hc : st.cur.imports.contains j = true
      · simp only [hc, if_true]; rfl
      · simp only [hc, Bool.false_eq_true, if_false, KoreTie.call_ret_val]
        congr 1
        rw [heapM_raw]; simp [RStM.mods, modOfM, toR, List.flatMap_append]
  | sortDecl nm hk =>
    simp only [sentenceBody, stepM]
    rw [heapM_raw, sort_rawL _ _ _ _ _ _ hi hp]
    show (if kHas (sortsDict (toR st.cur)) nm = true then _ else _) = _
    by_cases hh : kHas (sortsDict (toR st.cur)) nm = true
    · simp only [hh, if_true]; rfl
    · simp only [hh, Bool.false_eq_true, if_false]
      rw [reshape_sort st nm hk hh]
  | symbolDecl nm vars params srt attrs =>
    simp only [sentenceBody]
    have hv : kDictOf (List.map (fun v_v => (v_v.name, v_v)) (List.map (fun v_v => ({ name := sortName v_v } : PyKSortVar)) vars))
        = varMap vars := rfl
    rw [hv]
    rw [mapPy_total _ _ (sortRefM (visT n st) (varMap vars))
      (by intro x; rw [convert_ksort_M hinv hn]; cases sortRefM (visT n st) (varMap vars) x <;> rfl)]
    cases hm : mapOpt (sortRefM (visT n st) (varMap vars)) params with
    | none => simp only [stepM, hm]
    | some ins =>
      dsimp only
      rw [convert_ksort_M hinv hn]
      cases ho : sortRefM (visT n st) (varMap vars) srt with
      | none => simp only [stepM, hm, ho]; rfl
      | some out =>
        rw [call_some]
        have hout : ∀ b, out = .sort b → KModule.get_sort n (heapM st) st.done.length b.name = ret b := by
          intro b hb; subst hb; rw [get_sort_vis hinv hn, sortRefM_sort hinv hn ho]; rfl
        have hins : ∀ b, PySortRef.sort b ∈ ins → KModule.get_sort n (heapM st) st.done.length b.name = ret b := by
          intro b hb
          obtain ⟨x, _, hx⟩ := mapOpt_mem hm _ hb
          rw [get_sort_vis hinv hn, sortRefM_sort hinv hn hx]; rfl
        rw [heapM_raw] at hout hins ⊢
        rw [symbol_rawL n _ _ _ _ _ _ hi hp _ _ _ _ _ _ _ hout hins]
        simp only [show (modOfM st.cur)._symbols = symbolsDict (toR st.cur) from rfl]
        by_cases hh : kHas (symbolsDict (toR st.cur)) nm = true
        · simp only [stepM, hm, ho, hh, if_true]; rfl
        · simp only [stepM, hm, ho, hh, Bool.false_eq_true, if_false]
          rw [KoreTie.call_ret_val]
          exact congrArg cont (reshape_symbol st ⟨nm, _, out, ins, _, _, _⟩ hh)
  | «axiom» p =>
    simp only [sentenceBody]
    rw [is_rewrite_rule_eq, KoreTie.call_ret_val]
    by_cases hrw : isRewriteRule p = true
    · obtain ⟨s, s1, l, l2, s2, rr, r2, rfl⟩ := rewrite_shape hrw
      rw [if_pos hrw]
      show call (Gen.PyKore.LanguageSemantics._convert_pattern _ _ (KTerm.rewrites s l rr)) _ = _
      rw [convert_freshM, KoreTie.call_lift]
      simp only [stepM, hrw, if_true, stripSideConditions]
      cases hc : conv (sgM st.mods) {} (KTerm.rewrites s l rr) with
      | none => rfl
      | some x =>
        dsimp only [Option.map_some]
        rw [heapM_raw, rewrite_rule_rawL _ _ _ _ _ _ hi hp rfl, KoreTie.call_ret_val]
        exact congrArg cont (reshape_rule st hinv .rewrite x)
    · rw [if_neg hrw, is_equational_rule_eq, KoreTie.call_ret_val]
      by_cases heq : isEquationalRule p = true
      · rw [if_pos heq, convert_freshM, KoreTie.call_lift]
        simp only [stepM, hrw, heq, if_true, Bool.false_eq_true, if_false]
        cases hc : conv (sgM st.mods) {} p with
        | none => rfl
        | some x =>
          dsimp only [Option.map_some]
          rw [heapM_raw, equational_rule_rawL _ _ _ _ _ _ hi hp rfl, KoreTie.call_ret_val]
          exact congrArg cont (reshape_rule st hinv .equational x)
      · rw [if_neg heq]
        simp only [stepM, hrw, heq, Bool.false_eq_true, if_false]
        rw [heapM_raw, getMod_last _ _ _ _ _ _ hi]
        show nextCounter (rawL _ _ _ [st.nAxioms]) 0 _ = _
        rw [next_counter_rawL]
        congr 1
        rw [heapM_raw]; rfl

#print axioms sentence_stepM
end KDefTieM2
