import Pi2.Tracker
import Pi2.Codec
/-!
# `deserialize_instructions` (`deserialize.py`, tree after fix F8): bytes → interpreter calls

The deserialiser decodes one instruction and calls the interpreter method with arguments read off the
interpreter's own stack/memory.  `callOfInstr` is that dispatch; `deserialize` runs a byte string of
one phase against a tracker state.
-/
open Pat

namespace PySt

/-- the call the deserialiser makes for one decoded instruction (`none` = it raises) -/
def callOfInstr (s : PySt) : Instr → Option Call
  | .evar x => some (.evar x)
  | .svar x => some (.svar x)
  | .sym i => some (.symbol i)                       -- `interpreter.symbol(str(id))`: symbols are renumbered
  | .implies => some .implies
  | .app => some .app
  | .ex x => some (.ex x)
  | .mu x => some (.mu x)
  | .esubst x => some (.esubst x)
  | .ssubst x => some (.ssubst x)
  | .metavar id ef sf ps ns hs => some (.metavar id ef sf ps ns hs)
  | .cleanmv id => some (.metavar id [] [] [] [] [])
  | .prop1 => some .prop1 | .prop2 => some .prop2 | .prop3 => some .prop3
  | .quantifier => some .quantifier
  | .mp => some .mp
  | .gen x => some (.gen x)
  | .instantiate ids =>
      -- keys on the wire are `reversed(delta.keys())`; the target's kind selects the method
      match s.stack with
      | (.proved _, _) :: _ => some (.instantiate ids.reverse)
      | (.pat _, _) :: _ => some (.instantiatePattern ids.reverse)
      | [] => none
  | .pop => some .pop
  | .save => some .save
  | .load i => (s.memory[i]?).map .load
  | .publish => match s.phase with
      | .gamma => some .publishAxiom
      | .claim => some .publishClaim
      | .proof => some .publishProof
  | .existence => none                                 -- no case in the deserialiser: NotImplementedError
  | .subst _ => none

/-- replay decoded instructions on the tracker -/
def replay (n : Nat) : PySt → List Instr → Option (Option PySt)
  | s, [] => some (some s)
  | s, i :: is =>
      match callOfInstr s i with
      | none => some none
      | some c => do
          match ← track1 n s c with
          | none => pure none
          | some s' => replay n s' is

/-- `deserialize_instructions(data, interpreter)` for one phase: decode error = exception -/
def deserialize (n : Nat) (s : PySt) (bs : List Nat) : Option (Option PySt) :=
  match decode bs with
  | none => some none
  | some is => replay n s is

end PySt
