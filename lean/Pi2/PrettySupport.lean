import Pi2.MatchSupport
import Pi2.Gen.PyMatch
import Pi2.Proof
import Pi2.Pretty
/-!
# Support for the translated pretty printer (`Pi2/Gen/PyPretty.lean`)

The target language of `vlib/transpretty.py`.  Part (a): the `pretty` / `__str__` methods of the eleven
pattern classes, `Notation.print_instantiation` and the dataclass `PrettyOptions` (`pattern.py`) are
translated statement by statement into the continuation-passing combinators of `Pi2/InterpSupport.lean`
(`Py α = Option (Option α)`: outer `none` = out of fuel / `RecursionError`, inner `none` = an exception;
`ret`, `raise`, `call`, `fuel`, `assert_`) and the ones below.  Part (b): the decorated methods of
`PrettyPrintingInterpreter` become lists of the strings they hand to `self.out.write`, the decorator's
wrapper a list of events (`Ev`).

Representation of the Python objects: a pattern is an `NPat` (as everywhere in the model); a `Symbol`'s
`name: str` is the number the harness' symbol table gives it, and `σ : Nat → String` (a parameter of every
generated function) gives the text back.  `EVar` / `SVar` objects in the `var` field of a substitution are
their ids; an `Instantiate` object passed as an argument is the pair of its two fields.

**Library code that stays hand-written** (none of it is part of the system under verification; it is
CPython): `str.format(*args)` is `Fmt.parseFmt` / `Fmt.render` of `Pi2/Pretty.lean` (the subset `{N}`, `{{`,
`}}`; anything else is `none`, which the translation reads as "raises"); `str(int)` is `toString`;
`str(dict)` / `repr(str)` are `strDict` / `reprStr` (exact for ASCII text; non-ASCII characters are taken to
be printable, which holds for every symbol the shipped notations use); `', '.join`; dictionary lookup in a
`Mapping[Pattern, Notation]` is a search by `keyEq`, the structural equality that the field-wise hashes
of the frozen dataclasses distinguish (a stored key is found iff its hash equals the query's and `==`
holds; structurally equal patterns have both, and two different structures with the same hash are
disregarded).
-/
open Pat

namespace PyP
open PyI

/-- the dataclass `Notation` -/
structure Notation where
  label : String
  arity : Nat
  definition : NPat
  format_str : String
deriving Repr, Inhabited

/-- the dataclass `PrettyOptions`; a `Mapping[Pattern, Notation]` is its item list in insertion order -/
structure PrettyOptions where
  simplify_instantiations : Bool
  notations : List (NPat × Notation)
deriving Repr, Inhabited

/-- `str(i)` / `f'{i}'` of a non-negative `int` -/
def strNat (n : Nat) : String := toString n

/-- an f-string or a chain of `+`: the pieces in order -/
def cat : List String → String
  | [] => ""
  | a :: r => a ++ cat r

/-- `sep.join(l)` -/
def strJoin (sep : String) : List String → String
  | [] => ""
  | [a] => a
  | a :: b :: r => a ++ sep ++ strJoin sep (b :: r)

/-! ## `Mapping[Pattern, Notation]` -/

/-- structural equality of two patterns (what the field-wise hashes of the frozen dataclasses distinguish); the
maps of `Instantiate` nodes are compared as finite maps (`frozendict` equality and hash ignore insertion order).
The same relation as `NPat.seq` (`Pi2/Proof.lean`), by structural recursion on the first argument so that the kernel
can evaluate it. -/
def keyEq : NPat → NPat → Bool
  | .evar a, .evar b => a == b
  | .svar a, .svar b => a == b
  | .sym a, .sym b => a == b
  | .imp a b, .imp c d => keyEq a c && keyEq b d
  | .app a b, .app c d => keyEq a c && keyEq b d
  | .ex x a, .ex y b => x == y && keyEq a b
  | .mu x a, .mu y b => x == y && keyEq a b
  | .mv a b c d e f, .mv a' b' c' d' e' f' => a == a' && b == b' && c == c' && d == d' && e == e' && f == f'
  | .esub p x q, .esub p' x' q' => keyEq p p' && x == x' && keyEq q q'
  | .ssub p x q, .ssub p' x' q' => keyEq p p' && x == x' && keyEq q q'
  | .inst p m, .inst p' m' => keyEq p p' && m.length == m'.length && keyEqMap m m'
  | _, _ => false
where
  keyEqMap : List (Nat × NPat) → List (Nat × NPat) → Bool
    | [], _ => true
    | (k, v) :: r, m' => (match Py.lookup m' k with | some v' => keyEq v v' | none => false) && keyEqMap r m'

def mapFind (m : List (NPat × Notation)) (k : NPat) : Option Notation :=
  match m with
  | [] => none
  | (k', v) :: r => if keyEq k' k then some v else mapFind r k
/-- `k in m` -/
def mapHas (m : List (NPat × Notation)) (k : NPat) : Bool := (mapFind m k).isSome
/-- `m[k]` (`KeyError`) -/
def mapGet (m : List (NPat × Notation)) (k : NPat) : Py Notation :=
  match mapFind m k with
  | some v => ret v
  | none => raise

/-! ## `dict[int, str]` (the local `pretty_inst` of `Instantiate.pretty`), `frozendict[int, Pattern]` -/

/-- `d[k] = v`: an existing key keeps its position, a new one goes to the end -/
def dictSet {α} : List (Nat × α) → Nat → α → List (Nat × α)
  | [], k, v => [(k, v)]
  | (k', v') :: r, k, v => if k' = k then (k', v) :: r else (k', v') :: dictSet r k v
/-- `d.values()` -/
def dictValues {α} (d : List (Nat × α)) : List α := d.map (·.2)
/-- `d.keys()` -/
def dictKeys {α} (d : List (Nat × α)) : List Nat := d.map (·.1)

/-- `for key, val in d.items(): acc = body(acc, key, val)` -/
def forItems {α β} (d : List (Nat × α)) (acc : β) (body : β → Nat → α → Py β) : Py β :=
  match d with
  | [] => ret acc
  | (k, v) :: r => call (body acc k v) fun acc' => forItems r acc' body

/-- `[f(x) for x in l]`, left to right -/
def mapPy {α β} (f : α → Py β) : List α → Py (List β)
  | [] => ret []
  | a :: r => call (f a) fun b => call (mapPy f r) fun bs => ret (b :: bs)

/-- `for i, item in enumerate(l): acc = body(acc, i, item)` from index `i0` -/
def forEnum {α β} (l : List α) (i0 : Nat) (acc : β) (body : β → Nat → α → Py β) : Py β :=
  match l with
  | [] => ret acc
  | a :: r => call (body acc i0 a) fun acc' => forEnum r (i0 + 1) acc' body

/-- a library call that either returns or raises -/
def ofExc {α} (o : Option α) : Py α :=
  match o with
  | some a => ret a
  | none => raise

/-- `try: body  except Exception as e: raise ...`: whatever `body` raises is replaced by the handler's exception
(both are the inner `none`); running out of fuel is not an `Exception` the handler turns into a value -/
def tryExceptRaise {α} (body : Py α) : Py α :=
  match body with
  | some none => raise
  | o => o

/-! ## CPython library functions (hand-written models, see the header) -/

/-- `fmt.format(*args)`; `none` = `IndexError` / `ValueError` / `KeyError` or outside the modelled subset -/
def strFormat (fmt : String) (args : List String) : Option String :=
  match Fmt.parseFmt fmt.toList with
  | none => none
  | some segs => (Fmt.render segs (args.map String.toList)).map String.ofList

def hexDigit (n : Nat) : Char := if n < 10 then Char.ofNat (48 + n) else Char.ofNat (87 + n)

def reprChar (q : Char) (c : Char) : List Char :=
  if c = q || c = '\\' then ['\\', c]
  else if c = '\t' then ['\\', 't']
  else if c = '\n' then ['\\', 'n']
  else if c = '\r' then ['\\', 'r']
  else if c.toNat < 32 || c.toNat = 127 then ['\\', 'x', hexDigit (c.toNat / 16), hexDigit (c.toNat % 16)]
  else [c]

/-- `repr(s)` of a `str` -/
def reprStr (s : String) : String :=
  let cs := s.toList
  let q : Char := if cs.contains '\'' && !cs.contains '"' then '"' else '\''
  String.ofList (q :: (cs.flatMap (reprChar q) ++ [q]))

/-- `str(d)` of a `dict[int, str]` -/
def strDict (d : List (Nat × String)) : String :=
  cat ["{", strJoin ", " (d.map fun kv => cat [strNat kv.1, ": ", reprStr kv.2]), "}"]

/-! ## `PrettyPrintingInterpreter` -/

/-- what one decorated call does, in order -/
inductive Ev where
  /-- `getattr(super(PrettyPrintingInterpreter, self), name)(*nargs, **kwargs)`: the tracker's method of
  that name runs on the same arguments -/
  | super_ (method : String)
  /-- `self.out.write(s)` -/
  | out (s : String)
  /-- `self.print_stack()` -/
  | printStack
deriving Repr, DecidableEq

/-- `self.stack` as the Python list it is: bottom first, no ghost flags -/
def stackList (s : PySt) : List TTerm := pyList s.stack

end PyP
