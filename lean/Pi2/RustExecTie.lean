import Pi2.Gen.RustExec
import Pi2.RustTie
import Pi2.RustExecInv
import Pi2.RustInstTie
import Pi2.MachineThm
/-!
# `execute_instructions` / `verify` as written in Rust are the model's `decode` + `run` / `verifyBytes`

`Pi2/Gen/RustExec.lean` is regenerated from `rust/src/lib.rs` on every run (translator `vlib/transexec.py`): every arm of
the instruction `match`, `pop_stack*`, `read_u8_vec`, `well_formed`, `is_redundant_subst`, `verify`, statement by
statement, over the primitives of `Pi2/RustExec.lean`.  Here the generated machine is proved equal to the hand-written
model (`Pi2.Codec.decode`, `Pi2.Machine.run`, `verifyBytes`, `verifyStatesBytes`) about which all soundness theorems are
stated.  A change of the Rust source that changes what an instruction does breaks one of the `arm_*` lemmas.
-/
set_option linter.unusedVariables false
set_option linter.unusedSimpArgs false
namespace RustExecTie
open Pat RustExec Gen.Rust

theorem translated : Gen.Rust.execTranslated = true := by decide

/-! ## the monad -/

theorem run_bind {α β : Type} (x : RM α) (f : α → RM β) (s : RSt) :
    (x >>= f) s = (x s).bind (fun p => f p.1 p.2) := by
  simp [bind, StateT.bind]

theorem run_pure {α : Type} (a : α) (s : RSt) : (pure a : RM α) s = some (a, s) := rfl

theorem run_liftO {α : Type} (o : Option α) (s : RSt) : liftO o s = o.map (fun a => (a, s)) := by
  cases o <;> rfl

/-! ## the pattern-construction helpers and the axioms -/

theorem helpers :
    (∀ x, fn_evar x = evar x) ∧ (∀ x, fn_svar x = svar x) ∧ (∀ x, fn_symbol x = sym x) ∧
    (∀ x, fn_metavar_unconstrained x = phi x) ∧ (∀ x p, fn_exists x p = ex x p) ∧ (∀ x p, fn_mu x p = mu x p) ∧
    (∀ p x q, fn_esubst p x q = esub p x q) ∧ (∀ p x q, fn_ssubst p x q = ssub p x q) ∧
    (∀ l r, fn_implies l r = imp l r) ∧ (∀ l r, fn_app l r = Pat.app l r) ∧ fn_bot = botP ∧
    (∀ p, fn_not p = imp p botP) :=
  ⟨fun _ => rfl, fun _ => rfl, fun _ => rfl, fun _ => rfl, fun _ _ => rfl, fun _ _ => rfl, fun _ _ _ => rfl,
   fun _ _ _ => rfl, fun _ _ => rfl, fun _ _ => rfl, rfl, fun _ => rfl⟩

/-! ## `well_formed` / `is_redundant_subst` are the checks of `Machine.step` -/

theorem is_redundant_subst_esub (p : Pat) (x : VId) (plug : Pat) :
    is_redundant_subst (esub p x plug) = ((plug == evar x) || p.eFresh x) := by
  simp only [is_redundant_subst, fn_evar, RustTie.e_fresh_eq]
  rw [BEq.comm]

theorem is_redundant_subst_ssub (p : Pat) (x : VId) (plug : Pat) :
    is_redundant_subst (ssub p x plug) = ((plug == svar x) || p.sFresh x) := by
  simp only [is_redundant_subst, fn_svar, RustTie.s_fresh_eq]
  rw [BEq.comm]

theorem well_formed_mv (id : VId) (ef sf ps ns hs : List VId) :
    well_formed (mv id ef sf ps ns hs) = some (!(hs.any (ef.contains ·))) := rfl

theorem well_formed_mu (x : VId) (p : Pat) : well_formed (mu x p) = some (p.pos x) := by
  simp [well_formed, RustTie.positive_eq]

theorem well_formed_esub (p : Pat) (x : VId) (plug : Pat) :
    well_formed (esub p x plug) = some (isMeta p && !(plug == evar x) && !(p.eFresh x)) := by
  cases p <;> simp only [well_formed, is_redundant_subst_esub, isMeta] <;>
    cases (plug == evar x) <;> cases eFresh x _ <;> rfl

theorem well_formed_ssub (p : Pat) (x : VId) (plug : Pat) :
    well_formed (ssub p x plug) = some (isMeta p && !(plug == svar x) && !(p.sFresh x)) := by
  cases p <;> simp only [well_formed, is_redundant_subst_ssub, isMeta] <;>
    cases (plug == svar x) <;> cases sFresh x _ <;> rfl

/-- on every other constructor `well_formed` is `unimplemented!` -/
theorem well_formed_other :
    (∀ x, well_formed (evar x) = none) ∧ (∀ x, well_formed (svar x) = none) ∧ (∀ x, well_formed (sym x) = none) ∧
    (∀ l r, well_formed (imp l r) = none) ∧ (∀ l r, well_formed (Pat.app l r) = none) ∧
    (∀ x p, well_formed (ex x p) = none) :=
  ⟨fun _ => rfl, fun _ => rfl, fun _ => rfl, fun _ _ => rfl, fun _ _ => rfl, fun _ _ => rfl⟩

/-! ## states -/

/-- the Rust state: the unread bytes and the three vectors of the model state -/
def mkR (bs : List Nat) (s : St) : RSt := ⟨bs, s.stack, s.memory, s.claims⟩

/-- the model state of a Rust state -/
def toSt (r : RSt) : St := ⟨r.stack, r.memory, r.claims⟩

/-- what the model does with the next instruction of a byte stream: decode it, `step`, continue on the rest -/
def spec (ph : Phase) (bs : List Nat) (s : St) : Option (Unit × RSt) :=
  (decode1 bs).bind fun ir => (step ph s ir.1).map fun sj => ((), mkR ir.2 sj.1)

/-! ## the stack helpers and `read_u8_vec` -/

theorem pop_stack_eq (s : RSt) : pop_stack s = stackPop s := by
  simp only [pop_stack, run_bind, run_pure]

theorem pop_stack_nil (r m c) : pop_stack ⟨r, [], m, c⟩ = none := rfl
theorem pop_stack_cons (r t st m c) : pop_stack ⟨r, t :: st, m, c⟩ = some (t, ⟨r, st, m, c⟩) := rfl
theorem pop_stack_pattern_nil (r m c) : pop_stack_pattern ⟨r, [], m, c⟩ = none := rfl
theorem pop_stack_pattern_pat (r p st m c) :
    pop_stack_pattern ⟨r, .pat p :: st, m, c⟩ = some (p, ⟨r, st, m, c⟩) := rfl
theorem pop_stack_pattern_proved (r p st m c) : pop_stack_pattern ⟨r, .proved p :: st, m, c⟩ = none := rfl
theorem pop_stack_proved_nil (r m c) : pop_stack_proved ⟨r, [], m, c⟩ = none := rfl
theorem pop_stack_proved_proved (r p st m c) :
    pop_stack_proved ⟨r, .proved p :: st, m, c⟩ = some (p, ⟨r, st, m, c⟩) := rfl
theorem pop_stack_proved_pat (r p st m c) : pop_stack_proved ⟨r, .pat p :: st, m, c⟩ = none := rfl

theorem next_nil (st m c) : next ⟨[], st, m, c⟩ = none := rfl
theorem next_cons (b r st m c) : next ⟨b :: r, st, m, c⟩ = some (b, ⟨r, st, m, c⟩) := rfl

/-- the `for` loop of `read_u8_vec` is `takeN` -/
theorem read_loop (st m c) : ∀ (n : Nat) (acc bs : List Nat),
    forN n (fun vec => do let vec := vec ++ [(← next)]; pure vec) acc ⟨bs, st, m, c⟩ =
      (takeN n bs).map fun xr => (acc ++ xr.1, ⟨xr.2, st, m, c⟩) := by
  intro n
  induction n with
  | zero => intro acc bs; simp [forN, takeN, run_pure]
  | succ n ih =>
    intro acc bs
    cases bs with
    | nil => simp only [forN, takeN, run_bind, next_nil, Option.bind_none, Option.map_none]
    | cons b bs =>
      simp only [forN, takeN, run_bind, next_cons, run_pure, Option.bind_some, ih, Option.map_map]
      cases takeN n bs <;> simp

theorem read_u8_vec_eq (s : RSt) :
    read_u8_vec s = (readVec s.iter).map fun xr => (xr.1, { s with iter := xr.2 }) := by
  obtain ⟨bs, st, m, c⟩ := s
  cases bs with
  | nil => rfl
  | cons n bs =>
    simp only [read_u8_vec, run_bind, next_cons, Option.bind_some, read_loop, readVec, run_pure]
    cases takeN n bs <;> simp

/-! ## one lemma per arm of the instruction `match`: the Rust statements do what `decode1` + `step` do -/

theorem arm_EVar (ph : Phase) (r : List Nat) (s : St) : instr_EVar (mkR r s) = spec ph (2 :: r) s := by
  obtain ⟨stk, mem, cl⟩ := s; cases r <;> rfl

theorem arm_SVar (ph : Phase) (r : List Nat) (s : St) : instr_SVar (mkR r s) = spec ph (3 :: r) s := by
  obtain ⟨stk, mem, cl⟩ := s; cases r <;> rfl

theorem arm_Symbol (ph : Phase) (r : List Nat) (s : St) : instr_Symbol (mkR r s) = spec ph (4 :: r) s := by
  obtain ⟨stk, mem, cl⟩ := s; cases r <;> rfl

theorem arm_CleanMetaVar (ph : Phase) (r : List Nat) (s : St) :
    instr_CleanMetaVar (mkR r s) = spec ph (137 :: r) s := by
  obtain ⟨stk, mem, cl⟩ := s; cases r <;> rfl

theorem arm_Implies (ph : Phase) (r : List Nat) (s : St) : instr_Implies (mkR r s) = spec ph (5 :: r) s := by
  obtain ⟨stk, mem, cl⟩ := s
  rcases stk with _ | ⟨_ | _, _ | ⟨_ | _, _⟩⟩ <;> rfl

theorem arm_App (ph : Phase) (r : List Nat) (s : St) : instr_App (mkR r s) = spec ph (6 :: r) s := by
  obtain ⟨stk, mem, cl⟩ := s
  rcases stk with _ | ⟨_ | _, _ | ⟨_ | _, _⟩⟩ <;> rfl

theorem arm_Exists (ph : Phase) (r : List Nat) (s : St) : instr_Exists (mkR r s) = spec ph (8 :: r) s := by
  obtain ⟨stk, mem, cl⟩ := s
  rcases r with _ | ⟨x, r⟩ <;> rcases stk with _ | ⟨_ | _, _⟩ <;> rfl

theorem arm_Mu (ph : Phase) (r : List Nat) (s : St) : instr_Mu (mkR r s) = spec ph (7 :: r) s := by
  obtain ⟨stk, mem, cl⟩ := s
  rcases r with _ | ⟨x, r⟩ <;> rcases stk with _ | ⟨p | p, st⟩ <;> try rfl
  simp only [instr_Mu, mkR, run_bind, next_cons, pop_stack_pattern_pat, Option.bind_some, fn_mu, well_formed_mu,
    run_liftO, Option.map_some, spec, decode1, step]
  cases p.pos x <;> rfl

theorem arm_ESubst (ph : Phase) (r : List Nat) (s : St) : instr_ESubst (mkR r s) = spec ph (10 :: r) s := by
  obtain ⟨stk, mem, cl⟩ := s
  rcases r with _ | ⟨x, r⟩ <;> rcases stk with _ | ⟨p | p, _ | ⟨q | q, st⟩⟩ <;> try rfl
  simp only [instr_ESubst, mkR, run_bind, next_cons, pop_stack_pattern_pat, Option.bind_some, fn_esubst,
    well_formed_esub, run_liftO, Option.map_some, spec, decode1, step]
  cases (isMeta p && !(q == evar x) && !(p.eFresh x)) <;> rfl

theorem arm_SSubst (ph : Phase) (r : List Nat) (s : St) : instr_SSubst (mkR r s) = spec ph (11 :: r) s := by
  obtain ⟨stk, mem, cl⟩ := s
  rcases r with _ | ⟨x, r⟩ <;> rcases stk with _ | ⟨p | p, _ | ⟨q | q, st⟩⟩ <;> try rfl
  simp only [instr_SSubst, mkR, run_bind, next_cons, pop_stack_pattern_pat, Option.bind_some, fn_ssubst,
    well_formed_ssub, run_liftO, Option.map_some, spec, decode1, step]
  cases (isMeta p && !(q == svar x) && !(p.sFresh x)) <;> rfl

theorem arm_MetaVar (ph : Phase) (r : List Nat) (s : St) : instr_MetaVar (mkR r s) = spec ph (9 :: r) s := by
  obtain ⟨stk, mem, cl⟩ := s
  rcases r with _ | ⟨id, r⟩
  · rfl
  simp only [instr_MetaVar, mkR, run_bind, next_cons, Option.bind_some, read_u8_vec_eq, spec, decode1]
  cases h1 : readVec r with
  | none => simp [h1]
  | some p1 =>
  cases h2 : readVec p1.2 with
  | none => simp [h2]
  | some p2 =>
  cases h3 : readVec p2.2 with
  | none => simp [h2, h3]
  | some p3 =>
  cases h4 : readVec p3.2 with
  | none => simp [h2, h3, h4]
  | some p4 =>
  cases h5 : readVec p4.2 with
  | none => simp [h2, h3, h4, h5]
  | some p5 =>
    simp only [h1, h2, h3, h4, h5, Option.map_some, Option.bind_some, well_formed_mv, run_liftO, step, Option.bind_eq_bind,
      Option.pure_def]
    cases (p5.1.any (p1.1.contains ·)) <;> rfl

theorem arm_Prop (ph : Phase) (k : Nat) (i : Instr) (ax : Pat) (r : List Nat) (s : St)
    (hd : decode1 (k :: r) = some (i, r))
    (hs : step ph s i = some ({ s with stack := .proved ax :: s.stack }, none)) :
    (push (Term.proved ax) : RM Unit) (mkR r s) = spec ph (k :: r) s := by
  simp only [spec, hd, Option.bind_some, hs, Option.map_some]; rfl

theorem arm_Prop1 (ph : Phase) (r : List Nat) (s : St) : instr_Prop1 prop1P (mkR r s) = spec ph (12 :: r) s :=
  arm_Prop ph 12 .prop1 prop1P r s rfl rfl
theorem arm_Prop2 (ph : Phase) (r : List Nat) (s : St) : instr_Prop2 prop2P (mkR r s) = spec ph (13 :: r) s :=
  arm_Prop ph 13 .prop2 prop2P r s rfl rfl
theorem arm_Prop3 (ph : Phase) (r : List Nat) (s : St) : instr_Prop3 prop3P (mkR r s) = spec ph (14 :: r) s :=
  arm_Prop ph 14 .prop3 prop3P r s rfl rfl
theorem arm_Quantifier (ph : Phase) (r : List Nat) (s : St) :
    instr_Quantifier quantP (mkR r s) = spec ph (15 :: r) s :=
  arm_Prop ph 15 .quantifier quantP r s rfl rfl
theorem arm_Existence (ph : Phase) (r : List Nat) (s : St) :
    instr_Existence existP (mkR r s) = spec ph (19 :: r) s :=
  arm_Prop ph 19 .existence existP r s rfl rfl

theorem arm_ModusPonens (ph : Phase) (r : List Nat) (s : St) :
    instr_ModusPonens (mkR r s) = spec ph (21 :: r) s := by
  obtain ⟨stk, mem, cl⟩ := s
  rcases stk with _ | ⟨p2 | p2, _ | ⟨p1 | p1, st⟩⟩ <;> try rfl
  cases p1 <;> try rfl
  rename_i l rr
  simp only [instr_ModusPonens, mkR, run_bind, pop_stack_proved_proved, Option.bind_some, spec, decode1, step]
  by_cases h : l = p2
  · subst h; simp; rfl
  · simp [h]; rfl

theorem arm_Generalization (ph : Phase) (r : List Nat) (s : St) :
    instr_Generalization (mkR r s) = spec ph (22 :: r) s := by
  obtain ⟨stk, mem, cl⟩ := s
  rcases stk with _ | ⟨p | p, st⟩
  · cases r <;> rfl
  · cases r <;> rfl
  cases p <;> try (cases r <;> rfl)
  rename_i l rr
  rcases r with _ | ⟨x, r⟩
  · rfl
  simp only [instr_Generalization, mkR, run_bind, pop_stack_proved_proved, Option.bind_some, next_cons, spec, decode1,
    step, RustTie.e_fresh_eq]
  cases rr.eFresh x <;> rfl

theorem arm_Substitution (ph : Phase) (r : List Nat) (s : St) :
    instr_Substitution (mkR r s) = spec ph (24 :: r) s := by
  obtain ⟨stk, mem, cl⟩ := s
  rcases r with _ | ⟨x, r⟩ <;> rcases stk with _ | ⟨p | p, _ | ⟨q | q, st⟩⟩ <;> try rfl
  simp only [instr_Substitution, mkR, run_bind, next_cons, pop_stack_proved_proved, pop_stack_pattern_pat,
    Option.bind_some, RustTie.apply_ssubst_eq, run_liftO, spec, decode1, step]
  cases applySSubst x q p <;> rfl

theorem arm_Pop (ph : Phase) (r : List Nat) (s : St) : instr_Pop (mkR r s) = spec ph (27 :: r) s := by
  obtain ⟨stk, mem, cl⟩ := s
  rcases stk with _ | ⟨t, st⟩ <;> rfl

theorem arm_Save (ph : Phase) (r : List Nat) (s : St) : instr_Save (mkR r s) = spec ph (28 :: r) s := by
  obtain ⟨stk, mem, cl⟩ := s
  rcases stk with _ | ⟨t | t, st⟩ <;> rfl

theorem arm_Load (ph : Phase) (r : List Nat) (s : St) : instr_Load (mkR r s) = spec ph (29 :: r) s := by
  obtain ⟨stk, mem, cl⟩ := s
  rcases r with _ | ⟨i, r⟩
  · rfl
  simp only [instr_Load, mkR, run_bind, next_cons, Option.bind_some, memGet, spec, decode1, step]
  rcases mem[i]? with _ | ⟨t | t⟩ <;> rfl

theorem arm_Publish (ph : Phase) (r : List Nat) (s : St) : instr_Publish ph (mkR r s) = spec ph (30 :: r) s := by
  obtain ⟨stk, mem, cl⟩ := s
  cases ph
  · rcases stk with _ | ⟨t | t, st⟩ <;> rfl
  · rcases stk with _ | ⟨t | t, st⟩ <;> rfl
  · rcases cl with _ | ⟨c, cs⟩ <;> rcases stk with _ | ⟨t | t, st⟩ <;> try rfl
    simp only [instr_Publish, mkR, run_bind, claimsPop, pop_stack_proved_proved, Option.bind_some, spec, decode1, step]
    by_cases h : c = t
    · subst h; simp; rfl
    · simp [h]; rfl

/-- the `for` loop of `Instantiate` (read an id, pop a pattern, `n` times) is `takeN` on the bytes and `popPats` on the
stack -/
theorem inst_loop (body : List Nat × List Pat → RM (List Nat × List Pat))
    (hbody : ∀ ids plugs s, body (ids, plugs) s =
      (next s).bind fun a => (pop_stack_pattern a.2).bind fun b => some ((ids ++ [a.1], plugs ++ [b.1]), b.2))
    (m : List Term) (c : List Pat) : ∀ (n : Nat) (ids0 : List Nat) (pl0 : List Pat) (bs : List Nat) (stk : List Term),
    forN n body (ids0, pl0) ⟨bs, stk, m, c⟩ =
      (takeN n bs).bind fun ir => (popPats n stk).map fun ps => ((ids0 ++ ir.1, pl0 ++ ps.1), ⟨ir.2, ps.2, m, c⟩) := by
  intro n
  induction n with
  | zero => intro ids0 pl0 bs stk; simp [forN, takeN, popPats, run_pure]
  | succ n ih =>
    intro ids0 pl0 bs stk
    simp only [forN, run_bind, hbody]
    rcases bs with _ | ⟨b, bs⟩
    · simp [next_nil, takeN]
    simp only [next_cons, Option.bind_some]
    rcases stk with _ | ⟨p | p, stk⟩
    · simp only [pop_stack_pattern_nil, Option.bind_none, popPats, Option.map_none]
      cases takeN (n + 1) (b :: bs) <;> rfl
    · simp only [pop_stack_pattern_pat, Option.bind_some, ih, takeN, popPats]
      cases takeN n bs with
      | none => rfl
      | some ir => cases popPats n stk <;> simp
    · simp only [pop_stack_pattern_proved, Option.bind_none, popPats, Option.map_none]
      cases takeN (n + 1) (b :: bs) <;> rfl

theorem arm_Instantiate (ph : Phase) (r : List Nat) (s : St) (hs : s.RShape = true) :
    instr_Instantiate (mkR r s) = spec ph (26 :: r) s := by
  obtain ⟨stk, mem, cl⟩ := s
  rcases r with _ | ⟨n, r⟩
  · rfl
  simp only [St.RShape, Bool.and_eq_true] at hs
  simp only [instr_Instantiate, mkR, run_bind, next_cons, Option.bind_some, spec, decode1]
  rcases stk with _ | ⟨t, st⟩
  · simp only [pop_stack_nil, Option.bind_none]
    cases takeN n r <;> rfl
  simp only [pop_stack_cons, Option.bind_some]
  rw [inst_loop _ (by
    intro ids plugs s; obtain ⟨it, stk, m, c⟩ := s
    rcases it with _ | ⟨b, it⟩ <;> rcases stk with _ | ⟨t | t, stk⟩ <;> rfl)]
  cases hT : takeN n r with
  | none => rfl
  | some ir =>
    obtain ⟨ids, r'⟩ := ir
    have hlen : ids.length = n := (takeN_length hT).2
    simp only [Option.bind_some, Option.map_some, List.nil_append]
    simp only [List.all_cons, Bool.and_eq_true] at hs
    cases hP : popPats n st with
    | none => cases t <;> simp [step, hlen, hP]
    | some ps =>
      obtain ⟨plugs, st'⟩ := ps
      have ⟨_, _, hpl⟩ := popPats_RShape n st plugs st' hP hs.1.2
      have hi : ∀ p : Pat, p.RShape = true → Gen.Rust.instantiate_in_place ids plugs p = inst (lookupPlug ids plugs) p :=
        fun p hp => (RustInstTie.instantiate_in_place_eq ids plugs p).trans (instU_eq_inst_RShape ids plugs (by omega) p hp)
      cases t with
      | pat p =>
        simp only [Option.map_some, Option.bind_some, step, hlen, hP, hi p hs.1.1, run_liftO, Option.bind_eq_bind]
        cases inst (lookupPlug ids plugs) p <;> rfl
      | proved p =>
        simp only [Option.map_some, Option.bind_some, step, hlen, hP, hi p hs.1.1, run_liftO, Option.bind_eq_bind]
        cases inst (lookupPlug ids plugs) p <;> rfl

/-! ## bytes that are not an implemented opcode -/

/-- `Instruction::from` on a byte the model does not decode: a panic, or one of the six instructions that
`execute_instructions` leaves `unimplemented!` -/
theorem from_bad (b : Nat) (h : b ∉ validOps) (i : Instruction) (hi : Instruction_from b = some i) :
    i = .PropagationOr ∨ i = .PropagationExists ∨ i = .PreFixpoint ∨ i = .Singleton ∨ i = .Frame ∨
      i = .KnasterTarski := by
  unfold Instruction_from at hi
  split at hi <;> first
    | (simp [validOps] at h; done)
    | (simp only [Option.pure_def, Option.some.injEq] at hi; subst hi; simp; done)
    | (simp at hi; done)

/-! ## the loop -/

/-- what the model does with a whole byte stream -/
def specAll (ph : Phase) (bs : List Nat) (s : St) : Option (Unit × RSt) :=
  (decode bs).bind fun is => (run ph s is).map fun sj => ((), mkR [] sj.1)

theorem decode_cons_some {b : Nat} {r r' : List Nat} {i : Instr} (h : decode1 (b :: r) = some (i, r')) :
    decode (b :: r) = (decode r').map (i :: ·) := by
  have hr : r'.length < (b :: r).length := decode1_length h
  simp only [List.length_cons] at hr
  simp only [decode, List.length_cons, decodeF, h]
  rw [decodeF_fuel r.length r' (by omega)]

/-- a loop body that does on every byte what `decode1` + `step` do, on states that satisfy the invariant, computes
`decode` + `run` -/
theorem whileNextF_spec (ph : Phase) (body : Nat → RM Unit)
    (hbody : ∀ b r s, s.RShape = true → body b (mkR r s) = spec ph (b :: r) s) :
    ∀ (f : Nat) (bs : List Nat) (s : St), bs.length ≤ f → s.RShape = true →
      whileNextF body f (mkR bs s) = specAll ph bs s := by
  intro f
  induction f with
  | zero =>
    intro bs s hlen hs
    cases bs with
    | nil => simp [whileNextF, mkR, specAll, decode, decodeF, run]
    | cons b r => simp at hlen
  | succ f ih =>
    intro bs s hlen hs
    cases bs with
    | nil => simp [whileNextF, mkR, specAll, decode, decodeF, run]
    | cons b r =>
      have hb := hbody b r s hs
      simp only [mkR] at hb
      simp only [whileNextF, mkR, hb, spec, specAll]
      cases hd : decode1 (b :: r) with
      | none => simp [decode, decodeF_cons_none hd]
      | some ir =>
        obtain ⟨i, r'⟩ := ir
        have hr : r'.length < (b :: r).length := decode1_length hd
        simp only [List.length_cons] at hr hlen
        rw [decode_cons_some hd]
        simp only [Option.bind_some]
        cases hst : step ph s i with
        | none =>
          cases decode r' <;> simp [run, hst]
        | some sj =>
          obtain ⟨s1, j⟩ := sj
          have h1 := ih r' s1 (by omega) (step_RShape ph s s1 i j hst hs)
          simp only [mkR] at h1
          simp only [Option.map_some, h1, specAll]
          cases decode r' with
          | none => rfl
          | some is =>
            simp only [Option.map_some, Option.bind_some, run, hst, Option.bind_eq_bind]
            cases run ph s1 is <;> rfl

/-- **`execute_instructions` is `decode` + `run`.**  For every phase, byte stream and machine state (whose terms the
machine can have built: `St.RShape`, an invariant of `step` that holds for the empty state) the translated Rust loop
panics iff the model rejects — the stream does not decode or `run` rejects — and otherwise ends in the same stack, memory
and claims, with all bytes consumed.  (The initial `iter` is irrelevant: `execute_instructions` creates its iterator.) -/
theorem exec_eq (ph : Phase) (bs : List Nat) (r0 : RSt) (hs : (toSt r0).RShape = true) :
    execute_instructions bs ph r0 = (decode bs).bind fun is => (run ph (toSt r0) is).map fun sj => ((), mkR [] sj.1) := by
  unfold execute_instructions
  simp only [run_bind, iterInit, Option.bind_some]
  show whileNextF _ bs.length (mkR bs (toSt r0)) = specAll ph bs (toSt r0)
  apply whileNextF_spec ph _ _ _ bs _ (Nat.le_refl _) hs
  intro b r s hs
  by_cases hv : b ∈ validOps
  · simp only [validOps, List.mem_cons, List.mem_nil_iff, or_false] at hv
    rcases hv with rfl | rfl | rfl | rfl | rfl | rfl | rfl | rfl | rfl | rfl | rfl | rfl | rfl | rfl | rfl | rfl | rfl |
      rfl | rfl | rfl | rfl | rfl | rfl | rfl
    · exact arm_EVar ph r s
    · exact arm_SVar ph r s
    · exact arm_Symbol ph r s
    · exact arm_Implies ph r s
    · exact arm_App ph r s
    · exact arm_Mu ph r s
    · exact arm_Exists ph r s
    · exact arm_MetaVar ph r s
    · exact arm_ESubst ph r s
    · exact arm_SSubst ph r s
    · exact arm_Prop1 ph r s
    · exact arm_Prop2 ph r s
    · exact arm_Prop3 ph r s
    · exact arm_Quantifier ph r s
    · exact arm_Existence ph r s
    · exact arm_ModusPonens ph r s
    · exact arm_Generalization ph r s
    · exact arm_Substitution ph r s
    · exact arm_Instantiate ph r s hs
    · exact arm_Pop ph r s
    · exact arm_Save ph r s
    · exact arm_Load ph r s
    · exact arm_Publish ph r s
    · exact arm_CleanMetaVar ph r s
  · simp only [spec, decode1_badOpcode b r hv, Option.bind_none, run_bind, run_liftO]
    cases hi : Instruction_from b with
    | none => rfl
    | some i =>
      rcases from_bad b hv i hi with rfl | rfl | rfl | rfl | rfl | rfl <;> rfl

/-! ## `verify` -/

/-- one phase of `verify`, from a state that satisfies the invariant -/
theorem exec_phase (ph : Phase) (bs : List Nat) (it : List Nat) (s : St) (hs : s.RShape = true) :
    execute_instructions bs ph (mkR it s) =
      (decode bs).bind fun is => (run ph s is).map fun sj => ((), mkR [] sj.1) :=
  exec_eq ph bs (mkR it s) hs

/-- **`verify` is `verifyStatesBytes` + the final `assert!(claims.is_empty())`.**  From any initial Rust state the
translated `verify` panics iff the model rejects, and otherwise ends in the model's final proof-phase state. -/
theorem verify_states_eq (g c p : List Nat) (r0 : RSt) :
    Gen.Rust.verify g c p r0 =
      (verifyStatesBytes g c p).bind fun r =>
        if r.2.2.1.claims.isEmpty then some ((), mkR [] r.2.2.1) else none := by
  unfold Gen.Rust.verify
  simp only [run_bind, claimsNew, memoryNew, stackClear, Option.bind_some]
  have e1 := exec_phase .gamma g r0.iter ⟨[], [], []⟩ St.RShape_empty
  simp only [mkR] at e1
  simp only [e1, verifyStatesBytes, verifyStates, Option.bind_eq_bind]
  cases hg : decode g with
  | none => rfl
  | some gi =>
    simp only [Option.bind_some]
    cases h1 : run .gamma ⟨[], [], []⟩ gi with
    | none => cases decode c <;> cases decode p <;> rfl
    | some r1 =>
      obtain ⟨s1, axs⟩ := r1
      have hs1 : St.RShape { s1 with stack := [] } = true :=
        St.RShape_clear (run_RShape .gamma gi _ s1 axs h1 St.RShape_empty)
      have e2 := exec_phase .claim c [] { s1 with stack := [] } hs1
      simp only [mkR] at e2
      simp only [Option.map_some, Option.bind_some, mkR, e2]
      cases hc : decode c with
      | none => rfl
      | some ci =>
        simp only [Option.bind_some]
        cases h2 : run .claim { s1 with stack := [] } ci with
        | none => cases decode p <;> rfl
        | some r2 =>
          obtain ⟨s2, cls⟩ := r2
          have hs2 : St.RShape { s2 with stack := [] } = true :=
            St.RShape_clear (run_RShape .claim ci _ s2 cls h2 hs1)
          have e3 := exec_phase .proof p [] { s2 with stack := [] } hs2
          simp only [mkR] at e3
          simp only [Option.map_some, Option.bind_some, mkR, e3]
          cases hp : decode p with
          | none => rfl
          | some pi =>
            simp only [Option.bind_some]
            cases h3 : run .proof { s2 with stack := [] } pi with
            | none => rfl
            | some r3 =>
              obtain ⟨s3, js⟩ := r3
              simp only [Option.map_some, Option.bind_some, claimsIsEmpty, assert, Option.pure_def]
              cases s3.claims.isEmpty <;> rfl

/-- the model's `verifyBytes` accepts iff `verifyStatesBytes` ends with no claim left -/
theorem verifyBytes_isSome (g c p : List Nat) :
    (verifyBytes g c p).isSome =
      ((verifyStatesBytes g c p).bind fun r => if r.2.2.1.claims.isEmpty then some () else none).isSome := by
  simp only [verifyBytes, verifyStatesBytes, _root_.verify, verifyStates, Option.bind_eq_bind]
  cases decode g with
  | none => rfl
  | some gi =>
  cases decode c with
  | none => rfl
  | some ci =>
  cases decode p with
  | none => rfl
  | some pi =>
    simp only [Option.bind_some]
    cases run .gamma ⟨[], [], []⟩ gi with
    | none => rfl
    | some r1 =>
    simp only [Option.bind_some]
    cases run .claim { r1.1 with stack := [] } ci with
    | none => rfl
    | some r2 =>
    simp only [Option.bind_some]
    cases run .proof { r2.1 with stack := [] } pi with
    | none => rfl
    | some r3 =>
      simp only [Option.bind_some, Option.pure_def]
      cases r3.1.claims.isEmpty <;> rfl

/-- **the Rust `verify` returns (does not panic) exactly on the inputs the model accepts** -/
theorem verify_eq (g c p : List Nat) (r0 : RSt) :
    (Gen.Rust.verify g c p r0).isSome = (verifyBytes g c p).isSome := by
  rw [verify_states_eq, verifyBytes_isSome]
  cases verifyStatesBytes g c p with
  | none => rfl
  | some r => simp only [Option.bind_some]; cases r.2.2.1.claims.isEmpty <;> rfl

/-- the same as an equivalence -/
theorem verify_accepts_iff (g c p : List Nat) (r0 : RSt) :
    (Gen.Rust.verify g c p r0).isSome = true ↔ ∃ axs cls, verifyBytes g c p = some (axs, cls) := by
  rw [verify_eq]
  cases verifyBytes g c p with
  | none => simp
  | some r => exact ⟨fun _ => ⟨r.1, r.2, rfl⟩, fun _ => rfl⟩

/-! ## the invariant is needed in `exec_eq` (but not in `verify_*`, which start from the empty state)

On a state that holds a substitution node with a concrete head — which no instruction sequence can build: `ESubst`
checks `well_formed` — the Rust `instantiate_internal` returns the node unchanged while the model `inst` pushes the
substitution in (`Pi2.InstUThm`).  `Instantiate` with zero arguments shows it. -/
example :
    let s : St := ⟨[.pat (esub (evar 0) 0 (evar 1))], [], []⟩
    s.RShape = false ∧
    (execute_instructions [26, 0] .gamma (mkR [] s)).map (·.2.stack) = some [.pat (esub (evar 0) 0 (evar 1))] ∧
    ((decode [26, 0]).bind fun is => (run .gamma s is).map (·.1.stack)) = some [.pat (evar 1)] := by decide +kernel

/-! ## non-vacuity: a small accepted proof, and a rejected one, through both machines -/

/-- Γ publishes `φ0 → φ0`, the claim is the same pattern, the proof loads the axiom and publishes it -/
example :
    (Gen.Rust.verify [137, 0, 137, 0, 5, 30] [137, 0, 137, 0, 5, 30] [29, 0, 30] default).isSome = true ∧
    (verifyBytes [137, 0, 137, 0, 5, 30] [137, 0, 137, 0, 5, 30] [29, 0, 30]).isSome = true := by decide +kernel

/-- the same with `Prop1` published instead: `claim != theorem` -/
example :
    (Gen.Rust.verify [137, 0, 137, 0, 5, 30] [137, 0, 137, 0, 5, 30] [12, 30] default).isSome = false ∧
    (verifyBytes [137, 0, 137, 0, 5, 30] [137, 0, 137, 0, 5, 30] [12, 30]).isSome = false := by decide +kernel

end RustExecTie

#print axioms RustExecTie.translated
#print axioms RustExecTie.well_formed_mv
#print axioms RustExecTie.well_formed_mu
#print axioms RustExecTie.well_formed_esub
#print axioms RustExecTie.well_formed_ssub
#print axioms RustExecTie.exec_eq
#print axioms RustExecTie.verify_states_eq
#print axioms RustExecTie.verify_eq
#print axioms RustExecTie.verify_accepts_iff
