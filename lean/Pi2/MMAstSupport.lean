import Pi2.MM.Ast
import Pi2.ImportSupport
/-!
# What the generated Metamath parser callbacks / grammar rules / `Encoder` (`Pi2/Gen/MMAst.lean`, written by
`vlib/transmmast.py`) are expressed in

Hand-written and deliberately tiny: the Python primitives `ASTTransformer` (metamath/parser.py) and `Encoder`
(metamath/ast.py) use, the five combinators the grammar rules are generated into, and the *specification* of what the lark
lexer is assumed to deliver (`splitWs`).

Conventions of the translation
* the dataclasses `Metavariable(name)` / `Application(symbol, subterms)` ARE `MM.MTerm.mv` / `MM.MTerm.app` (the translator
  checks names and order of the fields); the statement classes become the GENERATED inductive `Gen.MMAst.Stmt` (one
  constructor per dataclass, fields in declaration order; `tuple[..., ...]` is a `List`; `str | None` an `Option String`).
* parser side: every function returns `Option _`: `none` = the Python code raises (`AssertionError`, `IndexError`,
  `ValueError` of an unpacking, `UnboundLocalError`, a lark syntax error), or the fuel of a recursion ran out, or — only in
  `provable_stmt`, whose `args` mix strings with one list — a value has a dynamic type the translation does not cover
  (`Arg.asStr` / `Arg.strs`; `AstTie` proves that this never happens for the arguments the grammar delivers).
  A callback that assigns to `self.metavariables` also returns the new `self`.
* a `for` loop is a function of its own, by structural recursion on the list it iterates over; `break` returns the state;
  a variable first bound inside the loop and read after it is an `Option` (`none` = unbound: `UnboundLocalError`).
  A `while` loop is a function of its own, recursive on `fuel`; the mutually recursive `parse_term` / `parse_terms` / the loop
  of `parse_terms` share that fuel; a call from outside starts with `termFuel tokens`.
* Encoder side: a method is the LIST OF THE `Printer` CALLS IT MAKES (`PCall`: `self.write(s)`, and `indent` / `deindent` around
  the body of `with self.indentation():`), in order; statements in sequence are `++`.  `Printer` itself is the hand-written model
  below (the translator compares the class with the text it was written against).
* grammar side: a token is a `String`; it is a keyword terminal iff it is one of the anonymous literals of the grammar
  (`keywords`), a `TOKEN` otherwise.  `gLit` / `gTOKEN` / `gStar` / `gPlus` / `gEnd` consume the token list from the left;
  `x*` / `x+` go on as long as the next token is in FIRST(x) (one token of lookahead, as LALR(1) does).
-/
namespace MMAstSup
open MM

/-! ## control, sequences -/
/-- `assert b` -/
def pyAssert (b : Bool) : Option Unit := if b then some () else none
/-- `xs[n]` for a literal `n ≥ 0` (`IndexError`) -/
def pyIdx {α : Type} (xs : List α) (n : Nat) : Option α := xs[n]?
/-- `xs[-1]` (`IndexError` on the empty sequence) -/
def pyLast {α : Type} (xs : List α) : Option α := xs.getLast?
/-- `x, *xs = xs` (`ValueError` on the empty sequence) -/
def pyHeadRest {α : Type} : List α → Option (α × List α)
  | [] => none
  | x :: xs => some (x, xs)
/-- `a, b, c = xs` (`ValueError` unless exactly three) -/
def pyUnpack3 {α : Type} : List α → Option (α × α × α)
  | [a, b, c] => some (a, b, c)
  | _ => none
/-- `xs[a:]` for `a ≥ 0` -/
def pySliceFrom {α : Type} (xs : List α) (a : Nat) : List α := xs.drop a
/-- `xs[a:b]` for `a, b ≥ 0` -/
def pySlice {α : Type} (xs : List α) (a b : Nat) : List α := (xs.take b).drop a
/-- `xs[:-k]` for a literal `k > 0` -/
def pyDropLast {α : Type} (xs : List α) (k : Nat) : List α := xs.take (xs.length - k)
/-- `enumerate(xs)` -/
def pyEnumerateFrom {α : Type} : Nat → List α → List (Nat × α)
  | _, [] => []
  | n, x :: xs => (n, x) :: pyEnumerateFrom (n + 1) xs
def pyEnumerate {α : Type} (xs : List α) : List (Nat × α) := pyEnumerateFrom 0 xs
/-- `sep.join(xs)` -/
def pyJoin (sep : String) (xs : List String) : String := sep.intercalate xs
/-- truth value of a `str` -/
def strTruthy (s : String) : Bool := s != ""
/-- the fuel a call of `parse_terms` / `parse_term` from outside their recursion starts with (three levels of calls per token) -/
def termFuel (tokens : List String) : Nat := 3 * tokens.length + 3

/-! ## the heterogeneous `args` of `provable_stmt`: strings (results of `token`) and one list (the result of `proof`) -/
inductive Arg where
  | str (s : String)
  | list (xs : List String)
deriving Repr, Inhabited, DecidableEq
/-- `list(x)`: of a list the list, of a `str` its characters -/
def Arg.toList : Arg → List String
  | .list xs => xs
  | .str s => s.toList.map fun c => String.ofList [c]
/-- an `Arg` used where the code needs a `str` (`none`: it is a list — outside the translation) -/
def Arg.asStr : Arg → Option String
  | .str s => some s
  | .list _ => none
/-- a list of `Arg`s used where the code needs a `list[str]` -/
def Arg.strs (xs : List Arg) : Option (List String) := xs.mapM Arg.asStr

/-! ## strings of `postvisit_comment` (never reached for a parsed database: the grammar ignores comments) -/
/-- `s.isspace()`: non-empty and every character is Python whitespace -/
def pyStrIsSpace (s : String) : Bool := s != "" && s.toList.all ImpSup.pyIsSpace
/-- `s[:-1]` -/
def strDropLast1 (s : String) : String := String.ofList s.toList.dropLast
/-- `s[-1:]` -/
def strLast1 (s : String) : String := String.ofList (s.toList.drop (s.length - 1))

/-! ## grammar combinators (tokens from the left; `σ` = the transformer threaded through the callbacks) -/
/-- an anonymous literal of the grammar: the next token must be exactly it -/
def gLit (s : String) : List String → Option (List String)
  | t :: ts => if t == s then some ts else none
  | [] => none
/-- the terminal `TOKEN`: the next token must not be a keyword terminal -/
def gTOKEN (keywords : List String) : List String → Option (String × List String)
  | t :: ts => if keywords.contains t then none else some (t, ts)
  | [] => none
/-- `$END` -/
def gEnd : List String → Option Unit
  | [] => some ()
  | _ :: _ => none
/-- lookahead: token `k` is the literal `s` -/
def gPeekLit (ts : List String) (k : Nat) (s : String) : Bool := ts[k]? == some s
/-- lookahead: token `k` is a `TOKEN` -/
def gPeekTOKEN (keywords : List String) (ts : List String) (k : Nat) : Bool :=
  match ts[k]? with
  | some t => !keywords.contains t
  | none => false
/-- `x*`: as long as the next token is in FIRST(x), one more `x` (which must then succeed) -/
def gStarF {σ α : Type} (first : String → Bool) (p : σ → List String → Option (α × σ × List String)) :
    Nat → σ → List String → Option (List α × σ × List String)
  | 0, _, _ => none
  | _ + 1, s, [] => some ([], s, [])
  | n + 1, s, t :: ts =>
      if first t then do
        let (a, s, r) ← p s (t :: ts)
        let (as, s, r) ← gStarF first p n s r
        pure (a :: as, s, r)
      else some ([], s, t :: ts)
/-- iterations are bounded by the number of tokens (every `x` consumes at least one) -/
def gStar {σ α : Type} (first : String → Bool) (p : σ → List String → Option (α × σ × List String))
    (s : σ) (ts : List String) : Option (List α × σ × List String) := gStarF first p (ts.length + 1) s ts
/-- `x+` -/
def gPlus {σ α : Type} (first : String → Bool) (p : σ → List String → Option (α × σ × List String))
    (s : σ) (ts : List String) : Option (List α × σ × List String) := do
  let (a, s, r) ← p s ts
  let (as, s, r) ← gStar first p s r
  pure (a :: as, s, r)

/-! ## what the lexer is assumed to deliver: the maximal runs of non-ignored characters -/
def splitAux (isWs : Char → Bool) : List Char → List Char → List String
  | [], acc => if acc.isEmpty then [] else [String.ofList acc.reverse]
  | c :: cs, acc =>
      if isWs c then (if acc.isEmpty then splitAux isWs cs [] else String.ofList acc.reverse :: splitAux isWs cs [])
      else splitAux isWs cs (c :: acc)
/-- split at the ignored characters -/
def splitWs (isWs : Char → Bool) (cs : List Char) : List String := splitAux isWs cs []
/-! ## `Printer` (metamath/utils/printer.py) — HAND-WRITTEN model of the text `vlib/transmmast.py` compares the class with

An `Encoder` method is generated as the list of the `Printer` calls it makes (`PCall`); `Printer.run` replays them.  A `str` is a
`List Char` here.  `vlib/props/c17.py` compares `printerText` with the text of the real `Encoder.encode_string` character by character. -/
/-- a call of a `Printer` method: `self.write(s)`, entering / leaving `with self.indentation():` -/
inductive PCall where
  | write (s : String)
  | indent
  | deindent
deriving Repr, Inhabited, DecidableEq
/-- the characters of the strings written, in order (what the text would be without `Printer`'s line buffer) -/
def written (cs : List PCall) : List Char := cs.flatMap fun c => match c with | .write s => s.toList | _ => []

structure Printer where
  output : List Char
  tab : List Char
  current_indentation : List Char
  line_buffer : List (List Char)
deriving Repr
/-- `Printer(output, tab)` -/
def Printer.new (tab : List Char) : Printer := ⟨[], tab, [], []⟩
/-- `s.isspace()` -/
def pyIsSpaceL (s : List Char) : Bool := !s.isEmpty && s.all ImpSup.pyIsSpace
/-- `s.rstrip()` -/
def pyRstrip (s : List Char) : List Char := (s.reverse.dropWhile ImpSup.pyIsSpace).reverse
/-- `n * t` -/
def pyRepeat (n : Nat) (t : List Char) : List Char := (List.replicate n t).flatten
/-- `msg.split('\n')`: the pieces between the newlines (always at least one) -/
def pySplitNl : List Char → List (List Char)
  | [] => [[]]
  | c :: cs =>
      match pySplitNl cs with
      | [] => [[c]]       -- not reached
      | l :: ls => if c == '\n' then [] :: l :: ls else (c :: l) :: ls
/-- `indent` -/
def Printer.indent (p : Printer) : Printer := { p with current_indentation := p.current_indentation ++ p.tab }
/-- `deindent`: `assert len(self.current_indentation) >= len(self.tab)`; `self.current_indentation[:-len(self.tab)]`
(`s[:-0]` is `''`) -/
def Printer.deindent (p : Printer) : Option Printer :=
  if p.tab.length ≤ p.current_indentation.length then
    some { p with current_indentation :=
      if p.tab.length = 0 then [] else p.current_indentation.take (p.current_indentation.length - p.tab.length) }
  else none
/-- what `flush` sends to the output: the buffer, its LAST string `rstrip`ped -/
def flushed : List (List Char) → List Char
  | [] => []
  | [s] => pyRstrip s
  | s :: r => s ++ flushed r
/-- `flush` -/
def Printer.flush (p : Printer) : Printer := { p with output := p.output ++ flushed p.line_buffer, line_buffer := [] }
/-- `s.strip(chars)` -/
def pyStrip (chars : List Char) (s : List Char) : List Char :=
  ((s.dropWhile chars.contains).reverse.dropWhile chars.contains).reverse
/-- the characters of `' \t\f\r'`: what `is_line_buffer_empty` counts as blank (the lexer's ignored characters without the newline,
which a line never contains) -/
def blankChars : List Char := [' ', '\t', '\x0c', '\r']
/-- `is_line_buffer_empty` (as repaired by 5aefd01 "print a label that consists of non-lexer whitespace"): no string of the buffer
has `s.strip(' \t\f\r') != ''` without being a multiple of `tab` -/
def Printer.is_line_buffer_empty (p : Printer) : Bool :=
  p.line_buffer.all fun s =>
    !(pyStrip blankChars s != [] && (p.tab.length == 0 || s != pyRepeat (s.length / p.tab.length) p.tab))
/-- `is_line_buffer_empty` BEFORE 5aefd01: `len(s) != 0 and not s.isspace()` — kept to record the defect (`AstText.old_printer_dropped_blank_label`) -/
def Printer.is_line_buffer_empty_old (p : Printer) : Bool :=
  p.line_buffer.all fun s =>
    !(s.length != 0 && !pyIsSpaceL s && (p.tab.length == 0 || s != pyRepeat (s.length / p.tab.length) p.tab))
/-- the end of the loop body of `write`: `if self.is_line_buffer_empty(): self.line_buffer = [self.current_indentation]`;
`self.line_buffer.append(line)` (`empty`: which `is_line_buffer_empty`) -/
def Printer.writeLineWith (empty : Printer → Bool) (p : Printer) (line : List Char) : Printer :=
  let p := if empty p then { p with line_buffer := [p.current_indentation] } else p
  { p with line_buffer := p.line_buffer ++ [line] }
/-- `if i != 0: self.flush(); self.output.write('\n')` -/
def Printer.newline (p : Printer) : Printer := let p := p.flush; { p with output := p.output ++ ['\n'] }
/-- `write(msg)` -/
def Printer.writeWith (empty : Printer → Bool) (p : Printer) (msg : List Char) : Printer :=
  match pySplitNl msg with
  | [] => p       -- not reached
  | l :: ls => ls.foldl (fun p l => p.newline.writeLineWith empty l) (p.writeLineWith empty l)
/-- replay the calls (`none`: the assert of `deindent`) -/
def Printer.runWith (empty : Printer → Bool) : Printer → List PCall → Option Printer
  | p, [] => some p
  | p, .write s :: cs => (p.writeWith empty s.toList).runWith empty cs
  | p, .indent :: cs => p.indent.runWith empty cs
  | p, .deindent :: cs => p.deindent.bind fun p => p.runWith empty cs
/-- the text of `Encoder.encode_string`: the calls, then `encoder.flush()`, then `stream.getvalue()` -/
def printerTextWith (empty : Printer → Bool) (tab : String) (cs : List PCall) : Option (List Char) :=
  ((Printer.new tab.toList).runWith empty cs).map fun p => p.flush.output
/-- the class as it is -/
def Printer.writeLine : Printer → List Char → Printer := Printer.writeLineWith Printer.is_line_buffer_empty
def Printer.write : Printer → List Char → Printer := Printer.writeWith Printer.is_line_buffer_empty
def Printer.run : Printer → List PCall → Option Printer := Printer.runWith Printer.is_line_buffer_empty
def printerText : String → List PCall → Option (List Char) := printerTextWith Printer.is_line_buffer_empty
/-- the class before 5aefd01 -/
def printerTextOld : String → List PCall → Option (List Char) := printerTextWith Printer.is_line_buffer_empty_old

end MMAstSup
