import Pi2.Gen.PyProof
import Pi2.ProofThm
import Pi2.MM.Mono
import Pi2.InterpTie
/-!
# The proof generator as written in `proof.py` / `interpreter.py` / the transformers is the model's

`Pi2/Gen/PyProof.lean` is regenerated from the source on every run (`vlib/transproof.py`).  Here the
generated functions are tied to the hand-written model `Pi2/Proof.lean`.

The generated code is written against an interpreter *object* (`PyI.Interp`).  The model's interpreter is
the call-emitting tracker: `callI n`, whose method for a call is `doCalls n s [c] acc` (`track1` + the
list of calls made) and whose returned value is the new top of the stack (`Pi2/InterpTie.lean` proves the
translated `StatefulInterpreter` methods equal to exactly this, for arguments that are the stack's own
terms).  `trackerK N k` is that interpreter with the inherited `Interpreter.pattern`, `memoK N k S` is
`MemoizingInterpreter(trackerK …, S)`; `N` is the fuel of the tracker's comparisons, `k` the recursion
depth available to `pattern`.

Fuel: the hand-written model spends one unit of fuel per recursive call *and* per element of a list
(`patternListF`), the generated code only per call of `self.pattern` — so the ties are two refinements:
`*_complete` (what the model answers at fuel `n`, the generated code answers at every `N, k ≥ n`) and
`*_sound` (what the generated code answers, the model answers at some fuel).
-/
set_option linter.unusedSimpArgs false
set_option linter.unusedVariables false
open PySt PyI
open Gen.PyProof

namespace ProofTie

theorem translated : Gen.PyProof.translated = true := by decide

/-- the interface the generated code is written against is the list of `@abstractmethod`s of `Interpreter` -/
theorem interface_eq : Gen.PyProof.abstractMethods = Interp.methods := by decide

/-! ## `Py` computations -/

/-- the state of the call-emitting tracker: the tracker's state and the calls made so far -/
abbrev St := PySt × List Call

def pmap {α β} (h : α → β) (x : Py α) : Py β := x.map (Option.map h)

theorem pmap_some {α β} (h : α → β) (x : Py α) (r : Option β) :
    pmap h x = some r ↔ ∃ o, x = some o ∧ r = o.map h := by
  unfold pmap
  constructor
  · intro hx
    cases x with
    | none => simp at hx
    | some o => simp at hx; exact ⟨o, rfl, hx.symm⟩
  · rintro ⟨o, rfl, rfl⟩; rfl

theorem pmap_congr {α β} {f g : α → β} {x : Py α} (h : ∀ a, x = some (some a) → f a = g a) :
    pmap f x = pmap g x := by
  rcases x with _ | _ | a
  · rfl
  · rfl
  · simp [pmap, h a rfl]

theorem pmap_pmap {α β γ} (f : α → β) (g : β → γ) (x : Py α) : pmap g (pmap f x) = pmap (g ∘ f) x := by
  rcases x with _ | _ | a <;> rfl

theorem pmap_id {α} (x : Py α) : pmap (fun a => a) x = x := by
  rcases x with _ | _ | a <;> rfl

theorem call_some_some {α β} (a : α) (k : α → Py β) : call (some (some a)) k = k a := rfl

theorem call_ret {α} (x : Py α) : call x (fun a => ret a) = x := by
  rcases x with _ | _ | a <;> rfl

theorem call_ret2 {α β} (x : Py (α × β)) : (call x fun (a, b) => ret (a, b)) = x := by
  rcases x with _ | _ | ⟨a, b⟩ <;> rfl

theorem call_pmap {α β γ} (h : α → β) (x : Py α) (k : β → Py γ) :
    call (pmap h x) k = call x (fun a => k (h a)) := by
  rcases x with _ | _ | a <;> rfl

theorem call_assoc {α β γ} (x : Py α) (f : α → Py β) (g : β → Py γ) :
    call (call x f) g = call x (fun a => call (f a) g) := by
  rcases x with _ | _ | a <;> rfl

theorem call_eq_some {α β} {x : Py α} {k : α → Py β} {r : β} (h : call x k = some (some r)) :
    ∃ a, x = some (some a) ∧ k a = some (some r) := by
  rcases x with _ | _ | a
  · cases h
  · cases h
  · exact ⟨a, rfl, h⟩

theorem fuel_eq_some {α β} {x : Option α} {k : α → Py β} {r : Option β} (h : fuel x k = some r) :
    ∃ a, x = some a ∧ k a = some r := by
  cases x with
  | none => cases h
  | some a => exact ⟨a, rfl, h⟩

theorem assert_eq_some {β} {c : Bool} {k : Py β} {r : β} (h : assert_ c k = some (some r)) :
    c = true ∧ k = some (some r) := by
  cases c
  · cases h
  · exact ⟨rfl, h⟩

/-- `X` answers only what `xs` answers at some fuel -/
def Below {α} (X : Option α) (xs : Nat → Option α) : Prop := ∀ g, X = some g → ∃ m, xs m = some g

/-- more fuel, same answer -/
def Mono {α} (xs : Nat → Option α) : Prop := ∀ m m', m ≤ m' → OLe (xs m) (xs m')

theorem Mono.const {α} (x : Option α) : Mono (fun _ => x) := fun _ _ _ => OLe.refl _

theorem Mono.pmap {α β} {h : α → β} {xs : Nat → Py α} (hx : Mono xs) : Mono (fun m => pmap h (xs m)) :=
  fun m m' hm => OLe.map (hx m m' hm)

theorem mono_andThen {α β γ} {xs : Nat → Option (Option (α × β))} {ys : α → β → Nat → Option (Option γ)}
    (hx : Mono xs) (hy : ∀ a b, Mono (ys a b)) : Mono (fun m => andThen (xs m) (fun a b => ys a b m)) :=
  fun m m' hm => OLe.andThen (hx m m' hm) (fun a b => hy a b m m' hm)

theorem mono_doCalls (s : PySt) (cs : List Call) (acc : List Call) : Mono (fun m => doCalls m s cs acc) :=
  fun _ _ hm => doCalls_mono hm cs s acc

theorem mono_patternF (cfg : Cfg) (s : PySt) (p : NPat) (acc : List Call) :
    Mono (fun m => patternF cfg m s p acc) := fun _ _ hm => patternF_mono cfg hm s p acc

theorem patternListF_mono (cfg : Cfg) {n m : Nat} (h : n ≤ m) (s : PySt) (ps : List NPat) (acc : List Call) :
    OLe (patternF.patternListF cfg n s ps acc) (patternF.patternListF cfg m s ps acc) :=
  OLe.of_step (fun n => patternF.patternListF cfg n s ps acc) (fun n => (patMono cfg n).2 s ps acc) h

theorem mono_patternListF (cfg : Cfg) (s : PySt) (ps : List NPat) (acc : List Call) :
    Mono (fun m => patternF.patternListF cfg m s ps acc) := fun _ _ hm => patternListF_mono cfg hm s ps acc

theorem andThen_assoc {α β γ δ ε} (x : Option (Option (α × β))) (f : α → β → Option (Option (γ × δ)))
    (g : γ → δ → Option (Option ε)) :
    andThen (andThen x f) g = andThen x fun a b => andThen (f a b) g := by
  unfold andThen
  cases x with
  | none => rfl
  | some o => cases o <;> rfl

/-- sequencing on the generated side (`call`) against sequencing in the model (`andThen`), model → generated -/
theorem ole_call {τ α γ β} (wf : St → τ × α) (h : γ → β) {x : Py St} {X : Py (τ × α)}
    {y : PySt → List Call → Py γ} {F : τ × α → Py β}
    (hx : OLe (pmap wf x) X) (hy : ∀ s a, OLe (pmap h (y s a)) (F (wf (s, a)))) :
    OLe (pmap h (andThen x y)) (call X F) := by
  intro r hr
  obtain ⟨o, ho, rfl⟩ := (pmap_some _ _ _).mp hr
  rcases andThen_eq_some x y o ho with ⟨hn, rfl⟩ | ⟨s, a, hsa, hf⟩
  · rw [hx _ ((pmap_some _ _ _).mpr ⟨none, hn, rfl⟩)]; rfl
  · rw [hx _ ((pmap_some _ _ _).mpr ⟨some (s, a), hsa, rfl⟩)]
    exact hy s a _ ((pmap_some _ _ _).mpr ⟨o, hf, rfl⟩)

/-- the same when the generated side only threads the state -/
theorem ole_callU {τ γ β} (wf : St → τ) (h : γ → β) {x : Py St} {X : Py τ}
    {y : PySt → List Call → Py γ} {F : τ → Py β}
    (hx : OLe (pmap wf x) X) (hy : ∀ s a, OLe (pmap h (y s a)) (F (wf (s, a)))) :
    OLe (pmap h (andThen x y)) (call X F) := by
  intro r hr
  obtain ⟨o, ho, rfl⟩ := (pmap_some _ _ _).mp hr
  rcases andThen_eq_some x y o ho with ⟨hn, rfl⟩ | ⟨s, a, hsa, hf⟩
  · rw [hx _ ((pmap_some _ _ _).mpr ⟨none, hn, rfl⟩)]; rfl
  · rw [hx _ ((pmap_some _ _ _).mpr ⟨some (s, a), hsa, rfl⟩)]
    exact hy s a _ ((pmap_some _ _ _).mpr ⟨o, hf, rfl⟩)

/-- generated → model -/
theorem below_call {τ α γ β} (wf : St → τ × α) (h : γ → β) {xs : Nat → Py St} {X : Py (τ × α)}
    {ys : PySt → List Call → Nat → Py γ} {F : τ × α → Py β}
    (hx : Below X (fun m => pmap wf (xs m))) (mx : Mono xs)
    (hy : ∀ s a, Below (F (wf (s, a))) (fun m => pmap h (ys s a m))) (my : ∀ s a, Mono (ys s a)) :
    Below (call X F) (fun m => pmap h (andThen (xs m) (fun s a => ys s a m))) := by
  intro g hg
  rcases X with _ | _ | v
  · cases hg
  · obtain ⟨m, hm⟩ := hx none rfl
    obtain ⟨o, ho, ho'⟩ := (pmap_some _ _ _).mp hm
    cases o with
    | some _ => cases ho'
    | none =>
      simp only [call] at hg
      cases hg
      exact ⟨m, (pmap_some _ _ _).mpr ⟨none, by simp [andThen, ho], rfl⟩⟩
  · obtain ⟨m, hm⟩ := hx (some v) rfl
    obtain ⟨o, ho, ho'⟩ := (pmap_some _ _ _).mp hm
    cases o with
    | none => cases ho'
    | some sa =>
      obtain ⟨s, a⟩ := sa
      simp only [Option.map_some, Option.some.injEq] at ho'
      subst ho'
      simp only [call] at hg
      obtain ⟨m2, hm2⟩ := hy s a g hg
      obtain ⟨o2, ho2, rfl⟩ := (pmap_some _ _ _).mp hm2
      refine ⟨max m m2, (pmap_some _ _ _).mpr ⟨o2, ?_, rfl⟩⟩
      have h1 := mx m (max m m2) (Nat.le_max_left _ _) _ ho
      have h2 := my s a m2 (max m m2) (Nat.le_max_right _ _) _ ho2
      simp [andThen, h1, h2]

theorem below_callU {τ γ β} (wf : St → τ) (h : γ → β) {xs : Nat → Py St} {X : Py τ}
    {ys : PySt → List Call → Nat → Py γ} {F : τ → Py β}
    (hx : Below X (fun m => pmap wf (xs m))) (mx : Mono xs)
    (hy : ∀ s a, Below (F (wf (s, a))) (fun m => pmap h (ys s a m))) (my : ∀ s a, Mono (ys s a)) :
    Below (call X F) (fun m => pmap h (andThen (xs m) (fun s a => ys s a m))) := by
  intro g hg
  rcases X with _ | _ | v
  · cases hg
  · obtain ⟨m, hm⟩ := hx none rfl
    obtain ⟨o, ho, ho'⟩ := (pmap_some _ _ _).mp hm
    cases o with
    | some _ => cases ho'
    | none =>
      simp only [call] at hg
      cases hg
      exact ⟨m, (pmap_some _ _ _).mpr ⟨none, by simp [andThen, ho], rfl⟩⟩
  · obtain ⟨m, hm⟩ := hx (some v) rfl
    obtain ⟨o, ho, ho'⟩ := (pmap_some _ _ _).mp hm
    cases o with
    | none => cases ho'
    | some sa =>
      obtain ⟨s, a⟩ := sa
      simp only [Option.map_some, Option.some.injEq] at ho'
      subst ho'
      simp only [call] at hg
      obtain ⟨m2, hm2⟩ := hy s a g hg
      obtain ⟨o2, ho2, rfl⟩ := (pmap_some _ _ _).mp hm2
      refine ⟨max m m2, (pmap_some _ _ _).mpr ⟨o2, ?_, rfl⟩⟩
      have h1 := mx m (max m m2) (Nat.le_max_left _ _) _ ho
      have h2 := my s a m2 (max m m2) (Nat.le_max_right _ _) _ ho2
      simp [andThen, h1, h2]

theorem below_of_eq {α} {X : Option α} {xs : Nat → Option α} (m : Nat) (h : X = xs m) : Below X xs :=
  fun g hg => ⟨m, by rw [← h]; exact hg⟩

theorem Below.congr {α} {X : Option α} {xs ys : Nat → Option α} (h : Below X xs) (e : ∀ m, xs m = ys m) :
    Below X ys := fun g hg => by obtain ⟨m, hm⟩ := h g hg; exact ⟨m, by rw [← e]; exact hm⟩

/-! ## the call-emitting tracker -/

/-- one call on the tracker, recorded -/
def emit (n : Nat) (σ : St) (c : Call) : Py St := doCalls n σ.1 [c] σ.2
/-- the value a pattern-building method returns: the new top of the stack -/
def withTop (σ : St) : St × NPat := (σ, InterpTie.topPat σ.1)
def withTopT (σ : St) : St × Proved := (σ, ⟨InterpTie.topPat σ.1⟩)
def emitP (n : Nat) (σ : St) (c : Call) : Py (St × NPat) := pmap withTop (emit n σ c)
def emitT (n : Nat) (σ : St) (c : Call) : Py (St × Proved) := pmap withTopT (emit n σ c)

/-- the model's interpreter as an object: a `Call` carries the ids, the keys of `delta`, the term of
`load`; the pattern / proof arguments are the stack's own terms (the convention of `Pi2/Tracker.lean`,
justified method by method in `Pi2/InterpTie.lean`), the returned value is the new top of the stack -/
def callI (n : Nat) : Interp St where
  phase σ := σ.1.phase
  isStateful := true
  memory σ := σ.1.memory
  pattern _ _ := none
  evar σ x := emitP n σ (.evar x)
  svar σ x := emitP n σ (.svar x)
  symbol σ x := emitP n σ (.symbol x)
  metavar σ id ef sf ps ns hs := emitP n σ (.metavar id ef sf ps ns hs)
  implies σ _ _ := emitP n σ .implies
  app σ _ _ := emitP n σ .app
  «exists» σ x _ := emitP n σ (.ex x)
  esubst σ x _ _ := emitP n σ (.esubst x)
  ssubst σ x _ _ := emitP n σ (.ssubst x)
  mu σ x _ := emitP n σ (.mu x)
  prop1 σ := emitT n σ .prop1
  prop2 σ := emitT n σ .prop2
  prop3 σ := emitT n σ .prop3
  modus_ponens σ _ _ := emitT n σ .mp
  exists_quantifier σ := emitT n σ .quantifier
  exists_generalization σ _ x := emitT n σ (.gen x)
  instantiate σ _ δ := emitT n σ (.instantiate (δ.map (·.1)))
  instantiate_pattern σ _ δ := emitP n σ (.instantiatePattern (δ.map (·.1)))
  pop σ _ := emit n σ .pop
  save σ _ _ := emit n σ .save
  load σ _ t := emit n σ (.load t)
  publish_proof σ _ := emit n σ .publishProof
  publish_axiom σ _ := emit n σ .publishAxiom
  publish_claim σ _ := emit n σ .publishClaim
  into_claim_phase σ := emit n σ .intoClaim
  into_proof_phase σ := emit n σ .intoProof

/-- the tracker with the inherited `Interpreter.pattern` -/
def trackerK (N k : Nat) : Interp St := Interp.close Interpreter.pattern (callI N) k
/-- `MemoizingInterpreter(tracker, S)` -/
def memoK (N k : Nat) (S : List NPat) : Interp (TrSt St) :=
  Interp.close (MemoizingInterpreter.pattern N (callI N) S) (InterpreterTransformer.obj (callI N)) k

/-! ## facts about single calls -/

theorem track1_phase (n : Nat) (s s' : PySt) (c : Call) (h2 : c ≠ .intoClaim) (h3 : c ≠ .intoProof)
    (ht : track1 n s c = some (some s')) : s'.phase = s.phase := by
  by_cases h1 : c = .publishProof
  · subst h1
    simp only [track1] at ht
    split at ht
    · simp only [Option.bind_eq_bind, Option.bind_eq_some_iff] at ht
      obtain ⟨b, _, ht⟩ := ht
      cases b <;> simp at ht
      subst ht; rfl
    · simp at ht
  · exact (track1_frame n s s' c h1 h2 h3 ht).1

theorem emit_some (n : Nat) (σ σ' : St) (c : Call) (h : emit n σ c = some (some σ')) :
    track1 n σ.1 c = some (some σ'.1) ∧ σ'.2 = σ.2 ++ [c] := by
  obtain ⟨x, hx, hr⟩ := (doCalls_single n σ.1 c σ.2 _).mp h
  cases x with
  | none => simp at hr
  | some s' => simp at hr; subst hr; exact ⟨hx, rfl⟩

theorem emit_phase (n : Nat) (σ σ' : St) (c : Call) (h2 : c ≠ .intoClaim) (h3 : c ≠ .intoProof)
    (h : emit n σ c = some (some σ')) : σ'.1.phase = σ.1.phase :=
  track1_phase n _ _ c h2 h3 (emit_some n σ σ' c h).1

theorem emit_mono {n m : Nat} (h : n ≤ m) (σ : St) (c : Call) : OLe (emit n σ c) (emit m σ c) :=
  doCalls_mono h _ _ _

theorem track1_load_push (n : Nat) (s s' : PySt) (t : TTerm) (h : track1 n s (.load t) = some (some s')) :
    s' = s.push t := by
  simp only [track1, Option.bind_eq_bind, Option.bind_eq_some_iff] at h
  obtain ⟨oi, _, h⟩ := h
  cases oi with
  | none => simp at h
  | some i => simp at h; exact h.symm

theorem track1_save_stack (n : Nat) (s s' : PySt) (h : track1 n s .save = some (some s')) :
    s'.stack = s.stack := by
  simp only [track1] at h
  split at h
  · simp only [Option.some.injEq] at h; subst h; rfl
  · simp at h

/-- the run-time typing check of `esubst` / `ssubst` in the model (`track1`) makes the `isinstance`
assertion of `Interpreter.pattern` redundant *on the tracker* (not on an arbitrary interpreter: see
`esubst_guard`) -/
theorem track1_esubst_guard (n : Nat) (s : PySt) (x : VId)
    (h : (InterpTie.topPat s).isMetaHead = false) : track1 n s (.esubst x) = some none := by
  simp only [track1]
  split
  · next p _ plug _ st hs =>
    simp only [InterpTie.topPat, hs, TTerm.body] at h
    simp [h]
  · rfl

theorem track1_ssubst_guard (n : Nat) (s : PySt) (x : VId)
    (h : (InterpTie.topPat s).isMetaHead = false) : track1 n s (.ssubst x) = some none := by
  simp only [track1]
  split
  · next p _ plug _ st hs =>
    simp only [InterpTie.topPat, hs, TTerm.body] at h
    simp [h]
  · rfl

theorem emit_none (n : Nat) (σ : St) (c : Call) (h : track1 n σ.1 c = some none) : emit n σ c = some none :=
  (doCalls_single n σ.1 c σ.2 _).mpr ⟨none, h, rfl⟩

/-! ## an interpreter object that is the tracker seen through an embedding of its state -/

section generic
variable {τ : Type} (emb : St → τ)

def wP (σ : St) : τ × NPat := (emb σ, InterpTie.topPat σ.1)
def wT (σ : St) : τ × Proved := (emb σ, ⟨InterpTie.topPat σ.1⟩)
def gP (N : Nat) (σ : St) (c : Call) : Py (τ × NPat) := pmap (wP emb) (emit N σ c)
def gT (N : Nat) (σ : St) (c : Call) : Py (τ × Proved) := pmap (wT emb) (emit N σ c)
def gU (N : Nat) (σ : St) (c : Call) : Py τ := pmap emb (emit N σ c)

/-- every method of `O` is the tracker's (`callI N`) on the embedded state -/
structure Emits (N : Nat) (O : Interp τ) : Prop where
  phase : ∀ σ, O.phase (emb σ) = σ.1.phase
  evar : ∀ σ x, O.evar (emb σ) x = gP emb N σ (.evar x)
  svar : ∀ σ x, O.svar (emb σ) x = gP emb N σ (.svar x)
  symbol : ∀ σ x, O.symbol (emb σ) x = gP emb N σ (.symbol x)
  metavar : ∀ σ id ef sf ps ns hs, O.metavar (emb σ) id ef sf ps ns hs = gP emb N σ (.metavar id ef sf ps ns hs)
  implies : ∀ σ l r, O.implies (emb σ) l r = gP emb N σ .implies
  app : ∀ σ l r, O.app (emb σ) l r = gP emb N σ .app
  «exists» : ∀ σ x p, O.«exists» (emb σ) x p = gP emb N σ (.ex x)
  esubst : ∀ σ x p q, O.esubst (emb σ) x p q = gP emb N σ (.esubst x)
  ssubst : ∀ σ x p q, O.ssubst (emb σ) x p q = gP emb N σ (.ssubst x)
  mu : ∀ σ x p, O.mu (emb σ) x p = gP emb N σ (.mu x)
  prop1 : ∀ σ, O.prop1 (emb σ) = gT emb N σ .prop1
  prop2 : ∀ σ, O.prop2 (emb σ) = gT emb N σ .prop2
  prop3 : ∀ σ, O.prop3 (emb σ) = gT emb N σ .prop3
  modus_ponens : ∀ σ l r, O.modus_ponens (emb σ) l r = gT emb N σ .mp
  exists_quantifier : ∀ σ, O.exists_quantifier (emb σ) = gT emb N σ .quantifier
  exists_generalization : ∀ σ p x, O.exists_generalization (emb σ) p x = gT emb N σ (.gen x)
  instantiate : ∀ σ p δ, O.instantiate (emb σ) p δ = gT emb N σ (.instantiate (δ.map (·.1)))
  instantiate_pattern : ∀ σ p δ, O.instantiate_pattern (emb σ) p δ = gP emb N σ (.instantiatePattern (δ.map (·.1)))
  save : ∀ σ i t, O.save (emb σ) i t = gU emb N σ .save
  load : ∀ σ i t, O.load (emb σ) i t = gU emb N σ (.load t)
  publish_proof : ∀ σ p, O.publish_proof (emb σ) p = gU emb N σ .publishProof
  publish_axiom : ∀ σ p, O.publish_axiom (emb σ) p = gU emb N σ .publishAxiom
  publish_claim : ∀ σ p, O.publish_claim (emb σ) p = gU emb N σ .publishClaim
  into_claim_phase : ∀ σ, O.into_claim_phase (emb σ) = gU emb N σ .intoClaim
  into_proof_phase : ∀ σ, O.into_proof_phase (emb σ) = gU emb N σ .intoProof

theorem ole_gP {n N : Nat} (h : n ≤ N) (s : PySt) (c : Call) (acc : List Call) :
    OLe (pmap (wP emb) (doCalls n s [c] acc)) (gP emb N (s, acc) c) := OLe.map (doCalls_mono h _ _ _)
theorem ole_gT {n N : Nat} (h : n ≤ N) (s : PySt) (c : Call) (acc : List Call) :
    OLe (pmap (wT emb) (doCalls n s [c] acc)) (gT emb N (s, acc) c) := OLe.map (doCalls_mono h _ _ _)
theorem ole_gU {n N : Nat} (h : n ≤ N) (s : PySt) (c : Call) (acc : List Call) :
    OLe (pmap emb (doCalls n s [c] acc)) (gU emb N (s, acc) c) := OLe.map (doCalls_mono h _ _ _)

theorem below_gP (N : Nat) (s : PySt) (c : Call) (acc : List Call) :
    Below (gP emb N (s, acc) c) (fun m => pmap (wP emb) (doCalls m s [c] acc)) := below_of_eq N rfl
theorem below_gT (N : Nat) (s : PySt) (c : Call) (acc : List Call) :
    Below (gT emb N (s, acc) c) (fun m => pmap (wT emb) (doCalls m s [c] acc)) := below_of_eq N rfl
theorem below_gU (N : Nat) (s : PySt) (c : Call) (acc : List Call) :
    Below (gU emb N (s, acc) c) (fun m => pmap emb (doCalls m s [c] acc)) := below_of_eq N rfl

theorem call_eta2 {α β} (x : Py (α × β)) (k : α × β → Py (α × β)) (hk : ∀ a b, k (a, b) = ret (a, b)) :
    call x k = x := by
  rcases x with _ | _ | ⟨a, b⟩
  · rfl
  · rfl
  · exact hk a b

theorem assert_esubst (N : Nat) (σ : St) (x : VId) :
    assert_ (InterpTie.topPat σ.1).isMetaHead (gP emb N σ (.esubst x)) = gP emb N σ (.esubst x) := by
  cases h : (InterpTie.topPat σ.1).isMetaHead
  · simp only [assert_, Bool.false_eq_true, if_false, raise, gP, emit_none N σ _ (track1_esubst_guard N σ.1 x h)]
    rfl
  · rfl

theorem assert_ssubst (N : Nat) (σ : St) (x : VId) :
    assert_ (InterpTie.topPat σ.1).isMetaHead (gP emb N σ (.ssubst x)) = gP emb N σ (.ssubst x) := by
  cases h : (InterpTie.topPat σ.1).isMetaHead
  · simp only [assert_, Bool.false_eq_true, if_false, raise, gP, emit_none N σ _ (track1_ssubst_guard N σ.1 x h)]
    rfl
  · rfl

/-- the loop `for inst in l: self.pattern(inst)` -/
def walkList (O : Interp τ) {β} (l : List NPat) (s : τ) (k : τ → Py β) : Py β :=
  forEach l s (fun v s => call (O.pattern s v) fun (s, _) => ret s) k

/-- model → generated, at fuel `n` -/
def PatC (cfg : Cfg) (O : Interp τ) (n : Nat) : Prop :=
  ∀ s p acc, OLe (pmap (wP emb) (patternF cfg n s p acc)) (O.pattern (emb (s, acc)) p)

/-- generated → model -/
def PatS (cfg : Cfg) (O : Interp τ) : Prop :=
  ∀ s p acc, Below (O.pattern (emb (s, acc)) p) (fun m => pmap (wP emb) (patternF cfg m s p acc))

theorem PatC.le {cfg : Cfg} {O : Interp τ} {n : Nat} (h : PatC emb cfg O n) {n' : Nat} (hn : n' ≤ n) :
    PatC emb cfg O n' := fun s p acc => (OLe.map (patternF_mono cfg hn s p acc)).trans (h s p acc)

theorem walk_complete {cfg : Cfg} {O : Interp τ} {n : Nat} (ih : PatC emb cfg O n) {γ β} (h : γ → β) :
    ∀ (ps : List NPat) (n' : Nat), n' ≤ n + 1 → ∀ (s : PySt) (acc : List Call)
      (y : PySt → List Call → Py γ) (K : τ → Py β),
      (∀ s a, OLe (pmap h (y s a)) (K (emb (s, a)))) →
      OLe (pmap h (andThen (patternF.patternListF cfg n' s ps acc) y)) (walkList O ps (emb (s, acc)) K) := by
  intro ps
  induction ps with
  | nil =>
    intro n' hn s acc y K hK
    cases n' with
    | zero => simp only [patternF.patternListF, andThen, Option.bind_none, pmap, Option.map_none]; exact OLe.none _
    | succ j =>
      simp only [patternF.patternListF, andThen, Option.bind_some, walkList, forEach]
      exact hK s acc
  | cons p r ihr =>
    intro n' hn s acc y K hK
    cases n' with
    | zero => simp only [patternF.patternListF, andThen, Option.bind_none, pmap, Option.map_none]; exact OLe.none _
    | succ j =>
      rw [patternListF_cons, andThen_assoc]
      simp only [walkList, forEach, call_assoc]
      refine ole_call (wP emb) h ((ih.le emb (by omega)) s p acc) (fun s1 a1 => ?_)
      exact ihr j (by omega) s1 a1 y K hK

theorem walk_sound {cfg : Cfg} {O : Interp τ} (ih : PatS emb cfg O) {γ β} (h : γ → β) :
    ∀ (ps : List NPat) (s : PySt) (acc : List Call)
      (ys : PySt → List Call → Nat → Py γ) (K : τ → Py β),
      (∀ s a, Below (K (emb (s, a))) (fun m => pmap h (ys s a m))) → (∀ s a, Mono (ys s a)) →
      Below (walkList O ps (emb (s, acc)) K)
        (fun m => pmap h (andThen (patternF.patternListF cfg m s ps acc) (fun s a => ys s a m))) := by
  intro ps
  induction ps with
  | nil =>
    intro s acc ys K hK mK g hg
    simp only [walkList, forEach] at hg
    obtain ⟨m, hm⟩ := hK s acc g hg
    refine ⟨m + 1, ?_⟩
    have := mK s acc m (m + 1) (Nat.le_succ _)
    obtain ⟨o, ho, rfl⟩ := (pmap_some _ _ _).mp hm
    exact (pmap_some _ _ _).mpr ⟨o, by simp [patternF.patternListF, andThen, this _ ho], rfl⟩
  | cons p r ihr =>
    intro s acc ys K hK mK g hg
    simp only [walkList, forEach, call_assoc] at hg
    have key := below_call (wP emb) h (xs := fun m => patternF cfg m s p acc)
      (ys := fun s1 a1 m => andThen (patternF.patternListF cfg m s1 r a1) (fun s a => ys s a m))
      (F := fun v => call (ret v.1) fun s => forEach r s (fun v s => call (O.pattern s v) fun (s, _) => ret s) K)
      (ih s p acc) (mono_patternF cfg s p acc)
      (fun s1 a1 => ihr s1 a1 ys K hK mK)
      (fun s1 a1 => mono_andThen (mono_patternListF cfg s1 r a1) (fun s a => mK s a))
    obtain ⟨m, hm⟩ := key g hg
    refine ⟨m + 1, ?_⟩
    show pmap h (andThen (patternF.patternListF cfg (m + 1) s (p :: r) acc) fun s a => ys s a (m + 1)) = some g
    rw [patternListF_cons, andThen_assoc]
    have hle : OLe
        (pmap h (andThen (patternF cfg m s p acc) fun s1 a1 =>
          andThen (patternF.patternListF cfg m s1 r a1) fun s a => ys s a m))
        (pmap h (andThen (patternF cfg m s p acc) fun s1 a1 =>
          andThen (patternF.patternListF cfg m s1 r a1) fun s a => ys s a (m + 1))) :=
      OLe.map (OLe.andThen (OLe.refl _) fun s1 a1 => OLe.andThen (OLe.refl _) fun s a => mK s a m (m + 1) (Nat.le_succ _))
    exact hle _ hm


set_option hygiene false in
/-- the last call of a case: `call (O.m s args) fun (s, t) => ret (s, t)` -/
macro "last_call" : tactic =>
  `(tactic| (rw [call_eta2 _ _ (fun _ _ => rfl)]; first | exact ole_gP emb hn _ _ _ | exact below_gP emb _ _ _ _))

/-- **`Interpreter.pattern` (one level), model → generated** -/
theorem body_complete (cfg : Cfg) {O : Interp τ} {N n : Nat} (hE : Emits emb N O) (hn : n ≤ N)
    (ih : PatC emb cfg O n) (s : PySt) (p : NPat) (acc : List Call) :
    OLe (pmap (wP emb) (buildF cfg n s p acc)) (Interpreter.pattern O (emb (s, acc)) p) := by
  cases p with
  | evar x => simp only [buildF, Interpreter.pattern, hE.evar]; last_call
  | svar x => simp only [buildF, Interpreter.pattern, hE.svar]; last_call
  | sym x => simp only [buildF, Interpreter.pattern, hE.symbol]; last_call
  | mv id ef sf ps ns hs => simp only [buildF, Interpreter.pattern, hE.metavar]; last_call
  | imp l r =>
    simp only [buildF, Interpreter.pattern]
    refine ole_call (wP emb) (wP emb) (ih s l acc) (fun s1 a1 => ?_)
    simp only [wP]
    refine ole_call (wP emb) (wP emb) (ih s1 r a1) (fun s2 a2 => ?_)
    simp only [wP, hE.implies]; last_call
  | app l r =>
    simp only [buildF, Interpreter.pattern]
    refine ole_call (wP emb) (wP emb) (ih s l acc) (fun s1 a1 => ?_)
    simp only [wP]
    refine ole_call (wP emb) (wP emb) (ih s1 r a1) (fun s2 a2 => ?_)
    simp only [wP, hE.app]; last_call
  | ex x q =>
    simp only [buildF, Interpreter.pattern]
    refine ole_call (wP emb) (wP emb) (ih s q acc) (fun s1 a1 => ?_)
    simp only [wP, hE.«exists»]; last_call
  | mu x q =>
    simp only [buildF, Interpreter.pattern]
    refine ole_call (wP emb) (wP emb) (ih s q acc) (fun s1 a1 => ?_)
    simp only [wP, hE.mu]; last_call
  | esub q x plug =>
    simp only [buildF, Interpreter.pattern, assert_, if_true]
    refine ole_call (wP emb) (wP emb) (ih s plug acc) (fun s1 a1 => ?_)
    simp only [wP]
    refine ole_call (wP emb) (wP emb) (ih s1 q a1) (fun s2 a2 => ?_)
    simp only [wP, hE.esubst]
    rw [call_eta2 _ _ (fun _ _ => rfl)]
    have := assert_esubst emb N (s2, a2) x
    simp only [assert_] at this
    rw [this]
    exact ole_gP emb hn _ _ _
  | ssub q x plug =>
    simp only [buildF, Interpreter.pattern, assert_, if_true]
    refine ole_call (wP emb) (wP emb) (ih s plug acc) (fun s1 a1 => ?_)
    simp only [wP]
    refine ole_call (wP emb) (wP emb) (ih s1 q a1) (fun s2 a2 => ?_)
    simp only [wP, hE.ssubst]
    rw [call_eta2 _ _ (fun _ _ => rfl)]
    have := assert_ssubst emb N (s2, a2) x
    simp only [assert_] at this
    rw [this]
    exact ole_gP emb hn _ _ _
  | inst q m =>
    simp only [buildF, Interpreter.pattern, deltaValues]
    refine walk_complete emb ih (wP emb) _ n (Nat.le_succ _) s acc _ _ (fun s1 a1 => ?_)
    refine ole_call (wP emb) (wP emb) (ih s1 q a1) (fun s2 a2 => ?_)
    simp only [wP, hE.instantiate_pattern]; last_call

/-- **`Interpreter.pattern` (one level), generated → model** -/
theorem body_sound (cfg : Cfg) {O : Interp τ} {N : Nat} (hE : Emits emb N O)
    (ih : PatS emb cfg O) (s : PySt) (p : NPat) (acc : List Call) :
    Below (Interpreter.pattern O (emb (s, acc)) p) (fun m => pmap (wP emb) (buildF cfg m s p acc)) := by
  have mP := mono_patternF cfg
  have mD := mono_doCalls
  cases p with
  | evar x => simp only [buildF, Interpreter.pattern, hE.evar]; last_call
  | svar x => simp only [buildF, Interpreter.pattern, hE.svar]; last_call
  | sym x => simp only [buildF, Interpreter.pattern, hE.symbol]; last_call
  | mv id ef sf ps ns hs => simp only [buildF, Interpreter.pattern, hE.metavar]; last_call
  | imp l r =>
    simp only [buildF, Interpreter.pattern]
    refine below_call (wP emb) (wP emb) (ih s l acc) (mP s l acc) (fun s1 a1 => ?_)
      (fun s1 a1 => mono_andThen (mP s1 r a1) (fun s2 a2 => mD s2 _ a2))
    simp only [wP]
    refine below_call (wP emb) (wP emb) (ih s1 r a1) (mP s1 r a1) (fun s2 a2 => ?_) (fun s2 a2 => mD s2 _ a2)
    simp only [wP, hE.implies]; last_call
  | app l r =>
    simp only [buildF, Interpreter.pattern]
    refine below_call (wP emb) (wP emb) (ih s l acc) (mP s l acc) (fun s1 a1 => ?_)
      (fun s1 a1 => mono_andThen (mP s1 r a1) (fun s2 a2 => mD s2 _ a2))
    simp only [wP]
    refine below_call (wP emb) (wP emb) (ih s1 r a1) (mP s1 r a1) (fun s2 a2 => ?_) (fun s2 a2 => mD s2 _ a2)
    simp only [wP, hE.app]; last_call
  | ex x q =>
    simp only [buildF, Interpreter.pattern]
    refine below_call (wP emb) (wP emb) (ih s q acc) (mP s q acc) (fun s1 a1 => ?_) (fun s2 a2 => mD s2 _ a2)
    simp only [wP, hE.«exists»]; last_call
  | mu x q =>
    simp only [buildF, Interpreter.pattern]
    refine below_call (wP emb) (wP emb) (ih s q acc) (mP s q acc) (fun s1 a1 => ?_) (fun s2 a2 => mD s2 _ a2)
    simp only [wP, hE.mu]; last_call
  | esub q x plug =>
    simp only [buildF, Interpreter.pattern, assert_, if_true]
    refine below_call (wP emb) (wP emb) (ih s plug acc) (mP s plug acc) (fun s1 a1 => ?_)
      (fun s1 a1 => mono_andThen (mP s1 q a1) (fun s2 a2 => mD s2 _ a2))
    simp only [wP]
    refine below_call (wP emb) (wP emb) (ih s1 q a1) (mP s1 q a1) (fun s2 a2 => ?_) (fun s2 a2 => mD s2 _ a2)
    simp only [wP, hE.esubst]
    rw [call_eta2 _ _ (fun _ _ => rfl)]
    have := assert_esubst emb N (s2, a2) x
    simp only [assert_] at this
    rw [this]
    exact below_gP emb _ _ _ _
  | ssub q x plug =>
    simp only [buildF, Interpreter.pattern, assert_, if_true]
    refine below_call (wP emb) (wP emb) (ih s plug acc) (mP s plug acc) (fun s1 a1 => ?_)
      (fun s1 a1 => mono_andThen (mP s1 q a1) (fun s2 a2 => mD s2 _ a2))
    simp only [wP]
    refine below_call (wP emb) (wP emb) (ih s1 q a1) (mP s1 q a1) (fun s2 a2 => ?_) (fun s2 a2 => mD s2 _ a2)
    simp only [wP, hE.ssubst]
    rw [call_eta2 _ _ (fun _ _ => rfl)]
    have := assert_ssubst emb N (s2, a2) x
    simp only [assert_] at this
    rw [this]
    exact below_gP emb _ _ _ _
  | inst q m =>
    simp only [buildF, Interpreter.pattern, deltaValues]
    let K : τ → Py (τ × NPat) := fun s' =>
      call (O.pattern s' q) fun (s, t16) => call (O.instantiate_pattern s t16 m) fun (s, t17) => ret (s, t17)
    have hK : ∀ s1 a1, Below (K (emb (s1, a1)))
        (fun m' => pmap (wP emb) (andThen (patternF cfg m' s1 q a1) fun s2 a2 =>
          doCalls m' s2 [.instantiatePattern (m.map (·.1))] a2)) := by
      intro s1 a1
      refine below_call (wP emb) (wP emb) (ih s1 q a1) (mP s1 q a1) (fun s2 a2 => ?_) (fun s2 a2 => mD s2 _ a2)
      simp only [wP, hE.instantiate_pattern]; last_call
    exact walk_sound emb ih (wP emb) (m.map (·.2)) s acc
      (fun s1 a1 m' => andThen (patternF cfg m' s1 q a1) fun s2 a2 =>
        doCalls m' s2 [.instantiatePattern (m.map (·.1))] a2)
      K hK (fun s1 a1 => mono_andThen (mP s1 q a1) (fun s2 a2 => mD s2 _ a2))

end generic

/-! ## (a) `Interpreter.pattern` = `patternF`, plain -/

theorem andThen_pure {α β} (x : Option (Option (α × β))) :
    andThen x (fun a b => some (some (a, b))) = x := by
  rcases x with _ | _ | ⟨a, b⟩ <;> rfl

theorem plain_succ (n : Nat) (s : PySt) (p : NPat) (acc : List Call) :
    patternF {} (n + 1) s p acc = buildF {} n s p acc := by
  rw [patternF_succ]
  simp only [memoHitF, saveF, Option.bind_some, Bool.false_eq_true, if_false]
  exact andThen_pure _

theorem emits_tracker (N k : Nat) : Emits (fun σ => σ) N (trackerK N k) := by
  cases k <;> constructor <;> intros <;> first | rfl | exact (pmap_id _).symm

theorem trackerK_succ (N k : Nat) : (trackerK N (k + 1)).pattern = Interpreter.pattern (trackerK N k) := rfl
theorem trackerK_zero (N : Nat) (σ : St) (p : NPat) : (trackerK N 0).pattern σ p = none := rfl

/-- **the generated walker is `patternF` (1)**: whatever `patternF` answers at fuel `n` — a new state
and the calls made, or an exception — `Interpreter.pattern` on the tracker answers at every tracker fuel
`N ≥ n` and recursion depth `k ≥ n`; the value it returns is the new top of the stack -/
theorem pattern_complete : ∀ (n N k : Nat), n ≤ N → n ≤ k → PatC (fun σ => σ) {} (trackerK N k) n := by
  intro n
  induction n with
  | zero => intro N k _ _ s p acc; simp only [patternF, pmap, Option.map_none]; exact OLe.none _
  | succ n ih =>
    intro N k hN hk s p acc
    obtain ⟨k', rfl⟩ : ∃ k', k = k' + 1 := ⟨k - 1, by omega⟩
    rw [plain_succ, trackerK_succ]
    exact body_complete (fun σ => σ) {} (emits_tracker N k') (by omega) (ih N k' (by omega) (by omega)) s p acc

/-- **the generated walker is `patternF` (2)**: whatever `Interpreter.pattern` on the tracker answers,
`patternF` answers at some fuel -/
theorem pattern_sound (N : Nat) : ∀ k, PatS (fun σ => σ) {} (trackerK N k) := by
  intro k
  induction k with
  | zero => intro s p acc g hg; rw [trackerK_zero] at hg; cases hg
  | succ k ih =>
    intro s p acc g hg
    rw [trackerK_succ] at hg
    obtain ⟨m, hm⟩ := body_sound (fun σ => σ) {} (emits_tracker N k) ih s p acc g hg
    exact ⟨m + 1, by show pmap _ (patternF {} (m + 1) s p acc) = some g; rw [plain_succ]; exact hm⟩

/-! ## (a') `MemoizingInterpreter.pattern` = `patternF` with a suggestion set -/

/-- the state of the transformer whose sub-interpreter is in state `σ`: its own `phase` attribute always
equals the sub-interpreter's -/
def embM (σ : St) : TrSt St := ⟨σ.1.phase, σ⟩

theorem tr_P (N : Nat) (σ : St) (c : Call) (h2 : c ≠ .intoClaim) (h3 : c ≠ .intoProof)
    (k : St × NPat → Py (TrSt St × NPat))
    (hk : ∀ t1 t2, k (t1, t2) = ret (({ phase := σ.1.phase, sub := t1 } : TrSt St), t2)) :
    call (emitP N σ c) k = gP embM N σ c := by
  unfold emitP gP
  rcases h : emit N σ c with _ | _ | σ'
  · rfl
  · rfl
  · simp only [pmap, Option.map_some, call, hk, withTop, wP, embM, emit_phase N σ σ' c h2 h3 h]; rfl

theorem tr_T (N : Nat) (σ : St) (c : Call) (h2 : c ≠ .intoClaim) (h3 : c ≠ .intoProof)
    (k : St × Proved → Py (TrSt St × Proved))
    (hk : ∀ t1 t2, k (t1, t2) = ret (({ phase := σ.1.phase, sub := t1 } : TrSt St), t2)) :
    call (emitT N σ c) k = gT embM N σ c := by
  unfold emitT gT
  rcases h : emit N σ c with _ | _ | σ'
  · rfl
  · rfl
  · simp only [pmap, Option.map_some, call, hk, withTopT, wT, embM, emit_phase N σ σ' c h2 h3 h]; rfl

theorem tr_U (N : Nat) (σ : St) (c : Call) (h2 : c ≠ .intoClaim) (h3 : c ≠ .intoProof)
    (k : St → Py (TrSt St))
    (hk : ∀ t1, k t1 = ret ({ phase := σ.1.phase, sub := t1 } : TrSt St)) :
    call (emit N σ c) k = gU embM N σ c := by
  unfold gU
  rcases h : emit N σ c with _ | _ | σ'
  · rfl
  · rfl
  · simp only [pmap, Option.map_some, call, hk, embM, emit_phase N σ σ' c h2 h3 h]; rfl

theorem emit_intoClaim (N : Nat) (σ : St) :
    emit N σ .intoClaim = some (if σ.1.phase = .gamma then
      some ({ σ.1 with phase := .claim, stack := [] }, σ.2 ++ [.intoClaim]) else none) := by
  simp only [emit, doCalls, track1]
  cases σ.1.phase <;> rfl

theorem emit_intoProof (N : Nat) (σ : St) :
    emit N σ .intoProof = some (if σ.1.phase = .claim then
      some ({ σ.1 with phase := .proof, stack := [] }, σ.2 ++ [.intoProof]) else none) := by
  simp only [emit, doCalls, track1]
  cases σ.1.phase <;> rfl

theorem tr_intoClaim (N : Nat) (σ : St) :
    InterpreterTransformer.into_claim_phase (callI N) (embM σ) = gU embM N σ .intoClaim := by
  obtain ⟨⟨ph, stk, mem, cl, sym⟩, acc⟩ := σ
  simp only [InterpreterTransformer.into_claim_phase, Interpreter.into_claim_phase, gU, callI, embM,
    emit_intoClaim]
  cases ph <;> rfl

theorem tr_intoProof (N : Nat) (σ : St) :
    InterpreterTransformer.into_proof_phase (callI N) (embM σ) = gU embM N σ .intoProof := by
  obtain ⟨⟨ph, stk, mem, cl, sym⟩, acc⟩ := σ
  simp only [InterpreterTransformer.into_proof_phase, Interpreter.into_proof_phase, gU, callI, embM,
    emit_intoProof]
  cases ph <;> rfl

theorem tr_P2 (N : Nat) (σ : St) (c : Call) (h2 : c ≠ .intoClaim) (h3 : c ≠ .intoProof) :
    (call (emitP N σ c) fun x => ret (({ phase := σ.1.phase, sub := x.1 } : TrSt St), x.2)) = gP embM N σ c :=
  tr_P N σ c h2 h3 _ (fun _ _ => rfl)
theorem tr_T2 (N : Nat) (σ : St) (c : Call) (h2 : c ≠ .intoClaim) (h3 : c ≠ .intoProof) :
    (call (emitT N σ c) fun x => ret (({ phase := σ.1.phase, sub := x.1 } : TrSt St), x.2)) = gT embM N σ c :=
  tr_T N σ c h2 h3 _ (fun _ _ => rfl)
theorem tr_U2 (N : Nat) (σ : St) (c : Call) (h2 : c ≠ .intoClaim) (h3 : c ≠ .intoProof) :
    (call (emit N σ c) fun x => ret ({ phase := σ.1.phase, sub := x } : TrSt St)) = gU embM N σ c :=
  tr_U N σ c h2 h3 _ (fun _ => rfl)
theorem emits_transformer (N : Nat) : Emits embM N (InterpreterTransformer.obj (callI N)) where
  phase σ := rfl
  into_claim_phase := tr_intoClaim N
  into_proof_phase := tr_intoProof N
  evar σ x := tr_P2 N σ (.evar x) (by simp) (by simp)
  svar σ x := tr_P2 N σ (.svar x) (by simp) (by simp)
  symbol σ x := tr_P2 N σ (.symbol x) (by simp) (by simp)
  metavar σ id ef sf ps ns hs := tr_P2 N σ (.metavar id ef sf ps ns hs) (by simp) (by simp)
  implies σ _ _ := tr_P2 N σ .implies (by simp) (by simp)
  app σ _ _ := tr_P2 N σ .app (by simp) (by simp)
  «exists» σ x _ := tr_P2 N σ (.ex x) (by simp) (by simp)
  esubst σ x _ _ := tr_P2 N σ (.esubst x) (by simp) (by simp)
  ssubst σ x _ _ := tr_P2 N σ (.ssubst x) (by simp) (by simp)
  mu σ x _ := tr_P2 N σ (.mu x) (by simp) (by simp)
  prop1 σ := tr_T2 N σ .prop1 (by simp) (by simp)
  prop2 σ := tr_T2 N σ .prop2 (by simp) (by simp)
  prop3 σ := tr_T2 N σ .prop3 (by simp) (by simp)
  modus_ponens σ _ _ := tr_T2 N σ .mp (by simp) (by simp)
  exists_quantifier σ := tr_T2 N σ .quantifier (by simp) (by simp)
  exists_generalization σ _ x := tr_T2 N σ (.gen x) (by simp) (by simp)
  instantiate σ _ δ := tr_T2 N σ (.instantiate (δ.map Prod.fst)) (by simp) (by simp)
  instantiate_pattern σ _ δ := tr_P2 N σ (.instantiatePattern (δ.map Prod.fst)) (by simp) (by simp)
  save σ _ _ := tr_U2 N σ .save (by simp) (by simp)
  load σ _ t := tr_U2 N σ (.load t) (by simp) (by simp)
  publish_proof σ _ := tr_U2 N σ .publishProof (by simp) (by simp)
  publish_axiom σ _ := tr_U2 N σ .publishAxiom (by simp) (by simp)
  publish_claim σ _ := tr_U2 N σ .publishClaim (by simp) (by simp)


theorem Emits.close {τ} {emb : St → τ} {N : Nat} {I : Interp τ} (h : Emits emb N I)
    (pat : Interp τ → τ → NPat → Py (τ × NPat)) (k : Nat) : Emits emb N (Interp.close pat I k) := by
  cases k <;>
  exact ⟨h.phase, h.evar, h.svar, h.symbol, h.metavar, h.implies, h.app, h.«exists», h.esubst, h.ssubst, h.mu,
    h.prop1, h.prop2, h.prop3, h.modus_ponens, h.exists_quantifier, h.exists_generalization, h.instantiate,
    h.instantiate_pattern, h.save, h.load, h.publish_proof, h.publish_axiom, h.publish_claim,
    h.into_claim_phase, h.into_proof_phase⟩

theorem emits_memo (N k : Nat) (S : List NPat) : Emits embM N (memoK N k S) :=
  (emits_transformer N).close _ k

theorem memoK_succ (N k : Nat) (S : List NPat) :
    (memoK N (k + 1) S).pattern = MemoizingInterpreter.pattern N (callI N) S (memoK N k S) := rfl
theorem memoK_zero (N : Nat) (S : List NPat) (σ : TrSt St) (p : NPat) : (memoK N 0 S).pattern σ p = none := rfl

theorem memF_inMemory (n : Nat) (p : NPat) (mem : List TTerm) : memF n (.pat p) mem = inMemoryF n p mem := by
  induction mem with
  | nil => rfl
  | cons m r ih => simp only [memF, inMemoryF, ih]

theorem inMemoryF_mono {n m : Nat} (h : n ≤ m) (p : NPat) (mem : List TTerm) :
    OLe (inMemoryF n p mem) (inMemoryF m p mem) :=
  OLe.of_step (fun n => inMemoryF n p mem) (fun n => inMemoryF_step n p mem) h

theorem buildF_mono (cfg : Cfg) (s : PySt) (p : NPat) (acc : List Call) : Mono (fun m => buildF cfg m s p acc) :=
  fun _ _ hm => OLe.of_step (fun n => buildF cfg n s p acc) (fun n => buildF_step cfg n (patMono cfg n) s p acc) hm

theorem memo_succ (S : List NPat) (n : Nat) (s : PySt) (p : NPat) (acc : List Call) :
    patternF { memo := some S } (n + 1) s p acc =
      (inMemoryF n p s.memory).bind fun hit =>
        if hit then doCalls n s [.load (.pat p)] acc
        else andThen (buildF { memo := some S } n s p acc) fun s' a' =>
          if inSet p S then doCalls n s' [.save] a' else some (some (s', a')) := by
  rw [patternF_succ]; rfl

theorem memo_gen (N : Nat) (S : List NPat) (O : Interp (TrSt St)) (σ : St) (p : NPat) :
    MemoizingInterpreter.pattern N (callI N) S O (embM σ) p =
      fuel (inMemoryF N p σ.1.memory) fun hit =>
        if hit then call (O.load (embM σ) noStr (.pat p)) fun s => ret (s, p)
        else if inSet p S then
          call (Interpreter.pattern O (embM σ) p) fun (s, t3) =>
            call (O.save s noStr (.pat p)) fun s => ret (s, t3)
        else call (Interpreter.pattern O (embM σ) p) fun (s, t4) => ret (s, t4) := by
  simp only [MemoizingInterpreter.pattern, andAlso, callI, if_true, embM, memF_inMemory]

section values
variable {τ : Type} (emb : St → τ)

/-- `self.load(str(p), p); return p`: the loaded term is the new top -/
theorem load_complete {n N : Nat} (h : n ≤ N) (s : PySt) (p : NPat) (acc : List Call) :
    OLe (pmap (wP emb) (doCalls n s [.load (.pat p)] acc))
      (call (gU emb N (s, acc) (.load (.pat p))) fun s' => ret (s', p)) := by
  intro r hr
  obtain ⟨o, ho, rfl⟩ := (pmap_some _ _ _).mp hr
  have hN : emit N (s, acc) (.load (.pat p)) = some o := doCalls_mono h _ _ _ _ ho
  simp only [gU, hN]
  cases o with
  | none => rfl
  | some σ' =>
    have := track1_load_push n s σ'.1 (.pat p) (emit_some n (s, acc) σ' _ ho).1
    simp only [pmap, Option.map_some, call, ret, wP, this, InterpTie.topPat, PySt.push, TTerm.body]

theorem load_sound (N : Nat) (s : PySt) (p : NPat) (acc : List Call) :
    Below (call (gU emb N (s, acc) (.load (.pat p))) fun s' => ret (s', p))
      (fun m => pmap (wP emb) (doCalls m s [.load (.pat p)] acc)) := by
  intro g hg
  refine ⟨N, ?_⟩
  simp only [gU, emit] at hg
  show pmap (wP emb) (doCalls N s [.load (.pat p)] acc) = some g
  rcases ho : doCalls N s [.load (.pat p)] acc with _ | _ | σ' <;> rw [ho] at hg
  · cases hg
  · simp only [pmap, Option.map_some, Option.map_none, call] at hg ⊢; exact hg
  · have := track1_load_push N s σ'.1 (.pat p) (emit_some N (s, acc) σ' _ ho).1
    simp only [pmap, Option.map_some, call, ret] at hg ⊢
    rw [← hg]
    simp only [wP, this, InterpTie.topPat, PySt.push, TTerm.body]

/-- `ret = super().pattern(p); self.save(repr(p), p); return ret`: `save` leaves the stack alone -/
theorem save_complete {n N : Nat} (h : n ≤ N) (s : PySt) (acc : List Call) :
    OLe (pmap (wP emb) (doCalls n s [.save] acc))
      (call (gU emb N (s, acc) .save) fun s' => ret (s', InterpTie.topPat s)) := by
  intro r hr
  obtain ⟨o, ho, rfl⟩ := (pmap_some _ _ _).mp hr
  have hN : emit N (s, acc) .save = some o := doCalls_mono h _ _ _ _ ho
  simp only [gU, hN]
  cases o with
  | none => rfl
  | some σ' =>
    have := track1_save_stack n s σ'.1 (emit_some n (s, acc) σ' _ ho).1
    simp only [pmap, Option.map_some, call, ret, wP, InterpTie.topPat, this]

theorem save_sound (N : Nat) (s : PySt) (acc : List Call) :
    Below (call (gU emb N (s, acc) .save) fun s' => ret (s', InterpTie.topPat s))
      (fun m => pmap (wP emb) (doCalls m s [.save] acc)) := by
  intro g hg
  refine ⟨N, ?_⟩
  simp only [gU, emit] at hg
  show pmap (wP emb) (doCalls N s [.save] acc) = some g
  rcases ho : doCalls N s [.save] acc with _ | _ | σ' <;> rw [ho] at hg
  · cases hg
  · simp only [pmap, Option.map_some, Option.map_none, call] at hg ⊢; exact hg
  · have := track1_save_stack N s σ'.1 (emit_some N (s, acc) σ' _ ho).1
    simp only [pmap, Option.map_some, call, ret] at hg ⊢
    rw [← hg]
    simp only [wP, InterpTie.topPat, this]

end values


/-- one level of `MemoizingInterpreter.pattern`, model → generated -/
theorem memo_step_complete (S : List NPat) {O : Interp (TrSt St)} {N n : Nat} (hE : Emits embM N O) (hn : n ≤ N)
    (hb : ∀ s p acc, OLe (pmap (wP embM) (buildF { memo := some S } n s p acc))
      (Interpreter.pattern O (embM (s, acc)) p)) (s : PySt) (p : NPat) (acc : List Call) :
    OLe (pmap (wP embM) (patternF { memo := some S } (n + 1) s p acc))
      (MemoizingInterpreter.pattern N (callI N) S O (embM (s, acc)) p) := by
  rw [memo_succ, memo_gen]
  intro r hr
  cases hmem : inMemoryF n p s.memory with
  | none => rw [hmem] at hr; cases hr
  | some hit =>
    rw [hmem] at hr
    simp only [Option.bind_some] at hr
    have hN : inMemoryF N p s.memory = some hit := inMemoryF_mono hn p _ _ hmem
    simp only [hN, fuel]
    cases hit with
    | true =>
      simp only [if_true] at hr ⊢
      rw [hE.load]
      exact load_complete embM hn s p acc r hr
    | false =>
      simp only [Bool.false_eq_true, if_false] at hr ⊢
      cases hS : inSet p S with
      | true =>
        simp only [hS, if_true] at hr ⊢
        refine ole_call (wP embM) (wP embM) (hb s p acc) (fun s1 a1 => ?_) r hr
        simp only [wP, hE.save]
        exact save_complete embM hn s1 a1
      | false =>
        simp only [hS, Bool.false_eq_true, if_false, andThen_pure] at hr ⊢
        rw [call_eta2 _ _ (fun _ _ => rfl)]
        exact hb s p acc r hr

/-- one level of `MemoizingInterpreter.pattern`, generated → model -/
theorem memo_step_sound (S : List NPat) {O : Interp (TrSt St)} {N : Nat} (hE : Emits embM N O)
    (hb : ∀ s p acc, Below (Interpreter.pattern O (embM (s, acc)) p)
      (fun m => pmap (wP embM) (buildF { memo := some S } m s p acc))) (s : PySt) (p : NPat) (acc : List Call) :
    Below (MemoizingInterpreter.pattern N (callI N) S O (embM (s, acc)) p)
      (fun m => pmap (wP embM) (patternF { memo := some S } m s p acc)) := by
  intro g hg
  rw [memo_gen] at hg
  obtain ⟨hit, hmem, hg⟩ := fuel_eq_some hg
  have key : ∀ M, N ≤ M → ∀ x : Py St,
      ((if hit then doCalls M s [.load (.pat p)] acc
        else andThen (buildF { memo := some S } M s p acc) fun s' a' =>
          if inSet p S then doCalls M s' [.save] a' else some (some (s', a'))) = x) →
      patternF { memo := some S } (M + 1) s p acc = x := by
    intro M hM x hx
    rw [memo_succ, inMemoryF_mono hM p _ _ hmem]
    exact hx
  cases hit with
  | true =>
    simp only [if_true] at hg key
    rw [hE.load] at hg
    obtain ⟨m, hm⟩ := load_sound embM N s p acc g hg
    obtain ⟨o, ho, rfl⟩ := (pmap_some _ _ _).mp hm
    refine ⟨max m N + 1, (pmap_some _ _ _).mpr ⟨o, ?_, rfl⟩⟩
    exact key _ (Nat.le_max_right _ _) _ (doCalls_mono (Nat.le_max_left _ _) _ _ _ _ ho)
  | false =>
    simp only [Bool.false_eq_true, if_false] at hg key
    cases hS : inSet p S with
    | true =>
      simp only [hS, if_true] at hg key
      have := below_call (wP embM) (wP embM) (xs := fun m => buildF { memo := some S } m s p acc)
        (ys := fun s1 a1 m => doCalls m s1 [.save] a1)
        (F := fun v => call (O.save v.1 noStr (.pat p)) fun s => ret (s, v.2))
        (hb s p acc) (buildF_mono _ s p acc)
        (fun s1 a1 => by simp only [wP, hE.save]; exact save_sound embM N s1 a1)
        (fun s1 a1 => mono_doCalls s1 _ a1)
      obtain ⟨m, hm⟩ := this g hg
      obtain ⟨o, ho, rfl⟩ := (pmap_some _ _ _).mp hm
      refine ⟨max m N + 1, (pmap_some _ _ _).mpr ⟨o, ?_, rfl⟩⟩
      refine key _ (Nat.le_max_right _ _) _ ?_
      exact mono_andThen (buildF_mono _ s p acc) (fun s1 a1 => mono_doCalls s1 _ a1) m _ (Nat.le_max_left _ _) _ ho
    | false =>
      simp only [hS, Bool.false_eq_true, if_false, andThen_pure] at hg key
      rw [call_eta2 _ _ (fun _ _ => rfl)] at hg
      obtain ⟨m, hm⟩ := hb s p acc g hg
      obtain ⟨o, ho, rfl⟩ := (pmap_some _ _ _).mp hm
      refine ⟨max m N + 1, (pmap_some _ _ _).mpr ⟨o, ?_, rfl⟩⟩
      exact key _ (Nat.le_max_right _ _) _ (buildF_mono _ s p acc m _ (Nat.le_max_left _ _) _ ho)

/-- **the memoising walker is `patternF` with the suggestion set (1)** -/
theorem memo_pattern_complete (S : List NPat) :
    ∀ (n N k : Nat), n ≤ N → n ≤ k → PatC embM { memo := some S } (memoK N k S) n := by
  intro n
  induction n with
  | zero => intro N k _ _ s p acc; simp only [patternF, pmap, Option.map_none]; exact OLe.none _
  | succ n ih =>
    intro N k hN hk s p acc
    obtain ⟨k', rfl⟩ : ∃ k', k = k' + 1 := ⟨k - 1, by omega⟩
    rw [memoK_succ]
    exact memo_step_complete S (emits_memo N k' S) (by omega)
      (body_complete embM _ (emits_memo N k' S) (by omega) (ih N k' (by omega) (by omega))) s p acc

/-- **the memoising walker is `patternF` with the suggestion set (2)** -/
theorem memo_pattern_sound (S : List NPat) (N : Nat) : ∀ k, PatS embM { memo := some S } (memoK N k S) := by
  intro k
  induction k with
  | zero => intro s p acc g hg; rw [memoK_zero] at hg; cases hg
  | succ k ih =>
    intro s p acc
    rw [memoK_succ]
    exact memo_step_sound S (emits_memo N k S) (body_sound embM _ (emits_memo N k S) ih) s p acc


/-! ## fuel monotonicity of `concF`, `runBasicF`, `runF`, `executeFull` -/

theorem OLe.andThen3 {α β γ δ} {x x' : Option (Option (α × β × γ))} {f f' : α → β → γ → Option (Option δ)}
    (hx : OLe x x') (hf : ∀ a b c, OLe (f a b c) (f' a b c)) : OLe (andThen3 x f) (andThen3 x' f') := by
  unfold _root_.andThen3
  apply OLe.bind hx
  intro o
  rcases o with _ | ⟨a, b, c⟩
  · exact OLe.refl _
  · exact hf a b c

theorem concMem_step (a : NPat) (n : Nat) : ∀ l, OLe (Pf.concF.mem a n l) (Pf.concF.mem a (n + 1) l) := by
  intro l
  induction l with
  | nil => exact OLe.refl _
  | cons x r ih =>
    simp only [Pf.concF.mem, Option.bind_eq_bind, Option.pure_def]
    apply OLe.bind (NPat.peqF_step n x a)
    intro b
    cases b
    · simpa using ih
    · exact OLe.refl _

theorem concF_step (ax : List NPat) : ∀ (n : Nat) (pf : Pf), OLe (Pf.concF ax n pf) (Pf.concF ax (n + 1) pf) := by
  intro n
  induction n with
  | zero => intro pf; simp only [Pf.concF]; exact OLe.none _
  | succ n ih =>
    intro pf
    cases pf with
    | prop1 => exact OLe.refl _
    | prop2 => exact OLe.refl _
    | prop3 => exact OLe.refl _
    | quantifier => exact OLe.refl _
    | mp l r =>
      simp only [Pf.concF, Option.bind_eq_bind, Option.pure_def]
      apply OLe.bind (ih l); intro x
      apply OLe.bind (ih r); intro y
      cases x <;> cases y <;> first | exact OLe.refl _ | exact NPat.pyMP_step n _ _
    | gen p x =>
      simp only [Pf.concF, Option.bind_eq_bind, Option.pure_def]
      apply OLe.bind (ih p); intro o
      cases o with
      | none => exact OLe.refl _
      | some a => exact OLe.bind (NPat.headF_step n a) (fun _ => OLe.refl _)
    | dynInst p δ =>
      simp only [Pf.concF, Option.bind_eq_bind, Option.pure_def]
      apply OLe.bind (ih p); intro o
      cases o with
      | none => exact OLe.refl _
      | some a =>
        apply OLe.ite
        · intro _; exact OLe.refl _
        · intro _; exact OLe.bind ((NPat.monoAll n).1 δ a) (fun _ => OLe.refl _)
    | loadAxiom a =>
      simp only [Pf.concF, Option.bind_eq_bind, Option.pure_def]
      exact OLe.bind (concMem_step a n ax) (fun _ => OLe.refl _)

theorem concF_mono (ax : List NPat) (pf : Pf) : Mono (fun m => Pf.concF ax m pf) :=
  fun _ _ hm => OLe.of_step (fun n => Pf.concF ax n pf) (fun n => concF_step ax n pf) hm

theorem checkF_step (ax : List NPat) (n : Nat) (pf : Pf) (s : PySt) (a : List Call) :
    OLe (checkF ax n pf s a) (checkF ax (n + 1) pf s a) := by
  unfold checkF
  split
  · apply OLe.bind (concF_step ax n pf); intro o
    cases o with
    | none => exact OLe.refl _
    | some adv => exact OLe.bind (NPat.peqF_step n _ _) (fun _ => OLe.refl _)
  · exact OLe.refl _

theorem runF_step (cfg : Cfg) (ax : List NPat) : ∀ (n : Nat) (s : PySt) (pf : Pf) (acc : List Call),
    OLe (Pf.runF cfg ax n s pf acc) (Pf.runF cfg ax (n + 1) s pf acc) := by
  intro n
  induction n with
  | zero => intro s pf acc; simp only [Pf.runF]; exact OLe.none _
  | succ n ih =>
    intro s pf acc
    rw [runF_succ, runF_succ]
    refine OLe.andThen ?_ (fun s' a' => checkF_step ax n pf s' a')
    cases pf with
    | prop1 => exact doCalls_step n _ _ _
    | prop2 => exact doCalls_step n _ _ _
    | prop3 => exact doCalls_step n _ _ _
    | quantifier => exact doCalls_step n _ _ _
    | loadAxiom a => exact doCalls_step n _ _ _
    | mp l r =>
      simp only [rawF]
      exact OLe.andThen3 (ih _ _ _) fun s1 a1 _ => OLe.andThen3 (ih _ _ _) fun s2 a2 _ => doCalls_step n _ _ _
    | gen p x =>
      simp only [rawF]
      exact OLe.andThen3 (ih _ _ _) fun s1 a1 _ => doCalls_step n _ _ _
    | dynInst p δ =>
      simp only [rawF]
      apply OLe.ite
      · intro _; exact OLe.andThen3 (ih _ _ _) fun _ _ _ => OLe.refl _
      · intro _
        exact OLe.andThen ((patMono cfg n).2 _ _ _) fun s1 a1 =>
          OLe.andThen3 (ih _ _ _) fun s2 a2 _ => doCalls_step n _ _ _

theorem runF_mono (cfg : Cfg) (ax : List NPat) (s : PySt) (pf : Pf) (acc : List Call) :
    Mono (fun m => Pf.runF cfg ax m s pf acc) :=
  fun _ _ hm => OLe.of_step (fun n => Pf.runF cfg ax n s pf acc) (fun n => runF_step cfg ax n s pf acc) hm

theorem runBasicF_step (ax : List NPat) : ∀ (n : Nat) (pf : Pf),
    OLe (Pf.runBasicF ax n pf) (Pf.runBasicF ax (n + 1) pf) := by
  intro n
  induction n with
  | zero => intro pf; simp only [Pf.runBasicF]; exact OLe.none _
  | succ n ih =>
    intro pf
    rw [runBasicF_succ, runBasicF_succ]
    refine OLe.bind ?_ ?_
    · cases pf with
      | prop1 => exact OLe.refl _
      | prop2 => exact OLe.refl _
      | prop3 => exact OLe.refl _
      | quantifier => exact OLe.refl _
      | loadAxiom a => exact OLe.refl _
      | mp l r =>
        simp only [rawB]
        apply OLe.bind (ih l); intro x
        apply OLe.bind (ih r); intro y
        cases x <;> cases y <;> first | exact OLe.refl _ | exact NPat.pyMP_step n _ _
      | gen p x =>
        simp only [rawB]
        apply OLe.bind (ih p); intro o
        cases o with
        | none => exact OLe.refl _
        | some a => exact NPat.pyGen_step n a x
      | dynInst p δ =>
        simp only [rawB]
        apply OLe.ite
        · intro _; exact ih p
        · intro _
          apply OLe.bind (ih p); intro o
          cases o with
          | none => exact OLe.refl _
          | some a => exact OLe.bind ((NPat.monoAll n).1 δ a) (fun _ => OLe.refl _)
    · intro raw
      cases raw with
      | none => exact OLe.refl _
      | some c =>
        unfold checkB
        apply OLe.bind (concF_step ax n pf); intro o
        cases o with
        | none => exact OLe.refl _
        | some adv => exact OLe.bind (NPat.peqF_step n _ _) (fun _ => OLe.refl _)

theorem runBasicF_mono (ax : List NPat) (pf : Pf) : Mono (fun m => Pf.runBasicF ax m pf) :=
  fun _ _ hm => OLe.of_step (fun n => Pf.runBasicF ax n pf) (fun n => runBasicF_step ax n pf) hm


/-! ## (c) the rule constructors of `ProofExp`: conclusions -/

section rules
variable {τ : Type}

/-- the closures the rule constructors build (the text of the generated lambdas; `mp_eq` … prove that
these *are* the generated ones) -/
def axExpr (m : Interp τ → τ → Py (τ × Proved)) : Nat → Interp τ → τ → Py (τ × Proved) :=
  fun n I s => call (m I s) fun (s, t1) => ret (s, t1)
def mpExpr (tl tr : ProofThunk τ) : Nat → Interp τ → τ → Py (τ × Proved) := fun n I s =>
  call (ProofThunk.__call__ n tl I s) fun (s, t4) =>
  call (ProofThunk.__call__ n tr I s) fun (s, t5) =>
  call (I.modus_ponens s t4 t5) fun (s, t6) => ret (s, t6)
def genExpr (tp : ProofThunk τ) (x : VId) : Nat → Interp τ → τ → Py (τ × Proved) := fun n I s =>
  call (ProofThunk.__call__ n tp I s) fun (s, t3) =>
  call (I.exists_generalization s t3 x) fun (s, t4) => ret (s, t4)
def dynExpr (tp : ProofThunk τ) (δ : List (Nat × NPat)) : Nat → Interp τ → τ → Py (τ × Proved) := fun n I s =>
  forEach (deltaItems δ) (s, δ) (fun (v_idn, v_p) (s, δ) =>
      call (I.pattern s v_p) fun (s, t1) =>
      let δ : List (Nat × NPat) := dictSet δ v_idn t1
      ret (s, δ)
    ) fun (s, δ) =>
  call (ProofThunk.__call__ n tp I s) fun (s, t2) =>
  call (I.instantiate s t2 δ) fun (s, t3) => ret (s, t3)
def loadExpr (a : NPat) : Nat → Interp τ → τ → Py (τ × Proved) := fun n I s =>
  call (I.load s noStr (ofProved ⟨a⟩)) fun s => ret (s, ⟨a⟩)

theorem prop1_eq : (ProofExp.prop1 : ProofThunk τ) = ⟨axExpr (fun I s => I.prop1 s), prop1N⟩ := rfl
theorem prop2_eq : (ProofExp.prop2 : ProofThunk τ) = ⟨axExpr (fun I s => I.prop2 s), prop2N⟩ := rfl
theorem prop3_eq : (ProofExp.prop3 : ProofThunk τ) = ⟨axExpr (fun I s => I.prop3 s), prop3N⟩ := rfl
theorem quant_eq : (ProofExp.exists_quantifier : ProofThunk τ) = ⟨axExpr (fun I s => I.exists_quantifier s), quantN⟩ := rfl

/-- `ProofExp.modus_ponens`: the advertised conclusion is `pyMP` of the two advertised conclusions (the
construction raises when `pyMP` does), the closure runs left, right, `modus_ponens` -/
theorem mp_eq (N : Nat) (tl tr : ProofThunk τ) :
    ProofExp.modus_ponens N tl tr = pmap (ProofThunk.mk (mpExpr tl tr)) (NPat.pyMP N tl.conc tr.conc) := by
  simp only [ProofExp.modus_ponens, NPat.pyMP, extractImplies]
  cases NPat.headF N tl.conc with
  | none => rfl
  | some q =>
    cases q <;> try rfl
    rename_i l r
    simp only [fuel, Option.bind_eq_bind, Option.bind_some, Option.pure_def]
    cases NPat.peqF N l tr.conc with
    | none => rfl
    | some e => cases e <;> rfl

/-- the conclusion `ProofExp.exists_generalization` advertises (no freshness check at construction) -/
def genConc (n : Nat) (a : NPat) (x : VId) : Py NPat :=
  (NPat.headF n a).bind fun h => match h with
    | .imp l r => some (some (.imp (.ex x l) r))
    | _ => some none

theorem gen_eq (N : Nat) (tp : ProofThunk τ) (x : VId) :
    ProofExp.exists_generalization N tp x = pmap (ProofThunk.mk (genExpr tp x)) (genConc N tp.conc x) := by
  simp only [ProofExp.exists_generalization, genConc, extractImplies]
  cases NPat.headF N tp.conc with
  | none => rfl
  | some q => cases q <;> rfl

theorem dyn_eq (N : Nat) (tp : ProofThunk τ) (δ : List (Nat × NPat)) :
    ProofExp.dynamic_inst N tp δ =
      if δ.isEmpty then some (some tp)
      else pmap (ProofThunk.mk (dynExpr tp δ)) ((NPat.instF N δ tp.conc).map some) := by
  simp only [ProofExp.dynamic_inst]
  cases δ.isEmpty with
  | true => rfl
  | false =>
    simp only [Bool.false_eq_true, if_false, fuel]
    cases NPat.instF N δ tp.conc <;> rfl

/-- `ProofExp.instantiate` delegates to `dynamic_inst` with a copy of the dict -/
theorem instantiate_eq (N : Nat) (tp : ProofThunk τ) (δ : List (Nat × NPat)) :
    ProofExp.instantiate N tp δ = ProofExp.dynamic_inst N tp δ := by
  simp only [ProofExp.instantiate, dictCopy]
  exact call_ret _

theorem patMem_eq (n : Nat) (a : NPat) (l : List NPat) : patMemF n a l = Pf.concF.mem a n l := by
  induction l with
  | nil => rfl
  | cons x r ih => simp only [patMemF, Pf.concF.mem, ih]

theorem load_eq (N : Nat) (ax : List NPat) (cl : List NPat) (pfs : List (ProofThunk τ)) (subs : List (ProofExp τ))
    (a : NPat) :
    ProofExp.load_axiom N (ProofExp.mk ax cl pfs subs) a =
      (Pf.concF.mem a N ax).bind fun b => if b then some (some ⟨loadExpr a, a⟩) else some none := by
  simp only [ProofExp.load_axiom, ProofExp._axioms, patMem_eq, fuel]
  cases Pf.concF.mem a N ax with
  | none => rfl
  | some b => cases b <;> rfl

/-- the thunk of a proof expression: the generated rule constructors applied along the tree -/
def build (n : Nat) (ax : List NPat) : Pf → Py (ProofThunk τ)
  | .prop1 => ret ProofExp.prop1
  | .prop2 => ret ProofExp.prop2
  | .prop3 => ret ProofExp.prop3
  | .quantifier => ret ProofExp.exists_quantifier
  | .mp l r => call (build n ax l) fun tl => call (build n ax r) fun tr => ProofExp.modus_ponens n tl tr
  | .gen p x => call (build n ax p) fun tp => ProofExp.exists_generalization n tp x
  | .dynInst p δ => call (build n ax p) fun tp => ProofExp.dynamic_inst n tp δ
  | .loadAxiom a => ProofExp.load_axiom n (ProofExp.mk ax [] [] []) a

theorem pyMP_mono {n m : Nat} (h : n ≤ m) (a b : NPat) : OLe (NPat.pyMP n a b) (NPat.pyMP m a b) :=
  OLe.of_step (fun n => NPat.pyMP n a b) (fun n => NPat.pyMP_step n a b) h

theorem concMem_mono {n m : Nat} (h : n ≤ m) (a : NPat) (l : List NPat) :
    OLe (Pf.concF.mem a n l) (Pf.concF.mem a m l) :=
  OLe.of_step (fun n => Pf.concF.mem a n l) (fun n => concMem_step a n l) h

/-- **the advertised conclusions are `concF` (1)**: whatever `concF` answers at fuel `n` — a conclusion,
or an exception while the thunk is built — the generated constructors answer at every fuel `N ≥ n` -/
theorem conc_complete (ax : List NPat) : ∀ (n : Nat) (pf : Pf) (r : Option NPat),
    Pf.concF ax n pf = some r → ∀ N, n ≤ N → pmap ProofThunk.conc (build (τ := τ) N ax pf) = some r := by
  intro n
  induction n with
  | zero => intro pf r h; simp [Pf.concF] at h
  | succ n ih =>
    intro pf r h N hN
    have hn : n ≤ N := by omega
    cases pf with
    | prop1 => simp only [Pf.concF, Option.some.injEq] at h; subst h; rfl
    | prop2 => simp only [Pf.concF, Option.some.injEq] at h; subst h; rfl
    | prop3 => simp only [Pf.concF, Option.some.injEq] at h; subst h; rfl
    | quantifier => simp only [Pf.concF, Option.some.injEq] at h; subst h; rfl
    | mp l r' =>
      simp only [Pf.concF, Option.bind_eq_bind, Option.bind_eq_some_iff] at h
      obtain ⟨x, hx, y, hy, h⟩ := h
      obtain ⟨ol, hol, rfl⟩ := (pmap_some _ _ _).mp (ih l x hx N hn)
      obtain ⟨or', hor, rfl⟩ := (pmap_some _ _ _).mp (ih r' y hy N hn)
      simp only [build, hol, hor]
      cases ol with
      | none => simp only [Option.map_none, Option.pure_def, Option.some.injEq] at h; subst h; rfl
      | some tl =>
        cases or' with
        | none => simp only [Option.map_none, Option.map_some, Option.pure_def, Option.some.injEq] at h; subst h; rfl
        | some tr =>
          simp only [Option.map_some] at h
          simp only [call, mp_eq, pmap_pmap]
          rw [pyMP_mono hn _ _ _ h]
          cases r <;> rfl
    | gen p x =>
      simp only [Pf.concF, Option.bind_eq_bind, Option.bind_eq_some_iff] at h
      obtain ⟨o, ho, h⟩ := h
      obtain ⟨op, hop, rfl⟩ := (pmap_some _ _ _).mp (ih p o ho N hn)
      simp only [build, hop]
      cases op with
      | none => simp only [Option.map_none, Option.pure_def, Option.some.injEq] at h; subst h; rfl
      | some tp =>
        simp only [Option.map_some, Option.bind_eq_some_iff] at h
        obtain ⟨hd, hhd, h⟩ := h
        simp only [call, gen_eq, pmap_pmap, genConc, NPat.headF_mono hn _ _ hhd, Option.bind_some]
        cases hd <;> simp only [Option.pure_def, Option.some.injEq] at h <;> subst h <;> rfl
    | dynInst p δ =>
      simp only [Pf.concF, Option.bind_eq_bind, Option.bind_eq_some_iff] at h
      obtain ⟨o, ho, h⟩ := h
      obtain ⟨op, hop, rfl⟩ := (pmap_some _ _ _).mp (ih p o ho N hn)
      simp only [build, hop]
      cases op with
      | none => simp only [Option.map_none, Option.pure_def, Option.some.injEq] at h; subst h; rfl
      | some tp =>
        simp only [Option.map_some] at h
        simp only [call, dyn_eq]
        cases hδ : δ.isEmpty with
        | true => simp only [hδ, if_true, Option.pure_def, Option.some.injEq] at h ⊢; subst h; rfl
        | false =>
          simp only [hδ, Bool.false_eq_true, if_false, Option.bind_eq_some_iff, Option.pure_def,
            Option.some.injEq] at h ⊢
          obtain ⟨c, hc, rfl⟩ := h
          rw [NPat.instF_mono hn _ _ _ hc]; rfl
    | loadAxiom a =>
      simp only [Pf.concF, Option.bind_eq_bind, Option.bind_eq_some_iff] at h
      obtain ⟨b, hb, h⟩ := h
      simp only [build, load_eq, concMem_mono hn _ _ _ hb, Option.bind_some]
      cases b <;> simp only [Bool.false_eq_true, if_false, if_true, Option.pure_def, Option.some.injEq] at h ⊢ <;>
        subst h <;> rfl


theorem headF_mono' {n m : Nat} (h : n ≤ m) (a : NPat) : OLe (NPat.headF n a) (NPat.headF m a) :=
  NPat.headF_mono h a

/-- **the advertised conclusions are `concF` (2)**: a thunk that the generated constructors build
advertises the conclusion that `concF` computes (at some fuel) -/
theorem conc_sound (ax : List NPat) (N : Nat) : ∀ (pf : Pf) (t : ProofThunk τ),
    build N ax pf = some (some t) → ∃ m, Pf.concF ax m pf = some (some t.conc) := by
  intro pf
  induction pf with
  | prop1 => intro t h; simp only [build, ret, Option.some.injEq] at h; subst h; exact ⟨1, rfl⟩
  | prop2 => intro t h; simp only [build, ret, Option.some.injEq] at h; subst h; exact ⟨1, rfl⟩
  | prop3 => intro t h; simp only [build, ret, Option.some.injEq] at h; subst h; exact ⟨1, rfl⟩
  | quantifier => intro t h; simp only [build, ret, Option.some.injEq] at h; subst h; exact ⟨1, rfl⟩
  | mp l r ihl ihr =>
    intro t h
    simp only [build] at h
    obtain ⟨tl, hl, h⟩ := call_eq_some h
    obtain ⟨tr, hr, h⟩ := call_eq_some h
    obtain ⟨ml, hml⟩ := ihl tl hl
    obtain ⟨mr, hmr⟩ := ihr tr hr
    rw [mp_eq] at h
    obtain ⟨o, ho, ho'⟩ := (pmap_some _ _ _).mp h
    cases o with
    | none => cases ho'
    | some q =>
      simp only [Option.map_some, Option.some.injEq] at ho'
      subst ho'
      let M := max (max ml mr) N
      refine ⟨M + 1, ?_⟩
      simp only [Pf.concF, Option.bind_eq_bind,
        concF_mono ax l ml M (Nat.le_trans (Nat.le_max_left _ _) (Nat.le_max_left _ _)) _ hml,
        concF_mono ax r mr M (Nat.le_trans (Nat.le_max_right _ _) (Nat.le_max_left _ _)) _ hmr,
        Option.bind_some]
      exact pyMP_mono (Nat.le_max_right _ _) _ _ _ ho
  | gen p x ih =>
    intro t h
    simp only [build] at h
    obtain ⟨tp, hp, h⟩ := call_eq_some h
    obtain ⟨mp, hmp⟩ := ih tp hp
    rw [gen_eq] at h
    obtain ⟨o, ho, ho'⟩ := (pmap_some _ _ _).mp h
    cases o with
    | none => cases ho'
    | some q =>
      simp only [Option.map_some, Option.some.injEq] at ho'
      subst ho'
      simp only [genConc, Option.bind_eq_some_iff] at ho
      obtain ⟨hd, hhd, ho⟩ := ho
      refine ⟨max mp N + 1, ?_⟩
      simp only [Pf.concF, Option.bind_eq_bind, concF_mono ax p mp _ (Nat.le_max_left _ _) _ hmp,
        Option.bind_some, NPat.headF_mono (Nat.le_max_right mp N) _ _ hhd]
      cases hd <;> simp only [Option.some.injEq, reduceCtorEq] at ho <;> subst ho <;> rfl
  | dynInst p δ ih =>
    intro t h
    simp only [build] at h
    obtain ⟨tp, hp, h⟩ := call_eq_some h
    obtain ⟨mp, hmp⟩ := ih tp hp
    rw [dyn_eq] at h
    cases hδ : δ.isEmpty with
    | true =>
      simp only [hδ, if_true, Option.some.injEq] at h
      subst h
      exact ⟨mp + 1, by simp [Pf.concF, hmp, hδ]⟩
    | false =>
      simp only [hδ, Bool.false_eq_true, if_false] at h
      obtain ⟨o, ho, ho'⟩ := (pmap_some _ _ _).mp h
      cases o with
      | none => cases ho'
      | some q =>
        simp only [Option.map_some, Option.some.injEq] at ho'
        subst ho'
        simp only [Option.map_eq_some_iff] at ho
        obtain ⟨c, hc, hq⟩ := ho
        cases hq
        refine ⟨max mp N + 1, ?_⟩
        simp [Pf.concF, concF_mono ax p mp _ (Nat.le_max_left _ _) _ hmp, hδ,
          NPat.instF_mono (Nat.le_max_right mp N) _ _ _ hc]
  | loadAxiom a =>
    intro t h
    simp only [build, load_eq, Option.bind_eq_some_iff] at h
    obtain ⟨b, hb, h⟩ := h
    cases b with
    | false => simp at h
    | true =>
      simp only [if_true, Option.some.injEq] at h
      subst h
      exact ⟨N + 1, by simp [Pf.concF, hb]⟩

end rules


/-! ## (c) the rule constructors: runs on the tracker -/

theorem thunk_call_some {τ} (N : Nat) (t : ProofThunk τ) (O : Interp τ) (σ : τ) (x : τ × Proved) :
    ProofThunk.__call__ N t O σ = some (some x) ↔
      t._expr N O σ = some (some x) ∧ NPat.peqF N x.2.conclusion t.conc = some true := by
  constructor
  · intro h
    simp only [ProofThunk.__call__] at h
    obtain ⟨⟨σ', pr⟩, h1, h2⟩ := call_eq_some h
    obtain ⟨b, hb, h3⟩ := fuel_eq_some h2
    obtain ⟨hbt, h4⟩ := assert_eq_some h3
    subst hbt
    simp only [ret, Option.some.injEq] at h4
    subst h4
    exact ⟨h1, hb⟩
  · rintro ⟨h1, h2⟩
    obtain ⟨σ', pr⟩ := x
    simp only [ProofThunk.__call__, h1, call_some_some, fuel, h2, assert_, if_true, ret]

/-- the calls whose result is a `Proved` on top of the stack -/
def pushesProved : Call → Bool
  | .prop1 | .prop2 | .prop3 | .quantifier | .mp | .gen _ | .instantiate _ | .load (.proved _) => true
  | _ => false

theorem track1_top_proved (n : Nat) (s s' : PySt) (c : Call) (hc : pushesProved c = true)
    (h : track1 n s c = some (some s')) : ∃ a fl st, s'.stack = (.proved a, fl) :: st := by
  cases c <;> simp only [pushesProved, Bool.false_eq_true] at hc
  case prop1 => simp only [track1, Option.some.injEq] at h; subst h; exact ⟨_, _, _, rfl⟩
  case prop2 => simp only [track1, Option.some.injEq] at h; subst h; exact ⟨_, _, _, rfl⟩
  case prop3 => simp only [track1, Option.some.injEq] at h; subst h; exact ⟨_, _, _, rfl⟩
  case quantifier => simp only [track1, Option.some.injEq] at h; subst h; exact ⟨_, _, _, rfl⟩
  case mp =>
    simp only [track1] at h
    split at h
    · simp only [Option.bind_eq_bind, Option.bind_eq_some_iff] at h
      obtain ⟨oc, _, h⟩ := h
      cases oc with
      | none => simp at h
      | some c => simp only [Option.pure_def, Option.some.injEq] at h; subst h; exact ⟨_, _, _, rfl⟩
    · simp at h
  case gen x =>
    simp only [track1] at h
    split at h
    · simp only [Option.bind_eq_bind, Option.bind_eq_some_iff] at h
      obtain ⟨oc, _, h⟩ := h
      cases oc with
      | none => simp at h
      | some c => simp only [Option.pure_def, Option.some.injEq] at h; subst h; exact ⟨_, _, _, rfl⟩
    · simp at h
  case instantiate keys =>
    simp only [track1] at h
    split at h
    · split at h
      · simp only [Option.some.injEq] at h; subst h; exact ⟨_, _, _, rfl⟩
      · split at h
        · simp at h
        · simp only [Option.bind_eq_bind, Option.bind_eq_some_iff, Option.pure_def, Option.some.injEq] at h
          obtain ⟨c, _, h⟩ := h
          subst h; exact ⟨_, _, _, rfl⟩
    · simp at h
  case load t =>
    cases t with
    | pat _ => simp [pushesProved] at hc
    | proved a => rw [track1_load_push n s s' _ h]; exact ⟨_, _, _, rfl⟩

theorem runF_inv (cfg : Cfg) (ax : List NPat) (n : Nat) (s : PySt) (pf : Pf) (acc : List Call)
    (s' : PySt) (a' : List Call) (c : NPat) :
    Pf.runF cfg ax (n + 1) s pf acc = some (some (s', a', c)) ↔
      rawF cfg ax n s pf acc = some (some (s', a')) ∧ (∃ fl st, s'.stack = (.proved c, fl) :: st) ∧
      ∃ adv, Pf.concF ax n pf = some (some adv) ∧ NPat.peqF n c adv = some true := by
  rw [runF_succ]
  constructor
  · intro h
    rcases andThen_eq_some _ _ _ h with ⟨_, hn⟩ | ⟨s1, a1, hraw, hchk⟩
    · cases hn
    · unfold checkF at hchk
      split at hchk
      · next c' fl st hstk =>
        simp only [Option.bind_eq_some_iff] at hchk
        obtain ⟨o, ho, hchk⟩ := hchk
        cases o with
        | none => simp at hchk
        | some adv =>
          simp only [Option.bind_eq_some_iff] at hchk
          obtain ⟨e, he, hchk⟩ := hchk
          cases e with
          | false => simp at hchk
          | true =>
            simp only [if_true, Option.pure_def, Option.some.injEq, Prod.mk.injEq] at hchk
            obtain ⟨rfl, rfl, rfl⟩ := hchk
            exact ⟨hraw, ⟨fl, st, hstk⟩, adv, ho, he⟩
      · simp at hchk
  · rintro ⟨hraw, ⟨fl, st, hstk⟩, adv, hadv, hpeq⟩
    simp only [andThen, hraw, Option.bind_some, checkF, hstk, hadv, hpeq, if_true, Option.pure_def]

theorem runF_top (cfg : Cfg) (ax : List NPat) (n : Nat) (s : PySt) (pf : Pf) (acc : List Call)
    (s' : PySt) (a' : List Call) (c : NPat) (h : Pf.runF cfg ax n s pf acc = some (some (s', a', c))) :
    ∃ fl st, s'.stack = (.proved c, fl) :: st := by
  cases n with
  | zero => simp [Pf.runF] at h
  | succ n => exact ((runF_inv cfg ax n s pf acc s' a' c).mp h).2.1

theorem topPat_of_top {s : PySt} {c : NPat} {fl : Bool} {st : List (TTerm × Bool)}
    (h : s.stack = (.proved c, fl) :: st) : InterpTie.topPat s = c := by
  simp [InterpTie.topPat, h, TTerm.body]

section runs
variable {τ : Type} (emb : St → τ)

/-- the loop of `dynamic_inst`'s closure: `for idn, p in delta.items(): delta[idn] = interpreter.pattern(p)` -/
def itemsBody (O : Interp τ) : Nat × NPat → τ × List (Nat × NPat) → Py (τ × List (Nat × NPat)) :=
  fun (v_idn, v_p) (s, δ) => call (O.pattern s v_p) fun (s, t1) =>
    let δ : List (Nat × NPat) := dictSet δ v_idn t1
    ret (s, δ)

def dynK (O : Interp τ) (N : Nat) (tp : ProofThunk τ) : τ × List (Nat × NPat) → Py (τ × Proved) :=
  fun (s, δ) => call (ProofThunk.__call__ N tp O s) fun (s, t2) => call (O.instantiate s t2 δ) fun (s, t3) => ret (s, t3)

theorem dynExpr_eq (O : Interp τ) (N : Nat) (tp : ProofThunk τ) (δ : List (Nat × NPat)) (σ : τ) :
    dynExpr tp δ N O σ = forEach δ (σ, δ) (itemsBody O) (dynK O N tp) := rfl

theorem dictSet_keys (δ : List (Nat × NPat)) (k : Nat) (v : NPat) : (dictSet δ k v).map (·.1) = δ.map (·.1) := by
  induction δ with
  | nil => rfl
  | cons kv r ih =>
    simp only [dictSet, List.map_cons] at ih ⊢
    rw [ih]
    congr 1
    split <;> rfl

theorem items_complete {cfg : Cfg} {O : Interp τ} {n0 : Nat} (hP : PatC emb cfg O n0) :
    ∀ (items : List (Nat × NPat)) (n' : Nat) (s : PySt) (acc : List Call) (s1 : PySt) (a1 : List Call)
      (δ' : List (Nat × NPat)), n' ≤ n0 + 1 →
      patternF.patternListF cfg n' s (items.map (·.2)) acc = some (some (s1, a1)) →
      ∃ δ'', δ''.map (·.1) = δ'.map (·.1) ∧ ∀ {β} (K : τ × List (Nat × NPat) → Py β),
        forEach items (emb (s, acc), δ') (itemsBody O) K = K (emb (s1, a1), δ'') := by
  intro items
  induction items with
  | nil =>
    intro n' s acc s1 a1 δ' _ h
    cases n' with
    | zero => simp [patternF.patternListF] at h
    | succ j =>
      simp only [List.map_nil, patternF.patternListF, Option.some.injEq, Prod.mk.injEq] at h
      obtain ⟨rfl, rfl⟩ := h
      exact ⟨δ', rfl, fun K => rfl⟩
  | cons kp r ih =>
    intro n' s acc s1 a1 δ' hn h
    obtain ⟨k, p⟩ := kp
    cases n' with
    | zero => simp [patternF.patternListF] at h
    | succ j =>
      simp only [List.map_cons] at h
      rw [patternListF_cons] at h
      rcases andThen_eq_some _ _ _ h with ⟨_, hn'⟩ | ⟨s2, a2, hp, hr⟩
      · cases hn'
      · have hpat := (hP.le emb (show j ≤ n0 by omega)) s p acc _ ((pmap_some _ _ _).mpr ⟨_, hp, rfl⟩)
        obtain ⟨δ'', hk, hK⟩ := ih j s2 a2 s1 a1 (dictSet δ' k (InterpTie.topPat s2)) (by omega) hr
        refine ⟨δ'', by rw [hk, dictSet_keys], fun K => ?_⟩
        simp only [forEach, itemsBody, hpat, Option.map_some, call_some_some, ret, wP]
        exact hK K

theorem last_emit {N n : Nat} (hn : n ≤ N) {s s' : PySt} {acc a' : List Call} {c0 : Call} {c : NPat}
    {fl : Bool} {st : List (TTerm × Bool)} (h : doCalls n s [c0] acc = some (some (s', a')))
    (htop : s'.stack = (.proved c, fl) :: st) :
    gT emb N (s, acc) c0 = some (some (emb (s', a'), ⟨c⟩)) := by
  have : emit N (s, acc) c0 = some (some (s', a')) := doCalls_mono hn _ _ _ _ h
  simp only [gT, this, pmap, Option.map_some, wT, topPat_of_top htop]

/-- **the generated runs are `runF` (1)**: a run of the model that returns — the state, the calls made, the
conclusion — is the run of the thunk which the generated constructors build, on the tracker (plain or
memoising), at every fuel `N ≥ n` -/
theorem run_complete {cfg : Cfg} {O : Interp τ} {N n0 : Nat} (ax : List NPat) (hE : Emits emb N O)
    (hP : PatC emb cfg O n0) :
    ∀ (n : Nat), n ≤ N → n ≤ n0 → ∀ (s : PySt) (pf : Pf) (acc : List Call) (s' : PySt) (a' : List Call) (c : NPat),
      Pf.runF cfg ax n s pf acc = some (some (s', a', c)) →
      ∀ t : ProofThunk τ, build N ax pf = some (some t) →
        ProofThunk.__call__ N t O (emb (s, acc)) = some (some (emb (s', a'), ⟨c⟩)) := by
  intro n
  induction n with
  | zero => intro _ _ s pf acc s' a' c h; simp [Pf.runF] at h
  | succ n ih =>
    intro hN hn0 s pf acc s' a' c h t ht
    have hn : n ≤ N := by omega
    obtain ⟨hraw, ⟨fl, st, htop⟩, adv, hadv, hpeq⟩ := (runF_inv cfg ax n s pf acc s' a' c).mp h
    have hconc : t.conc = adv := by
      have := conc_complete (τ := τ) ax n pf _ hadv N hn
      rw [ht] at this
      simpa [pmap] using this
    refine (thunk_call_some N t O _ _).mpr ⟨?_, by rw [hconc]; exact NPat.peqF_mono hn _ _ _ hpeq⟩
    have ih' := ih hn (by omega)
    cases pf with
    | prop1 =>
      simp only [build, ret, Option.some.injEq] at ht; subst ht
      simp only [prop1_eq, axExpr]; rw [call_eta2 _ _ (fun _ _ => rfl), hE.prop1]
      exact last_emit emb hn hraw htop
    | prop2 =>
      simp only [build, ret, Option.some.injEq] at ht; subst ht
      simp only [prop2_eq, axExpr]; rw [call_eta2 _ _ (fun _ _ => rfl), hE.prop2]
      exact last_emit emb hn hraw htop
    | prop3 =>
      simp only [build, ret, Option.some.injEq] at ht; subst ht
      simp only [prop3_eq, axExpr]; rw [call_eta2 _ _ (fun _ _ => rfl), hE.prop3]
      exact last_emit emb hn hraw htop
    | quantifier =>
      simp only [build, ret, Option.some.injEq] at ht; subst ht
      simp only [quant_eq, axExpr]; rw [call_eta2 _ _ (fun _ _ => rfl), hE.exists_quantifier]
      exact last_emit emb hn hraw htop
    | mp l r =>
      simp only [build] at ht
      obtain ⟨tl, hl, ht⟩ := call_eq_some ht
      obtain ⟨tr, hr, ht⟩ := call_eq_some ht
      rw [mp_eq] at ht
      obtain ⟨o, _, ho'⟩ := (pmap_some _ _ _).mp ht
      cases o with
      | none => cases ho'
      | some q =>
        simp only [Option.map_some, Option.some.injEq] at ho'; subst ho'
        simp only [rawF] at hraw
        rcases andThen3_eq_some _ _ _ hraw with ⟨_, hx⟩ | ⟨s1, a1, c1, h1, hraw⟩
        · cases hx
        rcases andThen3_eq_some _ _ _ hraw with ⟨_, hx⟩ | ⟨s2, a2, c2, h2, hraw⟩
        · cases hx
        simp only [mpExpr, ih' s l acc s1 a1 c1 h1 tl hl, call_some_some, ih' s1 r a1 s2 a2 c2 h2 tr hr]
        rw [call_eta2 _ _ (fun _ _ => rfl), hE.modus_ponens]
        exact last_emit emb hn hraw htop
    | gen p x =>
      simp only [build] at ht
      obtain ⟨tp, hp, ht⟩ := call_eq_some ht
      rw [gen_eq] at ht
      obtain ⟨o, _, ho'⟩ := (pmap_some _ _ _).mp ht
      cases o with
      | none => cases ho'
      | some q =>
        simp only [Option.map_some, Option.some.injEq] at ho'; subst ho'
        simp only [rawF] at hraw
        rcases andThen3_eq_some _ _ _ hraw with ⟨_, hx⟩ | ⟨s1, a1, c1, h1, hraw⟩
        · cases hx
        simp only [genExpr, ih' s p acc s1 a1 c1 h1 tp hp, call_some_some]
        rw [call_eta2 _ _ (fun _ _ => rfl), hE.exists_generalization]
        exact last_emit emb hn hraw htop
    | loadAxiom a =>
      simp only [build, load_eq, Option.bind_eq_some_iff] at ht
      obtain ⟨b, _, ht⟩ := ht
      cases b with
      | false => simp at ht
      | true =>
        simp only [if_true, Option.some.injEq] at ht; subst ht
        simp only [rawF] at hraw
        have hN : emit N (s, acc) (.load (.proved a)) = some (some (s', a')) := doCalls_mono hn _ _ _ _ hraw
        have hpush := track1_load_push N s s' _ (emit_some N (s, acc) (s', a') _ hN).1
        have hca : c = a := by
          rw [hpush] at htop
          simp only [PySt.push, List.cons.injEq, Prod.mk.injEq, TTerm.proved.injEq] at htop
          exact htop.1.1.symm
        subst hca
        simp only [loadExpr, hE.load, gU, ofProved, hN, pmap, Option.map_some, call_some_some, ret]
    | dynInst p δ =>
      simp only [build] at ht
      obtain ⟨tp, hp, ht⟩ := call_eq_some ht
      rw [dyn_eq] at ht
      simp only [rawF] at hraw
      cases hδ : δ.isEmpty with
      | true =>
        simp only [hδ, if_true, Option.some.injEq] at ht hraw; subst ht
        rcases andThen3_eq_some _ _ _ hraw with ⟨_, hx⟩ | ⟨s1, a1, c1, h1, hraw⟩
        · cases hx
        simp only [Option.pure_def, Option.some.injEq, Prod.mk.injEq] at hraw
        obtain ⟨rfl, rfl⟩ := hraw
        obtain ⟨fl1, st1, htop1⟩ := runF_top cfg ax n s p acc _ _ c1 h1
        have hcc : c1 = c := by
          rw [htop1] at htop
          simp only [List.cons.injEq, Prod.mk.injEq, TTerm.proved.injEq] at htop
          exact htop.1.1
        subst hcc
        exact ((thunk_call_some N _ O _ _).mp (ih' s p acc _ _ c1 h1 _ hp)).1
      | false =>
        simp only [hδ, Bool.false_eq_true, if_false] at ht hraw
        obtain ⟨o, _, ho'⟩ := (pmap_some _ _ _).mp ht
        cases o with
        | none => cases ho'
        | some q =>
          simp only [Option.map_some, Option.some.injEq] at ho'; subst ho'
          rcases andThen_eq_some _ _ _ hraw with ⟨_, hx⟩ | ⟨s1, a1, hl, hraw⟩
          · cases hx
          rcases andThen3_eq_some _ _ _ hraw with ⟨_, hx⟩ | ⟨s2, a2, c2, h2, hraw⟩
          · cases hx
          obtain ⟨δ'', hk, hK⟩ := items_complete emb hP δ n s acc s1 a1 δ (by omega) hl
          show dynExpr tp δ N O (emb (s, acc)) = _
          rw [dynExpr_eq, hK]
          simp only [dynK, ih' s1 p a1 s2 a2 c2 h2 tp hp, call_some_some]
          rw [call_eta2 _ _ (fun _ _ => rfl), hE.instantiate, hk]
          exact last_emit emb hn hraw htop


theorem rawF_step (cfg : Cfg) (ax : List NPat) (n : Nat) (s : PySt) (pf : Pf) (acc : List Call) :
    OLe (rawF cfg ax n s pf acc) (rawF cfg ax (n + 1) s pf acc) := by
  have ih := runF_step cfg ax n
  cases pf with
  | prop1 => exact doCalls_step n _ _ _
  | prop2 => exact doCalls_step n _ _ _
  | prop3 => exact doCalls_step n _ _ _
  | quantifier => exact doCalls_step n _ _ _
  | loadAxiom a => exact doCalls_step n _ _ _
  | mp l r =>
    simp only [rawF]
    exact OLe.andThen3 (ih _ _ _) fun s1 a1 _ => OLe.andThen3 (ih _ _ _) fun s2 a2 _ => doCalls_step n _ _ _
  | gen p x =>
    simp only [rawF]
    exact OLe.andThen3 (ih _ _ _) fun s1 a1 _ => doCalls_step n _ _ _
  | dynInst p δ =>
    simp only [rawF]
    apply OLe.ite
    · intro _; exact OLe.andThen3 (ih _ _ _) fun _ _ _ => OLe.refl _
    · intro _
      exact OLe.andThen ((patMono cfg n).2 _ _ _) fun s1 a1 =>
        OLe.andThen3 (ih _ _ _) fun s2 a2 _ => doCalls_step n _ _ _

theorem rawF_mono (cfg : Cfg) (ax : List NPat) (s : PySt) (pf : Pf) (acc : List Call) :
    Mono (fun m => rawF cfg ax m s pf acc) :=
  fun _ _ hm => OLe.of_step (fun n => rawF cfg ax n s pf acc) (fun n => rawF_step cfg ax n s pf acc) hm

theorem gT_some {N : Nat} {s : PySt} {acc : List Call} {c0 : Call} {τ' : τ} {pr : Proved}
    (h : gT emb N (s, acc) c0 = some (some (τ', pr))) :
    ∃ s' a', doCalls N s [c0] acc = some (some (s', a')) ∧ τ' = emb (s', a') ∧ pr = ⟨InterpTie.topPat s'⟩ := by
  obtain ⟨o, ho, ho'⟩ := (pmap_some _ _ _).mp h
  cases o with
  | none => cases ho'
  | some σ' =>
    simp only [Option.map_some, Option.some.injEq, wT, Prod.mk.injEq] at ho'
    exact ⟨σ'.1, σ'.2, ho, ho'.1, ho'.2⟩

/-- put a run of the model together from its parts -/
theorem assemble (cfg : Cfg) (ax : List NPat) {N m0 mc : Nat} {s s' : PySt} {pf : Pf} {acc a' : List Call}
    {c adv : NPat} {fl : Bool} {st : List (TTerm × Bool)}
    (hraw : rawF cfg ax m0 s pf acc = some (some (s', a'))) (htop : s'.stack = (.proved c, fl) :: st)
    (hadv : Pf.concF ax mc pf = some (some adv)) (hpeq : NPat.peqF N c adv = some true) :
    ∃ m, Pf.runF cfg ax m s pf acc = some (some (s', a', c)) := by
  refine ⟨max (max m0 mc) N + 1, (runF_inv cfg ax _ s pf acc s' a' c).mpr ⟨?_, ⟨fl, st, htop⟩, adv, ?_, ?_⟩⟩
  · exact rawF_mono cfg ax s pf acc m0 _ (Nat.le_trans (Nat.le_max_left _ _) (Nat.le_max_left _ _)) _ hraw
  · exact concF_mono ax pf mc _ (Nat.le_trans (Nat.le_max_right _ _) (Nat.le_max_left _ _)) _ hadv
  · exact NPat.peqF_mono (Nat.le_max_right _ _) _ _ _ hpeq

theorem items_sound {cfg : Cfg} {O : Interp τ} (hS : PatS emb cfg O) {β} :
    ∀ (items : List (Nat × NPat)) (s : PySt) (acc : List Call) (δ' : List (Nat × NPat)) (x : β)
      (K : τ × List (Nat × NPat) → Py β),
      forEach items (emb (s, acc), δ') (itemsBody O) K = some (some x) →
      ∃ m s1 a1 δ'', patternF.patternListF cfg m s (items.map (·.2)) acc = some (some (s1, a1)) ∧
        δ''.map (·.1) = δ'.map (·.1) ∧ K (emb (s1, a1), δ'') = some (some x) := by
  intro items
  induction items with
  | nil =>
    intro s acc δ' x K h
    exact ⟨1, s, acc, δ', rfl, rfl, h⟩
  | cons kp r ih =>
    intro s acc δ' x K h
    obtain ⟨k, p⟩ := kp
    simp only [forEach] at h
    obtain ⟨⟨τ1, δ1⟩, hb, h⟩ := call_eq_some h
    simp only [itemsBody] at hb
    obtain ⟨⟨τ0, v⟩, hp, hb⟩ := call_eq_some hb
    simp only [ret, Option.some.injEq, Prod.mk.injEq] at hb
    obtain ⟨rfl, rfl⟩ := hb
    obtain ⟨m, hm⟩ := hS s p acc _ hp
    obtain ⟨o, ho, ho'⟩ := (pmap_some _ _ _).mp hm
    cases o with
    | none => cases ho'
    | some σ2 =>
      obtain ⟨s2, a2⟩ := σ2
      simp only [Option.map_some, Option.some.injEq, wP, Prod.mk.injEq] at ho'
      obtain ⟨rfl, rfl⟩ := ho'
      obtain ⟨m', s1, a1, δ'', hl, hk, hK⟩ := ih s2 a2 _ x K h
      refine ⟨max m m' + 1, s1, a1, δ'', ?_, by rw [hk, dictSet_keys], hK⟩
      simp only [List.map_cons]
      rw [patternListF_cons]
      simp only [andThen, patternF_mono cfg (Nat.le_max_left m m') _ _ _ _ ho, Option.bind_some]
      exact patternListF_mono cfg (Nat.le_max_right m m') _ _ _ _ hl

/-- **the generated runs are `runF` (2)**: a run of a generated thunk on the tracker that returns is a run
of the model (at some fuel): same state, same calls, same conclusion -/
theorem run_sound {cfg : Cfg} {O : Interp τ} {N : Nat} (ax : List NPat) (hE : Emits emb N O)
    (hS : PatS emb cfg O) :
    ∀ (pf : Pf) (t : ProofThunk τ), build N ax pf = some (some t) →
      ∀ (s : PySt) (acc : List Call) (τ' : τ) (pr : Proved),
        ProofThunk.__call__ N t O (emb (s, acc)) = some (some (τ', pr)) →
        ∃ m s' a', Pf.runF cfg ax m s pf acc = some (some (s', a', pr.conclusion)) ∧ τ' = emb (s', a') := by
  intro pf
  induction pf with
  | prop1 =>
    intro t ht s acc τ' pr h
    obtain ⟨mc, hmc⟩ := conc_sound ax N _ t ht
    obtain ⟨hexpr, hpeq⟩ := (thunk_call_some N t O _ _).mp h
    simp only [build, ret, Option.some.injEq] at ht; subst ht
    simp only [prop1_eq, axExpr] at hexpr
    rw [call_eta2 _ _ (fun _ _ => rfl), hE.prop1] at hexpr
    obtain ⟨s', a', hd, rfl, rfl⟩ := gT_some emb hexpr
    obtain ⟨a, fl, st, htop⟩ := track1_top_proved N s s' _ rfl (emit_some N (s, acc) (s', a') _ hd).1
    obtain ⟨m, hm⟩ := assemble cfg ax (m0 := N) (pf := .prop1) hd htop hmc (by rw [← topPat_of_top htop]; exact hpeq)
    exact ⟨m, s', a', by rw [topPat_of_top htop]; exact hm, rfl⟩
  | prop2 =>
    intro t ht s acc τ' pr h
    obtain ⟨mc, hmc⟩ := conc_sound ax N _ t ht
    obtain ⟨hexpr, hpeq⟩ := (thunk_call_some N t O _ _).mp h
    simp only [build, ret, Option.some.injEq] at ht; subst ht
    simp only [prop2_eq, axExpr] at hexpr
    rw [call_eta2 _ _ (fun _ _ => rfl), hE.prop2] at hexpr
    obtain ⟨s', a', hd, rfl, rfl⟩ := gT_some emb hexpr
    obtain ⟨a, fl, st, htop⟩ := track1_top_proved N s s' _ rfl (emit_some N (s, acc) (s', a') _ hd).1
    obtain ⟨m, hm⟩ := assemble cfg ax (m0 := N) (pf := .prop2) hd htop hmc (by rw [← topPat_of_top htop]; exact hpeq)
    exact ⟨m, s', a', by rw [topPat_of_top htop]; exact hm, rfl⟩
  | prop3 =>
    intro t ht s acc τ' pr h
    obtain ⟨mc, hmc⟩ := conc_sound ax N _ t ht
    obtain ⟨hexpr, hpeq⟩ := (thunk_call_some N t O _ _).mp h
    simp only [build, ret, Option.some.injEq] at ht; subst ht
    simp only [prop3_eq, axExpr] at hexpr
    rw [call_eta2 _ _ (fun _ _ => rfl), hE.prop3] at hexpr
    obtain ⟨s', a', hd, rfl, rfl⟩ := gT_some emb hexpr
    obtain ⟨a, fl, st, htop⟩ := track1_top_proved N s s' _ rfl (emit_some N (s, acc) (s', a') _ hd).1
    obtain ⟨m, hm⟩ := assemble cfg ax (m0 := N) (pf := .prop3) hd htop hmc (by rw [← topPat_of_top htop]; exact hpeq)
    exact ⟨m, s', a', by rw [topPat_of_top htop]; exact hm, rfl⟩
  | quantifier =>
    intro t ht s acc τ' pr h
    obtain ⟨mc, hmc⟩ := conc_sound ax N _ t ht
    obtain ⟨hexpr, hpeq⟩ := (thunk_call_some N t O _ _).mp h
    simp only [build, ret, Option.some.injEq] at ht; subst ht
    simp only [quant_eq, axExpr] at hexpr
    rw [call_eta2 _ _ (fun _ _ => rfl), hE.exists_quantifier] at hexpr
    obtain ⟨s', a', hd, rfl, rfl⟩ := gT_some emb hexpr
    obtain ⟨a, fl, st, htop⟩ := track1_top_proved N s s' _ rfl (emit_some N (s, acc) (s', a') _ hd).1
    obtain ⟨m, hm⟩ := assemble cfg ax (m0 := N) (pf := .quantifier) hd htop hmc (by rw [← topPat_of_top htop]; exact hpeq)
    exact ⟨m, s', a', by rw [topPat_of_top htop]; exact hm, rfl⟩
  | loadAxiom a =>
    intro t ht s acc τ' pr h
    obtain ⟨mc, hmc⟩ := conc_sound ax N _ t ht
    obtain ⟨hexpr, hpeq⟩ := (thunk_call_some N t O _ _).mp h
    simp only [build, load_eq, Option.bind_eq_some_iff] at ht
    obtain ⟨b, _, ht⟩ := ht
    cases b with
    | false => simp at ht
    | true =>
      simp only [if_true, Option.some.injEq] at ht; subst ht
      simp only [loadExpr, hE.load, ofProved] at hexpr
      obtain ⟨τ1, hu, hexpr⟩ := call_eq_some hexpr
      simp only [ret, Option.some.injEq, Prod.mk.injEq] at hexpr
      obtain ⟨rfl, rfl⟩ := hexpr
      obtain ⟨o, ho, ho'⟩ := (pmap_some _ _ _).mp hu
      cases o with
      | none => cases ho'
      | some σ' =>
        simp only [Option.map_some, Option.some.injEq] at ho'
        subst ho'
        have hpush := track1_load_push N s σ'.1 _ (emit_some N (s, acc) σ' _ ho).1
        obtain ⟨m, hm⟩ := assemble cfg ax (m0 := N) (pf := .loadAxiom a) (s' := σ'.1) (a' := σ'.2) ho
          (by rw [hpush]; rfl) hmc hpeq
        exact ⟨m, σ'.1, σ'.2, hm, rfl⟩
  | mp l r ihl ihr =>
    intro t ht s acc τ' pr h
    obtain ⟨mc, hmc⟩ := conc_sound ax N _ t ht
    obtain ⟨hexpr, hpeq⟩ := (thunk_call_some N t O _ _).mp h
    simp only [build] at ht
    obtain ⟨tl, hl, ht⟩ := call_eq_some ht
    obtain ⟨tr, hr, ht⟩ := call_eq_some ht
    rw [mp_eq] at ht
    obtain ⟨o, _, ho'⟩ := (pmap_some _ _ _).mp ht
    cases o with
    | none => cases ho'
    | some q =>
      simp only [Option.map_some, Option.some.injEq] at ho'; subst ho'
      simp only [mpExpr] at hexpr
      obtain ⟨⟨τ1, p1⟩, h1, hexpr⟩ := call_eq_some hexpr
      obtain ⟨m1, s1, a1, hr1, rfl⟩ := ihl tl hl s acc τ1 p1 h1
      obtain ⟨⟨τ2, p2⟩, h2, hexpr⟩ := call_eq_some hexpr
      obtain ⟨m2, s2, a2, hr2, rfl⟩ := ihr tr hr s1 a1 τ2 p2 h2
      simp only [] at hexpr
      rw [call_eta2 _ _ (fun _ _ => rfl), hE.modus_ponens] at hexpr
      obtain ⟨s', a', hd, rfl, rfl⟩ := gT_some emb hexpr
      obtain ⟨a, fl, st, htop⟩ := track1_top_proved N s2 s' _ rfl (emit_some N (s2, a2) (s', a') _ hd).1
      have hraw : rawF cfg ax (max (max m1 m2) N) s (.mp l r) acc = some (some (s', a')) := by
        simp only [rawF, andThen3,
          runF_mono cfg ax s l acc m1 _ (Nat.le_trans (Nat.le_max_left _ _) (Nat.le_max_left _ _)) _ hr1,
          runF_mono cfg ax s1 r a1 m2 _ (Nat.le_trans (Nat.le_max_right _ _) (Nat.le_max_left _ _)) _ hr2,
          Option.bind_some]
        exact doCalls_mono (Nat.le_max_right _ _) _ _ _ _ hd
      obtain ⟨m, hm⟩ := assemble cfg ax hraw htop hmc (by rw [← topPat_of_top htop]; exact hpeq)
      exact ⟨m, s', a', by rw [topPat_of_top htop]; exact hm, rfl⟩
  | gen p x ih =>
    intro t ht s acc τ' pr h
    obtain ⟨mc, hmc⟩ := conc_sound ax N _ t ht
    obtain ⟨hexpr, hpeq⟩ := (thunk_call_some N t O _ _).mp h
    simp only [build] at ht
    obtain ⟨tp, hp, ht⟩ := call_eq_some ht
    rw [gen_eq] at ht
    obtain ⟨o, _, ho'⟩ := (pmap_some _ _ _).mp ht
    cases o with
    | none => cases ho'
    | some q =>
      simp only [Option.map_some, Option.some.injEq] at ho'; subst ho'
      simp only [genExpr] at hexpr
      obtain ⟨⟨τ1, p1⟩, h1, hexpr⟩ := call_eq_some hexpr
      obtain ⟨m1, s1, a1, hr1, rfl⟩ := ih tp hp s acc τ1 p1 h1
      simp only [] at hexpr
      rw [call_eta2 _ _ (fun _ _ => rfl), hE.exists_generalization] at hexpr
      obtain ⟨s', a', hd, rfl, rfl⟩ := gT_some emb hexpr
      obtain ⟨a, fl, st, htop⟩ := track1_top_proved N s1 s' _ rfl (emit_some N (s1, a1) (s', a') _ hd).1
      have hraw : rawF cfg ax (max m1 N) s (.gen p x) acc = some (some (s', a')) := by
        simp only [rawF, andThen3, runF_mono cfg ax s p acc m1 _ (Nat.le_max_left _ _) _ hr1, Option.bind_some]
        exact doCalls_mono (Nat.le_max_right _ _) _ _ _ _ hd
      obtain ⟨m, hm⟩ := assemble cfg ax hraw htop hmc (by rw [← topPat_of_top htop]; exact hpeq)
      exact ⟨m, s', a', by rw [topPat_of_top htop]; exact hm, rfl⟩
  | dynInst p δ ih =>
    intro t ht s acc τ' pr h
    obtain ⟨mc, hmc⟩ := conc_sound ax N _ t ht
    obtain ⟨hexpr, hpeq⟩ := (thunk_call_some N t O _ _).mp h
    simp only [build] at ht
    obtain ⟨tp, hp, ht⟩ := call_eq_some ht
    rw [dyn_eq] at ht
    cases hδ : δ.isEmpty with
    | true =>
      simp only [hδ, if_true, Option.some.injEq] at ht; subst ht
      obtain ⟨m1, s', a', hr1, rfl⟩ := ih _ hp s acc τ' pr h
      obtain ⟨fl, st, htop⟩ := runF_top cfg ax m1 s p acc _ _ _ hr1
      have hraw : rawF cfg ax m1 s (.dynInst p δ) acc = some (some (s', a')) := by
        simp only [rawF, hδ, if_true, andThen3, hr1, Option.bind_some, Option.pure_def]
      obtain ⟨m, hm⟩ := assemble cfg ax hraw htop hmc hpeq
      exact ⟨m, s', a', hm, rfl⟩
    | false =>
      simp only [hδ, Bool.false_eq_true, if_false] at ht
      obtain ⟨o, _, ho'⟩ := (pmap_some _ _ _).mp ht
      cases o with
      | none => cases ho'
      | some q =>
        simp only [Option.map_some, Option.some.injEq] at ho'; subst ho'
        replace hexpr : dynExpr tp δ N O (emb (s, acc)) = some (some (τ', pr)) := hexpr
        rw [dynExpr_eq] at hexpr
        obtain ⟨m0, s1, a1, δ'', hl, hk, hK⟩ := items_sound emb hS δ s acc δ _ _ hexpr
        simp only [dynK] at hK
        obtain ⟨⟨τ2, p2⟩, h2, hK⟩ := call_eq_some hK
        obtain ⟨m2, s2, a2, hr2, rfl⟩ := ih tp hp s1 a1 τ2 p2 h2
        simp only [] at hK
        rw [call_eta2 _ _ (fun _ _ => rfl), hE.instantiate, hk] at hK
        obtain ⟨s', a', hd, rfl, rfl⟩ := gT_some emb hK
        obtain ⟨a, fl, st, htop⟩ := track1_top_proved N s2 s' _ rfl (emit_some N (s2, a2) (s', a') _ hd).1
        have hraw : rawF cfg ax (max (max m0 m2) N) s (.dynInst p δ) acc = some (some (s', a')) := by
          simp only [rawF, hδ, Bool.false_eq_true, if_false, andThen, andThen3,
            patternListF_mono cfg (Nat.le_trans (Nat.le_max_left m0 m2) (Nat.le_max_left _ N)) _ _ _ _ hl,
            runF_mono cfg ax s1 p a1 m2 _ (Nat.le_trans (Nat.le_max_right _ _) (Nat.le_max_left _ _)) _ hr2,
            Option.bind_some]
          exact doCalls_mono (Nat.le_max_right _ _) _ _ _ _ hd
        obtain ⟨m, hm⟩ := assemble cfg ax hraw htop hmc (by rw [← topPat_of_top htop]; exact hpeq)
        exact ⟨m, s', a', by rw [topPat_of_top htop]; exact hm, rfl⟩

end runs


/-! ## (b) the phases of `ProofExp`: `execute_full` = `executeFull` -/

/-- a computation that leaves the phase alone -/
def PhaseKeep (x : Py St) (s : PySt) : Prop := ∀ s' a', x = some (some (s', a')) → s'.phase = s.phase

theorem pk_doCalls (n : Nat) (s : PySt) (c : Call) (acc : List Call) (h2 : c ≠ .intoClaim) (h3 : c ≠ .intoProof) :
    PhaseKeep (doCalls n s [c] acc) s :=
  fun s' a' h => emit_phase n (s, acc) (s', a') c h2 h3 h

theorem pk_andThen {x : Py St} {f : PySt → List Call → Py St} {s : PySt} (hx : PhaseKeep x s)
    (hf : ∀ s1 a1, s1.phase = s.phase → PhaseKeep (f s1 a1) s1) : PhaseKeep (andThen x f) s := by
  intro s' a' h
  rcases andThen_eq_some _ _ _ h with ⟨_, hn⟩ | ⟨s1, a1, h1, h2⟩
  · cases hn
  · have := hx s1 a1 h1
    rw [← this]; exact hf s1 a1 this s' a' h2

theorem pk_pure (s : PySt) (acc : List Call) : PhaseKeep (some (some (s, acc))) s := by
  intro s' a' h; simp only [Option.some.injEq, Prod.mk.injEq] at h; rw [h.1]

theorem patternF_phase (cfg : Cfg) : ∀ (n : Nat),
    (∀ s p acc, PhaseKeep (patternF cfg n s p acc) s) ∧
    (∀ s ps acc, PhaseKeep (patternF.patternListF cfg n s ps acc) s) := by
  intro n
  induction n with
  | zero => exact ⟨fun s p acc s' a' h => by simp [patternF] at h,
      fun s ps acc s' a' h => by simp [patternF.patternListF] at h⟩
  | succ n ih =>
    obtain ⟨ihP, ihL⟩ := ih
    have hd : ∀ s c acc, c ≠ .intoClaim → c ≠ .intoProof → PhaseKeep (doCalls n s [c] acc) s :=
      fun s c acc => pk_doCalls n s c acc
    constructor
    · intro s p acc
      rw [patternF_succ]
      intro s' a' h
      simp only [Option.bind_eq_some_iff] at h
      obtain ⟨hit, _, h⟩ := h
      cases hit with
      | true => simp only [if_true] at h; exact hd _ _ _ (by simp) (by simp) s' a' h
      | false =>
        simp only [Bool.false_eq_true, if_false] at h
        refine pk_andThen (s := s) ?_ ?_ s' a' h
        · cases p <;> simp only [buildF] <;>
            repeat' (first
              | exact ihP _ _ _
              | exact ihL _ _ _
              | exact hd _ _ _ (by simp) (by simp)
              | (refine pk_andThen ?_ (fun s1 a1 _ => ?_)))
        · intro s1 a1 _
          unfold saveF
          split
          · split
            · exact hd _ _ _ (by simp) (by simp)
            · exact pk_pure _ _
          · exact pk_pure _ _
    · intro s ps acc
      cases ps with
      | nil => simp only [patternF.patternListF]; exact pk_pure _ _
      | cons p r =>
        rw [patternListF_cons]
        exact pk_andThen (ihP _ _ _) (fun s1 a1 _ => ihL _ _ _)

theorem pub_nil (cfg : Cfg) (n : Nat) (s : PySt) (acc : List Call) (c : Call) :
    PModule.executeFull.pub cfg n s acc c [] = some (some (s, acc)) := rfl

theorem pub_cons (cfg : Cfg) (n : Nat) (s : PySt) (acc : List Call) (c : Call) (a : NPat) (r : List NPat) :
    PModule.executeFull.pub cfg n s acc c (a :: r) =
      andThen (patternF cfg n s a acc) fun s1 a1 => andThen (doCalls n s1 [c] a1) fun s2 a2 =>
        PModule.executeFull.pub cfg n s2 a2 c r := by
  simp only [PModule.executeFull.pub, Option.bind_eq_bind, Option.pure_def, andThen]
  apply obind_congr rfl
  intro o; rcases o with _ | ⟨s1, a1⟩
  · rfl
  · simp only []
    apply obind_congr rfl
    intro o; rcases o with _ | ⟨s2, a2⟩ <;> rfl

theorem pub_append (cfg : Cfg) (n : Nat) (c : Call) : ∀ (l1 l2 : List NPat) (s : PySt) (acc : List Call),
    PModule.executeFull.pub cfg n s acc c (l1 ++ l2) =
      andThen (PModule.executeFull.pub cfg n s acc c l1) fun s1 a1 => PModule.executeFull.pub cfg n s1 a1 c l2 := by
  intro l1
  induction l1 with
  | nil => intro l2 s acc; simp [pub_nil, andThen]
  | cons a r ih =>
    intro l2 s acc
    simp only [List.cons_append, pub_cons, andThen_assoc, ih]

theorem pub_mono (cfg : Cfg) (c : Call) : ∀ (l : List NPat) (s : PySt) (acc : List Call),
    Mono (fun m => PModule.executeFull.pub cfg m s acc c l) := by
  intro l
  induction l with
  | nil => intro s acc; exact Mono.const _
  | cons a r ih =>
    intro s acc
    simp only [pub_cons]
    exact mono_andThen (mono_patternF cfg s a acc) fun s1 a1 =>
      mono_andThen (mono_doCalls s1 _ a1) fun s2 a2 => ih s2 a2

theorem pub_phase (cfg : Cfg) (n : Nat) (c : Call) (h2 : c ≠ .intoClaim) (h3 : c ≠ .intoProof) :
    ∀ (l : List NPat) (s : PySt) (acc : List Call), PhaseKeep (PModule.executeFull.pub cfg n s acc c l) s := by
  intro l
  induction l with
  | nil => intro s acc; exact pk_pure _ _
  | cons a r ih =>
    intro s acc
    rw [pub_cons]
    exact pk_andThen ((patternF_phase cfg n).1 _ _ _) fun s1 a1 _ =>
      pk_andThen (pk_doCalls n s1 c a1 h2 h3) fun s2 a2 _ => ih s2 a2

theorem proofs_nil (cfg : Cfg) (m : PModule) (n : Nat) (s : PySt) (acc : List Call) :
    PModule.executeFull.proofs cfg m n s acc [] = some (some (s, acc)) := rfl

theorem proofs_cons (cfg : Cfg) (m : PModule) (n : Nat) (s : PySt) (acc : List Call) (pf : Pf) (r : List Pf) :
    PModule.executeFull.proofs cfg m n s acc (pf :: r) =
      andThen3 (Pf.runF cfg m.axiomsOf n s pf acc) fun s1 a1 _ => andThen (doCalls n s1 [.publishProof] a1) fun s2 a2 =>
        PModule.executeFull.proofs cfg m n s2 a2 r := by
  simp only [PModule.executeFull.proofs, Option.bind_eq_bind, Option.pure_def, andThen, andThen3]
  apply obind_congr rfl
  intro o; rcases o with _ | ⟨s1, a1, c1⟩
  · rfl
  · simp only []
    apply obind_congr rfl
    intro o; rcases o with _ | ⟨s2, a2⟩ <;> rfl

theorem mono_andThen3 {α β γ δ} {xs : Nat → Option (Option (α × β × γ))} {ys : α → β → γ → Nat → Option (Option δ)}
    (hx : Mono xs) (hy : ∀ a b c, Mono (ys a b c)) : Mono (fun m => andThen3 (xs m) (fun a b c => ys a b c m)) :=
  fun m m' hm => OLe.andThen3 (hx m m' hm) (fun a b c => hy a b c m m' hm)

theorem proofs_mono (cfg : Cfg) (md : PModule) : ∀ (l : List Pf) (s : PySt) (acc : List Call),
    Mono (fun m => PModule.executeFull.proofs cfg md m s acc l) := by
  intro l
  induction l with
  | nil => intro s acc; exact Mono.const _
  | cons pf r ih =>
    intro s acc
    simp only [proofs_cons]
    exact mono_andThen3 (runF_mono cfg _ s pf acc) fun s1 a1 _ =>
      mono_andThen (mono_doCalls s1 _ a1) fun s2 a2 => ih s2 a2

theorem executeFull_eq (cfg : Cfg) (n : Nat) (m : PModule) :
    PModule.executeFull cfg n m =
      andThen (PModule.executeFull.pub cfg n (PySt.init m.claimsOf) [] .publishAxiom m.gammaAxioms) fun s1 a1 =>
      andThen (doCalls n s1 [.intoClaim] a1) fun s2 a2 =>
      andThen (PModule.executeFull.pub cfg n s2 a2 .publishClaim m.claimsOf.reverse) fun s3 a3 =>
      andThen (doCalls n s3 [.intoProof] a3) fun s4 a4 =>
      PModule.executeFull.proofs cfg m n s4 a4 m.proofsOf := by
  simp only [PModule.executeFull, Option.bind_eq_bind, Option.pure_def, andThen]
  repeat' (first
    | rfl
    | (apply obind_congr rfl)
    | (intro o; rcases o with _ | ⟨a, b⟩ <;> simp only []))


section phases
variable {τ : Type} (emb : St → τ)

/-- the `ProofExp` objects of a module tree: same axioms, claims, submodules; the proof thunks of a
submodule are arbitrary (`f`) — `execute_full` never looks at them -/
def subExp (f : PModule → List (ProofThunk τ)) : PModule → ProofExp τ
  | .mk ax cl pfs subs => .mk ax cl (f (.mk ax cl pfs subs)) (subExps subs)
where
  subExps : List PModule → List (ProofExp τ)
    | [] => []
    | m :: r => subExp f m :: subExps r

/-- the `ProofExp` of the main module, given the thunks of its proof expressions -/
def expOf (thunks : List (ProofThunk τ)) (f : PModule → List (ProofThunk τ)) : PModule → ProofExp τ
  | .mk ax cl _ subs => .mk ax cl thunks (subExp.subExps f subs)

/-- the depth of the import tree (the recursion depth of `execute_gamma_phase`) -/
def PModule.depth : PModule → Nat
  | .mk _ _ _ subs => depths subs + 1
where
  depths : List PModule → Nat
    | [] => 0
    | m :: r => max (PModule.depth m) (depths r)

/-- the body of the two publishing loops -/
def pubBody (O : Interp τ) (publish : τ → NPat → Py τ) : NPat → τ → Py τ :=
  fun v s => call (O.pattern s v) fun (s, t1) => call (publish s t1) fun s => ret s

theorem pubLoop_complete {cfg : Cfg} {O : Interp τ} {N n n0 : Nat} (hP : PatC emb cfg O n0) (hn : n ≤ N)
    (hn0 : n ≤ n0) (c : Call) (publish : τ → NPat → Py τ) (hpub : ∀ σ p, publish (emb σ) p = gU emb N σ c) :
    ∀ (as : List NPat) (s : PySt) (acc : List Call) (s' : PySt) (a' : List Call),
      PModule.executeFull.pub cfg n s acc c as = some (some (s', a')) →
      ∀ {β} (K : τ → Py β), forEach as (emb (s, acc)) (pubBody O publish) K = K (emb (s', a')) := by
  intro as
  induction as with
  | nil =>
    intro s acc s' a' h β K
    simp only [pub_nil, Option.some.injEq, Prod.mk.injEq] at h
    obtain ⟨rfl, rfl⟩ := h; rfl
  | cons a r ih =>
    intro s acc s' a' h β K
    rw [pub_cons] at h
    rcases andThen_eq_some _ _ _ h with ⟨_, hx⟩ | ⟨s1, a1, h1, h⟩
    · cases hx
    rcases andThen_eq_some _ _ _ h with ⟨_, hx⟩ | ⟨s2, a2, h2, h⟩
    · cases hx
    have hpat := (hP.le emb hn0) s a acc _ ((pmap_some _ _ _).mpr ⟨_, h1, rfl⟩)
    have hN : emit N (s1, a1) c = some (some (s2, a2)) := doCalls_mono hn _ _ _ _ h2
    simp only [forEach, pubBody, hpat, Option.map_some, call_some_some, wP, hpub, gU, hN, pmap, ret]
    exact ih s2 a2 s' a' h K

theorem pubLoop_sound {cfg : Cfg} {O : Interp τ} {N : Nat} (hS : PatS emb cfg O)
    (c : Call) (publish : τ → NPat → Py τ) (hpub : ∀ σ p, publish (emb σ) p = gU emb N σ c) {β} :
    ∀ (as : List NPat) (s : PySt) (acc : List Call) (x : β) (K : τ → Py β),
      forEach as (emb (s, acc)) (pubBody O publish) K = some (some x) →
      ∃ m s' a', PModule.executeFull.pub cfg m s acc c as = some (some (s', a')) ∧
        K (emb (s', a')) = some (some x) := by
  intro as
  induction as with
  | nil => intro s acc x K h; exact ⟨0, s, acc, rfl, h⟩
  | cons a r ih =>
    intro s acc x K h
    simp only [forEach] at h
    obtain ⟨τ2, hb, h⟩ := call_eq_some h
    simp only [pubBody] at hb
    obtain ⟨⟨τ1, v⟩, hp, hb⟩ := call_eq_some hb
    obtain ⟨τ2', hq, hb⟩ := call_eq_some hb
    simp only [ret, Option.some.injEq] at hb
    subst hb
    obtain ⟨m1, hm1⟩ := hS s a acc _ hp
    obtain ⟨o, ho, ho'⟩ := (pmap_some _ _ _).mp hm1
    cases o with
    | none => cases ho'
    | some σ1 =>
      obtain ⟨s1, a1⟩ := σ1
      simp only [Option.map_some, Option.some.injEq, wP, Prod.mk.injEq] at ho'
      obtain ⟨rfl, rfl⟩ := ho'
      rw [hpub] at hq
      obtain ⟨o2, ho2, ho2'⟩ := (pmap_some _ _ _).mp hq
      cases o2 with
      | none => cases ho2'
      | some σ2 =>
        obtain ⟨s2, a2⟩ := σ2
        simp only [Option.map_some, Option.some.injEq] at ho2'
        subst ho2'
        obtain ⟨m3, s', a', h3, hK⟩ := ih s2 a2 x K h
        refine ⟨max (max m1 N) m3, s', a', ?_, hK⟩
        rw [pub_cons]
        simp only [andThen,
          patternF_mono cfg (Nat.le_trans (Nat.le_max_left m1 N) (Nat.le_max_left _ m3)) _ _ _ _ ho,
          doCalls_mono (Nat.le_trans (Nat.le_max_right m1 N) (Nat.le_max_left _ m3)) _ _ _ _ ho2,
          Option.bind_some]
        exact pub_mono cfg c r s2 a2 m3 _ (Nat.le_max_right _ _) _ h3


theorem gamma_unfold (D : Nat) (ax cl : List NPat) (th : List (ProofThunk τ)) (subs : List (ProofExp τ))
    (O : Interp τ) (σ : τ) (mv : Bool) :
    ProofExp.execute_gamma_phase (D + 1) (ProofExp.mk ax cl th subs) O σ mv =
      assert_ (decide (O.phase σ = Phase.gamma)) (
      forEach subs σ (fun sub s => call (ProofExp.execute_gamma_phase D sub O s false) fun s => ret s) fun s =>
      forEach ax s (pubBody O O.publish_axiom) fun s =>
      call (if mv then call (O.into_claim_phase s) (fun s => ret s) else ret s) fun s => ret s) := rfl

theorem gammaAxioms_mk (ax cl : List NPat) (pfs : List Pf) (subs : List PModule) :
    (PModule.mk ax cl pfs subs).gammaAxioms = PModule.gammaAxioms.gammaList subs ++ ax := by
  simp [PModule.gammaAxioms]

theorem gammaList_cons (m : PModule) (r : List PModule) :
    PModule.gammaAxioms.gammaList (m :: r) = m.gammaAxioms ++ PModule.gammaAxioms.gammaList r := by
  simp [PModule.gammaAxioms.gammaList]

theorem subExp_mk (f : PModule → List (ProofThunk τ)) (ax cl : List NPat) (pfs : List Pf) (subs : List PModule) :
    subExp f (.mk ax cl pfs subs) = .mk ax cl (f (.mk ax cl pfs subs)) (subExp.subExps f subs) := by
  simp [subExp]

theorem subExps_cons (f : PModule → List (ProofThunk τ)) (m : PModule) (r : List PModule) :
    subExp.subExps f (m :: r) = subExp f m :: subExp.subExps f r := by
  simp [subExp.subExps]

/-- the tail of `execute_gamma_phase` / `execute_claims_phase`: `if move: interpreter.into_…_phase()` -/
def moveTail (into : τ → Py τ) (mv : Bool) (σ : τ) : Py τ :=
  call (if mv then call (into σ) (fun s => ret s) else ret σ) fun s => ret s

/-- `execute_gamma_phase`, model → generated: submodules first (depth first, in import order), then the
module's own axioms — the order of `gammaAxioms` -/
theorem gamma_complete {cfg : Cfg} {O : Interp τ} {N n n0 : Nat} (hE : Emits emb N O) (hP : PatC emb cfg O n0)
    (hn : n ≤ N) (hn0 : n ≤ n0) (f : PModule → List (ProofThunk τ)) :
    ∀ (D : Nat) (m : PModule) (th : List (ProofThunk τ)) (s : PySt) (acc : List Call) (s' : PySt)
      (a' : List Call) (mv : Bool), PModule.depth m ≤ D → s.phase = .gamma →
      PModule.executeFull.pub cfg n s acc .publishAxiom m.gammaAxioms = some (some (s', a')) →
      ProofExp.execute_gamma_phase D (ProofExp.mk m.axiomsOf m.claimsOf th (subExp.subExps f m.subsOf)) O
        (emb (s, acc)) mv = moveTail O.into_claim_phase mv (emb (s', a')) := by
  intro D
  induction D with
  | zero => intro m; cases m; intro _ _ _ _ _ _ hd; simp [PModule.depth] at hd
  | succ D ih =>
    intro m th s acc s' a' mv hd hph h
    obtain ⟨ax, cl, pfs, subs⟩ := m
    simp only [PModule.depth, Nat.add_le_add_iff_right] at hd
    have hlist : ∀ (subs : List PModule) (s : PySt) (acc : List Call) (s1 : PySt) (a1 : List Call),
        PModule.depth.depths subs ≤ D → s.phase = .gamma →
        PModule.executeFull.pub cfg n s acc .publishAxiom (PModule.gammaAxioms.gammaList subs) = some (some (s1, a1)) →
        ∀ {β} (K : τ → Py β), forEach (subExp.subExps f subs) (emb (s, acc))
          (fun sub s => call (ProofExp.execute_gamma_phase D sub O s false) fun s => ret s) K = K (emb (s1, a1)) := by
      intro subs
      induction subs with
      | nil =>
        intro s acc s1 a1 _ _ h β K
        simp only [PModule.gammaAxioms.gammaList, pub_nil, Option.some.injEq, Prod.mk.injEq] at h
        obtain ⟨rfl, rfl⟩ := h; rfl
      | cons m r ihr =>
        intro s acc s1 a1 hd hph h β K
        simp only [PModule.depth.depths, Nat.max_le] at hd
        rw [gammaList_cons, pub_append] at h
        rcases andThen_eq_some _ _ _ h with ⟨_, hx⟩ | ⟨s2, a2, h1, h2⟩
        · cases hx
        have hph2 := pub_phase cfg n .publishAxiom (by simp) (by simp) _ s acc s2 a2 h1
        obtain ⟨ax', cl', pfs', subs'⟩ := m
        have := ih (.mk ax' cl' pfs' subs') (f (.mk ax' cl' pfs' subs')) s acc s2 a2 false hd.1 hph h1
        simp only [PModule.axiomsOf, PModule.claimsOf, PModule.subsOf] at this
        simp only [subExps_cons, subExp_mk, forEach, this, moveTail, Bool.false_eq_true, if_false, ret,
          call_some_some]
        exact ihr s2 a2 s1 a1 hd.2 (hph2.trans hph) h2 K
    rw [gammaAxioms_mk, pub_append] at h
    rcases andThen_eq_some _ _ _ h with ⟨_, hx⟩ | ⟨s1, a1, h1, h2⟩
    · cases hx
    simp only [PModule.axiomsOf, PModule.claimsOf, PModule.subsOf, gamma_unfold, hE.phase, hph, decide_true,
      assert_, if_true]
    rw [hlist subs s acc s1 a1 hd hph h1,
      pubLoop_complete emb hP hn hn0 .publishAxiom O.publish_axiom hE.publish_axiom ax s1 a1 s' a' h2]
    rfl

theorem gamma_sound {cfg : Cfg} {O : Interp τ} {N : Nat} (hE : Emits emb N O) (hS : PatS emb cfg O)
    (f : PModule → List (ProofThunk τ)) :
    ∀ (D : Nat) (m : PModule) (th : List (ProofThunk τ)) (s : PySt) (acc : List Call) (mv : Bool) (τ' : τ),
      ProofExp.execute_gamma_phase D (ProofExp.mk m.axiomsOf m.claimsOf th (subExp.subExps f m.subsOf)) O
        (emb (s, acc)) mv = some (some τ') →
      ∃ m0 s' a', PModule.executeFull.pub cfg m0 s acc .publishAxiom m.gammaAxioms = some (some (s', a')) ∧
        moveTail O.into_claim_phase mv (emb (s', a')) = some (some τ') := by
  intro D
  induction D with
  | zero => intro m th s acc mv τ' h; simp [ProofExp.execute_gamma_phase] at h
  | succ D ih =>
    intro m th s acc mv τ' h
    obtain ⟨ax, cl, pfs, subs⟩ := m
    have hlist : ∀ (subs : List PModule) (s : PySt) (acc : List Call) (x : τ) (K : τ → Py τ),
        forEach (subExp.subExps f subs) (emb (s, acc))
          (fun sub s => call (ProofExp.execute_gamma_phase D sub O s false) fun s => ret s) K = some (some x) →
        ∃ m0 s1 a1, PModule.executeFull.pub cfg m0 s acc .publishAxiom (PModule.gammaAxioms.gammaList subs)
            = some (some (s1, a1)) ∧ K (emb (s1, a1)) = some (some x) := by
      intro subs
      induction subs with
      | nil => intro s acc x K h; exact ⟨0, s, acc, rfl, h⟩
      | cons m r ihr =>
        intro s acc x K h
        obtain ⟨ax', cl', pfs', subs'⟩ := m
        simp only [subExps_cons, subExp_mk, forEach] at h
        obtain ⟨τ2, hb, h⟩ := call_eq_some h
        obtain ⟨τ1, hg, hb⟩ := call_eq_some hb
        simp only [ret, Option.some.injEq] at hb
        subst hb
        obtain ⟨m1, s2, a2, hp1, ht⟩ := ih (.mk ax' cl' pfs' subs') _ s acc false τ1 hg
        simp only [moveTail, Bool.false_eq_true, if_false, ret, call_some_some, Option.some.injEq] at ht
        subst ht
        obtain ⟨m2, s1, a1, hp2, hK⟩ := ihr s2 a2 x K h
        refine ⟨max m1 m2, s1, a1, ?_, hK⟩
        rw [gammaList_cons, pub_append]
        simp only [andThen, pub_mono cfg _ _ s acc m1 _ (Nat.le_max_left _ _) _ hp1, Option.bind_some]
        exact pub_mono cfg _ _ s2 a2 m2 _ (Nat.le_max_right _ _) _ hp2
    simp only [PModule.axiomsOf, PModule.claimsOf, PModule.subsOf, gamma_unfold] at h
    obtain ⟨_, h⟩ := assert_eq_some h
    obtain ⟨m1, s1, a1, hp1, h⟩ := hlist subs s acc τ' _ h
    obtain ⟨m2, s', a', hp2, h⟩ := pubLoop_sound emb hS .publishAxiom O.publish_axiom hE.publish_axiom ax s1 a1 τ' _ h
    refine ⟨max m1 m2, s', a', ?_, h⟩
    rw [gammaAxioms_mk, pub_append]
    simp only [andThen, pub_mono cfg _ _ s acc m1 _ (Nat.le_max_left _ _) _ hp1, Option.bind_some]
    exact pub_mono cfg _ _ s1 a1 m2 _ (Nat.le_max_right _ _) _ hp2


/-- the thunks of a module's proof expressions, built one after the other (module construction) -/
def buildAll (N : Nat) (ax : List NPat) : List Pf → Py (List (ProofThunk τ))
  | [] => ret []
  | pf :: r => call (build N ax pf) fun t => call (buildAll N ax r) fun ts => ret (t :: ts)

theorem claims_unfold (ax cl : List NPat) (th : List (ProofThunk τ)) (subs : List (ProofExp τ))
    (O : Interp τ) (σ : τ) (mv : Bool) :
    ProofExp.execute_claims_phase (ProofExp.mk ax cl th subs) O σ mv =
      assert_ (decide (O.phase σ = Phase.claim)) (
      forEach cl.reverse σ (pubBody O O.publish_claim) fun s => moveTail O.into_proof_phase mv s) := rfl

/-- the body of the loop of `execute_proofs_phase`: `self.publish_proof(proof_expr)(interpreter)` -/
def proofBody (N : Nat) (O : Interp τ) : ProofThunk τ → τ → Py τ :=
  fun t s => call (ProofThunk.__call__ N (ProofExp.publish_proof t) O s) fun (s, _) => ret s

theorem proofs_unfold (N : Nat) (ax cl : List NPat) (th : List (ProofThunk τ)) (subs : List (ProofExp τ))
    (O : Interp τ) (σ : τ) :
    ProofExp.execute_proofs_phase N (ProofExp.mk ax cl th subs) O σ =
      assert_ (decide (O.phase σ = Phase.proof)) (forEach th σ (proofBody N O) fun s => ret s) := rfl

theorem full_unfold (N : Nat) (M : ProofExp τ) (O : Interp τ) (σ : τ) :
    ProofExp.execute_full N M O σ =
      assert_ (decide (O.phase σ = Phase.gamma)) (
      call (ProofExp.execute_gamma_phase N M O σ true) fun s =>
      call (ProofExp.execute_claims_phase M O s true) fun s =>
      call (ProofExp.execute_proofs_phase N M O s) fun s => ret s) := rfl

/-- one round of the proof loop: run the thunk, check it, `publish_proof`, return `Proved(conc)`, check that
(`publish_proof(t)(interpreter)` is itself a thunk call: the comparison `t.conc == t.conc` is evaluated) -/
theorem proofBody_eq (N : Nat) (O : Interp τ) (t : ProofThunk τ) (σ σ1 σ2 : τ) (pr : Proved)
    (h1 : ProofThunk.__call__ N t O σ = some (some (σ1, pr))) (h2 : O.publish_proof σ1 pr = some (some σ2))
    (hself : NPat.peqF N t.conc t.conc = some true) : proofBody N O t σ = some (some σ2) := by
  have : ProofThunk.__call__ N (ProofExp.publish_proof t) O σ = some (some (σ2, ⟨t.conc⟩)) := by
    refine (thunk_call_some N _ O σ _).mpr ⟨?_, hself⟩
    simp only [ProofExp.publish_proof, h1, call_some_some, h2, ret]
  simp only [proofBody, this, call_some_some, ret]

theorem proofBody_inv (N : Nat) (O : Interp τ) (t : ProofThunk τ) (σ σ2 : τ)
    (h : proofBody N O t σ = some (some σ2)) :
    ∃ σ1 pr, ProofThunk.__call__ N t O σ = some (some (σ1, pr)) ∧ O.publish_proof σ1 pr = some (some σ2) := by
  simp only [proofBody] at h
  obtain ⟨⟨σ2', pr2⟩, hc, h⟩ := call_eq_some h
  simp only [ret, Option.some.injEq] at h
  subst h
  obtain ⟨hexpr, _⟩ := (thunk_call_some N _ O σ _).mp hc
  simp only [ProofExp.publish_proof] at hexpr
  obtain ⟨⟨σ1, pr⟩, h1, hexpr⟩ := call_eq_some hexpr
  obtain ⟨σ2'', h2, hexpr⟩ := call_eq_some hexpr
  simp only [ret, Option.some.injEq, Prod.mk.injEq] at hexpr
  obtain ⟨rfl, _⟩ := hexpr
  exact ⟨σ1, pr, h1, h2⟩

theorem proofsLoop_complete {cfg : Cfg} {O : Interp τ} {N n n0 : Nat} (md : PModule) (hE : Emits emb N O)
    (hP : PatC emb cfg O n0) (hn : n ≤ N) (hn0 : n ≤ n0)
    (hself : ∀ pf ∈ md.proofsOf, ∀ k adv, Pf.concF md.axiomsOf k pf = some (some adv) →
      NPat.peqF N adv adv = some true) :
    ∀ (pfs : List Pf), (∀ pf ∈ pfs, pf ∈ md.proofsOf) → ∀ (s : PySt) (acc : List Call) (s' : PySt) (a' : List Call),
      PModule.executeFull.proofs cfg md n s acc pfs = some (some (s', a')) →
      ∃ thunks : List (ProofThunk τ), buildAll N md.axiomsOf pfs = some (some thunks) ∧
        ∀ {β} (K : τ → Py β), forEach thunks (emb (s, acc)) (proofBody N O) K = K (emb (s', a')) := by
  intro pfs
  induction pfs with
  | nil =>
    intro _ s acc s' a' h
    simp only [proofs_nil, Option.some.injEq, Prod.mk.injEq] at h
    obtain ⟨rfl, rfl⟩ := h
    exact ⟨[], rfl, fun K => rfl⟩
  | cons pf r ih =>
    intro hmem s acc s' a' h
    rw [proofs_cons] at h
    rcases andThen3_eq_some _ _ _ h with ⟨_, hx⟩ | ⟨s1, a1, c1, h1, h⟩
    · cases hx
    rcases andThen_eq_some _ _ _ h with ⟨_, hx⟩ | ⟨s2, a2, h2, h⟩
    · cases hx
    obtain ⟨thunks, hb, hK⟩ := ih (fun x hx => hmem x (List.mem_cons_of_mem _ hx)) s2 a2 s' a' h
    -- the thunk exists: the run of the model evaluated `concF`
    cases n with
    | zero => simp [Pf.runF] at h1
    | succ n' =>
      obtain ⟨_, _, adv, hadv, _⟩ := (runF_inv cfg md.axiomsOf n' s pf acc s1 a1 c1).mp h1
      have hc := conc_complete (τ := τ) md.axiomsOf n' pf _ hadv N (by omega)
      obtain ⟨o, ho, ho'⟩ := (pmap_some _ _ _).mp hc
      cases o with
      | none => cases ho'
      | some t =>
        simp only [Option.map_some, Option.some.injEq] at ho'
        have hrun := run_complete emb md.axiomsOf hE hP (n' + 1) hn hn0 s pf acc s1 a1 c1 h1 t ho
        have hpub : O.publish_proof (emb (s1, a1)) ⟨c1⟩ = some (some (emb (s2, a2))) := by
          rw [hE.publish_proof]
          simp only [gU, (show emit N (s1, a1) .publishProof = some (some (s2, a2)) from
            doCalls_mono hn _ _ _ _ h2), pmap, Option.map_some]
        have hs : NPat.peqF N t.conc t.conc = some true := by
          rw [← ho']; exact hself pf (hmem pf (by simp)) n' adv hadv
        refine ⟨t :: thunks, by simp only [buildAll, ho, call_some_some, hb, ret], fun K => ?_⟩
        simp only [forEach, proofBody_eq N O t _ _ _ _ hrun hpub hs, call_some_some]
        exact hK K

theorem buildAll_cons {N : Nat} {ax : List NPat} {pf : Pf} {r : List Pf} {ts : List (ProofThunk τ)}
    (h : buildAll N ax (pf :: r) = some (some ts)) :
    ∃ t ts', ts = t :: ts' ∧ build N ax pf = some (some t) ∧ buildAll N ax r = some (some ts') := by
  simp only [buildAll] at h
  obtain ⟨t, ht, h⟩ := call_eq_some h
  obtain ⟨ts', hts, h⟩ := call_eq_some h
  simp only [ret, Option.some.injEq] at h
  exact ⟨t, ts', h.symm, ht, hts⟩

theorem proofsLoop_sound {cfg : Cfg} {O : Interp τ} {N : Nat} (md : PModule) (hE : Emits emb N O)
    (hS : PatS emb cfg O) {β} :
    ∀ (pfs : List Pf) (thunks : List (ProofThunk τ)), buildAll N md.axiomsOf pfs = some (some thunks) →
      ∀ (s : PySt) (acc : List Call) (x : β) (K : τ → Py β),
      forEach thunks (emb (s, acc)) (proofBody N O) K = some (some x) →
      ∃ m0 s' a', PModule.executeFull.proofs cfg md m0 s acc pfs = some (some (s', a')) ∧
        K (emb (s', a')) = some (some x) := by
  intro pfs
  induction pfs with
  | nil =>
    intro thunks hb s acc x K h
    simp only [buildAll, ret, Option.some.injEq] at hb
    subst hb
    exact ⟨0, s, acc, rfl, h⟩
  | cons pf r ih =>
    intro thunks hb s acc x K h
    obtain ⟨t, ts', rfl, ht, hts⟩ := buildAll_cons hb
    simp only [forEach] at h
    obtain ⟨σ2, hbody, h⟩ := call_eq_some h
    obtain ⟨σ1, pr, hcall, hpub⟩ := proofBody_inv N O t _ _ hbody
    obtain ⟨m1, s1, a1, hr1, rfl⟩ := run_sound emb md.axiomsOf hE hS pf t ht s acc σ1 pr hcall
    rw [hE.publish_proof] at hpub
    obtain ⟨o2, ho2, ho2'⟩ := (pmap_some _ _ _).mp hpub
    cases o2 with
    | none => cases ho2'
    | some σ2' =>
      obtain ⟨s2, a2⟩ := σ2'
      simp only [Option.map_some, Option.some.injEq] at ho2'
      subst ho2'
      obtain ⟨m3, s', a', h3, hK⟩ := ih ts' hts s2 a2 x K h
      refine ⟨max (max m1 N) m3, s', a', ?_, hK⟩
      rw [proofs_cons]
      simp only [andThen3, andThen,
        runF_mono cfg _ s pf acc m1 _ (Nat.le_trans (Nat.le_max_left m1 N) (Nat.le_max_left _ m3)) _ hr1,
        doCalls_mono (Nat.le_trans (Nat.le_max_right m1 N) (Nat.le_max_left _ m3)) _ _ _ _ ho2,
        Option.bind_some]
      exact proofs_mono cfg md r s2 a2 m3 _ (Nat.le_max_right _ _) _ h3

theorem gU_some {N : Nat} {σ : St} {c : Call} {τ' : τ} (h : gU emb N σ c = some (some τ')) :
    ∃ σ', emit N σ c = some (some σ') ∧ τ' = emb σ' := by
  obtain ⟨o, ho, ho'⟩ := (pmap_some _ _ _).mp h
  cases o with
  | none => cases ho'
  | some σ' => simp only [Option.map_some, Option.some.injEq] at ho'; exact ⟨σ', ho, ho'⟩

theorem expOf_mk (thunks : List (ProofThunk τ)) (f : PModule → List (ProofThunk τ)) (m : PModule) :
    expOf thunks f m = ProofExp.mk m.axiomsOf m.claimsOf thunks (subExp.subExps f m.subsOf) := by
  cases m; rfl

/-- **`execute_full` is `executeFull` (1)**: a run of the model that returns — all calls of the three
phases, in order — is the run of the generated `execute_full` on the module's `ProofExp` (whose thunks
the generated constructors build), at every fuel `N ≥ n` that also covers the depth of the import tree.
`hself`: the self-comparison `conc == conc` which the wrapper thunk of `publish_proof` performs and the
hand-written model omits succeeds at fuel `N` (it can only run out of fuel for shaped conclusions). -/
theorem full_complete {cfg : Cfg} {O : Interp τ} {N n n0 : Nat} (hE : Emits emb N O) (hP : PatC emb cfg O n0)
    (hn : n ≤ N) (hn0 : n ≤ n0) (m : PModule) (hD : PModule.depth m ≤ N)
    (hself : ∀ pf ∈ m.proofsOf, ∀ k adv, Pf.concF m.axiomsOf k pf = some (some adv) →
      NPat.peqF N adv adv = some true)
    (s' : PySt) (a' : List Call) (h : PModule.executeFull cfg n m = some (some (s', a'))) :
    ∃ thunks : List (ProofThunk τ), buildAll N m.axiomsOf m.proofsOf = some (some thunks) ∧
      ∀ f, ProofExp.execute_full N (expOf thunks f m) O (emb (PySt.init m.claimsOf, [])) = some (some (emb (s', a'))) := by
  rw [executeFull_eq] at h
  rcases andThen_eq_some _ _ _ h with ⟨_, hx⟩ | ⟨s1, a1, h1, h⟩
  · cases hx
  rcases andThen_eq_some _ _ _ h with ⟨_, hx⟩ | ⟨s2, a2, h2, h⟩
  · cases hx
  rcases andThen_eq_some _ _ _ h with ⟨_, hx⟩ | ⟨s3, a3, h3, h⟩
  · cases hx
  rcases andThen_eq_some _ _ _ h with ⟨_, hx⟩ | ⟨s4, a4, h4, h⟩
  · cases hx
  obtain ⟨thunks, hb, hK⟩ := proofsLoop_complete emb m hE hP hn hn0 hself m.proofsOf (fun _ h => h) s4 a4 s' a' h
  refine ⟨thunks, hb, fun f => ?_⟩
  have hph2 : s2.phase = .claim := by
    rw [(intoClaim_spec n s1 s2 (emit_some n (s1, a1) (s2, a2) _ h2).1).2]
  have hph3 : s3.phase = .claim :=
    (pub_phase cfg n .publishClaim (by simp) (by simp) _ s2 a2 s3 a3 h3).trans hph2
  have hph4 : s4.phase = .proof := by
    rw [(intoProof_spec n s3 s4 (emit_some n (s3, a3) (s4, a4) _ h4).1).2]
  have hi2 : O.into_claim_phase (emb (s1, a1)) = some (some (emb (s2, a2))) := by
    rw [hE.into_claim_phase]
    simp only [gU, (show emit N (s1, a1) .intoClaim = some (some (s2, a2)) from doCalls_mono hn _ _ _ _ h2),
      pmap, Option.map_some]
  have hi4 : O.into_proof_phase (emb (s3, a3)) = some (some (emb (s4, a4))) := by
    rw [hE.into_proof_phase]
    simp only [gU, (show emit N (s3, a3) .intoProof = some (some (s4, a4)) from doCalls_mono hn _ _ _ _ h4),
      pmap, Option.map_some]
  rw [full_unfold, expOf_mk,
    gamma_complete emb hE hP hn hn0 f N m thunks _ [] s1 a1 true hD rfl h1]
  simp only [hE.phase, PySt.init, decide_true, assert_, if_true, moveTail, hi2, call_some_some, ret,
    claims_unfold, hph2,
    pubLoop_complete emb hP hn hn0 .publishClaim O.publish_claim hE.publish_claim _ s2 a2 s3 a3 h3,
    hi4, proofs_unfold, hph4, hK]

/-- **`execute_full` is `executeFull` (2)**: a run of the generated `execute_full` that returns is a run
of the model (at some fuel): same final state, same calls -/
theorem full_sound {cfg : Cfg} {O : Interp τ} {N : Nat} (hE : Emits emb N O) (hS : PatS emb cfg O)
    (m : PModule) (thunks : List (ProofThunk τ)) (f : PModule → List (ProofThunk τ))
    (hb : buildAll N m.axiomsOf m.proofsOf = some (some thunks)) (τ' : τ)
    (h : ProofExp.execute_full N (expOf thunks f m) O (emb (PySt.init m.claimsOf, [])) = some (some τ')) :
    ∃ n s' a', PModule.executeFull cfg n m = some (some (s', a')) ∧ τ' = emb (s', a') := by
  rw [full_unfold, expOf_mk] at h
  obtain ⟨_, h⟩ := assert_eq_some h
  obtain ⟨τ2, hg, h⟩ := call_eq_some h
  obtain ⟨m1, s1, a1, hp1, hg⟩ := gamma_sound emb hE hS f N m thunks _ [] true τ2 hg
  simp only [moveTail, if_true, call_ret, hE.into_claim_phase] at hg
  obtain ⟨σ2, he2, rfl⟩ := gU_some emb hg
  obtain ⟨s2, a2⟩ := σ2
  obtain ⟨τ4, hc, h⟩ := call_eq_some h
  rw [claims_unfold] at hc
  obtain ⟨_, hc⟩ := assert_eq_some hc
  obtain ⟨m3, s3, a3, hp3, hc⟩ := pubLoop_sound emb hS .publishClaim O.publish_claim hE.publish_claim _ s2 a2 τ4 _ hc
  simp only [moveTail, if_true, call_ret, hE.into_proof_phase] at hc
  obtain ⟨σ4, he4, rfl⟩ := gU_some emb hc
  obtain ⟨s4, a4⟩ := σ4
  obtain ⟨τ5, hpf, h⟩ := call_eq_some h
  simp only [ret, Option.some.injEq] at h
  subst h
  rw [proofs_unfold] at hpf
  obtain ⟨_, hpf⟩ := assert_eq_some hpf
  obtain ⟨m5, s', a', hp5, hK⟩ := proofsLoop_sound emb m hE hS m.proofsOf thunks hb s4 a4 τ5 _ hpf
  simp only [ret, Option.some.injEq] at hK
  subst hK
  let M := max (max (max m1 m3) m5) N
  have l1 : m1 ≤ M := Nat.le_trans (Nat.le_max_left m1 m3) (Nat.le_trans (Nat.le_max_left _ m5) (Nat.le_max_left _ N))
  have l3 : m3 ≤ M := Nat.le_trans (Nat.le_max_right m1 m3) (Nat.le_trans (Nat.le_max_left _ m5) (Nat.le_max_left _ N))
  have l5 : m5 ≤ M := Nat.le_trans (Nat.le_max_right _ m5) (Nat.le_max_left _ N)
  have lN : N ≤ M := Nat.le_max_right _ N
  refine ⟨M, s', a', ?_, rfl⟩
  rw [executeFull_eq]
  simp only [andThen, pub_mono cfg _ _ _ _ m1 M l1 _ hp1, Option.bind_some,
    (show doCalls M s1 [.intoClaim] a1 = some (some (s2, a2)) from doCalls_mono lN _ _ _ _ he2),
    pub_mono cfg _ _ _ _ m3 M l3 _ hp3,
    (show doCalls M s3 [.intoProof] a3 = some (some (s4, a4)) from doCalls_mono lN _ _ _ _ he4)]
  exact proofs_mono cfg m _ s4 a4 m5 M l5 _ hp5

end phases


/-! ## the two configurations of `serialize`: the plain tracker and `MemoizingInterpreter(tracker, S)` -/

/-- the object `MemoizingInterpreter(serializer, S)` that `serialize` builds, with its initial state, is
`memoK` in the state `embM` (the transformer only uses the methods of its sub-interpreter, never its
`pattern`) -/
theorem memo_new_eq (N j : Nat) (S : List NPat) (σ : St) :
    MemoizingInterpreter.new N (trackerK N j) σ (some S) = (memoK N N S, embM σ) := by
  cases j <;> rfl

section configs
variable (N : Nat)

/-- `Interpreter.pattern` on the plain tracker, both directions (see `pattern_complete`, `pattern_sound`) -/
theorem pattern_plain (s : PySt) (p : NPat) (acc : List Call) :
    (∀ n r, n ≤ N → patternF {} n s p acc = some r →
      (trackerK N N).pattern (s, acc) p = some (r.map fun σ' => (σ', InterpTie.topPat σ'.1))) ∧
    (∀ g, (trackerK N N).pattern (s, acc) p = some g →
      ∃ m r, patternF {} m s p acc = some r ∧ g = r.map fun σ' => (σ', InterpTie.topPat σ'.1)) := by
  constructor
  · intro n r hn h
    exact pattern_complete n N N hn hn s p acc _ ((pmap_some _ _ _).mpr ⟨r, h, rfl⟩)
  · intro g hg
    obtain ⟨m, hm⟩ := pattern_sound N N s p acc g hg
    obtain ⟨o, ho, rfl⟩ := (pmap_some _ _ _).mp hm
    exact ⟨m, o, ho, rfl⟩

/-- `MemoizingInterpreter.pattern` over the tracker, both directions -/
theorem pattern_memo (S : List NPat) (s : PySt) (p : NPat) (acc : List Call) :
    (∀ n r, n ≤ N → patternF { memo := some S } n s p acc = some r →
      (memoK N N S).pattern (embM (s, acc)) p = some (r.map fun σ' => (embM σ', InterpTie.topPat σ'.1))) ∧
    (∀ g, (memoK N N S).pattern (embM (s, acc)) p = some g →
      ∃ m r, patternF { memo := some S } m s p acc = some r ∧
        g = r.map fun σ' => (embM σ', InterpTie.topPat σ'.1)) := by
  constructor
  · intro n r hn h
    exact memo_pattern_complete S n N N hn hn s p acc _ ((pmap_some _ _ _).mpr ⟨r, h, rfl⟩)
  · intro g hg
    obtain ⟨m, hm⟩ := memo_pattern_sound S N N s p acc g hg
    obtain ⟨o, ho, rfl⟩ := (pmap_some _ _ _).mp hm
    exact ⟨m, o, ho, rfl⟩

/-- a proof expression on the plain tracker: the generated thunk runs as `runF {}` -/
theorem run_plain (ax : List NPat) (s : PySt) (pf : Pf) (acc : List Call) :
    (∀ n s' a' c, n ≤ N → Pf.runF {} ax n s pf acc = some (some (s', a', c)) →
      ∃ t : ProofThunk St, build N ax pf = some (some t) ∧
        ProofThunk.__call__ N t (trackerK N N) (s, acc) = some (some ((s', a'), ⟨c⟩))) ∧
    (∀ (t : ProofThunk St) σ' pr, build N ax pf = some (some t) →
      ProofThunk.__call__ N t (trackerK N N) (s, acc) = some (some (σ', pr)) →
      ∃ m, Pf.runF {} ax m s pf acc = some (some (σ'.1, σ'.2, pr.conclusion))) := by
  constructor
  · intro n s' a' c hn h
    cases n with
    | zero => simp [Pf.runF] at h
    | succ n' =>
      obtain ⟨_, _, adv, hadv, _⟩ := (runF_inv {} ax n' s pf acc s' a' c).mp h
      obtain ⟨o, ho, ho'⟩ := (pmap_some _ _ _).mp (conc_complete (τ := St) ax n' pf _ hadv N (by omega))
      cases o with
      | none => cases ho'
      | some t =>
        exact ⟨t, ho, run_complete (fun σ => σ) ax (emits_tracker N N) (pattern_complete N N N (Nat.le_refl _) (Nat.le_refl _))
          _ hn hn s pf acc s' a' c h t ho⟩
  · intro t σ' pr ht h
    obtain ⟨m, s', a', hm, rfl⟩ := run_sound (fun σ => σ) ax (emits_tracker N N) (pattern_sound N N) pf t ht s acc σ' pr h
    exact ⟨m, hm⟩

/-- a proof expression through the memoising transformer: the generated thunk runs as `runF {memo := some S}` -/
theorem run_memo (S : List NPat) (ax : List NPat) (s : PySt) (pf : Pf) (acc : List Call) :
    (∀ n s' a' c, n ≤ N → Pf.runF { memo := some S } ax n s pf acc = some (some (s', a', c)) →
      ∃ t : ProofThunk (TrSt St), build N ax pf = some (some t) ∧
        ProofThunk.__call__ N t (memoK N N S) (embM (s, acc)) = some (some (embM (s', a'), ⟨c⟩))) ∧
    (∀ (t : ProofThunk (TrSt St)) τ' pr, build N ax pf = some (some t) →
      ProofThunk.__call__ N t (memoK N N S) (embM (s, acc)) = some (some (τ', pr)) →
      ∃ m s' a', Pf.runF { memo := some S } ax m s pf acc = some (some (s', a', pr.conclusion)) ∧ τ' = embM (s', a')) := by
  constructor
  · intro n s' a' c hn h
    cases n with
    | zero => simp [Pf.runF] at h
    | succ n' =>
      obtain ⟨_, _, adv, hadv, _⟩ := (runF_inv _ ax n' s pf acc s' a' c).mp h
      obtain ⟨o, ho, ho'⟩ := (pmap_some _ _ _).mp (conc_complete (τ := TrSt St) ax n' pf _ hadv N (by omega))
      cases o with
      | none => cases ho'
      | some t =>
        exact ⟨t, ho, run_complete embM ax (emits_memo N N S)
          (memo_pattern_complete S N N N (Nat.le_refl _) (Nat.le_refl _)) _ hn hn s pf acc s' a' c h t ho⟩
  · intro t τ' pr ht h
    exact run_sound embM ax (emits_memo N N S) (memo_pattern_sound S N N) pf t ht s acc τ' pr h

/-- the three phases on the plain tracker are `executeFull {}` -/
theorem execute_plain (m : PModule) :
    (∀ n s' a', n ≤ N → PModule.depth m ≤ N →
      (∀ pf ∈ m.proofsOf, ∀ k adv, Pf.concF m.axiomsOf k pf = some (some adv) → NPat.peqF N adv adv = some true) →
      PModule.executeFull {} n m = some (some (s', a')) →
      ∃ thunks : List (ProofThunk St), buildAll N m.axiomsOf m.proofsOf = some (some thunks) ∧
        ∀ f, ProofExp.execute_full N (expOf thunks f m) (trackerK N N) (PySt.init m.claimsOf, []) = some (some (s', a'))) ∧
    (∀ (thunks : List (ProofThunk St)) f σ', buildAll N m.axiomsOf m.proofsOf = some (some thunks) →
      ProofExp.execute_full N (expOf thunks f m) (trackerK N N) (PySt.init m.claimsOf, []) = some (some σ') →
      ∃ n, PModule.executeFull {} n m = some (some σ')) := by
  constructor
  · intro n s' a' hn hD hself h
    exact full_complete (fun σ => σ) (emits_tracker N N) (pattern_complete N N N (Nat.le_refl _) (Nat.le_refl _))
      hn hn m hD hself s' a' h
  · intro thunks f σ' hb h
    obtain ⟨n, s', a', hn, rfl⟩ := full_sound (fun σ => σ) (emits_tracker N N) (pattern_sound N N) m thunks f hb σ' h
    exact ⟨n, hn⟩

/-- the three phases through `MemoizingInterpreter(tracker, S)` are `executeFull {memo := some S}` -/
theorem execute_memo (S : List NPat) (m : PModule) :
    (∀ n s' a', n ≤ N → PModule.depth m ≤ N →
      (∀ pf ∈ m.proofsOf, ∀ k adv, Pf.concF m.axiomsOf k pf = some (some adv) → NPat.peqF N adv adv = some true) →
      PModule.executeFull { memo := some S } n m = some (some (s', a')) →
      ∃ thunks : List (ProofThunk (TrSt St)), buildAll N m.axiomsOf m.proofsOf = some (some thunks) ∧
        ∀ f, ProofExp.execute_full N (expOf thunks f m) (memoK N N S) (embM (PySt.init m.claimsOf, []))
          = some (some (embM (s', a')))) ∧
    (∀ (thunks : List (ProofThunk (TrSt St))) f τ', buildAll N m.axiomsOf m.proofsOf = some (some thunks) →
      ProofExp.execute_full N (expOf thunks f m) (memoK N N S) (embM (PySt.init m.claimsOf, [])) = some (some τ') →
      ∃ n s' a', PModule.executeFull { memo := some S } n m = some (some (s', a')) ∧ τ' = embM (s', a')) := by
  constructor
  · intro n s' a' hn hD hself h
    exact full_complete embM (emits_memo N N S) (memo_pattern_complete S N N N (Nat.le_refl _) (Nat.le_refl _))
      hn hn m hD hself s' a' h
  · intro thunks f τ' hb h
    exact full_sound embM (emits_memo N N S) (memo_pattern_sound S N N) m thunks f hb τ' h

end configs

/-! ## the shape of `serialize`: which interpreters run the module -/

/-- not optimised: the module runs once, on the serializer.  Optimised: first on the analyzer
(`CountingInterpreter`), then on `MemoizingInterpreter(serializer, analyzer.finalize())`; what is written
is the state of the serializer under the transformer -/
theorem serialize_shape {σ : Type} (n : Nat) (self : (τ : Type) → ProofExp τ)
    (mkS mkC : Phase → List Claim → Interp σ × σ) (finalize : σ → List NPat) :
    ProofExp.serialize n self mkS mkC finalize false
      = ProofExp.execute_full n (self σ) (mkS .gamma (self σ)._claims).1 (mkS .gamma (self σ)._claims).2 ∧
    ProofExp.serialize n self mkS mkC finalize true
      = call (ProofExp.execute_full n (self σ) (mkC .gamma (self σ)._claims).1 (mkC .gamma (self σ)._claims).2) fun sa =>
        pmap TrSt.sub (ProofExp.execute_full n (self (TrSt σ))
          (MemoizingInterpreter.new n (mkS .gamma (self σ)._claims).1 (mkS .gamma (self σ)._claims).2 (some (finalize sa))).1
          (MemoizingInterpreter.new n (mkS .gamma (self σ)._claims).1 (mkS .gamma (self σ)._claims).2 (some (finalize sa))).2) := by
  constructor
  · simp only [ProofExp.serialize, Bool.false_eq_true, if_false]
    exact call_ret _
  · simp only [ProofExp.serialize, if_true]
    congr 1
    funext sa
    rcases ProofExp.execute_full n (self (TrSt σ)) _ _ with _ | _ | x <;> rfl

/-! ## the assertions are there, for every interpreter -/

section guards
variable {τ : Type} (O : Interp τ)

/-- `assert isinstance(subpattern, MetaVar | ESubst | SSubst)`: when the walk of the body of an `ESubst`
returns something else, `Interpreter.pattern` raises *before* calling `esubst` — whatever the interpreter -/
theorem esubst_guard (s s1 s2 : τ) (q plug v vp : NPat) (x : VId)
    (h1 : O.pattern s plug = some (some (s1, vp))) (h2 : O.pattern s1 q = some (some (s2, v)))
    (hv : v.isMetaHead = false) : Interpreter.pattern O s (.esub q x plug) = some none := by
  simp only [Interpreter.pattern, assert_, if_true, h1, call_some_some, h2, hv, Bool.false_eq_true, if_false, raise]

theorem ssubst_guard (s s1 s2 : τ) (q plug v vp : NPat) (x : VId)
    (h1 : O.pattern s plug = some (some (s1, vp))) (h2 : O.pattern s1 q = some (some (s2, v)))
    (hv : v.isMetaHead = false) : Interpreter.pattern O s (.ssub q x plug) = some none := by
  simp only [Interpreter.pattern, assert_, if_true, h1, call_some_some, h2, hv, Bool.false_eq_true, if_false, raise]

/-- `assert proved.conclusion == self.conc`: a thunk whose expression returns something else raises -/
theorem thunk_guard (N : Nat) (t : ProofThunk τ) (s s' : τ) (pr : Proved)
    (h : t._expr N O s = some (some (s', pr))) (hne : NPat.peqF N pr.conclusion t.conc = some false) :
    ProofThunk.__call__ N t O s = some none := by
  simp only [ProofThunk.__call__, h, call_some_some, fuel, Proved.conclusion, hne, assert_, Bool.false_eq_true,
    if_false, raise]

/-- `if not delta: return pf`: an empty instantiation is no instantiation -/
theorem dynamic_inst_empty (N : Nat) (t : ProofThunk τ) : ProofExp.dynamic_inst N t [] = some (some t) := rfl

/-- `execute_full` on an interpreter that is not in the gamma phase raises at once -/
theorem execute_full_phase (N : Nat) (M : ProofExp τ) (s : τ) (h : O.phase s ≠ .gamma) :
    ProofExp.execute_full N M O s = some none := by
  simp only [ProofExp.execute_full, assert_, h, decide_false, Bool.false_eq_true, if_false, raise]

end guards

/-! ## `InstantiationOptimizer` over the tracker -/

/-- `instantiate` with a non-empty map is the tracker's call, the returned value is `BasicInterpreter`'s;
with an empty map nothing is emitted -/
theorem inst_optimizer (N : Nat) (σ : St) (a : NPat) (δ : List (Nat × NPat)) :
    InstantiationOptimizer.instantiate N (callI N) (embM σ) ⟨a⟩ δ =
      call (Gen.PyInterp.Basic.instantiate N ⟨a⟩ δ) fun r =>
        if δ.isEmpty then ret (embM σ, r)
        else pmap (fun σ' => (({ phase := σ.1.phase, sub := σ' } : TrSt St), r))
          (emit N σ (.instantiate (δ.map Prod.fst))) := by
  simp only [InstantiationOptimizer.instantiate]
  congr 1
  funext r
  cases δ with
  | nil => rfl
  | cons kv rest =>
    simp only [List.length_cons, List.isEmpty_cons, Bool.false_eq_true, if_false, callI, emitT, embM]
    rcases emit N σ (.instantiate ((kv :: rest).map Prod.fst)) with _ | _ | x <;> rfl


/-! ## (c) runs on `BasicInterpreter` = `runBasicF` -/

/-- `BasicInterpreter` as an object: the translated methods of `Pi2/Gen/PyInterp.lean`; its state is the
attribute `phase` (kept in a `PySt`, whose other fields are not touched) -/
def basicI (n : Nat) : Interp PySt where
  phase s := s.phase
  isStateful := false
  memory _ := []
  pattern _ _ := none
  evar s x := ret (s, Gen.PyInterp.Basic.evar x)
  svar s x := ret (s, Gen.PyInterp.Basic.svar x)
  symbol s x := ret (s, Gen.PyInterp.Basic.symbol x)
  metavar s id ef sf ps ns hs := ret (s, Gen.PyInterp.Basic.metavar id ef sf ps ns hs)
  implies s l r := ret (s, Gen.PyInterp.Basic.implies l r)
  app s l r := ret (s, Gen.PyInterp.Basic.app l r)
  «exists» s x p := ret (s, Gen.PyInterp.Basic.«exists» x p)
  esubst s x p q := ret (s, Gen.PyInterp.Basic.esubst x p q)
  ssubst s x p q := ret (s, Gen.PyInterp.Basic.ssubst x p q)
  mu s x p := ret (s, Gen.PyInterp.Basic.mu x p)
  prop1 s := ret (s, Gen.PyInterp.Basic.prop1)
  prop2 s := ret (s, Gen.PyInterp.Basic.prop2)
  prop3 s := ret (s, Gen.PyInterp.Basic.prop3)
  modus_ponens s l r := call (Gen.PyInterp.Basic.modus_ponens n l r) fun v => ret (s, v)
  exists_quantifier s := ret (s, Gen.PyInterp.Basic.exists_quantifier)
  exists_generalization s p x := call (Gen.PyInterp.Basic.exists_generalization n p x) fun v => ret (s, v)
  instantiate s p δ := call (Gen.PyInterp.Basic.instantiate n p δ) fun v => ret (s, v)
  instantiate_pattern s p δ := ret (s, Gen.PyInterp.Basic.instantiate_pattern p δ)
  pop s _ := ret s
  save s _ _ := ret s
  load s _ _ := ret s
  publish_proof s t := call (Gen.PyInterp.Basic.publish_proof s t) fun _ => ret s
  publish_axiom s t := call (Gen.PyInterp.Basic.publish_axiom s t) fun _ => ret s
  publish_claim s t := call (Gen.PyInterp.Basic.publish_claim s t) fun _ => ret s
  into_claim_phase s := Gen.PyInterp.Interp.into_claim_phase s
  into_proof_phase s := Gen.PyInterp.Interp.into_proof_phase s

/-- `BasicInterpreter` with the inherited `Interpreter.pattern` -/
def basicK (N k : Nat) : Interp PySt := Interp.close Interpreter.pattern (basicI N) k

theorem basicK_succ (N k : Nat) : (basicK N (k + 1)).pattern = Interpreter.pattern (basicK N k) := rfl

/-- every dict of a proof expression has distinct keys (it is a Python dict) -/
def KeysNodup : Pf → Prop
  | .mp l r => KeysNodup l ∧ KeysNodup r
  | .gen p _ => KeysNodup p
  | .dynInst p δ => KeysNodup p ∧ (δ.map (·.1)).Nodup
  | _ => True

/-- the plugs of a proof expression are shaped (in particular: the body of every `ESubst` / `SSubst` is
literally a metavariable or a substitution — otherwise the `isinstance` assertion of `Interpreter.pattern`
fires, on `BasicInterpreter` too, while `runBasicF` does not look at the plugs: `basic_discrepancy`) -/
def PlugsShaped : Pf → Prop
  | .mp l r => PlugsShaped l ∧ PlugsShaped r
  | .gen p _ => PlugsShaped p
  | .dynInst p δ => PlugsShaped p ∧ NPat.ShapeMap δ = true
  | _ => True

/-- the recursion depth `Interpreter.pattern` needs -/
def wd : NPat → Nat
  | .imp l r => max (wd l) (wd r) + 1
  | .app l r => max (wd l) (wd r) + 1
  | .ex _ p => wd p + 1
  | .mu _ p => wd p + 1
  | .esub p _ q => max (wd p) (wd q) + 1
  | .ssub p _ q => max (wd p) (wd q) + 1
  | .inst p m => max (wd p) (wdm m) + 1
  | _ => 1
where
  wdm : List (Nat × NPat) → Nat
    | [] => 0
    | (_, v) :: r => max (wd v) (wdm r)

def plugDepth : Pf → Nat
  | .mp l r => max (plugDepth l) (plugDepth r)
  | .gen p _ => plugDepth p
  | .dynInst p δ => max (plugDepth p) (wd.wdm δ)
  | _ => 0

/-- on `BasicInterpreter` a walk that returns, returns the pattern itself and leaves the state alone -/
theorem basic_walk_id (N : Nat) : ∀ (k : Nat) (s : PySt) (p : NPat) (s' : PySt) (v : NPat),
    (basicK N k).pattern s p = some (some (s', v)) → s' = s ∧ v = p := by
  intro k
  induction k with
  | zero => intro s p s' v h; cases h
  | succ k ih =>
    intro s p s' v h
    rw [basicK_succ] at h
    have hloop : ∀ (l : List NPat) (s : PySt) {β} (x : β) (K : PySt → Py β),
        forEach l s (fun v s => call ((basicK N k).pattern s v) fun (s, _) => ret s) K = some (some x) →
        K s = some (some x) := by
      intro l
      induction l with
      | nil => intro s β x K h; exact h
      | cons a r ihr =>
        intro s β x K h
        simp only [forEach] at h
        obtain ⟨s1, hb, hrest⟩ := call_eq_some h
        obtain ⟨⟨s0, v0⟩, hp, hb2⟩ := call_eq_some hb
        simp only [ret, Option.some.injEq] at hb2
        obtain ⟨hs0, _⟩ := ih s a s0 v0 hp
        subst hs0
        subst hb2
        exact ihr _ x K hrest
    cases p with
    | evar x =>
      simp only [Interpreter.pattern] at h
      have : (basicK N k).evar s x = ret (s, .evar x) := by cases k <;> rfl
      simp only [this, ret, call_some_some, Option.some.injEq, Prod.mk.injEq] at h
      exact ⟨h.1.symm, h.2.symm⟩
    | svar x =>
      simp only [Interpreter.pattern] at h
      have : (basicK N k).svar s x = ret (s, .svar x) := by cases k <;> rfl
      simp only [this, ret, call_some_some, Option.some.injEq, Prod.mk.injEq] at h
      exact ⟨h.1.symm, h.2.symm⟩
    | sym x =>
      simp only [Interpreter.pattern] at h
      have : (basicK N k).symbol s x = ret (s, .sym x) := by cases k <;> rfl
      simp only [this, ret, call_some_some, Option.some.injEq, Prod.mk.injEq] at h
      exact ⟨h.1.symm, h.2.symm⟩
    | mv id ef sf ps ns hs =>
      simp only [Interpreter.pattern] at h
      have : (basicK N k).metavar s id ef sf ps ns hs = ret (s, .mv id ef sf ps ns hs) := by cases k <;> rfl
      simp only [this, ret, call_some_some, Option.some.injEq, Prod.mk.injEq] at h
      exact ⟨h.1.symm, h.2.symm⟩
    | imp l r =>
      simp only [Interpreter.pattern] at h
      obtain ⟨⟨s1, v1⟩, h1, _⟩ := call_eq_some h
      obtain ⟨e1, e2⟩ := ih s l s1 v1 h1
      rw [e1, e2] at h1
      simp only [h1, call_some_some] at h
      obtain ⟨⟨s2, v2⟩, h2, _⟩ := call_eq_some h
      obtain ⟨e3, e4⟩ := ih s r s2 v2 h2
      rw [e3, e4] at h2
      simp only [h2, call_some_some] at h
      have hm : ∀ a b, (basicK N k).implies s a b = ret (s, .imp a b) := by intro a b; cases k <;> rfl
      simp only [hm, ret, call_some_some, Option.some.injEq, Prod.mk.injEq] at h
      exact ⟨h.1.symm, h.2.symm⟩
    | app l r =>
      simp only [Interpreter.pattern] at h
      obtain ⟨⟨s1, v1⟩, h1, _⟩ := call_eq_some h
      obtain ⟨e1, e2⟩ := ih s l s1 v1 h1
      rw [e1, e2] at h1
      simp only [h1, call_some_some] at h
      obtain ⟨⟨s2, v2⟩, h2, _⟩ := call_eq_some h
      obtain ⟨e3, e4⟩ := ih s r s2 v2 h2
      rw [e3, e4] at h2
      simp only [h2, call_some_some] at h
      have hm : ∀ a b, (basicK N k).app s a b = ret (s, .app a b) := by intro a b; cases k <;> rfl
      simp only [hm, ret, call_some_some, Option.some.injEq, Prod.mk.injEq] at h
      exact ⟨h.1.symm, h.2.symm⟩
    | ex x q =>
      simp only [Interpreter.pattern] at h
      obtain ⟨⟨s1, v1⟩, h1, _⟩ := call_eq_some h
      obtain ⟨e1, e2⟩ := ih s q s1 v1 h1
      rw [e1, e2] at h1
      simp only [h1, call_some_some] at h
      have hm : ∀ a, (basicK N k).«exists» s x a = ret (s, .ex x a) := by intro a; cases k <;> rfl
      simp only [hm, ret, call_some_some, Option.some.injEq, Prod.mk.injEq] at h
      exact ⟨h.1.symm, h.2.symm⟩
    | mu x q =>
      simp only [Interpreter.pattern] at h
      obtain ⟨⟨s1, v1⟩, h1, _⟩ := call_eq_some h
      obtain ⟨e1, e2⟩ := ih s q s1 v1 h1
      rw [e1, e2] at h1
      simp only [h1, call_some_some] at h
      have hm : ∀ a, (basicK N k).mu s x a = ret (s, .mu x a) := by intro a; cases k <;> rfl
      simp only [hm, ret, call_some_some, Option.some.injEq, Prod.mk.injEq] at h
      exact ⟨h.1.symm, h.2.symm⟩
    | esub q x plug =>
      simp only [Interpreter.pattern, assert_, if_true] at h
      obtain ⟨⟨s1, v1⟩, h1, _⟩ := call_eq_some h
      obtain ⟨e1, e2⟩ := ih s plug s1 v1 h1
      rw [e1, e2] at h1
      simp only [h1, call_some_some] at h
      obtain ⟨⟨s2, v2⟩, h2, _⟩ := call_eq_some h
      obtain ⟨e3, e4⟩ := ih s q s2 v2 h2
      rw [e3, e4] at h2
      simp only [h2, call_some_some] at h
      have hm : ∀ a b, (basicK N k).esubst s x a b = ret (s, .esub a x b) := by intro a b; cases k <;> rfl
      split at h
      · simp only [hm, ret, call_some_some, Option.some.injEq, Prod.mk.injEq] at h
        exact ⟨h.1.symm, h.2.symm⟩
      · cases h
    | ssub q x plug =>
      simp only [Interpreter.pattern, assert_, if_true] at h
      obtain ⟨⟨s1, v1⟩, h1, _⟩ := call_eq_some h
      obtain ⟨e1, e2⟩ := ih s plug s1 v1 h1
      rw [e1, e2] at h1
      simp only [h1, call_some_some] at h
      obtain ⟨⟨s2, v2⟩, h2, _⟩ := call_eq_some h
      obtain ⟨e3, e4⟩ := ih s q s2 v2 h2
      rw [e3, e4] at h2
      simp only [h2, call_some_some] at h
      have hm : ∀ a b, (basicK N k).ssubst s x a b = ret (s, .ssub a x b) := by intro a b; cases k <;> rfl
      split at h
      · simp only [hm, ret, call_some_some, Option.some.injEq, Prod.mk.injEq] at h
        exact ⟨h.1.symm, h.2.symm⟩
      · cases h
    | inst q m =>
      simp only [Interpreter.pattern] at h
      have h := hloop _ s _ _ h
      obtain ⟨⟨s1, v1⟩, h1, _⟩ := call_eq_some h
      obtain ⟨e1, e2⟩ := ih s q s1 v1 h1
      rw [e1, e2] at h1
      simp only [h1, call_some_some] at h
      have hm : ∀ a, (basicK N k).instantiate_pattern s a m = ret (s, .inst a m) := by intro a; cases k <;> rfl
      simp only [hm, ret, call_some_some, Option.some.injEq, Prod.mk.injEq] at h
      exact ⟨h.1.symm, h.2.symm⟩


theorem wdm_le {m : List (Nat × NPat)} {kv : Nat × NPat} (h : kv ∈ m) : wd kv.2 ≤ wd.wdm m := by
  induction m with
  | nil => cases h
  | cons a r ih =>
    obtain ⟨k, v⟩ := a
    simp only [wd.wdm]
    rcases List.mem_cons.mp h with rfl | h
    · exact Nat.le_max_left _ _
    · exact Nat.le_trans (ih h) (Nat.le_max_right _ _)

/-- on `BasicInterpreter` the walk of a shaped pattern returns the pattern (given the recursion depth) -/
theorem basic_walk_shape (N : Nat) : ∀ (k : Nat) (s : PySt) (p : NPat), p.Shape = true → wd p ≤ k →
    (basicK N k).pattern s p = some (some (s, p)) := by
  intro k
  induction k with
  | zero => intro s p _ hk; cases p <;> simp [wd] at hk
  | succ k ih =>
    intro s p hp hk
    rw [basicK_succ]
    have hloop : ∀ (l : List NPat) {β} (K : PySt → Py β), (∀ v ∈ l, v.Shape = true ∧ wd v ≤ k) →
        forEach l s (fun v s => call ((basicK N k).pattern s v) fun (s, _) => ret s) K = K s := by
      intro l
      induction l with
      | nil => intro β K _; rfl
      | cons a r ihr =>
        intro β K hl
        simp only [forEach, ih s a (hl a (by simp)).1 (hl a (by simp)).2, call_some_some, ret]
        exact ihr K (fun v hv => hl v (List.mem_cons_of_mem _ hv))
    cases p with
    | evar x => cases k <;> rfl
    | svar x => cases k <;> rfl
    | sym x => cases k <;> rfl
    | mv id ef sf ps ns hs => cases k <;> rfl
    | imp l r =>
      simp only [NPat.Shape, Bool.and_eq_true] at hp
      simp only [wd] at hk
      simp only [Interpreter.pattern, ih s l hp.1 (by omega), ih s r hp.2 (by omega), call_some_some]
      cases k <;> rfl
    | app l r =>
      simp only [NPat.Shape, Bool.and_eq_true] at hp
      simp only [wd] at hk
      simp only [Interpreter.pattern, ih s l hp.1 (by omega), ih s r hp.2 (by omega), call_some_some]
      cases k <;> rfl
    | ex x q =>
      simp only [NPat.Shape] at hp
      simp only [wd] at hk
      simp only [Interpreter.pattern, ih s q hp (by omega), call_some_some]
      cases k <;> rfl
    | mu x q =>
      simp only [NPat.Shape] at hp
      simp only [wd] at hk
      simp only [Interpreter.pattern, ih s q hp (by omega), call_some_some]
      cases k <;> rfl
    | esub q x plug =>
      simp only [NPat.Shape, Bool.and_eq_true] at hp
      simp only [wd] at hk
      have hm : q.isMetaHead = true := by rw [isMetaHead_eq]; exact hp.1.1
      simp only [Interpreter.pattern, assert_, if_true, ih s plug hp.2 (by omega), ih s q hp.1.2 (by omega),
        call_some_some, hm]
      cases k <;> rfl
    | ssub q x plug =>
      simp only [NPat.Shape, Bool.and_eq_true] at hp
      simp only [wd] at hk
      have hm : q.isMetaHead = true := by rw [isMetaHead_eq]; exact hp.1.1
      simp only [Interpreter.pattern, assert_, if_true, ih s plug hp.2 (by omega), ih s q hp.1.2 (by omega),
        call_some_some, hm]
      cases k <;> rfl
    | inst q m =>
      simp only [NPat.Shape, Bool.and_eq_true] at hp
      simp only [wd] at hk
      have hl : ∀ v ∈ deltaValues m, v.Shape = true ∧ wd v ≤ k := by
        intro v hv
        obtain ⟨kv, hkv, rfl⟩ := List.mem_map.mp hv
        exact ⟨(NPat.shapeMap_iff m).mp hp.2 kv hkv, Nat.le_trans (wdm_le hkv) (by omega)⟩
      simp only [Interpreter.pattern, hloop _ _ hl, ih s q hp.1 (by omega), call_some_some]
      cases k <;> rfl

theorem dictSet_self (δ : List (Nat × NPat)) (hnd : (δ.map (·.1)).Nodup) (k : Nat) (p : NPat) (h : (k, p) ∈ δ) :
    dictSet δ k p = δ := by
  unfold dictSet
  conv => rhs; rw [← List.map_id δ]
  apply List.map_congr_left
  intro kv hkv
  simp only [id]
  split
  · next hk =>
    -- two entries with the same key are the same entry
    have : kv = (k, p) := by
      induction δ with
      | nil => cases h
      | cons a r ih =>
        simp only [List.map_cons, List.nodup_cons, List.mem_map, not_exists, not_and] at hnd
        rcases List.mem_cons.mp hkv with rfl | hkv' <;> rcases List.mem_cons.mp h with h' | h'
        · exact h'.symm
        · exact absurd hk (by intro e; exact hnd.1 (k, p) h' (by simp [e]))
        · subst h'; exact absurd hk.symm (by intro e; exact hnd.1 kv hkv' (by simp [e]))
        · exact ih hnd.2 h' hkv'
    rw [this]
  · rfl


theorem rawB_step (ax : List NPat) (n : Nat) (pf : Pf) : OLe (rawB ax n pf) (rawB ax (n + 1) pf) := by
  have ih := runBasicF_step ax n
  cases pf with
  | prop1 => exact OLe.refl _
  | prop2 => exact OLe.refl _
  | prop3 => exact OLe.refl _
  | quantifier => exact OLe.refl _
  | loadAxiom a => exact OLe.refl _
  | mp l r =>
    simp only [rawB]
    apply OLe.bind (ih l); intro x
    apply OLe.bind (ih r); intro y
    cases x <;> cases y <;> first | exact OLe.refl _ | exact NPat.pyMP_step n _ _
  | gen p x =>
    simp only [rawB]
    apply OLe.bind (ih p); intro o
    cases o with
    | none => exact OLe.refl _
    | some a => exact NPat.pyGen_step n a x
  | dynInst p δ =>
    simp only [rawB]
    apply OLe.ite
    · intro _; exact ih p
    · intro _
      apply OLe.bind (ih p); intro o
      cases o with
      | none => exact OLe.refl _
      | some a => exact OLe.bind ((NPat.monoAll n).1 δ a) (fun _ => OLe.refl _)

theorem rawB_mono (ax : List NPat) (pf : Pf) : Mono (fun m => rawB ax m pf) :=
  fun _ _ hm => OLe.of_step (fun n => rawB ax n pf) (fun n => rawB_step ax n pf) hm

theorem runBasicF_inv (ax : List NPat) (n : Nat) (pf : Pf) (c : NPat) :
    Pf.runBasicF ax (n + 1) pf = some (some c) ↔
      rawB ax n pf = some (some c) ∧ ∃ adv, Pf.concF ax n pf = some (some adv) ∧ NPat.peqF n c adv = some true := by
  rw [runBasicF_succ]
  constructor
  · intro h
    simp only [Option.bind_eq_some_iff] at h
    obtain ⟨raw, hraw, h⟩ := h
    cases raw with
    | none => simp at h
    | some c' =>
      simp only [checkB, Option.bind_eq_some_iff] at h
      obtain ⟨o, ho, h⟩ := h
      cases o with
      | none => simp at h
      | some adv =>
        simp only [Option.bind_eq_some_iff] at h
        obtain ⟨e, he, h⟩ := h
        cases e with
        | false => simp at h
        | true =>
          simp only [if_true, Option.pure_def, Option.some.injEq] at h
          subst h
          exact ⟨hraw, adv, ho, he⟩
  · rintro ⟨hraw, adv, hadv, hpeq⟩
    simp only [hraw, Option.bind_some, checkB, hadv, hpeq, if_true, Option.pure_def]

theorem assembleB (ax : List NPat) {N m0 mc : Nat} {pf : Pf} {c adv : NPat}
    (hraw : rawB ax m0 pf = some (some c)) (hadv : Pf.concF ax mc pf = some (some adv))
    (hpeq : NPat.peqF N c adv = some true) : ∃ m, Pf.runBasicF ax m pf = some (some c) := by
  refine ⟨max (max m0 mc) N + 1, (runBasicF_inv ax _ pf c).mpr ⟨?_, adv, ?_, ?_⟩⟩
  · exact rawB_mono ax pf m0 _ (Nat.le_trans (Nat.le_max_left _ _) (Nat.le_max_left _ _)) _ hraw
  · exact concF_mono ax pf mc _ (Nat.le_trans (Nat.le_max_right _ _) (Nat.le_max_left _ _)) _ hadv
  · exact NPat.peqF_mono (Nat.le_max_right _ _) _ _ _ hpeq

theorem basic_items_sound (N k : Nat) (δ : List (Nat × NPat)) (hnd : (δ.map (·.1)).Nodup) {β} :
    ∀ (items : List (Nat × NPat)), (∀ kv ∈ items, kv ∈ δ) → ∀ (s : PySt) (x : β) (K : PySt × List (Nat × NPat) → Py β),
      forEach items (s, δ) (itemsBody (basicK N k)) K = some (some x) → K (s, δ) = some (some x) := by
  intro items
  induction items with
  | nil => intro _ s x K h; exact h
  | cons kp r ih =>
    intro hsub s x K h
    obtain ⟨k0, p⟩ := kp
    simp only [forEach] at h
    obtain ⟨⟨s1, δ1⟩, hb, hrest⟩ := call_eq_some h
    simp only [itemsBody] at hb
    obtain ⟨⟨s0, v⟩, hp, hb2⟩ := call_eq_some hb
    obtain ⟨e1, e2⟩ := basic_walk_id N k s p s0 v hp
    simp only [ret, Option.some.injEq, Prod.mk.injEq] at hb2
    rw [e1, e2, dictSet_self δ hnd k0 p (hsub _ (by simp))] at hb2
    obtain ⟨hs, hd⟩ := hb2
    rw [← hs, ← hd] at hrest
    exact ih (fun kv hkv => hsub kv (List.mem_cons_of_mem _ hkv)) s x K hrest

theorem basic_items_complete (N k : Nat) (δ : List (Nat × NPat)) (hnd : (δ.map (·.1)).Nodup) {β} :
    ∀ (items : List (Nat × NPat)), (∀ kv ∈ items, kv ∈ δ) → (∀ kv ∈ items, kv.2.Shape = true ∧ wd kv.2 ≤ k) →
      ∀ (s : PySt) (K : PySt × List (Nat × NPat) → Py β),
      forEach items (s, δ) (itemsBody (basicK N k)) K = K (s, δ) := by
  intro items
  induction items with
  | nil => intro _ _ s K; rfl
  | cons kp r ih =>
    intro hsub hsh s K
    obtain ⟨k0, p⟩ := kp
    have := hsh (k0, p) (by simp)
    simp only [forEach, itemsBody, basic_walk_shape N k s p this.1 this.2, call_some_some, ret,
      dictSet_self δ hnd k0 p (hsub _ (by simp))]
    exact ih (fun kv hkv => hsub kv (List.mem_cons_of_mem _ hkv)) (fun kv hkv => hsh kv (List.mem_cons_of_mem _ hkv)) s K

theorem basic_mp (N k : Nat) (s : PySt) (a b : Proved) :
    (basicK N k).modus_ponens s a b = pmap (fun c => (s, (⟨c⟩ : Proved))) (NPat.pyMP N a.conclusion b.conclusion) := by
  have : (basicK N k).modus_ponens s a b = call (Gen.PyInterp.Basic.modus_ponens N a b) fun v => ret (s, v) := by
    cases k <;> rfl
  rw [this, show a = ⟨a.conclusion⟩ from rfl, show b = ⟨b.conclusion⟩ from rfl, InterpTie.modus_ponens_eq]
  rcases NPat.pyMP N a.conclusion b.conclusion with _ | _ | c <;> rfl

theorem basic_gen (N k : Nat) (s : PySt) (a : Proved) (x : VId) :
    (basicK N k).exists_generalization s a x = pmap (fun c => (s, (⟨c⟩ : Proved))) (NPat.pyGen N a.conclusion x) := by
  have : (basicK N k).exists_generalization s a x
      = call (Gen.PyInterp.Basic.exists_generalization N a x) fun v => ret (s, v) := by cases k <;> rfl
  rw [this, show a = ⟨a.conclusion⟩ from rfl, InterpTie.exists_generalization_eq]
  rcases NPat.pyGen N a.conclusion x with _ | _ | c <;> rfl

theorem basic_inst (N k : Nat) (s : PySt) (a : Proved) (δ : List (Nat × NPat)) (hδ : δ.isEmpty = false) :
    (basicK N k).instantiate s a δ = (NPat.instF N δ a.conclusion).map fun c => some (s, (⟨c⟩ : Proved)) := by
  have : (basicK N k).instantiate s a δ = call (Gen.PyInterp.Basic.instantiate N a δ) fun v => ret (s, v) := by
    cases k <;> rfl
  rw [this, show a = ⟨a.conclusion⟩ from rfl, InterpTie.instantiate_eq]
  simp only [NPat.pyInst, hδ, Bool.false_eq_true, if_false]
  cases NPat.instF N δ a.conclusion <;> rfl

/-- **the generated runs are `runBasicF` (2)**: a run of a generated thunk on `BasicInterpreter` that returns
is a run of the model; the interpreter's state is untouched -/
theorem basic_run_sound (ax : List NPat) (N k : Nat) :
    ∀ (pf : Pf) (t : ProofThunk PySt), build N ax pf = some (some t) → KeysNodup pf →
      ∀ (s s' : PySt) (pr : Proved), ProofThunk.__call__ N t (basicK N k) s = some (some (s', pr)) →
        s' = s ∧ ∃ m, Pf.runBasicF ax m pf = some (some pr.conclusion) := by
  intro pf
  induction pf with
  | prop1 =>
    intro t ht _ s s' pr h
    obtain ⟨mc, hmc⟩ := conc_sound ax N _ t ht
    obtain ⟨hexpr, hpeq⟩ := (thunk_call_some N t _ _ _).mp h
    simp only [build, ret, Option.some.injEq] at ht; subst ht
    have : (basicK N k).prop1 s = some (some (s, ⟨prop1N⟩)) := by cases k <;> rfl
    simp only [prop1_eq, axExpr, this, call_some_some, ret, Option.some.injEq, Prod.mk.injEq] at hexpr
    obtain ⟨rfl, rfl⟩ := hexpr
    exact ⟨rfl, assembleB ax (m0 := 0) (pf := .prop1) rfl hmc hpeq⟩
  | prop2 =>
    intro t ht _ s s' pr h
    obtain ⟨mc, hmc⟩ := conc_sound ax N _ t ht
    obtain ⟨hexpr, hpeq⟩ := (thunk_call_some N t _ _ _).mp h
    simp only [build, ret, Option.some.injEq] at ht; subst ht
    have : (basicK N k).prop2 s = some (some (s, ⟨prop2N⟩)) := by cases k <;> rfl
    simp only [prop2_eq, axExpr, this, call_some_some, ret, Option.some.injEq, Prod.mk.injEq] at hexpr
    obtain ⟨rfl, rfl⟩ := hexpr
    exact ⟨rfl, assembleB ax (m0 := 0) (pf := .prop2) rfl hmc hpeq⟩
  | prop3 =>
    intro t ht _ s s' pr h
    obtain ⟨mc, hmc⟩ := conc_sound ax N _ t ht
    obtain ⟨hexpr, hpeq⟩ := (thunk_call_some N t _ _ _).mp h
    simp only [build, ret, Option.some.injEq] at ht; subst ht
    have : (basicK N k).prop3 s = some (some (s, ⟨prop3N⟩)) := by cases k <;> rfl
    simp only [prop3_eq, axExpr, this, call_some_some, ret, Option.some.injEq, Prod.mk.injEq] at hexpr
    obtain ⟨rfl, rfl⟩ := hexpr
    exact ⟨rfl, assembleB ax (m0 := 0) (pf := .prop3) rfl hmc hpeq⟩
  | quantifier =>
    intro t ht _ s s' pr h
    obtain ⟨mc, hmc⟩ := conc_sound ax N _ t ht
    obtain ⟨hexpr, hpeq⟩ := (thunk_call_some N t _ _ _).mp h
    simp only [build, ret, Option.some.injEq] at ht; subst ht
    have : (basicK N k).exists_quantifier s = some (some (s, ⟨quantN⟩)) := by cases k <;> rfl
    simp only [quant_eq, axExpr, this, call_some_some, ret, Option.some.injEq, Prod.mk.injEq] at hexpr
    obtain ⟨rfl, rfl⟩ := hexpr
    exact ⟨rfl, assembleB ax (m0 := 0) (pf := .quantifier) rfl hmc hpeq⟩
  | loadAxiom a =>
    intro t ht _ s s' pr h
    obtain ⟨mc, hmc⟩ := conc_sound ax N _ t ht
    obtain ⟨hexpr, hpeq⟩ := (thunk_call_some N t _ _ _).mp h
    simp only [build, load_eq, Option.bind_eq_some_iff] at ht
    obtain ⟨b, _, ht⟩ := ht
    cases b with
    | false => simp at ht
    | true =>
      simp only [if_true, Option.some.injEq] at ht; subst ht
      have : ∀ i tt, (basicK N k).load s i tt = some (some s) := by intro i tt; cases k <;> rfl
      simp only [loadExpr, this, call_some_some, ret, Option.some.injEq, Prod.mk.injEq] at hexpr
      obtain ⟨rfl, rfl⟩ := hexpr
      exact ⟨rfl, assembleB ax (m0 := 0) (pf := .loadAxiom a) rfl hmc hpeq⟩
  | mp l r ihl ihr =>
    intro t ht hk s s' pr h
    obtain ⟨mc, hmc⟩ := conc_sound ax N _ t ht
    obtain ⟨hexpr, hpeq⟩ := (thunk_call_some N t _ _ _).mp h
    simp only [build] at ht
    obtain ⟨tl, hl, ht⟩ := call_eq_some ht
    obtain ⟨tr, hr, ht⟩ := call_eq_some ht
    rw [mp_eq] at ht
    obtain ⟨o, _, ho'⟩ := (pmap_some _ _ _).mp ht
    cases o with
    | none => cases ho'
    | some q =>
      simp only [Option.map_some, Option.some.injEq] at ho'; subst ho'
      simp only [mpExpr] at hexpr
      obtain ⟨⟨s1, p1⟩, h1, hx1⟩ := call_eq_some hexpr
      obtain ⟨e1, m1, hr1⟩ := ihl tl hl hk.1 s s1 p1 h1
      try simp only [] at hx1
      rw [e1] at hx1
      obtain ⟨⟨s2, p2⟩, h2, hx2⟩ := call_eq_some hx1
      obtain ⟨e2, m2, hr2⟩ := ihr tr hr hk.2 s s2 p2 h2
      try simp only [] at hx2
      rw [e2, call_eta2 _ _ (fun _ _ => rfl), basic_mp] at hx2
      obtain ⟨o, ho, ho'⟩ := (pmap_some _ _ _).mp hx2
      cases o with
      | none => cases ho'
      | some c =>
        simp only [Option.map_some, Option.some.injEq, Prod.mk.injEq] at ho'
        obtain ⟨rfl, rfl⟩ := ho'
        refine ⟨rfl, assembleB ax (m0 := max (max m1 m2) N) ?_ hmc hpeq⟩
        simp only [rawB,
          runBasicF_mono ax l m1 _ (Nat.le_trans (Nat.le_max_left _ _) (Nat.le_max_left _ _)) _ hr1,
          runBasicF_mono ax r m2 _ (Nat.le_trans (Nat.le_max_right _ _) (Nat.le_max_left _ _)) _ hr2,
          Option.bind_some]
        exact pyMP_mono (Nat.le_max_right _ _) _ _ _ ho
  | gen p x ih =>
    intro t ht hk s s' pr h
    obtain ⟨mc, hmc⟩ := conc_sound ax N _ t ht
    obtain ⟨hexpr, hpeq⟩ := (thunk_call_some N t _ _ _).mp h
    simp only [build] at ht
    obtain ⟨tp, hp, ht⟩ := call_eq_some ht
    rw [gen_eq] at ht
    obtain ⟨o, _, ho'⟩ := (pmap_some _ _ _).mp ht
    cases o with
    | none => cases ho'
    | some q =>
      simp only [Option.map_some, Option.some.injEq] at ho'; subst ho'
      simp only [genExpr] at hexpr
      obtain ⟨⟨s1, p1⟩, h1, hx1⟩ := call_eq_some hexpr
      obtain ⟨e1, m1, hr1⟩ := ih tp hp hk s s1 p1 h1
      try simp only [] at hx1
      rw [e1, call_eta2 _ _ (fun _ _ => rfl), basic_gen] at hx1
      obtain ⟨o, ho, ho'⟩ := (pmap_some _ _ _).mp hx1
      cases o with
      | none => cases ho'
      | some c =>
        simp only [Option.map_some, Option.some.injEq, Prod.mk.injEq] at ho'
        obtain ⟨rfl, rfl⟩ := ho'
        refine ⟨rfl, assembleB ax (m0 := max m1 N) ?_ hmc hpeq⟩
        simp only [rawB, runBasicF_mono ax p m1 _ (Nat.le_max_left _ _) _ hr1, Option.bind_some]
        exact OLe.of_step (fun n => NPat.pyGen n _ x) (fun n => NPat.pyGen_step n _ x) (Nat.le_max_right m1 N) _ ho
  | dynInst p δ ih =>
    intro t ht hk s s' pr h
    obtain ⟨mc, hmc⟩ := conc_sound ax N _ t ht
    obtain ⟨hexpr, hpeq⟩ := (thunk_call_some N t _ _ _).mp h
    simp only [build] at ht
    obtain ⟨tp, hp, ht⟩ := call_eq_some ht
    rw [dyn_eq] at ht
    cases hδ : δ.isEmpty with
    | true =>
      simp only [hδ, if_true, Option.some.injEq] at ht; subst ht
      obtain ⟨e1, m1, hr1⟩ := ih _ hp hk.1 s s' pr h
      refine ⟨e1, assembleB ax (m0 := m1) ?_ hmc hpeq⟩
      simp only [rawB, hδ, if_true, hr1]
    | false =>
      simp only [hδ, Bool.false_eq_true, if_false] at ht
      obtain ⟨o, _, ho'⟩ := (pmap_some _ _ _).mp ht
      cases o with
      | none => cases ho'
      | some q =>
        simp only [Option.map_some, Option.some.injEq] at ho'; subst ho'
        replace hexpr : dynExpr tp δ N (basicK N k) s = some (some (s', pr)) := hexpr
        rw [dynExpr_eq] at hexpr
        have hK := basic_items_sound N k δ hk.2 δ (fun _ h => h) s _ _ hexpr
        simp only [dynK] at hK
        obtain ⟨⟨s2, p2⟩, h2, hK2⟩ := call_eq_some hK
        obtain ⟨e2, m2, hr2⟩ := ih tp hp hk.1 s s2 p2 h2
        try simp only [] at hK2
        rw [e2, call_eta2 _ _ (fun _ _ => rfl), basic_inst N k _ p2 δ hδ] at hK2
        simp only [Option.map_eq_some_iff] at hK2
        obtain ⟨c, hc, hK3⟩ := hK2
        simp only [Option.some.injEq, Prod.mk.injEq] at hK3
        obtain ⟨rfl, rfl⟩ := hK3
        refine ⟨rfl, assembleB ax (m0 := max m2 N) ?_ hmc hpeq⟩
        simp only [rawB, hδ, Bool.false_eq_true, if_false, runBasicF_mono ax p m2 _ (Nat.le_max_left _ _) _ hr2,
          Option.bind_some, NPat.instF_mono (Nat.le_max_right m2 N) _ _ _ hc, Option.pure_def]

/-- **the generated runs are `runBasicF` (1)**: a run of the model that returns is the run of the
generated thunk on `BasicInterpreter` — *provided the plugs are shaped* (`basic_discrepancy`), the dicts
have distinct keys, and the recursion depth `k` suffices to walk the plugs -/
theorem basic_run_complete (ax : List NPat) (N k : Nat) :
    ∀ (n : Nat) (pf : Pf) (c : NPat), Pf.runBasicF ax n pf = some (some c) → n ≤ N → plugDepth pf ≤ k →
      PlugsShaped pf → KeysNodup pf → ∀ t : ProofThunk PySt, build N ax pf = some (some t) →
      ∀ s, ProofThunk.__call__ N t (basicK N k) s = some (some (s, ⟨c⟩)) := by
  intro n
  induction n with
  | zero => intro pf c h; simp [Pf.runBasicF] at h
  | succ n ih =>
    intro pf c h hN hd hsh hkn t ht s
    have hn : n ≤ N := by omega
    obtain ⟨hraw, adv, hadv, hpeq⟩ := (runBasicF_inv ax n pf c).mp h
    have hconc : t.conc = adv := by
      have := conc_complete (τ := PySt) ax n pf _ hadv N hn
      rw [ht] at this
      simpa [pmap] using this
    refine (thunk_call_some N t _ _ _).mpr ⟨?_, by rw [hconc]; exact NPat.peqF_mono hn _ _ _ hpeq⟩
    cases pf with
    | prop1 =>
      simp only [build, ret, Option.some.injEq] at ht; subst ht
      simp only [rawB, Option.pure_def, Option.some.injEq] at hraw; subst hraw
      have : (basicK N k).prop1 s = some (some (s, ⟨prop1N⟩)) := by cases k <;> rfl
      simp only [prop1_eq, axExpr, this, call_some_some, ret]
    | prop2 =>
      simp only [build, ret, Option.some.injEq] at ht; subst ht
      simp only [rawB, Option.pure_def, Option.some.injEq] at hraw; subst hraw
      have : (basicK N k).prop2 s = some (some (s, ⟨prop2N⟩)) := by cases k <;> rfl
      simp only [prop2_eq, axExpr, this, call_some_some, ret]
    | prop3 =>
      simp only [build, ret, Option.some.injEq] at ht; subst ht
      simp only [rawB, Option.pure_def, Option.some.injEq] at hraw; subst hraw
      have : (basicK N k).prop3 s = some (some (s, ⟨prop3N⟩)) := by cases k <;> rfl
      simp only [prop3_eq, axExpr, this, call_some_some, ret]
    | quantifier =>
      simp only [build, ret, Option.some.injEq] at ht; subst ht
      simp only [rawB, Option.pure_def, Option.some.injEq] at hraw; subst hraw
      have : (basicK N k).exists_quantifier s = some (some (s, ⟨quantN⟩)) := by cases k <;> rfl
      simp only [quant_eq, axExpr, this, call_some_some, ret]
    | loadAxiom a =>
      simp only [build, load_eq, Option.bind_eq_some_iff] at ht
      obtain ⟨b, _, ht⟩ := ht
      cases b with
      | false => simp at ht
      | true =>
        simp only [if_true, Option.some.injEq] at ht; subst ht
        simp only [rawB, Option.pure_def, Option.some.injEq] at hraw; subst hraw
        have : ∀ i tt, (basicK N k).load s i tt = some (some s) := by intro i tt; cases k <;> rfl
        simp only [loadExpr, this, call_some_some, ret]
    | mp l r =>
      simp only [build] at ht
      obtain ⟨tl, hl, ht⟩ := call_eq_some ht
      obtain ⟨tr, hr, ht⟩ := call_eq_some ht
      rw [mp_eq] at ht
      obtain ⟨o, _, ho'⟩ := (pmap_some _ _ _).mp ht
      cases o with
      | none => cases ho'
      | some q =>
        simp only [Option.map_some, Option.some.injEq] at ho'; subst ho'
        simp only [rawB, Option.bind_eq_some_iff] at hraw
        obtain ⟨x, hx, y, hy, hraw⟩ := hraw
        cases x with
        | none => simp at hraw
        | some a =>
          cases y with
          | none => simp at hraw
          | some b =>
            simp only [plugDepth, Nat.max_le] at hd
            simp only [mpExpr, ih l a hx hn hd.1 hsh.1 hkn.1 tl hl s, call_some_some,
              ih r b hy hn hd.2 hsh.2 hkn.2 tr hr s]
            rw [call_eta2 _ _ (fun _ _ => rfl), basic_mp, pyMP_mono hn _ _ _ hraw]
            rfl
    | gen p x =>
      simp only [build] at ht
      obtain ⟨tp, hp, ht⟩ := call_eq_some ht
      rw [gen_eq] at ht
      obtain ⟨o, _, ho'⟩ := (pmap_some _ _ _).mp ht
      cases o with
      | none => cases ho'
      | some q =>
        simp only [Option.map_some, Option.some.injEq] at ho'; subst ho'
        simp only [rawB, Option.bind_eq_some_iff] at hraw
        obtain ⟨o, ho, hraw⟩ := hraw
        cases o with
        | none => simp at hraw
        | some a =>
          simp only [genExpr, ih p a ho hn hd hsh hkn tp hp s, call_some_some]
          rw [call_eta2 _ _ (fun _ _ => rfl), basic_gen,
            OLe.of_step (fun n => NPat.pyGen n _ x) (fun n => NPat.pyGen_step n _ x) hn _ hraw]
          rfl
    | dynInst p δ =>
      simp only [build] at ht
      obtain ⟨tp, hp, ht⟩ := call_eq_some ht
      rw [dyn_eq] at ht
      simp only [plugDepth, Nat.max_le] at hd
      cases hδ : δ.isEmpty with
      | true =>
        simp only [hδ, if_true, Option.some.injEq] at ht; subst ht
        simp only [rawB, hδ, if_true] at hraw
        exact ((thunk_call_some N _ _ _ _).mp (ih p c hraw hn hd.1 hsh.1 hkn.1 _ hp s)).1
      | false =>
        simp only [hδ, Bool.false_eq_true, if_false] at ht
        obtain ⟨o, _, ho'⟩ := (pmap_some _ _ _).mp ht
        cases o with
        | none => cases ho'
        | some q =>
          simp only [Option.map_some, Option.some.injEq] at ho'; subst ho'
          simp only [rawB, hδ, Bool.false_eq_true, if_false, Option.bind_eq_some_iff] at hraw
          obtain ⟨o, ho, hraw⟩ := hraw
          cases o with
          | none => simp at hraw
          | some a =>
            simp only [Option.bind_eq_some_iff, Option.pure_def, Option.some.injEq] at hraw
            obtain ⟨c', hc', rfl⟩ := hraw
            show dynExpr tp δ N (basicK N k) s = _
            have hitems : ∀ kv ∈ δ, kv.2.Shape = true ∧ wd kv.2 ≤ k := fun kv hkv =>
              ⟨(NPat.shapeMap_iff δ).mp hsh.2 kv hkv, Nat.le_trans (wdm_le hkv) hd.2⟩
            rw [dynExpr_eq, basic_items_complete N k δ hkn.2 δ (fun _ h => h) hitems]
            simp only [dynK, ih p a ho hn hd.1 hsh.1 hkn.1 tp hp s, call_some_some]
            rw [call_eta2 _ _ (fun _ _ => rfl), basic_inst N k s ⟨a⟩ δ hδ, NPat.instF_mono hn _ _ _ hc']
            rfl

/-- the hand-written `runBasicF` and the Python source differ on an unshaped plug: for
`dynamic_inst(prop1(), {0: ESubst(EVar(0), EVar(0), EVar(1))})` the model returns a conclusion, while the
generated code (as Python: `AssertionError` in `Interpreter.pattern`, checked on the real code) raises,
because `dynamic_inst` walks the plugs on *every* interpreter -/
def discrepancyPf : Pf := .dynInst .prop1 [(0, .esub (.evar 0) 0 (.evar 1))]

theorem basic_discrepancy :
    (Pf.runBasicF [] 40 discrepancyPf).map Option.isSome = some true ∧
    ((build (τ := PySt) 40 [] discrepancyPf).bind fun o => o.bind fun t =>
      (ProofThunk.__call__ 40 t (basicK 40 40) (PySt.init [])).map Option.isSome) = some false := by
  decide

end ProofTie

#print axioms ProofTie.translated
#print axioms ProofTie.interface_eq
#print axioms ProofTie.pattern_complete
#print axioms ProofTie.pattern_sound
#print axioms ProofTie.memo_pattern_complete
#print axioms ProofTie.memo_pattern_sound
#print axioms ProofTie.conc_complete
#print axioms ProofTie.conc_sound
#print axioms ProofTie.run_complete
#print axioms ProofTie.run_sound
#print axioms ProofTie.basic_run_complete
#print axioms ProofTie.basic_run_sound
#print axioms ProofTie.basic_discrepancy
#print axioms ProofTie.full_complete
#print axioms ProofTie.full_sound
#print axioms ProofTie.execute_plain
#print axioms ProofTie.execute_memo
#print axioms ProofTie.serialize_shape
#print axioms ProofTie.esubst_guard
#print axioms ProofTie.thunk_guard
#print axioms ProofTie.inst_optimizer
