import Pi2.Gen.PyCount
/-!
# C18 — the counting pre-pass (`CountingInterpreter`, as written) does not depend on any set iteration order

`Pi2/Gen/PyCount.lean` is regenerated on every run from `counting_interpreter.py` (`vlib/transcount.py`: every statement; a
`dict` is an association list in insertion order; a `set` is enumerated only through the oracle `orders`, which the
caller chooses freely — any permutation, a new one at every iteration).  The source iterates a set in two places, both in
the `while` loop of `finalize`: `for dependency in dependencies` and `for pattern in requires_updating`.

Main results
* `finalize_order_independent`: for every counting state in which no pattern lists itself among its `used_patterns`
  (`NoSelfUse`) and any two valid oracles, `finalize o₁ t σ = finalize o₂ t σ`: the same suggestion set (even the same
  listing), the same statistics in the same dictionary order, or an exception in both runs.  Why: the update for a
  dependency `d` reads and writes the entry of `d` and reads the entry of the memoised pattern `P ≠ d`
  (`depStepU_eq_updAt`), so two of them commute (`depStepU_comm`); recomputing two scores commutes (`scoreU_comm`); the two
  listings of `requires_updating` are permutations of each other (`foldl_setAdd_perm`); a fold of commuting steps over two
  permutations of a list gives the same result (`foldlM_perm`).
* `reachable_noSelfUse`: every state the recording phase can produce satisfies the hypothesis (`used_patterns` of `p` only
  contains proper sub-patterns of `p`: `collect_sizeInv`), hence `finalize_order_independent_reachable`.
* `order_reaches_result_without_noSelfUse`: without the hypothesis the order DOES reach the result (a hand-made state).
* the recording phase iterates no set (`recording_has_no_set_iteration`); `while_fuel_enough`: the fuel `counter.toNat` of
  the loop function suffices.

Keys: an arbitrary type `K` with decidable equality — the pattern objects up to the equality CPython's `dict` / `set`
implement (`hash` equal and `==`; for the frozen dataclasses of `pattern.py`: structural equality of the object trees,
notation NOT unfolded, up to collisions of the full 64-bit hash — that residue stays with the multi-seed run of the check).
Nothing else about patterns matters for C18; the recording phase additionally uses `PyPattern K` (class tests, fields, and
the fact that a field is a proper sub-object).
-/
set_option linter.unusedVariables false
set_option linter.unusedSimpArgs false
set_option linter.unusedSectionVars false
namespace CountDet
open CountSup Gen.PyCount

theorem translated : Gen.PyCount.translated = true := by decide

variable {K : Type} [DecidableEq K]

/-! ## `Option` plumbing -/
theorem bind_congr' {α β} {x : Option α} {f g : α → Option β} (h : ∀ a, x = some a → f a = g a) :
    x.bind f = x.bind g := by
  cases x with
  | none => rfl
  | some a => exact h a rfl

/-- folding a step function over two permutations of a list gives the same result when the steps commute -/
theorem foldlM_perm {σ α} (f : σ → α → Option σ) {l₁ l₂ : List α} (hp : l₁.Perm l₂)
    (hc : ∀ a, a ∈ l₁ → ∀ b, b ∈ l₁ → ∀ s, (f s a).bind (fun s' => f s' b) = (f s b).bind (fun s' => f s' a)) :
    ∀ s, l₁.foldlM f s = l₂.foldlM f s := by
  induction hp with
  | nil => intro s; rfl
  | cons x _ ih =>
      intro s
      simp only [List.foldlM_cons]
      apply bind_congr'
      intro s' _
      exact ih (fun a ha b hb => hc a (List.mem_cons_of_mem _ ha) b (List.mem_cons_of_mem _ hb)) s'
  | swap x y l =>
      intro s
      simp only [List.foldlM_cons, Option.bind_eq_bind]
      rw [← Option.bind_assoc, ← Option.bind_assoc]
      rw [hc y (by simp) x (by simp) s]
  | trans h₁ h₂ ih₁ ih₂ =>
      intro s
      rw [ih₁ hc s]
      exact ih₂ (fun a ha b hb => hc a (h₁.mem_iff.mpr ha) b (h₁.mem_iff.mpr hb)) s

/-! ## `dict` -/
section dict
variable {V : Type}

theorem dictContains_eq_isSome (d : PyDict K V) (k : K) : dictContains d k = (dictGet d k).isSome := by
  induction d with
  | nil => rfl
  | cons kv r ih =>
      obtain ⟨k', v⟩ := kv
      by_cases h : k' = k <;> simp [dictContains, dictGet, h] at ih ⊢
      exact ih

theorem dictContains_of_get {d : PyDict K V} {k : K} {v : V} (h : dictGet d k = some v) : dictContains d k = true := by
  rw [dictContains_eq_isSome, h]; rfl

theorem dictGet_map_set (d : PyDict K V) (k k' : K) (v : V) :
    dictGet (d.map (fun kv => if kv.1 = k then (kv.1, v) else kv)) k' =
      if k' = k then (dictGet d k).map (fun _ => v) else dictGet d k' := by
  induction d with
  | nil => simp [dictGet]
  | cons kv r ih =>
      obtain ⟨k₀, v₀⟩ := kv
      by_cases h0 : k₀ = k
      · by_cases h1 : k' = k
        · subst h0; subst h1; simp [dictGet]
        · subst h0; simp [dictGet, h1, Ne.symm h1] at ih ⊢; exact ih
      · by_cases h1 : k' = k
        · subst h1; simp [dictGet, h0] at ih ⊢; exact ih
        · by_cases h2 : k₀ = k'
          · simp [dictGet, h0, h1, h2]
          · simp [dictGet, h0, h1, h2] at ih ⊢; exact ih

theorem dictGet_append_of_not (d : PyDict K V) (k k' : K) (v : V) (h : dictGet d k = none) :
    dictGet (d ++ [(k, v)]) k' = if k' = k then some v else dictGet d k' := by
  induction d with
  | nil =>
      by_cases h1 : k' = k
      · simp [dictGet, h1]
      · have : ¬ k = k' := fun h => h1 h.symm
        simp [dictGet, h1, this]
  | cons kv r ih =>
      obtain ⟨k₀, v₀⟩ := kv
      by_cases h0 : k₀ = k
      · simp [dictGet, h0] at h
      · simp only [dictGet, h0, if_false] at h
        by_cases h2 : k₀ = k'
        · subst h2; simp [dictGet, h0]
        · simp [dictGet, h2]; exact ih h

theorem dictGet_set (d : PyDict K V) (k k' : K) (v : V) :
    dictGet (dictSet d k v) k' = if k' = k then some v else dictGet d k' := by
  unfold dictSet
  by_cases hc : dictContains d k = true
  · simp only [hc, if_true]
    rw [dictGet_map_set]
    rw [dictContains_eq_isSome] at hc
    by_cases h1 : k' = k
    · simp only [h1, if_true]
      cases h : dictGet d k with
      | none => simp [h] at hc
      | some _ => rfl
    · simp [h1]
  · simp only [hc]
    apply dictGet_append_of_not
    rw [dictContains_eq_isSome] at hc
    cases h : dictGet d k with
    | none => rfl
    | some _ => simp [h] at hc

theorem dictGet_set_eq (d : PyDict K V) (k : K) (v : V) : dictGet (dictSet d k v) k = some v := by
  rw [dictGet_set]; simp

theorem dictGet_set_ne (d : PyDict K V) {k k' : K} (v : V) (h : k' ≠ k) : dictGet (dictSet d k v) k' = dictGet d k' := by
  rw [dictGet_set]; simp [h]

theorem dictSet_of_contains {d : PyDict K V} {k : K} (v : V) (h : dictContains d k = true) :
    dictSet d k v = d.map (fun kv => if kv.1 = k then (kv.1, v) else kv) := by
  simp [dictSet, h]

theorem dictContains_set (d : PyDict K V) (k k' : K) (v : V) :
    dictContains (dictSet d k v) k' = (dictContains d k' || decide (k' = k)) := by
  rw [dictContains_eq_isSome, dictContains_eq_isSome, dictGet_set]
  by_cases h : k' = k <;> simp [h]

theorem dictKeys_set_of_contains {d : PyDict K V} {k : K} (v : V) (h : dictContains d k = true) :
    dictKeys (dictSet d k v) = dictKeys d := by
  rw [dictSet_of_contains v h]
  simp only [dictKeys, List.map_map]
  apply List.map_congr_left
  intro kv _
  by_cases h1 : kv.1 = k <;> simp [h1]

/-- two assignments to different existing keys commute -/
theorem dictSet_comm {d : PyDict K V} {k₁ k₂ : K} (v₁ v₂ : V) (hne : k₁ ≠ k₂)
    (h₁ : dictContains d k₁ = true) (h₂ : dictContains d k₂ = true) :
    dictSet (dictSet d k₁ v₁) k₂ v₂ = dictSet (dictSet d k₂ v₂) k₁ v₁ := by
  have h₂' : dictContains (dictSet d k₁ v₁) k₂ = true := by rw [dictContains_set]; simp [h₂]
  have h₁' : dictContains (dictSet d k₂ v₂) k₁ = true := by rw [dictContains_set]; simp [h₁]
  rw [dictSet_of_contains v₂ h₂', dictSet_of_contains v₁ h₁', dictSet_of_contains v₁ h₁, dictSet_of_contains v₂ h₂]
  simp only [List.map_map]
  apply List.map_congr_left
  intro kv _
  by_cases ha : kv.1 = k₁
  · have : ¬ kv.1 = k₂ := fun hb => hne (ha.symm.trans hb)
    simp [ha, this, hne]
  · by_cases hb : kv.1 = k₂ <;> simp [ha, hb, Ne.symm hne]

theorem dictSet_set_same {d : PyDict K V} {k : K} (v w : V) (h : dictContains d k = true) :
    dictSet (dictSet d k v) k w = dictSet d k w := by
  have h' : dictContains (dictSet d k v) k = true := by rw [dictContains_set]; simp
  rw [dictSet_of_contains w h', dictSet_of_contains v h, dictSet_of_contains w h]
  simp only [List.map_map]
  apply List.map_congr_left
  intro kv _
  by_cases ha : kv.1 = k <;> simp [ha]

theorem mem_of_dictGet {d : PyDict K V} {k : K} {v : V} (h : dictGet d k = some v) : (k, v) ∈ d := by
  induction d with
  | nil => simp [dictGet] at h
  | cons kv r ih =>
      obtain ⟨k₀, v₀⟩ := kv
      by_cases h0 : k₀ = k
      · simp [dictGet, h0] at h; simp [h0, h]
      · simp [dictGet, h0] at h; exact List.mem_cons_of_mem _ (ih h)

theorem mem_dictSet {d : PyDict K V} {k : K} {v : V} {kv : K × V} (h : kv ∈ dictSet d k v) :
    (kv.1 = k ∧ kv.2 = v) ∨ (kv.1 ≠ k ∧ kv ∈ d) := by
  unfold dictSet at h
  by_cases hc : dictContains d k = true
  · simp only [hc, if_true, List.mem_map] at h
    obtain ⟨kv', hm, he⟩ := h
    by_cases h1 : kv'.1 = k
    · simp only [h1, if_true] at he; left; subst he; simp
    · simp only [h1, if_false] at he; right; subst he; exact ⟨h1, hm⟩
  · simp only [hc] at h
    rcases List.mem_append.mp h with h | h
    · right
      refine ⟨?_, h⟩
      intro he
      apply hc
      simp only [dictContains, List.any_eq_true]
      exact ⟨kv, h, by simp [he]⟩
    · simp at h; left; subst h; simp

end dict

/-! ## the generated loop bodies on the usage dictionary alone

`finalize` changes `self` only in `_pattern_usage`, `_suggested_for_memoization`, `_max_allowed_slots`, `_finalized`; the loop
bodies change only `_pattern_usage` (`withU`).  `scoreU`, `childStepU`, `depStepU`, `usedStepU` are the loop bodies as
functions of the usage dictionary; the `*_eq` theorems are read off the generated text. -/
abbrev UD (K : Type) := PyDict K (Stats K)

def withU (self : Self K) (U : UD K) : Self K := { self with _pattern_usage := U }
@[simp] theorem withU_usage (self : Self K) (U : UD K) : (withU self U)._pattern_usage = U := rfl
@[simp] theorem withU_withU (self : Self K) (U U' : UD K) : withU (withU self U) U' = withU self U' := rfl
@[simp] theorem withU_self (self : Self K) : withU self self._pattern_usage = self := rfl

/-- `_compute_complexity_score(p)` -/
def scoreU (U : UD K) (p : K) : Option (UD K) :=
  (dictGet U p).map fun e => dictSet U p { e with complexity_score := e.uses * e.complexity }

theorem score_eq (self : Self K) (p : K) :
    _compute_complexity_score self p = (scoreU self._pattern_usage p).map (withU self) := by
  simp only [_compute_complexity_score, scoreU]
  cases h : dictGet self._pattern_usage p <;> simp [h] <;> rfl

theorem for1_eq (self : Self K) (p : K) : finalize_for1 self p = (scoreU self._pattern_usage p).map (withU self) := by
  simp only [finalize_for1, score_eq]

theorem for5_eq (self : Self K) (p : K) : finalize_for5 self p = (scoreU self._pattern_usage p).map (withU self) := by
  simp only [finalize_for5, score_eq]

/-- line 96: `self._pattern_usage[d].used_patterns[child] -= pattern_stats.used_patterns[child] * old_stats.used_patterns[P]` -/
def childStepU (P d : K) (U : UD K) (child : K) : Option (UD K) :=
  (dictGet U d).bind fun eD =>
  (dictGet eD.used_patterns child).bind fun v =>
  (dictGet U P).bind fun eP =>
  (dictGet eP.used_patterns child).bind fun a =>
  (dictGet eD.used_patterns P).bind fun b =>
  some (dictSet U d { eD with used_patterns := dictSet eD.used_patterns child (v - a * b) })

theorem for3_eq (P d : K) (ps old : Stats K) (self : Self K) (child : K) :
    finalize_for3 P ps P d old d self child = (childStepU P d self._pattern_usage child).map (withU self) := by
  simp only [finalize_for3, childStepU]
  cases h1 : dictGet self._pattern_usage d with
  | none => simp [h1]
  | some eD =>
    cases h2 : dictGet eD.used_patterns child with
    | none => simp [h1, h2]
    | some v =>
      cases h3 : dictGet self._pattern_usage P with
      | none => simp [h1, h2, h3]
      | some eP =>
        cases h4 : dictGet eP.used_patterns child with
        | none => simp [h1, h2, h3, h4]
        | some a =>
          cases h5 : dictGet eD.used_patterns P with
          | none => simp [h1, h2, h3, h4, h5]
          | some b => simp [h1, h2, h3, h4, h5]; rfl

/-- a fold of a loop body that only changes the usage dictionary -/
theorem foldlM_withU {α} (f : Self K → α → Option (Self K)) (g : UD K → α → Option (UD K))
    (h : ∀ self a, f self a = (g self._pattern_usage a).map (withU self)) (l : List α) :
    ∀ self, l.foldlM f self = (l.foldlM g self._pattern_usage).map (withU self) := by
  induction l with
  | nil => intro self; simp
  | cons a r ih =>
      intro self
      simp only [List.foldlM_cons, h, Option.bind_eq_bind]
      cases hg : g self._pattern_usage a with
      | none => simp
      | some U' => simp [ih]; rfl

/-- lines 88-98: the body of `for dependency in dependencies` -/
def depStepU (P : K) (psC : Int) (U : UD K) (d : K) : Option (UD K) :=
  (dictGet U d).bind fun old =>
  (dictGet old.used_patterns P).bind fun c =>
  let U1 := dictSet U d { old with complexity := old.complexity - psC * c + 1 }
  (dictGet U1 P).bind fun eP =>
  (dictKeys eP.used_patterns).foldlM (childStepU P d) U1

theorem for2_eq (P : K) (ps : Stats K) (self : Self K) (r : PySet K) (d : K) :
    finalize_for2 P ps P (self, r) d =
      (depStepU P ps.complexity self._pattern_usage d).map fun U' => (withU self U', setAdd r d) := by
  simp only [finalize_for2, depStepU]
  cases h1 : dictGet self._pattern_usage d with
  | none => simp [h1]
  | some old =>
    cases h2 : dictGet old.used_patterns P with
    | none => simp [h1, h2]
    | some c =>
      simp only [h1, h2, Option.bind_eq_bind, Option.bind_some, Option.pure_def]
      cases h3 : dictGet (dictSet self._pattern_usage d { old with complexity := old.complexity - ps.complexity * c + 1 }) P with
      | none => simp [h3]
      | some eP =>
        simp only [h3, Option.bind_some]
        rw [foldlM_withU _ _ (for3_eq P d ps old)]
        simp only [withU_usage]
        cases List.foldlM (childStepU P d) _ (dictKeys eP.used_patterns) <;> simp [withU]


/-! ## updates of one entry: locality and commutation -/
section upd
variable {V : Type}

/-- replace the value under `k` by a function of the old value (nothing happens elsewhere) -/
def updAt (U : PyDict K V) (k : K) (h : V → Option V) : Option (PyDict K V) :=
  (dictGet U k).bind fun e => (h e).map (dictSet U k)

theorem updAt_get_ne {U U' : PyDict K V} {k k' : K} {h : V → Option V} (hu : updAt U k h = some U') (hne : k' ≠ k) :
    dictGet U' k' = dictGet U k' := by
  unfold updAt at hu
  cases h1 : dictGet U k with
  | none => simp [h1] at hu
  | some e =>
    simp only [h1, Option.bind_some] at hu
    cases h2 : h e with
    | none => simp [h2] at hu
    | some e' =>
      simp only [h2, Option.map_some, Option.some.injEq] at hu
      subst hu
      exact dictGet_set_ne _ _ hne

/-- updates of two different entries commute -/
theorem updAt_comm (U : PyDict K V) {a b : K} (hab : a ≠ b) (h₁ h₂ : V → Option V) :
    (updAt U a h₁).bind (fun U' => updAt U' b h₂) = (updAt U b h₂).bind (fun U' => updAt U' a h₁) := by
  unfold updAt
  cases ha : dictGet U a with
  | none =>
    simp only [Option.bind_none]
    cases hb : dictGet U b with
    | none => simp
    | some eb =>
      cases h2 : h₂ eb with
      | none => simp [h2]
      | some eb' => simp [h2, dictGet_set_ne _ _ hab, ha]
  | some ea =>
    cases hb : dictGet U b with
    | none =>
      cases h1 : h₁ ea with
      | none => simp [h1]
      | some ea' => simp [h1, dictGet_set_ne _ _ (Ne.symm hab), hb]
    | some eb =>
      cases h1 : h₁ ea with
      | none =>
        cases h2 : h₂ eb with
        | none => simp [h1, h2]
        | some eb' => simp [h1, h2, dictGet_set_ne _ _ hab, ha]
      | some ea' =>
        cases h2 : h₂ eb with
        | none => simp [h1, h2, dictGet_set_ne _ _ (Ne.symm hab), hb]
        | some eb' =>
          simp [h1, h2, dictGet_set_ne _ _ (Ne.symm hab), dictGet_set_ne _ _ hab, ha, hb]
          exact dictSet_comm _ _ hab (dictContains_of_get ha) (dictContains_of_get hb)

end upd

theorem scoreU_eq_updAt (U : UD K) (p : K) :
    scoreU U p = updAt U p (fun e => some { e with complexity_score := e.uses * e.complexity }) := by
  unfold scoreU updAt
  cases dictGet U p <;> simp

/-- recomputing the scores of two patterns: in either order -/
theorem scoreU_comm (U : UD K) (a b : K) :
    (scoreU U a).bind (fun U' => scoreU U' b) = (scoreU U b).bind (fun U' => scoreU U' a) := by
  by_cases hab : a = b
  · subst hab; rfl
  · simp only [scoreU_eq_updAt]; exact updAt_comm U hab _ _

/-- line 96 as a function of the entry of the dependency `d` (≠ `P`) and the entry `eP` of the memoised pattern -/
def childVal (P : K) (eP : Stats K) (e : Stats K) (child : K) : Option (Stats K) :=
  (dictGet e.used_patterns child).bind fun v =>
  (dictGet eP.used_patterns child).bind fun a =>
  (dictGet e.used_patterns P).bind fun b =>
  some { e with used_patterns := dictSet e.used_patterns child (v - a * b) }

/-- lines 88-98 as a function of the two entries -/
def depVal (P : K) (psC : Int) (eP eD : Stats K) : Option (Stats K) :=
  (dictGet eD.used_patterns P).bind fun c =>
  (dictKeys eP.used_patterns).foldlM (childVal P eP) { eD with complexity := eD.complexity - psC * c + 1 }

theorem childStepU_local {P d : K} (hne : d ≠ P) {U0 : UD K} {eP : Stats K} (hP : dictGet U0 P = some eP)
    (hd : dictContains U0 d = true) (e : Stats K) (child : K) :
    childStepU P d (dictSet U0 d e) child = (childVal P eP e child).map (dictSet U0 d) := by
  unfold childStepU childVal
  rw [dictGet_set_eq, dictGet_set_ne _ _ (Ne.symm hne), hP]
  simp only [Option.bind_some]
  cases h2 : dictGet e.used_patterns child with
  | none => simp
  | some v =>
    cases h4 : dictGet eP.used_patterns child with
    | none => simp
    | some a =>
      cases h5 : dictGet e.used_patterns P with
      | none => simp
      | some b => simp [dictSet_set_same _ _ hd]

theorem childFold_local {P d : K} (hne : d ≠ P) {U0 : UD K} {eP : Stats K} (hP : dictGet U0 P = some eP)
    (hd : dictContains U0 d = true) (l : List K) :
    ∀ e, l.foldlM (childStepU P d) (dictSet U0 d e) = (l.foldlM (childVal P eP) e).map (dictSet U0 d) := by
  induction l with
  | nil => intro e; simp
  | cons c r ih =>
      intro e
      simp only [List.foldlM_cons, childStepU_local hne hP hd, Option.bind_eq_bind]
      cases childVal P eP e c with
      | none => simp
      | some e' => simp [ih]

theorem depStepU_eq_updAt {P d : K} (hne : d ≠ P) (psC : Int) (U : UD K) :
    depStepU P psC U d = (dictGet U P).bind fun eP => updAt U d (depVal P psC eP) := by
  unfold depStepU updAt depVal
  cases hd : dictGet U d with
  | none => cases dictGet U P <;> simp
  | some old =>
    simp only [Option.bind_some]
    cases hc : dictGet old.used_patterns P with
    | none => cases dictGet U P <;> simp
    | some c =>
      simp only [Option.bind_some]
      rw [dictGet_set_ne _ _ (Ne.symm hne)]
      cases hP : dictGet U P with
      | none => simp
      | some eP =>
        simp only [Option.bind_some]
        exact childFold_local hne hP (dictContains_of_get hd) _ _

/-- the updates for two different dependencies commute: each reads and writes its own entry and reads the entry of
the memoised pattern, which neither of them writes -/
theorem depStepU_comm {P a b : K} (ha : a ≠ P) (hb : b ≠ P) (psC : Int) (U : UD K) :
    (depStepU P psC U a).bind (fun U' => depStepU P psC U' b) = (depStepU P psC U b).bind (fun U' => depStepU P psC U' a) := by
  by_cases hab : a = b
  · subst hab; rfl
  · have e1 : ∀ U, depStepU P psC U a = (dictGet U P).bind fun eP => updAt U a (depVal P psC eP) := depStepU_eq_updAt ha psC
    have e2 : ∀ U, depStepU P psC U b = (dictGet U P).bind fun eP => updAt U b (depVal P psC eP) := depStepU_eq_updAt hb psC
    simp only [e1, e2]
    cases hP : dictGet U P with
    | none => simp
    | some eP =>
      simp only [Option.bind_some]
      have l : (updAt U a (depVal P psC eP)).bind (fun U' => (dictGet U' P).bind fun eP' => updAt U' b (depVal P psC eP')) =
          (updAt U a (depVal P psC eP)).bind (fun U' => updAt U' b (depVal P psC eP)) := by
        apply bind_congr'; intro U' hU'
        rw [updAt_get_ne hU' (Ne.symm ha), hP]; rfl
      have r : (updAt U b (depVal P psC eP)).bind (fun U' => (dictGet U' P).bind fun eP' => updAt U' a (depVal P psC eP')) =
          (updAt U b (depVal P psC eP)).bind (fun U' => updAt U' a (depVal P psC eP)) := by
        apply bind_congr'; intro U' hU'
        rw [updAt_get_ne hU' (Ne.symm hb), hP]; rfl
      rw [l, r]
      exact updAt_comm U hab _ _


/-! ## the two loops that also fill `requires_updating` -/
theorem for2_fold (P : K) (ps : Stats K) (l : List K) :
    ∀ (self : Self K) (r : PySet K), l.foldlM (finalize_for2 P ps P) (self, r) =
      (l.foldlM (depStepU P ps.complexity) self._pattern_usage).map fun U' => (withU self U', l.foldl setAdd r) := by
  induction l with
  | nil => intro self r; simp
  | cons a t ih =>
      intro self r
      simp only [List.foldlM_cons, for2_eq, Option.bind_eq_bind, List.foldl_cons]
      cases depStepU P ps.complexity self._pattern_usage a with
      | none => simp
      | some U' => simp [ih]

/-- lines 103-107: the body of `for used in pattern_stats.used_patterns` -/
def usedStepU (P : K) (psU : Int) (U : UD K) (used : K) : Option (UD K) :=
  (dictGet U used).bind fun old =>
  (dictGet U P).bind fun eP =>
  (dictGet eP.used_patterns used).bind fun a =>
  some (dictSet U used { old with uses := old.uses - a * psU })

theorem for4_eq (P : K) (ps : Stats K) (self : Self K) (r : PySet K) (u : K) :
    finalize_for4 ps P (self, r) u =
      (usedStepU P ps.uses self._pattern_usage u).map fun U' => (withU self U', setAdd r u) := by
  simp only [finalize_for4, usedStepU]
  cases h1 : dictGet self._pattern_usage u with
  | none => simp [h1]
  | some old =>
    cases h2 : dictGet self._pattern_usage P with
    | none => simp [h1, h2]
    | some eP =>
      cases h3 : dictGet eP.used_patterns u with
      | none => simp [h1, h2, h3]
      | some a => simp [h1, h2, h3]; rfl

theorem for4_fold (P : K) (ps : Stats K) (l : List K) :
    ∀ (self : Self K) (r : PySet K), l.foldlM (finalize_for4 ps P) (self, r) =
      (l.foldlM (usedStepU P ps.uses) self._pattern_usage).map fun U' => (withU self U', l.foldl setAdd r) := by
  induction l with
  | nil => intro self r; simp
  | cons a t ih =>
      intro self r
      simp only [List.foldlM_cons, for4_eq, Option.bind_eq_bind, List.foldl_cons]
      cases usedStepU P ps.uses self._pattern_usage a with
      | none => simp
      | some U' => simp [ih]

/-! ## sets as listings -/
theorem mem_setAdd {s : PySet K} {x y : K} : y ∈ setAdd s x ↔ y ∈ s ∨ y = x := by
  unfold setAdd
  by_cases h : x ∈ s
  · simp only [h, if_true]
    constructor
    · exact Or.inl
    · rintro (h' | h')
      · exact h'
      · subst h'; exact h
  · simp [h]

theorem nodup_setAdd {s : PySet K} {x : K} (h : s.Nodup) : (setAdd s x).Nodup := by
  unfold setAdd
  by_cases hx : x ∈ s
  · simp [hx, h]
  · simp only [hx, if_false]
    rw [List.nodup_append]
    refine ⟨h, by simp, ?_⟩
    intro a ha b hb
    simp at hb; subst hb
    intro he; subst he; exact hx ha

theorem mem_foldl_setAdd (l : List K) : ∀ (r : PySet K) (y : K), y ∈ l.foldl setAdd r ↔ y ∈ r ∨ y ∈ l := by
  induction l with
  | nil => intro r y; simp
  | cons a t ih =>
      intro r y
      simp only [List.foldl_cons, ih, mem_setAdd, List.mem_cons]
      constructor
      · rintro ((h | h) | h)
        · exact Or.inl h
        · exact Or.inr (Or.inl h)
        · exact Or.inr (Or.inr h)
      · rintro (h | h | h)
        · exact Or.inl (Or.inl h)
        · exact Or.inl (Or.inr h)
        · exact Or.inr h

theorem nodup_foldl_setAdd (l : List K) : ∀ (r : PySet K), r.Nodup → (l.foldl setAdd r).Nodup := by
  induction l with
  | nil => intro r h; exact h
  | cons a t ih => intro r h; exact ih _ (nodup_setAdd h)

/-- adding the elements of two permutations of a list, and then the elements of a further list, to a set gives two listings of the same set -/
theorem foldl_setAdd_perm {l₁ l₂ : List K} (hp : l₁.Perm l₂) (ks : List K) :
    (ks.foldl setAdd (l₁.foldl setAdd setEmpty)).Perm (ks.foldl setAdd (l₂.foldl setAdd setEmpty)) := by
  rw [List.perm_ext_iff_of_nodup]
  · intro a
    simp only [mem_foldl_setAdd, hp.mem_iff]
  · exact nodup_foldl_setAdd _ _ (nodup_foldl_setAdd _ _ List.nodup_nil)
  · exact nodup_foldl_setAdd _ _ (nodup_foldl_setAdd _ _ List.nodup_nil)

/-! ## the hypothesis: no pattern uses itself -/
/-- no entry of the usage dictionary lists its own key among its `used_patterns`.  Holds in every state the recording phase
can produce (`reachable_noSelfUse` below: `used_patterns` of `p` only ever contains proper sub-patterns of `p`). -/
def NoSelfUse (U : UD K) : Prop := ∀ k e, dictGet U k = some e → dictContains e.used_patterns k = false

def SameUsedKeys (e e' : Stats K) : Prop := ∀ k, dictContains e'.used_patterns k = dictContains e.used_patterns k

theorem NoSelfUse.set {U : UD K} (h : NoSelfUse U) {k : K} {e e' : Stats K} (hg : dictGet U k = some e)
    (hs : SameUsedKeys e e') : NoSelfUse (dictSet U k e') := by
  intro k' e'' hg'
  rw [dictGet_set] at hg'
  by_cases hk : k' = k
  · simp only [hk, if_true, Option.some.injEq] at hg'
    subst hg'; subst hk
    rw [hs]; exact h _ _ hg
  · simp only [hk, if_false] at hg'
    exact h _ _ hg'

theorem NoSelfUse.updAt {U U' : UD K} (h : NoSelfUse U) {k : K} {f : Stats K → Option (Stats K)}
    (hf : ∀ e e', f e = some e' → SameUsedKeys e e') (hu : updAt U k f = some U') : NoSelfUse U' := by
  unfold CountDet.updAt at hu
  cases h1 : dictGet U k with
  | none => simp [h1] at hu
  | some e =>
    simp only [h1, Option.bind_some] at hu
    cases h2 : f e with
    | none => simp [h2] at hu
    | some e' =>
      simp only [h2, Option.map_some, Option.some.injEq] at hu
      subst hu
      exact h.set h1 (hf _ _ h2)

theorem foldlM_inv_mem {σ α} (I : σ → Prop) (f : σ → α → Option σ) (l : List α)
    (hf : ∀ s a s', a ∈ l → I s → f s a = some s' → I s') : ∀ s s', I s → l.foldlM f s = some s' → I s' := by
  induction l with
  | nil => intro s s' hs h; simp at h; subst h; exact hs
  | cons a t ih =>
      intro s s' hs h
      simp only [List.foldlM_cons, Option.bind_eq_bind] at h
      cases h1 : f s a with
      | none => simp [h1] at h
      | some s1 =>
        simp only [h1, Option.bind_some] at h
        exact ih (fun s a s' ha => hf s a s' (List.mem_cons_of_mem _ ha)) _ _ (hf _ _ _ (by simp) hs h1) h

theorem foldlM_inv {σ α} (I : σ → Prop) (f : σ → α → Option σ) (hf : ∀ s a s', I s → f s a = some s' → I s')
    (l : List α) : ∀ s s', I s → l.foldlM f s = some s' → I s' :=
  foldlM_inv_mem I f l (fun s a s' _ => hf s a s')

theorem childVal_sameKeys {P : K} {eP e e' : Stats K} {c : K} (h : childVal P eP e c = some e') : SameUsedKeys e e' := by
  unfold childVal at h
  cases h2 : dictGet e.used_patterns c with
  | none => simp [h2] at h
  | some v =>
    cases h4 : dictGet eP.used_patterns c with
    | none => simp [h2, h4] at h
    | some a =>
      cases h5 : dictGet e.used_patterns P with
      | none => simp [h2, h4, h5] at h
      | some b =>
        simp only [h2, h4, h5, Option.bind_some, Option.some.injEq] at h
        subst h
        intro k
        simp only [dictContains_set]
        by_cases hk : k = c
        · subst hk; simp [dictContains_of_get h2]
        · simp [hk]

theorem depVal_sameKeys {P : K} {psC : Int} {eP eD e' : Stats K} (h : depVal P psC eP eD = some e') : SameUsedKeys eD e' := by
  unfold depVal at h
  cases hc : dictGet eD.used_patterns P with
  | none => simp [hc] at h
  | some c =>
    simp only [hc, Option.bind_some] at h
    refine foldlM_inv (fun e => SameUsedKeys eD e) (childVal P eP)
      (fun s a s' hs hf k => by rw [childVal_sameKeys hf k, hs k]) _ _ _ ?_ h
    intro k; rfl

theorem NoSelfUse.depStep {P d : K} (hne : d ≠ P) {psC : Int} {U U' : UD K} (h : NoSelfUse U)
    (hu : depStepU P psC U d = some U') : NoSelfUse U' := by
  rw [depStepU_eq_updAt hne] at hu
  cases hP : dictGet U P with
  | none => simp [hP] at hu
  | some eP =>
    simp only [hP, Option.bind_some] at hu
    exact h.updAt (fun e e' he => depVal_sameKeys he) hu

theorem NoSelfUse.usedStep {P u : K} {psU : Int} {U U' : UD K} (h : NoSelfUse U)
    (hu : usedStepU P psU U u = some U') : NoSelfUse U' := by
  unfold usedStepU at hu
  cases h1 : dictGet U u with
  | none => simp [h1] at hu
  | some old =>
    cases h2 : dictGet U P with
    | none => simp [h1, h2] at hu
    | some eP =>
      cases h3 : dictGet eP.used_patterns u with
      | none => simp [h1, h2, h3] at hu
      | some a =>
        simp only [h1, h2, h3, Option.bind_some, Option.some.injEq] at hu
        subst hu
        exact h.set h1 (fun k => rfl)

theorem NoSelfUse.score {p : K} {U U' : UD K} (h : NoSelfUse U) (hu : scoreU U p = some U') : NoSelfUse U' := by
  rw [scoreU_eq_updAt] at hu
  exact h.updAt (fun e e' he => by simp at he; subst he; exact fun k => rfl) hu


/-! ## one round of the `while` loop of `finalize` -/
/-- `self._suggested_for_memoization.add(P)` -/
def addSug (self : Self K) (P : K) : Self K :=
  { self with _suggested_for_memoization := setAdd self._suggested_for_memoization P }

/-- the generated round, with its loops written on the usage dictionary: the oracle is consulted for `dependencies`
(choice `tick`) and for `requires_updating` (choice `tick + 1`) -/
theorem body_eq (o : Orders K) (mem : List K) (self : Self K) (counter : Int) (todo : List K) (tick : Nat) :
    finalize_while1_body o mem (self, counter, todo, tick) =
      (listPop0 todo).bind fun pt =>
      (dictGet self._pattern_usage pt.1).bind fun ps =>
      ((dictItems self._pattern_usage).foldlM (finalize_comp2 (addSug self pt.1) pt.1) setEmpty).bind fun deps =>
      ((o tick deps).foldlM (depStepU pt.1 ps.complexity) self._pattern_usage).bind fun U1 =>
      (dictGet U1 pt.1).bind fun eP =>
      ((dictKeys eP.used_patterns).foldlM (usedStepU pt.1 ps.uses) U1).bind fun U2 =>
      (dictGet U2 pt.1).bind fun eP2 =>
      ((o (tick + 1) ((dictKeys eP.used_patterns).foldl setAdd ((o tick deps).foldl setAdd setEmpty))).foldlM scoreU
          (dictSet U2 pt.1 { eP2 with complexity := 1 })).bind fun U4 =>
      (finalize_get_suitable mem (withU (addSug self pt.1) U4)).bind fun todo'' =>
      some (withU (addSug self pt.1) U4, counter - 1, todo'', tick + 1 + 1) := by
  simp only [finalize_while1_body, setIter]
  cases hpop : listPop0 todo with
  | none => simp
  | some pt =>
    obtain ⟨P, todo'⟩ := pt
    simp only [Option.bind_eq_bind, Option.bind_some]
    cases hps : dictGet self._pattern_usage P with
    | none => simp
    | some ps =>
      simp only [Option.bind_some]
      apply bind_congr'; intro deps _
      rw [for2_fold]
      simp only [Option.bind_map]
      apply bind_congr'; intro U1 _
      simp only [Function.comp, withU_usage]
      apply bind_congr'; intro eP _
      rw [for4_fold]
      simp only [Option.bind_map, withU_usage]
      apply bind_congr'; intro U2 _
      simp only [Function.comp, withU_usage]
      apply bind_congr'; intro eP2 _
      rw [foldlM_withU _ _ for5_eq]
      simp only [Option.bind_map]
      apply bind_congr'; intro U4 _
      rfl

/-- every element of `dependencies` has the memoised pattern among its `used_patterns` -/
theorem deps_spec (self : Self K) (P : K) {deps : PySet K}
    (h : (dictItems self._pattern_usage).foldlM (finalize_comp2 self P) setEmpty = some deps) :
    ∀ d, d ∈ deps → ∃ e, dictGet self._pattern_usage d = some e ∧ dictContains e.used_patterns P = true := by
  refine foldlM_inv (fun acc => ∀ d, d ∈ acc → ∃ e, dictGet self._pattern_usage d = some e ∧ dictContains e.used_patterns P = true)
    (finalize_comp2 self P) ?_ _ _ _ ?_ h
  · intro acc kv acc' hI hstep
    obtain ⟨p, st⟩ := kv
    simp only [finalize_comp2] at hstep
    cases hg : dictGet self._pattern_usage p with
    | none => simp [hg] at hstep
    | some e =>
      simp only [hg, Option.bind_eq_bind, Option.bind_some] at hstep
      by_cases hc : dictContains e.used_patterns P = true
      · simp only [hc, if_true, Option.pure_def, Option.some.injEq] at hstep
        subst hstep
        intro d hd
        rcases mem_setAdd.mp hd with hd | hd
        · exact hI d hd
        · subst hd; exact ⟨e, hg, hc⟩
      · have hc' : dictContains e.used_patterns P = false := by
          cases h' : dictContains e.used_patterns P with
          | false => rfl
          | true => exact absurd h' hc
        simp [hc'] at hstep
        subst hstep; exact hI
  · intro d hd; simp [setEmpty] at hd

theorem deps_ne {self : Self K} {P : K} {deps : PySet K} (hs : NoSelfUse self._pattern_usage) (sug : PySet K)
    (h : (dictItems self._pattern_usage).foldlM (finalize_comp2 { self with _suggested_for_memoization := sug } P) setEmpty = some deps) :
    ∀ d, d ∈ deps → d ≠ P := by
  intro d hd hdp
  obtain ⟨e, hg, hc⟩ := deps_spec { self with _suggested_for_memoization := sug } P h d hd
  subst hdp
  have := hs d e hg
  rw [this] at hc; cases hc

/-- ONE ROUND does not depend on the two iteration orders it asks the oracle for -/
theorem round_order_independent (o₁ o₂ : Orders K) (h₁ : o₁.Valid) (h₂ : o₂.Valid) (mem : List K) (self : Self K)
    (counter : Int) (todo : List K) (tick : Nat) (hs : NoSelfUse self._pattern_usage) :
    finalize_while1_body o₁ mem (self, counter, todo, tick) = finalize_while1_body o₂ mem (self, counter, todo, tick) := by
  rw [body_eq, body_eq]
  apply bind_congr'; intro pt _
  apply bind_congr'; intro ps _
  apply bind_congr'; intro deps hdeps
  have hne : ∀ d, d ∈ deps → d ≠ pt.1 := deps_ne hs _ hdeps
  have hp : (o₁ tick deps).Perm (o₂ tick deps) := (h₁ tick deps).trans (h₂ tick deps).symm
  have hU : (o₁ tick deps).foldlM (depStepU pt.1 ps.complexity) self._pattern_usage =
      (o₂ tick deps).foldlM (depStepU pt.1 ps.complexity) self._pattern_usage :=
    foldlM_perm _ hp (fun a ha b hb s =>
      depStepU_comm (hne a ((h₁ tick deps).mem_iff.mp ha)) (hne b ((h₁ tick deps).mem_iff.mp hb)) _ s) _
  rw [hU]
  apply bind_congr'; intro U1 _
  apply bind_congr'; intro eP _
  apply bind_congr'; intro U2 _
  apply bind_congr'; intro eP2 _
  have hr := foldl_setAdd_perm hp (dictKeys eP.used_patterns)
  have hr' := ((h₁ (tick + 1) _).trans hr).trans (h₂ (tick + 1) _).symm
  rw [foldlM_perm scoreU hr' (fun a _ b _ s => scoreU_comm s a b) _]

theorem bind_eq_some' {α β} {x : Option α} {f : α → Option β} {b : β} (h : x.bind f = some b) :
    ∃ a, x = some a ∧ f a = some b := by
  cases x with
  | none => simp at h
  | some a => exact ⟨a, rfl, h⟩

/-- ... and preserves the hypothesis -/
theorem round_noSelfUse (o : Orders K) (ho : o.Valid) (mem : List K) (self : Self K) (counter : Int) (todo : List K)
    (tick : Nat) (hs : NoSelfUse self._pattern_usage) {st' : Self K × Int × List K × Nat}
    (h : finalize_while1_body o mem (self, counter, todo, tick) = some st') : NoSelfUse st'.1._pattern_usage := by
  rw [body_eq] at h
  obtain ⟨pt, _, h⟩ := bind_eq_some' h
  obtain ⟨ps, _, h⟩ := bind_eq_some' h
  obtain ⟨deps, hdeps, h⟩ := bind_eq_some' h
  obtain ⟨U1, hU1, h⟩ := bind_eq_some' h
  obtain ⟨eP, _, h⟩ := bind_eq_some' h
  obtain ⟨U2, hU2, h⟩ := bind_eq_some' h
  obtain ⟨eP2, heP2, h⟩ := bind_eq_some' h
  obtain ⟨U4, hU4, h⟩ := bind_eq_some' h
  obtain ⟨todo'', _, h⟩ := bind_eq_some' h
  have hne : ∀ d, d ∈ deps → d ≠ pt.1 := deps_ne hs _ hdeps
  have n1 : NoSelfUse U1 := foldlM_inv_mem NoSelfUse _ _
    (fun s a s' ha hI hst => NoSelfUse.depStep (hne a ((ho tick deps).mem_iff.mp ha)) hI hst) _ _ hs hU1
  have n2 : NoSelfUse U2 := foldlM_inv NoSelfUse _ (fun s a s' hI hst => NoSelfUse.usedStep hI hst) _ _ _ n1 hU2
  have n3 : NoSelfUse (dictSet U2 pt.1 { eP2 with complexity := 1 }) := n2.set heP2 (fun k => rfl)
  have n4 : NoSelfUse U4 := foldlM_inv NoSelfUse _ (fun s a s' hI hst => NoSelfUse.score hI hst) _ _ _ n3 hU4
  simp only [Option.some.injEq] at h
  subst h
  exact n4

/-! ## the loop and `finalize` -/
theorem while_order_independent (o₁ o₂ : Orders K) (h₁ : o₁.Valid) (h₂ : o₂.Valid) (mem : List K) (fuel : Nat) :
    ∀ (st : Self K × Int × List K × Nat), NoSelfUse st.1._pattern_usage →
      finalize_while1 o₁ mem fuel st = finalize_while1 o₂ mem fuel st := by
  induction fuel with
  | zero => intro st _; obtain ⟨self, counter, todo, tick⟩ := st; simp only [finalize_while1]
  | succ n ih =>
      intro st hs
      obtain ⟨self, counter, todo, tick⟩ := st
      simp only [finalize_while1]
      split
      · rw [round_order_independent o₁ o₂ h₁ h₂ mem self counter todo tick hs]
        simp only [Option.bind_eq_bind]
        apply bind_congr'; intro st' hst'
        exact ih st' (round_noSelfUse o₂ h₂ mem self counter todo tick hs hst')
      · rfl

/-- **`finalize` does not depend on any set iteration order**: for every counting state in which no pattern uses itself
(every reachable state: `reachable_noSelfUse`) and ANY two valid oracles, `finalize` raises for both or returns the same
suggestion set — even the same listing —, the same final state (all statistics, in the same dictionary order) and has
consulted the oracle equally often. -/
theorem finalize_order_independent (σ : Self K) (hσ : NoSelfUse σ._pattern_usage) (o₁ o₂ : Orders K)
    (h₁ : o₁.Valid) (h₂ : o₂.Valid) (t : Nat) : finalize o₁ t σ = finalize o₂ t σ := by
  simp only [finalize]
  apply bind_congr'; intro _ _
  simp only [Option.bind_eq_bind]
  apply bind_congr'; intro memoized _
  rw [foldlM_withU _ _ for1_eq]
  cases hU : List.foldlM (scoreU (K := K)) _ (dictKeys _) with
  | none => simp
  | some U =>
    simp only [Option.map_some, Option.bind_some]
    apply bind_congr'; intro todo _
    have hn : NoSelfUse U := foldlM_inv NoSelfUse _ (fun s a s' hI hst => NoSelfUse.score hI hst) _ _ _ hσ hU
    rw [while_order_independent o₁ o₂ h₁ h₂ memoized _ _ (by simpa using hn)]


/-! ## the recording phase

No method of the recording phase iterates a set (`Gen.PyCount.setIterationSites` lists the two loops of `finalize` only; the
generated `_collect_patterns` and the sixteen recording methods take no `orders` argument), so they are functions of their
arguments as they stand.  What remains to be shown about them is the hypothesis of `finalize_order_independent`:
`used_patterns` of a pattern only ever contains PROPER sub-patterns of it. -/
section recording
variable [PyPattern K]

theorem recording_has_no_set_iteration :
    Gen.PyCount.setIterationSites = ["finalize: `for dependency in dependencies:`",
      "finalize: `for pattern in requires_updating:`"] := by decide

/-- every key of `used_patterns` of an entry is smaller than the key of the entry -/
def SizeInv (U : UD K) : Prop :=
  ∀ k e, dictGet U k = some e → ∀ c, dictContains e.used_patterns c = true → PyPattern.size c < PyPattern.size k

theorem SizeInv.noSelfUse {U : UD K} (h : SizeInv U) : NoSelfUse U := by
  intro k e hg
  cases hc : dictContains e.used_patterns k with
  | false => rfl
  | true => exact absurd (h k e hg k hc) (Nat.lt_irrefl _)

theorem SizeInv.write {U : UD K} (h : SizeInv U) {k : K} {e e' : Stats K} (hg : dictGet U k = some e)
    (hs : ∀ c, dictContains e'.used_patterns c = true → dictContains e.used_patterns c = true ∨ PyPattern.size c < PyPattern.size k) :
    SizeInv (dictSet U k e') := by
  intro k' e'' hg' c hc
  rw [dictGet_set] at hg'
  by_cases hk : k' = k
  · simp only [hk, if_true, Option.some.injEq] at hg'
    subst hg'; subst hk
    rcases hs c hc with h1 | h1
    · exact h _ _ hg c h1
    · exact h1
  · simp only [hk, if_false] at hg'
    exact h _ _ hg' c hc

theorem SizeInv.fresh {U : UD K} (h : SizeInv U) (k : K) (e' : Stats K) (he : e'.used_patterns = [])
    (hn : dictContains U k = false) : SizeInv (dictSet U k e') := by
  intro k' e'' hg' c hc
  rw [dictGet_set] at hg'
  by_cases hk : k' = k
  · simp only [hk, if_true, Option.some.injEq] at hg'
    subst hg'
    rw [he] at hc; simp [dictContains] at hc
  · simp only [hk, if_false] at hg'
    exact h _ _ hg' c hc

theorem dictContains_setDefault {V} (d : PyDict K V) (k k' : K) (v : V) :
    dictContains (dictSetDefault d k v) k' = (dictContains d k' || decide (k' = k)) := by
  unfold dictSetDefault
  by_cases hc : dictContains d k = true
  · simp only [hc, if_true]
    by_cases hk : k' = k
    · subst hk; simp [hc]
    · simp [hk]
  · simp only [hc]
    simp [dictContains, List.any_append, eq_comm]

theorem dictContains_of_mem {V} {d : PyDict K V} {k : K} {v : V} (h : (k, v) ∈ d) : dictContains d k = true := by
  simp only [dictContains, List.any_eq_true]
  exact ⟨(k, v), h, by simp⟩

/-- the two statements `stats.used_patterns.setdefault(c, 0)` / `stats.used_patterns[c] += n` -/
theorem SizeInv.addUsed {U : UD K} (h : SizeInv U) {key c : K} (hlt : PyPattern.size c < PyPattern.size key) {e : Stats K}
    (hg : dictGet U key = some e) (up : PyDict K Int) (hup : ∀ x, dictContains up x = true → dictContains e.used_patterns x = true ∨ x = c) :
    SizeInv (dictSet U key { e with used_patterns := up }) := by
  apply h.write hg
  intro x hx
  rcases hup x hx with h1 | h1
  · exact Or.inl h1
  · subst h1; exact Or.inr hlt

theorem for3_sizeInv {stats : Stats K} {key : K} {self self' : Self K} {cu : K} {n : Int}
    (hs : SizeInv self._pattern_usage) (hlt : PyPattern.size cu < PyPattern.size key)
    (h : _collect_patterns_for3 stats key self (cu, n) = some self') : SizeInv self'._pattern_usage := by
  simp only [_collect_patterns_for3] at h
  cases h1 : dictGet self._pattern_usage key with
  | none => simp [h1] at h
  | some e =>
    simp only [h1, Option.bind_eq_bind, Option.bind_some, dictGet_set_eq] at h
    have s1 : SizeInv (dictSet self._pattern_usage key { e with used_patterns := dictSetDefault e.used_patterns cu 0 }) :=
      hs.addUsed hlt h1 _ (fun x hx => by
        rw [dictContains_setDefault] at hx
        simp only [Bool.or_eq_true, decide_eq_true_eq] at hx
        exact hx)
    cases h2 : dictGet (dictSetDefault e.used_patterns cu 0) cu with
    | none => simp [h2] at h
    | some v =>
      simp only [h2, Option.bind_some, Option.pure_def, Option.some.injEq] at h
      subst h
      refine s1.addUsed hlt (dictGet_set_eq _ _ _) _ (fun x hx => ?_)
      rw [dictContains_set] at hx
      simp only [Bool.or_eq_true, decide_eq_true_eq] at hx
      exact hx

theorem for2_sizeInv {stats : Stats K} {key : K} {self self' : Self K} {child : K}
    (hs : SizeInv self._pattern_usage) (hlt : PyPattern.size child < PyPattern.size key)
    (h : _collect_patterns_for2 stats key self child = some self') : SizeInv self'._pattern_usage := by
  simp only [_collect_patterns_for2] at h
  cases h0 : dictGet self._pattern_usage child with
  | none => simp [h0] at h
  | some cst =>
    cases h1 : dictGet self._pattern_usage key with
    | none => simp [h0, h1] at h
    | some e =>
      simp only [h0, h1, Option.bind_eq_bind, Option.bind_some, dictGet_set_eq] at h
      have s1 : SizeInv (dictSet self._pattern_usage key { e with used_patterns := dictSetDefault e.used_patterns child 0 }) :=
        hs.addUsed hlt h1 _ (fun x hx => by
          rw [dictContains_setDefault] at hx
          simp only [Bool.or_eq_true, decide_eq_true_eq] at hx
          exact hx)
      cases h2 : dictGet (dictSetDefault e.used_patterns child 0) child with
      | none => simp [h2] at h
      | some v =>
        simp only [h2, Option.bind_some] at h
        have s2 := s1.addUsed hlt (dictGet_set_eq _ _ _) (dictSet (dictSetDefault e.used_patterns child 0) child (v + 1)) (fun x hx => by
          rw [dictContains_set] at hx
          simp only [Bool.or_eq_true, decide_eq_true_eq] at hx
          exact hx)
        obtain ⟨cst', hc', hf⟩ := bind_eq_some' h
        refine foldlM_inv_mem (fun (s : Self K) => SizeInv s._pattern_usage) _ _ ?_ _ _ s2 hf
        intro s a s' ha hI hst
        obtain ⟨cu, n⟩ := a
        have hcu : PyPattern.size cu < PyPattern.size child := s2 _ _ hc' cu (dictContains_of_mem ha)
        exact for3_sizeInv hI (Nat.lt_trans hcu hlt) hst


/-- `_collect_patterns` keeps `used_patterns` below the key (whatever the fuel) -/
theorem collect_sizeInv : ∀ (fuel : Nat) (self self' : Self K) (p : K), SizeInv self._pattern_usage →
    _collect_patterns fuel self p = some self' → SizeInv self'._pattern_usage := by
  intro fuel
  induction fuel with
  | zero => intro self self' p _ h; simp [_collect_patterns] at h
  | succ n ih =>
    intro self self' p hs h
    simp only [_collect_patterns, Option.bind_eq_bind, Option.pure_def] at h
    obtain ⟨children, hch, h⟩ := bind_eq_some' h
    have hlt : ∀ c, c ∈ children → PyPattern.size c < PyPattern.size p := by
      by_cases h1 : PyPattern.isImplies p = true
      · simp [h1] at hch; subst hch
        intro c hc; simp at hc
        rcases hc with hc | hc <;> subst hc
        · exact PyPattern.left_lt p (by simp [h1])
        · exact PyPattern.right_lt p (by simp [h1])
      · by_cases h2 : PyPattern.isApp p = true
        · simp [h1, h2] at hch; subst hch
          intro c hc; simp at hc
          rcases hc with hc | hc <;> subst hc
          · exact PyPattern.left_lt p (by simp [h2])
          · exact PyPattern.right_lt p (by simp [h2])
        · by_cases h3 : PyPattern.isExists p = true
          · simp [h1, h2, h3] at hch; subst hch
            intro c hc; simp at hc; subst hc
            exact PyPattern.subpattern_lt p (by simp [h3])
          · by_cases h4 : PyPattern.isMu p = true
            · simp [h1, h2, h3, h4] at hch; subst hch
              intro c hc; simp at hc; subst hc
              exact PyPattern.subpattern_lt p (by simp [h4])
            · simp [h1, h2, h3, h4] at hch; subst hch
              intro c hc; simp at hc
    by_cases hin : dictContains self._pattern_usage p = true
    · -- known pattern: `uses + 1`
      simp only [hin, Bool.not_true] at h
      cases hg : dictGet self._pattern_usage p with
      | none => simp [hg] at h
      | some e =>
        simp [hg] at h
        subst h
        exact hs.write hg (fun c hc => Or.inl hc)
    · have hin' : dictContains self._pattern_usage p = false := by
        cases h' : dictContains self._pattern_usage p with
        | false => rfl
        | true => exact absurd h' hin
      simp only [hin', Bool.not_false, if_true] at h
      obtain ⟨selfA, hA, h⟩ := bind_eq_some' h
      have sA : SizeInv selfA._pattern_usage := by
        refine foldlM_inv (fun (s : Self K) => SizeInv s._pattern_usage) _ ?_ _ _ _ ?_ hA
        · intro s a s' hI hst
          exact ih _ _ _ hI hst
        · exact hs.fresh p _ rfl hin'
      obtain ⟨eA, hgA, h⟩ := bind_eq_some' h
      obtain ⟨eA', hgA', h⟩ := bind_eq_some' h
      obtain ⟨comp, _, h⟩ := bind_eq_some' h
      simp only [dictGet_set_eq, Option.bind_some] at h
      refine foldlM_inv_mem (fun (s : Self K) => SizeInv s._pattern_usage) _ _ ?_ _ _ ?_ h
      · intro s a s' ha hI hst
        exact for2_sizeInv hI (hlt a ha) hst
      · exact sA.write hgA (fun c hc => Or.inl hc)

/-- the counting states the recording phase can produce: `__init__`, then any sequence of recorded patterns (every recording
method is `_collect_patterns` of the value the `StatefulInterpreter` method returns), with any `memory` -/
inductive Reachable : Self K → Prop
  | init : Reachable (init : Self K)
  | collect {σ σ' : Self K} (fuel : Nat) (p : K) : Reachable σ → _collect_patterns fuel σ p = some σ' → Reachable σ'
  | memory {σ : Self K} (mem : List (MemItem K)) : Reachable σ → Reachable { σ with memory := mem }

theorem reachable_sizeInv {σ : Self K} (h : Reachable σ) : SizeInv σ._pattern_usage := by
  induction h with
  | init => intro k e hg; simp [init, dictGet] at hg
  | collect fuel p _ hc ih => exact collect_sizeInv fuel _ _ p ih hc
  | memory mem _ ih => exact ih

/-- in every reachable state no pattern uses itself -/
theorem reachable_noSelfUse {σ : Self K} (h : Reachable σ) : NoSelfUse σ._pattern_usage :=
  (reachable_sizeInv h).noSelfUse

/-- the sixteen recording methods are `_collect_patterns` of the value they return -/
theorem recording_methods_collect (fuel : Nat) (σ : Self K) (r : K) (q : Proved K) :
    evar fuel σ r = (_collect_patterns fuel σ r).map (fun s => (r, s)) ∧
    svar fuel σ r = (_collect_patterns fuel σ r).map (fun s => (r, s)) ∧
    symbol fuel σ r = (_collect_patterns fuel σ r).map (fun s => (r, s)) ∧
    metavar fuel σ r = (_collect_patterns fuel σ r).map (fun s => (r, s)) ∧
    implies fuel σ r = (_collect_patterns fuel σ r).map (fun s => (r, s)) ∧
    app fuel σ r = (_collect_patterns fuel σ r).map (fun s => (r, s)) ∧
    «exists» fuel σ r = (_collect_patterns fuel σ r).map (fun s => (r, s)) ∧
    mu fuel σ r = (_collect_patterns fuel σ r).map (fun s => (r, s)) ∧
    esubst fuel σ r = (_collect_patterns fuel σ r).map (fun s => (r, s)) ∧
    ssubst fuel σ r = (_collect_patterns fuel σ r).map (fun s => (r, s)) ∧
    instantiate_pattern fuel σ r = (_collect_patterns fuel σ r).map (fun s => (r, s)) ∧
    prop1 fuel σ q = (_collect_patterns fuel σ q.conclusion).map (fun s => (q, s)) ∧
    prop2 fuel σ q = (_collect_patterns fuel σ q.conclusion).map (fun s => (q, s)) ∧
    prop3 fuel σ q = (_collect_patterns fuel σ q.conclusion).map (fun s => (q, s)) ∧
    modus_ponens fuel σ q = (_collect_patterns fuel σ q.conclusion).map (fun s => (q, s)) ∧
    «instantiate» fuel σ q = (_collect_patterns fuel σ q.conclusion).map (fun s => (q, s)) := by
  refine ⟨?_, ?_, ?_, ?_, ?_, ?_, ?_, ?_, ?_, ?_, ?_, ?_, ?_, ?_, ?_, ?_⟩ <;>
    simp only [evar, svar, symbol, metavar, implies, app, «exists», mu, esubst, ssubst, instantiate_pattern, prop1, prop2, prop3,
      modus_ponens, «instantiate»] <;>
    first
      | (cases _collect_patterns fuel σ r <;> rfl)
      | (cases _collect_patterns fuel σ q.conclusion <;> rfl)

/-- **C18 for the counting pre-pass**: in every state the recording phase can reach, `finalize` is a function of the state —
whatever orders the sets `dependencies` and `requires_updating` are iterated in -/
theorem finalize_order_independent_reachable {σ : Self K} (hσ : Reachable σ) (o₁ o₂ : Orders K)
    (h₁ : o₁.Valid) (h₂ : o₂.Valid) (t : Nat) : finalize o₁ t σ = finalize o₂ t σ :=
  finalize_order_independent σ (reachable_noSelfUse hσ) o₁ o₂ h₁ h₂ t

/-- ASSUMPTION A1 of the translator (the loop over `child_stats.used_patterns.items()` is translated as a loop over a snapshot
while `stats.used_patterns` is written): exact because the two dictionaries are different objects — `child` is a proper
sub-pattern of `p` (`hlt` in `collect_sizeInv`), hence a different key -/
theorem A1_child_ne (p c : K) (h : PyPattern.size c < PyPattern.size p) : c ≠ p := by
  intro he; subst he; exact Nat.lt_irrefl _ h

end recording

/-! ## the fuel of the `while` loop -/
theorem body_counter (o : Orders K) (mem : List K) (self : Self K) (counter : Int) (todo : List K) (tick : Nat)
    {st' : Self K × Int × List K × Nat} (h : finalize_while1_body o mem (self, counter, todo, tick) = some st') :
    st'.2.1 = counter - 1 := by
  rw [body_eq] at h
  obtain ⟨_, _, h⟩ := bind_eq_some' h
  obtain ⟨_, _, h⟩ := bind_eq_some' h
  obtain ⟨_, _, h⟩ := bind_eq_some' h
  obtain ⟨_, _, h⟩ := bind_eq_some' h
  obtain ⟨_, _, h⟩ := bind_eq_some' h
  obtain ⟨_, _, h⟩ := bind_eq_some' h
  obtain ⟨_, _, h⟩ := bind_eq_some' h
  obtain ⟨_, _, h⟩ := bind_eq_some' h
  obtain ⟨_, _, h⟩ := bind_eq_some' h
  simp only [Option.some.injEq] at h
  subst h; rfl

/-- `counter.toNat` rounds of fuel are enough: more fuel never changes the result (so the `none` of the exhausted loop
function is never the answer of `finalize`, which starts the loop with `counter.toNat`) -/
theorem while_fuel_enough (o : Orders K) (mem : List K) (fuel : Nat) :
    ∀ (st : Self K × Int × List K × Nat), st.2.1.toNat ≤ fuel →
      finalize_while1 o mem fuel st = finalize_while1 o mem (fuel + 1) st := by
  induction fuel with
  | zero =>
    intro st hle
    obtain ⟨self, counter, todo, tick⟩ := st
    have hc : ¬ counter > 0 := by simp at hle; omega
    simp [finalize_while1, hc]
  | succ n ih =>
    intro st hle
    obtain ⟨self, counter, todo, tick⟩ := st
    rw [finalize_while1]
    conv => rhs; rw [finalize_while1]
    split
    · rename_i hcond
      simp only [Option.bind_eq_bind]
      apply bind_congr'; intro st' hst'
      apply ih
      rw [body_counter o mem self counter todo tick hst']
      simp at hle hcond ⊢
      omega
    · rfl

/-! ## the hypothesis is needed (in a state the recording phase cannot produce)

If a pattern lists ITSELF in `used_patterns`, it is one of its own `dependencies`, and updating it changes the
`used_patterns` the updates of the other dependencies read.  Keys `0` and `1`; `0` uses itself.  (Reproduced on the real
class with a hand-made `_pattern_usage` under `PYTHONHASHSEED` 0 / 1.) -/
def selfUsingState : Self Nat :=
  { memory := [], _max_allowed_slots := 1, _finalized := false,
    _pattern_usage := [(0, { uses := 2, complexity_score := 0, complexity := 2, used_patterns := [(0, 1)] }),
                       (1, { uses := 1, complexity_score := 0, complexity := 3, used_patterns := [(0, 1)] })],
    _saved_by_implementation := [], _suggested_for_memoization := [] }

/-- what is left of `used_patterns` of key `1` -/
def probe (r : Option (PySet Nat × Self Nat × Nat)) : Option (Option (PyDict Nat Int)) :=
  r.map fun x => (dictGet x.2.1._pattern_usage 1).map (·.used_patterns)

theorem order_reaches_result_without_noSelfUse :
    ∃ (o₁ o₂ : Orders Nat), o₁.Valid ∧ o₂.Valid ∧
      probe (finalize o₁ 0 selfUsingState) ≠ probe (finalize o₂ 0 selfUsingState) :=
  ⟨fun _ l => l, fun _ l => l.reverse, fun _ _ => List.Perm.refl _, fun _ l => List.reverse_perm l, by decide⟩

end CountDet
