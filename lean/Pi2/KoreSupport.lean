import Pi2.Kore
import Pi2.Gen.PyMatch
/-!
# Support for the translated Kore conversion and execution-proof generator (`Pi2/Gen/PyKore.lean`)

The target language of `vlib/transkore.py`: the Python statements of `ConvertionScope`,
`LanguageSemantics._convert_sort / _convert_pattern / convert_pattern / convert_substitutions`, the
properties `KSort.aml_symbol`, `KSymbol.aml_symbol`, `KSymbol.app` (`k/kore_convertion/language_semantics.py`)
and of `ExecutionProofExp` (`k/execution_proof_generation.py`) are translated one by one into the
continuation-passing combinators of `Pi2/InterpSupport.lean` / `Pi2/MatchSupport.lean`
(`Py α = Option (Option α)`: outer `none` = out of fuel, inner `none` = an exception) and the words below.

Hand-written and deliberately small: the *objects* the translated text talks about and the *primitives*
it calls but which are not themselves translated.

Objects (a Python object that is mutated in place is a value that the translated method returns again;
the translator threads it and writes an alias of a dictionary entry back after every change):
* `PyScope` — a `ConvertionScope`: its four dictionaries, keyed by name, in insertion order;
* `PySem` — a `LanguageSemantics`: the declarations (`Kore.Sig`) and `_cached_axiom_scopes`;
* `PyExec` — an `ExecutionProofExp`: `_init_config`, `_curr_config`, `language_semantics` and the lists
  `_axioms`, `_claims`, `_proof_expressions` of the base class `ProofExp`;
* `PyRule` (`KRewritingRule` / `KEquationalRule`), `PyAxiom` (which of the two), `PyHint`
  (`RewriteStepExpression`), `ConvertedAxiom`, `PyKSort` (the dataclass `KSort` of language_semantics.py).
Names (`str`) are numbers as everywhere in the model; the ML symbols `ksort_<n>`, `ksym_<n>`, a domain value
`<v>` are the numbers `Kore.sortSym / symSym / dvSym` use (`symbolName`, `valueName`).

Primitives (NOT translated; their definitions are the hand-written model's):
* `get_sort`, `get_symbol`, `resolve_to_ksymbol` of `LanguageSemantics` (module search);
* `kl` (a notation object of `proofs/kore.py`, by its label, from the regenerated notation table),
  `nary_app`, `notationCall` (`Notation.__call__`), `deconstruct_nary_application` (`Kore.spineF`),
  `functional` (`Kore.functionalOf`);
* the methods of the base class `ProofExp` (`proof.py`): `add_axiom`, `add_assumptions`, `add_claim`,
  `add_proof_expression`, `load_axiom`, `dynamic_inst`.  `load_axiom` asserts `axiom_term in self._axioms`;
  the primitive does not (the caller has just added it: `KoreTie.load_axiom_guard`).
-/
open Pat
namespace PyK
open PyI PyM Kore

/-! ## dictionaries keyed by a name (`dict[str, _]`, `dict[int, _]` of objects), insertion-ordered -/
abbrev KDict (α : Type) := List (Nat × α)
/-- `k in d` -/
def kHas {α} (d : KDict α) (k : Nat) : Bool := (d.lookup k).isSome
/-- `len(d)` -/
def kLen {α} (d : KDict α) : Nat := d.length
/-- `d[k]` (`KeyError`) -/
def kGet {α β} (d : KDict α) (k : Nat) (cont : α → Py β) : Py β :=
  match d.lookup k with
  | some v => cont v
  | none => raise
/-- `d[k] = v`: an existing key keeps its position, a new one goes to the end -/
def kSet {α} : KDict α → Nat → α → KDict α
  | [], k, v => [(k, v)]
  | (k', v') :: r, k, v => if k' == k then (k', v) :: r else (k', v') :: kSet r k v
/-- `d.items()` -/
def kItems {α} (d : KDict α) : List (Nat × α) := d
/-- `d.values()` -/
def kValues {α} (d : KDict α) : List α := d.map (·.2)

/-! ## the objects -/

/-- `ConvertionScope`: the values are the `EVar` / `SVar` / `MetaVar` objects themselves -/
structure PyScope where
  _evars : KDict NPat
  _svars : KDict NPat
  _metavars : KDict NPat
  _sort_param_metavars : KDict NPat
deriving Repr, Inhabited

/-- the dataclass `KSort` of language_semantics.py (`hooked` is not read by the translated text) -/
structure PyKSort where
  name : Nat
deriving Repr, Inhabited

/-- `LanguageSemantics`: declarations and the scope cached per axiom ordinal -/
structure PySem where
  sg : Sig
  _cached_axiom_scopes : KDict PyScope
deriving Repr, Inhabited

/-- `KRewritingRule` / `KEquationalRule` -/
structure PyRule where
  ordinal : Nat
  pattern : NPat
deriving Repr, Inhabited

inductive PyAxiom where
  | rewriting (r : PyRule)
  | equational (r : PyRule)
deriving Repr, Inhabited

/-- `RewriteStepExpression` (what its four properties return) -/
structure PyHint where
  configuration_before : NPat
  configuration_after : NPat
  «axiom» : PyAxiom
  substitutions : Dict
deriving Repr, Inhabited

inductive AxiomType where
  | Unclassified | RewriteRule | FunctionalSymbol | FunctionEvent | HookEvent
deriving Repr, Inhabited, DecidableEq

/-- the named tuple `ConvertedAxiom` -/
structure ConvertedAxiom where
  kind : AxiomType
  pattern : NPat
deriving Repr, Inhabited

/-- `ExecutionProofExp` -/
structure PyExec where
  _init_config : NPat
  _curr_config : NPat
  language_semantics : PySem
  _axioms : List NPat
  _claims : List NPat
  _proof_expressions : List Pf
deriving Repr, Inhabited

/-! ## names and symbols -/
/-- `kore.SortVar.name` / `kore.SortApp.name` -/
def sortName : KSort → Nat
  | .var n => n
  | .app n => n
/-- the ML symbol name `prefix + name` as its number: `ksort_<n> ↦ 2000+2n`, `ksym_<n> ↦ 2001+2n` -/
def symbolName (pre : String) (n : Nat) : Nat :=
  if pre == "ksort_" then 2000 + 2 * n else if pre == "ksym_" then 2001 + 2 * n else 0
/-- the ML symbol name `str(v)` of a domain value as its number -/
def valueName (v : Nat) : Nat := 100000 + v
/-- `self.name == '<literal>'` for a `KSymbol`: the model records the one name that is compared (`kseq`) as a flag -/
def nameIs (d : SymDecl) (lit : String) : Bool := lit == "kseq" && d.isKseq

/-! ## primitives of `LanguageSemantics` -/
/-- `self.get_sort(name)` (`ValueError` if no module declares it) -/
def get_sort (self : PySem) (name : Nat) : Py PyKSort :=
  if self.sg.sorts.contains name then ret ⟨name⟩ else raise
/-- `self.get_symbol(name)` (`ValueError` if no module declares it) -/
def get_symbol (self : PySem) (name : Nat) : Py SymDecl :=
  match self.sg.symbols.find? (·.name == name) with
  | some d => ret d
  | none => raise
/-- `self.resolve_to_ksymbol(Symbol(s))`: `s` must be `ksym_<name>` of a declared symbol, else `None` -/
def resolve_to_ksymbol (self : PySem) (s : Nat) : Option SymDecl :=
  if s ≥ 2001 ∧ s < 100000 ∧ (s - 2001) % 2 = 0 then self.sg.symbols.find? (·.name == (s - 2001) / 2) else none

/-! ## primitives of `proofs/kore.py`, `proofs/definedness.py`, `pattern.py` -/
/-- the module-level notation object of `proofs/kore.py` with this label -/
def kl (label : String) : Py PyNotation :=
  match koreNotation label with
  | some (d, a) => ret ⟨d, a⟩
  | none => raise
/-- `kl.nary_app(symbol, n, cell)` (the flag only changes the format string) -/
def nary_app (symbol : NPat) (n : Nat) (_cell : Bool) : PyNotation := ⟨naryDef symbol n, n⟩
/-- `Notation.__call__(*args)`: asserts the arity -/
def notationCall (nt : PyNotation) (args : List NPat) : Py NPat :=
  match applyDef nt.definition nt.arity args with
  | some p => ret p
  | none => raise
/-- `kl.deconstruct_nary_application(p)` -/
def deconstruct_nary_application {β} (n : Nat) (p : NPat) (cont : NPat → List NPat → Py β) : Py β :=
  fuel (spineF n p) fun (h, args) => cont h args
/-- `functional(p)` -/
def functional (p : NPat) : Py NPat :=
  match functionalOf p with
  | some f => ret f
  | none => raise

/-! ## primitives of the base class `ProofExp` (`proof.py`) -/
/-- `self.add_axiom(p)` -/
def add_axiom (n : Nat) (self : PyExec) (p : NPat) : Py PyExec :=
  fuel (addAxiomF n self._axioms p) fun axs => ret { self with _axioms := axs }
/-- `self.add_assumptions(ps)` (`add_axioms`: `add_axiom` one by one) -/
def add_assumptions (n : Nat) (self : PyExec) : List NPat → Py PyExec
  | [] => ret self
  | p :: ps => call (add_axiom n self p) fun self => add_assumptions n self ps
/-- `self.add_claim(p)` -/
def add_claim (self : PyExec) (p : NPat) : PyExec := { self with _claims := self._claims ++ [p] }
/-- `self.load_axiom(p)` (a thunk; see the header for the assertion) -/
def load_axiom (_self : PyExec) (p : NPat) : Pf := .loadAxiom p
/-- `self.dynamic_inst(pf, delta)`: `pf` itself if `delta` is empty -/
def dynamic_inst (_self : PyExec) (pf : Pf) (delta : Dict) : Pf := if delta.isEmpty then pf else .dynInst pf delta
/-- `self.add_proof_expression(pf)` (thunks are compared by identity: a new one is never in the list) -/
def add_proof_expression (self : PyExec) (pf : Pf) : PyExec :=
  { self with _proof_expressions := self._proof_expressions ++ [pf] }

/-! ## control -/
/-- `[f(x) for x in xs]` where `f` changes an object `s` (threaded left to right) -/
def mapS {α β σ γ} : List α → σ → (σ → α → Py (σ × β)) → (σ → List β → Py γ) → Py γ
  | [], s, _, k => k s []
  | x :: xs, s, f, k => call (f s x) fun (s', y) => mapS xs s' f fun s'' ys => k s'' (y :: ys)
/-- `x.name` of a value annotated `MetaVar` (`AttributeError` otherwise) -/
def mvName {β} (p : NPat) (cont : Nat → Py β) : Py β :=
  match p with
  | .mv i _ _ _ _ _ => cont i
  | _ => raise
/-- `t[i]` on a tuple of patterns (`IndexError`) -/
def tupleIndex {β} (t : List NPat) (i : Nat) (cont : NPat → Py β) : Py β :=
  match t[i]? with
  | some v => cont v
  | none => raise

end PyK
