import Pi2.EndToEnd
import Pi2.DeserializeThm
import Pi2.DeserTie
import Pi2.InterpTie
/-!
# Helper lemmas for the end-to-end round trip of C14 (`Pi2/Props/C14b.lean`)

history of calls → instructions (`trackAll` / `emitAll`) → bytes of the translated serializer methods (`EndToEnd.writeAll`) →
the translated deserialiser (`Gen.Deser.step`, the branches of `deserialize_instructions` as written) → the interpreter calls it
makes, on the tracker `track1` (`PyDeser.exec`, `Gen.Deser.run`) or on the translated `StatefulInterpreter` methods
(`execI`, `InterpTie.pyCall`) → the final state, equal to the history's up to notation.

* `runWith`: the loop of `Gen.Deser.run` with the executor of one iteration as a parameter; `run_eq_runWith`;
  `execI` / `deserializeI`: the iteration that calls the translated `StatefulInterpreter` method (`InterpTie.pyCall`) instead
  of `track1`; `execI_sound`: whatever it answers, `PyDeser.exec` answers.
* `runWith_replay`: a run of the loop that returns is the model's `replay` — without the hypothesis `PrecheckAlong` of
  `DeserTie.run_eq_replay`: that the deserialiser's own claim test agrees with the tracker's follows, at every `Publish` the run
  gets past, from the run having returned (`precheck_of_exec`), when the proof on the stack proves the claim (`PubOKAlong`).
* `pubOKAlong_emit`, `emitAll_instrs`: the instructions a history emitted satisfy `PubOKAlong`, `NodupKeys`, `mvClean`.
* `roundtrip_phaseG`: the round trip for one phase, with the strong final equality `StEqG true` (needed to chain phases).
-/
set_option linter.unusedVariables false
set_option linter.unusedSimpArgs false
open PySt PyDeser

namespace EndToEnd

/-! ## the loop with the executor of one iteration as a parameter -/

/-- `Gen.Deser.run` with the executor `E` of one iteration (`PyDeser.exec n` in the generated file) as a parameter -/
def runWith (n : Nat) (E : PySt → Res → Option (Option (PySt × List Nat))) : Nat → PySt → List Nat → Option (Option PySt)
  | _, s, [] => some (some s)
  | 0, _, _ :: _ => none
  | fuel + 1, s, byte :: bs =>
      match E s (Gen.Deser.step n s byte bs) with
      | none => none
      | some none => some none
      | some (some (s', rest)) => runWith n E fuel s' rest

theorem run_eq_runWith (n : Nat) : ∀ (f : Nat) (s : PySt) (bs : List Nat),
    Gen.Deser.run n f s bs = runWith n (exec n) f s bs := by
  intro f
  induction f with
  | zero => intro s bs; cases bs <;> rfl
  | succ f ih =>
    intro s bs
    cases bs with
    | nil => rfl
    | cons b r =>
      simp only [Gen.Deser.run, runWith]
      cases exec n s (Gen.Deser.step n s b r) with
      | none => rfl
      | some o =>
        cases o with
        | none => rfl
        | some p => exact ih p.1 p.2

/-- one loop iteration on the translated `StatefulInterpreter`: as `PyDeser.exec`, but the call is made on the translated
method with the stack's own terms (`InterpTie.pyCall`) instead of `track1`.  Outer `none` = out of fuel, or a call outside the
modelled interface (`toCall` / `pyCall` answer `none`: the stack does not hold terms of the types the method's signature
demands). -/
def execI (n : Nat) (s : PySt) : Res → Option (Option (PySt × List Nat))
  | .raise => some none
  | .fuel => none
  | .noop rest => some (some (s, rest))
  | .call dc rest =>
      if dc.args.all (Arg.defined s) then
        match toCall s dc with
        | some c =>
            match InterpTie.pyCall n s c with
            | some g => g.map (Option.map (·, rest))
            | none => none
        | none => none
      else some none

/-- `deserialize_instructions(data, interpreter)` as written, `interpreter` a `StatefulInterpreter` as written -/
def deserializeI (n : Nat) (s : PySt) (data : List Nat) : Option (Option PySt) := runWith n (execI n) data.length s data

theorem deserialize_eq_runWith (n : Nat) (s : PySt) (data : List Nat) :
    Gen.Deser.deserialize n s data = runWith n (exec n) data.length s data := run_eq_runWith n _ s data

/-- an executor that answers only what `PyDeser.exec` answers, on well-shaped states -/
def ExecSound (n : Nat) (E : PySt → Res → Option (Option (PySt × List Nat))) : Prop :=
  ∀ s res x, ShapeSt s → E s res = some x → exec n s res = some x

theorem execSound_exec (n : Nat) : ExecSound n (exec n) := fun _ _ _ _ h => h

/-- whatever the iteration on the translated `StatefulInterpreter` answers, the iteration on the tracker answers
(`InterpTie.pyCall_sound`) -/
theorem execI_sound (n : Nat) : ExecSound n (execI n) := by
  intro s res x hS h
  cases res with
  | raise => exact h
  | fuel => exact h
  | noop rest => exact h
  | call dc rest =>
    simp only [execI] at h
    simp only [exec]
    split at h
    · rename_i hdef
      rw [if_pos hdef]
      cases hc : toCall s dc with
      | none => simp [hc] at h
      | some c =>
        simp only [hc] at h ⊢
        cases hg : InterpTie.pyCall n s c with
        | none => simp [hg] at h
        | some g =>
          simp only [hg] at h
          cases g with
          | none => simp at h
          | some r =>
            simp only [Option.map_some, Option.some.injEq] at h
            have := InterpTie.pyCall_sound n s c (some r) r hS.1 hg rfl
            rw [this, ← h]
            rfl
    · rename_i hdef
      rw [if_neg hdef]
      exact h

/-! ## shape along the deserialiser's calls -/

/-- a `MetaVar` instruction without freshness constraints (what `ShapeSt` of the tracker state asks of a metavariable) -/
def _root_.Instr.mvClean : Instr → Bool
  | .metavar _ ef sf _ _ _ => ef.isEmpty && sf.isEmpty
  | _ => true

theorem shape_step (n : Nat) (s s' : PySt) (i : Instr) (c : Call) (hS : ShapeSt s) (hi : i.mvClean = true)
    (hc : callOfInstr s i = some c) (ht : track1 n s c = some (some s')) : ShapeSt s' := by
  refine (track1_pres n s s' c hS ?_ ?_ ht).1
  · intro a ha
    subst ha
    cases i <;> simp only [callOfInstr] at hc <;> try (first | (simp at hc; done) | (split at hc <;> simp at hc; done))
    case load j =>
      simp only [Option.map_eq_some_iff] at hc
      obtain ⟨u, hu, he⟩ := hc
      cases he
      exact hS.2.1 _ (List.mem_of_getElem? hu)
  · intro id ef sf ps ns hs ha
    subst ha
    cases i <;> simp only [callOfInstr] at hc <;> try (first | (simp at hc; done) | (split at hc <;> simp at hc; done))
    case metavar id' ef' sf' ps' ns' hs' =>
      simp only [Option.some.injEq, Call.metavar.injEq] at hc
      obtain ⟨_, rfl, rfl, _⟩ := hc
      simpa [Instr.mvClean, List.isEmpty_iff] using hi
    case cleanmv id' =>
      simp only [Option.some.injEq, Call.metavar.injEq] at hc
      exact ⟨hc.2.1.symm, hc.2.2.1.symm⟩

/-! ## the claim pre-check: it agrees with the tracker's test wherever the loop gets past a `Publish` -/

/-- in the proof phase the proof on top of the stack proves the next claim (up to notation) -/
def PubOK (s : PySt) : Prop :=
  ∀ t b st c cs, s.phase = .proof → s.stack = (.proved t, b) :: st → s.claims = c :: cs → t.expand = c.expand

/-- `PubOK` in every state in which the model replays a `Publish` (the shape of `DeserTie.PrecheckAlong`) -/
def PubOKAlong (n : Nat) : PySt → List Instr → Prop
  | _, [] => True
  | s, i :: is => (i = .publish → PubOK s) ∧
      ∀ c s', callOfInstr s i = some c → track1 n s c = some (some s') → PubOKAlong n s' is

/-- if the `Publish` branch as written answers at all (a state or an exception, not "out of fuel") in a well-shaped state whose
top proof proves the next claim, both comparisons (`claim == conclusion` of the deserialiser, `conclusion == claim` of
`publish_proof`) were definite, hence agree -/
theorem precheck_of_exec (n : Nat) (s : PySt) (r : List Nat) (x : Option (PySt × List Nat)) (hS : ShapeSt s) (hP : PubOK s)
    (h : exec n s (Gen.Deser.br_Publish n s r) = some x) : DeserTie.PrecheckAgrees n s := by
  intro t b st c cs hph hst hcl
  have hexp := hP t b st c cs hph hst hcl
  have hts : t.Shape = true := hS.1 (.proved t, b) (by rw [hst]; simp)
  have hcs : c.Shape = true := hS.2.2 c (by rw [hcl]; simp)
  obtain ⟨ph, stk, mem, cl, sy⟩ := s
  simp only at hph hst hcl
  subst hph hst hcl
  cases h1 : NPat.peqF n c t with
  | none =>
    simp [Gen.Deser.br_Publish, assertThat, isProved, Arg.term, ifM, pyOr, pyNot, claimHeadEq, TTerm.body, h1, exec] at h
  | some q =>
    have hq : q = true := by rw [NPat.peqF_expand n c t q hcs hts h1]; simp [hexp]
    subst hq
    cases h2 : NPat.peqF n t c with
    | none =>
      simp [Gen.Deser.br_Publish, assertThat, isProved, Arg.term, ifM, pyOr, pyNot, claimHeadEq, TTerm.body, h1, h2, exec,
        toCall, Arg.defined, track1] at h
    | some q' =>
      have hq' : q' = true := by rw [NPat.peqF_expand n t c q' hts hcs h2]; simp [hexp]
      rw [hq']

theorem step_publish (n : Nat) (s : PySt) (r : List Nat) : Gen.Deser.step n s 30 r = Gen.Deser.br_Publish n s r := by
  rw [DeserTie.step_eq]; simp

/-- **the loop, without `PrecheckAlong`**: on a decodable stream (distinct `Instantiate` keys, metavariables without freshness
constraints) from a well-shaped state in which every `Publish` of the proof phase finds a proof of the next claim, a run of the
generated `while` loop — on the tracker or on the translated `StatefulInterpreter` — that returns, returns what the model's
`replay` of the decoded instructions returns -/
theorem runWith_replay (n : Nat) (E : PySt → Res → Option (Option (PySt × List Nat))) (hE : ExecSound n E) :
    ∀ (f : Nat) (s : PySt) (bs : List Nat) (is : List Instr) (r : Option PySt), bs.length ≤ f →
    decodeF f bs = some is → DeserTie.NodupKeys is → (∀ i ∈ is, i.mvClean = true) → ShapeSt s → PubOKAlong n s is →
    runWith n E f s bs = some r → replay n s is = some r := by
  intro f
  induction f with
  | zero =>
    intro s bs is r hlen hd _ _ _ _ hrun
    cases bs with
    | nil => simp only [decodeF, Option.some.injEq] at hd; subst hd; exact hrun
    | cons b r => simp at hlen
  | succ f ih =>
    intro s bs is r0 hlen hd hk hmv hS hp hrun
    cases bs with
    | nil => simp only [decodeF, Option.some.injEq] at hd; subst hd; exact hrun
    | cons b r =>
      simp only [decodeF] at hd
      cases h1 : decode1 (b :: r) with
      | none => simp [h1] at hd
      | some ir =>
        obtain ⟨i, rest⟩ := ir
        simp only [h1, Option.map_eq_some_iff] at hd
        obtain ⟨is', hd', rfl⟩ := hd
        have hrest : rest.length ≤ f := by
          have := decode1_length h1
          simp only [List.length_cons] at this hlen
          omega
        have hk1 : DeserTie.NodupKeys1 (b :: r) := by
          intro ids rest' hdec
          rw [h1] at hdec
          simp only [Option.some.injEq, Prod.mk.injEq] at hdec
          exact hk ids (by rw [← hdec.1]; simp)
        simp only [runWith] at hrun
        cases hx : E s (Gen.Deser.step n s b r) with
        | none => simp [hx] at hrun
        | some x =>
          have hex := hE s _ x hS hx
          have hp1 : b = 30 → DeserTie.PrecheckAgrees n s := by
            intro hb
            subst hb
            have hi : i = .publish := by
              simp only [decode1, Option.some.injEq, Prod.mk.injEq] at h1
              exact h1.1.symm
            rw [step_publish] at hex
            exact precheck_of_exec n s r x hS (hp.1 hi) hex
          have htie := DeserTie.step_tie n s b r hk1 hp1
          rw [hex] at htie
          simp only [DeserTie.modelStep, h1] at htie
          cases hc : callOfInstr s i with
          | none =>
            simp only [hc, Option.some.injEq] at htie
            subst htie
            simp only [hx, Option.some.injEq] at hrun
            subst hrun
            simp only [replay, hc]
          | some c =>
            simp only [hc] at htie
            cases ht : track1 n s c with
            | none => simp [ht] at htie
            | some o =>
              cases o with
              | none =>
                simp only [ht, Option.map_some, Option.map_none, Option.some.injEq] at htie
                subst htie
                simp only [hx, Option.some.injEq] at hrun
                subst hrun
                simp only [replay, hc, ht, Option.bind_eq_bind, Option.bind_some, Option.pure_def]
              | some s' =>
                simp only [ht, Option.map_some, Option.some.injEq] at htie
                subst htie
                simp only [hx] at hrun
                simp only [replay, hc, ht, Option.bind_eq_bind, Option.bind_some]
                exact ih s' rest is' r0 hrest hd' (fun ids hm => hk ids (List.mem_cons_of_mem _ hm))
                  (fun j hj => hmv j (List.mem_cons_of_mem _ hj))
                  (shape_step n s s' i c hS (hmv i (List.mem_cons_self ..)) hc ht) (hp.2 c s' hc ht) hrun

/-- … for `deserialize` (the iteration bound is the length of the data) -/
theorem runWith_deserialize (n : Nat) (E : PySt → Res → Option (Option (PySt × List Nat))) (hE : ExecSound n E)
    (s : PySt) (is : List Instr) (r : Option PySt) (hk : DeserTie.NodupKeys is) (hmv : ∀ i ∈ is, i.mvClean = true)
    (hS : ShapeSt s) (hp : PubOKAlong n s is) (h : runWith n E (encode is).length s (encode is) = some r) :
    replay n s is = some r :=
  runWith_replay n E hE _ s _ is r (Nat.le_refl _) (decode_encode is) hk hmv hS hp h

/-! ## what a history emits -/

/-- the keys of an `instantiate` / `instantiate_pattern` call are pairwise different (they are the keys of a `dict`) -/
def _root_.Call.keysNodup : Call → Bool
  | .instantiate keys => decide keys.Nodup
  | .instantiatePattern keys => decide keys.Nodup
  | _ => true

theorem emit1_instr_ok (n : Nat) (s : PySt) (c : Call) (i : Instr) (hok : CallOK n s c) (hk : c.keysNodup = true)
    (he : emit1 n s c = some (some [i])) : (∀ ids, i = .instantiate ids → ids.Nodup) ∧ i.mvClean = true := by
  obtain ⟨_, _, _, _, hmv⟩ := hok
  cases c with
  | metavar id ef sf ps ns hs =>
    obtain ⟨rfl, rfl⟩ := hmv _ _ _ _ _ _ rfl
    simp only [emit1] at he
    split at he <;> (simp only [Option.some.injEq, List.cons.injEq, and_true] at he; subst he; simp [Instr.mvClean])
  | load t =>
    simp only [emit1, Option.bind_eq_bind, Option.bind_eq_some_iff] at he
    obtain ⟨oi, _, he⟩ := he
    cases oi with
    | none => simp at he
    | some j =>
      simp only [Option.pure_def, Option.some.injEq, List.cons.injEq, and_true] at he; subst he
      simp [Instr.mvClean]
  | instantiate keys =>
    simp only [emit1, Option.some.injEq, List.cons.injEq, and_true] at he; subst he
    simp only [Call.keysNodup, decide_eq_true_eq] at hk
    refine ⟨?_, rfl⟩
    intro ids h
    cases h
    exact (List.reverse_perm keys).nodup_iff.mpr hk
  | instantiatePattern keys =>
    simp only [emit1, Option.some.injEq, List.cons.injEq, and_true] at he; subst he
    simp only [Call.keysNodup, decide_eq_true_eq] at hk
    refine ⟨?_, rfl⟩
    intro ids h
    cases h
    exact (List.reverse_perm keys).nodup_iff.mpr hk
  | intoClaim => simp [emit1] at he
  | intoProof => simp [emit1] at he
  | _ =>
    simp only [emit1, Option.some.injEq, List.cons.injEq, and_true] at he; subst he
    exact ⟨fun ids h => (by cases h), rfl⟩

/-- the instructions a well-formed history with distinct `instantiate` keys emitted have distinct `Instantiate` keys and
metavariables without freshness constraints -/
theorem emitAll_instrs (n : Nat) : ∀ (cs : List Call) (s s' : PySt) (is : List Instr), CallsOK n s cs →
    (∀ c ∈ cs, c.keysNodup = true) → PySt.emitAll n s cs = some (some (s', is)) →
    DeserTie.NodupKeys is ∧ ∀ i ∈ is, i.mvClean = true := by
  intro cs
  induction cs with
  | nil =>
    intro s s' is _ _ he
    simp only [PySt.emitAll, Option.some.injEq, Prod.mk.injEq] at he
    obtain ⟨_, rfl⟩ := he
    exact ⟨fun ids h => (by cases h), fun i h => (by cases h)⟩
  | cons c cs ih =>
    intro s s' is hok hk he
    obtain ⟨hok1, hoks⟩ := hok
    obtain ⟨is1, s1, js, he1, ht1, hes, rfl⟩ := emitAll_cons n s s' c cs is he
    obtain ⟨i, rfl⟩ := emit1_single n s c is1 hok1.1 hok1.2.1 he1
    obtain ⟨h1, h2⟩ := emit1_instr_ok n s c i hok1 (hk c (List.mem_cons_self ..)) he1
    obtain ⟨h3, h4⟩ := ih s1 s' js (hoks s1 ht1) (fun c' hc' => hk c' (List.mem_cons_of_mem _ hc')) hes
    refine ⟨?_, ?_⟩
    · intro ids hm
      simp only [List.singleton_append, List.mem_cons] at hm
      rcases hm with hm | hm
      · exact h1 ids hm.symm
      · exact h3 ids hm
    · intro j hj
      simp only [List.singleton_append, List.mem_cons] at hj
      rcases hj with rfl | hj
      · exact h2
      · exact h4 j hj

/-- a call that emitted `Publish` in the proof phase is `publish_proof`, and the proof it published proves the claim -/
theorem pubOK_of_emit (n : Nat) (s t s1 : PySt) (c : Call) (hE : StEqG true s t) (hSs : ShapeSt s)
    (he : emit1 n s c = some (some [.publish])) (ht : track1 n s c = some (some s1)) : PubOK t := by
  intro tt b st c0 cs0 hph hst hcl
  have hsph : s.phase = .proof := by rw [hE.1]; exact hph
  have hc : c = .publishProof := by
    cases c with
    | metavar id ef sf ps ns hs => simp only [emit1] at he; split at he <;> simp at he
    | load a =>
      simp only [emit1, Option.bind_eq_bind, Option.bind_eq_some_iff] at he
      obtain ⟨oi, _, he⟩ := he
      cases oi <;> simp at he
    | publishProof => rfl
    | publishAxiom => simp [track1, hsph] at ht
    | publishClaim => simp [track1, hsph] at ht
    | _ => simp [emit1] at he
  subst hc
  obtain ⟨t0, c0', hterm, hclaims, hpeq⟩ := (DeserTie.track1_publish_uses n s s1).2.2.2.2.2 ht
  have hstk := hE.2.1
  rw [hst] at hstk
  obtain ⟨p', st', hss, hp', _⟩ := stk_proved true tt b st s.stack hstk.symm
  have ht0 : t0 = p' := by
    simp only [Arg.term, hss, List.getElem?_cons_zero, Option.map_some, Option.some.injEq, TTerm.proved.injEq] at hterm
    exact hterm.symm
  subst ht0
  have hcl' := hE.2.2.2.1
  rw [hclaims, hcl] at hcl'
  simp only [List.map_cons, List.cons.injEq] at hcl'
  have h1 : t0.Shape = true := hSs.1 (.proved t0, b) (by rw [hss]; simp)
  have h2 : c0'.Shape = true := hSs.2.2 c0' (by rw [hclaims]; simp)
  have := NPat.peqF_expand n t0 c0' true h1 h2 hpeq
  have hx : t0.expand = c0'.expand := by simpa using this.symm
  rw [← hp', hx, hcl'.1]

/-- the instructions a well-formed history emitted, replayed from a state equal up to notation (same meta-headed entries): in
every state in which the replay meets a `Publish` of the proof phase, the proof on the stack proves the next claim -/
theorem pubOKAlong_emit (n k : Nat) : ∀ (cs : List Call) (s t s' : PySt) (is : List Instr),
    StEqG true s t → ShapeSt s → ShapeSt t → CanonTab s.symtab → CallsOK n s cs →
    PySt.emitAll n s cs = some (some (s', is)) → PubOKAlong k t is := by
  intro cs
  induction cs with
  | nil =>
    intro s t s' is _ _ _ _ _ he
    simp only [PySt.emitAll, Option.some.injEq, Prod.mk.injEq] at he
    obtain ⟨_, rfl⟩ := he
    trivial
  | cons c cs ih =>
    intro s t s' is hE hSs hSt hC hok he
    obtain ⟨hok1, hoks⟩ := hok
    obtain ⟨is1, s1, js, he1, ht1, hes, rfl⟩ := emitAll_cons n s s' c cs is he
    obtain ⟨i, rfl⟩ := emit1_single n s c is1 hok1.1 hok1.2.1 he1
    simp only [List.singleton_append]
    refine ⟨?_, ?_⟩
    · intro hi
      subst hi
      exact pubOK_of_emit n s t s1 c hE hSs he1 ht1
    · intro c2' t1 hc2' hx
      obtain ⟨c2, hc2, hrel⟩ := replay_call n s t s1 c i hE hSs hSt hC hok1 he1 ht1
      have hcc : c2 = c2' := by rw [hc2] at hc2'; exact Option.some.inj hc2'
      subst hcc
      have hload : ∀ a, c = .load a → a.body.Shape = true := fun a e => (hok1.2.2.2.1 a e).1
      have hmv := hok1.2.2.2.2
      obtain ⟨t1', ht1', hE1⟩ := track1_congrG true n k s t s1 c c2 (some t1) hE hSs hSt hrel hload
        (fun h => by simp at h) ht1 hx
      cases ht1'
      have hP := track1_pres n s s1 c hSs hload hmv ht1
      have hSt1 : ShapeSt t1 := by
        rcases hrel with rfl | ⟨a, b, rfl, rfl, _, hb, _⟩
        · exact (track1_pres k t t1 c2 hSt hload hmv hx).1
        · exact (track1_pres k t t1 (.load b) hSt (fun a' e => by cases e; exact hb)
            (fun _ _ _ _ _ _ e => by cases e) hx).1
      have hC1 := track1_canon n s s1 c hC hok1.2.2.1 hP ht1
      exact ih s1 t1 s' js hE1 hP.1 hSt1 hC1 (hoks s1 ht1) hes

/-! ## the round trip for one phase -/

/-- shape and canonical symbol table at the end of a well-formed history -/
theorem emitAll_final (n : Nat) : ∀ (cs : List Call) (s s' : PySt) (is : List Instr), ShapeSt s → CanonTab s.symtab →
    CallsOK n s cs → PySt.emitAll n s cs = some (some (s', is)) → ShapeSt s' ∧ CanonTab s'.symtab := by
  intro cs
  induction cs with
  | nil =>
    intro s s' is hSs hC _ hem
    simp only [PySt.emitAll, Option.some.injEq, Prod.mk.injEq] at hem
    obtain ⟨rfl, _⟩ := hem
    exact ⟨hSs, hC⟩
  | cons c cs ih =>
    intro s s' is hSs hC hok hem
    obtain ⟨hok1, hoks⟩ := hok
    obtain ⟨is1, s1, js, he1, ht1, hes, rfl⟩ := emitAll_cons n s s' c cs is hem
    have hload : ∀ a, c = .load a → a.body.Shape = true := fun a e => (hok1.2.2.2.1 a e).1
    have hP := track1_pres n s s1 c hSs hload hok1.2.2.2.2 ht1
    exact ih s1 s' js hP.1 (track1_canon n s s1 c hC hok1.2.2.1 hP ht1) (hoks s1 ht1) hes

/-- a successful replay of instructions whose metavariables carry no freshness constraints keeps the state well shaped -/
theorem replay_shape (k : Nat) : ∀ (is : List Instr) (t t' : PySt), (∀ i ∈ is, i.mvClean = true) → ShapeSt t →
    replay k t is = some (some t') → ShapeSt t' := by
  intro is
  induction is with
  | nil => intro t t' _ hSt hrep; simp only [replay, Option.some.injEq] at hrep; subst hrep; exact hSt
  | cons i is ih =>
    intro t t' hmv hSt hrep
    simp only [replay] at hrep
    cases hc : callOfInstr t i with
    | none => simp [hc] at hrep
    | some c =>
      simp only [hc, Option.bind_eq_bind, Option.bind_eq_some_iff] at hrep
      obtain ⟨o, ht, hrep⟩ := hrep
      cases o with
      | none => simp at hrep
      | some t1 =>
        exact ih t1 t' (fun j hj => hmv j (List.mem_cons_of_mem _ hj))
          (shape_step k t t1 i c hSt (hmv i (List.mem_cons_self ..)) hc ht) hrep

/-- **round trip for one phase, through the texts** (strong form, for chaining phases): the instructions `is` that a
well-formed history with distinct `instantiate` keys emitted; a run of the loop of `deserialize_instructions` as written on
`encode is` — with any executor that answers only what `PyDeser.exec` answers: the tracker (`Gen.Deser.deserialize`) or the
translated `StatefulInterpreter` (`deserializeI`) — from a state `t` equal to the history's initial state up to notation, if it
returns, returns a state equal to the history's final state up to notation (with the same meta-headed entries: `StEqG true`)
and well shaped -/
theorem roundtrip_phaseE (n k : Nat) (E : PySt → Res → Option (Option (PySt × List Nat))) (hE : ExecSound k E)
    (cs : List Call) (s t s' : PySt) (is : List Instr)
    (hEq : StEqG true s t) (hSs : ShapeSt s) (hSt : ShapeSt t) (hC : CanonTab s.symtab) (hok : CallsOK n s cs)
    (hkeys : ∀ c ∈ cs, c.keysNodup = true) (hem : PySt.emitAll n s cs = some (some (s', is))) :
    ∀ r, runWith k E (encode is).length t (encode is) = some r → ∃ t', r = some t' ∧ StEqG true s' t' ∧ ShapeSt t' := by
  intro r hr
  obtain ⟨hnd, hmv⟩ := emitAll_instrs n cs s s' is hok hkeys hem
  have hpub := pubOKAlong_emit n k cs s t s' is hEq hSs hSt hC hok hem
  have hrep := runWith_deserialize k E hE t is r hnd hmv hSt hpub hr
  obtain ⟨t', rfl, hE'⟩ := replay_emitG n k cs s t s' is r hEq hSs hSt hC hok hem hrep
  exact ⟨t', rfl, hE', replay_shape k is t t' hmv hSt hrep⟩

/-- the same in terms of `trackAll` -/
theorem roundtrip_phaseG (n k : Nat) (E : PySt → Res → Option (Option (PySt × List Nat))) (hE : ExecSound k E)
    (cs : List Call) (s t s' : PySt) (out out' : List Instr × List Instr × List Instr)
    (hEq : StEqG true s t) (hSs : ShapeSt s) (hSt : ShapeSt t) (hC : CanonTab s.symtab) (hok : CallsOK n s cs)
    (hkeys : ∀ c ∈ cs, c.keysNodup = true)
    (h : PySt.trackAll n s cs out = some (some (s', out'))) :
    ∃ is, out' = addOut s.phase out is ∧ ShapeSt s' ∧ CanonTab s'.symtab ∧
      ∀ r, runWith k E (encode is).length t (encode is) = some r → ∃ t', r = some t' ∧ StEqG true s' t' ∧ ShapeSt t' := by
  obtain ⟨is, hem, hout⟩ := trackAll_emitAll n cs s s' out out' hSs hok h
  obtain ⟨hfin1, hfin2⟩ := emitAll_final n cs s s' is hSs hC hok hem
  exact ⟨is, hout, hfin1, hfin2, roundtrip_phaseE n k E hE cs s t s' is hEq hSs hSt hC hok hkeys hem⟩

/-! ## undecodable streams: the loop never completes, whatever the executor -/

theorem execI_rest (n : Nat) (s s' : PySt) (res : Res) (rest rest' : List Nat) (h : DeserTie.restOK res rest)
    (he : execI n s res = some (some (s', rest'))) : rest' = rest := by
  cases res with
  | raise => simp [execI] at he
  | fuel => simp [execI] at he
  | noop r =>
    simp only [execI, Option.some.injEq, Prod.mk.injEq] at he
    simp only [DeserTie.restOK] at h
    rw [← he.2, h]
  | call dc r =>
    simp only [DeserTie.restOK] at h
    subst h
    simp only [execI] at he
    split at he
    · split at he
      · split at he
        · rename_i g _
          cases g with
          | none => simp at he
          | some o =>
            cases o with
            | none => simp at he
            | some s1 => simp at he; exact he.2.symm
        · simp at he
      · simp at he
    · simp at he

/-- an executor that raises on `raise` and continues, if at all, with the rest of the stream the branch left -/
def ExecReads (E : PySt → Res → Option (Option (PySt × List Nat))) : Prop :=
  (∀ s, E s .raise = some none) ∧
  ∀ s s' res rest rest', DeserTie.restOK res rest → E s res = some (some (s', rest')) → rest' = rest

theorem execReads_exec (n : Nat) : ExecReads (exec n) := ⟨fun _ => rfl, fun s s' res rest rest' => DeserTie.exec_rest n s s' res rest rest'⟩
theorem execReads_execI (n : Nat) : ExecReads (execI n) := ⟨fun _ => rfl, fun s s' res rest rest' => execI_rest n s s' res rest rest'⟩

/-- on an undecodable stream the loop as written never completes (`DeserTie.run_undecodable`, for any such executor) -/
theorem runWith_undecodable (n : Nat) (E : PySt → Res → Option (Option (PySt × List Nat))) (hE : ExecReads E) :
    ∀ (f : Nat) (s : PySt) (bs : List Nat), bs.length ≤ f → decodeF f bs = none →
    runWith n E f s bs = some none ∨ runWith n E f s bs = none := by
  intro f
  induction f with
  | zero =>
    intro s bs hlen hd
    cases bs with
    | nil => simp [decodeF] at hd
    | cons b r => simp at hlen
  | succ f ih =>
    intro s bs hlen hd
    cases bs with
    | nil => simp [decodeF] at hd
    | cons b r =>
      have hr := DeserTie.step_reads n s b r
      simp only [decodeF] at hd
      simp only [runWith]
      cases h1 : decode1 (b :: r) with
      | none =>
        rw [h1] at hr
        simp only [DeserTie.reads] at hr
        simp [hr, hE.1]
      | some ir =>
        obtain ⟨i, rest⟩ := ir
        rw [h1] at hr
        simp only [DeserTie.reads] at hr
        simp only [h1, Option.map_eq_none_iff] at hd
        have hrest : rest.length ≤ f := by
          have := decode1_length h1
          simp only [List.length_cons] at this hlen
          omega
        cases he : E s (Gen.Deser.step n s b r) with
        | none => exact Or.inr rfl
        | some o =>
          cases o with
          | none => exact Or.inl rfl
          | some p =>
            obtain ⟨s', rest'⟩ := p
            have := hE.2 s s' _ rest rest' hr he
            subst this
            exact ih s' rest' hrest hd

/-! ## histories of a whole module: Γ phase, `into_claim_phase`, claim phase, `into_proof_phase`, proof phase -/

theorem trackAll_append_some (n : Nat) : ∀ (a b : List Call) (s : PySt) (out : List Instr × List Instr × List Instr)
    (r : PySt × (List Instr × List Instr × List Instr)),
    PySt.trackAll n s (a ++ b) out = some (some r) →
    ∃ s1 o1, PySt.trackAll n s a out = some (some (s1, o1)) ∧ PySt.trackAll n s1 b o1 = some (some r) := by
  intro a
  induction a with
  | nil => intro b s out r h; exact ⟨s, out, rfl, h⟩
  | cons c a ih =>
    intro b s out r h
    obtain ⟨g, cl, pf⟩ := out
    simp only [List.cons_append, PySt.trackAll, Option.bind_eq_bind, Option.bind_eq_some_iff] at h
    obtain ⟨oe, he, h⟩ := h
    cases oe with
    | none => simp at h
    | some is1 =>
      simp only [Option.bind_eq_some_iff] at h
      obtain ⟨os, hs, h⟩ := h
      cases os with
      | none => simp at h
      | some s1 =>
        simp only [] at h
        obtain ⟨s2, o2, h1, h2⟩ := ih b s1 _ r h
        exact ⟨s2, o2, by simp only [PySt.trackAll, he, hs, Option.bind_eq_bind, Option.bind_some]; exact h1, h2⟩

/-- a phase switch writes nothing -/
theorem trackAll_into (n : Nat) (c : Call) (hc : c = .intoClaim ∨ c = .intoProof) (b : List Call) (s : PySt)
    (out : List Instr × List Instr × List Instr) (r : PySt × (List Instr × List Instr × List Instr))
    (h : PySt.trackAll n s (c :: b) out = some (some r)) :
    ∃ s1, PySt.track1 n s c = some (some s1) ∧ PySt.trackAll n s1 b out = some (some r) := by
  obtain ⟨g, cl, pf⟩ := out
  have he : PySt.emit1 n s c = some (some []) := by rcases hc with rfl | rfl <;> rfl
  simp only [PySt.trackAll, he, Option.bind_eq_bind, Option.bind_some, Option.bind_eq_some_iff] at h
  obtain ⟨os, hs, h⟩ := h
  cases os with
  | none => simp at h
  | some s1 =>
    refine ⟨s1, hs, ?_⟩
    simp only [List.append_nil] at h
    cases hph : s.phase <;> simp only [hph] at h <;> exact h

/-- a phase switch on two states equal up to notation -/
theorem into_congr (n k : Nat) (c : Call) (hc : c = .intoClaim ∨ c = .intoProof) (s t s1 : PySt) (r : Option PySt)
    (hE : StEqG true s t) (hSs : ShapeSt s) (hSt : ShapeSt t) (hC : CanonTab s.symtab)
    (ht : PySt.track1 n s c = some (some s1)) (hk : PySt.track1 k t c = some r) :
    ∃ t1, r = some t1 ∧ StEqG true s1 t1 ∧ ShapeSt s1 ∧ ShapeSt t1 ∧ CanonTab s1.symtab := by
  have hload : ∀ a, c = .load a → a.body.Shape = true := by rcases hc with rfl | rfl <;> (intro a e; cases e)
  have hmv : ∀ id ef sf ps ns hs, c = .metavar id ef sf ps ns hs → ef = [] ∧ sf = [] := by
    rcases hc with rfl | rfl <;> (intro _ _ _ _ _ _ e; cases e)
  have hsym : ∀ nm, c = .symbol nm → nm ≤ s.symtab.length := by rcases hc with rfl | rfl <;> (intro a e; cases e)
  obtain ⟨t1, rfl, hE1⟩ := track1_congrG true n k s t s1 c c r hE hSs hSt (Or.inl rfl) hload (fun h => by simp at h) ht hk
  have hP := track1_pres n s s1 c hSs hload hmv ht
  exact ⟨t1, rfl, hE1, hP.1, (track1_pres k t t1 c hSt hload hmv hk).1, track1_canon n s s1 c hC hsym hP ht⟩

theorem shapeSt_init (claims : List NPat) (h : ∀ q ∈ claims, q.Shape = true) : ShapeSt (PySt.init claims) :=
  ⟨fun e he => by simp [PySt.init] at he, fun e he => by simp [PySt.init] at he, h⟩

theorem canonTab_init (claims : List NPat) : CanonTab (PySt.init claims).symtab := rfl

/-- the three phases of a module's history are well formed in the states they are made in (`CallsOK`; in particular no phase
contains a phase switch) -/
def ModOK (n : Nat) (claims : List NPat) (gs cls pfs : List Call) : Prop :=
  CallsOK n (PySt.init claims) gs ∧
  ∀ s1 o1 s1', PySt.trackAll n (PySt.init claims) gs ([], [], []) = some (some (s1, o1)) →
    PySt.track1 n s1 .intoClaim = some (some s1') →
    CallsOK n s1' cls ∧
    ∀ s2 o2 s2', PySt.trackAll n s1' cls o1 = some (some (s2, o2)) → PySt.track1 n s2 .intoProof = some (some s2') →
      CallsOK n s2' pfs

open PyI in
/-- the three byte streams of a module fed phase by phase to `deserialize_instructions` as written (loop executor `E`), the
phase switches being `StatefulInterpreter.into_claim_phase` / `into_proof_phase` as written -/
def deserModWith (k : Nat) (E : PySt → Res → Option (Option (PySt × List Nat))) (t : PySt) (gb cb pb : List Nat) :
    Option (Option PySt) :=
  call (runWith k E gb.length t gb) fun t1 =>
  call (Gen.PyInterp.Stateful.into_claim_phase t1) fun t1' =>
  call (runWith k E cb.length t1' cb) fun t2 =>
  call (Gen.PyInterp.Stateful.into_proof_phase t2) fun t2' =>
  runWith k E pb.length t2' pb

/-- on the tracker (`Gen.Deser.deserialize` per phase) -/
def deserMod (k : Nat) (t : PySt) (gb cb pb : List Nat) : Option (Option PySt) := deserModWith k (exec k) t gb cb pb
/-- on the translated `StatefulInterpreter` (`deserializeI` per phase) -/
def deserModI (k : Nat) (t : PySt) (gb cb pb : List Nat) : Option (Option PySt) := deserModWith k (execI k) t gb cb pb

open PyI in
theorem deserMod_eq (k : Nat) (t : PySt) (gb cb pb : List Nat) :
    deserMod k t gb cb pb =
      call (Gen.Deser.deserialize k t gb) fun t1 =>
      call (Gen.PyInterp.Stateful.into_claim_phase t1) fun t1' =>
      call (Gen.Deser.deserialize k t1' cb) fun t2 =>
      call (Gen.PyInterp.Stateful.into_proof_phase t2) fun t2' =>
      Gen.Deser.deserialize k t2' pb := by
  simp only [deserMod, deserModWith, deserialize_eq_runWith]

theorem call_some {α β} {x : PyI.Py α} {f : α → PyI.Py β} {r : Option β} (h : PyI.call x f = some r) :
    x = some none ∧ r = none ∨ ∃ a, x = some (some a) ∧ f a = some r := by
  rcases x with _ | _ | a
  · simp [PyI.call] at h
  · simp only [PyI.call, Option.some.injEq] at h; exact Or.inl ⟨rfl, h.symm⟩
  · exact Or.inr ⟨a, rfl, h⟩

/-- **round trip for a module, through the texts** (strong form) -/
theorem roundtrip_modG (n k : Nat) (E : PySt → Res → Option (Option (PySt × List Nat))) (hE : ExecSound k E)
    (claims : List NPat) (gs cls pfs : List Call) (s' : PySt) (g c p : List Instr)
    (hclaims : ∀ q ∈ claims, q.Shape = true)
    (hok : ModOK n claims gs cls pfs)
    (hkeys : ∀ x ∈ gs ++ cls ++ pfs, x.keysNodup = true)
    (hT : PySt.trackAll n (PySt.init claims) (gs ++ .intoClaim :: (cls ++ .intoProof :: pfs)) ([], [], [])
      = some (some (s', (g, c, p)))) :
    ∀ r, deserModWith k E (PySt.init claims) (encode g) (encode c) (encode p) = some r →
      ∃ t', r = some t' ∧ StEqG true s' t' ∧ ShapeSt t' := by
  intro r hr
  -- split the history
  obtain ⟨s1, o1, hT1, hT⟩ := trackAll_append_some n gs _ _ _ _ hT
  obtain ⟨s1', hi1, hT⟩ := trackAll_into n .intoClaim (Or.inl rfl) _ s1 o1 _ hT
  obtain ⟨s2, o2, hT2, hT⟩ := trackAll_append_some n cls _ _ _ _ hT
  obtain ⟨s2', hi2, hT3⟩ := trackAll_into n .intoProof (Or.inr rfl) _ s2 o2 _ hT
  obtain ⟨hokg, hok⟩ := hok
  obtain ⟨hokc, hok⟩ := hok s1 o1 s1' hT1 hi1
  have hokp := hok s2 o2 s2' hT2 hi2
  have hS0 := shapeSt_init claims hclaims
  have hkg : ∀ x ∈ gs, x.keysNodup = true := fun x hx => hkeys x (by simp [hx])
  have hkc : ∀ x ∈ cls, x.keysNodup = true := fun x hx => hkeys x (by simp [hx])
  have hkp : ∀ x ∈ pfs, x.keysNodup = true := fun x hx => hkeys x (by simp [hx])
  -- the history side: the three instruction lists
  obtain ⟨isg, hemg, ho1⟩ := trackAll_emitAll n gs _ s1 _ o1 hS0 hokg hT1
  obtain ⟨hS1, hC1⟩ := emitAll_final n gs _ s1 isg hS0 (canonTab_init claims) hokg hemg
  obtain ⟨_, _, _, hS1', _, hC1'⟩ :=
    into_congr n n .intoClaim (Or.inl rfl) s1 s1 s1' _ (StEqG.refl true _) hS1 hS1 hC1 hi1 hi1
  obtain ⟨isc, hemc, ho2⟩ := trackAll_emitAll n cls s1' s2 o1 o2 hS1' hokc hT2
  obtain ⟨hS2, hC2⟩ := emitAll_final n cls s1' s2 isc hS1' hC1' hokc hemc
  obtain ⟨_, _, _, hS2', _, hC2'⟩ :=
    into_congr n n .intoProof (Or.inr rfl) s2 s2 s2' _ (StEqG.refl true _) hS2 hS2 hC2 hi2 hi2
  obtain ⟨isp, hemp, ho3⟩ := trackAll_emitAll n pfs s2' s' o2 (g, c, p) hS2' hokp hT3
  have hph1 : s1.phase = .gamma := by
    cases hph : s1.phase <;> simp [PySt.track1, hph] at hi1 <;> rfl
  have hph1' : s1'.phase = .claim := by
    simp only [PySt.track1, hph1, Option.some.injEq] at hi1; subst hi1; rfl
  have hph2 : s2.phase = .claim := by
    cases hph : s2.phase <;> simp [PySt.track1, hph] at hi2 <;> rfl
  have hph2' : s2'.phase = .proof := by
    simp only [PySt.track1, hph2, Option.some.injEq] at hi2; subst hi2; rfl
  rw [hph1'] at ho2
  rw [hph2'] at ho3
  rw [ho1] at ho2
  rw [ho2] at ho3
  simp only [PySt.init, addOut, List.nil_append, Prod.mk.injEq] at ho3
  obtain ⟨rfl, rfl, rfl⟩ := ho3
  -- the deserialiser's run
  simp only [deserModWith] at hr
  have hrt1 := roundtrip_phaseE n k E hE gs _ _ s1 g (StEqG.refl true _) hS0 hS0 (canonTab_init claims) hokg hkg hemg
  rcases call_some hr with ⟨hx, _⟩ | ⟨t1, hx, hr⟩
  · obtain ⟨t', ht', _⟩ := hrt1 _ hx
    cases ht'
  obtain ⟨t1x, ht1', hE1, hSt1⟩ := hrt1 _ hx
  cases ht1'
  rw [InterpTie.into_claim_phase_tie k t1] at hr
  rcases call_some hr with ⟨hx, _⟩ | ⟨t1', hx, hr⟩
  · obtain ⟨_, h', _⟩ := into_congr n k .intoClaim (Or.inl rfl) s1 t1 s1' _ hE1 hS1 hSt1 hC1 hi1 hx
    cases h'
  obtain ⟨t1c, h', hE1', _, hSt1', _⟩ := into_congr n k .intoClaim (Or.inl rfl) s1 t1 s1' _ hE1 hS1 hSt1 hC1 hi1 hx
  cases h'
  have hrt2 := roundtrip_phaseE n k E hE cls s1' t1' s2 c hE1' hS1' hSt1' hC1' hokc hkc hemc
  rcases call_some hr with ⟨hx, _⟩ | ⟨t2, hx, hr⟩
  · obtain ⟨_, h', _⟩ := hrt2 _ hx
    cases h'
  obtain ⟨t2x, h', hE2, hSt2⟩ := hrt2 _ hx
  cases h'
  rw [InterpTie.into_proof_phase_tie k t2] at hr
  rcases call_some hr with ⟨hx, _⟩ | ⟨t2', hx, hr⟩
  · obtain ⟨_, h', _⟩ := into_congr n k .intoProof (Or.inr rfl) s2 t2 s2' _ hE2 hS2 hSt2 hC2 hi2 hx
    cases h'
  obtain ⟨t2p, h', hE2', _, hSt2', _⟩ := into_congr n k .intoProof (Or.inr rfl) s2 t2 s2' _ hE2 hS2 hSt2 hC2 hi2 hx
  cases h'
  exact roundtrip_phaseE n k E hE pfs s2' t2' s' p hE2' hS2' hSt2' hC2' hokp hkp hemp r hr

/-! ## decidable forms of the hypotheses, for concrete histories -/

def callOKB (n : Nat) (s : PySt) : Call → Bool
  | .intoClaim => false
  | .intoProof => false
  | .symbol nm => decide (nm ≤ s.symtab.length)
  | .load a => a.body.Shape &&
      (match PySt.indexF n a s.memory 0 with
       | some (some i) => (match s.memory[i]? with | some u => patMeta u == patMeta a | none => true)
       | _ => true)
  | .metavar _ ef sf _ _ _ => ef.isEmpty && sf.isEmpty
  | _ => true

theorem callOKB_sound (n : Nat) (s : PySt) (c : Call) (h : callOKB n s c = true) : CallOK n s c := by
  unfold CallOK
  cases c with
  | intoClaim => simp [callOKB] at h
  | intoProof => simp [callOKB] at h
  | symbol nm =>
    simp only [callOKB, decide_eq_true_eq] at h
    exact ⟨by simp, by simp, fun nm' e => (by cases e; exact h), fun a e => (by cases e), fun _ _ _ _ _ _ e => (by cases e)⟩
  | load a =>
    simp only [callOKB, Bool.and_eq_true] at h
    refine ⟨by simp, by simp, fun nm' e => (by cases e), fun a' e => ?_, fun _ _ _ _ _ _ e => (by cases e)⟩
    cases e
    refine ⟨h.1, fun i u hi hu => ?_⟩
    have h2 := h.2
    simp only [hi, hu, beq_iff_eq] at h2
    exact h2
  | metavar id ef sf ps ns hs =>
    simp only [callOKB, Bool.and_eq_true, List.isEmpty_iff] at h
    exact ⟨by simp, by simp, fun nm' e => (by cases e), fun a e => (by cases e),
      fun _ _ _ _ _ _ e => (by cases e; exact h)⟩
  | _ => exact ⟨by simp, by simp, fun nm' e => (by cases e), fun a e => (by cases e), fun _ _ _ _ _ _ e => (by cases e)⟩

def callsOKB (n : Nat) : PySt → List Call → Bool
  | _, [] => true
  | s, c :: cs => callOKB n s c && (match PySt.track1 n s c with | some (some s') => callsOKB n s' cs | _ => true)

theorem callsOKB_sound (n : Nat) : ∀ (cs : List Call) (s : PySt), callsOKB n s cs = true → CallsOK n s cs := by
  intro cs
  induction cs with
  | nil => intro s _; trivial
  | cons c cs ih =>
    intro s h
    simp only [callsOKB, Bool.and_eq_true] at h
    refine ⟨callOKB_sound n s c h.1, fun s' hs' => ?_⟩
    have h2 := h.2
    simp only [hs'] at h2
    exact ih s' h2

def modOKB (n : Nat) (claims : List NPat) (gs cls pfs : List Call) : Bool :=
  callsOKB n (PySt.init claims) gs &&
  (match PySt.trackAll n (PySt.init claims) gs ([], [], []) with
   | some (some (s1, o1)) =>
     (match PySt.track1 n s1 .intoClaim with
      | some (some s1') => callsOKB n s1' cls &&
        (match PySt.trackAll n s1' cls o1 with
         | some (some (s2, _)) =>
           (match PySt.track1 n s2 .intoProof with
            | some (some s2') => callsOKB n s2' pfs
            | _ => true)
         | _ => true)
      | _ => true)
   | _ => true)

theorem modOKB_sound (n : Nat) (claims : List NPat) (gs cls pfs : List Call) (h : modOKB n claims gs cls pfs = true) :
    ModOK n claims gs cls pfs := by
  simp only [modOKB, Bool.and_eq_true] at h
  refine ⟨callsOKB_sound n gs _ h.1, fun s1 o1 s1' h1 h1' => ?_⟩
  have h2 := h.2
  simp only [h1, h1', Bool.and_eq_true] at h2
  refine ⟨callsOKB_sound n cls _ h2.1, fun s2 o2 s2' h3 h3' => ?_⟩
  have h4 := h2.2
  simp only [h3, h3'] at h4
  exact callsOKB_sound n pfs _ h4

end EndToEnd
