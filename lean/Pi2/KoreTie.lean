import Pi2.Gen.PyKore
import Pi2.KoreThm
import Pi2.MatchTie
/-!
# The Kore conversion and the execution-proof generator as written in Python are the model's

`Pi2/Gen/PyKore.lean` is regenerated from `k/kore_convertion/language_semantics.py` and
`k/execution_proof_generation.py` on every run (`vlib/transkore.py`), statement by statement, in the
combinators of `Pi2/InterpSupport.lean` / `Pi2/MatchSupport.lean` / `Pi2/KoreSupport.lean`
(`Py α = Option (Option α)`: outer `none` = out of fuel, inner `none` = an exception).  Here the generated
functions are proved equal to the hand-written model `Pi2/Kore.lean` that C20 is stated about.

* **scopes** — a Python `ConvertionScope` whose dictionaries were filled by the conversion is `withScope ps sc`
  for the model's `sc : Scope`: `_metavars = {x₀: MetaVar(0), x₁: MetaVar(1), …}` for `sc.mvs = [x₀, x₁, …]`
  (`enumFrom`), `_sort_param_metavars = {s₀: MetaVar(100), …}`; a dictionary lookup is `List.idxOf?`
  (`enumFrom_lookup`), `d[k] = v` on a new key appends (`kSet_new`).  `resolve_metavar_eq`,
  `resolve_sort_param_metavar_eq`, `lookup_*_eq`, `resolve_evar_eq`: plain equations, for every scope, no
  side condition (a scope with a repeated name included).
* **conversion** — `convert_sort_eq`, `convert_pattern_both` (`_convert_pattern = conv`, the comprehension over the
  arguments `= convList`), `convert_pattern_eq`, `convert_substitutions_eq` (`= convertSubst` on the cached scope
  of the axiom, which is written back into the cache): plain equations for every term of `KTerm` (the modelled
  fragment: no quantifiers, fixpoints, set variables; binary `\and` / `\or`), every signature, every scope.
  The conversion needs no fuel: the generated function is structurally recursive, like the model.
* **`rewrite_event`, `from_proof_hints`** — `rewrite_event_eq`, `from_proof_hints_eq`: the generated function
  equals `rewriteEventF` / `traceF` (fuel `n` passed on unchanged), with ONE exception that is an artefact of
  fuel: Python collects (and checks) the functional assumptions of all entries of the substitution first and
  adds them afterwards (`collectF`, `addAllF`), the model checks and adds entry by entry
  (`addFunctionalF_phases`); so when an `add_axiom` of an earlier entry runs out of fuel and a later entry
  fails its check, the model says "out of fuel" and the text "raises".  Whenever the model answers, the text
  answers the same (`rewrite_event_of_model`); whenever the text succeeds, so does the model, with the same
  state (`rewrite_event_success`).
-/
set_option linter.unusedVariables false
set_option linter.unusedSimpArgs false
namespace KoreTie
open PyI PyM PyK Kore Gen.PyKore

theorem translated : Gen.PyKore.translated = true := by decide

/-! ## dictionaries keyed by name vs the model's lists of names -/

/-- the dictionary `{x₀: f i, x₁: f (i+1), …}` of a scope whose names were met in the order `x₀, x₁, …` -/
def enumFrom (f : Nat → NPat) : Nat → List Nat → KDict NPat
  | _, [] => []
  | i, x :: xs => (x, f i) :: enumFrom f (i + 1) xs

theorem enumFrom_length (f : Nat → NPat) (i : Nat) (l : List Nat) : (enumFrom f i l).length = l.length := by
  induction l generalizing i with
  | nil => rfl
  | cons x xs ih => simp [enumFrom, ih]

theorem enumFrom_append (f : Nat → NPat) (i : Nat) (l : List Nat) (x : Nat) :
    enumFrom f i (l ++ [x]) = enumFrom f i l ++ [(x, f (i + l.length))] := by
  induction l generalizing i with
  | nil => simp [enumFrom]
  | cons y ys ih => simp [enumFrom, ih, Nat.add_assoc, Nat.add_comm 1]

theorem enumFrom_lookup (f : Nat → NPat) (i : Nat) (l : List Nat) (x : Nat) :
    (enumFrom f i l).lookup x = (l.idxOf? x).map fun j => f (i + j) := by
  induction l generalizing i with
  | nil => simp [enumFrom, List.lookup]
  | cons y ys ih =>
    rw [List.idxOf?_cons]
    simp only [enumFrom, List.lookup]
    by_cases hxy : y = x
    · subst hxy; simp
    · have h1 : (x == y) = false := by simpa using fun h : x = y => hxy h.symm
      have h2 : (y == x) = false := by simpa using hxy
      simp only [h1, h2, ih, Option.map_map]
      cases List.idxOf? x ys <;> simp [Function.comp, Nat.add_assoc, Nat.add_comm 1]

theorem kSet_new {α} (d : KDict α) (k : Nat) (v : α) (h : d.lookup k = none) : kSet d k v = d ++ [(k, v)] := by
  induction d with
  | nil => rfl
  | cons e r ih =>
    obtain ⟨k', v'⟩ := e
    simp only [List.lookup] at h
    by_cases hk : k = k'
    · subst hk; simp at h
    · have h1 : (k == k') = false := by simpa using hk
      have h2 : (k' == k) = false := by simpa using fun h : k' = k => hk h.symm
      simp only [h1] at h
      simp [kSet, h2, ih h]

theorem kSet_same {α} (d : KDict α) (k : Nat) (v : α) (h : d.lookup k = some v) : kSet d k v = d := by
  induction d with
  | nil => simp [List.lookup] at h
  | cons e r ih =>
    obtain ⟨k', v'⟩ := e
    simp only [List.lookup] at h
    by_cases hk : k = k'
    · subst hk; simp at h; subst h; simp [kSet]
    · have h1 : (k == k') = false := by simpa using hk
      have h2 : (k' == k) = false := by simpa using fun h : k' = k => hk h.symm
      simp only [h1] at h
      simp [kSet, h2, ih h]

theorem kSet_kSet {α} (d : KDict α) (k : Nat) (v v' : α) : kSet (kSet d k v) k v' = kSet d k v' := by
  induction d with
  | nil => simp [kSet]
  | cons e r ih =>
    obtain ⟨k', w⟩ := e
    by_cases hk : (k' == k) = true
    · simp [kSet, hk]
    · simp [kSet, hk, ih]

theorem lookup_kSet {α} (d : KDict α) (k : Nat) (v : α) : (kSet d k v).lookup k = some v := by
  induction d with
  | nil => simp [kSet, List.lookup]
  | cons e r ih =>
    obtain ⟨k', w⟩ := e
    by_cases hk : k = k'
    · subst hk; simp [kSet, List.lookup]
    · have h1 : (k == k') = false := by simpa using hk
      have h2 : (k' == k) = false := by simpa using fun h : k' = k => hk h.symm
      simp [kSet, h2, List.lookup, h1, ih]

theorem lookup_append_new {α} (d : KDict α) (k : Nat) (v : α) (h : d.lookup k = none) :
    (d ++ [(k, v)]).lookup k = some v := by
  rw [← kSet_new d k v h]; exact lookup_kSet d k v

/-! ## `ConvertionScope` -/

/-- the Python scope object that the model's scope `sc` stands for: `_metavars` maps the i-th name to
`MetaVar(i)`, `_sort_param_metavars` the i-th name to `MetaVar(100 + i)`; `_evars` / `_svars` (never
touched by the conversion) are those of `ps` -/
def withScope (ps : PyScope) (sc : Scope) : PyScope :=
  { ps with _metavars := enumFrom mvN 0 sc.mvs,
            _sort_param_metavars := enumFrom (fun i => mvN (sortParamBase + i)) 0 sc.sortParams }

theorem init_scope : ConvertionScope.__init__ = withScope ConvertionScope.__init__ {} := rfl

theorem sort_param_const : ConvertionScope.SORT_PARAM_METAVAR = sortParamBase := rfl

/-- `resolve_metavar` is `Scope.resolveMv` -/
theorem resolve_metavar_eq (ps : PyScope) (sc : Scope) (x : Nat) :
    ConvertionScope.resolve_metavar (withScope ps sc) x
      = ret (withScope ps (sc.resolveMv x).1, mvN (sc.resolveMv x).2) := by
  unfold ConvertionScope.resolve_metavar Scope.resolveMv
  cases h : sc.mvs.idxOf? x with
  | none =>
    have hl : (enumFrom mvN 0 sc.mvs).lookup x = none := by rw [enumFrom_lookup, h]; rfl
    simp only [withScope, kHas, hl, Option.isSome_none, Bool.not_false, if_true, kSet_new _ _ _ hl, kGet,
      lookup_append_new _ _ _ hl, kLen, enumFrom_length, enumFrom_append, Nat.zero_add, mvN]
  | some i =>
    have hl : (enumFrom mvN 0 sc.mvs).lookup x = some (mvN i) := by rw [enumFrom_lookup, h]; simp
    simp only [withScope, kHas, hl, Option.isSome_some, Bool.not_true, kGet]
    rfl

/-- `resolve_sort_param_metavar` is `Scope.resolveSortParam` -/
theorem resolve_sort_param_metavar_eq (ps : PyScope) (sc : Scope) (x : Nat) :
    ConvertionScope.resolve_sort_param_metavar (withScope ps sc) x
      = ret (withScope ps (sc.resolveSortParam x).1, mvN (sc.resolveSortParam x).2) := by
  unfold ConvertionScope.resolve_sort_param_metavar Scope.resolveSortParam
  cases h : sc.sortParams.idxOf? x with
  | none =>
    have hl : (enumFrom (fun i => mvN (sortParamBase + i)) 0 sc.sortParams).lookup x = none := by
      rw [enumFrom_lookup, h]; rfl
    simp only [withScope, kHas, hl, Option.isSome_none, Bool.not_false, if_true, kSet_new _ _ _ hl, kGet,
      lookup_append_new _ _ _ hl, kLen, enumFrom_length, enumFrom_append, Nat.zero_add, sort_param_const]
    rfl
  | some i =>
    have hl : (enumFrom (fun i => mvN (sortParamBase + i)) 0 sc.sortParams).lookup x = some (mvN (sortParamBase + i)) := by
      rw [enumFrom_lookup, h]; simp
    simp only [withScope, kHas, hl, Option.isSome_some, Bool.not_true, kGet]
    rfl

/-- `lookup_metavar`: the id of a known name, `KeyError` for an unknown one -/
theorem lookup_metavar_eq (ps : PyScope) (sc : Scope) (x : Nat) :
    ConvertionScope.lookup_metavar (withScope ps sc) x = some ((sc.mvs.idxOf? x).map mvN) := by
  unfold ConvertionScope.lookup_metavar
  have hl := enumFrom_lookup mvN 0 sc.mvs x
  cases h : sc.mvs.idxOf? x with
  | none => rw [h] at hl; simp [withScope, kHas, hl, raise]
  | some i => rw [h] at hl; simp [withScope, kHas, hl, kGet, ret]

theorem lookup_sort_param_metavar_eq (ps : PyScope) (sc : Scope) (x : Nat) :
    ConvertionScope.lookup_sort_param_metavar (withScope ps sc) x
      = some ((sc.sortParams.idxOf? x).map fun i => mvN (sortParamBase + i)) := by
  unfold ConvertionScope.lookup_sort_param_metavar
  have hl := enumFrom_lookup (fun i => mvN (sortParamBase + i)) 0 sc.sortParams x
  cases h : sc.sortParams.idxOf? x with
  | none => rw [h] at hl; simp [withScope, kHas, hl, raise]
  | some i => rw [h] at hl; simp [withScope, kHas, hl, kGet, ret]

/-- `resolve_evar` (not used by the conversion: `kore.EVar` becomes a metavariable): on a scope whose
`_evars` are the names `evs` in order of first occurrence, the i-th name is `EVar(i)` -/
theorem resolve_evar_eq (ps : PyScope) (evs : List Nat) (x : Nat) (h : ps._evars = enumFrom NPat.evar 0 evs) :
    ConvertionScope.resolve_evar ps x
      = match evs.idxOf? x with
        | some i => ret (ps, .evar i)
        | none => ret ({ ps with _evars := enumFrom NPat.evar 0 (evs ++ [x]) }, .evar evs.length) := by
  unfold ConvertionScope.resolve_evar
  have hl := enumFrom_lookup NPat.evar 0 evs x
  cases hi : evs.idxOf? x with
  | none =>
    rw [hi] at hl
    simp only [h, kHas, hl, Option.isSome_none, Bool.not_false, if_true, kSet_new _ _ _ hl, kGet, Option.map_none,
      lookup_append_new _ _ _ hl, kLen, enumFrom_length, enumFrom_append, Nat.zero_add]
  | some i =>
    rw [hi] at hl
    simp only [h, kHas, hl, Option.map_some, Option.isSome_some, Bool.not_true, kGet, Nat.zero_add]
    rfl

/-! ## `_convert_sort`, `_convert_pattern` -/

/-- a result of the model (scope, value) as the result of the translated text on the scope object `ps` -/
def lift {α} (ps : PyScope) (o : Option (Scope × α)) : Py (PyScope × α) :=
  some (o.map fun r => (withScope ps r.1, r.2))

theorem call_lift {α β} (ps : PyScope) (o : Option (Scope × α)) (k : PyScope × α → Py β) :
    call (lift ps o) k = match o with
      | none => some none
      | some r => k (withScope ps r.1, r.2) := by
  cases o <;> rfl

theorem call_ret_val {α β} (a : α) (k : α → Py β) : call (ret a) k = k a := rfl

theorem symbolName_ksort (n : Nat) : NPat.sym (symbolName "ksort_" n) = sortSym n := by
  unfold symbolName sortSym; rfl
theorem symbolName_ksym (n : Nat) : NPat.sym (symbolName "ksym_" n) = symSym n := by
  unfold symbolName symSym; rfl
theorem valueName_eq (v : Nat) : NPat.sym (valueName v) = dvSym v := rfl

/-- `_convert_sort` is `convSort` -/
theorem convert_sort_eq (sem : PySem) (ps : PyScope) (sc : Scope) (s : KSort) :
    LanguageSemantics._convert_sort sem (withScope ps sc) s = lift ps (convSort sem.sg sc s) := by
  cases s with
  | var x =>
    simp only [LanguageSemantics._convert_sort, sortName, resolve_sort_param_metavar_eq, convSort, lift]
    rfl
  | app n =>
    simp only [LanguageSemantics._convert_sort, sortName, get_sort, convSort, lift, KSort.aml_symbol]
    by_cases h : sem.sg.sorts.contains n = true
    · simp only [h, if_true, call, ret, symbolName_ksort, Option.map_some]
    · simp only [h, call, raise, Option.map_none]; rfl

/-- the comprehension `[self._convert_sort(scope, sort) for sort in ksorts]` is `convSorts` -/
theorem convert_sorts_eq {β} (sem : PySem) (ps : PyScope) (ss : List KSort) (sc : Scope) (k : PyScope → List NPat → Py β) :
    mapS ss (withScope ps sc)
        (fun a_scope v_sort => call (LanguageSemantics._convert_sort sem a_scope v_sort) fun (a_scope, t) => ret (a_scope, t)) k
      = match convSorts sem.sg sc ss with
        | none => some none
        | some r => k (withScope ps r.1) r.2 := by
  induction ss generalizing sc k with
  | nil => rfl
  | cons s ss ih =>
    simp only [mapS, convSorts, convert_sort_eq, call_lift, Option.bind_eq_bind]
    cases convSort sem.sg sc s with
    | none => rfl
    | some r =>
      obtain ⟨sc1, p⟩ := r
      show mapS ss (withScope ps sc1) _ _ = _
      rw [ih]
      simp only [Option.bind_some, Option.pure_def]
      cases convSorts sem.sg sc1 ss <;> rfl

/-- `kl.<notation>(args…)` is `applyN "<label>" [args…]` -/
theorem kl_call {β} (lbl : String) (args : List NPat) (k : NPat → Py β) :
    (call (kl lbl) fun t => call (notationCall t args) k)
      = match applyN lbl args with
        | none => some none
        | some p => k p := by
  unfold kl applyN notationCall
  cases koreNotation lbl with
  | none => rfl
  | some r =>
    obtain ⟨d, a⟩ := r
    simp only [call, ret, Option.bind_eq_bind, Option.bind_some]
    cases applyDef d a args <;> rfl

/-- `ksymbol.app(*args)` -/
theorem symbol_app_call {β} (d : SymDecl) (args : List NPat) (k : NPat → Py β) :
    (call (KSymbol.app d) fun t => call (notationCall t args) k)
      = match (if d.isKseq then applyN "kore-kseq" args
               else applyDef (naryDef (symSym d.name) (d.nSortParams + d.nInputs)) (d.nSortParams + d.nInputs) args) with
        | none => some none
        | some p => k p := by
  unfold KSymbol.app nameIs
  cases hk : d.isKseq with
  | true =>
    simp only [beq_self_eq_true, Bool.and_self, if_true]
    have := kl_call "kore-kseq" args k
    simp only [call, ret] at this ⊢
    cases hkl : kl "kore-kseq" with
    | none => simp [hkl] at this ⊢; exact this
    | some o => cases o with
      | none => simp [hkl] at this ⊢; exact this
      | some nt => simp [hkl] at this ⊢; exact this
  | false =>
    simp only [Bool.and_false, Bool.false_eq_true, if_false, KSymbol.aml_symbol, call, ret, symbolName_ksym, nary_app,
      notationCall]
    cases applyDef _ _ args <;> rfl

theorem find_name {l : List SymDecl} {f : Nat} {d : SymDecl} (h : l.find? (·.name == f) = some d) : d.name = f := by
  have := List.find?_some h
  simpa using this

/-- `_convert_pattern` is `conv`, the comprehension over the arguments is `convList` -/
theorem convert_pattern_both (sem : PySem) (ps : PyScope) :
    (∀ t sc, LanguageSemantics._convert_pattern sem (withScope ps sc) t = lift ps (conv sem.sg sc t)) ∧
    (∀ ts sc, LanguageSemantics._convert_pattern.comp1 sem (withScope ps sc) ts = lift ps (convList sem.sg sc ts)) := by
  have step : ∀ {α β : Type} (o : Option (Scope × α)) (f : Scope × α → Option (Scope × β)) (g : Scope × α → Py (PyScope × β)),
      (∀ r, g r = lift ps (f r)) →
      (match o with | none => some none | some r => g r) = lift ps (o.bind f) := by
    intro α β o f g h
    cases o with
    | none => rfl
    | some r => simp only [Option.bind_some, h]
  have fin : ∀ (sc : Scope) (o : Option NPat),
      (match o with | none => (some none : Py (PyScope × NPat)) | some p => ret (withScope ps sc, p))
        = lift ps (o.bind fun p => some (sc, p)) := by
    intro sc o; cases o <;> rfl
  have main : ∀ t : KTerm, ∀ sc, LanguageSemantics._convert_pattern sem (withScope ps sc) t = lift ps (conv sem.sg sc t) := by
    intro t
    induction t using KTerm.rec
      (motive_2 := fun ts => ∀ sc, LanguageSemantics._convert_pattern.comp1 sem (withScope ps sc) ts = lift ps (convList sem.sg sc ts)) with
    | evar x =>
      intro sc
      simp only [LanguageSemantics._convert_pattern, conv, resolve_metavar_eq, lift]; rfl
    | nil => rfl
    | cons t ts iht ihts =>
      rename_i sc
      simp only [LanguageSemantics._convert_pattern.comp1, convList, iht, call_lift, Option.bind_eq_bind]
      apply step; intro r
      simp only [ihts, call_lift]
      cases convList sem.sg r.1 ts <;> rfl
    | app f ss as ih =>
      intro sc
      simp only [LanguageSemantics._convert_pattern, conv, get_symbol, Option.bind_eq_bind]
      cases hd : sem.sg.symbols.find? (·.name == f) with
      | none => rfl
      | some d =>
        simp only [call_ret_val, Option.bind_some, convert_sorts_eq]
        cases convSorts sem.sg sc ss with
        | none => rfl
        | some r =>
          simp only [Option.bind_some, ih, call_lift]
          cases convList sem.sg r.1 as with
          | none => rfl
          | some r2 =>
            simp only [Option.bind_some]
            rw [symbol_app_call, find_name hd]
            simp only [Option.pure_def]
            cases hk : d.isKseq with
            | true => simp only [if_true]; cases applyN "kore-kseq" (r.2 ++ r2.2) <;> rfl
            | false =>
              simp only [Bool.false_eq_true, if_false]
              cases applyDef (naryDef (symSym f) (d.nSortParams + d.nInputs)) (d.nSortParams + d.nInputs) (r.2 ++ r2.2) <;> rfl
    | dv s v =>
      intro sc
      simp only [LanguageSemantics._convert_pattern, conv, convert_sort_eq, call_lift, Option.bind_eq_bind, valueName_eq, kl_call]
      apply step; intro r
      cases applyN "kore-dv" [r.2, dvSym v] <;> rfl
    | top s =>
      intro sc
      simp only [LanguageSemantics._convert_pattern, conv, convert_sort_eq, call_lift, Option.bind_eq_bind, kl_call]
      apply step; intro r
      cases applyN "kore-top" [r.2] <;> rfl
    | bottom s =>
      intro sc
      simp only [LanguageSemantics._convert_pattern, conv, convert_sort_eq, call_lift, Option.bind_eq_bind, kl_call]
      apply step; intro r
      cases applyN "kore-bottom" [r.2] <;> rfl
    | not s p ih =>
      intro sc
      simp only [LanguageSemantics._convert_pattern, conv, convert_sort_eq, call_lift, Option.bind_eq_bind, kl_call]
      apply step; intro r
      simp only [ih, call_lift]
      apply step; intro r2
      cases applyN "kore-not" [r.2, r2.2] <;> rfl
    | next s p ih =>
      intro sc
      simp only [LanguageSemantics._convert_pattern, conv, convert_sort_eq, call_lift, Option.bind_eq_bind, kl_call]
      apply step; intro r
      simp only [ih, call_lift]
      apply step; intro r2
      cases applyN "kore-next" [r.2, r2.2] <;> rfl
    | and s l r ihl ihr =>
      intro sc
      simp only [LanguageSemantics._convert_pattern, conv, convert_sort_eq, call_lift, Option.bind_eq_bind, kl_call, assert_,
        beq_self_eq_true, if_true]
      apply step; intro r1
      simp only [ihl, call_lift]
      apply step; intro r2
      simp only [ihr, call_lift]
      apply step; intro r3
      cases applyN "kore-and" [r1.2, r2.2, r3.2] <;> rfl
    | or s l r ihl ihr =>
      intro sc
      simp only [LanguageSemantics._convert_pattern, conv, convert_sort_eq, call_lift, Option.bind_eq_bind, kl_call, assert_,
        beq_self_eq_true, if_true]
      apply step; intro r1
      simp only [ihl, call_lift]
      apply step; intro r2
      simp only [ihr, call_lift]
      apply step; intro r3
      cases applyN "kore-or" [r1.2, r2.2, r3.2] <;> rfl
    | implies s l r ihl ihr =>
      intro sc
      simp only [LanguageSemantics._convert_pattern, conv, convert_sort_eq, call_lift, Option.bind_eq_bind, kl_call]
      apply step; intro r1
      simp only [ihl, call_lift]
      apply step; intro r2
      simp only [ihr, call_lift]
      apply step; intro r3
      cases applyN "kore-implies" [r1.2, r2.2, r3.2] <;> rfl
    | iff s l r ihl ihr =>
      intro sc
      simp only [LanguageSemantics._convert_pattern, conv, convert_sort_eq, call_lift, Option.bind_eq_bind, kl_call]
      apply step; intro r1
      simp only [ihl, call_lift]
      apply step; intro r2
      simp only [ihr, call_lift]
      apply step; intro r3
      cases applyN "kore-iff" [r1.2, r2.2, r3.2] <;> rfl
    | rewrites s l r ihl ihr =>
      intro sc
      simp only [LanguageSemantics._convert_pattern, conv, convert_sort_eq, call_lift, Option.bind_eq_bind, kl_call]
      apply step; intro r1
      simp only [ihl, call_lift]
      apply step; intro r2
      simp only [ihr, call_lift]
      apply step; intro r3
      cases applyN "kore-rewrites" [r1.2, r2.2, r3.2] <;> rfl
    | ceil a b p ih =>
      intro sc
      simp only [LanguageSemantics._convert_pattern, conv, convert_sort_eq, call_lift, Option.bind_eq_bind, kl_call]
      apply step; intro r1
      apply step; intro r2
      simp only [ih, call_lift]
      apply step; intro r3
      cases applyN "kore-ceil" [r1.2, r2.2, r3.2] <;> rfl
    | floor a b p ih =>
      intro sc
      simp only [LanguageSemantics._convert_pattern, conv, convert_sort_eq, call_lift, Option.bind_eq_bind, kl_call]
      apply step; intro r1
      apply step; intro r2
      simp only [ih, call_lift]
      apply step; intro r3
      cases applyN "kore-floor" [r1.2, r2.2, r3.2] <;> rfl
    | equals a b l r ihl ihr =>
      intro sc
      simp only [LanguageSemantics._convert_pattern, conv, convert_sort_eq, call_lift, Option.bind_eq_bind, kl_call]
      apply step; intro r1
      apply step; intro r2
      simp only [ihl, call_lift]
      apply step; intro r3
      simp only [ihr, call_lift]
      apply step; intro r4
      cases applyN "kore-equals" [r1.2, r2.2, r3.2, r4.2] <;> rfl
    | kin a b l r ihl ihr =>
      intro sc
      simp only [LanguageSemantics._convert_pattern, conv, convert_sort_eq, call_lift, Option.bind_eq_bind, kl_call]
      apply step; intro r1
      apply step; intro r2
      simp only [ihl, call_lift]
      apply step; intro r3
      simp only [ihr, call_lift]
      apply step; intro r4
      cases applyN "kore-in" [r1.2, r2.2, r3.2, r4.2] <;> rfl
  refine ⟨main, ?_⟩
  intro ts
  induction ts with
  | nil => intro sc; rfl
  | cons t ts ih =>
    intro sc
    simp only [LanguageSemantics._convert_pattern.comp1, convList, main, call_lift, Option.bind_eq_bind]
    apply step; intro r
    simp only [ih, call_lift]
    cases convList sem.sg r.1 ts <;> rfl

theorem convert_pattern_rec_eq (sem : PySem) (ps : PyScope) (sc : Scope) (t : KTerm) :
    LanguageSemantics._convert_pattern sem (withScope ps sc) t = lift ps (conv sem.sg sc t) :=
  (convert_pattern_both sem ps).1 t sc

theorem convert_pattern_list_eq (sem : PySem) (ps : PyScope) (sc : Scope) (ts : List KTerm) :
    LanguageSemantics._convert_pattern.comp1 sem (withScope ps sc) ts = lift ps (convList sem.sg sc ts) :=
  (convert_pattern_both sem ps).2 ts sc

/-- `convert_pattern` (a fresh scope per call) is `convertPattern` -/
theorem convert_pattern_eq (sem : PySem) (t : KTerm) :
    LanguageSemantics.convert_pattern sem t = some (convertPattern sem.sg t) := by
  unfold LanguageSemantics.convert_pattern convertPattern
  show call (LanguageSemantics._convert_pattern sem ConvertionScope.__init__ t) _ = _
  rw [init_scope, convert_pattern_rec_eq, call_lift]
  cases conv sem.sg {} t <;> rfl

/-! ## `convert_substitutions` -/

theorem dictSet_model (acc : List (Nat × NPat)) (i : Nat) (p : NPat) (h : (acc.map (·.1)).Nodup) :
    dictSet acc i p
        = (if acc.any (·.1 == i) then acc.map (fun (k, v) => if k == i then (k, p) else (k, v)) else acc ++ [(i, p)])
      ∧ ((dictSet acc i p).map (·.1)).Nodup
      ∧ (∀ k, k ∈ (dictSet acc i p).map (·.1) → k = i ∨ k ∈ acc.map (·.1)) := by
  induction acc with
  | nil => simp [dictSet]
  | cons e r ih =>
    obtain ⟨k', v'⟩ := e
    simp only [List.map_cons, List.nodup_cons] at h
    obtain ⟨hk', hr⟩ := h
    obtain ⟨ih1, ih2, ih3⟩ := ih hr
    by_cases hk : k' = i
    · subst hk
      have hany : r.any (·.1 == k') = false := by
        rw [List.any_eq_false]; intro x hx
        have : x.1 ∈ r.map (·.1) := List.mem_map_of_mem hx
        simp only [beq_iff_eq]; intro he; rw [he] at this; exact hk' this
      have hmap : r.map (fun (x : Nat × NPat) => if x.1 == k' then (x.1, p) else (x.1, x.2)) = r := by
        have : ∀ x ∈ r, (fun (x : Nat × NPat) => if x.1 == k' then (x.1, p) else (x.1, x.2)) x = x := by
          intro x hx
          have hx1 : x.1 ∈ r.map (·.1) := List.mem_map_of_mem hx
          have hne : (x.1 == k') = false := by
            simp only [beq_eq_false_iff_ne]; intro he; rw [he] at hx1; exact hk' hx1
          simp [hne]
        calc r.map _ = r.map id := List.map_congr_left this
          _ = r := List.map_id r
      refine ⟨?_, ?_, ?_⟩
      · simp only [dictSet, if_true, List.any_cons, beq_self_eq_true, Bool.true_or, List.map_cons]
        rw [hmap]
      · simp only [dictSet, if_true, List.map_cons, List.nodup_cons]; exact ⟨hk', hr⟩
      · intro k hk; simp only [dictSet, if_true, List.map_cons, List.mem_cons] at hk ⊢
        rcases hk with h | h
        · exact Or.inl h
        · exact Or.inr (Or.inr h)
    · have hb : (k' == i) = false := by simpa using hk
      refine ⟨?_, ?_, ?_⟩
      · simp only [dictSet, hk, if_false, List.any_cons, hb, Bool.false_or, List.map_cons, ih1]
        split <;> simp
      · simp only [dictSet, hk, if_false, List.map_cons, List.nodup_cons]
        refine ⟨?_, ih2⟩
        intro hm
        rcases ih3 k' hm with h | h
        · exact hk h
        · exact hk' h
      · intro k hkm
        simp only [dictSet, hk, if_false, List.map_cons, List.mem_cons] at hkm ⊢
        rcases hkm with h | h
        · exact Or.inr (Or.inl h)
        · rcases ih3 k h with h | h
          · exact Or.inl h
          · exact Or.inr (Or.inr h)

/-- the `for var_name, kore_pattern in subst.items()` loop, for any body that does what one round of
`convertSubst` does (the generated body does: `convert_substitutions_eq`) -/
theorem subst_loop {β} (sem : PySem) (ps : PyScope) (ord : Nat)
    (body : Nat × KTerm → PyScope × PySem × Dict → (PyScope × PySem × Dict → Py β) → Py β)
    (hb : ∀ x t sc cache acc cont,
      body (x, t) (withScope ps sc, { sem with _cached_axiom_scopes := cache }, acc) cont
        = match sc.mvs.idxOf? x with
          | none => some none
          | some i => match conv sem.sg sc t with
            | none => some none
            | some r => cont (withScope ps r.1, { sem with _cached_axiom_scopes := kSet cache ord (withScope ps r.1) },
                dictSet acc i r.2)) :
    ∀ (σ : List (Nat × KTerm)) (sc : Scope) (cache : KDict PyScope) (acc : Dict) (k : PyScope × PySem × Dict → Py β),
      (acc.map (·.1)).Nodup → cache.lookup ord = some (withScope ps sc) →
      forEach σ (withScope ps sc, { sem with _cached_axiom_scopes := cache }, acc) body k
        = match convertSubst sem.sg sc σ acc with
          | none => some none
          | some r => k (withScope ps r.1, { sem with _cached_axiom_scopes := kSet cache ord (withScope ps r.1) }, r.2) := by
  intro σ
  induction σ with
  | nil =>
    intro sc cache acc k hacc hc
    simp only [forEach, convertSubst, kSet_same _ _ _ hc]
  | cons e σ ih =>
    intro sc cache acc k hacc hc
    obtain ⟨x, t⟩ := e
    simp only [forEach, convertSubst, hb, Option.bind_eq_bind]
    cases sc.mvs.idxOf? x with
    | none => rfl
    | some i =>
      simp only [Option.bind_some]
      cases conv sem.sg sc t with
      | none => rfl
      | some r =>
        obtain ⟨sc1, p⟩ := r
        obtain ⟨hm, hn, _⟩ := dictSet_model acc i p hacc
        simp only [Option.bind_some]
        rw [ih sc1 _ _ k hn (lookup_kSet _ _ _), ← hm]
        simp only [kSet_kSet]

/-- `convert_substitutions(subst, ordinal)` is `convertSubst` on the cached scope of the axiom; the scope
object in the cache is the one the conversion has extended (`KeyError` if the ordinal has no scope) -/
theorem convert_substitutions_eq (sem : PySem) (ps : PyScope) (sc : Scope) (σ : List (Nat × KTerm)) (ord : Nat)
    (hc : sem._cached_axiom_scopes.lookup ord = some (withScope ps sc)) :
    LanguageSemantics.convert_substitutions sem σ ord
      = match convertSubst sem.sg sc σ [] with
        | none => some none
        | some r => ret ({ sem with _cached_axiom_scopes := kSet sem._cached_axiom_scopes ord (withScope ps r.1) }, r.2) := by
  unfold LanguageSemantics.convert_substitutions
  simp only [kGet, hc, kItems]
  have key := fun body hb k => subst_loop (β := PySem × Dict) sem ps ord body hb σ sc sem._cached_axiom_scopes [] k (by simp) hc
  apply key
  · intro x t sc cache acc cont
    simp only [lookup_metavar_eq, convert_pattern_rec_eq, call_lift]
    cases sc.mvs.idxOf? x with
    | none => rfl
    | some i =>
      simp only [Option.map_some, call, mvName, mvN]
      cases conv sem.sg sc t <;> rfl

theorem convert_substitutions_no_scope (sem : PySem) (σ : List (Nat × KTerm)) (ord : Nat)
    (hc : sem._cached_axiom_scopes.lookup ord = none) :
    LanguageSemantics.convert_substitutions sem σ ord = some none := by
  unfold LanguageSemantics.convert_substitutions
  simp only [kGet, hc]; rfl

/-! ## `ExecutionProofExp`: `collect_functional_axioms`, `add_assumptions_for_rewrite_step`, `rewrite_event` -/

/-- the model's view of the Python object: what changes -/
def toSt (e : PyExec) : ExecSt :=
  { curr := e._curr_config, axioms := e._axioms, claims := e._claims, proofs := e._proof_expressions }
/-- the Python object after the model's state `st` (initial configuration and semantics stay) -/
def withSt (e : PyExec) (st : ExecSt) : PyExec :=
  { e with _curr_config := st.curr, _axioms := st.axioms, _claims := st.claims, _proof_expressions := st.proofs }

theorem toSt_withSt (e : PyExec) (st : ExecSt) : toSt (withSt e st) = st := rfl
theorem withSt_withSt (e : PyExec) (st st' : ExecSt) : withSt (withSt e st) st' = withSt e st' := rfl
theorem withSt_toSt (e : PyExec) : withSt e (toSt e) = e := rfl
theorem init_exec (sem : PySem) (init : NPat) : toSt (ExecutionProofExp.__init__ sem init) = initSt init := rfl

/-- what `collect_functional_axioms` does with one value of the substitution: the head of the application
spine must be the symbol of a declared functional Kore symbol; the result is `functional(p)` -/
def functionalAxiomF (sem : PySem) (n : Nat) (p : NPat) : Option (Option NPat) :=
  match spineF n p with
  | none => none
  | some (.sym s, _) =>
    (match resolve_to_ksymbol sem s with
     | some d => if d.isFunctional then some (functionalOf p) else some none
     | none => some none)
  | some _ => some none

/-- `collect_functional_axioms`: all checks first -/
def collectF (sem : PySem) (n : Nat) : List NPat → Option (Option (List NPat))
  | [] => some (some [])
  | p :: r =>
    match functionalAxiomF sem n p with
    | none => none
    | some none => some none
    | some (some f) =>
      match collectF sem n r with
      | none => none
      | some none => some none
      | some (some fs) => some (some (f :: fs))

/-- `add_assumptions`: then the axioms are added one by one -/
def addAllF (n : Nat) : List NPat → List NPat → Option (List NPat)
  | axs, [] => some axs
  | axs, f :: fs => (addAxiomF n axs f).bind fun a => addAllF n a fs

theorem addFunctionalF_cons (sem : PySem) (n : Nat) (axs : List NPat) (i : Nat) (p : NPat) (r : List (Nat × NPat)) :
    addFunctionalF sem.sg n axs ((i, p) :: r)
      = match functionalAxiomF sem n p with
        | none => none
        | some none => some none
        | some (some f) => (addAxiomF n axs f).bind fun a => addFunctionalF sem.sg n a r := by
  unfold functionalAxiomF resolve_to_ksymbol
  simp only [addFunctionalF, Option.bind_eq_bind]
  cases hs : spineF n p with
  | none => rfl
  | some ha =>
    obtain ⟨h, args⟩ := ha
    simp only [Option.bind_some]
    cases h <;> try rfl
    rename_i s
    simp only []
    split
    · cases hd : sem.sg.symbols.find? (·.name == (s - 2001) / 2) with
      | none => rfl
      | some d =>
        simp only []
        cases d.isFunctional with
        | false => rfl
        | true =>
          simp only [if_true]
          cases functionalOf p <;> rfl
    · rfl

/-- the model (check and add, entry by entry) against the Python order (all checks, then all additions):
they agree except that the model may already be out of fuel where the text raises -/
theorem addFunctionalF_phases (sem : PySem) (n : Nat) (σ : List (Nat × NPat)) (axs : List NPat) :
    match collectF sem n (σ.map (·.2)) with
    | none => addFunctionalF sem.sg n axs σ = none
    | some none => addFunctionalF sem.sg n axs σ = none ∨ addFunctionalF sem.sg n axs σ = some none
    | some (some fs) => addFunctionalF sem.sg n axs σ = (addAllF n axs fs).map some := by
  induction σ generalizing axs with
  | nil => simp [collectF, addFunctionalF, addAllF]
  | cons e r ih =>
    obtain ⟨i, p⟩ := e
    simp only [List.map_cons, collectF, addFunctionalF_cons]
    cases functionalAxiomF sem n p with
    | none => rfl
    | some o =>
      cases o with
      | none => exact Or.inr rfl
      | some f =>
        simp only []
        cases hc : collectF sem n (r.map (·.2)) with
        | none =>
          simp only []
          cases addAxiomF n axs f with
          | none => rfl
          | some a => have := ih a; rw [hc] at this; simpa using this
        | some o2 =>
          cases o2 with
          | none =>
            simp only []
            cases addAxiomF n axs f with
            | none => exact Or.inl rfl
            | some a => have := ih a; rw [hc] at this; simpa using this
          | some fs =>
            simp only [addAllF]
            cases addAxiomF n axs f with
            | none => rfl
            | some a => have := ih a; rw [hc] at this; simpa using this

theorem collect_loop {β} (sem : PySem) (n : Nat)
    (body : NPat → List ConvertedAxiom → (List ConvertedAxiom → Py β) → Py β)
    (hb : ∀ p acc cont, body p acc cont
      = match functionalAxiomF sem n p with
        | none => none
        | some none => some none
        | some (some f) => cont (acc ++ [ConvertedAxiom.mk .FunctionalSymbol f])) :
    ∀ (ps : List NPat) (acc : List ConvertedAxiom) (k : List ConvertedAxiom → Py β),
      forEach ps acc body k
        = match collectF sem n ps with
          | none => none
          | some none => some none
          | some (some fs) => k (acc ++ fs.map (ConvertedAxiom.mk .FunctionalSymbol)) := by
  intro ps
  induction ps with
  | nil => intro acc k; simp [forEach, collectF]
  | cons p r ih =>
    intro acc k
    simp only [forEach, collectF, hb]
    cases functionalAxiomF sem n p with
    | none => rfl
    | some o => cases o with
      | none => rfl
      | some f =>
        simp only [ih]
        cases collectF sem n r with
        | none => rfl
        | some o => cases o with
          | none => rfl
          | some fs => simp [List.append_assoc]

/-- the exception in `addFunctionalF_phases` (and so in `rewrite_event_eq`) is real: with fuel 2, an axiom list
`[q]` whose comparison with `functional(ksym_0)` needs more fuel, and a substitution whose second value is a
non-functional symbol, the model is out of fuel and the Python order raises (with fuel 40 both raise) -/
theorem phases_exception_is_real :
    ∃ (sem : PySem) (n : Nat) (σ : List (Nat × NPat)) (axs : List NPat),
      addFunctionalF sem.sg n axs σ = none ∧ collectF sem n (σ.map (·.2)) = some none ∧
      addFunctionalF sem.sg 40 axs σ = some none :=
  ⟨{ sg := { sorts := [0], symbols := [{ name := 0, nSortParams := 0, nInputs := 0, isFunctional := true },
                                        { name := 1, nSortParams := 0, nInputs := 0 }] }, _cached_axiom_scopes := [] },
   2, [(0, symSym 0), (1, symSym 1)], [.inst (.inst (.inst (.inst (.inst (.sym 7) []) []) []) []) []],
   by rfl, by rfl, by rfl⟩

/-- `collect_functional_axioms` is `collectF` -/
theorem collect_functional_axioms_eq (n : Nat) (sem : PySem) (σ : Dict) :
    ExecutionProofExp.collect_functional_axioms n sem σ
      = (collectF sem n (σ.map (·.2))).map (Option.map fun fs => fs.map (ConvertedAxiom.mk .FunctionalSymbol)) := by
  unfold ExecutionProofExp.collect_functional_axioms deltaValues
  rw [collect_loop sem n]
  · cases collectF sem n (σ.map (·.2)) with
    | none => rfl
    | some o => cases o with
      | none => rfl
      | some fs => simp [ret]
  · intro p acc cont
    simp only [functionalAxiomF, deconstruct_nary_application, fuel]
    cases spineF n p with
    | none => rfl
    | some ha =>
      obtain ⟨h, args⟩ := ha
      cases h <;> try rfl
      rename_i s
      simp only []
      cases resolve_to_ksymbol sem s with
      | none => rfl
      | some d =>
        simp only [assert_]
        cases d.isFunctional with
        | false => rfl
        | true =>
          simp only [if_true, functional]
          cases functionalOf p <;> rfl

theorem map_pattern_mk (fs : List NPat) :
    List.map ((fun v : ConvertedAxiom => v.pattern) ∘ ConvertedAxiom.mk AxiomType.FunctionalSymbol) fs = fs := by
  induction fs with
  | nil => rfl
  | cons f fs ih => simp only [List.map_cons, Function.comp_apply, ih]

theorem add_assumptions_eq (n : Nat) (e : PyExec) (fs : List NPat) :
    add_assumptions n e fs = (addAllF n e._axioms fs).map fun a => some { e with _axioms := a } := by
  induction fs generalizing e with
  | nil => rfl
  | cons f fs ih =>
    simp only [add_assumptions, add_axiom, addAllF, fuel]
    cases addAxiomF n e._axioms f with
    | none => rfl
    | some a => simp only [call_ret_val, ih, Option.bind_some]

theorem kore_rewrites_arity : (koreNotation "kore-rewrites").map (·.2) = some 3 := by decide +kernel

theorem notationMatchesF_length {n : Nat} {d : NPat} {ar : Nat} {p : NPat} {l : List NPat}
    (h : NPat.notationMatchesF n d ar p = some (some l)) : l.length = ar := by
  unfold NPat.notationMatchesF at h
  simp only [Option.bind_eq_bind, Option.bind_eq_some_iff] at h
  obtain ⟨o, _, ho⟩ := h
  cases o with
  | none => simp at ho
  | some s => simp at ho; subst ho; simp

/-- the proof expression of a step: the loaded axiom, instantiated unless the substitution is empty -/
def stepPf (rule : NPat) (σ : Dict) : Pf := if σ.isEmpty then .loadAxiom rule else .dynInst (.loadAxiom rule) σ

/-- a result of the model as the result of `rewrite_event` on the object `e` -/
def liftE (e : PyExec) (pf : Pf) (m : Option (Option ExecSt)) : Py (PyExec × Pf) :=
  m.map (Option.map fun st => (withSt e st, pf))

/-- `rewrite_event` is `rewriteEventF`: equal results, except that the model (which adds each functional
assumption right after checking it) may be out of fuel where the text (which checks all of them first) raises -/
theorem rewrite_event_eq (n : Nat) (e : PyExec) (rule : PyRule) (σ : Dict) :
    ExecutionProofExp.rewrite_event n e rule σ
        = liftE e (stepPf rule.pattern σ) (rewriteEventF e.language_semantics.sg n (toSt e) rule.pattern σ)
      ∨ (rewriteEventF e.language_semantics.sg n (toSt e) rule.pattern σ = none
          ∧ ExecutionProofExp.rewrite_event n e rule σ = some none) := by
  unfold ExecutionProofExp.rewrite_event rewriteEventF
  simp only [fuel, Option.bind_eq_bind]
  cases instF_h : NPat.instF n σ rule.pattern with
  | none => exact Or.inl rfl
  | some inst =>
    simp only [Option.bind_some, kl]
    have har := kore_rewrites_arity
    cases hk : koreNotation "kore-rewrites" with
    | none => exact Or.inl rfl
    | some da =>
      obtain ⟨d, ar⟩ := da
      rw [hk] at har
      simp only [Option.map_some, Option.some.injEq] at har
      subst har
      simp only [call_ret_val, MatchTie.assert_matches_eq]
      cases hm : NPat.notationMatchesF n d 3 inst with
      | none => exact Or.inl rfl
      | some o =>
        cases o with
        | none => exact Or.inl rfl
        | some l =>
          have hl := notationMatchesF_length hm
          match l, hl with
          | [a0, lhs, rhs], _ =>
            simp only [call, tupleIndex, List.getElem?_cons_succ, List.getElem?_cons_zero, ExecutionProofExp.current_configuration,
              ret, Option.bind_some, toSt]
            cases NPat.peqF n lhs e._curr_config with
            | none => exact Or.inl rfl
            | some b =>
              cases b with
              | false => exact Or.inl rfl
              | true =>
                simp only [assert_, if_true, Bool.not_true, Bool.false_eq_true, if_false,
                  ExecutionProofExp.add_assumptions_for_rewrite_step, collect_functional_axioms_eq]
                have hph := addFunctionalF_phases e.language_semantics n σ e._axioms
                cases hc : collectF e.language_semantics n (σ.map (·.2)) with
                | none =>
                  rw [hc] at hph
                  simp only [hph]
                  exact Or.inl rfl
                | some o2 =>
                  cases o2 with
                  | none =>
                    rw [hc] at hph
                    rcases hph with h | h
                    · simp only [h]; exact Or.inr ⟨rfl, rfl⟩
                    · simp only [h]; exact Or.inl rfl
                  | some fs =>
                    rw [hc] at hph
                    have hmap := map_pattern_mk fs
                    simp only [hph, Option.map_some, call, List.map_map, hmap, add_assumptions_eq]
                    cases addAllF n e._axioms fs with
                    | none => exact Or.inl rfl
                    | some axs1 =>
                      simp only [Option.map_some, Option.bind_some, add_axiom, fuel]
                      cases addAxiomF n axs1 rule.pattern with
                      | none => exact Or.inl rfl
                      | some axs2 => exact Or.inl rfl

/-- whenever the model answers (is not out of fuel), `rewrite_event` answers the same -/
theorem rewrite_event_of_model (n : Nat) (e : PyExec) (rule : PyRule) (σ : Dict) (r : Option ExecSt)
    (h : rewriteEventF e.language_semantics.sg n (toSt e) rule.pattern σ = some r) :
    ExecutionProofExp.rewrite_event n e rule σ = some (r.map fun st => (withSt e st, stepPf rule.pattern σ)) := by
  rcases rewrite_event_eq n e rule σ with h1 | ⟨h1, _⟩
  · rw [h1, h]; rfl
  · rw [h] at h1; cases h1

/-- whenever `rewrite_event` succeeds, the model succeeds with the same state -/
theorem rewrite_event_success (n : Nat) (e e' : PyExec) (rule : PyRule) (σ : Dict) (pf : Pf)
    (h : ExecutionProofExp.rewrite_event n e rule σ = some (some (e', pf))) :
    ∃ st, rewriteEventF e.language_semantics.sg n (toSt e) rule.pattern σ = some (some st) ∧
      e' = withSt e st ∧ pf = stepPf rule.pattern σ := by
  rcases rewrite_event_eq n e rule σ with h1 | ⟨_, h1⟩
  · rw [h] at h1
    cases hm : rewriteEventF e.language_semantics.sg n (toSt e) rule.pattern σ with
    | none => rw [hm] at h1; cases h1
    | some o => cases o with
      | none => rw [hm] at h1; cases h1
      | some st =>
        rw [hm] at h1
        simp only [liftE, Option.map_some, Option.some.injEq, Prod.mk.injEq] at h1
        exact ⟨st, rfl, h1.1, h1.2⟩
  · rw [h] at h1; cases h1

/-! ## `from_proof_hints` -/

/-- the step of the model that a hint stands for: the rule's pattern and the converted substitution -/
def stepOf (h : PyHint) : NPat × Dict :=
  (match h.«axiom» with | .rewriting r => r.pattern | .equational r => r.pattern, h.substitutions)

def AllRewriting (hints : List PyHint) : Prop := ∀ h ∈ hints, ∃ r, h.«axiom» = .rewriting r

/-- the `for hint in hints` loop once the proof expression exists, for any body that does what the generated one does -/
theorem trace_loop {β} (n : Nat) (sem : PySem)
    (body : PyHint → Option PyExec → (Option PyExec → Py β) → Py β)
    (hb : ∀ h o cont, body h o cont
      = match h.«axiom» with
        | .rewriting r =>
          call (ExecutionProofExp.rewrite_event n (o.getD (ExecutionProofExp.__init__ sem h.configuration_before)) r h.substitutions)
            fun x => cont (some x.1)
        | .equational _ => some none) :
    ∀ (hints : List PyHint) (e : PyExec) (k : Option PyExec → Py β), AllRewriting hints →
      forEach hints (some e) body k
          = (match traceF e.language_semantics.sg n (toSt e) (hints.map stepOf) with
             | none => none
             | some none => some none
             | some (some st) => k (some (withSt e st)))
        ∨ (traceF e.language_semantics.sg n (toSt e) (hints.map stepOf) = none ∧ forEach hints (some e) body k = some none) := by
  intro hints
  induction hints with
  | nil => intro e k _; exact Or.inl rfl
  | cons h hs ih =>
    intro e k hall
    obtain ⟨r, hr⟩ := hall h (List.mem_cons_self ..)
    have hall' : AllRewriting hs := fun x hx => hall x (List.mem_cons_of_mem _ hx)
    simp only [forEach, hb, hr, Option.getD_some, List.map_cons, stepOf, traceF, Option.bind_eq_bind]
    rcases rewrite_event_eq n e r h.substitutions with h1 | ⟨h1, h2⟩
    · rw [h1]
      cases rewriteEventF e.language_semantics.sg n (toSt e) r.pattern h.substitutions with
      | none => exact Or.inl rfl
      | some o =>
        cases o with
        | none => exact Or.inl rfl
        | some st' =>
          simp only [liftE, Option.map_some, call, Option.bind_some]
          rcases ih (withSt e st') k hall' with h3 | ⟨h3, h4⟩
          · exact Or.inl h3
          · exact Or.inr ⟨h3, h4⟩
    · rw [h1, h2]; exact Or.inr ⟨rfl, rfl⟩

theorem from_proof_hints_nil (n : Nat) (sem : PySem) : ExecutionProofExp.from_proof_hints n [] sem = ret none := rfl

/-- the whole loop, starting without a proof expression: the first hint creates it from its `configuration_before` -/
theorem trace_from_none (n : Nat) (sem : PySem) (h0 : PyHint) (hs : List PyHint) (hall : AllRewriting (h0 :: hs))
    (body : PyHint → Option PyExec → (Option PyExec → Py (Option PyExec)) → Py (Option PyExec))
    (k : Option PyExec → Py (Option PyExec))
    (hb : ∀ h o cont, body h o cont
      = match h.«axiom» with
        | .rewriting r =>
          call (ExecutionProofExp.rewrite_event n (o.getD (ExecutionProofExp.__init__ sem h.configuration_before)) r h.substitutions)
            fun x => cont (some x.1)
        | .equational _ => some none)
    (hk : ∀ x, k (some x) = ret (some x)) :
    forEach (h0 :: hs) none body k
        = (match traceF sem.sg n (initSt h0.configuration_before) ((h0 :: hs).map stepOf) with
           | none => none
           | some none => some none
           | some (some st) => ret (some (withSt (ExecutionProofExp.__init__ sem h0.configuration_before) st)))
      ∨ (traceF sem.sg n (initSt h0.configuration_before) ((h0 :: hs).map stepOf) = none
          ∧ forEach (h0 :: hs) none body k = some none) := by
  have hfirst : forEach (h0 :: hs) none body k
      = forEach (h0 :: hs) (some (ExecutionProofExp.__init__ sem h0.configuration_before)) body k := by
    simp only [forEach, hb]; rfl
  rw [hfirst]
  have := trace_loop n sem body hb (h0 :: hs) (ExecutionProofExp.__init__ sem h0.configuration_before) k hall
  simp only [init_exec, hk] at this
  exact this

/-- `from_proof_hints` is `traceF` from the configuration before the first hint (same caveat about fuel as
`rewrite_event_eq`); the result is the proof expression created by the first hint, in the model's final state -/
theorem from_proof_hints_eq (n : Nat) (sem : PySem) (h0 : PyHint) (hs : List PyHint) (hall : AllRewriting (h0 :: hs)) :
    ExecutionProofExp.from_proof_hints n (h0 :: hs) sem
        = (match traceF sem.sg n (initSt h0.configuration_before) ((h0 :: hs).map stepOf) with
           | none => none
           | some none => some none
           | some (some st) => ret (some (withSt (ExecutionProofExp.__init__ sem h0.configuration_before) st)))
      ∨ (traceF sem.sg n (initSt h0.configuration_before) ((h0 :: hs).map stepOf) = none
          ∧ ExecutionProofExp.from_proof_hints n (h0 :: hs) sem = some none) := by
  unfold ExecutionProofExp.from_proof_hints
  apply trace_from_none n sem h0 hs hall
  · intro h o cont
    cases o <;> (dsimp only; cases h.«axiom» <;> rfl)
  · intro x; rfl

/-- an equational rule in a hint is refused (`NotImplementedError`) -/
theorem from_proof_hints_equational (n : Nat) (sem : PySem) (h0 : PyHint) (hs : List PyHint) (r : PyRule)
    (h : h0.«axiom» = .equational r) : ExecutionProofExp.from_proof_hints n (h0 :: hs) sem = some none := by
  unfold ExecutionProofExp.from_proof_hints
  simp only [forEach, h]
  rfl

/-! ## the assertion of `load_axiom` that the primitive of `Pi2/KoreSupport.lean` leaves out -/

theorem memF_append_false (n : Nat) (p : NPat) (axs : List NPat) (q : NPat) (h : Kore.memF n p axs = some false) :
    Kore.memF n p (axs ++ [q]) = (NPat.peqF n q p).bind fun b => some b := by
  induction axs with
  | nil =>
    simp only [List.nil_append, Kore.memF, Option.bind_eq_bind]
    cases NPat.peqF n q p with
    | none => rfl
    | some b => cases b <;> rfl
  | cons a r ih =>
    simp only [Kore.memF, List.cons_append, Option.bind_eq_bind] at h ⊢
    cases hp : NPat.peqF n a p with
    | none => simp [hp] at h
    | some b =>
      cases b with
      | true => simp [hp] at h
      | false =>
        simp only [hp, Option.bind_some, Bool.false_eq_true, if_false] at h ⊢
        exact ih h

/-- `assert axiom_term in self._axioms` in `load_axiom(rule.pattern)` cannot fail right after
`add_axiom(rule.pattern)`: the membership test answers `True` (or runs out of fuel) -/
theorem load_axiom_guard (n : Nat) (axs axs' : List NPat) (p : NPat) (hp : p.Shape = true)
    (h : addAxiomF n axs p = some axs') : Kore.memF n p axs' ≠ some false := by
  unfold addAxiomF at h
  simp only [Option.bind_eq_bind] at h
  cases hm : Kore.memF n p axs with
  | none => simp [hm] at h
  | some b =>
    cases b with
    | true =>
      simp only [hm, Option.bind_some, if_true, Option.pure_def, Option.some.injEq] at h
      subst h; simp [hm]
    | false =>
      simp only [hm, Option.bind_some, Bool.false_eq_true, if_false, Option.pure_def, Option.some.injEq] at h
      subst h
      rw [memF_append_false n p axs p hm]
      cases hq : NPat.peqF n p p with
      | none => simp
      | some r => have := NPat.peqF_refl n p r hp hq; subst this; simp

#print axioms translated
#print axioms resolve_metavar_eq
#print axioms resolve_sort_param_metavar_eq
#print axioms lookup_metavar_eq
#print axioms lookup_sort_param_metavar_eq
#print axioms resolve_evar_eq
#print axioms convert_sort_eq
#print axioms convert_pattern_both
#print axioms convert_pattern_eq
#print axioms convert_substitutions_eq
#print axioms convert_substitutions_no_scope
#print axioms collect_functional_axioms_eq
#print axioms addFunctionalF_phases
#print axioms phases_exception_is_real
#print axioms rewrite_event_eq
#print axioms rewrite_event_of_model
#print axioms rewrite_event_success
#print axioms from_proof_hints_nil
#print axioms from_proof_hints_eq
#print axioms from_proof_hints_equational
#print axioms load_axiom_guard
end KoreTie
