import Pi2.Codec
/-!
# Diagnostics (not part of any proof): *why* the reference machine rejects

Used by the checks to classify a generator/checker disagreement by the first rejection reason of
the reference machine (DESIGN.md §5 C02/C04: known-finding classes).
-/
open Pat

namespace Diag

/-- does instantiation fail because of a constraint, or because a resolved substitution captures? -/
partial def instReason (θ : VId → Option Pat) (p : Pat) : String :=
  match p with
  | .mv id ef sf ps ns _ =>
      match θ id with
      | some q => if okPlug ef sf ps ns q then "?" else "constraint"
      | none => "?"
  | .imp l r | .app l r =>
      match inst θ l with
      | none => instReason θ l
      | some _ => instReason θ r
  | .ex _ q | .mu _ q => instReason θ q
  | .esub q _ plug | .ssub q _ plug =>
      match inst θ q, inst θ plug with
      | none, _ => instReason θ q
      | _, none => instReason θ plug
      | some _, some _ => "capture"
  | _ => "?"

def why (ph : Phase) (s : St) : Instr → String
  | .metavar _ ef _ _ _ holes => if holes.any (ef.contains ·) then "mvWF" else "?"
  | .mu x => match s.stack with
      | .pat p :: _ => if p.pos x then "?" else "muNotPositive"
      | _ => "stack"
  | .esubst x => match s.stack with
      | .pat p :: .pat plug :: _ =>
          if !(isMeta p) then "substWF" else if plug == evar x || p.eFresh x then "redundantSubst" else "?"
      | _ => "stack"
  | .ssubst x => match s.stack with
      | .pat p :: .pat plug :: _ =>
          if !(isMeta p) then "substWF" else if plug == svar x || p.sFresh x then "redundantSubst" else "?"
      | _ => "stack"
  | .mp => match s.stack with
      | .proved p2 :: .proved (imp l _) :: _ => if l = p2 then "?" else "mpMismatch"
      | .proved _ :: .proved _ :: _ => "notImplication"
      | _ => "stack"
  | .gen x => match s.stack with
      | .proved (imp _ r) :: _ => if r.eFresh x then "?" else "genNotFresh"
      | .proved _ :: _ => "notImplication"
      | _ => "stack"
  | .subst _ => match s.stack with
      | .proved _ :: .pat _ :: _ => "capture"
      | _ => "stack"
  | .instantiate ids => match s.stack with
      | .pat p :: st | .proved p :: st =>
          match popPats ids.length st with
          | none => "stack"
          | some (plugs, _) => instReason (lookupPlug ids plugs) p
      | _ => "stack"
  | .load i => if s.memory.length ≤ i then "badIndex" else "?"
  | .publish => match ph with
      | .proof => match s.stack, s.claims with
          | .proved t :: _, c :: _ => if c = t then "?" else "claimMismatch"
          | _, [] => "noClaim"
          | _, _ => "stack"
      | _ => "stack"
  | _ => "stack"

/-- run and report where and why it stops: `(index, reason)` -/
def runWhy (ph : Phase) : St → List Instr → Nat → Sum (St) (Nat × String)
  | s, [], _ => .inl s
  | s, i :: is, k =>
      match step ph s i with
      | some (s', _) => runWhy ph s' is (k + 1)
      | none => .inr (k, why ph s i)

end Diag
