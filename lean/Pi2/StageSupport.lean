import Pi2.LemmaThm
import Pi2.Gen.Lemmas
import Pi2.TautSupport
/-!
# What the generated stage functions WITH their proof objects (`Pi2/Gen/StageProofs.lean`, written by
`vlib/transstage.py`) are expressed in

Hand-written and deliberately tiny.  The generated functions are the stage functions of `tautology.py` read a second
time: the data part exactly as in `Pi2/Gen/PyTaut.lean` (same translator, same primitives `Pi2/TautSupport.lean`), and
every `ProofThunk` expression — dropped there — translated over an abstract algebra of thunks:

* `SAlg τ` = `Lem.Alg τ` (conclusion, `modus_ponens`, the instantiated axiom schemas — what the library lemmas of
  `Pi2/Gen/Lemmas.lean` are interpreted over) plus `inst`, the `dynamic_inst(pf, delta)` of a thunk;
* `lib A i ps ts` = the call `self.<lemma i>(ps.., ts..)` of a library lemma: entry `i` of `Lem.sem A Gen.lemmaDefs`
  (`none` = the construction raises);
* `algCS` (conclusions only: what `ProofThunk.conc` computes) and `algGS` (proof trees with the evidence `Pf.Sem` that
  they mean their conclusion) extend `Lem.algC` / `Lem.algG`.

PATTERNS.  As in `Pi2/Lemma.lean`, proof-side patterns are notation-free (`Pat`); a data-side pattern (`Form`, the
representation of `Pi2/TautSupport.lean`) enters a proof expression through `toPat` (⊥ ↦ `μX.X`, metavariable ↦ `phi`,
implication).  `matchSingle` is `match_single(pattern, instance, {})` of `pattern.py` read on expansions (ASSUMPTION as in
`Pi2/Lemma.lean`: the operations commute with expansion — `Pi2/MatchThm.lean`, `Pi2/NotationThm.lean` — and `==` of the
real code is equality of expansions); a metavariable of the pattern with side conditions is outside the fragment (the
library schemas have none): `none`.
-/
open Pat

namespace StageSup
open Lem

abbrev Subst := List (Nat × Pat)

/-- an algebra of thunks with `dynamic_inst` -/
structure SAlg (τ : Type) extends Lem.Alg τ where
  inst : τ → Subst → τ

/-- `self.<library lemma i>(ps.., ts..)` -/
def lib {τ} (A : SAlg τ) (i : Nat) (ps : List Pat) (ts : List τ) : Option τ :=
  match (Lem.sem A.toAlg Gen.lemmaDefs)[i]? with
  | some f => f ps ts
  | none => none

/-- `dynamic_inst(pf, delta)` on conclusions: `if not delta: return pf`, else `pf.conc.instantiate(delta)` -/
def instC (c : Pat) (δ : Subst) : Pat := if δ.isEmpty then c else instP δ c

/-- conclusions only -/
def algCS : SAlg Pat := { Lem.algC with inst := instC }

theorem sem_dynInst {pf : Pf} {A : Pat} (δ : Subst) (h : Pf.Sem pf A) :
    Pf.Sem (.dynInst pf (δ.map fun (i, p) => (i, NPat.ofPat p))) (instP δ A) := by
  have := Pf.Sem.dynInst (δ := δ.map fun (i, p) => (i, NPat.ofPat p)) h
  rw [expandMap_ofPat] at this
  exact this

/-- `dynamic_inst(pf, delta)` on proof trees -/
def instG (t : GTh) (δ : Subst) : GTh :=
  if δ.isEmpty then t else ⟨.dynInst t.pf (δ.map fun (i, p) => (i, NPat.ofPat p)), instP δ t.conc, sem_dynInst δ t.ok⟩

/-- proof trees carrying the evidence that they mean their conclusion -/
def algGS : SAlg GTh := { Lem.algG with inst := instG }

theorem instG_conc (t : GTh) (δ : Subst) : (instG t δ).conc = instC t.conc δ := by
  unfold instG instC
  split <;> rfl

/-! ## patterns -/

/-- a data-side pattern inside a proof expression -/
def toPat : Form → Pat
  | .bot => Lem.botP
  | .var n => phi n
  | .imp a b => .imp (toPat a) (toPat b)

/-- `MetaVar(i)` (`i` a Python `int`) -/
def mvP (i : Int) : Pat := phi i.toNat

/-- `Implies.extract(p)` (`AssertionError` when `p` is not an implication) -/
def extractImp : Pat → Option (Pat × Pat)
  | .imp a b => some (a, b)
  | _ => none

/-- `_and.assert_matches(p)` -/
def assertAnd (p : Pat) : Option (Pat × Pat) :=
  match matchNotn .and p with
  | some [a, b] => some (a, b)
  | _ => none

/-- `_or.assert_matches(p)` -/
def assertOr (p : Pat) : Option (Pat × Pat) :=
  match matchNotn .or p with
  | some [a, b] => some (a, b)
  | _ => none

/-- `neg.assert_matches(p)[0]` -/
def assertNeg (p : Pat) : Option Pat :=
  match matchNotn .neg p with
  | some [a] => some a
  | _ => none

/-- `xs[:i]` -/
def pySliceTo {α : Type} (xs : List α) (i : Int) : List α :=
  if 0 ≤ i then xs.take i.toNat else xs.take (xs.length - (-i).toNat)

/-- `match_single(pattern, instance, ret)` on expansions; `none` = Python's `None` -/
def matchP : Pat → Pat → Subst → Option Subst
  | .mv id ef sf ps ns hs, ins, ret =>
      if ef.isEmpty && sf.isEmpty && ps.isEmpty && ns.isEmpty && hs.isEmpty then
        match Py.lookup ret id with
        | some v => if v = ins then some ret else none
        | none => some (ret ++ [(id, ins)])
      else none
  | .imp pl pr, .imp il ir, ret =>
      match matchP pl il ret with
      | some r1 => matchP pr ir r1
      | none => none
  | .evar x, .evar y, ret => if x = y then some ret else none
  | .svar x, .svar y, ret => if x = y then some ret else none
  | .sym x, .sym y, ret => if x = y then some ret else none
  | .app pl pr, .app il ir, ret =>
      match matchP pl il ret with
      | some r1 => matchP pr ir r1
      | none => none
  | .ex x pb, .ex y ib, ret => if x = y then matchP pb ib ret else none
  | .mu x pb, .mu y ib, ret => if x = y then matchP pb ib ret else none
  | _, _, _ => none

/-- `match_single(pattern, instance, {})` -/
def matchSingle (pattern ins : Pat) (ext : Subst) : Option Subst := matchP pattern ins ext

end StageSup
