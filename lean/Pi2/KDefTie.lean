import Pi2.Gen.PyKDef
import Pi2.KDefSpec
import Pi2.KoreTie
/-!
# The construction of a `LanguageSemantics` and the reading of proof hints, as written in Python, are the specification's

`Pi2/Gen/PyKDef.lean` is regenerated from `k/kore_convertion/language_semantics.py` (builder classes, `from_kore_definition`,
`get_axiom / get_sort / get_symbol / resolve_to_ksymbol`) and `k/kore_convertion/rewrite_steps.py` (`get_proof_hints`) on every
run (`vlib/transkdef.py`).  Here the generated functions are proved equal to `Pi2/KDefSpec.lean` on the fragment of
ONE-MODULE definitions that do not import themselves (`InFragment`), for every fuel `≥ 2` and every valid set order.

* the store of a one-module semantics is `heapOf pL pM r` for a refined state `r : RSt` (the sorts with their `hooked` flags,
  the `KSymbol` objects, the rules with ordinals and scopes, the counter); `stepR` is one sentence, `stepR_spec` / `stepsR_spec`
  relate it to `KDefSpec.addSentence` (`proj`);
* `sentence_step`: the body of the loop over the sentences is `stepR`; `from_kore_definition_eq`: the whole function;
* `get_axiom_eq`, `get_sort_eq`, `get_symbol_eq`, `resolve_to_ksymbol_eq` and the views `get_sort_view`, `get_symbol_view`,
  `resolve_to_ksymbol_view` (the hand-written primitives of `Pi2/KoreSupport.lean` on `semView` are the translated functions);
* `get_proof_hints_eq`: the hint stream is `KDefSpec.traceSteps`; `k_pipeline`: definition + hint stream ⟼ `traceF`;
* `module_shares_counter` (beyond one module): a later module gets the counter object of the main module.
-/
set_option linter.unusedVariables false
set_option linter.unusedSimpArgs false
namespace KDefTie
open PyI PyM PyK Kore Gen.PyKDef KDefSpec

theorem translated : Gen.PyKDef.translated = true := by decide

/-! ## the store of a one-module semantics -/

/-- the refined state of the one module under construction -/
structure RSt where
  name : Nat
  sorts : List (Nat × Bool)
  symbols : List PyKSymbol
  rules : List Rule
  nAxioms : Nat

def axiomOf (r : Rule) : PyAxiom :=
  match r.kind with
  | .rewrite => .rewriting ⟨r.ordinal, r.pattern⟩
  | .equational => .equational ⟨r.ordinal, r.pattern⟩

/-- the scope object cached for a rule: the dictionaries of `KoreTie.withScope` on a fresh `ConvertionScope` -/
def scopeObj (sc : Scope) : PyScope := KoreTie.withScope Gen.PyKore.ConvertionScope.__init__ sc

def sortsDict (r : RSt) : KDict PyKSortH := r.sorts.map fun e => (e.1, ⟨e.1, e.2⟩)
def symbolsDict (r : RSt) : KDict PyKSymbol := r.symbols.map fun s => (s.name, s)
def axiomsDict (rules : List Rule) : KDict PyAxiom := rules.map fun ru => (ru.ordinal, axiomOf ru)
def scopesDict (rules : List Rule) : KDict PyScope := rules.map fun ru => (ru.ordinal, scopeObj ru.scope)

/-- the one module (reference 0) with these dictionaries -/
abbrev rawMod (pM : Option Bool) (name : Nat) (so : KDict PyKSortH) (sy : KDict PyKSymbol) (ax : KDict PyAxiom) : PyKModule :=
  { _name := name, counter := 0, _parsing := pM, _imported_modules := [], _sorts := so, _symbols := sy, _axioms := ax }

/-- the store: the semantics object, its one module (reference 0), the one counter (reference 0) -/
abbrev rawHeap (pL pM : Option Bool) (name : Nat) (so : KDict PyKSortH) (sy : KDict PyKSymbol) (ax : KDict PyAxiom)
    (sc : KDict PyScope) (cnt : Nat) : PyLS :=
  { _parsing := pL, _imported_modules := [0], _cached_axiom_scopes := sc, _inferred_notations := [],
    modules := [rawMod pM name so sy ax], counters := [cnt] }

def modOf (pM : Option Bool) (r : RSt) : PyKModule := rawMod pM r.name (sortsDict r) (symbolsDict r) (axiomsDict r.rules)

def heapOf (pL pM : Option Bool) (r : RSt) : PyLS :=
  rawHeap pL pM r.name (sortsDict r) (symbolsDict r) (axiomsDict r.rules) (scopesDict r.rules) r.nAxioms

def sgOf (r : RSt) : Sig := { sorts := r.sorts.map (·.1), symbols := r.symbols.map symDeclOf }

theorem sigView_heapOf (pL pM : Option Bool) (r : RSt) : sigView (heapOf pL pM r) = sgOf r := by
  simp [sigView, heapOf, rawHeap, rawMod, sgOf, sortsDict, symbolsDict, List.map_map, Function.comp_def]


/-! ## dictionaries -/

theorem lookup_map_key {α β : Type} (l : List (Nat × α)) (f : Nat × α → β) (k : Nat) :
    (l.map fun e => (e.1, f e)).lookup k = (l.find? (·.1 == k)).map f := by
  induction l with
  | nil => rfl
  | cons e r ih =>
    simp only [List.map_cons, List.lookup_cons, List.find?_cons]
    by_cases h : e.1 = k
    · subst h; simp
    · have h1 : (k == e.1) = false := by simpa using fun h' : k = e.1 => h h'.symm
      have h2 : (e.1 == k) = false := by simpa using h
      simp only [h1, h2, ih]

theorem sorts_lookup (r : RSt) (k : Nat) :
    (sortsDict r).lookup k = (r.sorts.find? (·.1 == k)).map fun e => ⟨e.1, e.2⟩ := by
  unfold sortsDict; exact lookup_map_key r.sorts (fun e => (⟨e.1, e.2⟩ : PyKSortH)) k

theorem find_key {α} {l : List (Nat × α)} {k : Nat} {e : Nat × α} (h : l.find? (·.1 == k) = some e) : e.1 = k := by
  have := List.find?_some h; simpa using this

/-- `get_sort` on the one module: the declared sort with this name -/
def sortOf (r : RSt) (k : Nat) : Option PyKSortH := (r.sorts.find? (·.1 == k)).map fun e => ⟨k, e.2⟩

theorem sorts_lookup' (r : RSt) (k : Nat) : (sortsDict r).lookup k = sortOf r k := by
  rw [sorts_lookup, sortOf]
  cases h : r.sorts.find? (·.1 == k) with
  | none => rfl
  | some e => simp [find_key h]

theorem symbols_lookup (r : RSt) (k : Nat) : (symbolsDict r).lookup k = r.symbols.find? (·.name == k) := by
  unfold symbolsDict
  induction r.symbols with
  | nil => rfl
  | cons s l ih =>
    simp only [List.map_cons, List.lookup_cons, List.find?_cons]
    by_cases h : s.name = k
    · subst h; simp
    · have h1 : (k == s.name) = false := by simpa using fun h' : k = s.name => h h'.symm
      have h2 : (s.name == k) = false := by simpa using h
      simp only [h1, h2, ih]

theorem axioms_lookup (rules : List Rule) (k : Nat) :
    (axiomsDict rules).lookup k = (rules.find? (·.ordinal == k)).map axiomOf := by
  unfold axiomsDict
  induction rules with
  | nil => rfl
  | cons s l ih =>
    simp only [List.map_cons, List.lookup_cons, List.find?_cons]
    by_cases h : s.ordinal = k
    · subst h; simp
    · have h1 : (k == s.ordinal) = false := by simpa using fun h' : k = s.ordinal => h h'.symm
      have h2 : (s.ordinal == k) = false := by simpa using h
      simp only [h1, h2, ih]

theorem scopes_lookup (rules : List Rule) (k : Nat) :
    (scopesDict rules).lookup k = (rules.find? (·.ordinal == k)).map fun ru => scopeObj ru.scope := by
  unfold scopesDict
  induction rules with
  | nil => rfl
  | cons s l ih =>
    simp only [List.map_cons, List.lookup_cons, List.find?_cons]
    by_cases h : s.ordinal = k
    · subst h; simp
    · have h1 : (k == s.ordinal) = false := by simpa using fun h' : k = s.ordinal => h h'.symm
      have h2 : (s.ordinal == k) = false := by simpa using h
      simp only [h1, h2, ih]

/-! ## the module search on a one-module store -/

theorem lookup_branch {α β} (d : KDict α) (k : Nat) (a : α → Py β) (b : Py β) {inst : Decidable (kHas d k = true)} :
    (@ite _ (kHas d k = true) inst (kGet d k a) b) = match d.lookup k with | some v => a v | none => b := by
  cases h : d.lookup k with
  | none =>
    have hk : ¬ (kHas d k = true) := by simp [kHas, h]
    rw [if_neg hk]
  | some v =>
    have hk : kHas d k = true := by simp [kHas, h]
    rw [if_pos hk]; simp [kGet, h]

theorem getMod_raw {β} (pL pM name so sy ax sc cnt) (k : PyKModule → Py β) :
    getMod (rawHeap pL pM name so sy ax sc cnt) 0 k = k (rawMod pM name so sy ax) := rfl

theorem modules_raw (n : Nat) (pL pM name so sy ax sc cnt) :
    KModule.modules (n + 1) (rawHeap pL pM name so sy ax sc cnt) 0 = ret [] := rfl

theorem modules_eq (n : Nat) (pL pM : Option Bool) (r : RSt) :
    KModule.modules (n + 1) (heapOf pL pM r) 0 = ret [] := rfl

theorem get_sort_raw (n : Nat) (pL pM name so sy ax sc cnt) (k : Nat) :
    KModule.get_sort (n + 2) (rawHeap pL pM name so sy ax sc cnt) 0 k = some (so.lookup k) := by
  unfold KModule.get_sort
  dsimp only [getMod_raw, rawMod, modules_raw]
  rw [lookup_branch]
  cases so.lookup k <;> rfl

theorem get_symbol_raw (n : Nat) (pL pM name so sy ax sc cnt) (k : Nat) :
    KModule.get_symbol (n + 2) (rawHeap pL pM name so sy ax sc cnt) 0 k = some (sy.lookup k) := by
  unfold KModule.get_symbol
  dsimp only [getMod_raw, rawMod, modules_raw]
  rw [lookup_branch]
  cases sy.lookup k <;> rfl

theorem get_axiom_raw (n : Nat) (pL pM name so sy ax sc cnt) (k : Nat) :
    KModule.get_axiom (n + 2) (rawHeap pL pM name so sy ax sc cnt) 0 k = some (ax.lookup k) := by
  unfold KModule.get_axiom
  dsimp only [getMod_raw, rawMod, modules_raw]
  rw [lookup_branch]
  cases ax.lookup k <;> rfl

theorem kmodule_get_sort_eq (n : Nat) (pL pM : Option Bool) (r : RSt) (k : Nat) :
    KModule.get_sort (n + 2) (heapOf pL pM r) 0 k = some (sortOf r k) := by
  rw [heapOf, get_sort_raw, sorts_lookup']

theorem kmodule_get_symbol_eq (n : Nat) (pL pM : Option Bool) (r : RSt) (k : Nat) :
    KModule.get_symbol (n + 2) (heapOf pL pM r) 0 k = some (r.symbols.find? (·.name == k)) := by
  rw [heapOf, get_symbol_raw, symbols_lookup]

theorem kmodule_get_axiom_eq (n : Nat) (pL pM : Option Bool) (r : RSt) (k : Nat) :
    KModule.get_axiom (n + 2) (heapOf pL pM r) 0 k = some ((r.rules.find? (·.ordinal == k)).map axiomOf) := by
  rw [heapOf, get_axiom_raw, axioms_lookup]

theorem perm_singleton {so : SetOrder} (hso : so.Valid) (x : Nat) : so [x] = [x] := by
  have := hso [x]
  exact List.perm_singleton.mp this

theorem ls_modules_eq (so : SetOrder) (hso : so.Valid) (n : Nat) (pL pM : Option Bool) (r : RSt) :
    LanguageSemantics.modules so (n + 1) (heapOf pL pM r) = ret [0] := by
  unfold LanguageSemantics.modules
  simp only [heapOf, rawHeap, forEach]
  show call (KModule.modules (n + 1) (heapOf pL pM r) 0) _ = _
  rw [modules_eq]
  simp [call, ret, setAdd, setUpdate, setIter, perm_singleton hso, fromkeys]

/-! ## the builder methods on a one-module store -/

theorem builder_true {α} (f : Py α) : builder_method (some true) f = f := rfl

theorem setMod_raw (pL pM name so sy ax sc cnt) (m : PyKModule) :
    setMod (rawHeap pL pM name so sy ax sc cnt) 0 m
      = { rawHeap pL pM name so sy ax sc cnt with modules := [m] } := rfl

theorem _sort_raw (pL pM name so sy ax sc cnt) (nm : Nat) (hk : Bool) :
    KModule._sort (rawHeap pL pM name so sy ax sc cnt) 0 nm hk
      = if kHas so nm then raise else ret (rawHeap pL pM name (kSet so nm ⟨nm, hk⟩) sy ax sc cnt, ⟨nm, hk⟩) := by
  unfold KModule._sort
  dsimp only [getMod_raw]
  by_cases hh : kHas so nm = true
  · rw [if_pos hh, if_pos hh]
  · rw [if_neg hh, if_neg hh]
    show kGet (kSet so nm ⟨nm, hk⟩) nm (fun t4 => ret (rawHeap pL pM name (kSet so nm ⟨nm, hk⟩) sy ax sc cnt, t4)) = _
    simp only [kGet, KoreTie.lookup_kSet]

theorem sort_raw (pL name so sy ax sc cnt) (nm : Nat) :
    KModule.sort (rawHeap pL (some true) name so sy ax sc cnt) 0 nm
      = if kHas so nm then raise else ret (rawHeap pL (some true) name (kSet so nm ⟨nm, false⟩) sy ax sc cnt, ⟨nm, false⟩) := by
  unfold KModule.sort
  dsimp only [getMod_raw, builder_true]
  rw [_sort_raw]
  by_cases hh : kHas so nm = true
  · rw [if_pos hh]; rfl
  · rw [if_neg hh]; rfl

theorem hooked_sort_raw (pL name so sy ax sc cnt) (nm : Nat) :
    KModule.hooked_sort (rawHeap pL (some true) name so sy ax sc cnt) 0 nm
      = if kHas so nm then raise else ret (rawHeap pL (some true) name (kSet so nm ⟨nm, true⟩) sy ax sc cnt, ⟨nm, true⟩) := by
  unfold KModule.hooked_sort
  dsimp only [getMod_raw, builder_true]
  rw [_sort_raw]
  by_cases hh : kHas so nm = true
  · rw [if_pos hh]; rfl
  · rw [if_neg hh]; rfl

theorem rewrite_rule_raw (pL name so sy ax sc cnt) (pat : NPat) :
    KModule.rewrite_rule (rawHeap pL (some true) name so sy ax sc cnt) 0 pat
      = ret (rawHeap pL (some true) name so sy (kSet ax cnt (.rewriting ⟨cnt, pat⟩)) sc (cnt + 1), ⟨cnt, pat⟩) := rfl

theorem equational_rule_raw (pL name so sy ax sc cnt) (pat : NPat) :
    KModule.equational_rule (rawHeap pL (some true) name so sy ax sc cnt) 0 pat
      = ret (rawHeap pL (some true) name so sy (kSet ax cnt (.equational ⟨cnt, pat⟩)) sc (cnt + 1), ⟨cnt, pat⟩) := rfl

theorem next_counter_raw {β} (pL pM name so sy ax sc cnt) (k : PyLS × Nat → Py β) :
    nextCounter (rawHeap pL pM name so sy ax sc cnt) 0 k = k (rawHeap pL pM name so sy ax sc (cnt + 1), cnt) := rfl

/-! ## `convert_ksort`, `KModule.symbol` -/

/-- `convert_ksort(name_to_sortvar, ksort)` -/
def sortRefRaw (so : KDict PyKSortH) (vm : KDict PyKSortVar) : KSort → Option PySortRef
  | .var x => (vm.lookup x).map .var
  | .app n => (so.lookup n).map .sort

theorem convert_ksort_raw (n : Nat) (pL pM name so sy ax sc cnt) (vm : KDict PyKSortVar) (s : KSort) :
    LanguageSemantics.from_kore_definition.convert_ksort (n + 2) (rawHeap pL pM name so sy ax sc cnt) 0 vm s
      = some (sortRefRaw so vm s) := by
  cases s with
  | var x =>
    simp only [LanguageSemantics.from_kore_definition.convert_ksort, sortRefRaw, kGet]
    cases vm.lookup x <;> rfl
  | app k =>
    simp only [LanguageSemantics.from_kore_definition.convert_ksort, sortRefRaw, get_sort_raw]
    cases so.lookup k <;> rfl

def mapOpt {α β} (g : α → Option β) : List α → Option (List β)
  | [] => some []
  | x :: xs => match g x with
    | none => none
    | some y => (mapOpt g xs).map (y :: ·)

theorem mapPy_total {α β γ} (l : List α) (f : α → Py β) (g : α → Option β) (hf : ∀ x, f x = some (g x)) (k : List β → Py γ) :
    mapPy l f k = match mapOpt g l with | none => some none | some ys => k ys := by
  induction l generalizing k with
  | nil => rfl
  | cons x xs ih =>
    simp only [mapPy, mapOpt, hf]
    cases g x with
    | none => rfl
    | some y =>
      simp only [call, ih]
      cases mapOpt g xs <;> rfl

theorem mapOpt_mem {α β} {g : α → Option β} {l : List α} {ys : List β} (h : mapOpt g l = some ys) :
    ∀ y ∈ ys, ∃ x ∈ l, g x = some y := by
  induction l generalizing ys with
  | nil => simp [mapOpt] at h; subst h; simp
  | cons x xs ih =>
    simp only [mapOpt] at h
    cases hx : g x with
    | none => simp [hx] at h
    | some y0 =>
      simp only [hx] at h
      cases hr : mapOpt g xs with
      | none => simp [hr] at h
      | some zs =>
        simp [hr] at h; subst h
        intro y hy
        simp only [List.mem_cons] at hy
        rcases hy with rfl | hy
        · exact ⟨x, List.mem_cons_self .., hx⟩
        · obtain ⟨x', hx', hg⟩ := ih hr y hy
          exact ⟨x', List.mem_cons_of_mem _ hx', hg⟩

theorem mapOpt_length {α β} {g : α → Option β} {l : List α} {ys : List β} (h : mapOpt g l = some ys) : ys.length = l.length := by
  induction l generalizing ys with
  | nil => simp [mapOpt] at h; subst h; rfl
  | cons x xs ih =>
    simp only [mapOpt] at h
    cases hx : g x with
    | none => simp [hx] at h
    | some y0 =>
      simp only [hx] at h
      cases hr : mapOpt g xs with
      | none => simp [hr] at h
      | some zs => simp [hr] at h; subst h; simp [ih hr]

/-- a sort reference that `convert_ksort` produced is the entry of the sort table -/
theorem sortRefRaw_sort {so : KDict PyKSortH} {vm s b} (hkey : ∀ k v, so.lookup k = some v → v.name = k)
    (h : sortRefRaw so vm s = some (.sort b)) : so.lookup b.name = some b := by
  cases s with
  | var x => simp only [sortRefRaw] at h; cases vm.lookup x <;> simp at h
  | app k =>
    simp only [sortRefRaw] at h
    cases hl : so.lookup k with
    | none => simp [hl] at h
    | some v => simp [hl] at h; subst h; rw [hkey k v hl]; exact hl

theorem forEach_unit {α β} (l : List α) (body : α → Unit → (Unit → Py β) → Py β) (k : Unit → Py β)
    (hb : ∀ x ∈ l, ∀ cont, body x () cont = cont ()) : forEach l () body k = k () := by
  induction l with
  | nil => rfl
  | cons x xs ih =>
    simp only [forEach]
    rw [hb x (List.mem_cons_self ..)]
    exact ih fun y hy => hb y (List.mem_cons_of_mem _ hy)

theorem symbol_raw (n : Nat) (pL name so sy ax sc cnt) (nm : Nat) (out : PySortRef) (sp : List PyKSortVar) (ins : List PySortRef)
    (f c cl : Bool) (hout : ∀ b, out = .sort b → so.lookup b.name = some b)
    (hins : ∀ b, PySortRef.sort b ∈ ins → so.lookup b.name = some b) :
    KModule.symbol (n + 2) (rawHeap pL (some true) name so sy ax sc cnt) 0 nm out sp ins f c cl
      = if kHas sy nm then raise
        else ret (rawHeap pL (some true) name so (kSet sy nm ⟨nm, sp, out, ins, f, c, cl⟩) ax sc cnt, ⟨nm, sp, out, ins, f, c, cl⟩) := by
  have key := fun body k hb => forEach_unit (β := PyLS × PyKSymbol) ins body k hb
  unfold KModule.symbol
  dsimp only [getMod_raw, builder_true]
  by_cases hh : kHas sy nm = true
  · rw [if_pos hh, if_pos hh]
  · rw [if_neg hh, if_neg hh]
    cases out with
    | var v =>
      dsimp only; rw [key]
      · rfl
      · intro x hx cont
        cases x with
        | var v => rfl
        | sort b => simp [get_sort_raw, hins b hx, call, assert_]
    | sort b =>
      dsimp only
      rw [key]
      · rw [get_sort_raw, hout b rfl]
        simp only [call, assert_, beq_self_eq_true, if_true]
        rfl
      · intro x hx cont
        cases x with
        | var v => rfl
        | sort b => simp [get_sort_raw, hins b hx, call, assert_]

/-! ## one sentence -/

theorem is_rewrite_rule_eq (p : KTerm) : LanguageSemantics.is_rewrite_rule p = ret (isRewriteRule p) := by
  cases p <;> try rfl
  case rewrites s l r => cases l <;> cases r <;> rfl

theorem is_equational_rule_eq (p : KTerm) : LanguageSemantics.is_equational_rule p = ret (isEquationalRule p) := by
  cases p <;> try rfl
  case implies s l r =>
    cases r <;> try rfl
    case and s' x y => cases x <;> cases y <;> rfl

theorem rewrite_shape {p : KTerm} (h : isRewriteRule p = true) :
    ∃ s s1 l l2 s2 r r2, p = .rewrites s (.and s1 l l2) (.and s2 r r2) := by
  cases p <;> try (simp [isRewriteRule] at h)
  case rewrites s l r =>
    cases l <;> try (simp [isRewriteRule] at h)
    case and s1 l l2 =>
      cases r <;> try (simp [isRewriteRule] at h)
      case and s2 r r2 => exact ⟨s, s1, l, l2, s2, r, r2, rfl⟩

/-- `ksort_var_map` -/
def varMap (vars : List KSort) : KDict PyKSortVar :=
  kDictOf ((vars.map fun v => PyKSortVar.mk (sortName v)).map fun v => (v.name, v))

/-- `attrs` -/
def attrNames (attrs : List KTerm) : List Nat := attrs.filterMap LanguageSemantics.from_kore_definition.comp1

def WF (r : RSt) : Prop := ∀ ru ∈ r.rules, ru.ordinal < r.nAxioms

def addRule (r : RSt) (kind : RuleKind) (x : Scope × NPat) : RSt :=
  { r with rules := r.rules ++ [{ ordinal := r.nAxioms, kind := kind, pattern := x.2, scope := x.1 }], nAxioms := r.nAxioms + 1 }

/-- one sentence on the refined state (`none`: the builder raises) -/
def stepR (r : RSt) : KSentence → Option RSt
  | .«import» _ => none
  | .sortDecl nm hk => if kHas (sortsDict r) nm then none else some { r with sorts := r.sorts ++ [(nm, hk)] }
  | .symbolDecl nm vars params srt attrs =>
      match mapOpt (sortRefRaw (sortsDict r) (varMap vars)) params with
      | none => none
      | some ins =>
        match sortRefRaw (sortsDict r) (varMap vars) srt with
        | none => none
        | some out =>
          if kHas (symbolsDict r) nm then none
          else some { r with symbols := r.symbols ++ [⟨nm, vars.map fun v => ⟨sortName v⟩, out, ins,
                        (attrNames attrs).contains (strName "functional"), (attrNames attrs).contains (strName "constructor"),
                        (attrNames attrs).contains (strName "cell")⟩] }
  | .«axiom» p =>
      if isRewriteRule p then (conv (sgOf r) {} (stripSideConditions p)).map (addRule r .rewrite)
      else if isEquationalRule p then (conv (sgOf r) {} p).map (addRule r .equational)
      else some { r with nAxioms := r.nAxioms + 1 }
  | .other => some r

def stepsR : RSt → List KSentence → Option RSt
  | r, [] => some r
  | r, s :: ss => (stepR r s).bind fun r' => stepsR r' ss

def NotSelfImport (name : Nat) : KSentence → Prop
  | .«import» m => m ≠ name
  | _ => True

theorem stepR_name {r r' : RSt} {s : KSentence} (h : stepR r s = some r') : r'.name = r.name := by
  cases s with
  | «import» m => simp [stepR] at h
  | sortDecl nm hk => simp only [stepR] at h; split at h <;> simp at h; subst h; rfl
  | symbolDecl nm vars params srt attrs =>
    simp only [stepR] at h
    split at h; · simp at h
    split at h; · simp at h
    split at h <;> simp at h; subst h; rfl
  | «axiom» p =>
    simp only [stepR] at h
    split at h
    · cases hc : conv (sgOf r) {} (stripSideConditions p) <;> simp [hc] at h; subst h; rfl
    · split at h
      · cases hc : conv (sgOf r) {} p <;> simp [hc] at h; subst h; rfl
      · simp at h; subst h; rfl
  | other => simp [stepR] at h; subst h; rfl

theorem addRule_wf {r : RSt} (kind : RuleKind) (x : Scope × NPat) (h : WF r) : WF (addRule r kind x) := by
  intro ru hru
  simp only [addRule, List.mem_append, List.mem_singleton] at hru
  rcases hru with hru | rfl
  · exact Nat.lt_succ_of_lt (h ru hru)
  · exact Nat.lt_succ_self _

theorem stepR_wf {r r' : RSt} {s : KSentence} (hw : WF r) (h : stepR r s = some r') : WF r' := by
  cases s with
  | «import» m => simp [stepR] at h
  | sortDecl nm hk => simp only [stepR] at h; split at h <;> simp at h; subst h; exact hw
  | symbolDecl nm vars params srt attrs =>
    simp only [stepR] at h
    split at h; · simp at h
    split at h; · simp at h
    split at h <;> simp at h; subst h; exact hw
  | «axiom» p =>
    simp only [stepR] at h
    split at h
    · cases hc : conv (sgOf r) {} (stripSideConditions p) <;> simp [hc] at h; subst h; exact addRule_wf _ _ hw
    · split at h
      · cases hc : conv (sgOf r) {} p <;> simp [hc] at h; subst h; exact addRule_wf _ _ hw
      · simp at h; subst h
        intro ru hru; exact Nat.lt_succ_of_lt (hw ru hru)
  | other => simp [stepR] at h; subst h; exact hw

/-- the loop over the sentences of the module, for any body that does what `stepR` does (the generated body does:
`from_kore_definition_eq`) -/
theorem sentences_loop {β} (body : KSentence → PyLS → (PyLS → Py β) → Py β)
    (hb : ∀ s r cont, WF r → NotSelfImport r.name s →
      body s (heapOf (some true) (some true) r) cont
        = match stepR r s with
          | none => some none
          | some r' => cont (heapOf (some true) (some true) r')) :
    ∀ (ss : List KSentence) (r : RSt) (k : PyLS → Py β), WF r → (∀ s ∈ ss, NotSelfImport r.name s) →
      forEach ss (heapOf (some true) (some true) r) body k
        = match stepsR r ss with
          | none => some none
          | some r' => k (heapOf (some true) (some true) r') := by
  intro ss
  induction ss with
  | nil => intro r k _ _; rfl
  | cons s ss ih =>
    intro r k hw hns
    simp only [forEach, stepsR]
    rw [hb s r _ hw (hns s (List.mem_cons_self ..))]
    cases hs : stepR r s with
    | none => rfl
    | some r' =>
      simp only [Option.bind_some]
      apply ih r' k (stepR_wf hw hs)
      intro s' hs'
      rw [stepR_name hs]
      exact hns s' (List.mem_cons_of_mem _ hs')

/-! ## `from_kore_definition` -/

theorem call_some {α β} (a : α) (k : α → Py β) : call (some (some a)) k = k a := rfl

theorem kHas_false {α} {d : KDict α} {k : Nat} (h : ¬ kHas d k = true) : d.lookup k = none := by
  unfold kHas at h; cases hl : d.lookup k with
  | none => rfl
  | some v => simp [hl] at h

theorem heap_add_sort (pL pM : Option Bool) (r : RSt) (nm : Nat) (hk : Bool) (h : ¬ kHas (sortsDict r) nm = true) :
    rawHeap pL pM r.name (kSet (sortsDict r) nm ⟨nm, hk⟩) (symbolsDict r) (axiomsDict r.rules) (scopesDict r.rules) r.nAxioms
      = heapOf pL pM { r with sorts := r.sorts ++ [(nm, hk)] } := by
  rw [KoreTie.kSet_new _ _ _ (kHas_false h)]
  simp [heapOf, sortsDict, symbolsDict]

theorem heap_add_symbol (pL pM : Option Bool) (r : RSt) (sym : PyKSymbol) (h : ¬ kHas (symbolsDict r) sym.name = true) :
    rawHeap pL pM r.name (sortsDict r) (kSet (symbolsDict r) sym.name sym) (axiomsDict r.rules) (scopesDict r.rules) r.nAxioms
      = heapOf pL pM { r with symbols := r.symbols ++ [sym] } := by
  rw [KoreTie.kSet_new _ _ _ (kHas_false h)]
  simp [heapOf, sortsDict, symbolsDict]

theorem find_fresh {r : RSt} (hw : WF r) : r.rules.find? (·.ordinal == r.nAxioms) = none := by
  rw [List.find?_eq_none]
  intro ru hru
  have := hw ru hru
  simp; omega

theorem heap_add_rule (pL pM : Option Bool) (r : RSt) (kind : RuleKind) (x : Scope × NPat) (hw : WF r) :
    rawHeap pL pM r.name (sortsDict r) (symbolsDict r)
        (kSet (axiomsDict r.rules) r.nAxioms (axiomOf ⟨r.nAxioms, kind, x.2, x.1⟩))
        (kSet (scopesDict r.rules) r.nAxioms (scopeObj x.1)) (r.nAxioms + 1)
      = heapOf pL pM (addRule r kind x) := by
  have h1 : (axiomsDict r.rules).lookup r.nAxioms = none := by rw [axioms_lookup, find_fresh hw]; rfl
  have h2 : (scopesDict r.rules).lookup r.nAxioms = none := by rw [scopes_lookup, find_fresh hw]; rfl
  rw [KoreTie.kSet_new _ _ _ h1, KoreTie.kSet_new _ _ _ h2]
  simp [heapOf, addRule, sortsDict, symbolsDict, axiomsDict, scopesDict]

theorem convert_fresh (pL pM : Option Bool) (r : RSt) (t : KTerm) :
    Gen.PyKore.LanguageSemantics._convert_pattern (semView (heapOf pL pM r)) Gen.PyKore.ConvertionScope.__init__ t
      = KoreTie.lift Gen.PyKore.ConvertionScope.__init__ (conv (sgOf r) {} t) := by
  have := KoreTie.convert_pattern_rec_eq (semView (heapOf pL pM r)) Gen.PyKore.ConvertionScope.__init__ {} t
  rw [← KoreTie.init_scope] at this
  rw [this]; simp only [semView, sigView_heapOf]

theorem sortsDict_key (r : RSt) : ∀ k v, (sortsDict r).lookup k = some v → v.name = k := by
  intro k v h
  rw [sorts_lookup', sortOf] at h
  cases hf : r.sorts.find? (·.1 == k) with
  | none => simp [hf] at h
  | some e => simp [hf] at h; subst h; rfl

def initR (name : Nat) : RSt := { name := name, sorts := [], symbols := [], rules := [], nAxioms := 0 }

theorem from_kore_definition_eq (so : SetOrder) (hso : so.Valid) (n : Nat) (m : KModuleDef)
    (hfrag : ∀ s ∈ m.sentences, NotSelfImport m.name s) :
    LanguageSemantics.from_kore_definition so (n + 2) ⟨[m]⟩
      = match stepsR (initR m.name) m.sentences with
        | none => some none
        | some r => ret (heapOf (some false) (some false) r) := by
  unfold LanguageSemantics.from_kore_definition
  dsimp only [forEach]
  have e1 : LanguageSemantics.__enter__ LanguageSemantics.__init__
      = ret { LanguageSemantics.__init__ with _parsing := some true } := rfl
  have e2 : LanguageSemantics.module { LanguageSemantics.__init__ with _parsing := some true } m.name
      = ret (heapOf (some true) none (initR m.name), 0) := rfl
  have e3 : KModule.__enter__ (heapOf (some true) none (initR m.name)) 0 = ret (heapOf (some true) (some true) (initR m.name), 0) := rfl
  rw [e1, KoreTie.call_ret_val, e2, KoreTie.call_ret_val]
  dsimp only
  rw [e3, KoreTie.call_ret_val]
  dsimp only
  rw [sentences_loop _ _ m.sentences (initR m.name) _ (by intro ru h; cases h) hfrag]
  · cases stepsR (initR m.name) m.sentences with
    | none => rfl
    | some r => rfl
  · intro s r cont hw hns
    cases s with
    | «import» mn =>
      have hne : (r.name == mn) = false := by
        simp only [NotSelfImport] at hns
        simpa using fun h : r.name = mn => hns h.symm
      have : LanguageSemantics.get_module so (n + 2) (heapOf (some true) (some true) r) mn = raise := by
        unfold LanguageSemantics.get_module
        rw [ls_modules_eq so hso]
        simp only [KoreTie.call_ret_val, forEach]
        show (if (r.name == mn) = true then _ else _) = _
        rw [hne]; rfl
      dsimp only
      rw [this]; rfl
    | sortDecl nm hk =>
      dsimp only
      cases hk with
      | false =>
        simp only [Bool.and_false, Bool.false_eq_true, if_false]
        rw [heapOf, sort_raw]
        by_cases hh : kHas (sortsDict r) nm = true
        · simp only [stepR, hh, if_true]; rfl
        · simp only [stepR, hh, Bool.false_eq_true, if_false]
          rw [KoreTie.call_ret_val, heap_add_sort _ _ _ _ _ hh]
      | true =>
        simp only [Bool.and_true, if_true]
        rw [heapOf, hooked_sort_raw]
        by_cases hh : kHas (sortsDict r) nm = true
        · simp only [stepR, hh, if_true]; rfl
        · simp only [stepR, hh, Bool.false_eq_true, if_false]
          rw [KoreTie.call_ret_val, heap_add_sort _ _ _ _ _ hh]
    | symbolDecl nm vars params srt attrs =>
      dsimp only
      have hv : kDictOf (List.map (fun v_v => (v_v.name, v_v)) (List.map (fun v_v => ({ name := sortName v_v } : PyKSortVar)) vars))
          = varMap vars := rfl
      rw [hv, heapOf]
      rw [mapPy_total _ _ (sortRefRaw (sortsDict r) (varMap vars))
        (by intro x; rw [convert_ksort_raw]; cases sortRefRaw (sortsDict r) (varMap vars) x <;> rfl)]
      cases hm : mapOpt (sortRefRaw (sortsDict r) (varMap vars)) params with
      | none => simp only [stepR, hm]
      | some ins =>
        dsimp only
        rw [convert_ksort_raw]
        cases ho : sortRefRaw (sortsDict r) (varMap vars) srt with
        | none => simp only [stepR, hm, ho]; rfl
        | some out =>
          rw [call_some]
          have hout : ∀ b, out = .sort b → (sortsDict r).lookup b.name = some b := by
            intro b hb; subst hb; exact sortRefRaw_sort (sortsDict_key r) ho
          have hins : ∀ b, PySortRef.sort b ∈ ins → (sortsDict r).lookup b.name = some b := by
            intro b hb
            obtain ⟨x, _, hx⟩ := mapOpt_mem hm _ hb
            exact sortRefRaw_sort (sortsDict_key r) hx
          rw [symbol_raw _ _ _ _ _ _ _ _ _ _ _ _ _ _ _ hout hins]
          by_cases hh : kHas (symbolsDict r) nm = true
          · simp only [stepR, hm, ho, hh, if_true]; rfl
          · simp only [stepR, hm, ho, hh, Bool.false_eq_true, if_false]
            rw [KoreTie.call_ret_val]
            exact congrArg cont (heap_add_symbol _ _ r ⟨nm, _, out, ins, _, _, _⟩ hh)
    | «axiom» p =>
      dsimp only
      rw [is_rewrite_rule_eq, KoreTie.call_ret_val]
      by_cases hrw : isRewriteRule p = true
      · obtain ⟨s, s1, l, l2, s2, rr, r2, rfl⟩ := rewrite_shape hrw
        rw [if_pos hrw]
        show call (Gen.PyKore.LanguageSemantics._convert_pattern _ _ (KTerm.rewrites s l rr)) _ = _
        rw [convert_fresh, KoreTie.call_lift]
        simp only [stepR, hrw, if_true, stripSideConditions]
        cases hc : conv (sgOf r) {} (KTerm.rewrites s l rr) with
        | none => rfl
        | some x =>
          dsimp only [Option.map_some]
          rw [heapOf, rewrite_rule_raw, KoreTie.call_ret_val]
          exact congrArg cont (heap_add_rule _ _ r .rewrite x hw)
      · rw [if_neg hrw, is_equational_rule_eq, KoreTie.call_ret_val]
        by_cases heq : isEquationalRule p = true
        · rw [if_pos heq, convert_fresh, KoreTie.call_lift]
          simp only [stepR, hrw, heq, if_true, Bool.false_eq_true, if_false]
          cases hc : conv (sgOf r) {} p with
          | none => rfl
          | some x =>
            dsimp only [Option.map_some]
            rw [heapOf, equational_rule_raw, KoreTie.call_ret_val]
            exact congrArg cont (heap_add_rule _ _ r .equational x hw)
        · rw [if_neg heq]
          simp only [stepR, hrw, heq, Bool.false_eq_true, if_false]
          rfl
    | other => rfl

/-! ## the refined state against the specification -/

def proj (r : RSt) : DefSem := { sg := sgOf r, rules := r.rules, nAxioms := r.nAxioms }

theorem lookup_kSet_ne {α} (d : KDict α) (k k' : Nat) (v : α) (h : k ≠ k') : (kSet d k' v).lookup k = d.lookup k := by
  induction d with
  | nil =>
    have h1 : (k == k') = false := by simpa using h
    simp [kSet, List.lookup, h1]
  | cons e r ih =>
    obtain ⟨k0, w⟩ := e
    by_cases hk : (k0 == k') = true
    · have hk' : k0 = k' := by simpa using hk
      subst hk'
      have h1 : (k == k0) = false := by simpa using h
      simp [kSet, List.lookup, h1]
    · simp only [kSet, hk, Bool.false_eq_true, if_false, List.lookup]
      cases k == k0 <;> simp [ih]

theorem kDictOf_has {α} (kvs : List (Nat × α)) (k : Nat) : ((kDictOf kvs).lookup k).isSome = kvs.any (·.1 == k) := by
  have gen : ∀ (kvs : List (Nat × α)) (d : KDict α),
      ((kvs.foldl (fun d kv => kSet d kv.1 kv.2) d).lookup k).isSome = ((d.lookup k).isSome || kvs.any (·.1 == k)) := by
    intro kvs
    induction kvs with
    | nil => intro d; simp
    | cons e l ih =>
      intro d
      simp only [List.foldl_cons, ih, List.any_cons]
      by_cases he : e.1 = k
      · subst he; simp [KoreTie.lookup_kSet]
      · have : (e.1 == k) = false := by simpa using he
        rw [lookup_kSet_ne _ _ _ _ (fun h => he h.symm), this]; simp
  have := gen kvs []
  simpa [kDictOf] using this

theorem kHas_sorts (r : RSt) (k : Nat) : kHas (sortsDict r) k = (sgOf r).sorts.contains k := by
  unfold kHas
  rw [sorts_lookup', sortOf, sgOf]
  induction r.sorts with
  | nil => rfl
  | cons e l ih =>
    simp only [List.find?_cons, List.map_cons, List.contains_cons]
    by_cases h : e.1 = k
    · subst h; simp
    · have h1 : (e.1 == k) = false := by simpa using h
      have h2 : (k == e.1) = false := by simpa using fun h' : k = e.1 => h h'.symm
      simp only [h1, h2, Bool.false_or]; exact ih

theorem symDeclOf_name (s : PyKSymbol) : (symDeclOf s).name = s.name := rfl

theorem kHas_symbols (r : RSt) (k : Nat) : kHas (symbolsDict r) k = (sgOf r).symbols.any (·.name == k) := by
  unfold kHas
  rw [symbols_lookup, sgOf]
  induction r.symbols with
  | nil => rfl
  | cons e l ih =>
    simp only [List.find?_cons, List.map_cons, List.any_cons, symDeclOf_name]
    by_cases h : e.name = k
    · subst h; simp
    · have h1 : (e.name == k) = false := by simpa using h
      simp only [h1, Bool.false_or]; exact ih

theorem sortRef_ok (r : RSt) (vars : List KSort) (s : KSort) :
    (sortRefRaw (sortsDict r) (varMap vars) s).isSome = sortOk (sgOf r) vars s := by
  cases s with
  | var x =>
    simp only [sortRefRaw, sortOk, Option.isSome_map, varMap, kDictOf_has, List.any_map]
    rfl
  | app k =>
    simp only [sortRefRaw, sortOk, Option.isSome_map]
    exact kHas_sorts r k

theorem mapOpt_isSome {α β} (g : α → Option β) (l : List α) : (mapOpt g l).isSome = l.all fun x => (g x).isSome := by
  induction l with
  | nil => rfl
  | cons x xs ih =>
    simp only [mapOpt, List.all_cons]
    cases g x with
    | none => rfl
    | some y => simp [ih]

theorem attr_has (attrs : List KTerm) (a : String) : (attrNames attrs).contains (strName a) = hasAttr attrs a := by
  unfold attrNames hasAttr
  induction attrs with
  | nil => rfl
  | cons t ts ih =>
    cases t <;> simp only [List.filterMap_cons, LanguageSemantics.from_kore_definition.comp1, List.any_cons, List.contains_cons, ih, Bool.false_or]
    case app sym sorts args => rw [BEq.comm (a := strName a)]

theorem stepR_spec (r : RSt) (s : KSentence) : addSentence (proj r) s = (stepR r s).map proj := by
  cases s with
  | «import» m => rfl
  | other => rfl
  | sortDecl nm hk =>
    simp only [addSentence, stepR, kHas_sorts]
    by_cases h : (sgOf r).sorts.contains nm = true
    · rw [if_pos (show (proj r).sg.sorts.contains nm = true from h), if_pos h]; rfl
    · rw [if_neg (show ¬ (proj r).sg.sorts.contains nm = true from h), if_neg h]
      simp [proj, sgOf]
  | «axiom» p =>
    simp only [addSentence, stepR, ruleOf, proj]
    by_cases h1 : isRewriteRule p = true
    · simp only [h1, if_true]
      cases conv (sgOf r) {} (stripSideConditions p) <;> rfl
    · by_cases h2 : isEquationalRule p = true
      · simp only [h1, h2, if_true, Bool.false_eq_true, if_false]
        cases conv (sgOf r) {} p <;> rfl
      · simp only [h1, h2, Bool.false_eq_true, if_false]; rfl
  | symbolDecl nm vars params srt attrs =>
    have hs : (proj r).sg.symbols.any (·.name == nm) = kHas (symbolsDict r) nm := (kHas_symbols r nm).symm
    have hall : (params ++ [srt]).all (sortOk (proj r).sg vars)
        = ((mapOpt (sortRefRaw (sortsDict r) (varMap vars)) params).isSome && (sortRefRaw (sortsDict r) (varMap vars) srt).isSome) := by
      rw [mapOpt_isSome, List.all_append]; simp [sortRef_ok, proj]
    simp only [addSentence, stepR, hs, hall]
    cases hm : mapOpt (sortRefRaw (sortsDict r) (varMap vars)) params with
    | none => by_cases hh : kHas (symbolsDict r) nm = true <;> simp [hh]
    | some ins =>
      cases ho : sortRefRaw (sortsDict r) (varMap vars) srt with
      | none => by_cases hh : kHas (symbolsDict r) nm = true <;> simp [hh]
      | some out =>
        by_cases hh : kHas (symbolsDict r) nm = true
        · simp [hh]
        · simp [hh, proj, sgOf, symDeclOf, symDecl, ← attr_has, mapOpt_length hm]

theorem stepsR_spec (r : RSt) (ss : List KSentence) : addSentences (proj r) ss = (stepsR r ss).map proj := by
  induction ss generalizing r with
  | nil => rfl
  | cons s ss ih =>
    simp only [addSentences, stepsR, stepR_spec]
    cases stepR r s with
    | none => rfl
    | some r' => simp [ih]


/-! ## the finished semantics: what `from_kore_definition` returns, and its queries -/

/-- one module that does not import itself -/
def InFragment (d : KDefinition) : Prop := ∃ m, d.modules = [m] ∧ ∀ s ∈ m.sentences, NotSelfImport m.name s

/-- the store `h` is a finished one-module semantics whose meaning is `ds` -/
def Represents (h : PyLS) (ds : DefSem) : Prop := ∃ r, h = heapOf (some false) (some false) r ∧ proj r = ds

theorem stepsR_wf {r r' : RSt} {ss : List KSentence} (hw : WF r) (h : stepsR r ss = some r') : WF r' := by
  induction ss generalizing r with
  | nil => simp [stepsR] at h; subst h; exact hw
  | cons s ss ih =>
    simp only [stepsR] at h
    cases hs : stepR r s with
    | none => simp [hs] at h
    | some r1 => simp [hs] at h; exact ih (stepR_wf hw hs) h

theorem initR_proj (name : Nat) : proj (initR name) = { sg := { sorts := [], symbols := [] }, rules := [], nAxioms := 0 } := rfl

/-- `from_kore_definition` on a definition of the fragment: it raises exactly when the specification refuses the
definition, and otherwise returns a store that represents `sigOfDefinition d` -/
theorem from_kore_definition_spec (so : SetOrder) (hso : so.Valid) (n : Nat) (d : KDefinition) (hf : InFragment d) :
    match sigOfDefinition d with
    | none => LanguageSemantics.from_kore_definition so (n + 2) d = raise
    | some ds => ∃ h, LanguageSemantics.from_kore_definition so (n + 2) d = ret h ∧ Represents h ds := by
  obtain ⟨m, hm, hns⟩ := hf
  have hd : d = ⟨[m]⟩ := by cases d; simp at hm; subst hm; rfl
  subst hd
  rw [from_kore_definition_eq so hso n m hns]
  simp only [sigOfDefinition, ← initR_proj m.name, stepsR_spec]
  cases hs : stepsR (initR m.name) m.sentences with
  | none => rfl
  | some r =>
    exact ⟨_, rfl, r, rfl, rfl⟩

theorem represents_sig {h : PyLS} {ds : DefSem} (hr : Represents h ds) : sigView h = ds.sg := by
  obtain ⟨r, rfl, rfl⟩ := hr; exact sigView_heapOf _ _ r

/-- `get_axiom(ordinal)`: the rule with this ordinal (`ValueError` if there is none) -/
theorem get_axiom_eq (n : Nat) {h : PyLS} {ds : DefSem} (hr : Represents h ds) (o : Nat) :
    LanguageSemantics.get_axiom (n + 2) h o = some ((ds.rule? o).map axiomOf) := by
  obtain ⟨r, rfl, rfl⟩ := hr
  unfold LanguageSemantics.get_axiom
  show call (KModule.get_axiom (n + 2) (heapOf (some false) (some false) r) 0 o) _ = _
  rw [kmodule_get_axiom_eq]
  show _ = some (Option.map axiomOf (r.rules.find? (·.ordinal == o)))
  cases r.rules.find? (·.ordinal == o) <;> rfl

/-- the scope cached for an ordinal is the scope object of the rule with this ordinal -/
theorem cached_scope_eq {h : PyLS} {ds : DefSem} (hr : Represents h ds) (o : Nat) :
    h._cached_axiom_scopes.lookup o = (ds.rule? o).map fun ru => scopeObj ru.scope := by
  obtain ⟨r, rfl, rfl⟩ := hr
  exact scopes_lookup r.rules o

theorem ls_get_sort_heap (so : SetOrder) (hso : so.Valid) (n : Nat) (pL pM : Option Bool) (r : RSt) (k : Nat) :
    LanguageSemantics.get_sort so (n + 2) (heapOf pL pM r) k = some (sortOf r k) := by
  unfold LanguageSemantics.get_sort
  rw [ls_modules_eq so hso]
  simp only [KoreTie.call_ret_val, List.reverse_cons, List.reverse_nil, List.nil_append, forEach, kmodule_get_sort_eq]
  cases sortOf r k <;> rfl

theorem ls_get_symbol_heap (so : SetOrder) (hso : so.Valid) (n : Nat) (pL pM : Option Bool) (r : RSt) (k : Nat) :
    LanguageSemantics.get_symbol so (n + 2) (heapOf pL pM r) k = some (r.symbols.find? (·.name == k)) := by
  unfold LanguageSemantics.get_symbol
  rw [ls_modules_eq so hso]
  simp only [KoreTie.call_ret_val, List.reverse_cons, List.reverse_nil, List.nil_append, forEach, kmodule_get_symbol_eq]
  cases r.symbols.find? (·.name == k) <;> rfl

theorem find_symDecl (l : List PyKSymbol) (k : Nat) :
    (l.map symDeclOf).find? (·.name == k) = (l.find? (·.name == k)).map symDeclOf := by
  induction l with
  | nil => rfl
  | cons s l ih =>
    simp only [List.map_cons, List.find?_cons, symDeclOf_name]
    cases s.name == k <;> simp [ih]

/-- `get_sort`: the hand-written primitive on the view is the translated function on the store; it finds exactly the declared sorts -/
theorem get_sort_view (so : SetOrder) (hso : so.Valid) (n : Nat) (pL pM : Option Bool) (r : RSt) (k : Nat) :
    PyK.get_sort (semView (heapOf pL pM r)) k
      = (LanguageSemantics.get_sort so (n + 2) (heapOf pL pM r) k).map (Option.map fun s => ⟨s.name⟩) := by
  rw [ls_get_sort_heap so hso]
  simp only [PyK.get_sort, semView, sigView_heapOf, ← kHas_sorts, kHas, sorts_lookup']
  unfold sortOf
  cases r.sorts.find? (·.1 == k) <;> rfl

/-- `get_symbol`: the hand-written primitive on the view is the translated function on the store (`symDeclOf`) -/
theorem get_symbol_view (so : SetOrder) (hso : so.Valid) (n : Nat) (pL pM : Option Bool) (r : RSt) (k : Nat) :
    PyK.get_symbol (semView (heapOf pL pM r)) k
      = (LanguageSemantics.get_symbol so (n + 2) (heapOf pL pM r) k).map (Option.map symDeclOf) := by
  rw [ls_get_symbol_heap so hso]
  simp only [PyK.get_symbol, semView, sigView_heapOf, sgOf, find_symDecl]
  cases r.symbols.find? (·.name == k) <;> rfl

/-- `resolve_to_ksymbol`: likewise -/
theorem resolve_to_ksymbol_view (so : SetOrder) (hso : so.Valid) (n : Nat) (pL pM : Option Bool) (r : RSt) (s : Nat) :
    (LanguageSemantics.resolve_to_ksymbol so (n + 2) (heapOf pL pM r) (.sym s)).map (Option.map (Option.map symDeclOf))
      = ret (PyK.resolve_to_ksymbol (semView (heapOf pL pM r)) s) := by
  unfold LanguageSemantics.resolve_to_ksymbol KSymbol.unwrap_kore_name PyK.resolve_to_ksymbol
  simp only [symName, nameStartsWith, nameRemovePrefix]
  by_cases hs : s ≥ 2001 ∧ s < 100000 ∧ (s - 2001) % 2 = 0
  · simp only [hs, decide_true, beq_self_eq_true, if_true, Bool.not_true, Bool.false_eq_true, if_false, and_self,
      KoreTie.call_ret_val, ls_get_symbol_heap so hso, semView, sigView_heapOf, sgOf, find_symDecl]
    cases r.symbols.find? (·.name == (s - 2001) / 2) <;> rfl
  · simp only [hs, decide_false, beq_self_eq_true, if_true, Bool.not_false, if_false, KoreTie.call_ret_val]
    rfl



/-- `get_sort(name)` on a finished semantics: exactly the sorts of the signature (`ValueError` otherwise) -/
theorem get_sort_eq (so : SetOrder) (hso : so.Valid) (n : Nat) {h : PyLS} {ds : DefSem} (hr : Represents h ds) (k : Nat) :
    (LanguageSemantics.get_sort so (n + 2) h k).map (Option.map fun s => s.name)
      = some (if ds.sg.sorts.contains k then some k else none) := by
  obtain ⟨r, rfl, rfl⟩ := hr
  rw [ls_get_sort_heap so hso]
  show _ = some (if (sgOf r).sorts.contains k then some k else none)
  rw [← kHas_sorts, kHas, sorts_lookup']
  unfold sortOf
  cases r.sorts.find? (·.1 == k) <;> rfl

/-- `get_symbol(name)` on a finished semantics: the declaration of the signature with this name (`ValueError` if there is none) -/
theorem get_symbol_eq (so : SetOrder) (hso : so.Valid) (n : Nat) {h : PyLS} {ds : DefSem} (hr : Represents h ds) (k : Nat) :
    (LanguageSemantics.get_symbol so (n + 2) h k).map (Option.map symDeclOf) = some (ds.sg.symbols.find? (·.name == k)) := by
  obtain ⟨r, rfl, rfl⟩ := hr
  rw [← get_symbol_view so hso n]
  simp only [PyK.get_symbol, semView, sigView_heapOf]
  show _ = some ((sgOf r).symbols.find? (·.name == k))
  cases (sgOf r).symbols.find? (·.name == k) <;> rfl

/-- `resolve_to_ksymbol(Symbol(s))` on a finished semantics: the declaration of the Kore symbol that `s` names, if `s` is a `ksym_` name -/
theorem resolve_to_ksymbol_eq (so : SetOrder) (hso : so.Valid) (n : Nat) {h : PyLS} {ds : DefSem} (hr : Represents h ds) (s : Nat) :
    (LanguageSemantics.resolve_to_ksymbol so (n + 2) h (.sym s)).map (Option.map (Option.map symDeclOf))
      = ret (if s ≥ 2001 ∧ s < 100000 ∧ (s - 2001) % 2 = 0 then ds.sg.symbols.find? (·.name == (s - 2001) / 2) else none) := by
  obtain ⟨r, rfl, rfl⟩ := hr
  rw [resolve_to_ksymbol_view so hso n]
  simp only [PyK.resolve_to_ksymbol, semView, sigView_heapOf]
  rfl

/-! ## `get_proof_hints` -/

/-- the `RewriteStepExpression` of a step -/
def hintOf (s : Step) : PyHint :=
  { configuration_before := s.before, configuration_after := s.after, «axiom» := axiomOf s.rule, substitutions := s.subst }

theorem axiomOf_setScope (ru : Rule) (sc : Scope) : axiomOf { ru with scope := sc } = axiomOf ru := by
  cases ru with | mk o k p s => cases k <;> rfl

theorem axiomsDict_setScope (rules : List Rule) (o : Nat) (sc : Scope) : axiomsDict (setScope rules o sc) = axiomsDict rules := by
  induction rules with
  | nil => rfl
  | cons ru l ih =>
    simp only [setScope]
    by_cases h : (ru.ordinal == o) = true
    · simp only [h, if_true, axiomsDict, List.map_cons, axiomOf_setScope]
    · simp only [h, Bool.false_eq_true, if_false]
      simp only [axiomsDict, List.map_cons] at ih ⊢
      rw [ih]

theorem scopesDict_setScope (rules : List Rule) (o : Nat) (sc : Scope) (ru : Rule) (h : rules.find? (·.ordinal == o) = some ru) :
    kSet (scopesDict rules) o (scopeObj sc) = scopesDict (setScope rules o sc) := by
  induction rules with
  | nil => simp at h
  | cons r0 l ih =>
    simp only [List.find?_cons] at h
    by_cases h0 : (r0.ordinal == o) = true
    · simp only [setScope, h0, if_true, scopesDict, List.map_cons, kSet]
    · simp only [h0] at h
      simp only [setScope, h0, Bool.false_eq_true, if_false, scopesDict, List.map_cons, kSet]
      simp only [scopesDict] at ih
      rw [ih h]

/-- the store after the scope of the rule `o` has been extended -/
def withRules (r : RSt) (rules : List Rule) : RSt := { r with rules := rules }

theorem sgOf_withRules (r : RSt) (rules : List Rule) : sgOf (withRules r rules) = sgOf r := rfl
theorem withRules_rules (r : RSt) (rules : List Rule) : (withRules r rules).rules = rules := rfl
theorem withRules_withRules (r : RSt) (a b : List Rule) : withRules (withRules r a) b = withRules r b := rfl

theorem heap_setScope (pL pM : Option Bool) (r : RSt) (o : Nat) (sc : Scope) (ru : Rule)
    (h : r.rules.find? (·.ordinal == o) = some ru) :
    semBack (heapOf pL pM r) { semView (heapOf pL pM r) with _cached_axiom_scopes := kSet (semView (heapOf pL pM r))._cached_axiom_scopes o (scopeObj sc) }
      = heapOf pL pM (withRules r (setScope r.rules o sc)) := by
  simp only [semBack, semView, heapOf, withRules, rawHeap]
  rw [scopesDict_setScope _ _ _ _ h, axiomsDict_setScope]
  rfl

/-- what one pair of consecutive trace items does -/
def pairStep (r : RSt) (post : NPat) (e : PyTraceItem × PyTraceItem) : Option (Option (RSt × NPat × Step)) :=
  match e with
  | (.rule o σ, .config c) =>
    match convertPattern (sgOf r) c with
    | none => none
    | some post' =>
      match r.rules.find? (·.ordinal == o) with
      | none => none
      | some ru =>
        match convertSubst (sgOf r) ru.scope (kDictOf σ) [] with
        | none => none
        | some x => some (some (withRules r (setScope r.rules o x.1), post', { before := post, after := post', rule := ru, subst := x.2 }))
  | _ => some none

theorem hints_loop {β} (body : PyTraceItem × PyTraceItem → NPat × NPat × PyLS × List PyHint → (NPat × NPat × PyLS × List PyHint → Py β) → Py β)
    (pL pM : Option Bool)
    (hb : ∀ e pre post r ys cont,
      body e (pre, post, heapOf pL pM r, ys) cont
        = match pairStep r post e with
          | none => some none
          | some none => cont (pre, post, heapOf pL pM r, ys)
          | some (some (r', post', st)) => cont (post, post', heapOf pL pM r', ys ++ [hintOf st]))
    (k : NPat × NPat × PyLS × List PyHint → Py β) (k' : PyLS × List PyHint → Py β) (hk : ∀ a b h ys, k (a, b, h, ys) = k' (h, ys)) :
    ∀ (pairs : List (PyTraceItem × PyTraceItem)) (pre post : NPat) (r : RSt) (ys : List PyHint),
      forEach pairs (pre, post, heapOf pL pM r, ys) body k
        = match stepsF (sgOf r) r.rules post (pairs.filterMap pairOf) with
          | none => some none
          | some (rules', steps) => k' (heapOf pL pM (withRules r rules'), ys ++ steps.map hintOf) := by
  intro pairs
  induction pairs with
  | nil => intro pre post r ys; simp [forEach, stepsF, hk, withRules]
  | cons e l ih =>
    intro pre post r ys
    simp only [forEach, hb]
    obtain ⟨e1, e2⟩ := e
    cases e1 with
    | otherEvent => simp only [pairStep, pairOf, List.filterMap_cons]; exact ih pre post r ys
    | config c0 => simp only [pairStep, pairOf, List.filterMap_cons]; exact ih pre post r ys
    | rule o σ =>
      cases e2 with
      | otherEvent => simp only [pairStep, pairOf, List.filterMap_cons]; exact ih pre post r ys
      | rule o' σ' => simp only [pairStep, pairOf, List.filterMap_cons]; exact ih pre post r ys
      | config c =>
        simp only [pairStep, pairOf, List.filterMap_cons, stepsF, Option.bind_eq_bind]
        cases convertPattern (sgOf r) c with
        | none => rfl
        | some post' =>
          simp only [Option.bind_some]
          cases hf : r.rules.find? (·.ordinal == o) with
          | none => rfl
          | some ru =>
            simp only [Option.bind_some]
            cases convertSubst (sgOf r) ru.scope (kDictOf σ) [] with
            | none => rfl
            | some x =>
              simp only [Option.bind_some]
              rw [ih post post' (withRules r (setScope r.rules o x.1)) (ys ++ [hintOf _])]
              simp only [sgOf_withRules, withRules_rules, withRules_withRules]
              cases stepsF (sgOf r) (setScope r.rules o x.1) post' _ with
              | none => rfl
              | some y => simp [List.append_assoc]

theorem ls_get_axiom_heap (n : Nat) (pL pM : Option Bool) (r : RSt) (o : Nat) :
    LanguageSemantics.get_axiom (n + 2) (heapOf pL pM r) o = some ((r.rules.find? (·.ordinal == o)).map axiomOf) := by
  unfold LanguageSemantics.get_axiom
  show call (KModule.get_axiom (n + 2) (heapOf pL pM r) 0 o) _ = _
  rw [kmodule_get_axiom_eq]
  cases r.rules.find? (·.ordinal == o) <;> rfl

theorem withRules_self (r : RSt) : withRules r r.rules = r := rfl

/-- `get_proof_hints` on a one-module store is `traceStepsR` -/
theorem get_proof_hints_heap (n : Nat) (pL pM : Option Bool) (r : RSt) (tr : PyLLVMTrace) :
    get_proof_hints (n + 2) (heapOf pL pM r) tr
      = match traceStepsR (proj r) tr with
        | none => some none
        | some (_, rules', steps) => ret (heapOf pL pM (withRules r rules'), steps.map hintOf) := by
  unfold get_proof_hints traceStepsR
  simp only [KoreTie.convert_pattern_eq, semView, sigView_heapOf, proj, Option.bind_eq_bind]
  cases hi : convertPattern (sgOf r) tr.initial_config with
  | none => rfl
  | some init =>
    simp only [call_some, Option.bind_some]
    by_cases hl : tr.trace.length > 0
    · simp only [hl, decide_true, if_true]
      rw [hints_loop _ pL pM _ _ (fun x => ret x) (by intro a b h ys; rfl)]
      · simp only [hintPairs, List.nil_append]
        cases stepsF (sgOf r) r.rules init (List.filterMap pairOf (tr.trace.zip (tr.trace.drop 1))) with
        | none => rfl
        | some x => rfl
      · intro e pre post r ys cont
        obtain ⟨e1, e2⟩ := e
        cases e1 with
        | otherEvent => rfl
        | config c0 => rfl
        | rule o σ =>
          cases e2 with
          | otherEvent => rfl
          | rule o' σ' => rfl
          | config c =>
            simp only [pairStep, KoreTie.convert_pattern_eq, semView, sigView_heapOf]
            cases convertPattern (sgOf r) c with
            | none => rfl
            | some post' =>
              simp only [call_some, ls_get_axiom_heap]
              cases hf : r.rules.find? (·.ordinal == o) with
              | none => rfl
              | some ru =>
                simp only [Option.map_some, call_some]
                have hc : (semView (heapOf pL pM r))._cached_axiom_scopes.lookup o
                    = some (KoreTie.withScope Gen.PyKore.ConvertionScope.__init__ ru.scope) := by
                  show (scopesDict r.rules).lookup o = _
                  rw [scopes_lookup, hf]; rfl
                have := KoreTie.convert_substitutions_eq (semView (heapOf pL pM r)) _ ru.scope (kDictOf σ) o hc
                simp only [semView, sigView_heapOf] at this
                rw [this]
                cases convertSubst (sgOf r) ru.scope (kDictOf σ) [] with
                | none => rfl
                | some x =>
                  simp only [KoreTie.call_ret_val]
                  have hh : semBack (heapOf pL pM r)
                        { sg := sgOf r,
                          _cached_axiom_scopes := kSet (heapOf pL pM r)._cached_axiom_scopes o (KoreTie.withScope Gen.PyKore.ConvertionScope.__init__ x.fst) }
                      = heapOf pL pM (withRules r (setScope r.rules o x.1)) := heap_setScope pL pM r o x.1 ru hf
                  rw [hh]
                  rfl
    · have ht : tr.trace = [] := by
        cases hh : tr.trace with
        | nil => rfl
        | cons a l => simp [hh] at hl
      simp only [ht]
      rfl


/-- `get_proof_hints` on a finished semantics that represents `ds`: it raises exactly when the specification has no
steps for the trace, and otherwise yields the hints of `traceStepsR ds tr` and leaves a semantics that represents `ds` with
the scopes the substitutions have extended -/
theorem get_proof_hints_eq (n : Nat) {h : PyLS} {ds : DefSem} (hr : Represents h ds) (tr : PyLLVMTrace) :
    match traceStepsR ds tr with
    | none => get_proof_hints (n + 2) h tr = raise
    | some (_, rules', steps) =>
        ∃ h', get_proof_hints (n + 2) h tr = ret (h', steps.map hintOf) ∧ Represents h' { ds with rules := rules' } := by
  obtain ⟨r, rfl, rfl⟩ := hr
  rw [get_proof_hints_heap]
  cases traceStepsR (proj r) tr with
  | none => rfl
  | some x => exact ⟨_, rfl, withRules r x.2.1, rfl, rfl⟩

theorem stepsF_first {sg : Sig} {rules : List Rule} {cur : NPat} {l rs s0 ss}
    (h : stepsF sg rules cur l = some (rs, s0 :: ss)) : s0.before = cur := by
  cases l with
  | nil => simp [stepsF] at h
  | cons e l =>
    obtain ⟨o, σ, c⟩ := e
    simp only [stepsF, Option.bind_eq_bind, Option.bind_eq_some_iff] at h
    obtain ⟨post, _, ru, _, x, _, y, _, hy⟩ := h
    simp at hy
    rw [← hy.2.1]

theorem stepOf_hintOf (s : Step) : KoreTie.stepOf (hintOf s) = (s.rule.pattern, s.subst) := by
  cases s with | mk b a ru σ => cases ru with | mk o k p sc => cases k <;> rfl

theorem allRewriting_hints (steps : List Step) (hrw : ∀ s ∈ steps, s.rule.kind = .rewrite) :
    KoreTie.AllRewriting (steps.map hintOf) := by
  intro hnt hmem
  obtain ⟨s, hs, rfl⟩ := List.mem_map.mp hmem
  have := hrw s hs
  cases s with | mk b a ru σ => cases ru with | mk o k p sc =>
    simp at this; subst this; exact ⟨_, rfl⟩

/-- END TO END: a definition of the fragment and a hint stream.  If the specification gives the definition the meaning `ds`
and the trace the initial configuration `init` and the (rewrite) steps `s0 :: ss`, then `from_kore_definition` returns a
semantics, `get_proof_hints` turns the stream into hints, and `ExecutionProofExp.from_proof_hints` on them is the model's
`traceF` on `ds.sg` from `init` over the steps (same caveat about the order in which fuel runs out as `KoreTie.from_proof_hints_eq`) -/
theorem k_pipeline (so : SetOrder) (hso : so.Valid) (n k : Nat) (d : KDefinition) (hf : InFragment d) (ds : DefSem)
    (hd : sigOfDefinition d = some ds) (tr : PyLLVMTrace) (init : NPat) (s0 : Step) (ss : List Step)
    (ht : traceSteps ds tr = some (init, s0 :: ss)) (hrw : ∀ s ∈ s0 :: ss, s.rule.kind = .rewrite) :
    ∃ ls ls' hints,
      LanguageSemantics.from_kore_definition so (n + 2) d = ret ls ∧
      get_proof_hints (n + 2) ls tr = ret (ls', hints) ∧
      sigView ls' = ds.sg ∧
      (Gen.PyKore.ExecutionProofExp.from_proof_hints k hints (semView ls')
          = (match traceF ds.sg k (initSt init) (modelSteps (s0 :: ss)) with
             | none => none
             | some none => some none
             | some (some st) => ret (some (KoreTie.withSt (Gen.PyKore.ExecutionProofExp.__init__ (semView ls') init) st)))
        ∨ (traceF ds.sg k (initSt init) (modelSteps (s0 :: ss)) = none
            ∧ Gen.PyKore.ExecutionProofExp.from_proof_hints k hints (semView ls') = some none)) := by
  have h1 := from_kore_definition_spec so hso n d hf
  rw [hd] at h1
  obtain ⟨ls, hls, hrep⟩ := h1
  have h2 := get_proof_hints_eq n hrep tr
  simp only [traceSteps] at ht
  cases htr : traceStepsR ds tr with
  | none => simp [htr] at ht
  | some x =>
    obtain ⟨init', rules', steps⟩ := x
    simp [htr] at ht
    obtain ⟨rfl, rfl⟩ := ht
    rw [htr] at h2
    obtain ⟨ls', hg, hrep'⟩ := h2
    have hsig : sigView ls' = ds.sg := represents_sig (ds := { ds with rules := rules' }) hrep'
    refine ⟨ls, ls', _, hls, hg, hsig, ?_⟩
    have hbefore : s0.before = init' := by
      simp only [traceStepsR, Option.bind_eq_bind, Option.bind_eq_some_iff] at htr
      obtain ⟨i, _, y, hy, he⟩ := htr
      simp at he
      obtain ⟨rfl, rfl, hs⟩ := he
      obtain ⟨y1, y2⟩ := y
      simp only at hs; subst hs
      exact stepsF_first hy
    have hall := allRewriting_hints (s0 :: ss) hrw
    have := KoreTie.from_proof_hints_eq k (semView ls') (hintOf s0) (ss.map hintOf) hall
    have hsteps : ((hintOf s0 :: ss.map hintOf).map KoreTie.stepOf) = modelSteps (s0 :: ss) := by
      simp [modelSteps, stepOf_hintOf, Function.comp_def]
    have hsg : (semView ls').sg = ds.sg := hsig
    have hcb : (hintOf s0).configuration_before = init' := hbefore
    rw [hsteps, hsg, hcb] at this
    exact this


/-! ## `count_simplifications`: the leaf (the function itself is translated and compared with the real one on every run, not tied) -/

theorem resolve_to_ksymbol_heap (so : SetOrder) (hso : so.Valid) (n : Nat) (pL pM : Option Bool) (r : RSt) (s : Nat) :
    LanguageSemantics.resolve_to_ksymbol so (n + 2) (heapOf pL pM r) (.sym s)
      = ret (if s ≥ 2001 ∧ s < 100000 ∧ (s - 2001) % 2 = 0 then r.symbols.find? (·.name == (s - 2001) / 2) else none) := by
  unfold LanguageSemantics.resolve_to_ksymbol KSymbol.unwrap_kore_name
  simp only [symName, nameStartsWith, nameRemovePrefix]
  by_cases hs : s ≥ 2001 ∧ s < 100000 ∧ (s - 2001) % 2 = 0
  · simp only [hs, decide_true, beq_self_eq_true, if_true, Bool.not_true, Bool.false_eq_true, if_false, and_self,
      KoreTie.call_ret_val, ls_get_symbol_heap so hso]
    cases r.symbols.find? (·.name == (s - 2001) / 2) <;> rfl
  · simp only [hs, decide_false, beq_self_eq_true, if_true, Bool.not_false, if_false, KoreTie.call_ret_val]

/-- a function symbol in the sense of `count_simplifications`: `ksym_<name>` of a declared symbol that is functional, not a cell,
not a constructor -/
def isFunctionSym (r : RSt) (s : Nat) : Bool :=
  match (if s ≥ 2001 ∧ s < 100000 ∧ (s - 2001) % 2 = 0 then r.symbols.find? (·.name == (s - 2001) / 2) else none) with
  | some d => d.is_functional && !d.is_cell && !d.is_ctor
  | none => false

/-- the closure `count_function_symbol` of `count_simplifications` adds one exactly for a function symbol -/
theorem count_function_symbol_eq (so : SetOrder) (hso : so.Valid) (n : Nat) (pL pM : Option Bool) (r : RSt) (acc s : Nat) :
    LanguageSemantics.count_simplifications.count_function_symbol so (n + 2) (heapOf pL pM r) acc (.sym s)
      = ret (acc + if isFunctionSym r s then 1 else 0) := by
  unfold LanguageSemantics.count_simplifications.count_function_symbol isFunctionSym
  rw [resolve_to_ksymbol_heap so hso, KoreTie.call_ret_val]
  cases (if s ≥ 2001 ∧ s < 100000 ∧ (s - 2001) % 2 = 0 then r.symbols.find? (·.name == (s - 2001) / 2) else none) with
  | none => rfl
  | some d =>
    dsimp only
    by_cases hb : (d.is_functional && !d.is_cell && !d.is_ctor) = true
    · rw [if_pos hb, if_pos hb]
    · rw [if_neg hb, if_neg hb]; rfl


/-! ## beyond one module: all modules of a semantics share ONE counter -/

theorem mapPy_inv {α β γ} (l : List α) (f : α → Py β) (k : List β → Py γ) (x : γ) (h : mapPy l f k = ret x) :
    ∃ ys, k ys = ret x := by
  induction l generalizing k with
  | nil => exact ⟨[], h⟩
  | cons a l ih =>
    simp only [mapPy] at h
    cases hf : f a with
    | none => simp [hf, call, ret] at h
    | some o =>
      cases o with
      | none => simp [hf, call, ret] at h
      | some y =>
        simp only [hf, call] at h
        obtain ⟨ys, hy⟩ := ih _ h
        exact ⟨y :: ys, hy⟩

/-- `LanguageSemantics.module` on a semantics that already has a module: the new `KModule` object gets the counter OBJECT of the
main (= last) module, and no counter is created — so the ordinals of a later module continue the count of the earlier ones
(the one-module theorems above never reach this branch) -/
theorem module_shares_counter (h h' : PyLS) (name m' : Nat) (hne : h._imported_modules ≠ [])
    (hm : LanguageSemantics.module h name = ret (h', m')) :
    ∃ main mo mo', h._imported_modules.getLast? = some main ∧ h.modules[main]? = some mo ∧ h'.modules[m']? = some mo' ∧
      mo'.counter = mo.counter ∧ h'.counters = h.counters ∧ h'._imported_modules = h._imported_modules ++ [m'] := by
  unfold LanguageSemantics.module at hm
  have hlen : (h._imported_modules.length == 0) = false := by
    cases hh : h._imported_modules with
    | nil => exact absurd hh hne
    | cons a l => rfl
  cases hp : h._parsing with
  | none => simp [builder_method, attrGet, hp, raise, ret] at hm
  | some b =>
    cases b with
    | false => simp [builder_method, attrGet, hp, raise, ret] at hm
    | true =>
      simp only [builder_method, attrGet, hp, if_true] at hm
      obtain ⟨ys, hy⟩ := mapPy_inv _ _ _ _ hm
      by_cases hc : ys.contains name = true
      · rw [if_pos hc] at hy; simp [raise, ret] at hy
      · rw [if_neg hc] at hy
        simp only [Bool.false_eq_true, if_false, hlen, LanguageSemantics.main_module] at hy
        cases hl : h._imported_modules.getLast? with
        | none => simp [lastOf, hl, call, raise, ret] at hy
        | some main =>
          simp only [lastOf, hl, call, ret] at hy
          cases hmo : h.modules[main]? with
          | none => simp [getMod, hmo, raise] at hy
          | some mo =>
            simp only [getMod, hmo, newModule, Option.some.injEq, Prod.mk.injEq] at hy
            obtain ⟨rfl, rfl⟩ := hy
            exact ⟨main, mo, KModule.__init__ name mo.counter, rfl, hmo, by simp, rfl, rfl, rfl⟩

#print axioms translated
#print axioms module_shares_counter
#print axioms count_function_symbol_eq
#print axioms from_kore_definition_eq
#print axioms stepR_spec
#print axioms from_kore_definition_spec
#print axioms get_axiom_eq
#print axioms cached_scope_eq
#print axioms get_sort_view
#print axioms get_symbol_view
#print axioms resolve_to_ksymbol_view
#print axioms get_sort_eq
#print axioms get_symbol_eq
#print axioms resolve_to_ksymbol_eq
#print axioms get_proof_hints_heap
#print axioms get_proof_hints_eq
#print axioms k_pipeline
end KDefTie
