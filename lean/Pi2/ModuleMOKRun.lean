import Pi2.ModuleMOK
/-!
# One proof expression against the machine (`runC`)

For every proof form (`prop1-3`, `quantifier`, `mp`, `gen`, `dynInst`, `loadAxiom`): the calls the thunk makes push one
proved term `c` on the tracker; `c` is shaped and its expansion is the documented conclusion; the instructions written
for the calls push `ren ρ c.expand` on the machine, every call satisfying `SideK`.
-/
set_option linter.unusedSimpArgs false
set_option linter.unusedVariables false
open Pat PySt

namespace KMod
open NPat

/-- the memory holds published axioms only, all shaped -/
def MemS (mem : List TTerm) : Prop := ∀ t ∈ mem, ∃ a, t = .proved a ∧ a.Shape = true

/-- the machine with a proved pattern pushed -/
def mprov (m : St) (P : Pat) : St := { m with stack := .proved P :: m.stack }

@[simp] theorem mprov_memory (m : St) (P : Pat) : (mprov m P).memory = m.memory := rfl
@[simp] theorem mprov_claims (m : St) (P : Pat) : (mprov m P).claims = m.claims := rfl

/-- the result of running a proof expression, as a proposition -/
def RunOKM (n : Nat) (s : PySt) (acc : List Call) (s1 : PySt) (a1 : List Call) (c : NPat) (pf : Pf) : Prop :=
  Pushed s s1 [(.proved c, false)] ∧ c.Shape = true ∧ Pf.Sem pf c.expand ∧
  ∃ cs, a1 = acc ++ cs ∧ ∀ (ρ : Nat → Nat) (m : St), Agree ρ s1.symtab → MemS s.memory →
    m.memory = s.memory.map (convR ρ) → ∃ is, Sg n s m cs s1 (mprov m (ren ρ c.expand)) is []

def RunC (n : Nat) (ax : List NPat) (k : Nat) : Prop :=
  ∀ pf s acc s1 a1 c, Pf.runF {} ax k s pf acc = some (some (s1, a1, c)) → pf.patsOK = true → pf.InstOK →
    RunOKM n s acc s1 a1 c pf

theorem checkF_inv {ax : List NPat} {k : Nat} {pf : Pf} {s' s1 : PySt} {a' a1 : List Call} {c : NPat}
    (h : checkF ax k pf s' a' = some (some (s1, a1, c))) :
    s1 = s' ∧ a1 = a' ∧ ∃ b st, s'.stack = (.proved c, b) :: st := by
  simp only [checkF] at h
  split at h
  · next c' b' st' hst =>
    simp only [Option.bind_eq_some_iff] at h
    obtain ⟨o, _, h⟩ := h
    cases o with
    | none => simp at h
    | some adv =>
      simp only [Option.bind_eq_some_iff] at h
      obtain ⟨e, _, h⟩ := h
      cases e with
      | false => simp at h
      | true =>
        simp only [if_true, Option.pure_def, Option.some.injEq, Prod.mk.injEq] at h
        obtain ⟨rfl, rfl, rfl⟩ := h
        exact ⟨rfl, rfl, b', st', hst⟩
  · simp at h

/-! ## the axiom rules -/

theorem leafR {n k : Nat} (hk : k ≤ n) {s s3 : PySt} {acc a3 : List Call} (pf : Pf) (c : Call) (cN : NPat)
    (i : Instr)
    (h : doCalls k s [c] acc = some (some (s3, a3)))
    (htr : ∀ n', track1 n' s c = some (some (s.push (.proved cN))))
    (hsh : cN.Shape = true) (hsem : Pf.Sem pf cN.expand)
    (he : emit1 n s c = some (some [i]))
    (hs : ∀ (ρ : Nat → Nat) (m : St), step s.phase m i = some (mprov m (ren ρ cN.expand), none))
    (hsc : SideCond s c) (har : c.arity = 0)
    (hkk : ∀ keys, c ≠ .instantiate keys ∧ c ≠ .instantiatePattern keys) :
    RunOKM n s acc s3 a3 cN pf := by
  obtain ⟨ht, rfl⟩ := MM.doCalls_one h
  rw [htr k] at ht
  simp only [Option.some.injEq] at ht
  subst ht
  refine ⟨⟨rfl, rfl, rfl, rfl, ⟨[], by simp [PySt.push]⟩⟩, hsh, hsem, [c], rfl, ?_⟩
  intro ρ m _ _ _
  exact ⟨[i], by
    simpa using Sg.single (n := n) (j := none) (htr n) he (hs ρ m) rfl
      (sideK_mk _ _ hsc (touches_push0 _ _ har) hkk)⟩

/-- the machine side of `load_axiom(a)` for a shaped axiom over a memory of shaped axioms -/
theorem load_sgS {n k : Nat} (hk : k ≤ n) (ρ : Nat → Nat) {s : PySt} {a : NPat} (m : St)
    (ha : a.Shape = true)
    (ht : track1 k s (.load (.proved a)) = some (some (s.push (.proved a))))
    (hmem : m.memory = s.memory.map (convR ρ)) (hK : MemS s.memory) :
    ∃ i, Sg n s m [.load (.proved a)] (s.push (.proved a)) (mprov m (ren ρ a.expand)) [.load i] [] := by
  have htn := PySt.track1_mono hk _ _ _ ht
  have htn' := htn
  simp only [track1, Option.bind_eq_bind, Option.bind_eq_some_iff] at htn'
  obtain ⟨oi, hidx, h2⟩ := htn'
  cases oi with
  | none => simp at h2
  | some i =>
    obtain ⟨j, u, hj, hu, hteq⟩ := indexF_found n _ _ 0 i hidx
    have hij : i = j := by omega
    subst hij
    obtain ⟨b, rfl, hb⟩ := hK u (List.mem_of_getElem? hu)
    simp only [teqF] at hteq
    have hexp : b.expand = a.expand := by
      have := NPat.peqF_expand n b a true hb ha hteq
      simpa using this.symm
    have hm : m.memory[i]? = some (.proved (ren ρ a.expand)) := by
      rw [hmem, List.getElem?_map, hu]
      simp [convR, hexp]
    refine ⟨i, ?_⟩
    have := Sg.single (m := m) (m1 := mprov m (ren ρ a.expand))
      (i := .load i) (j := none) htn (by simp [emit1, hidx]) (by simp [step, hm, mprov]) rfl
      (sideK_mk _ _ (by simp [SideCond]) (touches_push0 _ _ rfl) (by simp))
    simpa using this

theorem loadR {n k : Nat} (hk : k ≤ n) {s s3 : PySt} {acc a3 : List Call} (a : NPat) (ha : a.Shape = true)
    (h : doCalls k s [.load (.proved a)] acc = some (some (s3, a3))) :
    RunOKM n s acc s3 a3 a (.loadAxiom a) := by
  obtain ⟨ht, rfl⟩ := MM.doCalls_one h
  have e := MM.track1_load_eq ht
  subst e
  refine ⟨⟨rfl, rfl, rfl, rfl, ⟨[], by simp [PySt.push]⟩⟩, ha, .loadAxiom, [.load (.proved a)], rfl, ?_⟩
  intro ρ m _ hM hmem
  obtain ⟨i, G⟩ := load_sgS hk ρ m ha ht hmem hM
  exact ⟨[.load i], G⟩

end KMod

namespace KMod
open NPat

/-! ## modus ponens and generalisation -/

theorem mpR {n k : Nat} (hk : k ≤ n) (ax : List NPat) (ih : RunC n ax k) {s s3 : PySt} {l r : Pf}
    {acc a3 : List Call} (hpl : l.patsOK = true) (hpr : r.patsOK = true) (hil : l.InstOK) (hir : r.InstOK)
    (h : (andThen3 (Pf.runF {} ax k s l acc) fun s1 a1 _ =>
        andThen3 (Pf.runF {} ax k s1 r a1) fun s2 a2 _ => doCalls k s2 [.mp] a2) = some (some (s3, a3))) :
    ∃ c, RunOKM n s acc s3 a3 c (.mp l r) := by
  rcases andThen3_eq_some _ _ _ h with ⟨_, e⟩ | ⟨s1, a1, cl, h1, h⟩
  · cases e
  rcases andThen3_eq_some _ _ _ h with ⟨_, e⟩ | ⟨s2, a2, cr, h2, h⟩
  · cases e
  obtain ⟨ht, rfl⟩ := MM.doCalls_one h
  obtain ⟨P1, hcl, hSl, cs1, rfl, S1⟩ := ih l s acc s1 a1 cl h1 hpl hil
  obtain ⟨P2, hcr, hSr, cs2, rfl, S2⟩ := ih r s1 _ s2 a2 cr h2 hpr hir
  have P12 := P1.trans P2
  have hstk : s2.stack = (.proved cr, false) :: (.proved cl, false) :: s.stack := by simpa using P12.stack
  have ht' := ht
  simp only [track1, hstk, Option.bind_eq_bind, Option.bind_eq_some_iff] at ht'
  obtain ⟨o, hmp, h3⟩ := ht'
  cases o with
  | none => simp at h3
  | some c3 =>
    simp only [Option.pure_def, Option.some.injEq] at h3
    obtain ⟨he, hs3⟩ := pyMP_spec k cl cr c3 hcl hcr hmp
    subst h3
    refine ⟨c3, P12.replace _, hs3, .mp (he ▸ hSl) hSr, cs1 ++ cs2 ++ [.mp], by simp, ?_⟩
    intro ρ m hag hM hmem
    have ag2 : Agree ρ s2.symtab := hag
    have ag1 := P2.agree ag2
    obtain ⟨is1, G1⟩ := S1 ρ m ag1 hM hmem
    obtain ⟨is2, G2⟩ := S2 ρ (mprov m (ren ρ cl.expand)) ag2 (by rw [P1.memory]; exact hM)
      (by rw [P1.memory]; exact hmem)
    have G3 : Sg n s2 (mprov (mprov m (ren ρ cl.expand)) (ren ρ cr.expand)) [.mp]
        { s2 with stack := (.proved c3, false) :: s.stack } (mprov m (ren ρ c3.expand)) [.mp]
        (none : Option Pat).toList :=
      Sg.single (PySt.track1_mono hk _ _ _ ht) rfl (by rw [he]; simp [step, mprov, ren]) rfl
        (sideK_mk _ _ (by simp [SideCond]) (by simp [touchesResidue, Call.arity, hstk]) (by simp))
    refine ⟨is1 ++ is2 ++ [.mp], ?_⟩
    have := (G1.append G2).append G3
    simpa using this

theorem genR {n k : Nat} (hk : k ≤ n) (ax : List NPat) (ih : RunC n ax k) {s s3 : PySt} {p : Pf} {x : VId}
    {acc a3 : List Call} (hpp : p.patsOK = true) (hip : p.InstOK)
    (h : (andThen3 (Pf.runF {} ax k s p acc) fun s1 a1 _ => doCalls k s1 [.gen x] a1) = some (some (s3, a3))) :
    ∃ c, RunOKM n s acc s3 a3 c (.gen p x) := by
  rcases andThen3_eq_some _ _ _ h with ⟨_, e⟩ | ⟨s1, a1, cp, h1, h⟩
  · cases e
  obtain ⟨ht, rfl⟩ := MM.doCalls_one h
  obtain ⟨P1, hcp, hSp, cs1, rfl, S1⟩ := ih p s acc s1 a1 cp h1 hpp hip
  have hstk : s1.stack = (.proved cp, false) :: s.stack := by simpa using P1.stack
  have ht' := ht
  simp only [track1, hstk, Option.bind_eq_bind, Option.bind_eq_some_iff] at ht'
  obtain ⟨o, hg, h3⟩ := ht'
  cases o with
  | none => simp at h3
  | some c3 =>
    simp only [Option.pure_def, Option.some.injEq] at h3
    obtain ⟨L, R, he, hfr, he3, hs3⟩ := pyGen_spec k cp c3 x hcp hg
    subst h3
    refine ⟨c3, P1.replace _, hs3, ?_, cs1 ++ [.gen x], by simp, ?_⟩
    · rw [he3]; exact .gen (he ▸ hSp) hfr
    intro ρ m hag hM hmem
    have ag1 : Agree ρ s1.symtab := hag
    obtain ⟨is1, G1⟩ := S1 ρ m ag1 hM hmem
    have G3 : Sg n s1 (mprov m (ren ρ cp.expand)) [.gen x]
        { s1 with stack := (.proved c3, false) :: s.stack } (mprov m (ren ρ c3.expand)) [.gen x]
        (none : Option Pat).toList :=
      Sg.single (PySt.track1_mono hk _ _ _ ht) rfl (by rw [he, he3]; simp [step, mprov, ren, hfr]) rfl
        (sideK_mk _ _ (by simp [SideCond]) (by simp [touchesResidue, Call.arity, hstk]) (by simp))
    refine ⟨is1 ++ [.gen x], ?_⟩
    have := G1.append G3
    simpa using this

end KMod

namespace KMod
open NPat

/-! ## instantiation -/

theorem dynEmptyR {n k : Nat} (ax : List NPat) (ih : RunC n ax k) {s s3 : PySt} {p : Pf}
    {δ : List (Nat × NPat)} {acc a3 : List Call} (hpp : p.patsOK = true) (hip : p.InstOK)
    (hemp : δ.isEmpty = true)
    (h : (andThen3 (Pf.runF {} ax k s p acc) fun s1 a1 _ => pure (some (s1, a1))) = some (some (s3, a3))) :
    ∃ c, RunOKM n s acc s3 a3 c (.dynInst p δ) := by
  rcases andThen3_eq_some _ _ _ h with ⟨_, e⟩ | ⟨s1, a1, cp, h1, h⟩
  · cases e
  simp only [Option.pure_def, Option.some.injEq, Prod.mk.injEq] at h
  obtain ⟨rfl, rfl⟩ := h
  obtain ⟨P1, hcp, hSp, cs1, rfl, S1⟩ := ih p s acc s1 a1 cp h1 hpp hip
  refine ⟨cp, P1, hcp, ?_, cs1, rfl, S1⟩
  have : Pf.Sem (.dynInst p δ) (Py.inst (Py.lookup (NPat.expand.expandMap δ)) cp.expand) := .dynInst hSp
  rw [← NPat.inst_isEmpty δ hemp cp hcp] at this
  exact this

theorem dynR {n k : Nat} (hk : k ≤ n) (ax : List NPat) (ih : RunC n ax k) {s s3 : PySt} {p : Pf}
    {δ : List (Nat × NPat)} {acc a3 : List Call} (hpp : p.patsOK = true) (hip : p.InstOK)
    (hmok : MOKMap δ = true) (hshape : ShapeMap δ = true) (hnd : (δ.map (·.1)).Nodup)
    (hne : δ.isEmpty = false)
    (hinst : ∀ A, Pf.Sem p A → (Pat.inst (Py.lookup (NPat.expand.expandMap δ)) A).isSome = true)
    (h : (andThen (patternF.patternListF {} k s (δ.map (·.2)) acc) fun s1 a1 =>
        andThen3 (Pf.runF {} ax k s1 p a1) fun s2 a2 _ =>
          doCalls k s2 [.instantiate (δ.map (·.1))] a2) = some (some (s3, a3))) :
    ∃ c, RunOKM n s acc s3 a3 c (.dynInst p δ) := by
  rcases andThen_eq_some _ _ _ h with ⟨_, e⟩ | ⟨t1, b1, h1, h⟩
  · cases e
  rcases andThen3_eq_some _ _ _ h with ⟨_, e⟩ | ⟨t2, b2, c2, h2, h⟩
  · cases e
  obtain ⟨hti, rfl⟩ := MM.doCalls_one h
  have hlen : (δ.map (·.2)).length = (δ.map (·.1)).length := by simp
  have hke : (δ.map (·.1)).isEmpty = false := by
    cases δ with
    | nil => simp at hne
    | cons _ _ => rfl
  have hz : (δ.map (·.1)).zip (δ.map (·.2)) = δ := zip_keys_vals δ
  -- the plugs, with the canonical naming of their own table (frame only)
  obtain ⟨P1, cs1, rfl, _⟩ := patternList_compiles (n := n) hk (fun nm => t1.symtab.idxOf nm) h1
    (MOKMap_vals hmok) (agree_idxOf _)
  obtain ⟨P2, hc2, hS2, cs2, rfl, S2⟩ := ih p t1 _ t2 b2 c2 h2 hpp hip
  have P12 := P1.trans P2
  have hstk2 : t2.stack = (.proved c2, false) :: ((δ.map (·.2)).reverse.map entry ++ s.stack) := by
    simpa using P12.stack
  have htp := takePlugs_vals (δ.map (·.2)) s.stack
  rw [hlen] at htp
  have hti' := hti
  simp only [track1, hstk2, hke, Bool.false_eq_true, if_false, htp, hz,
    Option.bind_eq_bind, Option.bind_eq_some_iff, Option.pure_def, Option.some.injEq] at hti'
  obtain ⟨c3, hi3, hs3⟩ := hti'
  obtain ⟨hce, hcs⟩ := NPat.instF_expand _ δ c2 c3 hc2 hshape hi3
  obtain ⟨r0, hr0⟩ := Option.isSome_iff_exists.mp (hinst _ hS2)
  have hr0e : r0 = c3.expand := by
    rw [hce]; exact (C11.py_inst_eq_rust _ _ _ hr0).symm
  subst hs3
  refine ⟨c3, P12.replace _, hcs, ?_, cs1 ++ cs2 ++ [.instantiate (δ.map (·.1))], by simp, ?_⟩
  · rw [hce]; exact .dynInst hS2
  intro ρ m hag hM hmem
  have ag2 : Agree ρ t2.symtab := hag
  have ag1 := P2.agree ag2
  obtain ⟨_, cs1', hcs1', S1⟩ := patternList_compiles (n := n) hk ρ h1 (MOKMap_vals hmok) ag1
  have ecs : cs1' = cs1 := List.append_cancel_left hcs1'.symm
  subst ecs
  obtain ⟨is1, G1⟩ := S1 m
  obtain ⟨is2, G2⟩ := S2 ρ (mpush m ((δ.map (·.2)).reverse.map fun p => ren ρ p.expand)) ag2
    (by rw [P1.memory]; exact hM) (by rw [P1.memory]; exact hmem)
  have hstep := step_inst_proved ρ t2.phase m c2.expand r0 (δ.map (·.1)) (δ.map (·.2))
    hnd hlen (by rw [hz]; exact hr0)
  rw [hr0e] at hstep
  have G3 := Sg.single (n := n) (PySt.track1_mono hk _ _ _ hti) (i := .instantiate (δ.map (·.1)).reverse) rfl
    hstep rfl (sideK_inst _ _ (δ.map (·.1)) (δ.map (·.2)) (.proved c2) s.stack (Or.inl rfl) hnd hlen
      hstk2 (by rw [hz]; exact hinst _ hS2))
  refine ⟨is1 ++ is2 ++ [.instantiate (δ.map (·.1)).reverse], ?_⟩
  have := (G1.append G2).append G3
  simpa [mpush, mprov] using this

end KMod

namespace KMod
open NPat

/-! ## all proof forms -/

theorem rawC {n k : Nat} (hk : k ≤ n) (ax : List NPat) (ih : RunC n ax k) {s s3 : PySt} {pf : Pf}
    {acc a3 : List Call} (hp : pf.patsOK = true) (hi : pf.InstOK)
    (h : rawF {} ax k s pf acc = some (some (s3, a3))) : ∃ c, RunOKM n s acc s3 a3 c pf := by
  cases pf with
  | prop1 =>
    exact ⟨_, leafR hk .prop1 .prop1 prop1N .prop1 h (fun _ => rfl) (by decide) .prop1 rfl
      (fun ρ m => rfl) (by simp [SideCond]) rfl (by simp)⟩
  | prop2 =>
    exact ⟨_, leafR hk .prop2 .prop2 prop2N .prop2 h (fun _ => rfl) (by decide) .prop2 rfl
      (fun ρ m => rfl) (by simp [SideCond]) rfl (by simp)⟩
  | prop3 =>
    exact ⟨_, leafR hk .prop3 .prop3 prop3N .prop3 h (fun _ => rfl) (by decide) .prop3 rfl
      (fun ρ m => rfl) (by simp [SideCond]) rfl (by simp)⟩
  | quantifier =>
    exact ⟨_, leafR hk .quantifier .quantifier quantN .quantifier h (fun _ => rfl) (by decide) .quantifier rfl
      (fun ρ m => rfl) (by simp [SideCond]) rfl (by simp)⟩
  | loadAxiom a =>
    simp only [Pf.patsOK] at hp
    exact ⟨a, loadR hk a hp h⟩
  | mp l r =>
    simp only [Pf.patsOK, Bool.and_eq_true] at hp
    exact mpR hk ax ih hp.1 hp.2 hi.1 hi.2 h
  | gen p x =>
    simp only [Pf.patsOK] at hp
    exact genR hk ax ih hp hi h
  | dynInst p δ =>
    simp only [Pf.patsOK, Bool.and_eq_true, decide_eq_true_eq] at hp
    obtain ⟨⟨⟨hpp, hmok⟩, hshape⟩, hnd⟩ := hp
    cases hne : δ.isEmpty with
    | true =>
      simp only [rawF, hne, if_true] at h
      exact dynEmptyR ax ih hpp hi.1 hne h
    | false =>
      simp only [rawF, hne, Bool.false_eq_true, if_false] at h
      exact dynR hk ax ih hpp hi.1 hmok hshape hnd hne (hi.2 hne) h

theorem runC_step {n k : Nat} (hk : k + 1 ≤ n) (ax : List NPat) (ih : RunC n ax k) : RunC n ax (k + 1) := by
  intro pf s acc s1 a1 c h hp hi
  rw [runF_succ] at h
  rcases andThen_eq_some _ _ _ h with ⟨_, e⟩ | ⟨s3, a3, hraw, hchk⟩
  · cases e
  obtain ⟨rfl, rfl, b, st, hst⟩ := checkF_inv hchk
  obtain ⟨c', hR⟩ := rawC (by omega) ax ih hp hi hraw
  have := hR.1.stack
  rw [hst] at this
  simp only [List.singleton_append, List.cons.injEq, Prod.mk.injEq, TTerm.proved.injEq] at this
  obtain ⟨⟨rfl, _⟩, _⟩ := this
  exact hR

theorem runC_all (n : Nat) (ax : List NPat) : ∀ k, k ≤ n → RunC n ax k := by
  intro k
  induction k with
  | zero => intro _ pf s acc s1 a1 c h; simp [Pf.runF] at h
  | succ k ih => intro hk; exact runC_step hk ax (ih (by omega))

/-- **one proof expression against the machine** -/
theorem runC {n k : Nat} (hk : k ≤ n) (ax : List NPat) {pf : Pf} {s s1 : PySt} {acc a1 : List Call} {c : NPat}
    (h : Pf.runF {} ax k s pf acc = some (some (s1, a1, c))) (hp : pf.patsOK = true) (hi : pf.InstOK) :
    RunOKM n s acc s1 a1 c pf :=
  runC_all n ax k hk pf s acc s1 a1 c h hp hi

end KMod
