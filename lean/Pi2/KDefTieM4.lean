import Pi2.KDefTieM3
/-!
# One sentence on the refined state with k modules against the specification: `addSentenceM (projM st) s = (stepM n st s).map projM`
-/
set_option linter.unusedVariables false
set_option linter.unusedSimpArgs false
namespace KDefTieM2
open PyI PyM PyK Kore Gen.PyKDef KDefSpec KDefTie KDefTieM

/-! ## `findMod` -/

theorem findMod_some {ms : List RMod} {mn j : Nat} {m : RMod} (h : findMod ms mn = some (j, m)) :
    ms[j]? = some m ∧ m.name = mn := by
  induction ms generalizing j with
  | nil => simp [findMod] at h
  | cons a l ih =>
    simp only [findMod] at h
    by_cases ha : (a.name == mn) = true
    · simp only [ha, if_true, Option.some.injEq, Prod.mk.injEq] at h
      obtain ⟨rfl, rfl⟩ := h
      exact ⟨rfl, by simpa using ha⟩
    · simp only [ha, Bool.false_eq_true, if_false] at h
      cases hf : findMod l mn with
      | none => simp [hf] at h
      | some p =>
        obtain ⟨j', m'⟩ := p
        simp only [hf, Option.map_some, Option.some.injEq, Prod.mk.injEq] at h
        obtain ⟨rfl, rfl⟩ := h
        have := ih hf
        exact ⟨by simpa using this.1, this.2⟩

theorem findMod_none {ms : List RMod} {mn : Nat} (h : findMod ms mn = none) : ∀ m ∈ ms, m.name ≠ mn := by
  induction ms with
  | nil => intro m hm; cases hm
  | cons a l ih =>
    simp only [findMod] at h
    by_cases ha : (a.name == mn) = true
    · simp [ha] at h
    · simp only [ha, Bool.false_eq_true, if_false, Option.map_eq_none_iff] at h
      intro m hm
      rcases List.mem_cons.1 hm with rfl | hm
      · simpa using ha
      · exact ih h m hm

theorem findMod_find (ms : List RMod) (mn : Nat) :
    (ms.map projMod).find? (·.name == mn) = (findMod ms mn).map fun p => projMod p.2 := by
  induction ms with
  | nil => rfl
  | cons a l ih =>
    simp only [List.map_cons, List.find?_cons, findMod]
    by_cases ha : (a.name == mn) = true
    · have : ((projMod a).name == mn) = true := ha
      simp [this, ha]
    · have : ((projMod a).name == mn) = false := by
        show (a.name == mn) = false
        simpa using ha
      simp only [this, ha, Bool.false_eq_true, if_false, ih, Option.map_map]
      rfl

/-! ## the projection, explicitly -/

theorem projM_eq (st : RStM) :
    projM st = { all := { sg := { sorts := (st.done.flatMap fun m => m.sorts.map (·.1)) ++ st.cur.sorts.map (·.1),
                                  symbols := (st.done.flatMap fun m => m.symbols.map symDeclOf) ++ st.cur.symbols.map symDeclOf },
                          rules := st.done.flatMap (·.rules) ++ st.cur.rules, nAxioms := st.nAxioms },
                 done := st.done.map projMod, cur := projMod st.cur } := by
  simp [projM, RStM.mods, sgM, List.flatMap_append]

theorem sgM_snoc_irrel (done : List RMod) (c c' : RMod) (h1 : c'.sorts = c.sorts) (h2 : c'.symbols = c.symbols) :
    sgM (done ++ [c']) = sgM (done ++ [c]) := by
  simp [sgM, List.flatMap_append, h1, h2]

theorem contains_names (l : List PyKSymbol) (nm : Nat) :
    (l.map (·.name)).contains nm = (l.map symDeclOf).any (·.name == nm) := by
  induction l with
  | nil => rfl
  | cons e l ih =>
    simp only [List.map_cons, List.any_cons, List.contains_cons, symDeclOf_name]
    by_cases h : e.name = nm
    · subst h; simp
    · have h1 : (e.name == nm) = false := by simpa using h
      have h2 : (nm == e.name) = false := by simpa using fun h' : nm = e.name => h h'.symm
      simp only [h1, h2, Bool.false_or]; exact ih

theorem kHas_symbolsM (m : RMod) (nm : Nat) : kHas (symbolsDict (toR m)) nm = (m.symbols.map (·.name)).contains nm := by
  rw [kHas_symbols, contains_names]; rfl

theorem kHas_sortsM (m : RMod) (nm : Nat) : kHas (sortsDict (toR m)) nm = (m.sorts.map (·.1)).contains nm :=
  kHas_sorts (toR m) nm

theorem sortRefM_ok (n : Nat) (st : RStM)
    (hvis : ∀ k, (visT n st k).isSome = (projM st).visibleSorts.contains k) (vars : List KSort) (s : KSort) :
    (sortRefM (visT n st) (varMap vars) s).isSome = sortOk { sorts := (projM st).visibleSorts, symbols := [] } vars s := by
  cases s with
  | var x =>
    simp only [sortRefM, sortOk, Option.isSome_map, varMap, kDictOf_has, List.any_map]
    rfl
  | app k =>
    simp only [sortRefM, sortOk, Option.isSome_map]
    exact hvis k

/-- under the invariant, the name test of the specification is the reference test of the builder -/
theorem import_contains {st : RStM} (hinv : InvM st) {mn j : Nat} {mj : RMod} (hf : findMod st.done mn = some (j, mj)) :
    st.cur.inames.contains mn = st.cur.imports.contains j := by
  obtain ⟨hj, hname⟩ := findMod_some hf
  obtain ⟨hlt, hin, _, _⟩ := hinv.curOK
  rw [hin]
  have hnj : nameAt st.done j = mn := by simp [nameAt, hj, hname]
  by_cases h : j ∈ st.cur.imports
  · have h1 : st.cur.imports.contains j = true := by simpa using h
    rw [h1]
    simp only [List.contains_iff_mem, List.mem_map]
    exact ⟨j, h, hnj⟩
  · have h1 : st.cur.imports.contains j = false := by simpa using h
    rw [h1]
    rw [Bool.eq_false_iff]
    intro hc
    simp only [List.contains_iff_mem, List.mem_map] at hc
    obtain ⟨i, hi, hni⟩ := hc
    have hil := hlt i hi
    have hi' : st.done[i]? = some st.done[i] := List.getElem?_eq_getElem hil
    have hnm : st.done[i].name = mn := by simpa [nameAt, hi'] using hni
    have hjl := idx_lt hj
    have := hinv.distinct i j st.done[i] mj (by simp [RStM.mods, List.getElem?_append_left hil])
      (by rw [RStM.mods, List.getElem?_append_left hjl]; exact hj) (by rw [hnm, hname])
    subst this
    exact h hi

/-! ## one sentence -/

theorem stepM_spec (n : Nat) (st : RStM) (s : KSentence) (hinv : InvM st)
    (hvis : ∀ k, (visT n st k).isSome = (projM st).visibleSorts.contains k) :
    addSentenceM (projM st) s = (stepM n st s).map projM := by
  cases s with
  | other => rfl
  | «import» mn =>
    simp only [addSentenceM, stepM]
    have hfind : (projM st).done.find? (·.name == mn) = (findMod st.done mn).map fun p => projMod p.2 := findMod_find st.done mn
    rw [hfind]
    cases hf : findMod st.done mn with
    | none => rfl
    | some p =>
      obtain ⟨j, mj⟩ := p
      have hc : (projM st).cur.imports.contains mn = st.cur.imports.contains j := import_contains hinv hf
      simp only [Option.map_some, hc]
      by_cases hh : st.cur.imports.contains j = true
      · rw [if_pos hh, if_pos hh]; rfl
      · rw [if_neg hh, if_neg hh]
        simp only [Option.map_some, Option.some.injEq]
        simp [projM, RStM.mods, sgM, List.flatMap_append, projMod]
  | sortDecl nm hk =>
    simp only [addSentenceM, stepM, kHas_sortsM]
    have hc : (projM st).cur.sorts.contains nm = (st.cur.sorts.map (·.1)).contains nm := rfl
    rw [hc]
    by_cases h : (st.cur.sorts.map (·.1)).contains nm = true
    · rw [if_pos h, if_pos h]; rfl
    · rw [if_neg h, if_neg h]
      simp [projM, RStM.mods, sgM, List.flatMap_append, projMod]
  | «axiom» p =>
    simp only [addSentenceM, stepM, ruleOf]
    have hsg : (projM st).all.sg = sgM st.mods := rfl
    rw [hsg]
    by_cases h1 : isRewriteRule p = true
    · simp only [h1, if_true]
      cases conv (sgM st.mods) {} (stripSideConditions p) with
      | none => rfl
      | some r => simp [projM, RStM.mods, sgM, List.flatMap_append, projMod, addRuleM]
    · by_cases h2 : isEquationalRule p = true
      · simp only [h1, h2, if_true, Bool.false_eq_true, if_false]
        cases conv (sgM st.mods) {} p with
        | none => rfl
        | some r => simp [projM, RStM.mods, sgM, List.flatMap_append, projMod, addRuleM]
      · simp only [h1, h2, Bool.false_eq_true, if_false]
        simp [projM, RStM.mods, sgM, List.flatMap_append, projMod]
  | symbolDecl nm vars params srt attrs =>
    have hs : (projM st).cur.symbols.contains nm = kHas (symbolsDict (toR st.cur)) nm := (kHas_symbolsM st.cur nm).symm
    have hall : (params ++ [srt]).all (sortOk { sorts := (projM st).visibleSorts, symbols := [] } vars)
        = ((mapOpt (sortRefM (visT n st) (varMap vars)) params).isSome && (sortRefM (visT n st) (varMap vars) srt).isSome) := by
      rw [mapOpt_isSome, List.all_append]; simp [sortRefM_ok n st hvis]
    simp only [addSentenceM, stepM, hs, hall]
    cases hm : mapOpt (sortRefM (visT n st) (varMap vars)) params with
    | none => by_cases hh : kHas (symbolsDict (toR st.cur)) nm = true <;> simp [hh]
    | some ins =>
      cases ho : sortRefM (visT n st) (varMap vars) srt with
      | none => by_cases hh : kHas (symbolsDict (toR st.cur)) nm = true <;> simp [hh]
      | some out =>
        by_cases hh : kHas (symbolsDict (toR st.cur)) nm = true
        · simp [hh]
        · simp [hh, projM, RStM.mods, sgM, List.flatMap_append, projMod, symDeclOf, symDecl, ← attr_has, mapOpt_length hm]

/-! ## the invariant is kept -/

theorem distinctNames_congr {ms ms' : List RMod} (h : ms'.map (·.name) = ms.map (·.name)) (hd : DistinctNames ms) :
    DistinctNames ms' := by
  intro a b x y ha hb hxy
  have ha' : (ms'.map (·.name))[a]? = some x.name := by simp [ha]
  have hb' : (ms'.map (·.name))[b]? = some y.name := by simp [hb]
  rw [h] at ha' hb'
  simp only [List.getElem?_map, Option.map_eq_some_iff] at ha' hb'
  obtain ⟨x0, hx0, hx0n⟩ := ha'
  obtain ⟨y0, hy0, hy0n⟩ := hb'
  exact hd a b x0 y0 hx0 hy0 (by rw [hx0n, hy0n, hxy])

theorem flatMap_congr' {α β} {l : List α} {f g : α → List β} (h : ∀ a ∈ l, f a = g a) : l.flatMap f = l.flatMap g := by
  induction l with
  | nil => rfl
  | cons a l ih =>
    simp only [List.flatMap_cons]
    rw [h a (List.mem_cons_self ..), ih fun b hb => h b (List.mem_cons_of_mem _ hb)]

theorem getElem?_take_lt {α} (l : List α) {i j : Nat} (h : i < j) : (l.take j)[i]? = l[i]? := by
  simp [List.getElem?_take, h]

theorem nameAt_take (ms : List RMod) {i j : Nat} (h : i < j) : nameAt (ms.take j) i = nameAt ms i := by
  simp only [nameAt, getElem?_take_lt ms h]

theorem clAt_take (ms : List RMod) {i j : Nat} (h : i < j) : clAt (ms.take j) i = clAt ms i := by
  simp only [clAt, getElem?_take_lt ms h]

theorem closed_of_doneOK {done : List RMod} (h : ∀ (i : Nat) (m : RMod), done[i]? = some m → ModOK (done.take i) m) :
    Closed done := by
  intro i m hm
  obtain ⟨h1, _, h3, _⟩ := h i m hm
  have hil := idx_lt hm
  have hlen : (done.take i).length = i := by simp [List.length_take]; omega
  have hlt : ∀ j ∈ m.imports, j < i := fun j hj => by have := h1 j hj; omega
  refine ⟨hlt, ?_⟩
  rw [h3]
  congr 1
  exact flatMap_congr' fun j hj => by rw [clAt_take _ (hlt j hj)]

theorem wf_cur {st : RStM} (hinv : InvM st) : ∀ ru ∈ st.cur.rules, ru.ordinal < st.nAxioms := by
  intro ru hru
  apply hinv.wf ru
  simp only [RStM.mods, List.flatMap_append, List.mem_append, List.flatMap_cons, List.flatMap_nil, List.append_nil]
  exact .inr hru

theorem inv_of {st st' : RStM} (hinv : InvM st) (hd : st'.done = st.done) (hn : st'.cur.name = st.cur.name)
    (hok : ModOK st.done st'.cur) (hp : st'.cur.parsing = some true)
    (hw : ∀ ru ∈ st'.cur.rules, ru.ordinal < st'.nAxioms) (hle : st.nAxioms ≤ st'.nAxioms) : InvM st' := by
  refine ⟨?_, ?_, ?_, hp, ?_⟩
  · apply distinctNames_congr _ hinv.distinct
    simp [RStM.mods, hd, hn]
  · rw [hd]; exact hinv.doneOK
  · rw [hd]; exact hok
  · intro ru hru
    simp only [RStM.mods, List.flatMap_append, List.mem_append, hd, List.flatMap_cons, List.flatMap_nil, List.append_nil] at hru
    rcases hru with h | h
    · have := hinv.wf ru (by simp only [RStM.mods, List.flatMap_append, List.mem_append]; exact .inl h)
      omega
    · exact hw ru h

theorem modOK_import {st : RStM} (hinv : InvM st) {mn j : Nat} {mj : RMod} (hf : findMod st.done mn = some (j, mj)) :
    ModOK st.done { st.cur with imports := st.cur.imports ++ [j], inames := st.cur.inames ++ [mn],
                                cl := fromkeys ((st.cur.imports ++ [j]).flatMap fun i => i :: clAt st.done i),
                                reach := st.cur.reach ++ mn :: mj.reach } := by
  obtain ⟨hj, hname⟩ := findMod_some hf
  obtain ⟨hlt, hin, hcl, hreach⟩ := hinv.curOK
  have hjl := idx_lt hj
  have hnj : nameAt st.done j = mn := by simp [nameAt, hj, hname]
  have hC := closed_of_doneOK hinv.doneOK
  obtain ⟨_, _, _, hreachj⟩ := hinv.doneOK j mj hj
  have hclj : clAt st.done j = mj.cl := by simp [clAt, hj]
  refine ⟨?_, ?_, rfl, ?_⟩
  · intro i hi
    rcases List.mem_append.1 hi with hi | hi
    · exact hlt i hi
    · have : i = j := by simpa using hi
      omega
  · show st.cur.inames ++ [mn] = (st.cur.imports ++ [j]).map (nameAt st.done)
    rw [List.map_append, hin]; simp [hnj]
  · intro x
    show x ∈ st.cur.reach ++ mn :: mj.reach ↔
      ∃ i ∈ fromkeys ((st.cur.imports ++ [j]).flatMap fun i => i :: clAt st.done i), nameAt st.done i = x
    have hmj : x ∈ mj.reach ↔ ∃ i ∈ mj.cl, nameAt st.done i = x := by
      rw [hreachj x]
      constructor
      · rintro ⟨i, hi, hx⟩; exact ⟨i, hi, by rw [← nameAt_take st.done (cl_lt hC j mj i hj hi)]; exact hx⟩
      · rintro ⟨i, hi, hx⟩; exact ⟨i, hi, by rw [nameAt_take st.done (cl_lt hC j mj i hj hi)]; exact hx⟩
    have hcur : ∀ i, i ∈ st.cur.cl ↔ i ∈ st.cur.imports.flatMap fun i => i :: clAt st.done i := by
      intro i; rw [hcl, mem_fromkeys]
    simp only [List.mem_append, List.mem_cons, hreach x, hmj, mem_fromkeys, List.flatMap_append, List.flatMap_cons,
      List.flatMap_nil, List.append_nil, hclj]
    constructor
    · rintro (⟨i, hi, hx⟩ | rfl | ⟨i, hi, hx⟩)
      · exact ⟨i, .inl ((hcur i).1 hi), hx⟩
      · exact ⟨j, .inr (.inl rfl), hnj⟩
      · exact ⟨i, .inr (.inr hi), hx⟩
    · rintro ⟨i, hi | rfl | hi, hx⟩
      · exact .inl ⟨i, (hcur i).2 hi, hx⟩
      · exact .inr (.inl (by rw [← hx, hnj]))
      · exact .inr (.inr ⟨i, hi, hx⟩)

theorem stepM_inv (n : Nat) {st st' : RStM} {s : KSentence} (hinv : InvM st) (h : stepM n st s = some st') :
    InvM st' ∧ st'.done = st.done ∧ st'.cur.name = st.cur.name := by
  cases s with
  | other => simp only [stepM, Option.some.injEq] at h; subst h; exact ⟨hinv, rfl, rfl⟩
  | «import» mn =>
    simp only [stepM] at h
    cases hf : findMod st.done mn with
    | none => simp [hf] at h
    | some p =>
      obtain ⟨j, mj⟩ := p
      simp only [hf] at h
      split at h
      · cases h
      · simp only [Option.some.injEq] at h
        subst h
        exact ⟨inv_of hinv rfl rfl (modOK_import hinv hf) hinv.parsing (wf_cur (st := st) hinv) (Nat.le_refl _), rfl, rfl⟩
  | sortDecl nm hk =>
    simp only [stepM] at h
    split at h
    · cases h
    · simp only [Option.some.injEq] at h
      subst h
      exact ⟨inv_of hinv rfl rfl hinv.curOK hinv.parsing (wf_cur (st := st) hinv) (Nat.le_refl _), rfl, rfl⟩
  | symbolDecl nm vars params srt attrs =>
    simp only [stepM] at h
    split at h
    · cases h
    · split at h
      · cases h
      · split at h
        · cases h
        · simp only [Option.some.injEq] at h
          subst h
          exact ⟨inv_of hinv rfl rfl hinv.curOK hinv.parsing (wf_cur (st := st) hinv) (Nat.le_refl _), rfl, rfl⟩
  | «axiom» p =>
    have key : ∀ kind x, InvM (addRuleM st kind x) := by
      intro kind x
      refine inv_of hinv rfl rfl hinv.curOK hinv.parsing ?_ (Nat.le_succ _)
      intro ru hru
      simp only [addRuleM, List.mem_append, List.mem_singleton] at hru
      rcases hru with hru | rfl
      · exact Nat.lt_succ_of_lt (wf_cur (st := st) hinv ru hru)
      · exact Nat.lt_succ_self _
    simp only [stepM] at h
    split at h
    · simp only [Option.map_eq_some_iff] at h
      obtain ⟨x, _, rfl⟩ := h
      exact ⟨key _ x, rfl, rfl⟩
    · split at h
      · simp only [Option.map_eq_some_iff] at h
        obtain ⟨x, _, rfl⟩ := h
        exact ⟨key _ x, rfl, rfl⟩
      · simp only [Option.some.injEq] at h
        subst h
        refine ⟨inv_of hinv rfl rfl hinv.curOK hinv.parsing ?_ (Nat.le_succ _), rfl, rfl⟩
        intro ru hru
        exact Nat.lt_succ_of_lt (wf_cur (st := st) hinv ru hru)

/-! ## lists of sentences -/

theorem stepsM_inv (n : Nat) {st st' : RStM} {ss : List KSentence} (hinv : InvM st) (h : stepsM n st ss = some st') :
    InvM st' ∧ st'.done = st.done ∧ st'.cur.name = st.cur.name := by
  induction ss generalizing st with
  | nil => simp only [stepsM, Option.some.injEq] at h; subst h; exact ⟨hinv, rfl, rfl⟩
  | cons s ss ih =>
    simp only [stepsM] at h
    cases hs : stepM n st s with
    | none => simp [hs] at h
    | some st1 =>
      simp only [hs, Option.bind_some] at h
      obtain ⟨hinv1, hd1, hn1⟩ := stepM_inv n hinv hs
      obtain ⟨hinv', hd', hn'⟩ := ih hinv1 h
      exact ⟨hinv', hd'.trans hd1, hn'.trans hn1⟩

theorem stepsM_spec (n : Nat) (st : RStM) (ss : List KSentence) (hinv : InvM st)
    (hvis : ∀ st', InvM st' → st'.done = st.done → ∀ k, (visT n st' k).isSome = (projM st').visibleSorts.contains k) :
    addSentencesM (projM st) ss = (stepsM n st ss).map projM := by
  induction ss generalizing st with
  | nil => rfl
  | cons s ss ih =>
    simp only [addSentencesM, stepsM, stepM_spec n st s hinv (hvis st hinv rfl)]
    cases hs : stepM n st s with
    | none => rfl
    | some st1 =>
      obtain ⟨hinv1, hd1, _⟩ := stepM_inv n hinv hs
      simp only [Option.map_some, Option.bind_some]
      exact ih st1 hinv1 fun st2 hi hd2 => hvis st2 hi (hd2.trans hd1)

end KDefTieM2
