import Pi2.TautThm
import Pi2.TautTie
/-!
# The model of the tautology prover terminates: fuel sufficiency

`proveTautology : Nat → Form → Option (Option Bool)` (`Pi2.Taut`) takes a fuel that bounds (a) the recursion depth of
`to_cnf` and (b) the number of iterations of the two nested `for` loops of `resolution_algorithm` over the GROWING list.
This file shows that an explicit, computable amount of fuel always suffices, so that the outer `Option` of the model is
`some _` on every propositional pattern:

* fuel monotonicity of the saturation loop, of `Res.start` and of `proveTautology` (`loop_mono_le`, `start_mono_le`,
  `proveTautology_mono_le`; that of `toCnfF` is `TautTie.toCnfF_mono_le`);
* the saturation loop terminates (`loop_terminates`): the list only ever receives a resolvent that is NOT yet in it
  (`res_set in hint`, the keys of `hint` being exactly the list), every member is a canonical clause (a strictly increasing
  list of literals) over the literals `U` of the initial list, and there are at most `2 ^ |U|` such clauses; hence the list
  never grows beyond `M = 2 ^ |U|` and the index machine `(i, j)` makes at most `(M + 1) * (M + 2)` steps;
* every normal-form stage answers (`CF.propagNeg_spec`, `CF.toCnfF_weight`, `CF.toClauses_spec` of `Pi2.TautThm`);
* `proveTautology_total`: `bound f` fuel suffices, `bound` computable.
-/
set_option linter.unusedSimpArgs false
set_option linter.unusedVariables false

namespace Res

/-! ## fuel monotonicity of the saturation loop -/

theorem loop_succ (fuel : Nat) (l : List (List Int)) (i j : Nat) :
    loop (fuel + 1) l i j =
      match l[i]? with
      | none => some false
      | some cl1 =>
        if j ≥ i then loop fuel l (i + 1) 0 else
        match l[j]? with
        | none => loop fuel l (i + 1) 0
        | some cl2 =>
          match resolvable cl1 cl2 with
          | none => loop fuel l i (j + 1)
          | some (_, res) =>
            if l.contains res then loop fuel l i (j + 1)
            else if res.isEmpty then some true
            else loop fuel (l ++ [res]) i (j + 1) := rfl

/-- more fuel does not change an answer of the saturation loop -/
theorem loop_mono : ∀ (fuel : Nat) (l : List (List Int)) (i j : Nat) (b : Bool),
    loop fuel l i j = some b → loop (fuel + 1) l i j = some b := by
  intro fuel
  induction fuel with
  | zero => intro l i j b h; simp [loop] at h
  | succ n ih =>
    intro l i j b h
    rw [loop_succ] at h ⊢
    split
    · next h1 => simpa [h1] using h
    · next cl1 h1 =>
      simp only [h1] at h
      split
      · next hji => rw [if_pos hji] at h; exact ih _ _ _ _ h
      · next hji =>
        rw [if_neg hji] at h
        split
        · next h2 => simp only [h2] at h; exact ih _ _ _ _ h
        · next cl2 h2 =>
          simp only [h2] at h
          split
          · next hr => simp only [hr] at h; exact ih _ _ _ _ h
          · next r res hr =>
            simp only [hr] at h
            split
            · next hc => rw [if_pos hc] at h; exact ih _ _ _ _ h
            · next hc =>
              rw [if_neg hc] at h
              split
              · next he => rw [if_pos he] at h; exact h
              · next he => rw [if_neg he] at h; exact ih _ _ _ _ h

theorem loop_mono_le (fuel fuel' : Nat) (hk : fuel ≤ fuel') (l : List (List Int)) (i j : Nat) (b : Bool)
    (h : loop fuel l i j = some b) : loop fuel' l i j = some b := by
  induction hk with
  | refl => exact h
  | step _ ih => exact loop_mono _ _ _ _ _ ih

/-- more fuel does not change an answer of `Res.start` -/
theorem start_mono_le (fuel fuel' : Nat) (hk : fuel ≤ fuel') (cls : List (List Int)) (x : Option Bool)
    (h : start fuel cls = some x) : start fuel' cls = some x := by
  unfold start at h ⊢
  simp only [] at h ⊢
  by_cases he : cls.isEmpty = true
  · simpa [he] using h
  · by_cases hi : (initial cls).isEmpty = true
    · simpa [he, hi] using h
    · simp only [he, hi, Bool.false_eq_true, if_false] at h ⊢
      cases hl : loop fuel (initial cls) 0 0 with
      | none => simp [hl] at h
      | some b =>
        rw [loop_mono_le fuel fuel' hk _ _ _ b hl]
        simpa [hl] using h

end Res

/-- more fuel does not change an answer of the model -/
theorem proveTautology_mono_le (fuel fuel' : Nat) (hk : fuel ≤ fuel') (f : Form) (x : Option Bool)
    (h : proveTautology fuel f = some x) : proveTautology fuel' f = some x := by
  cases hb : (CF.ofForm (Form.neg f)).isBot with
  | true =>
    unfold proveTautology at h ⊢
    cases hc : CF.ofForm (Form.neg f) with
    | bot b => cases b <;> simpa [hc] using h
    | var b i => simp [hc, CF.isBot] at hb
    | or b l r => simp [hc, CF.isBot] at hb
    | and b l r => simp [hc, CF.isBot] at hb
  | false =>
    rw [TautTie.proveTautology_nonbot _ f hb] at h ⊢
    simp only [Option.bind_eq_bind, Option.bind_eq_some_iff] at h ⊢
    obtain ⟨nt, hn, cnf, hcnf, cls, hcls, sx, hs, hx⟩ := h
    exact ⟨nt, hn, cnf, TautTie.toCnfF_mono_le fuel fuel' hk nt cnf hcnf, cls, hcls, sx,
      Res.start_mono_le fuel fuel' hk cls sx hs, hx⟩

/-! ## counting: duplicate-free lists of canonical clauses over a finite set of literals -/

namespace Res

/-- a duplicate-free list whose members all occur in `s` is not longer than `s` -/
theorem nodup_length_le {α} [DecidableEq α] : ∀ (s l : List α), l.Nodup → (∀ x ∈ l, x ∈ s) → l.length ≤ s.length := by
  intro s
  induction s with
  | nil =>
    intro l _ hs
    cases l with
    | nil => simp
    | cons a r => exact absurd (hs a (by simp)) (by simp)
  | cons a s ih =>
    intro l hnd hs
    have h1 : (l.erase a).Nodup := hnd.erase a
    have h2 : ∀ x ∈ l.erase a, x ∈ s := by
      intro x hx
      obtain ⟨hne, hxl⟩ := (hnd.mem_erase_iff).mp hx
      rcases List.mem_cons.mp (hs x hxl) with h | h
      · exact absurd h hne
      · exact h
    have h3 := ih _ h1 h2
    rw [List.length_erase] at h3
    simp only [List.length_cons]
    split at h3 <;> omega

/-- all sublists (in order) of a list of literals -/
def subs : List Int → List (List Int)
  | [] => [[]]
  | a :: r => subs r ++ (subs r).map (a :: ·)

theorem length_subs (u : List Int) : (subs u).length = 2 ^ u.length := by
  induction u with
  | nil => rfl
  | cons a r ih => simp only [subs, List.length_append, List.length_map, ih, List.length_cons, Nat.pow_succ]; omega

/-- a strictly increasing list over the members of a strictly increasing list is one of its sublists -/
theorem mem_subs : ∀ (u : List Int), u.Pairwise (· < ·) → ∀ c : List Int, c.Pairwise (· < ·) →
    (∀ x ∈ c, x ∈ u) → c ∈ subs u := by
  intro u
  induction u with
  | nil =>
    intro _ c _ hs
    cases c with
    | nil => simp [subs]
    | cons x r => exact absurd (hs x (by simp)) (by simp)
  | cons a u ih =>
    intro hu c hc hs
    obtain ⟨hau, hu'⟩ := List.pairwise_cons.mp hu
    simp only [subs, List.mem_append, List.mem_map]
    cases c with
    | nil => exact Or.inl (ih hu' [] List.Pairwise.nil (by simp))
    | cons x r =>
      obtain ⟨hxr, hr⟩ := List.pairwise_cons.mp hc
      by_cases hxa : x = a
      · subst hxa
        refine Or.inr ⟨r, ih hu' r hr ?_, rfl⟩
        intro y hy
        rcases List.mem_cons.mp (hs y (List.mem_cons_of_mem _ hy)) with h | h
        · have := hxr y hy; omega
        · exact h
      · refine Or.inl (ih hu' (x :: r) hc ?_)
        have hxu : x ∈ u := by
          rcases List.mem_cons.mp (hs x (by simp)) with h | h
          · exact absurd h hxa
          · exact h
        have hax : a < x := hau x hxu
        intro y hy
        rcases List.mem_cons.mp (hs y hy) with h | h
        · exfalso
          rcases List.mem_cons.mp hy with h' | h'
          · omega
          · have := hxr y h'; omega
        · exact h

/-- the number of canonical clauses over the literals `U` (crude: every subset of the literals, `2 ^ |U|`) -/
def cap (U : List Int) : Nat := 2 ^ (canon U).length

/-- what the saturation loop maintains of its list: no duplicates; every member is a canonical clause (strictly
increasing) over the literals `U` -/
def Bd (U : List Int) (l : List (List Int)) : Prop :=
  l.Nodup ∧ ∀ c ∈ l, c.Pairwise (· < ·) ∧ ∀ x ∈ c, x ∈ U

/-- such a list has at most `cap U` members -/
theorem Bd.length_le {U : List Int} {l : List (List Int)} (h : Bd U l) : l.length ≤ cap U := by
  have := nodup_length_le (subs (canon U)) l h.1 (fun c hc =>
    mem_subs (canon U) (canon_sorted U) c (h.2 c hc).1 (fun x hx => (mem_canon x U).mpr ((h.2 c hc).2 x hx)))
  rwa [length_subs] at this

/-- appending a resolvent that is not yet in the list keeps the invariant -/
theorem Bd.append {U : List Int} {l : List (List Int)} (h : Bd U l) (c1 c2 : List Int) (r : Int) (res : List Int)
    (m1 : c1 ∈ l) (m2 : c2 ∈ l) (hr : resolvable c1 c2 = some (r, res)) (hn : l.contains res = false) :
    Bd U (l ++ [res]) := by
  obtain ⟨_, _, _, hres⟩ := resolvable_clash c1 c2 r res hr
  have hnot : res ∉ l := by
    intro hm
    have : l.contains res = true := by simpa using hm
    rw [hn] at this; cases this
  refine ⟨List.nodup_append.mpr ⟨h.1, by simp, ?_⟩, ?_⟩
  · intro a ha b hb e
    simp at hb; subst hb; subst e
    exact hnot ha
  · intro c hc
    rcases List.mem_append.mp hc with hc | hc
    · exact h.2 c hc
    · simp at hc; subst hc
      refine ⟨?_, fun x hx => ?_⟩
      · rw [(resolvable_inv c1 c2 r _ hr).2]; exact canon_sorted _
      · rcases (hres x).mp hx with ⟨hx1, _⟩ | ⟨hx2, _⟩
        · exact (h.2 c1 m1).2 x hx1
        · exact (h.2 c2 m2).2 x hx2

/-! ## the saturation loop terminates -/

/-- with the list bounded by `M = cap U`, from the state `(i, j)`, `j ≤ i`, `i + d = M`, the index machine answers within
`(d + 1) * (M + 2) - j` steps -/
theorem loop_terminates_aux (U : List Int) : ∀ (fuel : Nat) (l : List (List Int)) (i j d : Nat),
    Bd U l → i + d = cap U → j ≤ i → (d + 1) * (cap U + 2) ≤ fuel + j → ∃ b, loop fuel l i j = some b := by
  intro fuel
  induction fuel with
  | zero =>
    intro l i j d _ hd hj hf
    rw [Nat.succ_mul] at hf
    omega
  | succ fuel ih =>
    intro l i j d hb hd hj hf
    rw [loop_succ]
    split
    · exact ⟨false, rfl⟩
    · next cl1 h1 =>
      have hil : i < l.length := by
        rcases Nat.lt_or_ge i l.length with h | h
        · exact h
        · rw [List.getElem?_eq_none h] at h1; cases h1
      have hlen := hb.length_le
      -- the outer index moves on: `d` decreases
      have next : ∃ b, loop fuel l (i + 1) 0 = some b := by
        obtain ⟨d', rfl⟩ : ∃ d', d = d' + 1 := ⟨d - 1, by omega⟩
        refine ih l (i + 1) 0 d' hb (by omega) (Nat.zero_le _) ?_
        rw [Nat.succ_mul] at hf
        omega
      split
      · exact next
      · next hji =>
        split
        · exact next
        · next cl2 h2 =>
          have m1 : cl1 ∈ l := List.mem_of_getElem? h1
          have m2 : cl2 ∈ l := List.mem_of_getElem? h2
          split
          · exact ih l i (j + 1) d hb hd (by omega) (by omega)
          · next r res hr =>
            split
            · exact ih l i (j + 1) d hb hd (by omega) (by omega)
            · next hc =>
              split
              · exact ⟨true, rfl⟩
              · exact ih (l ++ [res]) i (j + 1) d
                  (hb.append cl1 cl2 r res m1 m2 hr (by simpa using hc)) hd (by omega) (by omega)

/-- fuel that suffices for the saturation of the (deduplicated, non-trivial, canonical) initial list `l` -/
def loopFuel (l : List (List Int)) : Nat := (cap l.flatten + 1) * (cap l.flatten + 2)

/-- **the saturation loop terminates**: on a duplicate-free list of canonical clauses, `loopFuel l` steps suffice -/
theorem loop_terminates (l : List (List Int)) (hnd : l.Nodup) (hs : ∀ c ∈ l, c.Pairwise (· < ·)) (fuel : Nat)
    (hf : loopFuel l ≤ fuel) : ∃ b, loop fuel l 0 0 = some b :=
  loop_terminates_aux l.flatten fuel l 0 0 (cap l.flatten)
    ⟨hnd, fun c hc => ⟨hs c hc, fun x hx => List.mem_flatten.mpr ⟨c, hc, hx⟩⟩⟩ (by omega) (Nat.le_refl _)
    (by simpa [loopFuel] using hf)

/-! ### the initial list -/

theorem initial_nodup_aux (xs : List (List Int)) : ∀ acc : List (List Int), acc.Nodup →
    (xs.foldl (fun acc c => if trivial c || acc.contains c then acc else acc ++ [c]) acc).Nodup := by
  induction xs with
  | nil => intro acc h; exact h
  | cons x xs ih =>
    intro acc h
    simp only [List.foldl_cons]
    apply ih
    split
    · exact h
    · next hc =>
      simp only [Bool.or_eq_true, not_or, Bool.not_eq_true] at hc
      refine List.nodup_append.mpr ⟨h, by simp, ?_⟩
      intro a ha b hb e
      simp at hb; subst hb; subst e
      have : acc.contains a = true := by simpa using ha
      rw [hc.2] at this; cases this

theorem initial_nodup (cls : List (List Int)) : (initial cls).Nodup :=
  initial_nodup_aux _ [] List.nodup_nil

theorem initial_sorted (cls : List (List Int)) : ∀ c ∈ initial cls, c.Pairwise (· < ·) := by
  intro c hc
  obtain ⟨⟨cl, _, rfl⟩, _⟩ := (mem_initial cls c).mp hc
  exact canon_sorted cl

/-- fuel that suffices for `Res.start` -/
def startFuel (cls : List (List Int)) : Nat := loopFuel (initial cls)

/-- **`start_resolution_algorithm` (the model) answers** on every clause list, from `startFuel cls` fuel on -/
theorem start_total (cls : List (List Int)) (fuel : Nat) (hf : startFuel cls ≤ fuel) :
    ∃ x, start fuel cls = some x := by
  unfold start
  simp only []
  by_cases he : cls.isEmpty = true
  · exact ⟨some true, by simp [he]⟩
  · by_cases hi : (initial cls).isEmpty = true
    · exact ⟨some true, by simp [he, hi]⟩
    · obtain ⟨b, hb⟩ := loop_terminates (initial cls) (initial_nodup cls) (initial_sorted cls) fuel hf
      simp only [he, hi, Bool.false_eq_true, if_false, hb]
      cases b
      · exact ⟨_, rfl⟩
      · exact ⟨_, rfl⟩

end Res

/-! ## the model answers: `bound f` fuel suffices -/

/-- an explicit computable fuel bound for `proveTautology`: the `weight` of the negation normal form (the recursion depth of
`to_cnf`) and `Res.startFuel` of the clause list (the number of steps of the saturation).  `bound_le_closed` below bounds it
by a closed form in `f.size`. -/
def bound (f : Form) : Nat :=
  match CF.propagNeg (CF.ofForm (Form.neg f)) with
  | none => 0
  | some n =>
    match CF.toCnfF n.weight n with
    | none => 0
    | some cnf =>
      match CF.toClauses cnf with
      | none => 0
      | some cls => max n.weight (Res.startFuel cls)

/-- the stages of the generic branch of `prove_tautology` all answer, and `bound f` is what it is -/
theorem stages_total (f : Form) (hb : (CF.ofForm (Form.neg f)).isBot = false) :
    ∃ n cnf cls, CF.propagNeg (CF.ofForm (Form.neg f)) = some n ∧ n.IsNNF = true ∧
      CF.toCnfF n.weight n = some cnf ∧ cnf.IsCNF = true ∧ cnf.weight ≤ n.weight ∧ CF.toClauses cnf = some cls ∧
      bound f = max n.weight (Res.startFuel cls) := by
  have hor : (CF.ofForm (Form.neg f)).IsOrTree = true := by
    rcases CF.ofForm_shape (Form.neg f) with h | h
    · rw [hb] at h; cases h
    · exact h
  obtain ⟨n, hn, _, hnnf⟩ := CF.propagNeg_spec _ hor
  obtain ⟨cnf, hcnf, hw⟩ := CF.toCnfF_weight n n.weight hnnf (Nat.le_refl _)
  have hc := (CF.toCnfF_spec _ n cnf hnnf hcnf).2
  obtain ⟨cls, hcls, _⟩ := CF.toClauses_spec cnf hc
  exact ⟨n, cnf, cls, hn, hnnf, hcnf, hc, hw, hcls, by simp [bound, hn, hcnf, hcls]⟩

/-- **the model of the prover is total**: from `bound f` fuel on, `proveTautology` answers (no stage runs out of fuel, no
assertion fails, the saturation loop ends) -/
theorem proveTautology_total_bound (f : Form) (G : Nat) (hG : bound f ≤ G) : ∃ x, proveTautology G f = some x := by
  cases hb : (CF.ofForm (Form.neg f)).isBot with
  | true =>
    unfold proveTautology
    cases hc : CF.ofForm (Form.neg f) with
    | bot b => cases b <;> exact ⟨_, rfl⟩
    | var b i => simp [hc, CF.isBot] at hb
    | or b l r => simp [hc, CF.isBot] at hb
    | and b l r => simp [hc, CF.isBot] at hb
  | false =>
    obtain ⟨n, cnf, cls, hn, _, hcnf, _, _, hcls, hbd⟩ := stages_total f hb
    rw [hbd] at hG
    have hG1 : n.weight ≤ G := Nat.le_trans (Nat.le_max_left _ _) hG
    have hG2 : Res.startFuel cls ≤ G := Nat.le_trans (Nat.le_max_right _ _) hG
    obtain ⟨sx, hsx⟩ := Res.start_total cls G hG2
    rw [TautTie.proveTautology_nonbot _ f hb]
    simp only [Option.bind_eq_bind, hn, TautTie.toCnfF_mono_le _ G hG1 n cnf hcnf, hcls, hsx, Option.bind_some]
    cases sx with
    | none => exact ⟨_, rfl⟩
    | some b => cases b <;> exact ⟨_, rfl⟩

/-- the form asked for: for every `f` there is a fuel (`bound f`) from which the model answers -/
theorem proveTautology_total : ∀ f : Form, ∃ F, ∀ G, G ≥ F → ∃ x, proveTautology G f = some x :=
  fun f => ⟨bound f, fun G hG => proveTautology_total_bound f G hG⟩

/-- the answer does not depend on the fuel, once there is one -/
theorem proveTautology_stable (f : Form) (G G' : Nat) (x x' : Option Bool) (h : proveTautology G f = some x)
    (h' : proveTautology G' f = some x') : x = x' := by
  rcases Nat.le_total G G' with hle | hle
  · have := proveTautology_mono_le G G' hle f x h
    rw [h'] at this; exact (Option.some.inj this).symm
  · have := proveTautology_mono_le G' G hle f x' h'
    rw [h] at this; exact Option.some.inj this

/-- the verdict of the prover: the model's answer at `bound f` fuel (a total function of the pattern) -/
def verdict (f : Form) : Option Bool := (proveTautology (bound f) f).getD none

theorem proveTautology_eq_verdict (f : Form) (G : Nat) (hG : bound f ≤ G) : proveTautology G f = some (verdict f) := by
  obtain ⟨x, hx⟩ := proveTautology_total_bound f (bound f) (Nat.le_refl _)
  rw [proveTautology_mono_le _ G hG f x hx]
  simp [verdict, hx]

/-! ## a closed form for the bound -/

namespace CF

/-- number of leaves -/
def leaves : CF → Nat
  | bot _ => 1 | var _ _ => 1
  | or _ l r => leaves l + leaves r
  | and _ l r => leaves l + leaves r

theorem leaves_pos (c : CF) : 1 ≤ c.leaves := by
  induction c with
  | bot n => simp [leaves]
  | var n i => simp [leaves]
  | or n l r ihl _ => simp only [leaves]; omega
  | and n l r ihl _ => simp only [leaves]; omega

theorem leaves_setNeg (b : Bool) (c : CF) : (c.setNeg b).leaves = c.leaves := by
  cases c <;> rfl

theorem leaves_ofForm (f : Form) : (ofForm f).leaves ≤ f.size := by
  induction f with
  | bot => simp [ofForm, leaves, Form.size]
  | var n => simp [ofForm, leaves, Form.size]
  | imp p0 p1 ih0 ih1 =>
    simp only [ofForm, Form.size]
    split
    · simp [leaves]
    · generalize ofForm p1 = c1 at ih1 ⊢
      generalize ofForm p0 = c0 at ih0 ⊢
      have h0 := leaves_pos c0
      have h1 := leaves_pos c1
      cases c1 with
      | bot b1 =>
        cases b1
        · cases c0 with
          | bot b0 => cases b0 <;> simp [leaves]
          | var n i => simp only []; split <;> simp [leaves_setNeg, leaves]
          | or n l r => simp only []; split <;> simp only [leaves_setNeg] <;> omega
          | and n l r => simp only []; split <;> simp only [leaves_setNeg] <;> omega
        · simp [leaves]
      | var n1 i1 =>
        cases c0 with
        | bot b0 => cases b0 <;> simp [leaves]
        | var n i => simp only []; split <;> simp [leaves_setNeg, leaves] <;> omega
        | or n l r => simp only []; split <;> simp only [leaves, leaves_setNeg] at * <;> omega
        | and n l r => simp only []; split <;> simp only [leaves, leaves_setNeg] at * <;> omega
      | or n1 l1 r1 =>
        cases c0 with
        | bot b0 => cases b0 <;> simp only [leaves] at * <;> omega
        | var n i => simp only []; split <;> simp only [leaves, leaves_setNeg] at * <;> omega
        | or n l r => simp only []; split <;> simp only [leaves, leaves_setNeg] at * <;> omega
        | and n l r => simp only []; split <;> simp only [leaves, leaves_setNeg] at * <;> omega
      | and n1 l1 r1 =>
        cases c0 with
        | bot b0 => cases b0 <;> simp only [leaves] at * <;> omega
        | var n i => simp only []; split <;> simp only [leaves, leaves_setNeg] at * <;> omega
        | or n l r => simp only []; split <;> simp only [leaves, leaves_setNeg] at * <;> omega
        | and n l r => simp only []; split <;> simp only [leaves, leaves_setNeg] at * <;> omega

theorem leaves_propagNegAux (c : CF) : ∀ (flip : Bool) (r : CF), propagNegAux flip c = some r → r.leaves = c.leaves := by
  induction c with
  | bot n => intro _ r h; simp [propagNegAux] at h
  | and n l r _ _ => intro _ r h; simp [propagNegAux] at h
  | var n i => intro flip r h; simp only [propagNegAux, Option.some.injEq] at h; subst h; rfl
  | or n l r ihl ihr =>
    intro flip res h
    simp only [propagNegAux] at h
    split at h
    · simp only [Option.bind_eq_bind, Option.bind_eq_some_iff, Option.pure_def, Option.some.injEq] at h
      obtain ⟨l', hl', r', hr', rfl⟩ := h
      simp only [leaves, ihl _ _ hl', ihr _ _ hr']
    · simp only [Option.bind_eq_bind, Option.bind_eq_some_iff, Option.pure_def, Option.some.injEq] at h
      obtain ⟨l', hl', r', hr', rfl⟩ := h
      simp only [leaves, ihl _ _ hl', ihr _ _ hr']

theorem three_le_pow (a : Nat) (h : 1 ≤ a) : 3 ≤ 3 ^ a :=
  calc 3 = 3 ^ 1 := rfl
    _ ≤ 3 ^ a := Nat.pow_le_pow_right (by omega) h

/-- `weight c ≤ 3 ^ leaves c` -/
theorem weight_le_pow (c : CF) : c.weight ≤ 3 ^ c.leaves := by
  induction c with
  | bot n => simp [weight, leaves]
  | var n i => simp [weight, leaves]
  | or n l r ihl ihr =>
    simp only [weight, leaves, Nat.pow_add]
    exact Nat.mul_le_mul ihl ihr
  | and n l r ihl ihr =>
    simp only [weight, leaves, Nat.pow_add]
    have h1 := three_le_pow _ (leaves_pos l)
    have h2 := three_le_pow _ (leaves_pos r)
    generalize 3 ^ l.leaves = x at *
    generalize 3 ^ r.leaves = y at *
    obtain ⟨x', rfl⟩ : ∃ x', x = x' + 3 := ⟨x - 3, by omega⟩
    obtain ⟨y', rfl⟩ : ∃ y', y = y' + 3 := ⟨y - 3, by omega⟩
    have : (x' + 3) * (y' + 3) = x' * y' + 3 * x' + 3 * y' + 9 := by
      rw [Nat.add_mul, Nat.mul_add, Nat.mul_add]; omega
    omega

/-- the clause list has at most `weight` literal occurrences -/
theorem toClauses_length (c : CF) : ∀ cls, toClauses c = some cls → cls.flatten.length ≤ c.weight := by
  induction c with
  | bot n => intro cls h; simp [toClauses] at h
  | var n i => intro cls h; simp only [toClauses, Option.some.injEq] at h; subst h; simp [weight]
  | and n l r ihl ihr =>
    intro cls h
    simp only [toClauses, Option.bind_eq_bind, Option.bind_eq_some_iff, Option.pure_def, Option.some.injEq] at h
    obtain ⟨a, ha, b, hb, rfl⟩ := h
    have := ihl a ha; have := ihr b hb
    simp only [List.flatten_append, List.length_append, weight]; omega
  | or n l r ihl ihr =>
    intro cls h
    simp only [toClauses, Option.bind_eq_bind, Option.bind_eq_some_iff] at h
    obtain ⟨a, ha, b, hb, h⟩ := h
    have h1 := ihl a ha; have h2 := ihr b hb
    have w1 := weight_ge_two l; have w2 := weight_ge_two r
    split at h
    · next x y =>
      simp only [Option.pure_def, Option.some.injEq] at h; subst h
      simp only [List.flatten_cons, List.flatten_nil, List.append_nil, List.length_append, weight] at h1 h2 ⊢
      generalize l.weight = wa at *
      generalize r.weight = wb at *
      obtain ⟨p, rfl⟩ : ∃ p, wa = p + 2 := ⟨wa - 2, by omega⟩
      obtain ⟨q, rfl⟩ : ∃ q, wb = q + 2 := ⟨wb - 2, by omega⟩
      have : (p + 2) * (q + 2) = p * q + 2 * p + 2 * q + 4 := by
        rw [Nat.add_mul, Nat.mul_add, Nat.mul_add]; omega
      omega
    · simp at h

end CF

namespace Res

theorem length_insertSorted (x : Int) (l : List Int) : (insertSorted x l).length ≤ l.length + 1 := by
  induction l with
  | nil => simp [insertSorted]
  | cons y r ih =>
    simp only [insertSorted]
    split
    · simp
    · split
      · simp
      · simp only [List.length_cons]; omega

theorem length_canon (c : List Int) : (canon c).length ≤ c.length := by
  induction c with
  | nil => simp [canon]
  | cons x r ih =>
    have : canon (x :: r) = insertSorted x (canon r) := rfl
    rw [this]
    have := length_insertSorted x (canon r)
    simp only [List.length_cons]; omega

theorem initial_length_aux (xs : List (List Int)) : ∀ acc : List (List Int),
    (xs.foldl (fun acc c => if trivial c || acc.contains c then acc else acc ++ [c]) acc).flatten.length ≤
      acc.flatten.length + xs.flatten.length := by
  induction xs with
  | nil => intro acc; simp
  | cons x xs ih =>
    intro acc
    simp only [List.foldl_cons, List.flatten_cons, List.length_append]
    refine Nat.le_trans (ih _) ?_
    split
    · omega
    · simp only [List.flatten_append, List.flatten_cons, List.flatten_nil, List.append_nil, List.length_append]; omega

theorem length_flatten_map_canon (cls : List (List Int)) : (cls.map canon).flatten.length ≤ cls.flatten.length := by
  induction cls with
  | nil => simp
  | cons c r ih =>
    have := length_canon c
    simp only [List.map_cons, List.flatten_cons, List.length_append]; omega

/-- the initial list has at most as many literal occurrences as the clause list -/
theorem initial_length (cls : List (List Int)) : (initial cls).flatten.length ≤ cls.flatten.length := by
  have := initial_length_aux (cls.map canon) []
  have := length_flatten_map_canon cls
  simp only [List.flatten_nil, List.length_nil, Nat.zero_add] at *
  unfold initial
  omega

/-- `startFuel` is bounded through the number of literal occurrences -/
theorem startFuel_le (cls : List (List Int)) (W : Nat) (h : cls.flatten.length ≤ W) :
    startFuel cls ≤ (2 ^ W + 1) * (2 ^ W + 2) := by
  have h1 : cap (initial cls).flatten ≤ 2 ^ W := by
    unfold cap
    apply Nat.pow_le_pow_right (by omega)
    exact Nat.le_trans (length_canon _) (Nat.le_trans (initial_length cls) h)
  unfold startFuel loopFuel
  exact Nat.mul_le_mul (by omega) (by omega)

end Res

/-- the closed form: with `W = 3 ^ (size f + 2)` (a bound on the weight of the negation normal form of `¬f`, hence on the
recursion depth of `to_cnf` and on the number of literal occurrences in the clause list) and `M = 2 ^ W` (a bound on the number
of canonical clauses), `(M + 1) * (M + 2)` fuel suffices -/
def closedBound (f : Form) : Nat := (2 ^ (3 ^ (f.size + 2)) + 1) * (2 ^ (3 ^ (f.size + 2)) + 2)

theorem bound_le_closed (f : Form) : bound f ≤ closedBound f := by
  cases hb : (CF.ofForm (Form.neg f)).isBot with
  | true =>
    have : CF.propagNeg (CF.ofForm (Form.neg f)) = none := by
      cases hc : CF.ofForm (Form.neg f) with
      | bot b => rfl
      | var b i => simp [hc, CF.isBot] at hb
      | or b l r => simp [hc, CF.isBot] at hb
      | and b l r => simp [hc, CF.isBot] at hb
    simp [bound, this]
  | false =>
    obtain ⟨n, cnf, cls, hn, _, hcnf, _, hw, hcls, hbd⟩ := stages_total f hb
    have hl : n.leaves ≤ f.size + 2 := by
      rw [CF.leaves_propagNegAux _ false n hn]
      have := CF.leaves_ofForm (Form.neg f)
      simpa [Form.neg, Form.size] using this
    have hW : n.weight ≤ 3 ^ (f.size + 2) :=
      Nat.le_trans (CF.weight_le_pow n) (Nat.pow_le_pow_right (by omega) hl)
    have hlen : cls.flatten.length ≤ 3 ^ (f.size + 2) :=
      Nat.le_trans (CF.toClauses_length cnf cls hcls) (Nat.le_trans hw hW)
    have h2 := Res.startFuel_le cls _ hlen
    rw [hbd]
    unfold closedBound
    refine Nat.max_le.mpr ⟨?_, h2⟩
    generalize 3 ^ (f.size + 2) = W at *
    have : W < 2 ^ W := Nat.lt_two_pow_self
    have : 2 ^ W + 2 ≤ (2 ^ W + 1) * (2 ^ W + 2) := Nat.le_mul_of_pos_left _ (by omega)
    omega

/-- totality with the closed-form bound -/
theorem proveTautology_total_closed (f : Form) (G : Nat) (hG : closedBound f ≤ G) : ∃ x, proveTautology G f = some x :=
  proveTautology_total_bound f G (Nat.le_trans (bound_le_closed f) hG)

#print axioms Res.loop_mono_le
#print axioms proveTautology_mono_le
#print axioms Res.loop_terminates
#print axioms Res.start_total
#print axioms proveTautology_total_bound
#print axioms proveTautology_total
#print axioms proveTautology_eq_verdict
#print axioms bound_le_closed
#print axioms proveTautology_total_closed
