import Pi2.NotationThm
import Pi2.Nary
import Pi2.MM.Mono
/-!
# Termination of the pattern operations on patterns with notation (fuel sufficiency)

`instF`, `mapF`, `metavarsF`, `esubF`, `ssubF`, `simplifyF`, `evarIsFreeF`, `naryF`, `peqF` (`Pi2/Notation.lean`,
`Pi2/Nary.lean`) take fuel because `Instantiate`'s methods first `simplify()` the node (one level of `instantiate`) and
recurse on the result, which is not structural.  Here: ONE computable measure `NPat.ht` ("height after simplification",
structural recursion on the pattern) bounds the fuel of all of them, with no hypothesis on the patterns:

* `ht leaf = 1`, `ht (imp l r) = 1 + max`, `ht (ex x p) = 1 + ht p`, `ht (esub p x q) = 1 + ht p + ht q`,
  `ht (inst p m) = 1 + ht p * wt m` where `wt m = 1 + length m + max of ht over the values of m`;
* `instF n δ p` is defined as soon as `ht p * wt δ ≤ n` and its result has `ht ≤ ht p * wt δ`;
* `esubF n x plug p` / `ssubF` are defined as soon as `ht p ≤ n`, result `ht ≤ ht p + ht plug + 1`;
* `metavarsF n p`, `evarIsFreeF n e p`, `naryF n p`, `simplifyF n p` are defined as soon as `ht p ≤ n`;
* `peqF n a b` is defined as soon as `ht a + ht b ≤ n + 1`.

The proof is a simultaneous induction on the fuel (`TotalAt`), as for partial correctness (`NotationThm.lean`).
-/
set_option linter.unusedSimpArgs false
set_option linter.unusedVariables false
open Pat

namespace NPat

mutual
/-- height of the pattern after all `simplify()` steps, over-approximated: the recursion depth of every method -/
def ht : NPat → Nat
  | evar _ => 1 | svar _ => 1 | sym _ => 1
  | mv .. => 1
  | imp l r => 1 + max (ht l) (ht r)
  | app l r => 1 + max (ht l) (ht r)
  | ex _ p => 1 + ht p
  | mu _ p => 1 + ht p
  | esub p _ q => 1 + ht p + ht q
  | ssub p _ q => 1 + ht p + ht q
  | inst p m => 1 + ht p * (1 + m.length + htMap m)
/-- maximum of `ht` over the values of an argument map -/
def htMap : List (Nat × NPat) → Nat
  | [] => 0
  | (_, v) :: r => max (ht v) (htMap r)
end

/-- weight of a substitution / argument map: `1 + number of entries + maximal height of a value` -/
def wt (m : List (Nat × NPat)) : Nat := 1 + m.length + htMap m

theorem ht_pos (p : NPat) : 1 ≤ ht p := by
  cases p <;> simp only [ht] <;> omega

theorem wt_pos (m : List (Nat × NPat)) : 1 ≤ wt m := by simp only [wt]; omega

theorem ht_inst (p : NPat) (m : List (Nat × NPat)) : ht (inst p m) = 1 + ht p * wt m := by
  simp only [ht, wt]

theorem le_mul_of_one_le (a k : Nat) (hk : 1 ≤ k) : a ≤ a * k := Nat.le_mul_of_pos_right a hk

theorem lookup_ht (δ : List (Nat × NPat)) (i : Nat) (q : NPat) (h : Py.lookup δ i = some q) :
    ht q ≤ htMap δ := by
  induction δ with
  | nil => simp [Py.lookup] at h
  | cons kv r ih =>
    obtain ⟨k, v⟩ := kv
    simp only [Py.lookup] at h
    simp only [htMap]
    split at h
    · simp only [Option.some.injEq] at h; subst h; omega
    · have := ih h; omega

theorem htMap_append (a b : List (Nat × NPat)) : htMap (a ++ b) = max (htMap a) (htMap b) := by
  induction a with
  | nil => simp [htMap]
  | cons kv r ih =>
    obtain ⟨k, v⟩ := kv
    simp only [List.cons_append, htMap, ih]; omega

theorem htMap_filter (f : Nat × NPat → Bool) (l : List (Nat × NPat)) : htMap (l.filter f) ≤ htMap l := by
  induction l with
  | nil => simp [htMap]
  | cons kv r ih =>
    obtain ⟨k, v⟩ := kv
    simp only [List.filter_cons]
    split
    · simp only [htMap]; omega
    · simp only [htMap]; omega

theorem htMap_dedupKeys (l : List (Nat × NPat)) (seen : List Nat) : htMap (dedupKeys l seen) ≤ htMap l := by
  induction l generalizing seen with
  | nil => simp [dedupKeys, htMap]
  | cons kv r ih =>
    obtain ⟨k, v⟩ := kv
    simp only [dedupKeys]
    split
    · have := ih seen; simp only [htMap]; omega
    · have := ih (k :: seen); simp only [htMap]; omega

theorem length_dedupKeys (l : List (Nat × NPat)) (seen : List Nat) : (dedupKeys l seen).length ≤ l.length := by
  induction l generalizing seen with
  | nil => simp [dedupKeys]
  | cons kv r ih =>
    obtain ⟨k, v⟩ := kv
    simp only [dedupKeys]
    split
    · have := ih seen; simp only [List.length_cons]; omega
    · have := ih (k :: seen); simp only [List.length_cons]; omega

/-- the argument map that `Instantiate.instantiate` builds weighs at most the product of the weights -/
theorem wt_newmap (δ m m' : List (Nat × NPat)) (f : Nat × NPat → Bool)
    (hl : m'.length = m.length) (hh : htMap m' ≤ htMap m * wt δ) :
    wt (m' ++ dedupKeys (δ.filter f) []) ≤ wt m * wt δ := by
  have h1 := length_dedupKeys (δ.filter f) []
  have h2 := htMap_dedupKeys (δ.filter f) []
  have h3 := htMap_filter f δ
  have h4 : (δ.filter f).length ≤ δ.length := List.length_filter_le _ _
  have h5 : wt m * wt δ = wt δ + m.length * wt δ + htMap m * wt δ := by
    simp only [wt, Nat.add_mul, Nat.one_mul]
  have h6 := le_mul_of_one_le m.length (wt δ) (wt_pos δ)
  rw [h5]
  simp only [wt, htMap_append, List.length_append, hl] at *
  omega

/-! ## simultaneous induction on the fuel -/

structure TotalAt (n : Nat) : Prop where
  inst : ∀ δ p, ht p * wt δ ≤ n → ∃ r, instF n δ p = some r ∧ ht r ≤ ht p * wt δ
  map : ∀ δ m, 1 + m.length + htMap m * wt δ ≤ n →
    ∃ m', mapF n δ m = some m' ∧ m'.length = m.length ∧ htMap m' ≤ htMap m * wt δ
  mvs : ∀ p, ht p ≤ n → ∃ L, metavarsF n p = some L
  esub : ∀ x plug p, ht p ≤ n → ∃ r, esubF n x plug p = some r ∧ ht r ≤ ht p + ht plug + 1
  ssub : ∀ x plug p, ht p ≤ n → ∃ r, ssubF n x plug p = some r ∧ ht r ≤ ht p + ht plug + 1

/-- unfold one step of a fuelled function and evaluate the `Option` binds whose results are known -/
local macro "ored" "[" ts:Lean.Parser.Tactic.simpLemma,* "]" : tactic =>
  `(tactic| simp only [$ts,*, Option.bind_eq_bind, Option.pure_def, Option.bind_some, Bool.not_true, Bool.not_false,
      Bool.false_eq_true, ↓reduceIte])

theorem total_zero : TotalAt 0 := by
  refine ⟨?_, ?_, ?_, ?_, ?_⟩
  · intro δ p h
    have := ht_pos p; have := wt_pos δ
    have := Nat.mul_le_mul (ht_pos p) (wt_pos δ)
    omega
  · intro δ m h; omega
  · intro p h; have := ht_pos p; omega
  · intro x plug p h; have := ht_pos p; omega
  · intro x plug p h; have := ht_pos p; omega

theorem esub_total_step (n : Nat) (ih : TotalAt n) :
    ∀ x plug p, ht p ≤ n + 1 → ∃ r, esubF (n + 1) x plug p = some r ∧ ht r ≤ ht p + ht plug + 1 := by
  obtain ⟨hI, hM, hV, hE, hS⟩ := ih
  intro x plug p h
  cases p with
  | evar y =>
    ored [esubF]; refine ⟨_, rfl, ?_⟩
    split <;> simp only [ht] <;> omega
  | svar y => ored [esubF]; exact ⟨_, rfl, by simp only [ht]; omega⟩
  | sym y => ored [esubF]; exact ⟨_, rfl, by simp only [ht]; omega⟩
  | imp l r =>
    simp only [ht] at h
    obtain ⟨a, ha, ha'⟩ := hE x plug l (by omega)
    obtain ⟨b, hb, hb'⟩ := hE x plug r (by omega)
    ored [esubF, ha, hb]; exact ⟨_, rfl, by simp only [ht]; omega⟩
  | app l r =>
    simp only [ht] at h
    obtain ⟨a, ha, ha'⟩ := hE x plug l (by omega)
    obtain ⟨b, hb, hb'⟩ := hE x plug r (by omega)
    ored [esubF, ha, hb]; exact ⟨_, rfl, by simp only [ht]; omega⟩
  | ex y q =>
    simp only [ht] at h
    by_cases hy : y = x
    · subst hy; ored [esubF]; exact ⟨_, rfl, by simp only [ht]; omega⟩
    · obtain ⟨a, ha, ha'⟩ := hE x plug q (by omega)
      ored [esubF, hy, ha]; exact ⟨_, rfl, by simp only [ht]; omega⟩
  | mu y q =>
    simp only [ht] at h
    obtain ⟨a, ha, ha'⟩ := hE x plug q (by omega)
    ored [esubF, ha]; exact ⟨_, rfl, by simp only [ht]; omega⟩
  | mv id ef sf ps ns hs =>
    ored [esubF]; refine ⟨_, rfl, ?_⟩
    split <;> simp only [ht] <;> omega
  | esub p' y q => ored [esubF]; exact ⟨_, rfl, by simp only [ht]; omega⟩
  | ssub p' y q => ored [esubF]; exact ⟨_, rfl, by simp only [ht]; omega⟩
  | inst p' m =>
    rw [ht_inst] at h ⊢
    obtain ⟨s, hs, hs'⟩ := hI m p' (by omega)
    obtain ⟨r, hr, hr'⟩ := hE x plug s (by omega)
    ored [esubF, hs, hr]; exact ⟨r, rfl, by omega⟩

theorem ssub_total_step (n : Nat) (ih : TotalAt n) :
    ∀ x plug p, ht p ≤ n + 1 → ∃ r, ssubF (n + 1) x plug p = some r ∧ ht r ≤ ht p + ht plug + 1 := by
  obtain ⟨hI, hM, hV, hE, hS⟩ := ih
  intro x plug p h
  cases p with
  | svar y =>
    ored [ssubF]; refine ⟨_, rfl, ?_⟩
    split <;> simp only [ht] <;> omega
  | evar y => ored [ssubF]; exact ⟨_, rfl, by simp only [ht]; omega⟩
  | sym y => ored [ssubF]; exact ⟨_, rfl, by simp only [ht]; omega⟩
  | imp l r =>
    simp only [ht] at h
    obtain ⟨a, ha, ha'⟩ := hS x plug l (by omega)
    obtain ⟨b, hb, hb'⟩ := hS x plug r (by omega)
    ored [ssubF, ha, hb]; exact ⟨_, rfl, by simp only [ht]; omega⟩
  | app l r =>
    simp only [ht] at h
    obtain ⟨a, ha, ha'⟩ := hS x plug l (by omega)
    obtain ⟨b, hb, hb'⟩ := hS x plug r (by omega)
    ored [ssubF, ha, hb]; exact ⟨_, rfl, by simp only [ht]; omega⟩
  | mu y q =>
    simp only [ht] at h
    by_cases hy : y = x
    · subst hy; ored [ssubF]; exact ⟨_, rfl, by simp only [ht]; omega⟩
    · obtain ⟨a, ha, ha'⟩ := hS x plug q (by omega)
      ored [ssubF, hy, ha]; exact ⟨_, rfl, by simp only [ht]; omega⟩
  | ex y q =>
    simp only [ht] at h
    obtain ⟨a, ha, ha'⟩ := hS x plug q (by omega)
    ored [ssubF, ha]; exact ⟨_, rfl, by simp only [ht]; omega⟩
  | mv id ef sf ps ns hs =>
    ored [ssubF]; refine ⟨_, rfl, ?_⟩
    split <;> simp only [ht] <;> omega
  | esub p' y q => ored [ssubF]; exact ⟨_, rfl, by simp only [ht]; omega⟩
  | ssub p' y q => ored [ssubF]; exact ⟨_, rfl, by simp only [ht]; omega⟩
  | inst p' m =>
    rw [ht_inst] at h ⊢
    obtain ⟨s, hs, hs'⟩ := hI m p' (by omega)
    obtain ⟨r, hr, hr'⟩ := hS x plug s (by omega)
    ored [ssubF, hs, hr]; exact ⟨r, rfl, by omega⟩

theorem mvs_total_step (n : Nat) (ih : TotalAt n) :
    ∀ p, ht p ≤ n + 1 → ∃ L, metavarsF (n + 1) p = some L := by
  obtain ⟨hI, hM, hV, hE, hS⟩ := ih
  intro p h
  cases p with
  | evar y => ored [metavarsF]; exact ⟨_, rfl⟩
  | svar y => ored [metavarsF]; exact ⟨_, rfl⟩
  | sym y => ored [metavarsF]; exact ⟨_, rfl⟩
  | mv id ef sf ps ns hs => ored [metavarsF]; exact ⟨_, rfl⟩
  | imp l r =>
    simp only [ht] at h
    obtain ⟨a, ha⟩ := hV l (by omega)
    obtain ⟨b, hb⟩ := hV r (by omega)
    ored [metavarsF, ha, hb]; exact ⟨_, rfl⟩
  | app l r =>
    simp only [ht] at h
    obtain ⟨a, ha⟩ := hV l (by omega)
    obtain ⟨b, hb⟩ := hV r (by omega)
    ored [metavarsF, ha, hb]; exact ⟨_, rfl⟩
  | ex y q =>
    simp only [ht] at h
    obtain ⟨a, ha⟩ := hV q (by omega)
    ored [metavarsF, ha]; exact ⟨_, rfl⟩
  | mu y q =>
    simp only [ht] at h
    obtain ⟨a, ha⟩ := hV q (by omega)
    ored [metavarsF, ha]; exact ⟨_, rfl⟩
  | esub p' y q =>
    simp only [ht] at h
    obtain ⟨a, ha⟩ := hV p' (by omega)
    obtain ⟨b, hb⟩ := hV q (by omega)
    ored [metavarsF, ha, hb]; exact ⟨_, rfl⟩
  | ssub p' y q =>
    simp only [ht] at h
    obtain ⟨a, ha⟩ := hV p' (by omega)
    obtain ⟨b, hb⟩ := hV q (by omega)
    ored [metavarsF, ha, hb]; exact ⟨_, rfl⟩
  | inst p' m =>
    rw [ht_inst] at h
    obtain ⟨s, hs, hs'⟩ := hI m p' (by omega)
    obtain ⟨L, hL⟩ := hV s (by omega)
    ored [metavarsF, hs, hL]; exact ⟨L, rfl⟩

theorem map_total_step (n : Nat) (ih : TotalAt n) :
    ∀ δ m, 1 + m.length + htMap m * wt δ ≤ n + 1 →
      ∃ m', mapF (n + 1) δ m = some m' ∧ m'.length = m.length ∧ htMap m' ≤ htMap m * wt δ := by
  obtain ⟨hI, hM, hV, hE, hS⟩ := ih
  intro δ m h
  cases m with
  | nil => ored [mapF]; exact ⟨[], rfl, rfl, by simp [htMap]⟩
  | cons kv r =>
    obtain ⟨k, v⟩ := kv
    simp only [htMap, List.length_cons] at h ⊢
    have h1 : ht v * wt δ ≤ max (ht v) (htMap r) * wt δ := Nat.mul_le_mul_right _ (Nat.le_max_left _ _)
    have h2 : htMap r * wt δ ≤ max (ht v) (htMap r) * wt δ := Nat.mul_le_mul_right _ (Nat.le_max_right _ _)
    obtain ⟨a, ha, ha'⟩ := hI δ v (by omega)
    obtain ⟨b, hb, hb1, hb2⟩ := hM δ r (by omega)
    refine ⟨(k, a) :: b, by simp [mapF, ha, hb], by simp [hb1], ?_⟩
    simp only [htMap]; omega

theorem inst_total_step (n : Nat) (ih : TotalAt n) :
    ∀ δ p, ht p * wt δ ≤ n + 1 → ∃ r, instF (n + 1) δ p = some r ∧ ht r ≤ ht p * wt δ := by
  obtain ⟨hI, hM, hV, hE, hS⟩ := ih
  intro δ p h
  have hK := wt_pos δ
  have hself : ht p ≤ ht p * wt δ := le_mul_of_one_le _ _ hK
  cases p with
  | evar y => ored [instF]; exact ⟨_, rfl, hself⟩
  | svar y => ored [instF]; exact ⟨_, rfl, hself⟩
  | sym y => ored [instF]; exact ⟨_, rfl, hself⟩
  | mv id ef sf ps ns hs =>
    ored [instF]; refine ⟨_, rfl, ?_⟩
    split
    · next q hq =>
      have := lookup_ht δ id q hq
      simp only [ht, Nat.one_mul, wt]; omega
    · exact hself
  | imp l r =>
    by_cases he : δ.isEmpty = true
    · ored [instF, he]; exact ⟨_, rfl, hself⟩
    · simp only [ht] at h ⊢
      have h1 : ht l * wt δ ≤ max (ht l) (ht r) * wt δ := Nat.mul_le_mul_right _ (Nat.le_max_left _ _)
      have h2 : ht r * wt δ ≤ max (ht l) (ht r) * wt δ := Nat.mul_le_mul_right _ (Nat.le_max_right _ _)
      have h3 : (1 + max (ht l) (ht r)) * wt δ = wt δ + max (ht l) (ht r) * wt δ := by
        rw [Nat.add_mul, Nat.one_mul]
      obtain ⟨a, ha, ha'⟩ := hI δ l (by omega)
      obtain ⟨b, hb, hb'⟩ := hI δ r (by omega)
      ored [instF, he, ha, hb]; exact ⟨_, rfl, by simp only [ht]; omega⟩
  | app l r =>
    by_cases he : δ.isEmpty = true
    · ored [instF, he]; exact ⟨_, rfl, hself⟩
    · simp only [ht] at h ⊢
      have h1 : ht l * wt δ ≤ max (ht l) (ht r) * wt δ := Nat.mul_le_mul_right _ (Nat.le_max_left _ _)
      have h2 : ht r * wt δ ≤ max (ht l) (ht r) * wt δ := Nat.mul_le_mul_right _ (Nat.le_max_right _ _)
      have h3 : (1 + max (ht l) (ht r)) * wt δ = wt δ + max (ht l) (ht r) * wt δ := by
        rw [Nat.add_mul, Nat.one_mul]
      obtain ⟨a, ha, ha'⟩ := hI δ l (by omega)
      obtain ⟨b, hb, hb'⟩ := hI δ r (by omega)
      ored [instF, he, ha, hb]; exact ⟨_, rfl, by simp only [ht]; omega⟩
  | ex y q =>
    by_cases he : δ.isEmpty = true
    · ored [instF, he]; exact ⟨_, rfl, hself⟩
    · simp only [ht] at h ⊢
      have h3 : (1 + ht q) * wt δ = wt δ + ht q * wt δ := by rw [Nat.add_mul, Nat.one_mul]
      obtain ⟨a, ha, ha'⟩ := hI δ q (by omega)
      ored [instF, he, ha]; exact ⟨_, rfl, by simp only [ht]; omega⟩
  | mu y q =>
    by_cases he : δ.isEmpty = true
    · ored [instF, he]; exact ⟨_, rfl, hself⟩
    · simp only [ht] at h ⊢
      have h3 : (1 + ht q) * wt δ = wt δ + ht q * wt δ := by rw [Nat.add_mul, Nat.one_mul]
      obtain ⟨a, ha, ha'⟩ := hI δ q (by omega)
      ored [instF, he, ha]; exact ⟨_, rfl, by simp only [ht]; omega⟩
  | esub p' y q =>
    by_cases he : δ.isEmpty = true
    · ored [instF, he]; exact ⟨_, rfl, hself⟩
    · simp only [ht] at h ⊢
      have h3 : (1 + ht p' + ht q) * wt δ = wt δ + ht p' * wt δ + ht q * wt δ := by
        rw [Nat.add_mul, Nat.add_mul, Nat.one_mul]
      obtain ⟨a, ha, ha'⟩ := hI δ p' (by omega)
      obtain ⟨b, hb, hb'⟩ := hI δ q (by omega)
      obtain ⟨c, hc, hc'⟩ := hE y b a (by omega)
      ored [instF, he, ha, hb, hc]; exact ⟨c, rfl, by omega⟩
  | ssub p' y q =>
    by_cases he : δ.isEmpty = true
    · ored [instF, he]; exact ⟨_, rfl, hself⟩
    · simp only [ht] at h ⊢
      have h3 : (1 + ht p' + ht q) * wt δ = wt δ + ht p' * wt δ + ht q * wt δ := by
        rw [Nat.add_mul, Nat.add_mul, Nat.one_mul]
      obtain ⟨a, ha, ha'⟩ := hI δ p' (by omega)
      obtain ⟨b, hb, hb'⟩ := hI δ q (by omega)
      obtain ⟨c, hc, hc'⟩ := hS y b a (by omega)
      ored [instF, he, ha, hb, hc]; exact ⟨c, rfl, by omega⟩
  | inst p' m =>
    rw [ht_inst] at h ⊢
    have h3 : (1 + ht p' * wt m) * wt δ = wt δ + ht p' * wt m * wt δ := by rw [Nat.add_mul, Nat.one_mul]
    -- ht p' * wt m * wt δ ≥ wt m * wt δ ≥ 1 + |m| + htMap m * wt δ
    have h4 : wt m * wt δ ≤ ht p' * wt m * wt δ := by
      rw [Nat.mul_assoc]
      exact Nat.le_mul_of_pos_left _ (ht_pos p')
    have h5 : wt m * wt δ = wt δ + m.length * wt δ + htMap m * wt δ := by
      simp only [wt, Nat.add_mul, Nat.one_mul]
    have h6 := le_mul_of_one_le m.length (wt δ) hK
    have h7 : ht p' ≤ ht p' * wt m * wt δ :=
      Nat.le_trans (le_mul_of_one_le _ _ (wt_pos m)) (le_mul_of_one_le _ _ hK)
    obtain ⟨m', hm', hl, hh⟩ := hM δ m (by omega)
    obtain ⟨L, hL⟩ := hV p' (by omega)
    ored [instF, hm', hL, Option.bind_eq_bind, Option.pure_def, Option.bind_some]; refine ⟨_, rfl, ?_⟩
    rw [ht_inst]
    have h8 := wt_newmap δ m m' (fun x => !(keys m).contains x.1 && L.contains x.1) hl hh
    have h9 : ht p' * wt (m' ++ dedupKeys (δ.filter fun x => !(keys m).contains x.1 && L.contains x.1) []) ≤
        ht p' * (wt m * wt δ) := Nat.mul_le_mul_left _ h8
    rw [← Nat.mul_assoc] at h9
    omega

theorem total_all (n : Nat) : TotalAt n := by
  induction n with
  | zero => exact total_zero
  | succ n ih =>
    exact ⟨inst_total_step n ih, map_total_step n ih, mvs_total_step n ih, esub_total_step n ih,
      ssub_total_step n ih⟩

/-! ## the operations are total: explicit fuel bounds -/

/-- `instantiate(δ)` returns as soon as the fuel reaches `ht p * wt δ`; the result is not higher than that -/
theorem instF_terminates (δ : List (Nat × NPat)) (p : NPat) (n : Nat) (h : ht p * wt δ ≤ n) :
    ∃ r, instF n δ p = some r ∧ ht r ≤ ht p * wt δ := (total_all n).inst δ p h

theorem mapF_terminates (δ m : List (Nat × NPat)) (n : Nat) (h : 1 + m.length + htMap m * wt δ ≤ n) :
    ∃ m', mapF n δ m = some m' ∧ m'.length = m.length ∧ htMap m' ≤ htMap m * wt δ := (total_all n).map δ m h

theorem metavarsF_terminates (p : NPat) (n : Nat) (h : ht p ≤ n) : ∃ L, metavarsF n p = some L :=
  (total_all n).mvs p h

theorem esubF_terminates (x : VId) (plug p : NPat) (n : Nat) (h : ht p ≤ n) :
    ∃ r, esubF n x plug p = some r ∧ ht r ≤ ht p + ht plug + 1 := (total_all n).esub x plug p h

theorem ssubF_terminates (x : VId) (plug p : NPat) (n : Nat) (h : ht p ≤ n) :
    ∃ r, ssubF n x plug p = some r ∧ ht r ≤ ht p + ht plug + 1 := (total_all n).ssub x plug p h

/-- one level of `simplify()`; the result is strictly lower than the notation node -/
theorem simplifyF_terminates (p : NPat) (n : Nat) (h : ht p ≤ n + 1) :
    ∃ s, simplifyF n p = some s ∧ ht s ≤ ht p := by
  cases p with
  | inst q m =>
    rw [ht_inst] at h ⊢
    obtain ⟨s, hs, hs'⟩ := instF_terminates m q n (by omega)
    exact ⟨s, by simpa only [simplifyF] using hs, by omega⟩
  | _ => ored [simplifyF]; exact ⟨_, rfl, Nat.le_refl _⟩

theorem evarIsFreeF_terminates : ∀ (n : Nat) (e : VId) (p : NPat), ht p ≤ n → ∃ b, evarIsFreeF n e p = some b := by
  intro n
  induction n with
  | zero => intro e p h; have := ht_pos p; omega
  | succ n ih =>
    intro e p h
    cases p with
    | evar y => ored [evarIsFreeF]; exact ⟨_, rfl⟩
    | svar y => ored [evarIsFreeF]; exact ⟨_, rfl⟩
    | sym y => ored [evarIsFreeF]; exact ⟨_, rfl⟩
    | mv id ef sf ps ns hs => ored [evarIsFreeF]; exact ⟨_, rfl⟩
    | imp l r =>
      simp only [ht] at h
      obtain ⟨a, ha⟩ := ih e l (by omega)
      obtain ⟨b, hb⟩ := ih e r (by omega)
      ored [evarIsFreeF, ha, hb]; exact ⟨_, rfl⟩
    | app l r =>
      simp only [ht] at h
      obtain ⟨a, ha⟩ := ih e l (by omega)
      obtain ⟨b, hb⟩ := ih e r (by omega)
      ored [evarIsFreeF, ha, hb]; exact ⟨_, rfl⟩
    | ex y q =>
      simp only [ht] at h
      obtain ⟨a, ha⟩ := ih e q (by omega)
      by_cases hy : (e == y) = true
      · ored [evarIsFreeF, hy, if_true]; exact ⟨true, rfl⟩
      · ored [evarIsFreeF, hy, ha]; exact ⟨a, rfl⟩
    | mu y q =>
      simp only [ht] at h
      obtain ⟨a, ha⟩ := ih e q (by omega)
      ored [evarIsFreeF, ha]; exact ⟨a, rfl⟩
    | esub p' y q =>
      simp only [ht] at h
      obtain ⟨a, ha⟩ := ih e p' (by omega)
      obtain ⟨b, hb⟩ := ih e q (by omega)
      by_cases hy : (y == e) = true
      · ored [evarIsFreeF, hy, if_true, hb]; exact ⟨b, rfl⟩
      · cases a with
        | true => ored [evarIsFreeF, hy, ha, hb]; exact ⟨b, rfl⟩
        | false => ored [evarIsFreeF, hy, ha]; exact ⟨false, rfl⟩
    | ssub p' y q =>
      simp only [ht] at h
      obtain ⟨a, ha⟩ := ih e p' (by omega)
      obtain ⟨b, hb⟩ := ih e q (by omega)
      cases a with
      | true => ored [evarIsFreeF, ha, hb]; exact ⟨b, rfl⟩
      | false => ored [evarIsFreeF, ha]; exact ⟨false, rfl⟩
    | inst p' m =>
      rw [ht_inst] at h
      obtain ⟨s, hs, hs'⟩ := instF_terminates m p' n (by omega)
      obtain ⟨b, hb⟩ := ih e s (by omega)
      ored [evarIsFreeF, hs, hb]; exact ⟨b, rfl⟩

theorem naryF_terminates : ∀ (n : Nat) (p : NPat), ht p ≤ n → ∃ r, naryF n p = some r := by
  intro n
  induction n with
  | zero => intro p h; have := ht_pos p; omega
  | succ n ih =>
    intro p h
    cases p with
    | app l r =>
      simp only [ht] at h
      obtain ⟨a, ha⟩ := ih l (by omega)
      ored [naryF, ha]; exact ⟨_, rfl⟩
    | inst p' m =>
      rw [ht_inst] at h
      obtain ⟨s, hs, hs'⟩ := instF_terminates m p' n (by omega)
      obtain ⟨b, hb⟩ := ih s (by omega)
      ored [naryF, hs, hb]; exact ⟨b, rfl⟩
    | _ => ored [naryF]; exact ⟨_, rfl⟩

/-- the fuel bound for `a == b` -/
def peqBound (a b : NPat) : Nat := ht a + ht b - 1

/-- `a == b` returns as soon as `ht a + ht b ≤ fuel + 1` -/
theorem peqF_terminates_aux : ∀ (n : Nat) (a b : NPat), ht a + ht b ≤ n + 1 → ∃ r, peqF n a b = some r := by
  intro n
  induction n with
  | zero => intro a b h; have := ht_pos a; have := ht_pos b; omega
  | succ n ih =>
    intro a b h
    have hb1 := ht_pos b
    have ha1 := ht_pos a
    -- left operand a notation node
    have left : ∀ p m, a = inst p m → ∃ r, peqF (n + 1) a b = some r := by
      intro p m e; subst e
      rw [ht_inst] at h
      obtain ⟨s, hs, hs'⟩ := instF_terminates m p n (by omega)
      obtain ⟨r, hr⟩ := ih s b (by omega)
      ored [peqF, hs, hr]; exact ⟨r, rfl⟩
    -- right operand a notation node, left operand not
    have right : ∀ p m, b = inst p m → a.isInst = false → ∃ r, peqF (n + 1) a b = some r := by
      intro p m e hi; subst e
      rw [ht_inst] at h
      obtain ⟨s, hs, hs'⟩ := instF_terminates m p n (by omega)
      obtain ⟨r, hr⟩ := ih s a (by omega)
      refine ⟨r, ?_⟩
      cases a <;> first | (simp [isInst] at hi; done) | simp [peqF, hs, hr]
    cases a with
    | inst p m => exact left p m rfl
    | evar x =>
      cases b with
      | inst p m => exact right p m rfl rfl
      | _ => ored [peqF]; exact ⟨_, rfl⟩
    | svar x =>
      cases b with
      | inst p m => exact right p m rfl rfl
      | _ => ored [peqF]; exact ⟨_, rfl⟩
    | sym x =>
      cases b with
      | inst p m => exact right p m rfl rfl
      | _ => ored [peqF]; exact ⟨_, rfl⟩
    | mv a1 a2 a3 a4 a5 a6 =>
      cases b with
      | inst p m => exact right p m rfl rfl
      | _ => ored [peqF]; exact ⟨_, rfl⟩
    | imp l r =>
      cases b with
      | inst p m => exact right p m rfl rfl
      | imp l' r' =>
        simp only [ht] at h
        obtain ⟨x, hx⟩ := ih l l' (by omega)
        obtain ⟨y, hy⟩ := ih r r' (by omega)
        cases x with
        | true => ored [peqF, hx, hy]; exact ⟨y, rfl⟩
        | false => ored [peqF, hx]; exact ⟨false, rfl⟩
      | _ => ored [peqF]; exact ⟨_, rfl⟩
    | app l r =>
      cases b with
      | inst p m => exact right p m rfl rfl
      | app l' r' =>
        simp only [ht] at h
        obtain ⟨x, hx⟩ := ih l l' (by omega)
        obtain ⟨y, hy⟩ := ih r r' (by omega)
        cases x with
        | true => ored [peqF, hx, hy]; exact ⟨y, rfl⟩
        | false => ored [peqF, hx]; exact ⟨false, rfl⟩
      | _ => ored [peqF]; exact ⟨_, rfl⟩
    | ex x q =>
      cases b with
      | inst p m => exact right p m rfl rfl
      | ex y q' =>
        simp only [ht] at h
        obtain ⟨c, hc⟩ := ih q q' (by omega)
        by_cases hxy : (x == y) = true
        · ored [peqF, hxy, if_true, hc]; exact ⟨c, rfl⟩
        · ored [peqF, hxy]; exact ⟨false, rfl⟩
      | _ => ored [peqF]; exact ⟨_, rfl⟩
    | mu x q =>
      cases b with
      | inst p m => exact right p m rfl rfl
      | mu y q' =>
        simp only [ht] at h
        obtain ⟨c, hc⟩ := ih q q' (by omega)
        by_cases hxy : (x == y) = true
        · ored [peqF, hxy, if_true, hc]; exact ⟨c, rfl⟩
        · ored [peqF, hxy]; exact ⟨false, rfl⟩
      | _ => ored [peqF]; exact ⟨_, rfl⟩
    | esub q x r =>
      cases b with
      | inst p m => exact right p m rfl rfl
      | esub q' y r' =>
        simp only [ht] at h
        obtain ⟨c, hc⟩ := ih q q' (by omega)
        obtain ⟨d, hd⟩ := ih r r' (by omega)
        cases c with
        | false => ored [peqF, hc]; exact ⟨false, rfl⟩
        | true =>
          by_cases hxy : (x != y) = true
          · ored [peqF, hc, hxy]; exact ⟨false, rfl⟩
          · ored [peqF, hc, hxy, hd]; exact ⟨d, rfl⟩
      | _ => ored [peqF]; exact ⟨_, rfl⟩
    | ssub q x r =>
      cases b with
      | inst p m => exact right p m rfl rfl
      | ssub q' y r' =>
        simp only [ht] at h
        obtain ⟨c, hc⟩ := ih q q' (by omega)
        obtain ⟨d, hd⟩ := ih r r' (by omega)
        cases c with
        | false => ored [peqF, hc]; exact ⟨false, rfl⟩
        | true =>
          by_cases hxy : (x != y) = true
          · ored [peqF, hc, hxy]; exact ⟨false, rfl⟩
          · ored [peqF, hc, hxy, hd]; exact ⟨d, rfl⟩
      | _ => ored [peqF]; exact ⟨_, rfl⟩

/-- **`==` terminates**: with fuel at least `peqBound a b = ht a + ht b - 1` it returns -/
theorem peqF_terminates (a b : NPat) (n : Nat) (h : peqBound a b ≤ n) : ∃ r, peqF n a b = some r := by
  apply peqF_terminates_aux
  simp only [peqBound] at h
  omega

/-- total correctness of `==` on shaped patterns -/
theorem peqF_decides (a b : NPat) (ha : a.Shape = true) (hb : b.Shape = true) (n : Nat)
    (h : peqBound a b ≤ n) : peqF n a b = some (decide (a.expand = b.expand)) := by
  obtain ⟨r, hr⟩ := peqF_terminates a b n h
  rw [hr, peqF_expand n a b r ha hb hr]

/-! ## the exact recursion depth of `==`

The closed bound `peqBound` is an over-approximation (multiplicative in the nesting of notation bodies).  Since `==`
terminates below it and fuel is monotone, the *least* sufficient fuel is computable by bounded search: `peqDepth a b`
is the recursion depth of `a == b`, and `peqF n a b` is defined exactly when `peqDepth a b ≤ n`. -/

/-- the least `n ≤ k` with `f n`, and `k` if there is none below `k` -/
def leastUpTo (f : Nat → Bool) : Nat → Nat
  | 0 => 0
  | k + 1 => if f (leastUpTo f k) then leastUpTo f k else k + 1

theorem leastUpTo_inv (f : Nat → Bool) (k : Nat) :
    leastUpTo f k ≤ k ∧ (∀ n, n < leastUpTo f k → f n = false) ∧ (leastUpTo f k < k → f (leastUpTo f k) = true) := by
  induction k with
  | zero => simp [leastUpTo]
  | succ k ih =>
    obtain ⟨h1, h2, h3⟩ := ih
    simp only [leastUpTo]
    by_cases hf : f (leastUpTo f k) = true
    · rw [if_pos hf]
      exact ⟨by omega, h2, fun _ => hf⟩
    · rw [if_neg hf]
      refine ⟨Nat.le_refl _, ?_, fun h => absurd h (Nat.lt_irrefl _)⟩
      intro n hn
      by_cases hlt : n < leastUpTo f k
      · exact h2 n hlt
      · have hk : ¬ leastUpTo f k < k := fun h => hf (h3 h)
        have : n = leastUpTo f k := by omega
        subst this
        simpa using hf

theorem leastUpTo_spec (f : Nat → Bool) (K : Nat) (hmono : ∀ n, f n = true → f (n + 1) = true)
    (hK : f K = true) : ∀ n, f n = true ↔ leastUpTo f K ≤ n := by
  obtain ⟨h1, h2, h3⟩ := leastUpTo_inv f K
  have hm : f (leastUpTo f K) = true := by
    by_cases h : leastUpTo f K < K
    · exact h3 h
    · have : leastUpTo f K = K := by omega
      rw [this]; exact hK
  have up : ∀ d, f (leastUpTo f K + d) = true := by
    intro d
    induction d with
    | zero => exact hm
    | succ d ih => exact hmono _ ih
  intro n
  constructor
  · intro hn
    apply Nat.le_of_not_lt
    intro hlt
    rw [h2 n hlt] at hn; cases hn
  · intro hn
    have := up (n - leastUpTo f K)
    rwa [Nat.add_sub_cancel' hn] at this

/-- the recursion depth of `a == b`: the least fuel at which `peqF` answers -/
def peqDepth (a b : NPat) : Nat := leastUpTo (fun n => (peqF n a b).isSome) (peqBound a b)

theorem peqDepth_le_bound (a b : NPat) : peqDepth a b ≤ peqBound a b := (leastUpTo_inv _ _).1

/-- `a == b` answers exactly when the fuel reaches the depth (below it: `none`, Python's `RecursionError`) -/
theorem peqF_isSome_iff (a b : NPat) (n : Nat) : (peqF n a b).isSome = true ↔ peqDepth a b ≤ n := by
  apply leastUpTo_spec (fun n => (peqF n a b).isSome) (peqBound a b)
  · intro k hk
    simp only [Option.isSome_iff_exists] at hk ⊢
    obtain ⟨r, hr⟩ := hk
    exact ⟨r, peqF_step k a b r hr⟩
  · obtain ⟨r, hr⟩ := peqF_terminates a b (peqBound a b) (Nat.le_refl _)
    simp [hr]

theorem peqF_none_iff (a b : NPat) (n : Nat) : peqF n a b = none ↔ n < peqDepth a b := by
  have := peqF_isSome_iff a b n
  cases h : peqF n a b with
  | none => simp [h] at this; simp; omega
  | some r => simp [h] at this; simp; omega

end NPat
