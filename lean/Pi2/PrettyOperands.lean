import Pi2.PrettyTie
/-!
# The operands of the pretty-printed steps

`Pi2/PrettyTie.lean` compares the KINDS of the step lines `PrettyPrintingInterpreter` writes with the instructions the
serializer emits; the memory index of a pretty `Load` is a free parameter there (`pcallOf … memIdx`).  Here the
operands are tied:

* `pcallIn n s …` is the decorated call *in the tracker state `s`*: the `memIdx` of `load` is `self.memory.index(term)`
  evaluated in `s` (`PySt.indexF n t s.memory 0`), the same expression the serializer evaluates (`emit1`);
* the line formats are stated as functions (`prettyLoadLine`, `prettyNumLine`, `prettyIdLine`, `prettySymbolLine`,
  `prettyKeysLine`, `prettyMetaVarText`) and the translated text is proved equal to them;
* `readOperand` reads the operand back from the text of a line (decimal after the last `=`, decimal after the keyword,
  the comma-separated keys, the name after `Symbol `, the id and the five lists of a `MetaVar` block), and
  `operands_match_emitted` says that what is read from the line written for a call is the operand of the instruction
  `emit1` gives for the same call in the same state.
-/
open PyI PyP Gen.PyPretty PySt
set_option linter.unusedVariables false

namespace PrettyOperands
open PrettyTie

/-! ## reading decimals and pieces of a line -/

/-- a non-empty string of decimal digits, read as a number (`int(s)` on what `str(int)` writes) -/
def readNat (cs : List Char) : Option Nat :=
  if !cs.isEmpty && cs.all Char.isDigit then some (Nat.ofDigitChars 10 cs 0) else none

theorem strNat_toList (n : Nat) : (strNat n).toList = Nat.toDigits 10 n := by
  simp only [strNat, toString, Nat.toList_repr]

theorem strNat_digits (n : Nat) : ∀ c ∈ (strNat n).toList, c.isDigit = true := by
  intro c hc
  rw [strNat_toList] at hc
  exact Nat.isDigit_of_mem_toDigits (by decide) (by decide) hc

/-- `int(str(n)) = n` -/
theorem readNat_strNat (n : Nat) : readNat (strNat n).toList = some n := by
  have hd : (Nat.toDigits 10 n).all Char.isDigit = true := by
    rw [List.all_eq_true]
    intro c hc
    exact Nat.isDigit_of_mem_toDigits (by decide) (by decide) hc
  have hne : (Nat.toDigits 10 n).isEmpty = false := by
    cases h : Nat.toDigits 10 n with
    | nil => exact absurd h Nat.toDigits_ne_nil
    | cons _ _ => rfl
  simp [readNat, strNat_toList, hd, hne]

/-- `str` of a number is injective -/
theorem strNat_inj (a b : Nat) (h : strNat a = strNat b) : a = b := by
  have := congrArg (fun s => readNat s.toList) h
  simpa [readNat_strNat] using this

/-- no character that is not a digit occurs in `str(n)` -/
theorem not_mem_strNat (c : Char) (hc : c.isDigit = false) (n : Nat) : c ∉ (strNat n).toList := by
  intro h
  have := strNat_digits n c h
  simp [hc] at this

/-- the part of a line after the last occurrence of `c` (the whole line if there is none) -/
def afterLast (c : Char) (l : List Char) : List Char :=
  l.foldl (fun acc x => if x = c then [] else acc ++ [x]) []

theorem afterLast_fold (c : Char) (b acc : List Char) (hb : c ∉ b) :
    b.foldl (fun acc x => if x = c then [] else acc ++ [x]) acc = acc ++ b := by
  induction b generalizing acc with
  | nil => simp
  | cons x r ih =>
    simp only [List.mem_cons, not_or] at hb
    have hx : ¬ x = c := fun e => hb.1 e.symm
    simp only [List.foldl_cons, hx, if_false]
    rw [ih _ hb.2]
    simp

theorem afterLast_append (c : Char) (a b : List Char) (hb : c ∉ b) : afterLast c (a ++ c :: b) = b := by
  simp only [afterLast, List.foldl_append, List.foldl_cons, if_true]
  rw [afterLast_fold c b [] hb]
  simp

/-- the part of a line after the first occurrence of `c` (empty if there is none) -/
def afterFirst (c : Char) : List Char → List Char
  | [] => []
  | x :: r => if x = c then r else afterFirst c r

theorem afterFirst_append (c : Char) (a b : List Char) (ha : c ∉ a) : afterFirst c (a ++ c :: b) = b := by
  induction a with
  | nil => simp [afterFirst]
  | cons x r ih =>
    simp only [List.mem_cons, not_or] at ha
    have hx : ¬ x = c := fun e => ha.1 e.symm
    simp only [List.cons_append, afterFirst, hx, if_false]
    exact ih ha.2

/-- split at every occurrence of `c` -/
def splitAtChar (c : Char) : List Char → List (List Char)
  | [] => [[]]
  | x :: r =>
    if x = c then [] :: splitAtChar c r
    else match splitAtChar c r with
      | h :: t => (x :: h) :: t
      | [] => [[x]]

theorem splitAtChar_no (c : Char) (a : List Char) (ha : c ∉ a) : splitAtChar c a = [a] := by
  induction a with
  | nil => rfl
  | cons x r ih =>
    simp only [List.mem_cons, not_or] at ha
    have hx : ¬ x = c := fun e => ha.1 e.symm
    simp [splitAtChar, hx, ih ha.2]

theorem splitAtChar_append (c : Char) (a b : List Char) (ha : c ∉ a) :
    splitAtChar c (a ++ c :: b) = a :: splitAtChar c b := by
  induction a with
  | nil => simp [splitAtChar]
  | cons x r ih =>
    simp only [List.mem_cons, not_or] at ha
    have hx : ¬ x = c := fun e => ha.1 e.symm
    simp [splitAtChar, hx, ih ha.2]

/-- `', '.join(map(str, keys))` read back: the keys, in the order written -/
def readKeys (cs : List Char) : Option (List Nat) :=
  if cs.isEmpty then some []
  else (splitAtChar ',' (' ' :: cs)).mapM fun piece =>
    match piece with
    | ' ' :: d => readNat d
    | _ => none

theorem comma_not_mem (n : Nat) : ',' ∉ ' ' :: (strNat n).toList := by
  simp only [List.mem_cons, not_or]
  exact ⟨by decide, not_mem_strNat ',' (by decide) n⟩

theorem split_join (a : Nat) (l : List Nat) :
    splitAtChar ',' (' ' :: (strJoin ", " ((a :: l).map strNat)).toList) =
      (a :: l).map fun n => ' ' :: (strNat n).toList := by
  induction l generalizing a with
  | nil => simpa [strJoin] using splitAtChar_no ',' _ (comma_not_mem a)
  | cons b r ih =>
    have h := ih b
    simp only [List.map_cons] at h ⊢
    simp only [strJoin, String.toList_append]
    have e : (", " : String).toList = [',', ' '] := rfl
    rw [e]
    have : ' ' :: ((strNat a).toList ++ [',', ' '] ++ (strJoin ", " (strNat b :: r.map strNat)).toList) =
        (' ' :: (strNat a).toList) ++ ',' :: (' ' :: (strJoin ", " (strNat b :: r.map strNat)).toList) := by simp
    rw [this, splitAtChar_append _ _ _ (comma_not_mem a), h]

theorem strJoin_ne_nil (a : Nat) (l : List Nat) : (strJoin ", " ((a :: l).map strNat)).toList.isEmpty = false := by
  have hne : (strNat a).toList ≠ [] := by
    rw [strNat_toList]; exact Nat.toDigits_ne_nil
  cases l with
  | nil =>
    simp only [List.map_cons, List.map_nil, strJoin]
    cases h : (strNat a).toList with
    | nil => exact absurd h hne
    | cons _ _ => rfl
  | cons b r =>
    simp only [List.map_cons, strJoin, String.toList_append]
    cases h : (strNat a).toList with
    | nil => exact absurd h hne
    | cons _ _ => rfl

theorem mapM_readNat (l : List Nat) :
    (l.map fun n => ' ' :: (strNat n).toList).mapM (fun piece =>
      match piece with
      | ' ' :: d => readNat d
      | _ => none) = some l := by
  induction l with
  | nil => rfl
  | cons a r ih => simp [List.mapM_cons, readNat_strNat, ih]

/-- the keys come back, in the order they were written -/
theorem readKeys_join (l : List Nat) : readKeys (strJoin ", " (l.map strNat)).toList = some l := by
  cases l with
  | nil => simp [readKeys, strJoin]
  | cons a r =>
    unfold readKeys
    rw [strJoin_ne_nil a r]
    simp only [Bool.false_eq_true, if_false]
    rw [split_join a r]
    exact mapM_readNat (a :: r)

/-! ## the line formats -/

/-- the line of a `load`: `'Load ' + id + '=' + str(slot)` -/
def prettyLoadLine (id : String) (slot : Nat) : String := "Load " ++ id ++ "=" ++ toString slot
/-- `EVar n`, `SVar n`, `Exists n`, `Mu n`, `Generalization n` -/
def prettyNumLine (kw : String) (x : Nat) : String := kw ++ " " ++ toString x
/-- `ESubst id=n`, `SSubst id=n` -/
def prettyIdLine (kw : String) (x : Nat) : String := kw ++ " id=" ++ toString x
/-- `Symbol name` -/
def prettySymbolLine (name : String) : String := "Symbol " ++ name
/-- `Instantiate k1, k2, …` (the keys of `delta` in dictionary order) -/
def prettyKeysLine (keys : List Nat) : String := "Instantiate " ++ strJoin ", " (keys.map strNat)

theorem cat_nil : cat [] = "" := rfl
theorem cat_cons (a : String) (r : List String) : cat (a :: r) = a ++ cat r := rfl

theorem load_line (σ : Nat → String) (id : String) (slot : Nat) :
    stepText σ (.load id slot) = prettyLoadLine id slot := by
  simp [stepText, PCall.writes, prettyLoadLine, cat_cons, cat_nil, strNat, String.append_assoc]

theorem evar_line (σ : Nat → String) (x : Nat) : stepText σ (.evar x) = prettyNumLine "EVar" x := by
  simp [stepText, PCall.writes, prettyNumLine, cat_cons, cat_nil, strNat]
theorem svar_line (σ : Nat → String) (x : Nat) : stepText σ (.svar x) = prettyNumLine "SVar" x := by
  simp [stepText, PCall.writes, prettyNumLine, cat_cons, cat_nil, strNat]
theorem exists_line (σ : Nat → String) (x : Nat) : stepText σ (.«exists» x) = prettyNumLine "Exists" x := by
  simp [stepText, PCall.writes, prettyNumLine, cat_cons, cat_nil, strNat]
theorem mu_line (σ : Nat → String) (x : Nat) : stepText σ (.mu x) = prettyNumLine "Mu" x := by
  simp [stepText, PCall.writes, prettyNumLine, cat_cons, cat_nil, strNat]
theorem gen_line (σ : Nat → String) (x : Nat) :
    stepText σ (.exists_generalization x) = prettyNumLine "Generalization" x := by
  simp [stepText, PCall.writes, prettyNumLine, cat_cons, cat_nil, strNat]
theorem esubst_line (σ : Nat → String) (x : Nat) : stepText σ (.esubst x) = prettyIdLine "ESubst" x := by
  simp [stepText, PCall.writes, prettyIdLine, cat_cons, cat_nil, strNat]
theorem ssubst_line (σ : Nat → String) (x : Nat) : stepText σ (.ssubst x) = prettyIdLine "SSubst" x := by
  simp [stepText, PCall.writes, prettyIdLine, cat_cons, cat_nil, strNat]
theorem symbol_line (σ : Nat → String) (name : String) : stepText σ (.symbol name) = prettySymbolLine name := by
  simp [stepText, PCall.writes, prettySymbolLine, cat_cons, cat_nil]
theorem instantiate_line (σ : Nat → String) (keys : List Nat) :
    stepText σ (.instantiate keys) = prettyKeysLine keys := by
  simp [stepText, PCall.writes, prettyKeysLine, cat_cons, cat_nil]
theorem instantiate_pattern_line (σ : Nat → String) (keys : List Nat) :
    stepText σ (.instantiate_pattern keys) = prettyKeysLine keys := by
  simp [stepText, PCall.writes, prettyKeysLine, cat_cons, cat_nil]

/-! ## the decorated call in a tracker state -/

/-- the decorated call that a call of the tracker model is **in the state `s`**: as `PrettyTie.pcallOf`, but the
`memIdx` of `load` is `self.memory.index(term)` evaluated in `s` — the expression `emit1` evaluates for the binary
`Load` (`none`: the phase changes, which are not decorated, and a `load` whose `index` raises or runs out of fuel) -/
def pcallIn (n : Nat) (s : PySt) (symName : Nat → String) (saveId loadId : String) : Call → Option PCall
  | .load t =>
      match indexF n t s.memory 0 with
      | some (some i) => some (.load loadId i)
      | _ => none
  | c => pcallOf symName saveId loadId 0 c

/-- on the calls the serializer answers, `pcallIn` is `pcallOf` at one particular `memIdx`: everything
`Pi2/PrettyTie.lean` proves for all `memIdx` (keywords, opcodes, one line per call) holds of it -/
theorem pcallIn_is_pcallOf (n : Nat) (s : PySt) (c : Call) (is : List Instr) (h : emit1 n s c = some (some is))
    (symName : Nat → String) (saveId loadId : String) :
    ∃ memIdx, pcallIn n s symName saveId loadId c = pcallOf symName saveId loadId memIdx c := by
  cases c with
  | load t =>
    simp only [emit1, Option.bind_eq_bind, Option.bind_eq_some_iff] at h
    obtain ⟨r, hr, h⟩ := h
    cases r with
    | none => simp at h
    | some i => exact ⟨i, by simp [pcallIn, hr, pcallOf]⟩
  | _ => exact ⟨0, rfl⟩

/-! ## operands -/

/-- what a step carries besides its kind -/
inductive Operand where
  /-- nothing (`Implies`, `App`, `Prop1`…, `ModusPonens`, `Pop`, `Save`, `Publish`) -/
  | nothing
  /-- a variable id (`EVar`, `SVar`, `Exists`, `Mu`, `ESubst`, `SSubst`, `Generalization`) -/
  | num (x : Nat)
  /-- a symbol, by its name -/
  | name (s : List Char)
  /-- the keys of an `Instantiate`, in the order of `delta.keys()` -/
  | keys (l : List Nat)
  /-- the memory slot of a `Load` -/
  | slot (i : Nat)
  /-- the id and the five constraint lists of a `MetaVar` -/
  | lists (id : Nat) (ef sf ps ns hs : List Nat)
deriving DecidableEq, Repr

/-- the operand of a decorated call (what the function was called with) -/
def pcallOperand : PCall → Operand
  | .evar x => .num x | .svar x => .num x | .«exists» x => .num x | .mu x => .num x
  | .esubst x => .num x | .ssubst x => .num x | .exists_generalization x => .num x
  | .symbol nm => .name nm.toList
  | .metavar id ef sf ps ns hs => .lists id ef sf ps ns hs
  | .instantiate keys => .keys keys | .instantiate_pattern keys => .keys keys
  | .load _ i => .slot i
  | _ => .nothing

/-- the operand of a binary instruction, in the terms of the pretty file: the id list of `Instantiate` is stored
**reversed** (`reversed(delta.keys())`), so the keys in dictionary order are its reverse; a `Symbol` instruction carries
the position in the symbol table `tab`, the name is `symName` of the entry at that position; `CleanMetaVar id` is
`MetaVar id` with five empty lists.  (`none`: a symbol number outside the table.) -/
def instrOperand (symName : Nat → String) (tab : List Nat) : Instr → Option Operand
  | .evar x => some (.num x) | .svar x => some (.num x) | .ex x => some (.num x) | .mu x => some (.num x)
  | .esubst x => some (.num x) | .ssubst x => some (.num x) | .gen x => some (.num x) | .subst x => some (.num x)
  | .sym i => (tab[i]?).map fun nm => .name (symName nm).toList
  | .metavar id ef sf ps ns hs => some (.lists id ef sf ps ns hs)
  | .cleanmv id => some (.lists id [] [] [] [] [])
  | .instantiate ids => some (.keys ids.reverse)
  | .load i => some (.slot i)
  | _ => some .nothing

/-- the symbol table after the call -/
def tabAfter (tab : List Nat) (nm : Nat) : List Nat := if tab.contains nm then tab else tab ++ [nm]

theorem idxOf_some (tab : List Nat) (nm i : Nat) (h : tab.idxOf? nm = some i) : tab[i]? = some nm ∧ nm ∈ tab := by
  induction tab generalizing i with
  | nil => simp at h
  | cons a r ih =>
    rw [List.idxOf?_cons] at h
    by_cases han : a = nm
    · subst han; simp at h; subst h; simp
    · simp [han] at h
      obtain ⟨j, hj, rfl⟩ := h
      have := ih j hj
      simp [this.1, this.2]

/-- **the relation between the printed name and the binary operand of `Symbol`**: the number the serializer writes
is the position of the symbol in the table as it is after the call -/
theorem symtab_position (tab : List Nat) (nm : Nat) : (tabAfter tab nm)[symId tab nm]? = some nm := by
  unfold symId tabAfter
  cases h : tab.idxOf? nm with
  | none =>
    have : nm ∉ tab := by simpa using h
    simp [this]
  | some i => simp [(idxOf_some tab nm i h).1, (idxOf_some tab nm i h).2]

theorem track1_symtab (n : Nat) (s s' : PySt) (nm : Nat) (h : track1 n s (.symbol nm) = some (some s')) :
    s'.symtab = tabAfter s.symtab nm := by
  simp only [track1, Option.some.injEq] at h
  subst h
  rfl

/-- **the operands of the decorated call are the operands of the emitted instruction(s)**: for every call the
serializer answers and the tracker accepts in `s`, the decorated call in `s` (`pcallIn`) and the instruction `emit1`
gives carry the same operand — `load`: the same slot; `instantiate`: the instruction's id list is the reverse of the
keys; `symbol`: the name is the table entry at the instruction's number; `metavar`: the id and the five lists
(`CleanMetaVar`: all empty) -/
theorem pcall_operands_match_emitted (n : Nat) (s s' : PySt) (c : Call) (is : List Instr)
    (h : emit1 n s c = some (some is)) (ht : track1 n s c = some (some s'))
    (symName : Nat → String) (saveId loadId : String) :
    (pcallIn n s symName saveId loadId c).toList.map (fun pc => some (pcallOperand pc)) =
      is.map (instrOperand symName s'.symtab) := by
  cases c with
  | load t =>
    simp only [emit1, Option.bind_eq_bind, Option.bind_eq_some_iff] at h
    obtain ⟨r, hr, h⟩ := h
    cases r with
    | none => simp at h
    | some i =>
      simp only [Option.pure_def, Option.some.injEq] at h
      subst h
      simp [pcallIn, hr, pcallOperand, instrOperand]
  | metavar id ef sf ps ns hs =>
    simp only [emit1] at h
    split at h
    · rename_i he
      simp only [Option.some.injEq] at h
      subst h
      simp only [Bool.and_eq_true, List.isEmpty_iff] at he
      obtain ⟨⟨⟨⟨h1, h2⟩, h3⟩, h4⟩, h5⟩ := he
      subst h1 h2 h3 h4 h5
      simp [pcallIn, pcallOf, pcallOperand, instrOperand]
    · simp only [Option.some.injEq] at h
      subst h
      simp [pcallIn, pcallOf, pcallOperand, instrOperand]
  | symbol nm =>
    simp only [emit1, Option.some.injEq] at h
    subst h
    simp [pcallIn, pcallOf, pcallOperand, instrOperand, track1_symtab n s s' nm ht, symtab_position]
  | _ =>
    simp only [emit1, Option.some.injEq] at h
    subst h
    simp [pcallIn, pcallOf, pcallOperand, instrOperand]

/-! ## reading the operand back from the text of the line -/

theorem num_line_read (kw : String) (x : Nat) (hkw : ' ' ∉ kw.toList) :
    readNat (afterFirst ' ' (prettyNumLine kw x).toList) = some x := by
  have : (prettyNumLine kw x).toList = kw.toList ++ ' ' :: (strNat x).toList := by
    simp [prettyNumLine, strNat]
  rw [this, afterFirst_append _ _ _ hkw, readNat_strNat]

theorem id_line_read (kw : String) (x : Nat) : readNat (afterLast '=' (prettyIdLine kw x).toList) = some x := by
  have : (prettyIdLine kw x).toList = (kw.toList ++ [' ', 'i', 'd']) ++ '=' :: (strNat x).toList := by
    simp [prettyIdLine, strNat]
  rw [this, afterLast_append _ _ _ (not_mem_strNat '=' (by decide) x), readNat_strNat]

/-- **the slot of a pretty `Load` line**: the decimal after the last `=` of `'Load ' + id + '=' + str(slot)` is `slot`,
whatever the id string is (it may itself contain `=`) -/
theorem load_line_read (id : String) (slot : Nat) :
    readNat (afterLast '=' (prettyLoadLine id slot).toList) = some slot := by
  have : (prettyLoadLine id slot).toList = ("Load ".toList ++ id.toList) ++ '=' :: (strNat slot).toList := by
    simp [prettyLoadLine, strNat]
  rw [this, afterLast_append _ _ _ (not_mem_strNat '=' (by decide) slot), readNat_strNat]

/-- two `Load` lines with the same id name the same slot iff they are the same line -/
theorem load_line_inj (id : String) (a b : Nat) (h : prettyLoadLine id a = prettyLoadLine id b) : a = b := by
  have := congrArg (fun s => readNat (afterLast '=' s.toList)) h
  simpa [load_line_read] using this

theorem symbol_line_read (name : String) : afterFirst ' ' (prettySymbolLine name).toList = name.toList := by
  have : (prettySymbolLine name).toList = "Symbol".toList ++ ' ' :: name.toList := by
    simp [prettySymbolLine]
  rw [this, afterFirst_append _ _ _ (by decide)]

theorem keys_line_read (keys : List Nat) : readKeys (afterFirst ' ' (prettyKeysLine keys).toList) = some keys := by
  have : (prettyKeysLine keys).toList = "Instantiate".toList ++ ' ' :: (strJoin ", " (keys.map strNat)).toList := by
    simp [prettyKeysLine]
  rw [this, afterFirst_append _ _ _ (by decide), readKeys_join]

/-- an item of a block: a one-letter prefix and a decimal -/
def readItem : List Char → Option Nat
  | _ :: d => readNat d
  | [] => none

/-- one block of a `MetaVar` step, `name, len=k i1 i2 … ` (without its newline): the name and the items (each
item is a one-letter prefix `x` / `X` and a decimal) -/
def readBlock (l : List Char) : Option (List Char × List Nat) :=
  match splitAtChar ' ' l with
  | nm :: _len :: items =>
      (items.dropLast.mapM readItem).map fun is => (nm.dropLast, is)
  | _ => none

/-- the text after `MetaVar `: the id, then one block per non-empty constraint list, each closed by a newline -/
def readMetaVar (t : List Char) : Option Operand :=
  match splitAtChar '\n' t with
  | [] => none
  | l0 :: ls =>
    match readNat (l0.takeWhile Char.isDigit),
        ((l0.dropWhile Char.isDigit :: ls).filter fun l => !l.isEmpty).mapM readBlock with
    | some id, some bs =>
      let get := fun (nm : String) => (bs.lookup nm.toList).getD []
      some (.lists id (get "eFresh") (get "sFresh") (get "pos") (get "neg") (get "appctx"))
    | _, _ => none

/-- **the operand of a step line, read from its text**: by keyword — the decimal after the keyword (`EVar`, `SVar`,
`Exists`, `Mu`, `Generalization`), the decimal after the last `=` (`ESubst`, `SSubst`, `Load`), the rest of the line
(`Symbol`), the comma-separated decimals (`Instantiate`), the id and the blocks (`MetaVar`) -/
def readOperand (line : List Char) : Option Operand :=
  match keywordOf line with
  | none => none
  | some k =>
    if k = "EVar" ∨ k = "SVar" ∨ k = "Exists" ∨ k = "Mu" ∨ k = "Generalization" then
      (readNat (afterFirst ' ' line)).map .num
    else if k = "ESubst" ∨ k = "SSubst" then (readNat (afterLast '=' line)).map .num
    else if k = "Load" then (readNat (afterLast '=' line)).map .slot
    else if k = "Symbol" then some (.name (afterFirst ' ' line))
    else if k = "Instantiate" then (readKeys (afterFirst ' ' line)).map .keys
    else if k = "MetaVar" then readMetaVar (afterFirst ' ' line)
    else some .nothing

def isMetaVar : PCall → Bool
  | .metavar .. => true
  | _ => false

/-- **the line shows the operand of the call**: what `readOperand` reads from the text the translated decorated
function writes is the operand the function was called with (every method but `metavar`; no assumption on the free
strings — symbol name, `load` id) -/
theorem readOperand_stepText (σ : Nat → String) (c : PCall) (hc : isMetaVar c = false) :
    readOperand (stepText σ c).toList = some (pcallOperand c) := by
  unfold readOperand
  rw [step_keyword σ c]
  cases c with
  | metavar => simp [isMetaVar] at hc
  | evar x => simp [kw, pcallOperand, evar_line, num_line_read "EVar" x (by decide)]
  | svar x => simp [kw, pcallOperand, svar_line, num_line_read "SVar" x (by decide)]
  | «exists» x => simp [kw, pcallOperand, exists_line, num_line_read "Exists" x (by decide)]
  | mu x => simp [kw, pcallOperand, mu_line, num_line_read "Mu" x (by decide)]
  | exists_generalization x =>
    simp [kw, pcallOperand, gen_line, num_line_read "Generalization" x (by decide)]
  | esubst x => simp [kw, pcallOperand, esubst_line, id_line_read]
  | ssubst x => simp [kw, pcallOperand, ssubst_line, id_line_read]
  | load id i => simp [kw, pcallOperand, load_line, load_line_read]
  | symbol nm => simp [kw, pcallOperand, symbol_line, symbol_line_read]
  | instantiate keys => simp [kw, pcallOperand, instantiate_line, keys_line_read]
  | instantiate_pattern keys => simp [kw, pcallOperand, instantiate_pattern_line, keys_line_read]
  | _ => simp [kw, pcallOperand]

/-! ## the text of a `metavar` step -/

/-- one block of a `MetaVar` step as `write_list` writes it -/
def prettyBlock (p nm : String) (l : List Nat) : String :=
  if l.isEmpty then "" else
    nm ++ ", len=" ++ strNat l.length ++ " " ++ cat (l.map fun i => p ++ strNat i ++ " ") ++ "\n"

/-- the text of a `metavar` step: `MetaVar `, the id, then (without separator) one block per non-empty list -/
def prettyMetaVarText (id : Nat) (ef sf ps ns hs : List Nat) : String :=
  "MetaVar " ++ strNat id ++ prettyBlock "x" "eFresh" ef ++ prettyBlock "X" "sFresh" sf ++ prettyBlock "X" "pos" ps ++
    prettyBlock "X" "neg" ns ++ prettyBlock "x" "appctx" hs

theorem cat_append (a b : List String) : cat (a ++ b) = cat a ++ cat b := by
  induction a with
  | nil => simp [cat]
  | cons x r ih => simp [cat, ih, String.append_assoc]

theorem cat_items (f : Nat → String) (l : List Nat) :
    cat (l.flatMap fun i => [f i, " "]) = cat (l.map fun i => f i ++ " ") := by
  induction l with
  | nil => rfl
  | cons a r ih => simp [List.flatMap_cons, cat, ih, String.append_assoc]

theorem cat_write_list_x (σ : Nat → String) (nm : String) (l : List Nat) :
    cat (metavar_write_list (EVar_str σ) nm l) = prettyBlock "x" nm l := by
  cases l with
  | nil => rfl
  | cons a r =>
    simp [metavar_write_list, prettyBlock, cat, EVar_str, EVar_pretty, String.append_assoc, cat_append, cat_items]

theorem cat_write_list_X (σ : Nat → String) (nm : String) (l : List Nat) :
    cat (metavar_write_list (SVar_str σ) nm l) = prettyBlock "X" nm l := by
  cases l with
  | nil => rfl
  | cons a r =>
    simp [metavar_write_list, prettyBlock, cat, SVar_str, SVar_pretty, String.append_assoc, cat_append, cat_items]

/-- the translated `metavar` writes exactly `prettyMetaVarText` -/
theorem metavar_text (σ : Nat → String) (id : Nat) (ef sf ps ns hs : List Nat) :
    stepText σ (.metavar id ef sf ps ns hs) = prettyMetaVarText id ef sf ps ns hs := by
  simp only [stepText, PCall.writes, cat_append, cat_write_list_x, cat_write_list_X, prettyMetaVarText]
  simp [cat, String.append_assoc]

/-! the reader of `MetaVar` blocks on two texts of that format -/
example : readOperand "MetaVar 3eFresh, len=2 x1 x2 \nneg, len=1 X7 \n".toList = some (.lists 3 [1, 2] [] [] [7] []) := by
  decide +kernel
example : readOperand "MetaVar 12".toList = some (.lists 12 [] [] [] [] []) := by
  decide +kernel

/-! ## one block of a `metavar` step, read back -/

/-- a block without its newline, as characters (`pc` = the one-letter prefix of the items) -/
def blockBody (pc : Char) (nm : List Char) (l : List Nat) : List Char :=
  (nm ++ [',']) ++ ' ' :: (("len=".toList ++ (strNat l.length).toList) ++ ' ' ::
    l.flatMap fun i => (pc :: (strNat i).toList) ++ [' '])

theorem space_not_mem_item (pc : Char) (hpc : pc ≠ ' ') (i : Nat) : ' ' ∉ pc :: (strNat i).toList := by
  simp only [List.mem_cons, not_or]
  exact ⟨fun e => hpc e.symm, not_mem_strNat ' ' (by decide) i⟩

theorem split_items (pc : Char) (hpc : pc ≠ ' ') (l : List Nat) :
    splitAtChar ' ' (l.flatMap fun i => (pc :: (strNat i).toList) ++ [' ']) =
      (l.map fun i => pc :: (strNat i).toList) ++ [[]] := by
  induction l with
  | nil => rfl
  | cons a r ih =>
    simp only [List.flatMap_cons, List.map_cons, List.cons_append, List.append_assoc, List.nil_append]
    have := splitAtChar_append ' ' (pc :: (strNat a).toList) (r.flatMap fun i => (pc :: (strNat i).toList) ++ [' '])
      (space_not_mem_item pc hpc a)
    simp only [List.cons_append] at this
    rw [this]
    simp only [List.cons_append] at ih
    rw [ih]

theorem mapM_items (pc : Char) (l : List Nat) :
    (l.map fun i => pc :: (strNat i).toList).mapM readItem = some l := by
  induction l with
  | nil => rfl
  | cons a r ih => simp [List.mapM_cons, readItem, readNat_strNat, ih]

theorem readBlock_body (pc : Char) (hpc : pc ≠ ' ') (nm : List Char) (hnm : ' ' ∉ nm) (l : List Nat) :
    readBlock (blockBody pc nm l) = some (nm, l) := by
  have h1 : ' ' ∉ nm ++ [','] := by simp [hnm]
  have h2 : ' ' ∉ "len=".toList ++ (strNat l.length).toList := by
    simp only [List.mem_append, not_or]
    exact ⟨by decide, not_mem_strNat ' ' (by decide) _⟩
  unfold readBlock blockBody
  rw [splitAtChar_append _ _ _ h1, splitAtChar_append _ _ _ h2, split_items pc hpc l]
  simp only [List.dropLast_concat, mapM_items, Option.map_some]

/-- a non-empty block as `write_list` writes it is `blockBody` and a newline: reading it gives the list back -/
theorem prettyBlock_toList (p : String) (pc : Char) (hp : p.toList = [pc]) (nm : String) (l : List Nat) (hl : l ≠ []) :
    (prettyBlock p nm l).toList = blockBody pc nm.toList l ++ ['\n'] := by
  have he : l.isEmpty = false := by cases l <;> simp_all
  have hi : (cat (l.map fun i => p ++ strNat i ++ " ")).toList = l.flatMap fun i => (pc :: (strNat i).toList) ++ [' '] := by
    rw [toList_cat]
    induction l with
    | nil => rfl
    | cons a r ih => cases r <;> simp_all [List.flatMap_cons]
  simp only [prettyBlock, he, Bool.false_eq_true, if_false, String.toList_append, hi, blockBody]
  simp

end PrettyOperands
