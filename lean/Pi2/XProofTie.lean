import Pi2.MM.XStep
import Pi2.MM.TermThm
import Pi2.MM.Sim
import Pi2.Gen.ExecProof
/-!
# `exec_proof` as written in `metamath/translate.py` is the model `MM.xstep` / `MM.xrun` / `MM.execProof`

`Pi2/Gen/ExecProof.lean` is regenerated from the source on every run (`vlib/transxproof.py`): the closures `get_delta`,
`get_rule_delta`, `do_mp`, the function `convert_to_implication`, one definition per branch of the loop body (`br_memory`:
`lemma not in exported_proof.labels`; `br_pattern_constructors`; `br_fp_label_to_pattern`: floating hypotheses;
`br_exported_axioms`; `br_proof_rules`; `br_else`), `step` (the loop body) and `exec_proof`, every statement one line, every interpreter call
with where its arguments come from (`PyXProof.Val`: stack position + time of reading).  The hand-written model is
`Pi2/MM/Translate.lean` (`xstep`, restated per case in `Pi2/MM/XStep.lean`: `xSave`, `xReuse`, `xImp`, `xApp`, `xCtor`,
`xRule`, `xP1`, `xP2`, `xMp`).

## the converter of a model database (`ofDB`): which field of `MM.DB` answers which query of `MetamathConverter`

* `label in converter.pattern_constructors`  ⇔  the label is `Lbl.impC`, `Lbl.appC` or `Lbl.ctor _` (`DB.impArgs`, `DB.appArgs`,
  `DB.ctors`: the `$a #Pattern …` axioms);
* `label in converter._fp_label_to_pattern`, `get_floating_pattern_by_name(label)[0]`  ⇔  `Lbl.float v`, with the pattern
  `MetaVar(DB.mvId v)` (`DB.floats`: the `$f #Pattern v` statements; the id is the position among them);
* `label in converter.exported_axioms`  ⇔  `Lbl.rule _` (`DB.rules`);  `label in converter.proof_rules`  ⇔  `Lbl.p1 | p2 | mp`
  (`DB.p1`, `DB.p2`, `DB.mp`);
* `get_axiom_by_name(label)` = `axiomRec` of `DB.assertion label`: `.pattern` = `image` of the conclusion, `.metavars` = the
  variables of hypotheses and conclusion, `isinstance(_, AxiomWithAntecedents)` ⇔ `Rule.hyps ≠ []`, `.antecedents` = the
  images of `Rule.hyps`;
* `get_metavars_in_order(label)` = `(DB.assertion label).mand` = `DB.mandOf` (the statement's variables in `$f` order);
* `resolve_metavar(v)` = `MetaVar(DB.mvId v)`;  `get_lemma_by_name(target).pattern` = `image db goal`;
  `get_lemma_by_name(target).proof` = `(labels, steps)` (the dict `{1: l₁, …}` as the list `labels`);
* the label names `exec_proof` compares with (`'app-is-pattern'`, `'imp-is-pattern'`, `'proof-rule-prop-1'`,
  `'proof-rule-prop-2'`, `'proof-rule-mp'`) are `Lbl.appC`, `.impC`, `.p1`, `.p2`, `.mp` (`PyXProof.lblIs`).

## results

* per branch, for every state and continuation `k`, generated branch = `bindR (<model case>) k`:
  `br_memory_save` (`Z`), `br_memory_reuse` (memory reference, `memory_offset`), `br_float`, `br_mp` — no hypothesis;
  `br_ctor`, `br_rule` — `db.floats.Nodup` (else Python's `dict` merges keys the model keeps);
  `br_app`, `br_imp` — `db.WF`, fuel `≥ 2`; `br_p1` — `db.WF`, fuel `≥ 4`; `br_p2` — `db.WF`, fuel `≥ 5`
  (the fuel pays for the Python `==` / `match_single` of the text, which the model replaces by `mandOf .. = [a, b]` and
  `ruleKeys`);
* `get_delta_eq`, `instantiate_eq`, `instantiate_pattern_eq`: `get_delta` reads exactly the `nargs` entries below the top,
  deepest first, and `instantiate(stack()[-1], get_delta(vars))` is the tracker call `instantiate keys` — also when it raises;
  `prop_rule_eq`: `get_rule_delta`; `convert_to_implication_eq`: `convert_to_implication` = `implChain`;
  `stash_eq`, `discharge_eq`: the two loops over the essential hypotheses;
* `step_tie`: the loop body = `xstep`; `run_tie`: the loop = `xrun`; `exec_proof_tie`: the function = `execProof`
  (`db.WF`, fuel `≥ 5`);
* `wf_needed`, `fuel_needed`: both hypotheses are necessary (concrete states on which text and model differ without them).
-/
set_option linter.unusedSimpArgs false
set_option linter.unusedVariables false
open MM PyXProof PySt

namespace XProofTie

theorem translated : Gen.XProof.translated = true := by decide

/-! ## the converter of a model database -/

/-- the converter's `Axiom` object for an assertion of the model -/
def axiomRec (db : DB) (a : Assertion) : AxiomRec :=
  { pattern := image db a.concl.term
    metavars := Term.varsList (a.hyps.map (·.term) ++ [a.concl.term])
    antecedents := if a.hyps.isEmpty then none else some (a.hyps.map fun h => image db h.term) }

def ofDB (db : DB) (goal : MM.Term) : Conv :=
  { isPatternConstructor := fun l => match l with | .impC | .appC | .ctor _ => true | _ => false
    floating := fun l => match l with | .float v => some [phiN (db.mvId v)] | _ => none
    isExportedAxiom := fun l => match l with | .rule _ => true | _ => false
    isProofRule := fun l => match l with | .p1 | .p2 | .mp => true | _ => false
    axiom? := fun l => (db.assertion l).map (axiomRec db)
    metavarsInOrder := fun l => ((db.assertion l).map (·.mand)).getD []
    resolveMetavar := fun v => phiN (db.mvId v)
    targetPattern := image db goal }

theorem ofDB_axiom (db : DB) (goal : MM.Term) (l : Lbl) :
    (ofDB db goal).axiom? l = (db.assertion l).map (axiomRec db) := rfl
theorem ofDB_mio (db : DB) (goal : MM.Term) (l : Lbl) :
    (ofDB db goal).metavarsInOrder l = ((db.assertion l).map (·.mand)).getD [] := rfl
theorem ofDB_resolve (db : DB) (goal : MM.Term) (v : Nat) : (ofDB db goal).resolveMetavar v = phiN (db.mvId v) := rfl

/-! ## the words of the generated text -/

def stackAt (x : XSt) (p : Nat) (f : Val → R) : R :=
  match x.s.stack[p]? with
  | some e => f ⟨e.1, some (p, x.calls.length)⟩
  | none => raise

theorem stackIdx_neg (x : XSt) (i : Int) (p : Nat) (hi : i < 0) (hp : (-i).toNat - 1 = p) (f : Val → R) :
    stackIdx x i f = stackAt x p f := by
  unfold stackIdx stackAt
  simp only [hi, if_true, hp]
  cases x.s.stack[p]? <;> rfl

theorem stackIdx_1 (x : XSt) (f : Val → R) : stackIdx x (-(1)) f = stackAt x 0 f :=
  stackIdx_neg x _ 0 (by decide) (by decide) f

theorem stackIdx_2 (x : XSt) (f : Val → R) : stackIdx x (-(2)) f = stackAt x 1 f :=
  stackIdx_neg x _ 1 (by decide) (by decide) f

theorem bindR_some (x : XSt) (k : XSt → R) : bindR (some (some x)) k = k x := rfl
theorem bindR_raise (k : XSt → R) : bindR (some none) k = some none := rfl
theorem bindR_none (k : XSt → R) : bindR none k = none := rfl
theorem bindR_id (r : R) : bindR r (fun x => some (some x)) = r := by
  rcases r with _ | _ | _ <;> rfl
theorem bindR_assoc (r : R) (f g : XSt → R) : bindR (bindR r f) g = bindR r fun x => bindR (f x) g := by
  rcases r with _ | _ | _ <;> rfl

/-- `doC` does not look at `mm_memory` -/
theorem doC_mem (n : Nat) (x : XSt) (m : List TTerm) (cs : List Call) :
    ({ x with mem := m } : XSt).doC n cs =
      match x.doC n cs with
      | none => none
      | some none => some none
      | some (some x') => some (some { x' with mem := m }) := by
  unfold XSt.doC
  cases h : doCalls n x.s cs x.calls with
  | none => simp [h]
  | some r => cases r with
    | none => simp [h]
    | some p => simp [h]


theorem doC_mem_eq {n : Nat} {x x' : XSt} {cs : List Call} (h : x.doC n cs = some (some x')) : x'.mem = x.mem := by
  unfold XSt.doC at h
  cases hd : doCalls n x.s cs x.calls with
  | none => simp [hd] at h
  | some r => cases r with
    | none => simp [hd] at h
    | some p => simp [hd] at h; subst h; rfl

theorem icall_eq (n : Nat) (x : XSt) (c : ICall) (c' : Call) (k : XSt → R) (h : toCall x c = some c') :
    icall n x c k = bindR (x.doC n [c']) k := by
  simp [icall, h]

/-! ## `lemma not in exported_proof.labels`: the `Z` mark and the memory reference -/

theorem br_memory_save (conv : Conv) (cfg : Cfg) (n : Nat) (labels : List Lbl) (off : Nat) (x : XSt) (k : XSt → R) :
    Gen.XProof.br_memory conv cfg n labels off x 0 k = bindR (xSave n x) k := by
  unfold Gen.XProof.br_memory xSave top?
  simp only [pyIf, beq_self_eq_true, if_true, stackIdx_1, stackAt]
  cases hs : x.s.stack with
  | nil => simp [raise, bindR]
  | cons e st =>
    simp only [List.getElem?_cons_zero, List.head?_cons, Option.map_some, memAppend]
    rw [icall_eq _ _ _ .save _ (by simp [toCall, Val.isAt])]
    rw [doC_mem]
    cases h : x.doC n [.save] with
    | none => simp [bindR]
    | some r => cases r with
      | none => simp [bindR]
      | some x' => simp [bindR, doC_mem_eq h]

theorem br_memory_reuse (conv : Conv) (cfg : Cfg) (n : Nat) (labels : List Lbl) (x : XSt) (step : Nat) (k : XSt → R)
    (h0 : step ≠ 0) (hk : labels.length < step) :
    Gen.XProof.br_memory conv cfg n labels labels.length x step k = bindR (xReuse n x (step - labels.length - 1)) k := by
  unfold Gen.XProof.br_memory xReuse
  have hb : (step == 0) = false := by simp [h0]
  simp only [pyIf, hb, memIdx, pyIndex]
  have hi : ¬ ((step : Int) - (labels.length : Int) - 1 < 0) := by omega
  have ht : ((step : Int) - (labels.length : Int) - 1).toNat = step - labels.length - 1 := by omega
  simp only [hi, if_false, ht, Bool.false_eq_true]
  cases hm : x.mem[step - labels.length - 1]? with
  | none => simp [raise, bindR]
  | some t =>
    show icall n x ⟨"load", [.str ⟨t, none⟩, .val ⟨t, none⟩]⟩ (fun x => k x) = bindR (x.doC n [.load t]) k
    rw [icall_eq _ _ _ (.load t) _ (by simp [toCall])]


/-- a list of calls is made one after the other -/
theorem doC_cons (n : Nat) (x : XSt) (c : Call) (cs : List Call) :
    x.doC n (c :: cs) = bindR (x.doC n [c]) fun x' => x'.doC n cs := by
  unfold XSt.doC
  simp only [doCalls]
  cases h : track1 n x.s c with
  | none => simp [bindR, bind, Option.bind]
  | some r => cases r with
    | none => simp [bindR, bind, Option.bind, pure]
    | some s' => simp [bindR, bind, Option.bind, pure]

theorem doC_nil (n : Nat) (x : XSt) : x.doC n [] = some (some x) := by
  simp [XSt.doC, doCalls, bind, Option.bind, pure]

theorem doC_empty_stack (n : Nat) (x : XSt) (c : Call) (hs : x.s.stack = [])
    (hc : c = .pop ∨ c = .save ∨ c = .mp ∨ c = .publishProof ∨ c = .implies ∨ c = .app) :
    x.doC n [c] = some none := by
  unfold XSt.doC
  rcases hc with rfl | rfl | rfl | rfl | rfl | rfl <;> simp [doCalls, track1, hs, bind, Option.bind, pure]

/-- `interpreter().pop(stack()[-1])` -/
theorem pop_eq (n : Nat) (x : XSt) (k : XSt → R) :
    stackAt x 0 (fun t => icall n x ⟨"pop", [.val t]⟩ k) = bindR (x.doC n [.pop]) k := by
  unfold stackAt
  cases hs : x.s.stack with
  | nil => simp [raise, doC_empty_stack n x .pop hs, bindR]
  | cons e st =>
    simp only [List.getElem?_cons_zero]
    exact icall_eq _ _ _ .pop _ (by simp [toCall, Val.isAt])

/-- `interpreter().save(str(stack()[-1]), stack()[-1])` -/
theorem save_eq (n : Nat) (x : XSt) (k : XSt → R) :
    stackAt x 0 (fun t1 => stackAt x 0 fun t2 => icall n x ⟨"save", [.str t1, .val t2]⟩ k) = bindR (x.doC n [.save]) k := by
  unfold stackAt
  cases hs : x.s.stack with
  | nil => simp [raise, doC_empty_stack n x .save hs, bindR]
  | cons e st =>
    simp only [List.getElem?_cons_zero]
    exact icall_eq _ _ _ .save _ (by simp [toCall, Val.isAt])

def twoProved (x : XSt) : Bool :=
  match x.s.stack with
  | (.proved _, _) :: (.proved _, _) :: _ => true
  | _ => false

theorem twoProved_match {α} (x : XSt) (a b : α) :
    (match x.s.stack with | (.proved _, _) :: (.proved _, _) :: _ => a | _ => b) = if twoProved x then a else b := by
  unfold twoProved
  split <;> simp

/-- the closure `do_mp` -/
theorem do_mp_eq (n : Nat) (x : XSt) (k : XSt → R) :
    Gen.XProof.do_mp n x k = if twoProved x then bindR (x.doC n [.mp]) k else raise := by
  unfold Gen.XProof.do_mp twoProved
  simp only [stackIdx_1, stackIdx_2, stackAt]
  cases hs : x.s.stack with
  | nil => simp [raise]
  | cons e st =>
    cases st with
    | nil => simp [raise]
    | cons e2 st2 =>
      obtain ⟨t1, b1⟩ := e
      obtain ⟨t2, b2⟩ := e2
      simp only [List.getElem?_cons_zero, List.getElem?_cons_succ]
      cases t1 <;> cases t2 <;> simp [assertThat, isProved, TTerm.isProved, raise]
      exact icall_eq _ _ _ .mp _ (by simp [toCall, Val.isAt])

/-! ## `proof-rule-mp` -/

theorem mp_tail_eq (n : Nat) (x : XSt) (k : XSt → R) :
    (stackAt x 0 fun t5 => stackAt x 0 fun t6 =>
      icall n x ⟨"save", [Arg.str t5, .val t6]⟩ fun x =>
      stackAt x 0 fun t7 => icall n x ⟨"pop", [.val t7]⟩ fun x =>
      stackAt x 0 fun t8 => icall n x ⟨"pop", [.val t8]⟩ fun x =>
      stackAt x 0 fun t9 => icall n x ⟨"pop", [.val t9]⟩ fun x =>
      icall n x ⟨"load", [Arg.str t5, .val t6]⟩ k) =
    match top? x with
    | none => some none
    | some c => bindR (x.doC n [.save, .pop, .pop, .pop, .load c]) k := by
  unfold top?
  cases hs : x.s.stack with
  | nil => simp [stackAt, hs, raise]
  | cons e st =>
    simp only [List.head?_cons, Option.map_some]
    have h1 : ∀ f : Val → R, stackAt x 0 f = f ⟨e.1, some (0, x.calls.length)⟩ := by
      intro f; simp [stackAt, hs]
    rw [h1, h1]
    rw [icall_eq _ _ _ .save _ (by simp [toCall, Val.isAt])]
    simp only [pop_eq]
    rw [doC_cons n x .save [.pop, .pop, .pop, .load e.1]]
    simp only [bindR_assoc]
    congr 1; funext x1
    rw [doC_cons n x1 .pop [.pop, .pop, .load e.1]]; simp only [bindR_assoc]
    congr 1; funext x2
    rw [doC_cons n x2 .pop [.pop, .load e.1]]; simp only [bindR_assoc]
    congr 1; funext x3
    rw [doC_cons n x3 .pop [.load e.1]]; simp only [bindR_assoc]
    congr 1


theorem lblIs_table :
    (∀ l, lblIs "app-is-pattern" l = (l == .appC)) ∧ (∀ l, lblIs "imp-is-pattern" l = (l == .impC)) ∧
    (∀ l, lblIs "proof-rule-prop-1" l = (l == .p1)) ∧ (∀ l, lblIs "proof-rule-prop-2" l = (l == .p2)) ∧
    (∀ l, lblIs "proof-rule-mp" l = (l == .mp)) := by
  refine ⟨?_, ?_, ?_, ?_, ?_⟩ <;> intro l <;> cases l <;> rfl

/-- the model's `do` blocks are `bindR` -/
theorem do_eq_bindR (r : R) (f : XSt → R) :
    (do match ← r with
        | none => pure none
        | some x' => f x') = bindR r f := by
  rcases r with _ | _ | _ <;> rfl

theorem xMp_eq (n : Nat) (x : XSt) :
    xMp n x = if twoProved x then
        bindR (x.doC n [.mp]) (fun x' => match top? x' with
          | none => some none
          | some c => x'.doC n [.save, .pop, .pop, .pop, .load c])
      else some none := by
  unfold xMp twoProved
  split
  · next hs => rw [← do_eq_bindR]; simp only [hs, if_true]; rfl
  · next hn =>
    split
    · next p1 b1 p2 b2 tl hs => exact absurd hs (hn p1 b1 p2 b2 tl)
    · rfl

theorem br_mp (db : DB) (goal : MM.Term) (cfg : Cfg) (n : Nat) (labels : List Lbl) (off : Nat) (x : XSt) (step : Nat)
    (k : XSt → R) :
    Gen.XProof.br_proof_rules (ofDB db goal) cfg n labels off x step .mp k = bindR (xMp n x) k := by
  obtain ⟨_, _, h1, h2, h3⟩ := lblIs_table
  unfold Gen.XProof.br_proof_rules
  simp only [h1, h2, h3, pyIf, do_mp_eq, stackIdx_1, xMp_eq]
  simp only [show ((Lbl.mp == Lbl.p1) = false) from rfl, show ((Lbl.mp == Lbl.p2) = false) from rfl,
    show ((Lbl.mp == Lbl.mp) = true) from rfl, if_true, Bool.false_eq_true, if_false]
  split
  · rw [bindR_assoc]
    congr 1; funext x1
    rw [mp_tail_eq]
    cases top? x1 <;> rfl
  · rfl


/-! ## floating hypotheses -/

theorem br_float (db : DB) (goal : MM.Term) (cfg : Cfg) (n : Nat) (labels : List Lbl) (off : Nat) (x : XSt) (step : Nat)
    (v : Nat) (k : XSt → R) :
    Gen.XProof.br_fp_label_to_pattern (ofDB db goal) cfg n labels off x step (.float v) k =
      bindR (x.doC n [.metavar (db.mvId v) [] [] [] [] []]) k := by
  unfold Gen.XProof.br_fp_label_to_pattern
  simp only [fp0, ofDB, Option.getD_some, List.head?_cons, phiN, isMetaVar, assertThat, if_true, attrName]
  exact icall_eq _ _ _ _ _ (by simp [toCall])

/-! ## the closure `get_delta` -/

theorem assertThat_true (r : R) : assertThat true r = r := rfl
theorem assertThat_false (r : R) : assertThat false r = raise := rfl
theorem attrName_resolve (db : DB) (goal : MM.Term) (a : Nat) (f : Nat → R) :
    attrName ((ofDB db goal).resolveMetavar a) f = f (db.mvId a) := rfl

/-- the loop of `get_delta` over the keys `resolve_metavar(label).name`: `m` = `nargs`, `i` = the counter -/
def deltaLoop (x : XSt) (m : Nat) : List Nat → Dict → Nat → Option Dict
  | [], d, _ => some d
  | key :: r, d, i =>
    match x.s.stack[m - i]? with
    | some e => if e.1.isProved then none else deltaLoop x m r (dictSet d key ⟨e.1, some (m - i, x.calls.length)⟩) (i + 1)
    | none => none

theorem get_delta_eq (db : DB) (goal : MM.Term) (x : XSt) (vars : List Nat) (k : Dict → R) :
    Gen.XProof.get_delta (ofDB db goal) x vars k =
      match deltaLoop x vars.length (vars.map db.mvId) [] 0 with
      | some d => k d
      | none => raise := by
  have key : ∀ (m : Nat) (rest : List Nat) (d : Dict) (i : Nat), i + rest.length = m →
      forEach rest (d, i) (fun v_metavar_label (p : Dict × Nat) kl1 =>
          stackIdx x ((-(((m : Int) + 1)) + (p.2 : Int))) fun t1_ =>
          assertThat (isPattern t1_) <|
          attrName ((ofDB db goal).resolveMetavar v_metavar_label) fun t2_ =>
          kl1 (dictSet p.1 t2_ t1_, p.2 + 1)) (fun p => k p.1) =
        match deltaLoop x m (rest.map db.mvId) d i with
        | some d => k d
        | none => raise := by
    intro m rest
    induction rest with
    | nil => intro d i _; rfl
    | cons a rest ih =>
      intro d i hi
      simp only [List.length_cons] at hi
      simp only [forEach, List.map_cons, deltaLoop]
      rw [stackIdx_neg x _ (m - i) (by omega) (by omega)]
      unfold stackAt
      cases hs : x.s.stack[m - i]? with
      | none => rfl
      | some e =>
        by_cases hp : e.1.isProved = true
        · have h1 : isPattern ⟨e.1, some (m - i, x.calls.length)⟩ = false := by simp [isPattern, hp]
          simp only [h1, assertThat_false, hp, if_true]
        · have hp' : e.1.isProved = false := by simpa using hp
          have h1 : isPattern ⟨e.1, some (m - i, x.calls.length)⟩ = true := by simp [isPattern, hp']
          simp only [h1, assertThat_true, attrName_resolve, hp', Bool.false_eq_true, if_false]
          exact ih _ _ (by omega)
  exact key vars.length vars [] 0 (by simp)


theorem dictSet_fresh (d : Dict) (key : Nat) (v : Val) (h : key ∉ d.map (·.1)) : dictSet d key v = d ++ [(key, v)] := by
  unfold dictSet
  have : d.any (·.1 == key) = false := by
    rw [List.any_eq_false]
    intro p hp
    simp only [beq_iff_eq]
    intro e
    exact h (List.mem_map.mpr ⟨p, hp, e⟩)
  simp [this]

/-- with pairwise different keys the loop appends one entry per key: the keys in order, the values read from the positions
`m - i`, `m - i - 1`, … -/
theorem deltaLoop_some (x : XSt) (m : Nat) : ∀ (keys : List Nat) (d d' : Dict) (i : Nat), keys.Nodup →
    (∀ key ∈ keys, key ∉ d.map (·.1)) → deltaLoop x m keys d i = some d' →
    d'.map (·.1) = d.map (·.1) ++ keys ∧
    d'.map (·.2.src) = d.map (·.2.src) ++ (List.range' i keys.length).map fun j => some (m - j, x.calls.length) := by
  intro keys
  induction keys with
  | nil => intro d d' i _ _ h; simp only [deltaLoop, Option.some.injEq] at h; subst h; simp
  | cons key r ih =>
    intro d d' i hnd hd h
    simp only [deltaLoop] at h
    cases hs : x.s.stack[m - i]? with
    | none => simp [hs] at h
    | some e =>
      simp only [hs] at h
      by_cases hp : e.1.isProved = true
      · simp [hp] at h
      · simp only [hp, if_false, Bool.false_eq_true] at h
        obtain ⟨hk, hr⟩ := List.nodup_cons.mp hnd
        rw [dictSet_fresh d key _ (hd key (by simp))] at h
        have := ih _ d' (i + 1) hr (by
          intro k' hk'
          simp only [List.map_append, List.map_cons, List.map_nil, List.mem_append, List.mem_singleton, not_or]
          exact ⟨hd k' (List.mem_cons_of_mem _ hk'), fun e => hk (e ▸ hk')⟩) h
        obtain ⟨h1, h2⟩ := this
        refine ⟨by simp [h1], ?_⟩
        rw [h2]
        simp [List.range'_succ]

theorem plugPositions_eq (m : Nat) : (List.range' 0 m).map (fun j => m - j) = plugPositions m := by
  unfold plugPositions
  apply List.ext_getElem
  · simp
  · intro j h1 h2
    simp only [List.length_map, List.length_range'] at h1
    simp only [List.getElem_map, List.getElem_range', List.getElem_reverse, List.length_range']
    omega

theorem takePlugs_none_of_bad : ∀ (m : Nat) (st : List (TTerm × Bool)) (q : Nat), q < m →
    (∀ e, st[q]? = some e → e.1.isProved = true) → takePlugs m st = none := by
  intro m
  induction m with
  | zero => intro st q hq; omega
  | succ m ih =>
    intro st q hq h
    cases st with
    | nil => rfl
    | cons e st' =>
      obtain ⟨t, b⟩ := e
      cases t with
      | proved a => rfl
      | pat a =>
        cases q with
        | zero => have := h (.pat a, b) (by simp); simp [TTerm.isProved] at this
        | succ q' =>
          have := ih st' q' (by omega) (fun e he => h e (by simpa using he))
          simp [takePlugs, this]

theorem deltaLoop_none (x : XSt) (m : Nat) (top : TTerm × Bool) (st : List (TTerm × Bool)) (hs : x.s.stack = top :: st) :
    ∀ (keys : List Nat) (d : Dict) (i : Nat), i + keys.length = m → deltaLoop x m keys d i = none →
    takePlugs m st = none := by
  intro keys
  induction keys with
  | nil => intro d i _ h; simp [deltaLoop] at h
  | cons key r ih =>
    intro d i hi h
    simp only [List.length_cons] at hi
    simp only [deltaLoop, hs] at h
    have hp : m - i = (m - i - 1) + 1 := by omega
    rw [hp, List.getElem?_cons_succ] at h
    cases he : st[m - i - 1]? with
    | none => exact takePlugs_none_of_bad m st (m - i - 1) (by omega) (by simp [he])
    | some e =>
      simp only [he] at h
      by_cases hpr : e.1.isProved = true
      · exact takePlugs_none_of_bad m st (m - i - 1) (by omega) (by intro e' h'; rw [he] at h'; cases h'; exact hpr)
      · simp only [hpr, if_false, Bool.false_eq_true] at h
        exact ih _ (i + 1) (by omega) h

theorem doC_one (n : Nat) (x : XSt) (c : Call) :
    x.doC n [c] = match track1 n x.s c with
      | none => none
      | some none => some none
      | some (some s') => some (some { x with s := s', calls := x.calls ++ [c] }) := by
  unfold XSt.doC
  simp only [doCalls]
  cases h : track1 n x.s c with
  | none => rfl
  | some r => cases r <;> rfl


/-- the dictionary `get_delta` returns is the argument `StatefulInterpreter.instantiate` expects: keys `keys` in this order,
values = the `keys.length` entries below the top, deepest first -/
theorem deltaLoop_toCall (x : XSt) (keys : List Nat) (d : Dict) (hnd : keys.Nodup)
    (h : deltaLoop x keys.length keys [] 0 = some d) : d.map (·.1) = keys ∧ dictAtPlugs x d = true := by
  obtain ⟨h1, h2⟩ := deltaLoop_some x keys.length keys [] d 0 hnd (by simp) h
  simp only [List.map_nil, List.nil_append] at h1 h2
  refine ⟨h1, ?_⟩
  have hl : d.length = keys.length := by simpa using congrArg List.length h1
  unfold dictAtPlugs
  rw [h2, hl, ← plugPositions_eq]
  simp

/-- `pat = stack()[-1]; assert isinstance(pat, Proved); interpreter().instantiate(pat, get_delta(vars))` is the one tracker
call `instantiate` with the keys `resolve_metavar(v).name` — also when it raises -/
theorem instantiate_eq (db : DB) (goal : MM.Term) (n : Nat) (x : XSt) (vars : List Nat)
    (hnd : (vars.map db.mvId).Nodup) (k : XSt → R) :
    (stackAt x 0 fun v => assertThat (isProved v) <| Gen.XProof.get_delta (ofDB db goal) x vars fun d =>
      icall n x ⟨"instantiate", [.val v, .dict d]⟩ k) = bindR (x.doC n [.instantiate (vars.map db.mvId)]) k := by
  unfold stackAt
  cases hs : x.s.stack with
  | nil => simp [doC_one, track1, hs, raise, bindR]
  | cons e st =>
    obtain ⟨t, b⟩ := e
    simp only [List.getElem?_cons_zero]
    cases t with
    | pat a => simp [doC_one, track1, hs, raise, bindR, isProved, TTerm.isProved, assertThat]
    | proved a =>
      simp only [isProved, TTerm.isProved, assertThat_true, get_delta_eq]
      have hlen : vars.length = (vars.map db.mvId).length := by simp
      rw [hlen]
      cases hd : deltaLoop x (vars.map db.mvId).length (vars.map db.mvId) [] 0 with
      | some d =>
        obtain ⟨h1, h2⟩ := deltaLoop_toCall x _ d hnd hd
        exact icall_eq _ _ _ _ _ (by simp [toCall, Val.isAt, h1, h2])
      | none =>
        have ht := deltaLoop_none x _ _ st hs _ [] 0 (by simp) hd
        simp only [List.length_map] at ht
        have hne : (vars.map db.mvId).isEmpty = false := by
          cases hv : vars.map db.mvId with
          | nil => rw [hv] at hd; simp [deltaLoop] at hd
          | cons _ _ => rfl
        simp [doC_one, track1, hs, hne, ht, raise, bindR]

theorem instantiate_pattern_eq (db : DB) (goal : MM.Term) (n : Nat) (x : XSt) (vars : List Nat)
    (hnd : (vars.map db.mvId).Nodup) (k : XSt → R) :
    (stackAt x 0 fun v => assertThat (isPattern v) <| Gen.XProof.get_delta (ofDB db goal) x vars fun d =>
      icall n x ⟨"instantiate_pattern", [.val v, .dict d]⟩ k) =
      bindR (x.doC n [.instantiatePattern (vars.map db.mvId)]) k := by
  unfold stackAt
  cases hs : x.s.stack with
  | nil => simp [doC_one, track1, hs, raise, bindR]
  | cons e st =>
    obtain ⟨t, b⟩ := e
    simp only [List.getElem?_cons_zero]
    cases t with
    | proved a => simp [doC_one, track1, hs, raise, bindR, isPattern, TTerm.isProved, assertThat]
    | pat a =>
      simp only [isPattern, TTerm.isProved, Bool.not_false, assertThat_true, get_delta_eq]
      have hlen : vars.length = (vars.map db.mvId).length := by simp
      rw [hlen]
      cases hd : deltaLoop x (vars.map db.mvId).length (vars.map db.mvId) [] 0 with
      | some d =>
        obtain ⟨h1, h2⟩ := deltaLoop_toCall x _ d hnd hd
        exact icall_eq _ _ _ _ _ (by simp [toCall, Val.isAt, h1, h2])
      | none =>
        have ht := deltaLoop_none x _ _ st hs _ [] 0 (by simp) hd
        simp only [List.length_map] at ht
        simp [doC_one, track1, hs, ht, raise, bindR]


/-! ## pattern constructors -/

theorem br_ctor (db : DB) (goal : MM.Term) (cfg : Cfg) (n : Nat) (labels : List Lbl) (off : Nat) (x : XSt) (step : Nat)
    (c : Nat) (k : XSt → R) (hnd : db.floats.Nodup) :
    Gen.XProof.br_pattern_constructors (ofDB db goal) cfg n labels off x step (.ctor c) k = bindR (xCtor cfg n db x c) k := by
  obtain ⟨ha, hi, _, _, _⟩ := lblIs_table
  unfold Gen.XProof.br_pattern_constructors xCtor
  simp only [ha, hi, show ((Lbl.ctor c == Lbl.appC) = false) from rfl, show ((Lbl.ctor c == Lbl.impC) = false) from rfl,
    cAnd, cPure, ifC, getAxiom, ofDB_axiom, ofDB_mio, DB.assertion]
  cases hc : db.ctors[c]? with
  | none => simp [raise, bindR]
  | some ct =>
    simp only [Option.map_some, axiomRec, ipattern]
    cases hp : patternF cfg n x.s (image db (.con ct.sym (ct.args.map .var))) x.calls with
    | none => simp [bindR, bind, Option.bind]
    | some r =>
      cases r with
      | none => simp [bindR, bind, Option.bind, pure]
      | some p =>
        obtain ⟨s', c'⟩ := p
        simp only [bind, Option.bind, pure, stackIdx_1]
        simp only [Option.getD_some]
        rw [instantiate_pattern_eq db goal n _ _ (deltaKeys_nodup db _ hnd)]
        have hv : (Term.varsList (List.map (fun x : Stmt => x.term) [] ++ [Term.con ct.sym (List.map Term.var ct.args)])).length > 0
            ↔ ¬ (Term.con ct.sym (List.map Term.var ct.args)).vars.isEmpty = true := by
          simp [Term.varsList, List.isEmpty_iff, List.length_pos_iff]
        by_cases he : (Term.con ct.sym (List.map Term.var ct.args)).vars.isEmpty = true
        · have hd : decide ((Term.varsList (List.map (fun x : Stmt => x.term) [] ++ [Term.con ct.sym (List.map Term.var ct.args)])).length > 0) = false := by
            rw [decide_eq_false_iff_not, hv]; simp [he]
          simp only [hd, he, if_true, Bool.false_eq_true, if_false, bindR, List.reverse_nil, xstep.discharge]
        · simp only [he, if_false, decide_eq_true (hv.mpr he), if_true]
          rfl


theorem peqF_phi (n a b : Nat) : NPat.peqF (n + 1) (phiN a) (phiN b) = some (a == b) := by
  simp [NPat.peqF, phiN]

theorem peqF_app_phi (n a b c d : Nat) :
    NPat.peqF (n + 2) (.app (phiN a) (phiN b)) (.app (phiN c) (phiN d)) = some (a == c && b == d) := by
  simp only [NPat.peqF, peqF_phi, bind, Option.bind, pure]
  cases a == c <;> simp

theorem peqF_imp_phi (n a b c d : Nat) :
    NPat.peqF (n + 2) (.imp (phiN a) (phiN b)) (.imp (phiN c) (phiN d)) = some (a == c && b == d) := by
  simp only [NPat.peqF, peqF_phi, bind, Option.bind, pure]
  cases a == c <;> simp

theorem filter_two (l : List Nat) (hl : l.Nodup) (x y : Nat) (hxy : x ≠ y) (hx : x ∈ l) (hy : y ∈ l) (p : Nat → Bool)
    (hp : ∀ v, p v = true ↔ (v = x ∨ v = y)) : l.filter p = [x, y] ∨ l.filter p = [y, x] := by
  have hlen := filter_length_two l hl x y hxy hx hy p hp
  have hnd : (l.filter p).Nodup := List.Nodup.sublist List.filter_sublist hl
  match hf : l.filter p, hlen, hnd with
  | [u, w], _, hnd =>
    have hu : u ∈ l.filter p := by rw [hf]; simp
    have hw : w ∈ l.filter p := by rw [hf]; simp
    have hu' := (hp u).mp (List.mem_filter.mp hu).2
    have hw' := (hp w).mp (List.mem_filter.mp hw).2
    have hne : u ≠ w := by
      intro e; subst e; simp at hnd
    rcases hu' with rfl | rfl <;> rcases hw' with rfl | rfl
    · exact absurd rfl hne
    · exact Or.inl rfl
    · exact Or.inr rfl
    · exact absurd rfl hne

theorem mandOf_pair (db : DB) (hnd : db.floats.Nodup) (a b : Nat) (hab : a ≠ b) (ha : a ∈ db.floats) (hb : b ∈ db.floats)
    (t : MM.Term) (ht : ∀ v, v ∈ Term.varsList [t] ↔ (v = a ∨ v = b)) :
    db.mandOf [t] = [a, b] ∨ db.mandOf [t] = [b, a] := by
  unfold DB.mandOf
  apply filter_two db.floats hnd a b hab ha hb
  intro v
  simp only [List.contains_eq_mem, decide_eq_true_eq]
  exact ht v

/-- `left = stack()[-2]; right = stack()[-1]; assert ..; interpreter().app(left, right)` -/
theorem app_eq (n : Nat) (x : XSt) (k : XSt → R) :
    (stackAt x 1 fun l => stackAt x 0 fun r => assertThat (isPattern l) <| assertThat (isPattern r) <|
      icall n x ⟨"app", [.val l, .val r]⟩ k) = if topPats x 2 then bindR (x.doC n [.app]) k else raise := by
  unfold stackAt topPats
  cases hs : x.s.stack with
  | nil => simp [raise]
  | cons e st =>
    cases st with
    | nil => simp [raise]
    | cons e2 st2 =>
      obtain ⟨t1, b1⟩ := e
      obtain ⟨t2, b2⟩ := e2
      simp only [List.getElem?_cons_zero, List.getElem?_cons_succ]
      cases t1 <;> cases t2 <;> simp [assertThat, isPattern, TTerm.isProved, raise]
      exact icall_eq _ _ _ .app _ (by simp [toCall, Val.isAt])

theorem implies_eq (n : Nat) (x : XSt) (k : XSt → R) :
    (stackAt x 1 fun l => stackAt x 0 fun r => assertThat (isPattern l) <| assertThat (isPattern r) <|
      icall n x ⟨"implies", [.val l, .val r]⟩ k) = if topPats x 2 then bindR (x.doC n [.implies]) k else raise := by
  unfold stackAt topPats
  cases hs : x.s.stack with
  | nil => simp [raise]
  | cons e st =>
    cases st with
    | nil => simp [raise]
    | cons e2 st2 =>
      obtain ⟨t1, b1⟩ := e
      obtain ⟨t2, b2⟩ := e2
      simp only [List.getElem?_cons_zero, List.getElem?_cons_succ]
      cases t1 <;> cases t2 <;> simp [assertThat, isPattern, TTerm.isProved, raise]
      exact icall_eq _ _ _ .implies _ (by simp [toCall, Val.isAt])


theorem br_app (db : DB) (goal : MM.Term) (cfg : Cfg) (n : Nat) (labels : List Lbl) (off : Nat) (x : XSt) (step : Nat)
    (k : XSt → R) (hwf : db.WF) (hn : 2 ≤ n) :
    Gen.XProof.br_pattern_constructors (ofDB db goal) cfg n labels off x step .appC k = bindR (xApp cfg n db x) k := by
  obtain ⟨ha, hi, _, _, _⟩ := lblIs_table
  obtain ⟨m, rfl⟩ : ∃ m, n = m + 2 := ⟨n - 2, by omega⟩
  unfold Gen.XProof.br_pattern_constructors xApp
  simp only [ha, hi, show ((Lbl.appC == Lbl.appC) = true) from rfl, show ((Lbl.appC == Lbl.impC) = false) from rfl,
    ofDB_axiom, ofDB_mio, ofDB_resolve, DB.assertion, Option.map_some, Option.getD_some, axiomRec, image_var, image_imp, image_app]
  rcases mandOf_pair db hwf.nodup _ _ hwf.appNe hwf.appMem.1 hwf.appMem.2
      (.app (.var db.appArgs.1) (.var db.appArgs.2)) (by simp [Term.varsList, Term.vars]) with h | h
  · simp only [h, List.map, pyApp, patEq, peqF_app_phi, beq_self_eq_true, Bool.and_self, Option.map_some, cAnd, cPure, ifC,
      stackIdx_1, stackIdx_2]
    rw [app_eq]
    simp only [if_true]
    split <;> rfl
  · have hne : (db.mvId db.appArgs.1 == db.mvId db.appArgs.2) = false := by
      simp only [beq_eq_false_iff_ne, ne_eq]
      exact fun e => hwf.appNe (mvId_inj db _ _ hwf.appMem.1 e)
    have hne2 : ¬ ([db.appArgs.2, db.appArgs.1] = [db.appArgs.1, db.appArgs.2]) := by
      intro e; simp only [List.cons.injEq, and_true] at e; exact hwf.appNe e.1.symm
    simp only [h, List.map, pyApp, patEq, peqF_app_phi, hne, Bool.false_and, Option.map_some, cAnd, cPure, ifC,
      stackIdx_1, getAxiom, ofDB_axiom, DB.assertion, Option.map_some, axiomRec, image_var, image_imp, image_app, ipattern, hne2, if_false]
    have hd : decide ((Term.varsList ([] ++ [(Term.var db.appArgs.fst).app (Term.var db.appArgs.snd)])).length > 0) = true := by
      simp [Term.varsList, Term.vars]
    have hk : db.deltaKeys [(Term.var db.appArgs.fst).app (Term.var db.appArgs.snd)] =
        [db.appArgs.snd, db.appArgs.fst].map db.mvId := by simp [DB.deltaKeys, h]
    have hnd : ([db.appArgs.snd, db.appArgs.fst].map db.mvId).Nodup := by
      rw [← hk]; exact deltaKeys_nodup db _ hwf.nodup
    simp only [hd, if_true, hk]
    cases hp : patternF cfg (m + 2) x.s ((phiN (db.mvId db.appArgs.fst)).app (phiN (db.mvId db.appArgs.snd))) x.calls with
    | none => rfl
    | some r =>
      cases r with
      | none => rfl
      | some p =>
        obtain ⟨s', c'⟩ := p
        simp only [bind, Option.bind]
        rw [instantiate_pattern_eq db goal _ _ _ hnd]

theorem br_imp (db : DB) (goal : MM.Term) (cfg : Cfg) (n : Nat) (labels : List Lbl) (off : Nat) (x : XSt) (step : Nat)
    (k : XSt → R) (hwf : db.WF) (hn : 2 ≤ n) :
    Gen.XProof.br_pattern_constructors (ofDB db goal) cfg n labels off x step .impC k = bindR (xImp cfg n db x) k := by
  obtain ⟨ha, hi, _, _, _⟩ := lblIs_table
  obtain ⟨m, rfl⟩ : ∃ m, n = m + 2 := ⟨n - 2, by omega⟩
  unfold Gen.XProof.br_pattern_constructors xImp
  simp only [ha, hi, show ((Lbl.impC == Lbl.appC) = false) from rfl, show ((Lbl.impC == Lbl.impC) = true) from rfl,
    ofDB_axiom, ofDB_mio, ofDB_resolve, DB.assertion, Option.map_some, Option.getD_some, axiomRec, image_var, image_imp, image_app]
  rcases mandOf_pair db hwf.nodup _ _ hwf.impNe hwf.impMem.1 hwf.impMem.2
      (.imp (.var db.impArgs.1) (.var db.impArgs.2)) (by simp [Term.varsList, Term.vars]) with h | h
  · simp only [h, List.map, pyImplies, patEq, peqF_imp_phi, beq_self_eq_true, Bool.and_self, Option.map_some, cAnd, cPure, ifC,
      stackIdx_1, stackIdx_2]
    rw [implies_eq]
    simp only [if_true]
    split <;> rfl
  · have hne : (db.mvId db.impArgs.1 == db.mvId db.impArgs.2) = false := by
      simp only [beq_eq_false_iff_ne, ne_eq]
      exact fun e => hwf.impNe (mvId_inj db _ _ hwf.impMem.1 e)
    have hne2 : ¬ ([db.impArgs.2, db.impArgs.1] = [db.impArgs.1, db.impArgs.2]) := by
      intro e; simp only [List.cons.injEq, and_true] at e; exact hwf.impNe e.1.symm
    simp only [h, List.map, pyImplies, patEq, peqF_imp_phi, hne, Bool.false_and, Option.map_some, cAnd, cPure, ifC,
      stackIdx_1, getAxiom, ofDB_axiom, DB.assertion, Option.map_some, axiomRec, image_var, image_imp, image_app, ipattern, hne2, if_false]
    have hd : decide ((Term.varsList ([] ++ [(Term.var db.impArgs.fst).imp (Term.var db.impArgs.snd)])).length > 0) = true := by
      simp [Term.varsList, Term.vars]
    have hk : db.deltaKeys [(Term.var db.impArgs.fst).imp (Term.var db.impArgs.snd)] =
        [db.impArgs.snd, db.impArgs.fst].map db.mvId := by simp [DB.deltaKeys, h]
    have hnd : ([db.impArgs.snd, db.impArgs.fst].map db.mvId).Nodup := by
      rw [← hk]; exact deltaKeys_nodup db _ hwf.nodup
    simp only [hd, if_true, hk]
    cases hp : patternF cfg (m + 2) x.s ((phiN (db.mvId db.impArgs.fst)).imp (phiN (db.mvId db.impArgs.snd))) x.calls with
    | none => rfl
    | some r =>
      cases r with
      | none => rfl
      | some p =>
        obtain ⟨s', c'⟩ := p
        simp only [bind, Option.bind]
        rw [instantiate_pattern_eq db goal _ _ _ hnd]


/-! ## exported axioms: stashing and discharging the essential hypotheses -/

/-- `for eh, pat in reversed(saved_antecedents): interpreter().load(eh, pat); do_mp()` -/
theorem discharge_eq (n : Nat) (k : XSt → R) : ∀ (l : List (Arg × Val)) (x : XSt),
    forEach l x (fun (p : Arg × Val) x kl4 =>
        icall n x ⟨"load", [p.1, .val p.2]⟩ fun x =>
        Gen.XProof.do_mp n x fun x =>
        kl4 x) k = bindR (xstep.discharge n x (l.map (·.2.t))) k := by
  intro l
  induction l with
  | nil => intro x; rfl
  | cons p l ih =>
    intro x
    simp only [forEach, List.map_cons, xstep.discharge]
    rw [icall_eq _ _ _ (.load p.2.t) _ (by simp [toCall])]
    rw [← do_eq_bindR (x.doC n [.load p.2.t])]
    cases hd : x.doC n [.load p.2.t] with
    | none => rfl
    | some r =>
      cases r with
      | none => rfl
      | some x' =>
        simp only [bind, Option.bind]
        rw [do_mp_eq]
        unfold twoProved
        split
        · next hs =>
          simp only [hs, if_true]
          cases hm : x'.doC n [.mp] with
          | none => rfl
          | some r =>
            cases r with
            | none => rfl
            | some x'' => simp only [bindR_some]; exact ih x''
        · next hn =>
          simp only [Bool.false_eq_true, if_false]
          rfl


/-- a list of saved hypotheses with the given terms (the model keeps the terms only) -/
def canon (saved : List TTerm) : List (Arg × Val) := saved.map fun t => (Arg.str ⟨t, none⟩, ⟨t, none⟩)

theorem canon_terms (saved : List TTerm) : (canon saved).map (·.2.t) = saved := by
  simp [canon, Function.comp_def]

/-- `for _ in axiom.antecedents: saved_antecedents.append((str(stack()[-1]), stack()[-1])); interpreter().save(..);
interpreter().pop(..)` -/
theorem stash_eq (n : Nat) (K : XSt × List (Arg × Val) → R)
    (hK : ∀ x sv sv', sv.map (·.2.t) = sv'.map (·.2.t) → K (x, sv) = K (x, sv')) :
    ∀ (ants : List NPat) (x : XSt) (sv : List (Arg × Val)),
    forEach ants (x, sv) (fun v__ (p : XSt × List (Arg × Val)) kl2 =>
        stackIdx p.1 (-(1)) fun t3_ =>
        stackIdx p.1 (-(1)) fun t4_ =>
        stackIdx p.1 (-(1)) fun t5_ =>
        stackIdx p.1 (-(1)) fun t6_ =>
        icall n p.1 ⟨"save", [(Arg.str t5_), .val t6_]⟩ fun x =>
        stackIdx x (-(1)) fun t7_ =>
        icall n x ⟨"pop", [.val t7_]⟩ fun x =>
        kl2 (x, p.2 ++ [((Arg.str t3_), t4_)])) K =
      match xstep.stash n x (sv.map (·.2.t)) ants.length with
      | none => none
      | some none => some none
      | some (some (x1, saved')) => K (x1, canon saved') := by
  intro ants
  induction ants with
  | nil =>
    intro x sv
    simp only [forEach, List.length_nil, xstep.stash]
    exact hK x sv _ (canon_terms _).symm
  | cons a ants ih =>
    intro x sv
    simp only [forEach, List.length_cons, xstep.stash, top?]
    rw [stackIdx_1]
    cases hs : x.s.stack with
    | nil => simp [stackAt, hs, raise]
    | cons e st =>
      have h1 : ∀ f : Val → R, stackAt x 0 f = f ⟨e.1, some (0, x.calls.length)⟩ := by
        intro f; simp [stackAt, hs]
      rw [h1, stackIdx_1, h1, stackIdx_1, h1, stackIdx_1, h1]
      simp only [List.head?_cons, Option.map_some]
      rw [icall_eq _ _ _ .save _ (by simp [toCall, Val.isAt])]
      rw [doC_cons n x .save [.pop]]
      cases hd : x.doC n [.save] with
      | none => rfl
      | some r =>
        cases r with
        | none => rfl
        | some x1 =>
          simp only [bindR_some]
          rw [stackIdx_1, pop_eq]
          cases hd2 : x1.doC n [.pop] with
          | none => rfl
          | some r2 =>
            cases r2 with
            | none => rfl
            | some x2 =>
              simp only [bindR_some, bind, Option.bind]
              have := ih x2 (sv ++ [(Arg.str ⟨e.1, some (0, x.calls.length)⟩, ⟨e.1, some (0, x.calls.length)⟩)])
              simp only [List.map_append, List.map_cons, List.map_nil] at this
              exact this


theorem discharge_eq' (n : Nat) (k : XSt → R) (l : List (Arg × Val)) (x : XSt) :
    forEach l x (fun (v_eh, v_pat) x kl4 =>
        icall n x ⟨"load", [v_eh, .val v_pat]⟩ fun x =>
        Gen.XProof.do_mp n x fun x =>
        kl4 x) k = bindR (xstep.discharge n x (l.map (·.2.t))) k := discharge_eq n k l x

/-- the function `convert_to_implication` on a non-empty tuple of antecedents is the model's `implChain` -/
theorem convert_to_implication_eq (db : DB) (c : MM.Term) : ∀ (h : MM.Term) (hs : List MM.Term),
    Gen.XProof.convert_to_implication ((h :: hs).map (image db)) (image db c) = some (implChain db (h :: hs) c) := by
  intro h hs
  induction hs generalizing h with
  | nil => simp [Gen.XProof.convert_to_implication, implChain]
  | cons h' t ih =>
    have := ih h'
    simp only [List.map_cons] at this
    rw [List.map_cons, List.map_cons, Gen.XProof.convert_to_implication]
    simp only [List.isEmpty_cons, Bool.not_false, if_true, this, Option.bind_some, implChain]

theorem convert_to_implication_nil (c : NPat) : Gen.XProof.convert_to_implication [] c = none := rfl

theorem br_rule (db : DB) (goal : MM.Term) (cfg : Cfg) (n : Nat) (labels : List Lbl) (off : Nat) (x : XSt) (step : Nat)
    (j : Nat) (k : XSt → R) (hnd : db.floats.Nodup) :
    Gen.XProof.br_exported_axioms (ofDB db goal) cfg n labels off x step (.rule j) k = bindR (xRule n db x j) k := by
  unfold Gen.XProof.br_exported_axioms xRule
  simp only [discharge_eq', getAxiom, ofDB_axiom, ofDB_mio, DB.assertion]
  cases hr : db.rules[j]? with
  | none => rfl
  | some r =>
    simp only [Option.map_some, axiomRec, Option.getD_some, List.map_map, Function.comp_def, List.map_id', List.isEmpty_map]
    cases hh : r.hyps with
    | nil =>
      simp only [List.isEmpty_nil, if_true, Option.isSome_none, pyIf, Bool.false_eq_true, if_false, List.length_nil,
        xstep.stash, loadAxiom, implChain, List.nil_append, List.reverse_nil, xstep.discharge, stackIdx_1, List.map_nil]
      have hk : db.deltaKeys [r.concl] = (db.mandOf [r.concl]).map db.mvId := rfl
      simp only [bind, Option.bind, pure]
      cases hd : x.doC n [.load (.proved (image db r.concl))] with
      | none => rfl
      | some r2 =>
      cases r2 with
      | none => rfl
      | some x2 =>
      simp only [bindR_some]
      rw [instantiate_eq db goal n x2 _ (hk ▸ deltaKeys_nodup db _ hnd)]
      by_cases he : (Term.varsList [r.concl]).isEmpty = true
      · have hd : decide ((Term.varsList [r.concl]).length > 0) = false := by
          rw [decide_eq_false_iff_not]; simp [List.isEmpty_iff.mp he]
        simp only [hd, he, if_true, Bool.false_eq_true, if_false, bindR, List.reverse_nil, xstep.discharge]
      · have hd : decide ((Term.varsList [r.concl]).length > 0) = true := by
          rw [decide_eq_true_iff]; exact List.length_pos_iff.mpr (fun e => he (List.isEmpty_iff.mpr e))
        simp only [hd, he, if_true, if_false, hk, Bool.false_eq_true, List.reverse_nil, xstep.discharge]
        cases x2.doC n [.instantiate ((db.mandOf [r.concl]).map db.mvId)] with
        | none => rfl
        | some r3 => cases r3 <;> rfl
    | cons h hs =>
      simp only [List.isEmpty_cons, Bool.false_eq_true, if_false, Option.isSome_some, pyIf, if_true, antsOf,
        loadAxiom, List.length_cons, List.length_map]
      refine Eq.trans (stash_eq n _ ?hK _ _ _) ?_
      · intro x' sv sv' hsv
        simp only [List.map_reverse, hsv]
      · have hc := convert_to_implication_eq db r.concl h hs
        simp only [List.map_nil, List.length_map, List.length_cons, hc, assertSome, canon_terms, List.map_reverse,
          stackIdx_1]
        generalize ((h :: hs) ++ [r.concl]) = ts
        have hk : db.deltaKeys ts = (db.mandOf ts).map db.mvId := rfl
        simp only [bind, Option.bind, pure]
        cases hst : xstep.stash n x [] (hs.length + 1) with
        | none => rfl
        | some r1 =>
        cases r1 with
        | none => rfl
        | some p1 =>
        obtain ⟨x1, saved⟩ := p1
        simp only []
        cases hd : x1.doC n [.load (.proved (implChain db (h :: hs) r.concl))] with
        | none => rfl
        | some r2 =>
        cases r2 with
        | none => rfl
        | some x2 =>
        simp only [bindR_some]
        rw [instantiate_eq db goal n x2 _ (hk ▸ deltaKeys_nodup db _ hnd)]
        by_cases he : (Term.varsList ts).isEmpty = true
        · have hd : decide ((Term.varsList ts).length > 0) = false := by
            rw [decide_eq_false_iff_not]; simp [List.isEmpty_iff.mp he]
          simp only [hd, he, if_true, Bool.false_eq_true, if_false]
        · have hd : decide ((Term.varsList ts).length > 0) = true := by
            rw [decide_eq_true_iff]; exact List.length_pos_iff.mpr (fun e => he (List.isEmpty_iff.mpr e))
          simp only [hd, he, if_true, if_false, hk, Bool.false_eq_true]
          cases x2.doC n [.instantiate ((db.mandOf ts).map db.mvId)] with
          | none => rfl
          | some r3 =>
            cases r3 with
            | none => rfl
            | some x3 =>
              simp only [bindR_some]


/-! ## `proof-rule-prop-1`, `proof-rule-prop-2`: the closure `get_rule_delta` -/

theorem matchF_imp (n : Nat) (pl pr il ir : NPat) (ret : NPat.Subst) :
    NPat.matchF (n + 2) (.imp pl pr) (.imp il ir) ret =
      match NPat.matchF (n + 1) pl il ret with
      | none => none
      | some none => some none
      | some (some r1) => NPat.matchF (n + 1) pr ir r1 := by
  rw [NPat.matchF]
  simp only [NPat.headF, bind, Option.bind, pure]
  cases NPat.matchF (n + 1) pl il ret with
  | none => rfl
  | some r => cases r <;> rfl

theorem matchF_phi_new (n id : Nat) (ins : NPat) (ret : NPat.Subst) (h : Py.lookup ret id = none) :
    NPat.matchF (n + 2) (phiN id) ins ret = some (some (ret ++ [(id, ins)])) := by
  simp [NPat.matchF, NPat.headF, phiN, h, bind, Option.bind, pure]

theorem matchF_phi_old (n id k : Nat) (ret : NPat.Subst) (h : Py.lookup ret id = some (phiN k)) :
    NPat.matchF (n + 2) (phiN id) (phiN k) ret = some (some ret) := by
  simp [NPat.matchF, NPat.headF, phiN, h, bind, Option.bind, pure, NPat.peqF]

/-- `match_single(prop1.conclusion, <the database's proof-rule-prop-1>)` -/
theorem match_p1 (m a b : Nat) :
    NPat.matchF (m + 4) prop1N (.imp (phiN a) (.imp (phiN b) (phiN a))) [] = some (some [(0, phiN a), (1, phiN b)]) := by
  unfold prop1N
  rw [matchF_imp, matchF_phi_new _ _ _ _ (by simp [Py.lookup])]
  simp only [List.nil_append]
  rw [matchF_imp, matchF_phi_new _ _ _ _ (by simp [Py.lookup])]
  simp only []
  rw [matchF_phi_old _ _ _ _ (by simp [Py.lookup])]
  rfl

/-- `match_single(prop2.conclusion, <the database's proof-rule-prop-2>)` -/
theorem match_p2 (m a b c : Nat) :
    NPat.matchF (m + 5) prop2N
        (.imp (.imp (phiN a) (.imp (phiN b) (phiN c))) (.imp (.imp (phiN a) (phiN b)) (.imp (phiN a) (phiN c)))) [] =
      some (some [(0, phiN a), (1, phiN b), (2, phiN c)]) := by
  unfold prop2N
  rw [matchF_imp, matchF_imp, matchF_phi_new _ _ _ _ (by simp [Py.lookup])]
  simp only [List.nil_append]
  rw [matchF_imp, matchF_phi_new _ _ _ _ (by simp [Py.lookup])]
  simp only [List.cons_append, List.nil_append]
  rw [matchF_phi_new _ _ _ _ (by simp [Py.lookup])]
  simp only [List.cons_append, List.nil_append]
  rw [matchF_imp, matchF_imp, matchF_phi_old _ _ _ _ (by simp [Py.lookup])]
  simp only []
  rw [matchF_phi_old _ _ _ _ (by simp [Py.lookup])]
  simp only []
  rw [matchF_imp, matchF_phi_old _ _ _ _ (by simp [Py.lookup])]
  simp only []
  rw [matchF_phi_old _ _ _ _ (by simp [Py.lookup])]

/-- the dictionary `roles` for a rule whose variables (by schema position) are `rs` -/
def rolesOf (db : DB) : Nat → List Nat → NPat.Subst
  | _, [] => []
  | o, r :: rs => (o, phiN (db.mvId r)) :: rolesOf db (o + 1) rs

theorem patEq_phi (m i key : Nat) :
    patEq (m + 1) (some (phiN i)) (some (mkMetaVar key)) = some (some (i == key)) := by
  have : mkMetaVar key = phiN key := rfl
  simp [patEq, this, peqF_phi]

/-- `(name for name, metavar in roles.items() if metavar == MetaVar(db_name))` when no role has that variable -/
theorem genKeys_none (db : DB) (m : Nat) (v : Nat) (hv : v ∈ db.floats) (K : List Nat → R) :
    ∀ (rs : List Nat) (o : Nat), v ∉ rs → (∀ r ∈ rs, r ∈ db.floats) →
    genKeys (rolesOf db o rs) (fun v_name v_metavar => patEq (m + 1) (some v_metavar) (some (mkMetaVar (db.mvId v)))) K
      = K [] := by
  intro rs
  induction rs with
  | nil => intro o _ _; rfl
  | cons r rs ih =>
    intro o hn hf
    have hne : (db.mvId r == db.mvId v) = false := by
      simp only [beq_eq_false_iff_ne, ne_eq]
      intro e
      exact hn (by simp [mvId_inj db r v (hf r (by simp)) e])
    simp only [rolesOf, genKeys, patEq_phi, hne, ifC]
    exact ih (o + 1) (fun h => hn (List.mem_cons_of_mem _ h)) (fun r' hr' => hf r' (List.mem_cons_of_mem _ hr'))

/-- … and when exactly one has it: its schema position -/
theorem genKeys_one (db : DB) (m : Nat) (v : Nat) (hv : v ∈ db.floats) :
    ∀ (rs : List Nat) (o : Nat) (K : List Nat → R), v ∈ rs → rs.Nodup → (∀ r ∈ rs, r ∈ db.floats) →
    genKeys (rolesOf db o rs) (fun v_name v_metavar => patEq (m + 1) (some v_metavar) (some (mkMetaVar (db.mvId v)))) K
      = K [o + rs.idxOf v] := by
  intro rs
  induction rs with
  | nil => intro o K h; simp at h
  | cons r rs ih =>
    intro o K hm hnd hf
    obtain ⟨hr, hnd'⟩ := List.nodup_cons.mp hnd
    by_cases e : r = v
    · subst e
      simp only [rolesOf, genKeys, patEq_phi, beq_self_eq_true, ifC]
      rw [genKeys_none db m r hv _ rs (o + 1) hr (fun r' hr' => hf r' (List.mem_cons_of_mem _ hr'))]
      simp
    · have hne : (db.mvId r == db.mvId v) = false := by
        simp only [beq_eq_false_iff_ne, ne_eq]
        intro e'
        exact e (mvId_inj db r v (hf r (by simp)) e')
      have hm' : v ∈ rs := by
        rcases List.mem_cons.mp hm with h | h
        · exact absurd h.symm e
        · exact h
      simp only [rolesOf, genKeys, patEq_phi, hne, ifC]
      rw [ih (o + 1) K hm' hnd' (fun r' hr' => hf r' (List.mem_cons_of_mem _ hr'))]
      have : (r == v) = false := by simp [e]
      simp only [List.idxOf_cons, this, cond_false]
      congr 2
      omega


/-- the second loop of `get_rule_delta`: every entry of `get_delta`'s dictionary gets the schema position of its variable
as its new key, the values keep their order -/
theorem rekey_eq (db : DB) (m : Nat) (rs : List Nat) (hrs : rs.Nodup) (hf : ∀ r ∈ rs, r ∈ db.floats) (K : Dict → R) :
    ∀ (vs : List Nat) (ws : List Val) (d0 : Dict), vs.length = ws.length → (∀ v ∈ vs, v ∈ rs) → vs.Nodup →
    (∀ v ∈ vs, rs.idxOf v ∉ d0.map (·.1)) →
    forEach ((vs.map db.mvId).zip ws) d0 (fun (p : Nat × Val) (v_delta : Dict) kl1 =>
        genKeys (rolesOf db 0 rs) (fun v_name v_metavar => patEq (m + 1) (some v_metavar) (some (mkMetaVar p.1)))
          fun l4_ => unpack1 l4_ fun v_name => kl1 (dictSet v_delta v_name p.2)) K
      = K (d0 ++ (vs.map (rs.idxOf ·)).zip ws) := by
  intro vs
  induction vs with
  | nil => intro ws d0 _ _ _ _; simp [forEach]
  | cons v vs ih =>
    intro ws d0 hl hm hnd hfresh
    cases ws with
    | nil => simp at hl
    | cons w ws =>
      obtain ⟨hv, hnd'⟩ := List.nodup_cons.mp hnd
      have hvr : v ∈ rs := hm v (by simp)
      simp only [List.map_cons, List.zip_cons_cons, forEach]
      rw [genKeys_one db m v (hf v hvr) rs 0 _ hvr hrs hf]
      rw [show ∀ (a : Nat) (f : Nat → R), unpack1 [a] f = f a from fun _ _ => rfl, Nat.zero_add]
      rw [dictSet_fresh d0 _ _ (hfresh v (by simp))]
      rw [ih ws _ (by simpa using hl) (fun v' hv' => hm v' (List.mem_cons_of_mem _ hv')) hnd']
      · simp
      · intro v' hv'
        simp only [List.map_append, List.map_cons, List.map_nil, List.mem_append, List.mem_singleton, not_or]
        refine ⟨hfresh v' (List.mem_cons_of_mem _ hv'), ?_⟩
        intro e
        have := idxOf_inj rs v' v (hm v' (List.mem_cons_of_mem _ hv')) e
        exact hv (this ▸ hv')

theorem zip_fst_snd {α β} (l : List (α × β)) : (l.map (·.1)).zip (l.map (·.2)) = l := by
  induction l with
  | nil => rfl
  | cons p l ih => simp [ih]


/-- `r = interpreter().propN(); interpreter().instantiate(r, get_rule_delta(label, r.conclusion))` for a rule of the
database stated as `t` over the variables `rs` (by schema position): the tracker calls `propN`, `instantiate keys` with
`keys` = the schema positions of the rule's variables in `$f` order (`ruleKeys`) -/
theorem prop_rule_eq (db : DB) (goal : MM.Term) (n : Nat) (x : XSt) (l : Lbl) (method : String) (c : Call) (schema : NPat)
    (rs : List Nat) (t : MM.Term) (k : XSt → R)
    (hcall : ∀ x, toCall x ⟨method, []⟩ = some c)
    (htrack : ∀ s, track1 n s c = some (some (s.push (.proved schema))))
    (hax : db.assertion l = some ⟨db.mandOf [t], [], ⟨true, t⟩⟩)
    (hmatch : NPat.matchF n schema (image db t) [] = some (some (rolesOf db 0 rs)))
    (hn : 1 ≤ n) (hnd : db.floats.Nodup) (hrs : rs.Nodup) (hf : ∀ r ∈ rs, r ∈ db.floats)
    (hvars : ∀ v, v ∈ Term.varsList [t] ↔ v ∈ rs) :
    (icallRet n x ⟨method, []⟩ fun x v => attrConclusion v fun t1 =>
      Gen.XProof.get_rule_delta (ofDB db goal) n x l t1 fun t2 => icall n x ⟨"instantiate", [.val v, .dict t2]⟩ k) =
    bindR (x.doC n [c]) fun x' =>
      bindR (x'.doC n [.instantiate ((db.floats.filter (rs.contains ·)).map (rs.idxOf ·))]) k := by
  obtain ⟨m, rfl⟩ : ∃ m, n = m + 1 := ⟨n - 1, by omega⟩
  have hvs : db.mandOf [t] = db.floats.filter (rs.contains ·) := by
    unfold DB.mandOf
    apply List.filter_congr
    intro v _
    have := hvars v
    by_cases h : v ∈ rs <;> simp [h, this]
  unfold icallRet
  rw [icall_eq _ _ _ c _ (hcall x), doC_one, htrack]
  simp only [bindR_some, PySt.push, attrConclusion]
  congr 1
  generalize hx' : ({ s := { x.s with stack := (.proved schema, false) :: x.s.stack }, calls := x.calls ++ [c], mem := x.mem } : XSt) = x'
  have hstack : x'.s.stack = (.proved schema, false) :: x.s.stack := by rw [← hx']
  have hcalls : (x.calls ++ [c]).length = x'.calls.length := by rw [← hx']
  unfold Gen.XProof.get_rule_delta
  simp only [getAxiom, ofDB_axiom, ofDB_mio, hax, Option.map_some, axiomRec, matchSingle, hmatch, assertSome,
    Option.getD_some, get_delta_eq, hcalls]
  have hvnd : (db.mandOf [t]).Nodup := mandOf_nodup db _ hnd
  rw [← hvs]
  generalize db.mandOf [t] = vs at *
  have hvm : ∀ v ∈ vs, v ∈ rs := by
    intro v hv; rw [hvs] at hv; simpa using (List.mem_filter.mp hv).2
  have hknd : (vs.map db.mvId).Nodup := by
    apply nodup_map_on _ _ hvnd
    intro a ha b hb e
    exact mvId_inj db a b (hf a (hvm a ha)) e
  have hlen : vs.length = (vs.map db.mvId).length := by simp
  rw [hlen]
  cases hd : deltaLoop x' (vs.map db.mvId).length (vs.map db.mvId) [] 0 with
  | none =>
    have ht := deltaLoop_none x' _ _ _ hstack _ [] 0 (by simp) hd
    simp only [List.length_map] at ht
    have hne : vs ≠ [] := by
      intro e; rw [e] at hd; simp [deltaLoop] at hd
    have hne' : (vs.map (rs.idxOf ·)).isEmpty = false := by
      cases hv : vs with
      | nil => exact absurd hv hne
      | cons _ _ => rfl
    simp [doC_one, track1, hstack, hne', ht, raise, bindR]
  | some d =>
    obtain ⟨h1, h2⟩ := deltaLoop_toCall x' _ d hknd hd
    have hz : d = (vs.map db.mvId).zip (d.map (·.2)) := by rw [← h1]; exact (zip_fst_snd d).symm
    have hdl : vs.length = (d.map (·.2)).length := by
      have := congrArg List.length h1; simpa using this.symm
    simp only []
    rw [hz]
    have hb := rekey_eq db m rs hrs hf (fun t2 => icall (m + 1) x' ⟨"instantiate", [.val ⟨.proved schema, some (0, x'.calls.length)⟩, .dict t2]⟩ k)
      vs (d.map (·.2)) [] hdl hvm hvnd (by simp)
    refine hb.trans ?_
    have hl3 : (vs.map (rs.idxOf ·)).length = (d.map (·.2)).length := by simpa using hdl
    have hfst : (([] ++ (vs.map (rs.idxOf ·)).zip (d.map (·.2))) : Dict).map (·.1) = vs.map (rs.idxOf ·) := by
      rw [List.nil_append, List.map_fst_zip (by omega)]
    have hsnd : (([] ++ (vs.map (rs.idxOf ·)).zip (d.map (·.2))) : Dict).map (·.2) = d.map (·.2) := by
      rw [List.nil_append, List.map_snd_zip (by omega)]
    have hplugs : dictAtPlugs x' ([] ++ (vs.map (rs.idxOf ·)).zip (d.map (·.2))) = true := by
      unfold dictAtPlugs at h2 ⊢
      have e1 : (([] ++ (vs.map (rs.idxOf ·)).zip (d.map (·.2))) : Dict).map (·.2.src) = d.map (·.2.src) := by
        have := congrArg (List.map (·.src)) hsnd
        simpa [List.map_map, Function.comp_def] using this
      have e2 : (([] ++ (vs.map (rs.idxOf ·)).zip (d.map (·.2))) : Dict).length = d.length := by
        have := congrArg List.length hsnd
        simpa using this
      rw [e1, e2]; exact h2
    exact icall_eq _ _ _ _ _ (by simp only [toCall, Val.isAt, hplugs, hfst, beq_self_eq_true, Bool.and_self, if_true])


theorem br_p1 (db : DB) (goal : MM.Term) (cfg : Cfg) (n : Nat) (labels : List Lbl) (off : Nat) (x : XSt) (step : Nat)
    (k : XSt → R) (hwf : db.WF) (hn : 4 ≤ n) :
    Gen.XProof.br_proof_rules (ofDB db goal) cfg n labels off x step .p1 k = bindR (xP1 n db x) k := by
  obtain ⟨_, _, h1, h2, h3⟩ := lblIs_table
  obtain ⟨m, rfl⟩ : ∃ m, n = m + 4 := ⟨n - 4, by omega⟩
  unfold Gen.XProof.br_proof_rules xP1
  simp only [h1, h2, h3, pyIf, show ((Lbl.p1 == Lbl.p1) = true) from rfl, show ((Lbl.p1 == Lbl.p2) = false) from rfl,
    show ((Lbl.p1 == Lbl.mp) = false) from rfl, if_true, Bool.false_eq_true, if_false]
  have hrs : [db.p1.1, db.p1.2].Nodup := by simp [hwf.p1Ne]
  rw [prop_rule_eq db goal (m + 4) x .p1 "prop1" .prop1 prop1N [db.p1.1, db.p1.2]
    (.imp (.var db.p1.1) (.imp (.var db.p1.2) (.var db.p1.1))) (fun x => k x)
    (fun _ => rfl) (fun _ => rfl) rfl (by simpa [image_var, image_imp, image_app, rolesOf] using match_p1 m _ _) (by omega) hwf.nodup hrs
    (by intro r hr; simp at hr; rcases hr with rfl | rfl; exact hwf.p1Mem.1; exact hwf.p1Mem.2)
    (by intro v; simp [Term.varsList, Term.vars]; constructor
        · rintro (h | h | h) <;> simp [h]
        · rintro (h | h) <;> simp [h])]
  simp only [ruleKeys, hrs, if_true]
  rw [← do_eq_bindR]
  rfl

theorem br_p2 (db : DB) (goal : MM.Term) (cfg : Cfg) (n : Nat) (labels : List Lbl) (off : Nat) (x : XSt) (step : Nat)
    (k : XSt → R) (hwf : db.WF) (hn : 5 ≤ n) :
    Gen.XProof.br_proof_rules (ofDB db goal) cfg n labels off x step .p2 k = bindR (xP2 n db x) k := by
  obtain ⟨_, _, h1, h2, h3⟩ := lblIs_table
  obtain ⟨m, rfl⟩ : ∃ m, n = m + 5 := ⟨n - 5, by omega⟩
  unfold Gen.XProof.br_proof_rules xP2
  simp only [h1, h2, h3, pyIf, show ((Lbl.p2 == Lbl.p1) = false) from rfl, show ((Lbl.p2 == Lbl.p2) = true) from rfl,
    show ((Lbl.p2 == Lbl.mp) = false) from rfl, if_true, Bool.false_eq_true, if_false]
  have hrs : [db.p2.1, db.p2.2.1, db.p2.2.2].Nodup := hwf.p2Nodup
  rw [prop_rule_eq db goal (m + 5) x .p2 "prop2" .prop2 prop2N [db.p2.1, db.p2.2.1, db.p2.2.2]
    (.imp (.imp (.var db.p2.1) (.imp (.var db.p2.2.1) (.var db.p2.2.2)))
      (.imp (.imp (.var db.p2.1) (.var db.p2.2.1)) (.imp (.var db.p2.1) (.var db.p2.2.2)))) (fun x => k x)
    (fun _ => rfl) (fun _ => rfl) rfl (by simpa [image_var, image_imp, image_app, rolesOf] using match_p2 m _ _ _) (by omega) hwf.nodup hrs
    (by intro r hr; simp at hr; rcases hr with rfl | rfl | rfl; exact hwf.p2Mem.1; exact hwf.p2Mem.2.1; exact hwf.p2Mem.2.2)
    (by intro v; simp [Term.varsList, Term.vars]; constructor
        · rintro (h | h | h | h | h | h | h) <;> simp [h]
        · rintro (h | h | h) <;> simp [h])]
  simp only [ruleKeys, hrs, if_true]
  rw [← do_eq_bindR]
  rfl


/-! ## the loop body, the loop, the function -/

/-- which branch of the generated if/elif chain a label of the model takes -/
def branchOf (db : DB) (goal : MM.Term) (cfg : Cfg) (n : Nat) (labels : List Lbl) (x : XSt) (step : Nat) (k : XSt → R)
    (l : Lbl) : R :=
  match l with
  | .impC | .appC | .ctor _ => Gen.XProof.br_pattern_constructors (ofDB db goal) cfg n labels labels.length x step l k
  | .float _ => Gen.XProof.br_fp_label_to_pattern (ofDB db goal) cfg n labels labels.length x step l k
  | .rule _ => Gen.XProof.br_exported_axioms (ofDB db goal) cfg n labels labels.length x step l k
  | .p1 | .p2 | .mp => Gen.XProof.br_proof_rules (ofDB db goal) cfg n labels labels.length x step l k

/-- the dispatch of the generated loop body on the kind of the label, in the order of the source, for the converter of a
model database -/
theorem step_label (db : DB) (goal : MM.Term) (cfg : Cfg) (n : Nat) (labels : List Lbl) (x : XSt) (step : Nat) (l : Lbl)
    (k : XSt → R) (h1 : 1 ≤ step) (hl : labels[step - 1]? = some l) :
    Gen.XProof.step (ofDB db goal) cfg n labels labels.length x step k = branchOf db goal cfg n labels x step k l := by
  have hlt : step - 1 < labels.length := by
    rcases Nat.lt_or_ge (step - 1) labels.length with h | h
    · exact h
    · rw [List.getElem?_eq_none h] at hl; cases hl
  have hhas : labelsHas labels step = true := by simp [labelsHas]; omega
  have h0 : ¬ step = 0 := by omega
  unfold Gen.XProof.step
  simp only [hhas, Bool.not_true, Bool.false_eq_true, if_false, labelsGet, h0, hl]
  cases l <;> simp [ofDB, fp0, isMetaVar, phiN, branchOf]

theorem step_tie (db : DB) (goal : MM.Term) (cfg : Cfg) (n : Nat) (labels : List Lbl) (x : XSt) (step : Nat)
    (k : XSt → R) (hwf : db.WF) (hn : 5 ≤ n) :
    Gen.XProof.step (ofDB db goal) cfg n labels labels.length x step k = bindR (xstep cfg n db labels x step) k := by
  rw [xstep_eq]
  unfold resolve
  by_cases h0 : step = 0
  · subst h0
    simp only [if_true]
    unfold Gen.XProof.step
    simp only [labelsHas, Nat.le_zero_eq, Nat.one_ne_zero, false_and, decide_false, Bool.not_false, if_true]
    exact br_memory_save _ _ _ _ _ _ _
  · simp only [h0, if_false]
    by_cases hk : step ≤ labels.length
    · simp only [hk, if_true]
      have hlt : step - 1 < labels.length := by omega
      obtain ⟨l, hl⟩ : ∃ l, labels[step - 1]? = some l := ⟨_, List.getElem?_eq_getElem hlt⟩
      rw [step_label db goal cfg n labels x step l k (by omega) hl, hl]
      simp only [branchOf]
      cases l with
      | float v => exact br_float _ _ _ _ _ _ _ _ _ _
      | impC => exact br_imp _ _ _ _ _ _ _ _ _ hwf (by omega)
      | appC => exact br_app _ _ _ _ _ _ _ _ _ hwf (by omega)
      | ctor c => exact br_ctor _ _ _ _ _ _ _ _ _ _ hwf.nodup
      | rule j => exact br_rule _ _ _ _ _ _ _ _ _ _ hwf.nodup
      | p1 => exact br_p1 _ _ _ _ _ _ _ _ _ hwf (by omega)
      | p2 => exact br_p2 _ _ _ _ _ _ _ _ _ hwf hn
      | mp => exact br_mp _ _ _ _ _ _ _ _ _
    · simp only [hk, if_false]
      unfold Gen.XProof.step
      have hhas : labelsHas labels step = false := by simp [labelsHas]; omega
      simp only [hhas, Bool.not_false, if_true]
      exact br_memory_reuse _ _ _ _ _ _ _ h0 (by omega)

/-- the loop `for lemma in exported_proof.applied_lemmas` is `xrun` -/
theorem run_tie (db : DB) (goal : MM.Term) (cfg : Cfg) (n : Nat) (labels : List Lbl) (K : XSt → R)
    (hwf : db.WF) (hn : 5 ≤ n) : ∀ (steps : List Nat) (x : XSt),
    forEach steps x (fun v_lemma x kl => Gen.XProof.step (ofDB db goal) cfg n labels labels.length x v_lemma kl) K =
      bindR (xrun cfg n db labels x steps) K := by
  intro steps
  induction steps with
  | nil => intro x; rfl
  | cons st steps ih =>
    intro x
    simp only [forEach, xrun]
    rw [step_tie db goal cfg n labels x st _ hwf hn, ← do_eq_bindR (xstep cfg n db labels x st)]
    cases xstep cfg n db labels x st with
    | none => rfl
    | some r =>
      cases r with
      | none => rfl
      | some x' => simp only [bind, Option.bind, bindR_some]; exact ih x'

/-- the answer of the generated `exec_proof` in the model's form: final tracker state and calls made -/
def outcome (r : R) : Option (Option (PySt × List Call)) := r.map (·.map fun x => (x.s, x.calls))

theorem exec_proof_tie (db : DB) (goal : MM.Term) (cfg : Cfg) (n : Nat) (labels : List Lbl) (steps : List Nat)
    (s : PySt) (acc : List Call) (hwf : db.WF) (hn : 5 ≤ n) :
    outcome (Gen.XProof.exec_proof (ofDB db goal) cfg n labels steps s acc) =
      execProof cfg n db goal labels steps s acc := by
  unfold Gen.XProof.exec_proof execProof
  simp only []
  rw [run_tie db goal cfg n labels _ hwf hn]
  cases hx : xrun cfg n db labels ⟨s, acc, []⟩ steps with
  | none => rfl
  | some r =>
    cases r with
    | none => rfl
    | some x =>
      simp only [bindR_some, bind, Option.bind, stackIdx_1, stackAt]
      cases hs : x.s.stack with
      | nil => rfl
      | cons e st =>
        obtain ⟨t, b⟩ := e
        cases t with
        | pat p => rfl
        | proved p =>
          simp only [List.getElem?_cons_zero, isProved, TTerm.isProved, assertThat_true, assertC, provedEq, ofDB]
          cases hp : NPat.peqF n p (image db goal) with
          | none => rfl
          | some bq =>
            cases bq with
            | false => rfl
            | true =>
              simp only [Option.map_some, ifC, if_true]
              rw [icall_eq _ _ _ .publishProof _ (by simp [toCall, Val.isAt])]
              cases x.doC n [.publishProof] with
              | none => rfl
              | some r2 => cases r2 <;> rfl


/-! ## the hypotheses are needed -/

/-- a database outside `DB.wf`: `imp-is-pattern $a #Pattern ( \imp x x )` -/
def dbImpXX : DB :=
  { floats := [0], impArgs := (0, 0), appArgs := (0, 0), ctors := [], rules := [], p1 := (0, 0), p2 := (0, 0, 0), mp := (0, 0) }
/-- a well-formed database over three variables -/
def dbOk : DB :=
  { floats := [0, 1, 2], impArgs := (0, 1), appArgs := (0, 1), ctors := [], rules := [], p1 := (0, 1), p2 := (0, 1, 2),
    mp := (0, 1) }
def xTwoPats : XSt :=
  ⟨{ phase := .proof, stack := [(.pat (phiN 0), false), (.pat (phiN 1), false)], memory := [], claims := [], symtab := [] }, [], []⟩

/-- outside `DB.wf` the text and the model differ: for `( \imp x x )` Python's `Implies(*arguments_in_order)` gets one
argument (`TypeError`), the model goes on with `pattern` + `instantiate_pattern` -/
theorem wf_needed :
    dbImpXX.wf = false ∧
    Gen.XProof.step (ofDB dbImpXX (.var 0)) {} 5 [.impC] 1 xTwoPats 1 (fun x => some (some x)) = some none ∧
    ((xstep {} 5 dbImpXX [.impC] xTwoPats 1).bind id).isSome = true :=
  ⟨by decide, rfl, rfl⟩

/-- below the fuel bound the fuelled `==` of the text (`converter.get_axiom_by_name(..).pattern == App(..)`) gives up
where the model, which decides the shortcut on the variable lists, answers -/
theorem fuel_needed :
    dbOk.wf = true ∧
    Gen.XProof.step (ofDB dbOk (.var 0)) {} 1 [.appC] 1 xTwoPats 1 (fun x => some (some x)) = none ∧
    ((xstep {} 1 dbOk [.appC] xTwoPats 1).bind id).isSome = true :=
  ⟨by decide, rfl, rfl⟩

end XProofTie

#print axioms XProofTie.translated
#print axioms XProofTie.br_memory_save
#print axioms XProofTie.br_memory_reuse
#print axioms XProofTie.br_float
#print axioms XProofTie.br_ctor
#print axioms XProofTie.br_app
#print axioms XProofTie.br_imp
#print axioms XProofTie.br_rule
#print axioms XProofTie.br_p1
#print axioms XProofTie.br_p2
#print axioms XProofTie.br_mp
#print axioms XProofTie.get_delta_eq
#print axioms XProofTie.instantiate_eq
#print axioms XProofTie.prop_rule_eq
#print axioms XProofTie.convert_to_implication_eq
#print axioms XProofTie.step_tie
#print axioms XProofTie.run_tie
#print axioms XProofTie.exec_proof_tie
#print axioms XProofTie.wf_needed
#print axioms XProofTie.fuel_needed
