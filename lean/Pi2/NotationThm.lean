import Pi2.Notation
/-!
# Notation is transparent

Every fuel-indexed operation of `Pi2.Notation` commutes with `NPat.expand` whenever it returns
`some`, on well-shaped patterns.
-/
open Pat

/-! ## well-shaped patterns -/

/-- every `mv` has empty `ef`/`sf`; every substitution node has a meta head -/
def Pat.Shape : Pat → Bool
  | .evar _ => true | .svar _ => true | .sym _ => true
  | .imp l r => l.Shape && r.Shape
  | .app l r => l.Shape && r.Shape
  | .ex _ p => p.Shape | .mu _ p => p.Shape
  | .mv _ ef sf _ _ _ => ef.isEmpty && sf.isEmpty
  | .esub p _ q => p.isMeta && p.Shape && q.Shape
  | .ssub p _ q => p.isMeta && p.Shape && q.Shape

/-- the head constructor is literally `mv` / `esub` / `ssub` -/
def NPat.isMetaN : NPat → Bool
  | .mv .. => true | .esub .. => true | .ssub .. => true | _ => false

mutual
def NPat.Shape : NPat → Bool
  | .evar _ => true | .svar _ => true | .sym _ => true
  | .imp l r => l.Shape && r.Shape
  | .app l r => l.Shape && r.Shape
  | .ex _ p => p.Shape | .mu _ p => p.Shape
  | .mv _ ef sf _ _ _ => ef.isEmpty && sf.isEmpty
  | .esub p _ q => p.isMetaN && p.Shape && q.Shape
  | .ssub p _ q => p.isMetaN && p.Shape && q.Shape
  | .inst p m => p.Shape && NPat.ShapeMap m
def NPat.ShapeMap : List (Nat × NPat) → Bool
  | [] => true
  | (_, v) :: r => v.Shape && NPat.ShapeMap r
end

/-! ## `Pat`-level algebra -/
namespace Py

theorem esub_meta (x : VId) (plug : Pat) (p : Pat) (hm : p.isMeta = true) (hs : p.Shape = true) :
    Py.esub x plug p = .esub p x plug := by
  cases p <;> simp_all [Pat.isMeta, Pat.Shape, Py.esub]

theorem ssub_meta (x : VId) (plug : Pat) (p : Pat) (hm : p.isMeta = true) (hs : p.Shape = true) :
    Py.ssub x plug p = .ssub p x plug := by
  cases p <;> simp_all [Pat.isMeta, Pat.Shape, Py.ssub]

theorem shape_esub (x : VId) (plug : Pat) (hp : plug.Shape = true) (p : Pat) (hs : p.Shape = true) :
    (Py.esub x plug p).Shape = true := by
  induction p with
  | evar y => simp only [Py.esub]; split <;> simp_all [Pat.Shape]
  | ex y p ih => simp only [Py.esub]; split <;> simp_all [Pat.Shape]
  | mv id ef sf ps ns hs => simp_all [Pat.Shape, Py.esub, Pat.isMeta]
  | _ => simp_all [Pat.Shape, Py.esub, Pat.isMeta]

theorem shape_ssub (x : VId) (plug : Pat) (hp : plug.Shape = true) (p : Pat) (hs : p.Shape = true) :
    (Py.ssub x plug p).Shape = true := by
  induction p with
  | svar y => simp only [Py.ssub]; split <;> simp_all [Pat.Shape]
  | mu y p ih => simp only [Py.ssub]; split <;> simp_all [Pat.Shape]
  | mv id ef sf ps ns hs => simp_all [Pat.Shape, Py.ssub, Pat.isMeta]
  | _ => simp_all [Pat.Shape, Py.ssub, Pat.isMeta]

theorem shape_inst (δ : VId → Option Pat) (hδ : ∀ k v, δ k = some v → v.Shape = true)
    (q : Pat) (hs : q.Shape = true) : (Py.inst δ q).Shape = true := by
  induction q with
  | mv id ef sf ps ns hs =>
    simp only [Py.inst]
    cases h : δ id with
    | none => simpa using hs
    | some v => simpa using hδ _ _ h
  | esub p x q ihp ihq =>
    simp only [Pat.Shape, Bool.and_eq_true] at hs
    exact shape_esub _ _ (ihq hs.2) _ (ihp hs.1.2)
  | ssub p x q ihp ihq =>
    simp only [Pat.Shape, Bool.and_eq_true] at hs
    exact shape_ssub _ _ (ihq hs.2) _ (ihp hs.1.2)
  | _ => simp_all [Pat.Shape, Py.inst]

theorem inst_esub_comm (δ : VId → Option Pat) (x : VId) (plug : Pat) (q : Pat)
    (hs : q.Shape = true) :
    Py.inst δ (Py.esub x plug q) = Py.esub x (Py.inst δ plug) (Py.inst δ q) := by
  induction q with
  | evar y => simp only [Py.esub]; split <;> simp_all [Py.inst, Py.esub]
  | ex y p ih => simp only [Py.esub]; split <;> simp_all [Py.inst, Py.esub, Pat.Shape]
  | mv id ef sf ps ns hs => simp_all [Pat.Shape, Py.esub, Py.inst]
  | _ => simp_all [Pat.Shape, Py.esub, Py.inst]

theorem inst_ssub_comm (δ : VId → Option Pat) (x : VId) (plug : Pat) (q : Pat)
    (hs : q.Shape = true) :
    Py.inst δ (Py.ssub x plug q) = Py.ssub x (Py.inst δ plug) (Py.inst δ q) := by
  induction q with
  | svar y => simp only [Py.ssub]; split <;> simp_all [Py.inst, Py.ssub]
  | mu y p ih => simp only [Py.ssub]; split <;> simp_all [Py.inst, Py.ssub, Pat.Shape]
  | mv id ef sf ps ns hs => simp_all [Pat.Shape, Py.ssub, Py.inst]
  | _ => simp_all [Pat.Shape, Py.ssub, Py.inst]

theorem inst_comp (δ₁ δ₂ : VId → Option Pat) (hδ : ∀ k v, δ₁ k = some v → v.Shape = true)
    (q : Pat) (hs : q.Shape = true) :
    Py.inst δ₂ (Py.inst δ₁ q) =
      Py.inst (fun k => match δ₁ k with | some v => some (Py.inst δ₂ v) | none => δ₂ k) q := by
  induction q with
  | mv id ef sf ps ns hs =>
    simp only [Py.inst]
    cases h : δ₁ id <;> simp [Py.inst]
  | esub p x q ihp ihq =>
    simp only [Pat.Shape, Bool.and_eq_true] at hs
    simp only [Py.inst]
    rw [inst_esub_comm _ _ _ _ (shape_inst _ hδ _ hs.1.2), ihp hs.1.2, ihq hs.2]
  | ssub p x q ihp ihq =>
    simp only [Pat.Shape, Bool.and_eq_true] at hs
    simp only [Py.inst]
    rw [inst_ssub_comm _ _ _ _ (shape_inst _ hδ _ hs.1.2), ihp hs.1.2, ihq hs.2]
  | _ => simp_all [Pat.Shape, Py.inst]

theorem inst_congr (δ δ' : VId → Option Pat) (q : Pat)
    (h : ∀ k ∈ Py.metavars q, δ k = δ' k) : Py.inst δ q = Py.inst δ' q := by
  induction q with
  | mv id ef sf ps ns hs => simp [Py.inst, h id (by simp [Py.metavars])]
  | _ => simp_all [Py.inst, Py.metavars]

theorem inst_empty (q : Pat) (hs : q.Shape = true) : Py.inst (fun _ => none) q = q := by
  induction q with
  | esub p x q ihp ihq =>
    simp only [Pat.Shape, Bool.and_eq_true] at hs
    simp only [Py.inst, ihp hs.1.2, ihq hs.2]
    exact esub_meta _ _ _ hs.1.1 hs.1.2
  | ssub p x q ihp ihq =>
    simp only [Pat.Shape, Bool.and_eq_true] at hs
    simp only [Py.inst, ihp hs.1.2, ihq hs.2]
    exact ssub_meta _ _ _ hs.1.1 hs.1.2
  | _ => simp_all [Pat.Shape, Py.inst]

/-- `esub` does not invent metavariables -/
theorem metavars_esub (x : VId) (plug : Pat) (q : Pat) (j : VId)
    (h : j ∈ Py.metavars (Py.esub x plug q)) : j ∈ Py.metavars q ∨ j ∈ Py.metavars plug := by
  induction q with
  | evar y => simp only [Py.esub] at h; split at h <;> simp_all [Py.metavars]
  | ex y p ih => simp only [Py.esub] at h; split at h <;> simp_all [Py.metavars]
  | mv id ef sf ps ns hs => simp only [Py.esub] at h; split at h <;> simp_all [Py.metavars]
  | imp l r ihl ihr => simp only [Py.esub, Py.metavars, List.mem_append] at h ⊢; grind
  | app l r ihl ihr => simp only [Py.esub, Py.metavars, List.mem_append] at h ⊢; grind
  | _ => simp_all [Py.esub, Py.metavars] <;> grind

theorem metavars_ssub (x : VId) (plug : Pat) (q : Pat) (j : VId)
    (h : j ∈ Py.metavars (Py.ssub x plug q)) : j ∈ Py.metavars q ∨ j ∈ Py.metavars plug := by
  induction q with
  | svar y => simp only [Py.ssub] at h; split at h <;> simp_all [Py.metavars]
  | mu y p ih => simp only [Py.ssub] at h; split at h <;> simp_all [Py.metavars]
  | mv id ef sf ps ns hs => simp only [Py.ssub] at h; split at h <;> simp_all [Py.metavars]
  | imp l r ihl ihr => simp only [Py.ssub, Py.metavars, List.mem_append] at h ⊢; grind
  | app l r ihl ihr => simp only [Py.ssub, Py.metavars, List.mem_append] at h ⊢; grind
  | _ => simp_all [Py.ssub, Py.metavars] <;> grind

/-- the metavariables of an instance: those of the values, or the uninstantiated ones -/
def mvOf (δ : VId → Option Pat) (k : VId) : List VId :=
  match δ k with | some v => Py.metavars v | none => [k]

theorem metavars_inst (δ : VId → Option Pat) (q : Pat) (j : VId)
    (h : j ∈ Py.metavars (Py.inst δ q)) : ∃ k ∈ Py.metavars q, j ∈ mvOf δ k := by
  induction q with
  | mv id ef sf ps ns hs =>
    refine ⟨id, by simp [Py.metavars], ?_⟩
    simp only [Py.inst] at h
    unfold mvOf
    cases hd : δ id <;> simp_all [Py.metavars]
  | esub p x q ihp ihq =>
    simp only [Py.inst] at h
    simp only [Py.metavars, List.mem_append]
    rcases metavars_esub _ _ _ _ h with h | h
    · obtain ⟨k, hk, hj⟩ := ihp h; exact ⟨k, Or.inl hk, hj⟩
    · obtain ⟨k, hk, hj⟩ := ihq h; exact ⟨k, Or.inr hk, hj⟩
  | ssub p x q ihp ihq =>
    simp only [Py.inst] at h
    simp only [Py.metavars, List.mem_append]
    rcases metavars_ssub _ _ _ _ h with h | h
    · obtain ⟨k, hk, hj⟩ := ihp h; exact ⟨k, Or.inl hk, hj⟩
    · obtain ⟨k, hk, hj⟩ := ihq h; exact ⟨k, Or.inr hk, hj⟩
  | imp l r ihl ihr =>
    simp only [Py.inst, Py.metavars, List.mem_append] at h ⊢
    rcases h with h | h
    · obtain ⟨k, hk, hj⟩ := ihl h; exact ⟨k, Or.inl hk, hj⟩
    · obtain ⟨k, hk, hj⟩ := ihr h; exact ⟨k, Or.inr hk, hj⟩
  | app l r ihl ihr =>
    simp only [Py.inst, Py.metavars, List.mem_append] at h ⊢
    rcases h with h | h
    · obtain ⟨k, hk, hj⟩ := ihl h; exact ⟨k, Or.inl hk, hj⟩
    · obtain ⟨k, hk, hj⟩ := ihr h; exact ⟨k, Or.inr hk, hj⟩
  | _ => simp_all [Py.inst, Py.metavars]

end Py

/-! ## list / map lemmas -/
namespace Py

theorem lookup_append {α} (a b : List (Nat × α)) (i : Nat) :
    Py.lookup (a ++ b) i = (Py.lookup a i).or (Py.lookup b i) := by
  induction a with
  | nil => simp [Py.lookup]
  | cons kv r ih =>
    obtain ⟨k, v⟩ := kv
    simp only [List.cons_append, Py.lookup]
    split <;> simp [ih]

theorem lookup_filter {α} (f : Nat × α → Bool) (P : Nat → Bool) (hf : ∀ k v, f (k, v) = P k)
    (l : List (Nat × α)) (i : Nat) :
    Py.lookup (l.filter f) i = if P i then Py.lookup l i else none := by
  induction l with
  | nil => simp [Py.lookup]
  | cons kv r ih =>
    obtain ⟨k, v⟩ := kv
    simp only [List.filter_cons, hf]
    by_cases hk : k = i
    · subst hk
      cases hP : P k <;> simp_all [Py.lookup]
    · cases hP : P k <;> simp_all [Py.lookup]

theorem lookup_mem {α} (l : List (Nat × α)) (i : Nat) (v : α) (h : Py.lookup l i = some v) :
    (i, v) ∈ l := by
  induction l with
  | nil => simp [Py.lookup] at h
  | cons kv r ih =>
    obtain ⟨k, w⟩ := kv
    simp only [Py.lookup] at h
    split at h
    · simp_all
    · simp [ih h]

end Py

namespace NPat

theorem expandMap_append (a b : List (Nat × NPat)) :
    expand.expandMap (a ++ b) = expand.expandMap a ++ expand.expandMap b := by
  induction a with
  | nil => simp [expand.expandMap]
  | cons kv r ih => obtain ⟨k, v⟩ := kv; simp [expand.expandMap, ih]

theorem lookup_expandMap (m : List (Nat × NPat)) (i : Nat) :
    Py.lookup (expand.expandMap m) i = (Py.lookup m i).map expand := by
  induction m with
  | nil => simp [expand.expandMap, Py.lookup]
  | cons kv r ih =>
    obtain ⟨k, v⟩ := kv
    simp only [expand.expandMap, Py.lookup]
    split <;> simp [ih]

theorem look_eq (m : List (Nat × NPat)) (i : Nat) :
    metavars.look m i = (Py.lookup m i).map metavars := by
  induction m with
  | nil => simp [metavars.look, Py.lookup]
  | cons kv r ih =>
    obtain ⟨k, v⟩ := kv
    simp only [metavars.look, Py.lookup]
    split <;> simp [ih]

theorem mem_go (vs : List VId) (m : List (Nat × NPat)) (j : VId) :
    j ∈ metavars.go vs m ↔ ∃ v ∈ vs, j ∈ (metavars.look m v).getD [v] := by
  induction vs with
  | nil => simp [metavars.go]
  | cons v vs ih =>
    simp only [metavars.go, List.mem_append, ih, List.mem_cons, exists_eq_or_imp]
    cases metavars.look m v <;> simp

theorem lookup_dedupKeys (l : List (Nat × NPat)) (seen : List Nat) (i : Nat)
    (hi : i ∉ seen) : Py.lookup (dedupKeys l seen) i = Py.lookup l i := by
  induction l generalizing seen with
  | nil => simp [dedupKeys]
  | cons kv r ih =>
    obtain ⟨k, v⟩ := kv
    simp only [dedupKeys]
    split
    · next hk =>
      have : k ≠ i := by
        intro e; subst e; simp_all
      simp [Py.lookup, this, ih _ hi]
    · next hk =>
      by_cases e : k = i
      · simp [Py.lookup, e]
      · simp only [Py.lookup, e, if_false]
        apply ih
        simp; exact ⟨fun h => e h.symm, hi⟩

theorem shapeMap_append (a b : List (Nat × NPat)) :
    ShapeMap (a ++ b) = (ShapeMap a && ShapeMap b) := by
  induction a with
  | nil => simp [ShapeMap]
  | cons kv r ih => obtain ⟨k, v⟩ := kv; simp [ShapeMap, ih, Bool.and_assoc]

theorem shapeMap_iff (m : List (Nat × NPat)) :
    ShapeMap m = true ↔ ∀ kv ∈ m, kv.2.Shape = true := by
  induction m with
  | nil => simp [ShapeMap]
  | cons kv r ih => obtain ⟨k, v⟩ := kv; simp [ShapeMap, ih]

theorem shapeMap_filter (f : Nat × NPat → Bool) (m : List (Nat × NPat)) (h : ShapeMap m = true) :
    ShapeMap (m.filter f) = true := by
  rw [shapeMap_iff] at h ⊢
  intro kv hkv
  exact h kv (List.mem_filter.mp hkv).1

theorem mem_dedupKeys (l : List (Nat × NPat)) (seen : List Nat) (kv : Nat × NPat)
    (h : kv ∈ dedupKeys l seen) : kv ∈ l := by
  induction l generalizing seen with
  | nil => simp [dedupKeys] at h
  | cons a r ih =>
    obtain ⟨k, v⟩ := a
    simp only [dedupKeys] at h
    split at h
    · exact List.mem_cons_of_mem _ (ih _ h)
    · rcases List.mem_cons.mp h with h | h
      · simp [h]
      · exact List.mem_cons_of_mem _ (ih _ h)

theorem shapeMap_dedupKeys (l : List (Nat × NPat)) (seen : List Nat) (h : ShapeMap l = true) :
    ShapeMap (dedupKeys l seen) = true := by
  rw [shapeMap_iff] at h ⊢
  intro kv hkv
  exact h kv (mem_dedupKeys _ _ _ hkv)

theorem shape_of_lookup (m : List (Nat × NPat)) (h : ShapeMap m = true) (i : Nat) (v : NPat)
    (hl : Py.lookup m i = some v) : v.Shape = true :=
  (shapeMap_iff m).mp h _ (Py.lookup_mem _ _ _ hl)

theorem isMeta_expand (p : NPat) (h : p.isMetaN = true) : p.expand.isMeta = true := by
  cases p <;> simp_all [isMetaN, expand, Pat.isMeta]

/-! ## Theorem 1 and the metavariable inclusion (structural, mutual with maps) -/

mutual
theorem shape_expand : (p : NPat) → p.Shape = true → (p.expand).Shape = true
  | .evar _, _ => by simp [expand, Pat.Shape]
  | .svar _, _ => by simp [expand, Pat.Shape]
  | .sym _, _ => by simp [expand, Pat.Shape]
  | .imp l r, h => by
    simp only [Shape, Bool.and_eq_true] at h
    simp [expand, Pat.Shape, shape_expand l h.1, shape_expand r h.2]
  | .app l r, h => by
    simp only [Shape, Bool.and_eq_true] at h
    simp [expand, Pat.Shape, shape_expand l h.1, shape_expand r h.2]
  | .ex _ p, h => by
    simp only [Shape] at h
    simp [expand, Pat.Shape, shape_expand p h]
  | .mu _ p, h => by
    simp only [Shape] at h
    simp [expand, Pat.Shape, shape_expand p h]
  | .mv _ ef sf _ _ _, h => by
    simp only [Shape] at h
    simpa [expand, Pat.Shape] using h
  | .esub p _ q, h => by
    simp only [Shape, Bool.and_eq_true] at h
    simp [expand, Pat.Shape, shape_expand p h.1.2, shape_expand q h.2, isMeta_expand p h.1.1]
  | .ssub p _ q, h => by
    simp only [Shape, Bool.and_eq_true] at h
    simp [expand, Pat.Shape, shape_expand p h.1.2, shape_expand q h.2, isMeta_expand p h.1.1]
  | .inst p m, h => by
    simp only [Shape, Bool.and_eq_true] at h
    simp only [expand]
    exact Py.shape_inst _ (shape_expandMap m h.2) _ (shape_expand p h.1)
theorem shape_expandMap : (m : List (Nat × NPat)) → ShapeMap m = true →
    ∀ k v, Py.lookup (expand.expandMap m) k = some v → v.Shape = true
  | [], _ => by simp [expand.expandMap, Py.lookup]
  | (k, v) :: r, h => by
    simp only [ShapeMap, Bool.and_eq_true] at h
    intro i w hw
    simp only [expand.expandMap, Py.lookup] at hw
    split at hw
    · cases hw; exact shape_expand v h.1
    · exact shape_expandMap r h.2 i w hw
end

mutual
theorem metavars_expand : (p : NPat) → ∀ j ∈ Py.metavars p.expand, j ∈ metavars p
  | .evar _ => by simp [expand, Py.metavars]
  | .svar _ => by simp [expand, Py.metavars]
  | .sym _ => by simp [expand, Py.metavars]
  | .mv _ _ _ _ _ _ => by simp [expand, Py.metavars, metavars]
  | .imp l r => by
    have := metavars_expand l; have := metavars_expand r
    simp only [expand, Py.metavars, metavars, List.mem_append]; grind
  | .app l r => by
    have := metavars_expand l; have := metavars_expand r
    simp only [expand, Py.metavars, metavars, List.mem_append]; grind
  | .ex _ p => by
    have := metavars_expand p
    simpa only [expand, Py.metavars, metavars] using this
  | .mu _ p => by
    have := metavars_expand p
    simpa only [expand, Py.metavars, metavars] using this
  | .esub p _ q => by
    have := metavars_expand p; have := metavars_expand q
    simp only [expand, Py.metavars, metavars, List.mem_append]; grind
  | .ssub p _ q => by
    have := metavars_expand p; have := metavars_expand q
    simp only [expand, Py.metavars, metavars, List.mem_append]; grind
  | .inst p m => by
    intro j hj
    simp only [expand] at hj
    obtain ⟨k, hk, hjk⟩ := Py.metavars_inst _ _ _ hj
    simp only [metavars, mem_go]
    refine ⟨k, metavars_expand p k hk, ?_⟩
    simp only [Py.mvOf, lookup_expandMap] at hjk
    rw [look_eq]
    cases hl : Py.lookup m k with
    | none => simpa [hl] using hjk
    | some v =>
      simp only [hl, Option.map_some, Option.getD_some] at hjk ⊢
      exact metavars_expandMap m k v hl j hjk
theorem metavars_expandMap : (m : List (Nat × NPat)) → ∀ k v, Py.lookup m k = some v →
    ∀ j ∈ Py.metavars v.expand, j ∈ metavars v
  | [] => by simp [Py.lookup]
  | (k, v) :: r => by
    intro i w hw
    simp only [Py.lookup] at hw
    split at hw
    · cases hw; exact metavars_expand v
    · exact metavars_expandMap r i w hw
end

end NPat

/-! ## Theorems 2–4: simultaneous induction on the fuel -/
namespace NPat
set_option linter.unusedSimpArgs false

theorem lookup_none_keys (m : List (Nat × NPat)) (k : Nat) (h : Py.lookup m k = none) :
    (keys m).contains k = false := by
  induction m with
  | nil => simp [keys]
  | cons kv r ih =>
    obtain ⟨k', v⟩ := kv
    simp only [Py.lookup] at h
    split at h
    · simp at h
    · have := ih h
      simp_all [keys]
      omega

theorem inst_isEmpty (δ : List (Nat × NPat)) (hδ : δ.isEmpty = true) (p : NPat)
    (hp : p.Shape = true) : p.expand = Py.inst (Py.lookup (expand.expandMap δ)) p.expand := by
  have hnil : δ = [] := by simpa using hδ
  subst hnil
  have : Py.lookup (expand.expandMap []) = fun _ => none := funext fun _ => rfl
  rw [this, Py.inst_empty _ (shape_expand p hp)]

def InstOK (n : Nat) : Prop :=
  ∀ (δ : List (Nat × NPat)) (p r : NPat), p.Shape = true → ShapeMap δ = true →
    instF n δ p = some r →
    r.expand = Py.inst (Py.lookup (expand.expandMap δ)) p.expand ∧ r.Shape = true

def MapOK (n : Nat) : Prop :=
  ∀ (δ m m' : List (Nat × NPat)), ShapeMap m = true → ShapeMap δ = true →
    mapF n δ m = some m' →
    (∀ i, Py.lookup (expand.expandMap m') i =
        (Py.lookup (expand.expandMap m) i).map (Py.inst (Py.lookup (expand.expandMap δ)))) ∧
      ShapeMap m' = true

def EsubOK (n : Nat) : Prop :=
  ∀ (x : VId) (plug p r : NPat), p.Shape = true → plug.Shape = true →
    esubF n x plug p = some r →
    r.expand = Py.esub x plug.expand p.expand ∧ r.Shape = true

def SsubOK (n : Nat) : Prop :=
  ∀ (x : VId) (plug p r : NPat), p.Shape = true → plug.Shape = true →
    ssubF n x plug p = some r →
    r.expand = Py.ssub x plug.expand p.expand ∧ r.Shape = true

theorem esub_step (n : Nat) (hi : InstOK n) (he : EsubOK n) : EsubOK (n + 1) := by
  intro x plug p r hp hplug h
  cases p with
  | evar y =>
    simp only [esubF, Option.some.injEq] at h; subst h
    simp only [expand, Py.esub]
    split <;> simp_all [expand, Shape]
  | svar y => simp only [esubF, Option.some.injEq] at h; subst h; simp [expand, Py.esub, Shape]
  | sym y => simp only [esubF, Option.some.injEq] at h; subst h; simp [expand, Py.esub, Shape]
  | imp l r' =>
    simp only [Shape, Bool.and_eq_true] at hp
    simp only [esubF, Option.bind_eq_bind, Option.pure_def, Option.bind_eq_some_iff,
      Option.some.injEq] at h
    obtain ⟨a, ha, b, hb, rfl⟩ := h
    obtain ⟨ea, sa⟩ := he _ _ _ _ hp.1 hplug ha
    obtain ⟨eb, sb⟩ := he _ _ _ _ hp.2 hplug hb
    simp [expand, Py.esub, Shape, ea, eb, sa, sb]
  | app l r' =>
    simp only [Shape, Bool.and_eq_true] at hp
    simp only [esubF, Option.bind_eq_bind, Option.pure_def, Option.bind_eq_some_iff,
      Option.some.injEq] at h
    obtain ⟨a, ha, b, hb, rfl⟩ := h
    obtain ⟨ea, sa⟩ := he _ _ _ _ hp.1 hplug ha
    obtain ⟨eb, sb⟩ := he _ _ _ _ hp.2 hplug hb
    simp [expand, Py.esub, Shape, ea, eb, sa, sb]
  | ex y q =>
    simp only [Shape] at hp
    simp only [esubF] at h
    split at h
    · next hy =>
      simp only [Option.some.injEq] at h; subst h
      simp [expand, Py.esub, Shape, hy, hp]
    · next hy =>
      simp only [Option.bind_eq_bind, Option.pure_def, Option.bind_eq_some_iff,
        Option.some.injEq] at h
      obtain ⟨a, ha, rfl⟩ := h
      obtain ⟨ea, sa⟩ := he _ _ _ _ hp hplug ha
      simp [expand, Py.esub, Shape, hy, ea, sa]
  | mu y q =>
    simp only [Shape] at hp
    simp only [esubF, Option.bind_eq_bind, Option.pure_def, Option.bind_eq_some_iff,
      Option.some.injEq] at h
    obtain ⟨a, ha, rfl⟩ := h
    obtain ⟨ea, sa⟩ := he _ _ _ _ hp hplug ha
    simp [expand, Py.esub, Shape, ea, sa]
  | mv id ef sf ps ns hs =>
    simp only [Shape, Bool.and_eq_true, List.isEmpty_iff] at hp
    obtain ⟨rfl, rfl⟩ := hp
    simp only [esubF, Option.some.injEq] at h; subst h
    simp [expand, Py.esub, Shape, isMetaN, hplug]
  | esub p' y q =>
    simp only [esubF, Option.some.injEq] at h; subst h
    simp [expand, Py.esub, Shape, isMetaN, hplug] at hp ⊢
    exact hp
  | ssub p' y q =>
    simp only [esubF, Option.some.injEq] at h; subst h
    simp [expand, Py.esub, Shape, isMetaN, hplug] at hp ⊢
    exact hp
  | inst p' m =>
    simp only [Shape, Bool.and_eq_true] at hp
    simp only [esubF, Option.bind_eq_bind, Option.bind_eq_some_iff] at h
    obtain ⟨s, hs, hr⟩ := h
    obtain ⟨es, ss⟩ := hi _ _ _ hp.1 hp.2 hs
    obtain ⟨er, sr⟩ := he _ _ _ _ ss hplug hr
    exact ⟨by rw [er, es]; simp only [expand], sr⟩

theorem ssub_step (n : Nat) (hi : InstOK n) (he : SsubOK n) : SsubOK (n + 1) := by
  intro x plug p r hp hplug h
  cases p with
  | svar y =>
    simp only [ssubF, Option.some.injEq] at h; subst h
    simp only [expand, Py.ssub]
    split <;> simp_all [expand, Shape]
  | evar y => simp only [ssubF, Option.some.injEq] at h; subst h; simp [expand, Py.ssub, Shape]
  | sym y => simp only [ssubF, Option.some.injEq] at h; subst h; simp [expand, Py.ssub, Shape]
  | imp l r' =>
    simp only [Shape, Bool.and_eq_true] at hp
    simp only [ssubF, Option.bind_eq_bind, Option.pure_def, Option.bind_eq_some_iff,
      Option.some.injEq] at h
    obtain ⟨a, ha, b, hb, rfl⟩ := h
    obtain ⟨ea, sa⟩ := he _ _ _ _ hp.1 hplug ha
    obtain ⟨eb, sb⟩ := he _ _ _ _ hp.2 hplug hb
    simp [expand, Py.ssub, Shape, ea, eb, sa, sb]
  | app l r' =>
    simp only [Shape, Bool.and_eq_true] at hp
    simp only [ssubF, Option.bind_eq_bind, Option.pure_def, Option.bind_eq_some_iff,
      Option.some.injEq] at h
    obtain ⟨a, ha, b, hb, rfl⟩ := h
    obtain ⟨ea, sa⟩ := he _ _ _ _ hp.1 hplug ha
    obtain ⟨eb, sb⟩ := he _ _ _ _ hp.2 hplug hb
    simp [expand, Py.ssub, Shape, ea, eb, sa, sb]
  | mu y q =>
    simp only [Shape] at hp
    simp only [ssubF] at h
    split at h
    · next hy =>
      simp only [Option.some.injEq] at h; subst h
      simp [expand, Py.ssub, Shape, hy, hp]
    · next hy =>
      simp only [Option.bind_eq_bind, Option.pure_def, Option.bind_eq_some_iff,
        Option.some.injEq] at h
      obtain ⟨a, ha, rfl⟩ := h
      obtain ⟨ea, sa⟩ := he _ _ _ _ hp hplug ha
      simp [expand, Py.ssub, Shape, hy, ea, sa]
  | ex y q =>
    simp only [Shape] at hp
    simp only [ssubF, Option.bind_eq_bind, Option.pure_def, Option.bind_eq_some_iff,
      Option.some.injEq] at h
    obtain ⟨a, ha, rfl⟩ := h
    obtain ⟨ea, sa⟩ := he _ _ _ _ hp hplug ha
    simp [expand, Py.ssub, Shape, ea, sa]
  | mv id ef sf ps ns hs =>
    simp only [Shape, Bool.and_eq_true, List.isEmpty_iff] at hp
    obtain ⟨rfl, rfl⟩ := hp
    simp only [ssubF, Option.some.injEq] at h; subst h
    simp [expand, Py.ssub, Shape, isMetaN, hplug]
  | esub p' y q =>
    simp only [ssubF, Option.some.injEq] at h; subst h
    simp [expand, Py.ssub, Shape, isMetaN, hplug] at hp ⊢
    exact hp
  | ssub p' y q =>
    simp only [ssubF, Option.some.injEq] at h; subst h
    simp [expand, Py.ssub, Shape, isMetaN, hplug] at hp ⊢
    exact hp
  | inst p' m =>
    simp only [Shape, Bool.and_eq_true] at hp
    simp only [ssubF, Option.bind_eq_bind, Option.bind_eq_some_iff] at h
    obtain ⟨s, hs, hr⟩ := h
    obtain ⟨es, ss⟩ := hi _ _ _ hp.1 hp.2 hs
    obtain ⟨er, sr⟩ := he _ _ _ _ ss hplug hr
    exact ⟨by rw [er, es]; simp only [expand], sr⟩

theorem map_step (n : Nat) (hi : InstOK n) (hm : MapOK n) : MapOK (n + 1) := by
  intro δ m m' hsm hδ h
  cases m with
  | nil =>
    simp only [mapF, Option.some.injEq] at h; subst h
    simp [expand.expandMap, Py.lookup, ShapeMap]
  | cons kv r =>
    obtain ⟨k, v⟩ := kv
    simp only [ShapeMap, Bool.and_eq_true] at hsm
    simp only [mapF, Option.bind_eq_bind, Option.pure_def, Option.bind_eq_some_iff,
      Option.some.injEq] at h
    obtain ⟨a, ha, b, hb, rfl⟩ := h
    obtain ⟨ea, sa⟩ := hi _ _ _ hsm.1 hδ ha
    obtain ⟨eb, sb⟩ := hm _ _ _ hsm.2 hδ hb
    refine ⟨?_, by simp [ShapeMap, sa, sb]⟩
    intro i
    simp only [expand.expandMap, Py.lookup]
    split
    · simp [ea]
    · exact eb i

def MvOK (n : Nat) : Prop :=
  ∀ (p : NPat) (L : List VId), p.Shape = true → metavarsF n p = some L →
    ∀ j, j ∈ L ↔ j ∈ Py.metavars p.expand

theorem mv_step (n : Nat) (hi : InstOK n) (hv : MvOK n) : MvOK (n + 1) := by
  intro p L hp h
  cases p with
  | evar y => simp only [metavarsF, Option.some.injEq] at h; subst h; simp [expand, Py.metavars]
  | svar y => simp only [metavarsF, Option.some.injEq] at h; subst h; simp [expand, Py.metavars]
  | sym y => simp only [metavarsF, Option.some.injEq] at h; subst h; simp [expand, Py.metavars]
  | mv id ef sf ps ns hs =>
    simp only [metavarsF, Option.some.injEq] at h; subst h; simp [expand, Py.metavars]
  | imp l r' =>
    simp only [Shape, Bool.and_eq_true] at hp
    simp only [metavarsF, Option.bind_eq_bind, Option.pure_def, Option.bind_eq_some_iff,
      Option.some.injEq] at h
    obtain ⟨a, ha, b, hb, rfl⟩ := h
    intro j
    simp only [expand, Py.metavars, List.mem_append, hv _ _ hp.1 ha j, hv _ _ hp.2 hb j]
  | app l r' =>
    simp only [Shape, Bool.and_eq_true] at hp
    simp only [metavarsF, Option.bind_eq_bind, Option.pure_def, Option.bind_eq_some_iff,
      Option.some.injEq] at h
    obtain ⟨a, ha, b, hb, rfl⟩ := h
    intro j
    simp only [expand, Py.metavars, List.mem_append, hv _ _ hp.1 ha j, hv _ _ hp.2 hb j]
  | ex y q =>
    simp only [Shape] at hp
    simp only [metavarsF] at h
    intro j
    simp only [expand, Py.metavars, hv _ _ hp h j]
  | mu y q =>
    simp only [Shape] at hp
    simp only [metavarsF] at h
    intro j
    simp only [expand, Py.metavars, hv _ _ hp h j]
  | esub p' y q =>
    simp only [Shape, Bool.and_eq_true] at hp
    simp only [metavarsF, Option.bind_eq_bind, Option.pure_def, Option.bind_eq_some_iff,
      Option.some.injEq] at h
    obtain ⟨a, ha, b, hb, rfl⟩ := h
    intro j
    simp only [expand, Py.metavars, List.mem_append, hv _ _ hp.1.2 ha j, hv _ _ hp.2 hb j]
  | ssub p' y q =>
    simp only [Shape, Bool.and_eq_true] at hp
    simp only [metavarsF, Option.bind_eq_bind, Option.pure_def, Option.bind_eq_some_iff,
      Option.some.injEq] at h
    obtain ⟨a, ha, b, hb, rfl⟩ := h
    intro j
    simp only [expand, Py.metavars, List.mem_append, hv _ _ hp.1.2 ha j, hv _ _ hp.2 hb j]
  | inst p' m =>
    simp only [Shape, Bool.and_eq_true] at hp
    simp only [metavarsF, Option.bind_eq_bind, Option.bind_eq_some_iff] at h
    obtain ⟨s, hs, hL⟩ := h
    obtain ⟨es, ss⟩ := hi _ _ _ hp.1 hp.2 hs
    intro j
    rw [hv _ _ ss hL j, es]; simp only [expand]

theorem inst_step (n : Nat) (hi : InstOK n) (hm : MapOK n) (he : EsubOK n) (hs : SsubOK n)
    (hv : MvOK n) :
    InstOK (n + 1) := by
  intro δ p r hp hδ h
  cases p with
  | evar y => simp only [instF, Option.some.injEq] at h; subst h; simp [expand, Py.inst, Shape]
  | svar y => simp only [instF, Option.some.injEq] at h; subst h; simp [expand, Py.inst, Shape]
  | sym y => simp only [instF, Option.some.injEq] at h; subst h; simp [expand, Py.inst, Shape]
  | mv id ef sf ps ns hs =>
    simp only [instF, Option.some.injEq] at h; subst h
    simp only [expand, Py.inst, lookup_expandMap]
    cases hl : Py.lookup δ id with
    | none => simp [expand, hp]
    | some v => simp [shape_of_lookup δ hδ id v hl]
  | imp l r' =>
    simp only [instF] at h
    split at h
    · next hemp =>
      simp only [Option.some.injEq] at h; subst h
      exact ⟨inst_isEmpty δ hemp _ hp, hp⟩
    · simp only [Shape, Bool.and_eq_true] at hp
      simp only [Option.bind_eq_bind, Option.pure_def, Option.bind_eq_some_iff,
        Option.some.injEq] at h
      obtain ⟨a, ha, b, hb, rfl⟩ := h
      obtain ⟨ea, sa⟩ := hi _ _ _ hp.1 hδ ha
      obtain ⟨eb, sb⟩ := hi _ _ _ hp.2 hδ hb
      simp [expand, Py.inst, Shape, ea, eb, sa, sb]
  | app l r' =>
    simp only [instF] at h
    split at h
    · next hemp =>
      simp only [Option.some.injEq] at h; subst h
      exact ⟨inst_isEmpty δ hemp _ hp, hp⟩
    · simp only [Shape, Bool.and_eq_true] at hp
      simp only [Option.bind_eq_bind, Option.pure_def, Option.bind_eq_some_iff,
        Option.some.injEq] at h
      obtain ⟨a, ha, b, hb, rfl⟩ := h
      obtain ⟨ea, sa⟩ := hi _ _ _ hp.1 hδ ha
      obtain ⟨eb, sb⟩ := hi _ _ _ hp.2 hδ hb
      simp [expand, Py.inst, Shape, ea, eb, sa, sb]
  | ex y q =>
    simp only [instF] at h
    split at h
    · next hemp =>
      simp only [Option.some.injEq] at h; subst h
      exact ⟨inst_isEmpty δ hemp _ hp, hp⟩
    · simp only [Shape] at hp
      simp only [Option.bind_eq_bind, Option.pure_def, Option.bind_eq_some_iff,
        Option.some.injEq] at h
      obtain ⟨a, ha, rfl⟩ := h
      obtain ⟨ea, sa⟩ := hi _ _ _ hp hδ ha
      simp [expand, Py.inst, Shape, ea, sa]
  | mu y q =>
    simp only [instF] at h
    split at h
    · next hemp =>
      simp only [Option.some.injEq] at h; subst h
      exact ⟨inst_isEmpty δ hemp _ hp, hp⟩
    · simp only [Shape] at hp
      simp only [Option.bind_eq_bind, Option.pure_def, Option.bind_eq_some_iff,
        Option.some.injEq] at h
      obtain ⟨a, ha, rfl⟩ := h
      obtain ⟨ea, sa⟩ := hi _ _ _ hp hδ ha
      simp [expand, Py.inst, Shape, ea, sa]
  | esub p' y q =>
    simp only [instF] at h
    split at h
    · next hemp =>
      simp only [Option.some.injEq] at h; subst h
      exact ⟨inst_isEmpty δ hemp _ hp, hp⟩
    · simp only [Shape, Bool.and_eq_true] at hp
      simp only [Option.bind_eq_bind, Option.bind_eq_some_iff] at h
      obtain ⟨a, ha, b, hb, hr⟩ := h
      obtain ⟨ea, sa⟩ := hi _ _ _ hp.1.2 hδ ha
      obtain ⟨eb, sb⟩ := hi _ _ _ hp.2 hδ hb
      obtain ⟨er, sr⟩ := he _ _ _ _ sa sb hr
      exact ⟨by rw [er, ea, eb]; simp only [expand, Py.inst], sr⟩
  | ssub p' y q =>
    simp only [instF] at h
    split at h
    · next hemp =>
      simp only [Option.some.injEq] at h; subst h
      exact ⟨inst_isEmpty δ hemp _ hp, hp⟩
    · simp only [Shape, Bool.and_eq_true] at hp
      simp only [Option.bind_eq_bind, Option.bind_eq_some_iff] at h
      obtain ⟨a, ha, b, hb, hr⟩ := h
      obtain ⟨ea, sa⟩ := hi _ _ _ hp.1.2 hδ ha
      obtain ⟨eb, sb⟩ := hi _ _ _ hp.2 hδ hb
      obtain ⟨er, sr⟩ := hs _ _ _ _ sa sb hr
      exact ⟨by rw [er, ea, eb]; simp only [expand, Py.inst], sr⟩
  | inst p' m =>
    simp only [Shape, Bool.and_eq_true] at hp
    simp only [instF, Option.bind_eq_bind, Option.pure_def, Option.bind_eq_some_iff,
      Option.some.injEq] at h
    obtain ⟨m', hm', mvs, hmvs, rfl⟩ := h
    obtain ⟨hmap, sm'⟩ := hm _ _ _ hp.2 hδ hm'
    constructor
    · simp only [expand]
      rw [Py.inst_comp _ _ (shape_expandMap m hp.2) _ (shape_expand p' hp.1)]
      apply Py.inst_congr
      intro k hk
      have hk' : k ∈ mvs := (hv _ _ hp.1 hmvs k).mpr hk
      rw [expandMap_append, Py.lookup_append, hmap k]
      cases hl : Py.lookup (expand.expandMap m) k with
      | some v => simp
      | none =>
        simp only [Option.map_none, Option.none_or]
        rw [lookup_expandMap] at hl
        have hl' : Py.lookup m k = none := by simpa using hl
        have hkeys := lookup_none_keys m k hl'
        rw [lookup_expandMap, lookup_expandMap, lookup_dedupKeys _ _ _ (by simp),
          Py.lookup_filter _ (fun k => !(keys m).contains k && mvs.contains k)
            (by intros; rfl)]
        have hkeys' : k ∉ keys m := by simpa using hkeys
        simp [hkeys', hk']
    · simp [Shape, hp.1, shapeMap_append, sm',
        shapeMap_dedupKeys _ _ (shapeMap_filter _ _ hδ)]

theorem all_ok (n : Nat) : InstOK n ∧ MapOK n ∧ EsubOK n ∧ SsubOK n ∧ MvOK n := by
  induction n with
  | zero =>
    refine ⟨?_, ?_, ?_, ?_, ?_⟩
    · intro δ p r _ _ h; simp [instF] at h
    · intro δ m m' _ _ h; simp [mapF] at h
    · intro x plug p r _ _ h; simp [esubF] at h
    · intro x plug p r _ _ h; simp [ssubF] at h
    · intro p L _ h; simp [metavarsF] at h
  | succ n ih =>
    obtain ⟨hi, hm, he, hs, hv⟩ := ih
    exact ⟨inst_step n hi hm he hs hv, map_step n hi hm, esub_step n hi he, ssub_step n hi hs,
      mv_step n hi hv⟩

theorem instF_expand (n : Nat) (δ : List (Nat × NPat)) (p r : NPat) :
    p.Shape = true → NPat.ShapeMap δ = true → NPat.instF n δ p = some r →
    r.expand = Py.inst (Py.lookup (NPat.expand.expandMap δ)) p.expand ∧ r.Shape = true :=
  (all_ok n).1 δ p r

theorem mapF_expand (n : Nat) (δ m m' : List (Nat × NPat)) :
    ShapeMap m = true → ShapeMap δ = true → mapF n δ m = some m' →
    (∀ i, Py.lookup (expand.expandMap m') i =
        (Py.lookup (expand.expandMap m) i).map (Py.inst (Py.lookup (expand.expandMap δ)))) ∧
      ShapeMap m' = true :=
  (all_ok n).2.1 δ m m'

theorem esubF_expand (n : Nat) (x : VId) (plug p r : NPat) :
    p.Shape = true → plug.Shape = true → NPat.esubF n x plug p = some r →
    r.expand = Py.esub x plug.expand p.expand ∧ r.Shape = true :=
  (all_ok n).2.2.1 x plug p r

theorem ssubF_expand (n : Nat) (x : VId) (plug p r : NPat) :
    p.Shape = true → plug.Shape = true → NPat.ssubF n x plug p = some r →
    r.expand = Py.ssub x plug.expand p.expand ∧ r.Shape = true :=
  (all_ok n).2.2.2.1 x plug p r

theorem metavarsF_expand (n : Nat) (p : NPat) (L : List VId) :
    p.Shape = true → NPat.metavarsF n p = some L → ∀ j, j ∈ L ↔ j ∈ Py.metavars p.expand :=
  (all_ok n).2.2.2.2 p L

/-! ## Theorem 5: `evar_is_free` -/

theorem evarIsFreeF_expand (n : Nat) (e : VId) (p : NPat) (b : Bool) :
    p.Shape = true → NPat.evarIsFreeF n e p = some b → b = p.expand.eFresh e := by
  induction n generalizing p b with
  | zero => intro _ h; simp [evarIsFreeF] at h
  | succ n ih =>
    intro hp h
    cases p with
    | evar x => simp only [evarIsFreeF, Option.some.injEq] at h; subst h; simp [expand, Pat.eFresh]
    | svar x => simp only [evarIsFreeF, Option.some.injEq] at h; subst h; simp [expand, Pat.eFresh]
    | sym x => simp only [evarIsFreeF, Option.some.injEq] at h; subst h; simp [expand, Pat.eFresh]
    | mv id ef sf ps ns hs =>
      simp only [evarIsFreeF, Option.some.injEq] at h; subst h; simp [expand, Pat.eFresh]
    | imp l r =>
      simp only [Shape, Bool.and_eq_true] at hp
      simp only [evarIsFreeF, Option.bind_eq_bind, Option.pure_def, Option.bind_eq_some_iff,
        Option.some.injEq] at h
      obtain ⟨a, ha, c, hc, rfl⟩ := h
      rw [ih _ _ hp.1 ha, ih _ _ hp.2 hc]; simp [expand, Pat.eFresh]
    | app l r =>
      simp only [Shape, Bool.and_eq_true] at hp
      simp only [evarIsFreeF, Option.bind_eq_bind, Option.pure_def, Option.bind_eq_some_iff,
        Option.some.injEq] at h
      obtain ⟨a, ha, c, hc, rfl⟩ := h
      rw [ih _ _ hp.1 ha, ih _ _ hp.2 hc]; simp [expand, Pat.eFresh]
    | ex x q =>
      simp only [Shape] at hp
      simp only [evarIsFreeF] at h
      split at h
      · next hx =>
        simp only [Option.some.injEq] at h; subst h
        simp [expand, Pat.eFresh, hx]
      · next hx =>
        rw [ih _ _ hp h]; simp [expand, Pat.eFresh, hx]
    | mu x q =>
      simp only [Shape] at hp
      simp only [evarIsFreeF] at h
      rw [ih _ _ hp h]; simp [expand, Pat.eFresh]
    | esub q x plug =>
      simp only [Shape, Bool.and_eq_true] at hp
      simp only [evarIsFreeF] at h
      split at h
      · next hx =>
        have hx' : e = x := by simpa using Eq.symm (beq_iff_eq.mp hx)
        rw [ih _ _ hp.2 h]; simp [expand, Pat.eFresh, hx']
      · next hx =>
        have hx' : ¬ e = x := by intro he; apply hx; simp [he]
        simp only [Option.bind_eq_bind, Option.pure_def, Option.bind_eq_some_iff] at h
        obtain ⟨a, ha, hb⟩ := h
        have ea := ih _ _ hp.1.2 ha
        cases a with
        | true =>
          simp only [if_true] at hb
          have eb := ih _ _ hp.2 hb
          simp [expand, Pat.eFresh, hx', ← ea, ← eb]
        | false =>
          simp at hb; subst hb
          simp [expand, Pat.eFresh, hx', ← ea]
    | ssub q x plug =>
      simp only [Shape, Bool.and_eq_true] at hp
      simp only [evarIsFreeF, Option.bind_eq_bind, Option.pure_def, Option.bind_eq_some_iff] at h
      obtain ⟨a, ha, hb⟩ := h
      have ea := ih _ _ hp.1.2 ha
      cases a with
      | true =>
        simp only [if_true] at hb
        have eb := ih _ _ hp.2 hb
        simp [expand, Pat.eFresh, ← ea, ← eb]
      | false =>
        simp at hb; subst hb
        simp [expand, Pat.eFresh, ← ea]
    | inst q m =>
      simp only [Shape, Bool.and_eq_true] at hp
      simp only [evarIsFreeF, Option.bind_eq_bind, Option.bind_eq_some_iff] at h
      obtain ⟨s, hs, hb⟩ := h
      obtain ⟨es, ss⟩ := instF_expand _ _ _ _ hp.1 hp.2 hs
      rw [ih _ _ ss hb, es]; simp only [expand]

/-! ## Theorem 6: Python `==` -/

theorem beq_dec {α} [BEq α] [LawfulBEq α] [DecidableEq α] (a b : α) :
    (a == b) = decide (a = b) := by
  rw [Bool.eq_iff_iff]; simp

/-- the induction hypothesis of `peqF_expand` at fuel `n` -/
def PeqOK (n : Nat) : Prop :=
  ∀ (a b : NPat) (r : Bool), a.Shape = true → b.Shape = true → peqF n a b = some r →
    r = decide (a.expand = b.expand)

theorem peq_instL (n : Nat) (ih : PeqOK n) (p : NPat) (m : List (Nat × NPat)) (b : NPat)
    (r : Bool) (ha : (inst p m).Shape = true) (hb : b.Shape = true)
    (h : ∃ s, instF n m p = some s ∧ peqF n s b = some r) :
    r = decide ((inst p m).expand = b.expand) := by
  simp only [Shape, Bool.and_eq_true] at ha
  obtain ⟨s, hs, hr⟩ := h
  obtain ⟨es, ss⟩ := instF_expand _ _ _ _ ha.1 ha.2 hs
  have e : (inst p m).expand = s.expand := by rw [es]; simp only [expand]
  rw [e]; exact ih _ _ _ ss hb hr

theorem peq_instR (n : Nat) (ih : PeqOK n) (a p : NPat) (m : List (Nat × NPat))
    (r : Bool) (ha : a.Shape = true) (hb : (inst p m).Shape = true)
    (h : ∃ s, instF n m p = some s ∧ peqF n s a = some r) :
    r = decide (a.expand = (inst p m).expand) := by
  rw [peq_instL n ih p m a r hb ha h]
  exact decide_eq_decide.mpr ⟨Eq.symm, Eq.symm⟩

/-- the two-field, short-circuiting comparison (`imp`, `app`) -/
theorem peq_two (n : Nat) (ih : PeqOK n) (l r l' r' : NPat) (res : Bool)
    (hl : l.Shape = true) (hr : r.Shape = true) (hl' : l'.Shape = true) (hr' : r'.Shape = true)
    (h : ∃ a, peqF n l l' = some a ∧ (if a = true then peqF n r r' else some false) = some res) :
    res = decide (l.expand = l'.expand ∧ r.expand = r'.expand) := by
  obtain ⟨a, ha, hres⟩ := h
  have ea := ih _ _ _ hl hl' ha
  cases a with
  | true =>
    simp only [if_true] at hres
    have er := ih _ _ _ hr hr' hres
    have : l.expand = l'.expand := by simpa using ea.symm
    simp [er, this]
  | false =>
    simp at hres; subst hres
    have : ¬ l.expand = l'.expand := by simpa using ea.symm
    simp [this]

/-- the three-field, short-circuiting comparison (`esub`, `ssub`) -/
theorem peq_three (n : Nat) (ih : PeqOK n) (p q p' q' : NPat) (x x' : VId) (res : Bool)
    (hp : p.Shape = true) (hq : q.Shape = true) (hp' : p'.Shape = true) (hq' : q'.Shape = true)
    (h : ∃ a, peqF n p p' = some a ∧
      (if (!a) = true then some false else if (x != x') = true then some false else peqF n q q')
        = some res) :
    res = decide (p.expand = p'.expand ∧ x = x' ∧ q.expand = q'.expand) := by
  obtain ⟨a, ha, hres⟩ := h
  have ea := ih _ _ _ hp hp' ha
  cases a with
  | true =>
    have hpe : p.expand = p'.expand := by simpa using ea.symm
    simp only [Bool.not_true, Bool.false_eq_true, if_false] at hres
    split at hres
    · next hx =>
      simp at hres; subst hres
      have : ¬ x = x' := by simpa using hx
      simp [this]
    · next hx =>
      have hx' : x = x' := by simpa using hx
      have er := ih _ _ _ hq hq' hres
      simp [er, hpe, hx']
  | false =>
    simp at hres; subst hres
    have : ¬ p.expand = p'.expand := by simpa using ea.symm
    simp [this]

/-- the one-field comparison under a binder (`ex`, `mu`) -/
theorem peq_bind (n : Nat) (ih : PeqOK n) (p q : NPat) (x y : VId) (res : Bool)
    (hp : p.Shape = true) (hq : q.Shape = true)
    (h : (if (x == y) = true then peqF n p q else some false) = some res) :
    res = decide (x = y ∧ p.expand = q.expand) := by
  split at h
  · next hx =>
    have hx' : x = y := by simpa using hx
    have er := ih _ _ _ hp hq h
    simp [er, hx']
  · next hx =>
    simp at h; subst h
    have : ¬ x = y := by simpa using hx
    simp [this]

theorem peq_step (n : Nat) (ih : PeqOK n) : PeqOK (n + 1) := by
  intro a b r ha hb h
  cases a with
  | inst p m =>
    simp only [peqF, Option.bind_eq_bind, Option.bind_eq_some_iff] at h
    exact peq_instL n ih _ _ _ _ ha hb h
  | evar x =>
    cases b with
    | inst p m =>
      simp only [peqF, Option.bind_eq_bind, Option.bind_eq_some_iff] at h
      exact peq_instR n ih _ _ _ _ ha hb h
    | evar y => simp only [peqF, Option.some.injEq] at h; subst h; simp [expand, beq_dec]
    | _ => simp only [peqF, Option.some.injEq] at h; subst h; simp [expand]
  | svar x =>
    cases b with
    | inst p m =>
      simp only [peqF, Option.bind_eq_bind, Option.bind_eq_some_iff] at h
      exact peq_instR n ih _ _ _ _ ha hb h
    | svar y => simp only [peqF, Option.some.injEq] at h; subst h; simp [expand, beq_dec]
    | _ => simp only [peqF, Option.some.injEq] at h; subst h; simp [expand]
  | sym x =>
    cases b with
    | inst p m =>
      simp only [peqF, Option.bind_eq_bind, Option.bind_eq_some_iff] at h
      exact peq_instR n ih _ _ _ _ ha hb h
    | sym y => simp only [peqF, Option.some.injEq] at h; subst h; simp [expand, beq_dec]
    | _ => simp only [peqF, Option.some.injEq] at h; subst h; simp [expand]
  | mv i ef sf ps ns hs =>
    cases b with
    | inst p m =>
      simp only [peqF, Option.bind_eq_bind, Option.bind_eq_some_iff] at h
      exact peq_instR n ih _ _ _ _ ha hb h
    | mv i' ef' sf' ps' ns' hs' =>
      simp only [peqF, Option.some.injEq] at h; subst h
      simp [expand, Bool.decide_and, beq_dec, Bool.and_assoc]
    | _ => simp only [peqF, Option.some.injEq] at h; subst h; simp [expand]
  | imp l r' =>
    cases b with
    | inst p m =>
      simp only [peqF, Option.bind_eq_bind, Option.bind_eq_some_iff] at h
      exact peq_instR n ih _ _ _ _ ha hb h
    | imp l' r'' =>
      simp only [Shape, Bool.and_eq_true] at ha hb
      simp only [peqF, Option.bind_eq_bind, Option.pure_def, Option.bind_eq_some_iff] at h
      rw [peq_two n ih _ _ _ _ _ ha.1 ha.2 hb.1 hb.2 h]; simp [expand]
    | _ => simp only [peqF, Option.some.injEq] at h; subst h; simp [expand]
  | app l r' =>
    cases b with
    | inst p m =>
      simp only [peqF, Option.bind_eq_bind, Option.bind_eq_some_iff] at h
      exact peq_instR n ih _ _ _ _ ha hb h
    | app l' r'' =>
      simp only [Shape, Bool.and_eq_true] at ha hb
      simp only [peqF, Option.bind_eq_bind, Option.pure_def, Option.bind_eq_some_iff] at h
      rw [peq_two n ih _ _ _ _ _ ha.1 ha.2 hb.1 hb.2 h]; simp [expand]
    | _ => simp only [peqF, Option.some.injEq] at h; subst h; simp [expand]
  | ex x p =>
    cases b with
    | inst p m =>
      simp only [peqF, Option.bind_eq_bind, Option.bind_eq_some_iff] at h
      exact peq_instR n ih _ _ _ _ ha hb h
    | ex y q =>
      simp only [Shape] at ha hb
      simp only [peqF] at h
      rw [peq_bind n ih _ _ _ _ _ ha hb h]; simp [expand]
    | _ => simp only [peqF, Option.some.injEq] at h; subst h; simp [expand]
  | mu x p =>
    cases b with
    | inst p m =>
      simp only [peqF, Option.bind_eq_bind, Option.bind_eq_some_iff] at h
      exact peq_instR n ih _ _ _ _ ha hb h
    | mu y q =>
      simp only [Shape] at ha hb
      simp only [peqF] at h
      rw [peq_bind n ih _ _ _ _ _ ha hb h]; simp [expand]
    | _ => simp only [peqF, Option.some.injEq] at h; subst h; simp [expand]
  | esub p x q =>
    cases b with
    | inst p m =>
      simp only [peqF, Option.bind_eq_bind, Option.bind_eq_some_iff] at h
      exact peq_instR n ih _ _ _ _ ha hb h
    | esub p' x' q' =>
      simp only [Shape, Bool.and_eq_true] at ha hb
      simp only [peqF, Option.bind_eq_bind, Option.pure_def, Option.bind_eq_some_iff] at h
      rw [peq_three n ih _ _ _ _ _ _ _ ha.1.2 ha.2 hb.1.2 hb.2 h]; simp [expand]
    | _ => simp only [peqF, Option.some.injEq] at h; subst h; simp [expand]
  | ssub p x q =>
    cases b with
    | inst p m =>
      simp only [peqF, Option.bind_eq_bind, Option.bind_eq_some_iff] at h
      exact peq_instR n ih _ _ _ _ ha hb h
    | ssub p' x' q' =>
      simp only [Shape, Bool.and_eq_true] at ha hb
      simp only [peqF, Option.bind_eq_bind, Option.pure_def, Option.bind_eq_some_iff] at h
      rw [peq_three n ih _ _ _ _ _ _ _ ha.1.2 ha.2 hb.1.2 hb.2 h]; simp [expand]
    | _ => simp only [peqF, Option.some.injEq] at h; subst h; simp [expand]

theorem peqF_expand (n : Nat) (a b : NPat) (r : Bool) :
    a.Shape = true → b.Shape = true → NPat.peqF n a b = some r →
    r = decide (a.expand = b.expand) := by
  induction n generalizing a b r with
  | zero => intro _ _ h; simp [peqF] at h
  | succ n ih => exact peq_step n (fun a b r => ih a b r) a b r

end NPat

#print axioms NPat.shape_expand
#print axioms NPat.instF_expand
#print axioms NPat.esubF_expand
#print axioms NPat.ssubF_expand
#print axioms NPat.evarIsFreeF_expand
#print axioms NPat.peqF_expand
#print axioms NPat.metavarsF_expand
#print axioms Py.inst_esub_comm
#print axioms Py.inst_ssub_comm
#print axioms Py.inst_comp
#print axioms Py.inst_congr
#print axioms Py.inst_empty
